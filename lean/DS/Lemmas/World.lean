import DS.Model.World
/-!
Lemmas about the object-graph model `DS.Model.World` (property C08).

1. naturality of the CPython list primitives and of `Edit.apply` under `List.map`;
2. naturality of the planner `planG` under a map of the element type (the bridge between the heap
   model and the plain-list specification);
3. frame lemmas of the heap primitives (`copySome`, `setLats`, `setAtoms`, …).
-/
namespace DS.World

section Natural
variable {α β : Type} (f : α → β)

theorem pick_map (l : List α) (idxs : List Nat) : pick (l.map f) idxs = (pick l idxs).map f := by
  unfold pick
  rw [List.map_filterMap]
  congr 1
  funext i
  simp

theorem dropIdx_map (idxs : List Nat) (l : List α) (k : Nat) :
    dropIdx idxs (l.map f) k = (dropIdx idxs l k).map f := by
  induction l generalizing k with
  | nil => rfl
  | cons a l ih =>
    simp only [List.map_cons, dropIdx]
    split <;> simp [ih]

theorem setMany_map (l : List α) (is : List Nat) (ys : List α) :
    setMany (l.map f) is (ys.map f) = (setMany l is ys).map f := by
  induction is generalizing l ys with
  | nil => cases ys <;> simp [setMany]
  | cons i is ih =>
    cases ys with
    | nil => simp [setMany]
    | cons y ys => simp only [List.map_cons, setMany, ← List.map_set, ih]

theorem eraseIdx_map (l : List α) (k : Nat) : (l.map f).eraseIdx k = (l.eraseIdx k).map f := by
  induction l generalizing k with
  | nil => rfl
  | cons a l ih => cases k <;> simp [List.eraseIdx, ih]

theorem rep_map (n : Nat) (l : List α) : rep n (l.map f) = (rep n l).map f := by
  induction n with
  | zero => rfl
  | succ n ih => simp [rep, ih]

/-- the image of an edit result -/
def mapRes (r : Except Err (List α × Option α)) : Except Err (List β × Option β) :=
  match r with
  | .ok (l, o) => .ok (l.map f, o.map f)
  | .error e => .error e

theorem Edit.apply_map (e : Edit) (old ys : List α) :
    e.apply (old.map f) (ys.map f) = mapRes f (e.apply old ys) := by
  cases e with
  | append => simp [Edit.apply, mapRes]
  | insert i => simp [Edit.apply, mapRes, List.map_take, List.map_drop]
  | setInt i =>
    simp only [Edit.apply, List.length_map]
    cases normIdx old.length i with
    | none => simp [mapRes]
    | some k =>
      cases ys with
      | nil => simp [mapRes]
      | cons y ys =>
        cases ys with
        | nil => simp [mapRes, List.map_set]
        | cons z zs => simp [mapRes]
  | setSlice sl =>
    simp only [Edit.apply, List.length_map]
    cases sliceAdjust old.length sl with
    | error e => simp [mapRes]
    | ok a =>
      simp only
      split
      · simp [mapRes, List.map_take, List.map_drop]
      · split
        · simp [mapRes]
        · simp [mapRes, setMany_map]
  | replace => simp [Edit.apply, mapRes]
  | delInt i =>
    simp only [Edit.apply, List.length_map]
    cases normIdx old.length i <;> simp [mapRes, eraseIdx_map]
  | delSlice sl =>
    simp only [Edit.apply, List.length_map]
    cases sliceAdjust old.length sl <;> simp [mapRes, dropIdx_map]
  | pop i =>
    simp only [Edit.apply, List.length_map]
    cases normIdx old.length (i.getD (-1)) <;> simp [mapRes, eraseIdx_map]
  | delAt k => simp [Edit.apply, mapRes, eraseIdx_map]
  | reverse => simp [Edit.apply, mapRes]
  | permute idxs => simp [Edit.apply, mapRes, pick_map]
  | clear => simp [Edit.apply, mapRes]


/-! ### naturality of the planner -/

def emap {γ δ : Type} (g : γ → δ) : Except Err γ → Except Err δ
  | .ok a => .ok (g a)
  | .error e => .error e

@[simp] theorem emap_ok {γ δ : Type} (g : γ → δ) (a : γ) : emap g (.ok a) = .ok (g a) := rfl
@[simp] theorem emap_error {γ δ : Type} (g : γ → δ) (e : Err) : emap g (.error e : Except Err γ) = .error e := rfl

structure ViewRel (v : View α) (v' : View β) : Prop where
  strus : v'.strus = v.strus.map (Option.map (List.map f))
  pool : v'.pool = v.pool.map f
  lab : ∀ a, v'.lab (f a) = v.lab a

def ActRel : Act α → Act β → Prop
  | .plan p, .plan q => q.tgt = p.tgt ∧ q.inc = p.inc.map f ∧ q.edit = p.edit
  | .retAtom a h, .retAtom b h' => b = f a ∧ h' = h
  | .mkAtom p, .mkAtom p' => p' = p
  | .addNew h p, .addNew h' p' => h' = h ∧ p' = p
  | .setLat h s, .setLat h' s' => h' = h ∧ s' = s
  | .drop h, .drop h' => h' = h
  | .copyShape h xs, .copyShape h' ys => h' = h ∧ ys = xs.map f
  | _, _ => False

def ExRel : Except Err (Act α) → Except Err (Act β) → Prop
  | .ok a, .ok b => ActRel f a b
  | .error e, .error e' => e' = e
  | _, _ => False

variable {f}

theorem atoms_nat {v : View α} {v' : View β} (R : ViewRel f v v') (h : Nat) :
    v'.atoms h = emap (List.map f) (v.atoms h) := by
  simp only [View.atoms, R.strus, List.getElem?_map]
  cases v.strus[h]? with
  | none => rfl
  | some o => cases o <;> rfl

theorem aref_nat {v : View α} {v' : View β} (R : ViewRel f v v') (a : ARef) :
    v'.aref a = emap f (v.aref a) := by
  cases a with
  | pool k =>
    simp only [View.aref, R.pool, List.getElem?_map]
    cases v.pool[k]? <;> rfl
  | mem h i =>
    simp only [View.aref, atoms_nat R]
    cases v.atoms h with
    | error e => rfl
    | ok l =>
      simp only [emap_ok, List.length_map, List.getElem?_map]
      cases normIdx l.length i with
      | none => rfl
      | some k => cases hk : l[k]? <;> simp [hk]

theorem mapE_nat {γ : Type} {g : γ → Except Err α} {g' : γ → Except Err β}
    (hg : ∀ b, g' b = emap f (g b)) (xs : List γ) :
    mapE g' xs = emap (List.map f) (mapE g xs) := by
  induction xs with
  | nil => rfl
  | cons b bs ih =>
    simp only [mapE, hg, ih]
    cases g b with
    | error e => rfl
    | ok a => cases mapE g bs <;> rfl

theorem iter_nat {v : View α} {v' : View β} (R : ViewRel f v v') (it : Iter) :
    v'.iter it = emap (fun p => (p.1.map f, p.2)) (v.iter it) := by
  cases it with
  | list xs => simp only [View.iter, mapE_nat (aref_nat R)]; cases mapE v.aref xs <;> rfl
  | gen xs => simp only [View.iter, mapE_nat (aref_nat R)]; cases mapE v.aref xs <;> rfl
  | stru h => simp only [View.iter, atoms_nat R]; cases v.atoms h <;> rfl
  | tolist h => simp only [View.iter, atoms_nat R]; cases v.atoms h <;> rfl
  | genOf h => simp only [View.iter, atoms_nat R]; cases v.atoms h <;> rfl

theorem findLabel_nat {v : View α} {v' : View β} (R : ViewRel f v v') (l : List α) (p : Nat) :
    findLabel v'.lab (l.map f) p = findLabel v.lab l p := by
  simp only [findLabel, List.map_map]
  have : ((fun a => v'.lab a == p) ∘ f) = (fun a => v.lab a == p) := by
    funext a; simp [R.lab]
  rw [this]

theorem resolveKey_nat {v : View α} {v' : View β} (R : ViewRel f v v') (l : List α) (k : Key) :
    resolveKey v'.lab (l.map f) k = resolveKey v.lab l k := by
  cases k with
  | int i => rfl
  | label p => simp only [resolveKey, findLabel_nat R]

theorem planIndex_nat {v : View α} {v' : View β} (R : ViewRel f v v') (h : Nat) (old : List α) (ix : Index) :
    ExRel f (planIndex v h old ix) (planIndex v' h (old.map f) ix) := by
  cases ix with
  | int i =>
    simp only [planIndex, List.length_map, List.getElem?_map]
    cases normIdx old.length i with
    | none => simp [ExRel]
    | some k => cases hk : old[k]? <;> simp [hk, ExRel, ActRel]
  | slice sl =>
    simp only [planIndex, List.length_map]
    cases sliceAdjust old.length sl <;> simp [ExRel, ActRel, selPlan, pick_map]
  | arr is =>
    simp only [planIndex, List.length_map]
    cases mapE (normIdxE old.length) is <;> simp [ExRel, ActRel, selPlan, pick_map]
  | mask bs =>
    simp only [planIndex, List.length_map]
    split <;> simp [ExRel, ActRel, selPlan, pick_map]
  | label p =>
    simp only [planIndex, findLabel_nat R, List.getElem?_map]
    cases findLabel v.lab old p with
    | error e => simp [ExRel]
    | ok k => cases hk : old[k]? <;> simp [hk, ExRel, ActRel]
  | tuple ks =>
    simp only [planIndex, List.length_map]
    split
    · simp [ExRel]
    · have : mapE (resolveKey v'.lab (old.map f)) ks = mapE (resolveKey v.lab old) ks := by
        congr 1; funext k; exact resolveKey_nat R old k
      rw [this]
      cases mapE (resolveKey v.lab old) ks with
      | error e => simp [ExRel]
      | ok is => cases hq : mapE (normIdxE old.length) is <;> simp [hq, ExRel, ActRel, selPlan, pick_map]
  | keys ks =>
    simp only [planIndex, List.length_map]
    have : mapE (resolveKey v'.lab (old.map f)) ks = mapE (resolveKey v.lab old) ks := by
      congr 1; funext k; exact resolveKey_nat R old k
    rw [this]
    cases mapE (resolveKey v.lab old) ks with
    | error e => simp [ExRel]
    | ok is => cases hq : mapE (normIdxE old.length) is <;> simp [hq, ExRel, ActRel, selPlan, pick_map]


/-- the hypothesis under which removal by identity (`-`, `-=`, `remove`) is the same as removal by
payload: within the operands, equal images under `f` come from equal elements -/
def SubAgree (f : α → β) (v : View α) : Op → Prop
  | .sub h it => ∀ old xs b, v.atoms h = .ok old → v.iter it = .ok (xs, b) → ∀ a ∈ old, f a ∈ xs.map f → a ∈ xs
  | .isub h it => ∀ old xs b, v.atoms h = .ok old → v.iter it = .ok (xs, b) → ∀ a ∈ old, f a ∈ xs.map f → a ∈ xs
  | .remove h r => ∀ old x, v.atoms h = .ok old → v.aref r = .ok x → ∀ y ∈ old, f y = f x → y = x
  | _ => True

theorem filter_notin_map [DecidableEq α] [DecidableEq β] (old xs : List α)
    (hag : ∀ a ∈ old, f a ∈ xs.map f → a ∈ xs) :
    (old.map f).filter (fun b => decide (b ∉ xs.map f)) = (old.filter (fun a => decide (a ∉ xs))).map f := by
  rw [List.filter_map]
  congr 1
  apply List.filter_congr
  intro a ha
  simp only [Function.comp, decide_eq_decide]
  constructor
  · intro h1 h2; exact h1 (List.mem_map_of_mem h2)
  · intro h1 h2; exact h1 (hag a ha h2)

theorem idxOfE_map [DecidableEq α] [DecidableEq β] (x : α) (old : List α) (k : Nat)
    (hinj : ∀ y ∈ old, f y = f x → y = x) :
    idxOfE (f x) (old.map f) k = idxOfE x old k := by
  induction old generalizing k with
  | nil => rfl
  | cons a l ih =>
    simp only [List.map_cons, idxOfE]
    by_cases h : a = x
    · simp [h]
    · have h' : f a ≠ f x := fun e => h (hinj a (by simp) e)
      simp only [h, h', if_false]
      exact ih _ (fun y hy => hinj y (List.mem_cons_of_mem _ hy))

theorem checkLat_nat {v : View α} {v' : View β} (R : ViewRel f v v') (lat : Option LatSrc) :
    checkLat v' lat = checkLat v lat := by
  cases lat with
  | none => rfl
  | some l =>
    cases l with
    | fresh => rfl
    | ofStru h' =>
      simp only [checkLat, atoms_nat R]
      cases v.atoms h' <;> rfl

theorem planG_nat [DecidableEq α] [DecidableEq β] {v : View α} {v' : View β} (R : ViewRel f v v')
    (op : Op) (hag : SubAgree f v op) : ExRel f (planG v op) (planG v' op) := by
  cases op with
  | mkAtom p => simp [planG, ExRel, ActRel]
  | mkStru => simp [planG, ExRel, ActRel]
  | addNew h p =>
    simp only [planG, atoms_nat R]
    rcases h1 : v.atoms h with e | old <;> simp [ExRel, ActRel]
  | append h a c =>
    simp only [planG, atoms_nat R, aref_nat R]
    rcases h1 : v.atoms h with e | old <;> simp [ExRel]
    rcases h2 : v.aref a with e | x <;> simp [ExRel, ActRel]
  | insert h i a c =>
    simp only [planG, atoms_nat R, aref_nat R]
    rcases h1 : v.atoms h with e | old <;> simp [ExRel]
    rcases h2 : v.aref a with e | x <;> simp [ExRel, ActRel]
  | extend h it c =>
    simp only [planG, atoms_nat R, iter_nat R]
    rcases h1 : v.atoms h with e | old <;> simp [ExRel]
    rcases h2 : v.iter it with e | ⟨xs, b⟩ <;> simp [ExRel, ActRel]
  | getitem h ix =>
    simp only [planG, atoms_nat R]
    rcases h1 : v.atoms h with e | old <;> simp [ExRel]
    exact planIndex_nat R h old ix
  | setitem h i a c =>
    simp only [planG, atoms_nat R, aref_nat R]
    rcases h1 : v.atoms h with e | old <;> simp [ExRel]
    rcases h2 : v.aref a with e | x <;> simp [ExRel, ActRel]
  | setslice h sl it c =>
    simp only [planG, atoms_nat R, iter_nat R]
    rcases h1 : v.atoms h with e | old <;> simp [ExRel]
    rcases h2 : v.iter it with e | ⟨xs, b⟩ <;> simp [ExRel]
    rcases h3 : sliceAdjust old.length sl with e | a <;> simp [ExRel, ActRel]
  | delitem h i =>
    simp only [planG, atoms_nat R]
    rcases h1 : v.atoms h with e | old <;> simp [ExRel, ActRel]
  | delslice h sl =>
    simp only [planG, atoms_nat R]
    rcases h1 : v.atoms h with e | old <;> simp [ExRel, ActRel]
  | add h it =>
    simp only [planG, atoms_nat R, iter_nat R]
    rcases h1 : v.atoms h with e | old <;> simp [ExRel]
    rcases h2 : v.iter it with e | ⟨xs, b⟩ <;> simp [ExRel, ActRel]
  | iadd h it =>
    simp only [planG, atoms_nat R, iter_nat R]
    rcases h1 : v.atoms h with e | old <;> simp [ExRel]
    rcases h2 : v.iter it with e | ⟨xs, b⟩ <;> simp [ExRel, ActRel]
  | sub h it =>
    simp only [planG, atoms_nat R, iter_nat R]
    rcases h1 : v.atoms h with e | old <;> simp [ExRel]
    rcases h2 : v.iter it with e | ⟨xs, b⟩
    · simp [ExRel]
    · simp only [emap_ok, ExRel, ActRel]
      have := filter_notin_map (f := f) old xs (hag old xs b h1 h2)
      simp only [decide_not] at this
      exact ⟨trivial, this, trivial⟩
  | isub h it =>
    simp only [planG, atoms_nat R, iter_nat R]
    rcases h1 : v.atoms h with e | old <;> simp [ExRel]
    rcases h2 : v.iter it with e | ⟨xs, b⟩
    · simp [ExRel]
    · simp only [emap_ok, ExRel, ActRel]
      have := filter_notin_map (f := f) old xs (hag old xs b h1 h2)
      simp only [decide_not] at this
      exact ⟨trivial, this, trivial⟩
  | mul h n =>
    simp only [planG, atoms_nat R]
    rcases h1 : v.atoms h with e | old <;> simp [ExRel, ActRel, rep_map]
  | imul h n =>
    simp only [planG, atoms_nat R]
    rcases h1 : v.atoms h with e | old <;> simp [ExRel]
    by_cases hn : n ≤ 0 <;> simp [hn, ExRel, ActRel, rep_map]
  | copy h =>
    simp only [planG, atoms_nat R]
    rcases h1 : v.atoms h with e | old <;> simp [ExRel, ActRel]
  | pickle h proto =>
    simp only [planG, atoms_nat R]
    rcases h1 : v.atoms h with e | old <;> simp [ExRel]
    by_cases hp : 2 ≤ proto <;> simp [hp, ExRel, ActRel]
  | deepcopy h =>
    simp only [planG, atoms_nat R]
    rcases h1 : v.atoms h with e | old <;> simp [ExRel, ActRel]
  | setLat h src =>
    simp only [planG, atoms_nat R]
    rcases h1 : v.atoms h with e | old <;> simp [ExRel]
    cases src with
    | fresh => simp [ActRel]
    | ofStru h' =>
      simp only [atoms_nat R]
      rcases h2 : v.atoms h' with e | old' <;> simp [ActRel]
  | pop h i =>
    simp only [planG, atoms_nat R]
    rcases h1 : v.atoms h with e | old <;> simp [ExRel, ActRel]
  | remove h a =>
    simp only [planG, atoms_nat R, aref_nat R]
    rcases h1 : v.atoms h with e | old <;> simp [ExRel]
    rcases h2 : v.aref a with e | x <;> simp [ExRel]
    rw [idxOfE_map x old 0 (hag old x h1 h2)]
    rcases h3 : idxOfE x old 0 with e | k <;> simp [ActRel]
  | reverse h =>
    simp only [planG, atoms_nat R]
    rcases h1 : v.atoms h with e | old <;> simp [ExRel, ActRel]
  | sort h =>
    simp only [planG, atoms_nat R]
    rcases h1 : v.atoms h with e | old <;> simp [ExRel, ActRel]
    congr 1
    apply List.map_congr_left
    intro a _
    exact R.lab a
  | clear h =>
    simp only [planG, atoms_nat R]
    rcases h1 : v.atoms h with e | old <;> simp [ExRel, ActRel]
  | drop h =>
    simp only [planG, atoms_nat R]
    rcases h1 : v.atoms h with e | old <;> simp [ExRel, ActRel]
  | ctor src lat =>
    cases src with
    | none =>
      simp only [planG, checkLat_nat R]
      rcases h1 : checkLat v lat with e | L <;> simp [ExRel, ActRel]
    | some it =>
      simp only [planG, iter_nat R, checkLat_nat R]
      rcases h2 : v.iter it with e | ⟨xs, b⟩ <;> simp [ExRel]
      rcases h1 : checkLat v lat with e | L <;> simp [ExRel, ActRel]

end Natural

/-! ### the elements of a plan come from the view -/

section Origin
variable {α : Type} (P : α → Prop)

def ActAll : Act α → Prop
  | .plan p => (∀ x ∈ p.inc, P x) ∧ (∀ h xs, p.pre = some (h, xs) → ∀ x ∈ xs, P x)
  | .retAtom a _ => P a
  | .copyShape _ xs => ∀ x ∈ xs, P x
  | _ => True

def ViewAll (v : View α) : Prop :=
  (∀ l, some l ∈ v.strus → ∀ a ∈ l, P a) ∧ (∀ a ∈ v.pool, P a)

variable {P}

theorem pick_subset (l : List α) (idxs : List Nat) : ∀ a ∈ pick l idxs, a ∈ l := by
  intro a ha
  simp only [pick, List.mem_filterMap] at ha
  obtain ⟨i, _, hi⟩ := ha
  exact List.mem_of_getElem? hi

theorem rep_subset (n : Nat) (l : List α) : ∀ a ∈ rep n l, a ∈ l := by
  induction n with
  | zero => simp [rep]
  | succ n ih =>
    intro a ha
    simp only [rep, List.mem_append] at ha
    rcases ha with h | h
    · exact h
    · exact ih a h

theorem atoms_all {v : View α} (hv : ViewAll P v) {h : Nat} {l : List α} (hl : v.atoms h = .ok l) :
    ∀ a ∈ l, P a := by
  simp only [View.atoms] at hl
  split at hl
  · rename_i l' heq
    cases hl
    exact hv.1 l (List.mem_of_getElem? heq)
  · cases hl

theorem aref_all {v : View α} (hv : ViewAll P v) {r : ARef} {x : α} (hx : v.aref r = .ok x) : P x := by
  cases r with
  | pool k =>
    simp only [View.aref] at hx
    split at hx
    · rename_i a heq; cases hx; exact hv.2 _ (List.mem_of_getElem? heq)
    · cases hx
  | mem h i =>
    simp only [View.aref] at hx
    split at hx
    · cases hx
    · rename_i l hl
      split at hx
      · cases hx
      · split at hx
        · rename_i a heq; cases hx; exact atoms_all hv hl _ (List.mem_of_getElem? heq)
        · cases hx

theorem mapE_all {γ : Type} {g : γ → Except Err α} (hg : ∀ b x, g b = .ok x → P x) {bs : List γ} {xs : List α}
    (h : mapE g bs = .ok xs) : ∀ x ∈ xs, P x := by
  induction bs generalizing xs with
  | nil => simp only [mapE] at h; cases h; simp
  | cons b bs ih =>
    simp only [mapE] at h
    split at h
    · cases h
    · rename_i a ha
      split at h
      · cases h
      · rename_i as has
        cases h
        intro x hx
        simp only [List.mem_cons] at hx
        rcases hx with hx | hx
        · subst hx; exact hg b _ ha
        · exact ih has x hx

theorem iter_all {v : View α} (hv : ViewAll P v) {it : Iter} {xs : List α} {b : Bool}
    (h : v.iter it = .ok (xs, b)) : ∀ x ∈ xs, P x := by
  cases it with
  | list rs =>
    simp only [View.iter] at h
    split at h
    · rename_i l hl; cases h; exact mapE_all (fun _ _ => aref_all hv) hl
    · cases h
  | gen rs =>
    simp only [View.iter] at h
    split at h
    · rename_i l hl; cases h; exact mapE_all (fun _ _ => aref_all hv) hl
    · cases h
  | stru h' =>
    simp only [View.iter] at h
    split at h
    · rename_i l hl; cases h; exact atoms_all hv hl
    · cases h
  | tolist h' =>
    simp only [View.iter] at h
    split at h
    · rename_i l hl; cases h; exact atoms_all hv hl
    · cases h
  | genOf h' =>
    simp only [View.iter] at h
    split at h
    · rename_i l hl; cases h; exact atoms_all hv hl
    · cases h

theorem planIndex_all {v : View α} {h : Nat} {old : List α} (ho : ∀ a ∈ old, P a) {ix : Index} {act : Act α}
    (hp : planIndex v h old ix = .ok act) : ActAll P act := by
  cases ix <;> simp only [planIndex] at hp <;> (repeat' split at hp) <;>
    first
    | (cases hp
       simp only [ActAll, selPlan]
       first
       | (rename_i heq; exact ho _ (List.mem_of_getElem? heq))
       | exact ⟨fun x hx => ho x (pick_subset _ _ x hx), by simp⟩)
    | cases hp


theorem planG_all [DecidableEq α] {v : View α} (hv : ViewAll P v) {op : Op} {act : Act α}
    (hp : planG v op = .ok act) : ActAll P act := by
  cases op with
  | mkAtom p => simp only [planG] at hp; cases hp; simp [ActAll]
  | mkStru => simp only [planG] at hp; cases hp; simp [ActAll]
  | addNew h p =>
    simp only [planG] at hp
    rcases h1 : v.atoms h with e | old <;> simp only [h1] at hp
    · cases hp
    · cases hp; simp [ActAll]
  | append h a c =>
    simp only [planG] at hp
    rcases h1 : v.atoms h with e | old <;> simp only [h1] at hp
    · cases hp
    · rcases h2 : v.aref a with e | x <;> simp only [h2] at hp
      · cases hp
      · cases hp
        simp only [ActAll, List.mem_singleton, forall_eq, reduceCtorEq, false_implies, implies_true, and_true]
        exact aref_all hv h2
  | insert h i a c =>
    simp only [planG] at hp
    rcases h1 : v.atoms h with e | old <;> simp only [h1] at hp
    · cases hp
    · rcases h2 : v.aref a with e | x <;> simp only [h2] at hp
      · cases hp
      · cases hp
        simp only [ActAll, List.mem_singleton, forall_eq, reduceCtorEq, false_implies, implies_true, and_true]
        exact aref_all hv h2
  | extend h it c =>
    simp only [planG] at hp
    rcases h1 : v.atoms h with e | old <;> simp only [h1] at hp
    · cases hp
    · rcases h2 : v.iter it with e | ⟨xs, b⟩ <;> simp only [h2] at hp
      · cases hp
      · cases hp; simp only [ActAll, reduceCtorEq, false_implies, implies_true, and_true]; exact iter_all hv h2
  | getitem h ix =>
    simp only [planG] at hp
    rcases h1 : v.atoms h with e | old <;> simp only [h1] at hp
    · cases hp
    · exact planIndex_all (atoms_all hv h1) hp
  | setitem h i a c =>
    simp only [planG] at hp
    rcases h1 : v.atoms h with e | old <;> simp only [h1] at hp
    · cases hp
    · rcases h2 : v.aref a with e | x <;> simp only [h2] at hp
      · cases hp
      · cases hp
        simp only [ActAll, List.mem_singleton, forall_eq, reduceCtorEq, false_implies, implies_true, and_true]
        exact aref_all hv h2
  | setslice h sl it c =>
    simp only [planG] at hp
    rcases h1 : v.atoms h with e | old <;> simp only [h1] at hp
    · cases hp
    · rcases h2 : v.iter it with e | ⟨xs, b⟩ <;> simp only [h2] at hp
      · cases hp
      · rcases h3 : sliceAdjust old.length sl with e | a <;> simp only [h3] at hp
        · cases hp
        · cases hp; simp only [ActAll, reduceCtorEq, false_implies, implies_true, and_true]; exact iter_all hv h2
  | delitem h i =>
    simp only [planG] at hp
    rcases h1 : v.atoms h with e | old <;> simp only [h1] at hp
    · cases hp
    · cases hp; simp [ActAll]
  | delslice h sl =>
    simp only [planG] at hp
    rcases h1 : v.atoms h with e | old <;> simp only [h1] at hp
    · cases hp
    · cases hp; simp [ActAll]
  | add h it =>
    simp only [planG] at hp
    rcases h1 : v.atoms h with e | old <;> simp only [h1] at hp
    · cases hp
    · rcases h2 : v.iter it with e | ⟨xs, b⟩ <;> simp only [h2] at hp
      · cases hp
      · cases hp
        simp only [ActAll, List.mem_append, reduceCtorEq, false_implies, implies_true, and_true]
        intro x hx
        rcases hx with hx | hx
        · exact atoms_all hv h1 x hx
        · exact iter_all hv h2 x hx
  | iadd h it =>
    simp only [planG] at hp
    rcases h1 : v.atoms h with e | old <;> simp only [h1] at hp
    · cases hp
    · rcases h2 : v.iter it with e | ⟨xs, b⟩ <;> simp only [h2] at hp
      · cases hp
      · cases hp; simp only [ActAll, reduceCtorEq, false_implies, implies_true, and_true]; exact iter_all hv h2
  | sub h it =>
    simp only [planG] at hp
    rcases h1 : v.atoms h with e | old <;> simp only [h1] at hp
    · cases hp
    · rcases h2 : v.iter it with e | ⟨xs, b⟩ <;> simp only [h2] at hp
      · cases hp
      · cases hp
        simp only [ActAll, List.mem_filter, Option.some.injEq, Prod.mk.injEq, and_imp]
        refine ⟨fun x hx _ => atoms_all hv h1 x hx, ?_⟩
        intro h' xs' _ hxs x hx
        subst hxs
        exact atoms_all hv h1 x (List.mem_filter.mp hx).1
  | isub h it =>
    simp only [planG] at hp
    rcases h1 : v.atoms h with e | old <;> simp only [h1] at hp
    · cases hp
    · rcases h2 : v.iter it with e | ⟨xs, b⟩ <;> simp only [h2] at hp
      · cases hp
      · cases hp
        simp only [ActAll, List.mem_filter, reduceCtorEq, false_implies, implies_true, and_true, and_imp]
        exact fun x hx _ => atoms_all hv h1 x hx
  | mul h n =>
    simp only [planG] at hp
    rcases h1 : v.atoms h with e | old <;> simp only [h1] at hp
    · cases hp
    · cases hp
      simp only [ActAll, Option.some.injEq, Prod.mk.injEq, and_imp]
      refine ⟨fun x hx => atoms_all hv h1 x (rep_subset _ _ x hx), ?_⟩
      intro h' xs' _ hxs x hx
      subst hxs
      simp at hx
  | imul h n =>
    simp only [planG] at hp
    rcases h1 : v.atoms h with e | old <;> simp only [h1] at hp
    · cases hp
    · by_cases hn : n ≤ 0 <;> simp only [hn, if_true, if_false] at hp <;> cases hp
      · simp [ActAll]
      · simp only [ActAll, reduceCtorEq, false_implies, implies_true, and_true]
        exact fun x hx => atoms_all hv h1 x (rep_subset _ _ x hx)
  | copy h =>
    simp only [planG] at hp
    rcases h1 : v.atoms h with e | old <;> simp only [h1] at hp
    · cases hp
    · cases hp
      simp only [ActAll, reduceCtorEq, false_implies, implies_true, and_true]
      exact atoms_all hv h1
  | pickle h proto =>
    simp only [planG] at hp
    rcases h1 : v.atoms h with e | old <;> simp only [h1] at hp
    · cases hp
    · by_cases hn : 2 ≤ proto <;> simp only [hn, if_true, if_false] at hp <;> cases hp
      · simp only [ActAll, reduceCtorEq, false_implies, implies_true, and_true]
        exact atoms_all hv h1
      · simp only [ActAll]
        exact atoms_all hv h1
  | deepcopy h =>
    simp only [planG] at hp
    rcases h1 : v.atoms h with e | old <;> simp only [h1] at hp
    · cases hp
    · cases hp
      simp only [ActAll, reduceCtorEq, false_implies, implies_true, and_true]
      exact atoms_all hv h1
  | setLat h src =>
    simp only [planG] at hp
    rcases h1 : v.atoms h with e | old <;> simp only [h1] at hp
    · cases hp
    · cases src with
      | fresh => cases hp; simp [ActAll]
      | ofStru h' =>
        simp only at hp
        rcases h2 : v.atoms h' with e | old' <;> simp only [h2] at hp <;> cases hp
        simp [ActAll]
  | pop h i =>
    simp only [planG] at hp
    rcases h1 : v.atoms h with e | old <;> simp only [h1] at hp
    · cases hp
    · cases hp; simp [ActAll]
  | remove h a =>
    simp only [planG] at hp
    rcases h1 : v.atoms h with e | old <;> simp only [h1] at hp
    · cases hp
    · rcases h2 : v.aref a with e | x <;> simp only [h2] at hp
      · cases hp
      · rcases h3 : idxOfE x old 0 with e | k <;> simp only [h3] at hp <;> cases hp
        simp [ActAll]
  | reverse h =>
    simp only [planG] at hp
    rcases h1 : v.atoms h with e | old <;> simp only [h1] at hp
    · cases hp
    · cases hp; simp [ActAll]
  | sort h =>
    simp only [planG] at hp
    rcases h1 : v.atoms h with e | old <;> simp only [h1] at hp
    · cases hp
    · cases hp; simp [ActAll]
  | clear h =>
    simp only [planG] at hp
    rcases h1 : v.atoms h with e | old <;> simp only [h1] at hp
    · cases hp
    · cases hp; simp [ActAll]
  | drop h =>
    simp only [planG] at hp
    rcases h1 : v.atoms h with e | old <;> simp only [h1] at hp
    · cases hp
    · cases hp; simp [ActAll]
  | ctor src lat =>
    cases src with
    | none =>
      simp only [planG] at hp
      rcases h1 : checkLat v lat with e | L <;> simp only [h1] at hp <;> cases hp
      simp [ActAll]
    | some it =>
      simp only [planG] at hp
      rcases h2 : v.iter it with e | ⟨xs, b⟩ <;> simp only [h2] at hp
      · cases hp
      · rcases h1 : checkLat v lat with e | L <;> simp only [h1] at hp <;> cases hp
        simp only [ActAll, reduceCtorEq, false_implies, implies_true, and_true]
        exact iter_all hv h2

end Origin

/-! ### an edit only rearranges the old members and the incoming elements -/

section Subset
variable {α : Type}

theorem dropIdx_subset (idxs : List Nat) (l : List α) (k : Nat) : ∀ a ∈ dropIdx idxs l k, a ∈ l := by
  induction l generalizing k with
  | nil => simp [dropIdx]
  | cons b l ih =>
    intro a ha
    simp only [dropIdx] at ha
    split at ha
    · exact List.mem_cons_of_mem _ (ih _ a ha)
    · simp only [List.mem_cons] at ha
      rcases ha with ha | ha
      · simp [ha]
      · exact List.mem_cons_of_mem _ (ih _ a ha)

theorem setMany_subset (l : List α) (is : List Nat) (ys : List α) :
    ∀ a ∈ setMany l is ys, a ∈ l ∨ a ∈ ys := by
  induction is generalizing l ys with
  | nil => intro a ha; cases ys <;> simp_all [setMany]
  | cons i is ih =>
    cases ys with
    | nil => intro a ha; simp_all [setMany]
    | cons y ys =>
      intro a ha
      simp only [setMany] at ha
      rcases ih _ _ a ha with h | h
      · rcases List.mem_or_eq_of_mem_set h with h' | h'
        · exact Or.inl h'
        · exact Or.inr (by simp [h'])
      · exact Or.inr (by simp [h])

theorem Edit.apply_subset {e : Edit} {old ys new : List α} {ret : Option α}
    (h : e.apply old ys = .ok (new, ret)) :
    (∀ a ∈ new, a ∈ old ∨ a ∈ ys) ∧ (∀ a, ret = some a → a ∈ old) := by
  cases e with
  | append =>
    simp only [Edit.apply, Except.ok.injEq, Prod.mk.injEq] at h
    obtain ⟨rfl, rfl⟩ := h
    simp
  | insert i =>
    simp only [Edit.apply, Except.ok.injEq, Prod.mk.injEq] at h
    obtain ⟨rfl, rfl⟩ := h
    refine ⟨?_, by simp⟩
    intro a ha
    simp only [List.mem_append] at ha
    rcases ha with (ha | ha) | ha
    · exact Or.inl (List.mem_of_mem_take ha)
    · exact Or.inr ha
    · exact Or.inl (List.mem_of_mem_drop ha)
  | setInt i =>
    simp only [Edit.apply] at h
    split at h
    · rename_i k y _ _
      simp only [Except.ok.injEq, Prod.mk.injEq] at h
      obtain ⟨rfl, rfl⟩ := h
      refine ⟨?_, by simp⟩
      intro a ha
      rcases List.mem_or_eq_of_mem_set ha with h' | h'
      · exact Or.inl h'
      · exact Or.inr (by simp [h'])
    · cases h
    · cases h
  | setSlice sl =>
    simp only [Edit.apply] at h
    split at h
    · cases h
    · rename_i a _
      split at h
      · simp only [Except.ok.injEq, Prod.mk.injEq] at h
        obtain ⟨rfl, rfl⟩ := h
        refine ⟨?_, by simp⟩
        intro x hx
        simp only [List.mem_append] at hx
        rcases hx with (hx | hx) | hx
        · exact Or.inl (List.mem_of_mem_take hx)
        · exact Or.inr hx
        · exact Or.inl (List.mem_of_mem_drop hx)
      · split at h
        · cases h
        · simp only [Except.ok.injEq, Prod.mk.injEq] at h
          obtain ⟨rfl, rfl⟩ := h
          exact ⟨setMany_subset _ _ _, by simp⟩
  | replace =>
    simp only [Edit.apply, Except.ok.injEq, Prod.mk.injEq] at h
    obtain ⟨rfl, rfl⟩ := h
    exact ⟨fun a ha => Or.inr ha, by simp⟩
  | delInt i =>
    simp only [Edit.apply] at h
    split at h
    · simp only [Except.ok.injEq, Prod.mk.injEq] at h
      obtain ⟨rfl, rfl⟩ := h
      exact ⟨fun a ha => Or.inl ((List.eraseIdx_sublist _ _).subset ha), by simp⟩
    · cases h
  | delSlice sl =>
    simp only [Edit.apply] at h
    split at h
    · cases h
    · simp only [Except.ok.injEq, Prod.mk.injEq] at h
      obtain ⟨rfl, rfl⟩ := h
      exact ⟨fun a ha => Or.inl (dropIdx_subset _ _ _ a ha), by simp⟩
  | pop i =>
    simp only [Edit.apply] at h
    split at h
    · simp only [Except.ok.injEq, Prod.mk.injEq] at h
      obtain ⟨rfl, rfl⟩ := h
      exact ⟨fun a ha => Or.inl ((List.eraseIdx_sublist _ _).subset ha), fun a ha => List.mem_of_getElem? ha⟩
    · cases h
  | delAt k =>
    simp only [Edit.apply, Except.ok.injEq, Prod.mk.injEq] at h
    obtain ⟨rfl, rfl⟩ := h
    exact ⟨fun a ha => Or.inl ((List.eraseIdx_sublist _ _).subset ha), by simp⟩
  | reverse =>
    simp only [Edit.apply, Except.ok.injEq, Prod.mk.injEq] at h
    obtain ⟨rfl, rfl⟩ := h
    exact ⟨fun a ha => Or.inl (List.mem_reverse.mp ha), by simp⟩
  | permute idxs =>
    simp only [Edit.apply, Except.ok.injEq, Prod.mk.injEq] at h
    obtain ⟨rfl, rfl⟩ := h
    exact ⟨fun a ha => Or.inl (pick_subset _ _ a ha), by simp⟩
  | clear =>
    simp only [Edit.apply, Except.ok.injEq, Prod.mk.injEq] at h
    obtain ⟨rfl, rfl⟩ := h
    simp

end Subset

/-! ### the heap primitives -/

theorem updAt_map {γ δ : Type} (F : γ → δ) (g : γ → γ) (G : δ → δ) (hFG : ∀ s, F (g s) = G (F s))
    (l : List γ) (k : Nat) : (updAt l k g).map F = updAt (l.map F) k G := by
  induction l generalizing k with
  | nil => rfl
  | cons a l ih => cases k <;> simp [updAt, hFG, ih]

theorem updAt_length {γ : Type} (l : List γ) (k : Nat) (g : γ → γ) : (updAt l k g).length = l.length := by
  induction l generalizing k with
  | nil => rfl
  | cons a l ih => cases k <;> simp [updAt, ih]

theorem getElem?_updAt {γ : Type} (l : List γ) (k j : Nat) (g : γ → γ) :
    (updAt l k g)[j]? = if j = k then l[j]?.map g else l[j]? := by
  induction l generalizing k j with
  | nil => simp [updAt]
  | cons a l ih =>
    cases k with
    | zero => cases j <;> simp [updAt]
    | succ k => cases j <;> simp [updAt, ih]

theorem mem_updAt {γ : Type} {l : List γ} {k : Nat} {g : γ → γ} {s : γ} (h : s ∈ updAt l k g) :
    s ∈ l ∨ ∃ t ∈ l, s = g t := by
  induction l generalizing k with
  | nil => simp [updAt] at h
  | cons a l ih =>
    cases k with
    | zero =>
      simp only [updAt, List.mem_cons] at h
      rcases h with h | h
      · exact Or.inr ⟨a, by simp, h⟩
      · exact Or.inl (by simp [h])
    | succ k =>
      simp only [updAt, List.mem_cons] at h
      rcases h with h | h
      · exact Or.inl (by simp [h])
      · rcases ih h with h' | ⟨t, ht, e⟩
        · exact Or.inl (by simp [h'])
        · exact Or.inr ⟨t, by simp [ht], e⟩

/-- well-formed heap: every id reachable from a structure or the pool has been allocated -/
structure Wf (w : World) : Prop where
  atoms : ∀ s ∈ w.strus, ∀ a ∈ s.atoms, a < w.nextA
  pool : ∀ a ∈ w.pool, a < w.nextA
  lats : ∀ s ∈ w.strus, s.lat < w.nextL
  lpos : 0 < w.nextL

namespace World

/-- the atoms `copySome` takes over as they are -/
def keptOf : List Nat → List Bool → List Nat
  | [], _ => []
  | _ :: r, true :: fr => keptOf r fr
  | a :: r, _ :: fr => a :: keptOf r fr
  | a :: r, [] => a :: keptOf r []

@[simp] theorem allocAtom_nextA (w : World) (p L : Nat) : (w.allocAtom p L).nextA = w.nextA + 1 := rfl
@[simp] theorem allocAtom_nextL (w : World) (p L : Nat) : (w.allocAtom p L).nextL = w.nextL := rfl
@[simp] theorem allocAtom_strus (w : World) (p L : Nat) : (w.allocAtom p L).strus = w.strus := rfl
@[simp] theorem allocAtom_pool (w : World) (p L : Nat) : (w.allocAtom p L).pool = w.pool := rfl
theorem allocAtom_pay (w : World) (p L i : Nat) : (w.allocAtom p L).pay i = if i = w.nextA then p else w.pay i := rfl
theorem allocAtom_alat (w : World) (p L i : Nat) : (w.allocAtom p L).alat i = if i = w.nextA then L else w.alat i := rfl

theorem copySome_frame (w : World) (xs : List Nat) (fl : List Bool) :
    (w.copySome xs fl).1.strus = w.strus ∧ (w.copySome xs fl).1.pool = w.pool ∧
    (w.copySome xs fl).1.nextL = w.nextL ∧ w.nextA ≤ (w.copySome xs fl).1.nextA ∧
    (∀ i, i < w.nextA → (w.copySome xs fl).1.pay i = w.pay i ∧ (w.copySome xs fl).1.alat i = w.alat i) := by
  induction xs generalizing w fl with
  | nil => simp [copySome]
  | cons a r ih =>
    cases fl with
    | nil => simpa [copySome] using ih w []
    | cons b fr =>
      cases b with
      | false => simpa [copySome] using ih w fr
      | true =>
        simp only [copySome]
        obtain ⟨h1, h2, h3, h4, h5⟩ := ih (w.allocAtom (w.pay a) (w.alat a)) fr
        refine ⟨h1, h2, h3, ?_, ?_⟩
        · simp only [allocAtom_nextA] at h4; omega
        · intro i hi
          have := h5 i (by simp only [allocAtom_nextA]; omega)
          have hne : i ≠ w.nextA := by omega
          simpa [allocAtom_pay, allocAtom_alat, hne] using this

theorem copySome_length (w : World) (xs : List Nat) (fl : List Bool) : (w.copySome xs fl).2.length = xs.length := by
  induction xs generalizing w fl with
  | nil => simp [copySome]
  | cons a r ih =>
    cases fl with
    | nil => simp [copySome, ih]
    | cons b fr => cases b <;> simp [copySome, ih]

theorem copySome_pay (w : World) (xs : List Nat) (fl : List Bool) (hx : ∀ x ∈ xs, x < w.nextA) :
    (w.copySome xs fl).2.map (w.copySome xs fl).1.pay = xs.map w.pay := by
  induction xs generalizing w fl with
  | nil => simp [copySome]
  | cons a r ih =>
    have ha : a < w.nextA := hx a (by simp)
    have hr : ∀ x ∈ r, x < w.nextA := fun x h => hx x (by simp [h])
    cases fl with
    | nil =>
      simp only [copySome, List.map_cons, ih w [] hr]
      rw [((copySome_frame w r []).2.2.2.2 a ha).1]
    | cons b fr =>
      cases b with
      | false =>
        simp only [copySome, List.map_cons, ih w fr hr]
        rw [((copySome_frame w r fr).2.2.2.2 a ha).1]
      | true =>
        simp only [copySome, List.map_cons]
        have hr' : ∀ x ∈ r, x < (w.allocAtom (w.pay a) (w.alat a)).nextA := by
          intro x h; have := hr x h; simp only [allocAtom_nextA]; omega
        rw [ih _ fr hr']
        have h1 := ((copySome_frame (w.allocAtom (w.pay a) (w.alat a)) r fr).2.2.2.2 w.nextA (by simp)).1
        rw [h1]
        simp only [allocAtom_pay, if_true, List.cons.injEq, true_and]
        apply List.map_congr_left
        intro x h
        have : x ≠ w.nextA := by have := hr x h; omega
        rw [allocAtom_pay]; simp [this]

/-- every materialised atom is either taken over as it is or freshly allocated -/
theorem copySome_mem (w : World) (xs : List Nat) (fl : List Bool) :
    ∀ y ∈ (w.copySome xs fl).2, y ∈ keptOf xs fl ∨ (w.nextA ≤ y ∧ y < (w.copySome xs fl).1.nextA) := by
  induction xs generalizing w fl with
  | nil => simp [copySome]
  | cons a r ih =>
    cases fl with
    | nil =>
      simp only [copySome, keptOf, List.mem_cons]
      intro y hy
      rcases hy with hy | hy
      · exact Or.inl (Or.inl hy)
      · rcases ih w [] y hy with h | h
        · exact Or.inl (Or.inr h)
        · exact Or.inr h
    | cons b fr =>
      cases b with
      | false =>
        simp only [copySome, keptOf, List.mem_cons]
        intro y hy
        rcases hy with hy | hy
        · exact Or.inl (Or.inl hy)
        · rcases ih w fr y hy with h | h
          · exact Or.inl (Or.inr h)
          · exact Or.inr h
      | true =>
        simp only [copySome, keptOf, List.mem_cons]
        intro y hy
        have hmono := (copySome_frame (w.allocAtom (w.pay a) (w.alat a)) r fr).2.2.2.1
        simp only [allocAtom_nextA] at hmono
        rcases hy with hy | hy
        · exact Or.inr ⟨by omega, by omega⟩
        · rcases ih (w.allocAtom (w.pay a) (w.alat a)) fr y hy with h | h
          · exact Or.inl h
          · refine Or.inr ⟨?_, h.2⟩
            have := h.1; simp only [allocAtom_nextA] at this; omega

theorem keptOf_allTrue (xs : List Nat) : keptOf xs (allTrue xs) = [] := by
  induction xs with
  | nil => rfl
  | cons a r ih => simpa [keptOf, allTrue] using ih

theorem keptOf_subset (xs : List Nat) (fl : List Bool) : ∀ y ∈ keptOf xs fl, y ∈ xs := by
  induction xs generalizing fl with
  | nil => simp [keptOf]
  | cons a r ih =>
    cases fl with
    | nil =>
      simp only [keptOf, List.mem_cons]
      intro y hy
      rcases hy with hy | hy
      · exact Or.inl hy
      · exact Or.inr (ih [] y hy)
    | cons b fr =>
      cases b with
      | false =>
        simp only [keptOf, List.mem_cons]
        intro y hy
        rcases hy with hy | hy
        · exact Or.inl hy
        · exact Or.inr (ih fr y hy)
      | true =>
        simp only [keptOf, List.mem_cons]
        intro y hy
        exact Or.inr (ih fr y hy)

theorem copySome_lt (w : World) (xs : List Nat) (fl : List Bool) (hx : ∀ x ∈ xs, x < w.nextA) :
    ∀ y ∈ (w.copySome xs fl).2, y < (w.copySome xs fl).1.nextA := by
  intro y hy
  rcases copySome_mem w xs fl y hy with h | h
  · have := hx y (keptOf_subset xs fl y h)
    have := (copySome_frame w xs fl).2.2.2.1
    omega
  · exact h.2


/-! #### the stages of `prep` -/

def w0 (w : World) (p : Plan Nat) : World := match p.pre with
  | some (h, xs) => w.setLats xs (w.latOf h)
  | none => w

def w1 (w : World) (p : Plan Nat) : World := match p.tgt with
  | .old _ => w0 w p
  | .new .fresh => ((w0 w p).pushStru (w0 w p).nextL).newLat
  | .new (.ofStru h') => (w0 w p).pushStru ((w0 w p).latOf h')

def hT (w : World) (p : Plan Nat) : Nat := match p.tgt with
  | .old h => h
  | .new _ => w.strus.length

theorem w0_frame (w : World) (p : Plan Nat) :
    (w0 w p).pay = w.pay ∧ (w0 w p).nextA = w.nextA ∧ (w0 w p).nextL = w.nextL ∧ (w0 w p).pool = w.pool ∧
    (w0 w p).strus = w.strus := by
  unfold w0
  split <;> simp [setLats]

theorem w0_latOf (w : World) (p : Plan Nat) (h : Nat) : (w0 w p).latOf h = w.latOf h := by
  simp [latOf, (w0_frame w p).2.2.2.2]

theorem w1_frame (w : World) (p : Plan Nat) :
    (w1 w p).pay = w.pay ∧ (w1 w p).alat = (w0 w p).alat ∧ (w1 w p).nextA = w.nextA ∧ w.nextL ≤ (w1 w p).nextL ∧
    (w1 w p).pool = w.pool ∧
    (w1 w p).strus = (match p.tgt with
      | .old _ => w.strus
      | .new .fresh => w.strus ++ [⟨[], w.nextL, true⟩]
      | .new (.ofStru h') => w.strus ++ [⟨[], w.latOf h', true⟩]) := by
  obtain ⟨h1, h2, h3, h4, h5⟩ := w0_frame w p
  unfold w1
  split
  · simp [h1, h2, h3, h4, h5]
  · simp [pushStru, newLat, h1, h2, h3, h4, h5]
  · simp [pushStru, h1, h2, h3, h4, h5, w0_latOf]

theorem prep_eq (w : World) (p : Plan Nat) :
    w.prep p = (((w1 w p).copySome p.inc p.flags).1.setLats ((w1 w p).copySome p.inc p.flags).2 ((w1 w p).latOf (hT w p)),
                hT w p, ((w1 w p).copySome p.inc p.flags).2) := by
  obtain ⟨tgt, pre, inc, flags, edit⟩ := p
  cases pre with
  | none => rfl
  | some q => obtain ⟨h, xs⟩ := q; cases tgt <;> rfl

theorem Wf_w1 {w : World} (hw : Wf w) (p : Plan Nat) : Wf (w1 w p) := by
  obtain ⟨h1, _, h3, h4, h5, h6⟩ := w1_frame w p
  constructor
  · intro s hs a ha
    rw [h3]
    rw [h6] at hs
    split at hs
    · exact hw.atoms s hs a ha
    · simp only [List.mem_append, List.mem_singleton] at hs
      rcases hs with hs | hs
      · exact hw.atoms s hs a ha
      · subst hs; simp at ha
    · simp only [List.mem_append, List.mem_singleton] at hs
      rcases hs with hs | hs
      · exact hw.atoms s hs a ha
      · subst hs; simp at ha
  · intro a ha; rw [h3]; rw [h5] at ha; exact hw.pool a ha
  · intro s hs
    rw [h6] at hs
    unfold w1
    obtain ⟨_, _, g3, _, _⟩ := w0_frame w p
    split at hs
    · rename_i heq; simp only [heq, g3]; exact hw.lats s hs
    · rename_i heq
      simp only [heq, pushStru, newLat, g3]
      simp only [List.mem_append, List.mem_singleton] at hs
      rcases hs with hs | hs
      · have := hw.lats s hs; omega
      · subst hs; simp
    · rename_i h' heq
      simp only [heq, pushStru, g3]
      simp only [List.mem_append, List.mem_singleton] at hs
      rcases hs with hs | hs
      · exact hw.lats s hs
      · subst hs
        simp only [latOf]
        split
        · rename_i t ht; exact hw.lats t (List.mem_of_getElem? ht)
        · exact hw.lpos
  · have := hw.lpos; omega


theorem prep_strus (w : World) (p : Plan Nat) :
    (w.prep p).1.strus = (w1 w p).strus ∧ (w.prep p).1.pool = w.pool ∧ (w.prep p).1.nextL = (w1 w p).nextL ∧
    w.nextA ≤ (w.prep p).1.nextA ∧ (w.prep p).2.1 = hT w p ∧
    (w.prep p).2.2 = ((w1 w p).copySome p.inc p.flags).2 := by
  rw [prep_eq]
  obtain ⟨f1, f2, f3, f4, _⟩ := copySome_frame (w1 w p) p.inc p.flags
  obtain ⟨_, _, g3, _, g5, _⟩ := w1_frame w p
  refine ⟨f1, by simp [setLats, f2, g5], f3, ?_, rfl, rfl⟩
  simp only [setLats]; omega

theorem prep_pay (w : World) (p : Plan Nat) :
    ∀ i, i < w.nextA → (w.prep p).1.pay i = w.pay i := by
  intro i hi
  rw [prep_eq]
  obtain ⟨g1, _, g3, _⟩ := w1_frame w p
  have := ((copySome_frame (w1 w p) p.inc p.flags).2.2.2.2 i (by omega)).1
  simp only [setLats, this, g1]

theorem prep_inc_pay (w : World) (p : Plan Nat) (hinc : ∀ x ∈ p.inc, x < w.nextA) :
    (w.prep p).2.2.map (w.prep p).1.pay = p.inc.map w.pay := by
  rw [prep_eq]
  obtain ⟨g1, _, g3, _⟩ := w1_frame w p
  have := copySome_pay (w1 w p) p.inc p.flags (by intro x hx; rw [g3]; exact hinc x hx)
  simp only [setLats, this, g1]

theorem prep_inc_lt (w : World) (p : Plan Nat) (hinc : ∀ x ∈ p.inc, x < w.nextA) :
    ∀ y ∈ (w.prep p).2.2, y < (w.prep p).1.nextA := by
  rw [prep_eq]
  obtain ⟨_, _, g3, _⟩ := w1_frame w p
  exact copySome_lt (w1 w p) p.inc p.flags (by intro x hx; rw [g3]; exact hinc x hx)

theorem prep_wf {w : World} (hw : Wf w) (p : Plan Nat) : Wf (w.prep p).1 := by
  have h1 := Wf_w1 hw p
  obtain ⟨e1, e2, e3, e4, _, _⟩ := prep_strus w p
  obtain ⟨_, _, g3, _, g5, _⟩ := w1_frame w p
  constructor
  · intro s hs a ha
    rw [e1] at hs
    have := h1.atoms s hs a ha
    omega
  · intro a ha
    rw [e2] at ha
    have := hw.pool a ha
    omega
  · intro s hs
    rw [e1] at hs
    rw [e3]
    exact h1.lats s hs
  · rw [e3]; exact h1.lpos

theorem mem_setAtoms {w : World} {h : Nat} {l : List Nat} {s : Stru} (hs : s ∈ (w.setAtoms h l).strus) :
    s ∈ w.strus ∨ ∃ t ∈ w.strus, s = { t with atoms := l } := by
  simp only [setAtoms] at hs
  exact mem_updAt hs

theorem Wf_setAtoms {w : World} (hw : Wf w) (h : Nat) (l : List Nat) (hl : ∀ a ∈ l, a < w.nextA) :
    Wf (w.setAtoms h l) := by
  constructor
  · intro s hs a ha
    rcases mem_setAtoms hs with h1 | ⟨t, _, rfl⟩
    · exact hw.atoms s h1 a ha
    · exact hl a ha
  · exact hw.pool
  · intro s hs
    rcases mem_setAtoms hs with h1 | ⟨t, ht, rfl⟩
    · exact hw.lats s h1
    · exact hw.lats t ht
  · exact hw.lpos

theorem atomsOf_mem {w : World} {h : Nat} {a : Nat} (ha : a ∈ w.atomsOf h) :
    ∃ s ∈ w.strus, s.live = true ∧ a ∈ s.atoms ∧ w.strus[h]? = some s := by
  simp only [atomsOf] at ha
  split at ha
  · rename_i s hs
    split at ha
    · rename_i hl; exact ⟨s, List.mem_of_getElem? hs, hl, ha, hs⟩
    · simp at ha
  · simp at ha

theorem atomsOf_lt {w : World} (hw : Wf w) (h : Nat) : ∀ a ∈ w.atomsOf h, a < w.nextA := by
  intro a ha
  obtain ⟨s, hs, _, has, _⟩ := atomsOf_mem ha
  exact hw.atoms s hs a has

/-- the precondition of `exec`: every id the action mentions has been allocated -/
abbrev ActOk (w : World) (act : Act Nat) : Prop := ActAll (fun a => a < w.nextA) act

theorem execPlan_wf {w : World} (hw : Wf w) (p : Plan Nat) (hinc : ∀ x ∈ p.inc, x < w.nextA) :
    Wf (w.execPlan p).1 := by
  simp only [execPlan]
  have hq := prep_wf hw p
  split
  · rename_i new ret heq
    apply Wf_setAtoms hq
    intro a ha
    rcases (Edit.apply_subset heq).1 a ha with h1 | h1
    · exact atomsOf_lt hq _ a h1
    · exact prep_inc_lt w p hinc a h1
  · exact hq


theorem view_all {w : World} (hw : Wf w) : ViewAll (fun a => a < w.nextA) w.view := by
  constructor
  · intro l hl a ha
    simp only [view, List.mem_map] at hl
    obtain ⟨s, hs, hsl⟩ := hl
    split at hsl
    · cases hsl; exact hw.atoms s hs a ha
    · cases hsl
  · exact hw.pool

theorem latOf_lt {w : World} (hw : Wf w) (h : Nat) : w.latOf h < w.nextL := by
  simp only [latOf]
  split
  · rename_i s hs; exact hw.lats s (List.mem_of_getElem? hs)
  · exact hw.lpos

theorem Wf_allocAtom {w : World} (hw : Wf w) (p L : Nat) : Wf (w.allocAtom p L) := by
  constructor
  · intro s hs a ha
    have := hw.atoms s hs a ha
    simp only [allocAtom_nextA]; omega
  · intro a ha
    have := hw.pool a ha
    simp only [allocAtom_nextA]; omega
  · exact hw.lats
  · exact hw.lpos

theorem dedup_subset (xs seen : List Nat) : ∀ a ∈ dedup xs seen, a ∈ xs := by
  induction xs generalizing seen with
  | nil => simp [dedup]
  | cons b r ih =>
    intro a ha
    simp only [dedup] at ha
    split at ha
    · exact List.mem_cons_of_mem _ (ih _ a ha)
    · simp only [List.mem_cons] at ha
      rcases ha with ha | ha
      · simp [ha]
      · exact List.mem_cons_of_mem _ (ih _ a ha)

theorem exec_wf {w : World} (hw : Wf w) (act : Act Nat) (hok : ActOk w act) : Wf (w.exec act).1 := by
  cases act with
  | plan p => exact execPlan_wf hw p hok.1
  | retAtom a h => exact hw
  | mkAtom p =>
    simp only [exec]
    have h1 := Wf_allocAtom hw p 0
    constructor
    · exact h1.atoms
    · intro a ha
      simp only [List.mem_append, List.mem_singleton] at ha
      rcases ha with ha | ha
      · exact h1.pool a ha
      · subst ha; simp
    · exact h1.lats
    · exact h1.lpos
  | addNew h p =>
    simp only [exec]
    apply Wf_setAtoms (Wf_allocAtom hw p _)
    intro a ha
    simp only [List.mem_append, List.mem_singleton] at ha
    simp only [allocAtom_nextA]
    rcases ha with ha | ha
    · have := atomsOf_lt hw h a ha; omega
    · omega
  | setLat h src =>
    simp only [exec]
    cases src with
    | fresh =>
      constructor
      · intro s hs a ha
        rcases mem_updAt hs with h1 | ⟨t, ht, rfl⟩
        · exact hw.atoms s h1 a ha
        · exact hw.atoms t ht a ha
      · exact hw.pool
      · intro s hs
        simp only [setLats, newLat]
        rcases mem_updAt hs with h1 | ⟨t, ht, rfl⟩
        · have := hw.lats s h1; simp only [newLat] at h1; omega
        · simp
      · simp only [setLats, newLat]; omega
    | ofStru h' =>
      constructor
      · intro s hs a ha
        rcases mem_updAt hs with h1 | ⟨t, ht, rfl⟩
        · exact hw.atoms s h1 a ha
        · exact hw.atoms t ht a ha
      · exact hw.pool
      · intro s hs
        rcases mem_updAt hs with h1 | ⟨t, ht, rfl⟩
        · exact hw.lats s h1
        · exact latOf_lt hw h'
      · exact hw.lpos
  | drop h =>
    simp only [exec]
    constructor
    · intro s hs a ha
      rcases mem_updAt hs with h1 | ⟨t, ht, rfl⟩
      · exact hw.atoms s h1 a ha
      · exact hw.atoms t ht a ha
    · exact hw.pool
    · intro s hs
      rcases mem_updAt hs with h1 | ⟨t, ht, rfl⟩
      · exact hw.lats s h1
      · exact hw.lats t ht
    · exact hw.lpos
  | copyShape h xs =>
    simp only [exec]
    have hw1 : Wf ((w.pushStru w.nextL).newLat) := by
      constructor
      · intro s hs a ha
        simp only [pushStru, newLat, List.mem_append, List.mem_singleton] at hs
        rcases hs with hs | hs
        · exact hw.atoms s hs a ha
        · subst hs; simp at ha
      · exact hw.pool
      · intro s hs
        simp only [pushStru, newLat, List.mem_append, List.mem_singleton] at hs ⊢
        rcases hs with hs | hs
        · have := hw.lats s hs; omega
        · subst hs; simp
      · simp only [pushStru, newLat]; omega
    have hds : ∀ x ∈ dedup xs [], x < ((w.pushStru w.nextL).newLat).nextA :=
      fun x hx => hok x (dedup_subset xs [] x hx)
    obtain ⟨f1, f2, f3, f4, _⟩ := copySome_frame ((w.pushStru w.nextL).newLat) (dedup xs []) (allTrue (dedup xs []))
    have hlt := copySome_lt ((w.pushStru w.nextL).newLat) (dedup xs []) (allTrue (dedup xs [])) hds
    apply Wf_setAtoms
    · constructor
      · intro s hs a ha
        simp only [setLats] at hs ⊢
        rw [f1] at hs
        have := hw1.atoms s hs a ha
        omega
      · intro a ha
        simp only [setLats] at ha ⊢
        rw [f2] at ha
        have := hw1.pool a ha
        omega
      · intro s hs
        simp only [setLats] at hs ⊢
        rw [f1] at hs; rw [f3]
        exact hw1.lats s hs
      · simp only [setLats]; rw [f3]; exact hw1.lpos
    · intro a ha
      simp only [List.mem_filterMap] at ha
      obtain ⟨x, _, hx⟩ := ha
      simp only [setLats]
      exact hlt a (List.mem_of_getElem? hx)

theorem stepFull_wf {w : World} (hw : Wf w) (op : Op) : Wf (w.stepFull op).1 := by
  simp only [stepFull]
  split
  · exact hw
  · rename_i act hact
    exact exec_wf hw act (planG_all (view_all hw) hact)

theorem run_wf {w : World} (hw : Wf w) (ops : List Op) : Wf (w.run ops) := by
  induction ops generalizing w with
  | nil => exact hw
  | cons op ops ih => exact ih (stepFull_wf hw op)

theorem empty_wf : Wf World.empty := by
  constructor <;> simp [World.empty]


/-! #### refinement of the plain-list specification -/

theorem abs_view (w : World) : ViewRel w.pay w.view (ListSpec.view w.abs) := by
  constructor
  · simp only [ListSpec.view, abs, view, List.map_map]
    apply List.map_congr_left
    intro s _
    simp only [Function.comp]
    split <;> rfl
  · rfl
  · intro a; rfl

/-- `abs` only reads the payloads of allocated ids -/
theorem abs_congr {w w' : World} (hw : Wf w) (hs : w'.strus = w.strus) (hp : w'.pool = w.pool)
    (hpay : ∀ i, i < w.nextA → w'.pay i = w.pay i) : w'.abs = w.abs := by
  simp only [abs, hs, hp, SpecState.mk.injEq]
  constructor
  · apply List.map_congr_left
    intro a ha
    exact hpay a (hw.pool a ha)
  · apply List.map_congr_left
    intro s hs'
    split
    · congr 1
      apply List.map_congr_left
      intro a ha
      exact hpay a (hw.atoms s hs' a ha)
    · rfl

theorem listOf_abs (w : World) (h : Nat) : ListSpec.listOf w.abs h = (w.atomsOf h).map w.pay := by
  simp only [ListSpec.listOf, abs, atomsOf, List.getElem?_map]
  cases w.strus[h]? with
  | none => rfl
  | some s =>
    simp only [Option.map_some]
    split <;> simp_all

theorem abs_setAtoms (w : World) (h : Nat) (l : List Nat) :
    (w.setAtoms h l).abs = ListSpec.setList w.abs h (l.map w.pay) := by
  simp only [abs, setAtoms, ListSpec.setList, SpecState.mk.injEq, true_and]
  apply updAt_map
  intro s
  simp only
  split <;> rfl

inductive OutRel (w' : World) : Except Err Res → Except Err SRes → Prop
  | none : OutRel w' (.ok .none) (.ok .none)
  | atom (a h : Nat) : OutRel w' (.ok (.atom a h)) (.ok (.val (w'.pay a)))
  | stru (h : Nat) : OutRel w' (.ok (.stru h)) (.ok (.list h))
  | err (e : Err) : OutRel w' (.error e) (.error e)

theorem abs_prep {w : World} (hw : Wf w) (p : Plan Nat) :
    (w.prep p).1.abs = (match p.tgt with
      | .old _ => w.abs
      | .new _ => { w.abs with lists := w.abs.lists ++ [some []] }) := by
  obtain ⟨e1, e2, _, _, _, _⟩ := prep_strus w p
  obtain ⟨_, _, _, _, _, g6⟩ := w1_frame w p
  have hpay := prep_pay w p
  have hpool : List.map (w.prep p).1.pay w.pool = List.map w.pay w.pool :=
    List.map_congr_left (fun a ha => hpay a (hw.pool a ha))
  have hstr : List.map (fun s => if s.live = true then some (List.map (w.prep p).1.pay s.atoms) else none) w.strus
      = List.map (fun s => if s.live = true then some (List.map w.pay s.atoms) else none) w.strus := by
    apply List.map_congr_left
    intro s hs
    split
    · congr 1
      exact List.map_congr_left (fun a ha => hpay a (hw.atoms s hs a ha))
    · rfl
  cases htg : p.tgt with
  | old h => simp only [htg] at g6; simp [abs, e1, e2, g6, hpool, hstr]
  | new src =>
    cases src with
    | fresh => simp only [htg] at g6; simp [abs, e1, e2, g6, hpool, hstr]
    | ofStru h' => simp only [htg] at g6; simp [abs, e1, e2, g6, hpool, hstr]

def specS1 (s : SpecState) : Tgt → SpecState
  | .old _ => s
  | .new _ => { s with lists := s.lists ++ [some []] }

def specH (s : SpecState) : Tgt → Nat
  | .old h => h
  | .new _ => s.lists.length

def specFinish (s1 : SpecState) (h : Nat) (tgt : Tgt) : Except Err (List Nat × Option Nat) → SpecState × Except Err SRes
  | .ok (new, ret) =>
    (ListSpec.setList s1 h new,
     .ok (match tgt, ret with
          | .new _, _ => .list h
          | .old _, some a => .val a
          | .old _, none => .none))
  | .error e => (s1, .error e)

theorem spec_exec_plan (s : SpecState) (q : Plan Nat) :
    ListSpec.exec s (.plan q) =
      specFinish (specS1 s q.tgt) (specH s q.tgt) q.tgt
        (q.edit.apply (ListSpec.listOf (specS1 s q.tgt) (specH s q.tgt)) q.inc) := by
  simp only [ListSpec.exec, specFinish, specS1, specH]
  cases q.tgt <;> rfl

def worldFinish (q : World × Nat × List Nat) (tgt : Tgt) : Except Err (List Nat × Option Nat) → World × Except Err Res
  | .ok (new, ret) =>
    (q.1.setAtoms q.2.1 new,
     .ok (match tgt, ret with
          | .new _, _ => .stru q.2.1
          | .old _, some a => .atom a q.2.1
          | .old _, none => .none))
  | .error e => (q.1, .error e)

theorem execPlan_eq (w : World) (p : Plan Nat) :
    w.execPlan p = worldFinish (w.prep p) p.tgt (p.edit.apply ((w.prep p).1.atomsOf (w.prep p).2.1) (w.prep p).2.2) := by
  simp only [execPlan, worldFinish]
  rcases hap : p.edit.apply ((w.prep p).1.atomsOf (w.prep p).2.1) (w.prep p).2.2 with e | ⟨new, ret⟩
  · rfl
  · simp only
    cases p.tgt <;> cases ret <;> rfl

theorem execPlan_refines {w : World} (hw : Wf w) (p q : Plan Nat) (hinc : ∀ x ∈ p.inc, x < w.nextA)
    (ht : q.tgt = p.tgt) (hi : q.inc = p.inc.map w.pay) (he : q.edit = p.edit) :
    (ListSpec.exec w.abs (.plan q)).1 = (w.execPlan p).1.abs ∧
    OutRel (w.execPlan p).1 (w.execPlan p).2 (ListSpec.exec w.abs (.plan q)).2 := by
  have hA := abs_prep hw p
  have hC := prep_inc_pay w p hinc
  obtain ⟨_, _, _, _, e5, _⟩ := prep_strus w p
  have hlen : w.abs.lists.length = w.strus.length := by simp [abs]
  have hs1 : specS1 w.abs q.tgt = (w.prep p).1.abs := by
    rw [ht, hA]; cases p.tgt <;> rfl
  have hh : specH w.abs q.tgt = (w.prep p).2.1 := by
    rw [ht, e5]; simp only [specH, hT]; cases p.tgt <;> simp [hlen]
  rw [spec_exec_plan, execPlan_eq, hs1, hh, he, hi, ← hC, listOf_abs, Edit.apply_map, ht]
  cases hap : p.edit.apply ((w.prep p).1.atomsOf (w.prep p).2.1) (w.prep p).2.2 with
  | error e => exact ⟨rfl, OutRel.err e⟩
  | ok r =>
    obtain ⟨new, ret⟩ := r
    simp only [mapRes, specFinish, worldFinish]
    refine ⟨(abs_setAtoms _ _ _).symm, ?_⟩
    cases p.tgt with
    | new src => exact OutRel.stru _
    | old h =>
      cases ret with
      | none => exact OutRel.none
      | some a => exact OutRel.atom a _

theorem updAt_id {γ : Type} (l : List γ) (k : Nat) : updAt l k (fun x => x) = l := by
  induction l generalizing k with
  | nil => rfl
  | cons a l ih => cases k <;> simp [updAt, ih]

theorem updAt_append_length {γ : Type} (l : List γ) (a : γ) (g : γ → γ) :
    updAt (l ++ [a]) l.length g = l ++ [g a] := by
  induction l with
  | nil => rfl
  | cons b l ih => simp [updAt, ih]

theorem dedup_complete (xs seen : List Nat) : ∀ x ∈ xs, x ∈ seen ∨ x ∈ dedup xs seen := by
  induction xs generalizing seen with
  | nil => simp
  | cons b r ih =>
    intro x hx
    simp only [List.mem_cons] at hx
    simp only [dedup]
    split
    · rename_i hb
      rcases hx with hx | hx
      · subst hx; exact Or.inl hb
      · exact ih seen x hx
    · rcases hx with hx | hx
      · subst hx; exact Or.inr (by simp)
      · rcases ih (b :: seen) x hx with h | h
        · simp only [List.mem_cons] at h
          rcases h with h | h
          · subst h; exact Or.inr (by simp)
          · exact Or.inl h
        · exact Or.inr (by simp [h])

theorem filterMap_map_eq {γ δ ε : Type} (g : γ → Option δ) (f : δ → ε) (k : γ → ε) (xs : List γ)
    (h : ∀ x ∈ xs, ∃ y, g x = some y ∧ f y = k x) : (xs.filterMap g).map f = xs.map k := by
  induction xs with
  | nil => rfl
  | cons a r ih =>
    obtain ⟨y, hy, hf⟩ := h a (by simp)
    simp only [List.filterMap_cons, hy, List.map_cons, hf]
    rw [ih (fun x hx => h x (by simp [hx]))]

/-- pickling with protocol 0/1: the copies carry the payloads of the originals, slot by slot -/
theorem copyShape_pay (w1 : World) (xs : List Nat) (hx : ∀ x ∈ xs, x < w1.nextA) :
    (xs.filterMap (fun x => (w1.copySome (dedup xs []) (allTrue (dedup xs []))).2[(dedup xs []).idxOf x]?)).map
      (w1.copySome (dedup xs []) (allTrue (dedup xs []))).1.pay = xs.map w1.pay := by
  have hds : ∀ x ∈ dedup xs [], x < w1.nextA := fun x h => hx x (dedup_subset xs [] x h)
  have hpay := copySome_pay w1 (dedup xs []) (allTrue (dedup xs [])) hds
  have hlen := copySome_length w1 (dedup xs []) (allTrue (dedup xs []))
  apply filterMap_map_eq
  intro x hxs
  have hmem : x ∈ dedup xs [] := by
    rcases dedup_complete xs [] x hxs with h | h
    · simp at h
    · exact h
  have hi : (dedup xs []).idxOf x < (dedup xs []).length := List.idxOf_lt_length_of_mem hmem
  have hi' : (dedup xs []).idxOf x < (w1.copySome (dedup xs []) (allTrue (dedup xs []))).2.length := by omega
  refine ⟨(w1.copySome (dedup xs []) (allTrue (dedup xs []))).2[(dedup xs []).idxOf x], by simp [hi'], ?_⟩
  have h1 := congrArg (fun l => l[(dedup xs []).idxOf x]?) hpay
  simp only [List.getElem?_map, List.getElem?_eq_getElem hi, List.getElem?_eq_getElem hi', Option.map_some,
    Option.some.injEq] at h1
  rw [h1]
  congr 1
  exact List.getElem_idxOf hi

theorem exec_refines {w : World} (hw : Wf w) {act act' : Act Nat} (hok : ActOk w act)
    (hr : ActRel w.pay act act') :
    (ListSpec.exec w.abs act').1 = (w.exec act).1.abs ∧
    OutRel (w.exec act).1 (w.exec act).2 (ListSpec.exec w.abs act').2 := by
  cases act with
  | plan p =>
    cases act' with
    | plan q => obtain ⟨ht, hi, he⟩ := hr; exact execPlan_refines hw p q hok.1 ht hi he
    | _ => exact hr.elim
  | retAtom a h =>
    cases act' with
    | retAtom b h' =>
      obtain ⟨rfl, rfl⟩ := hr
      exact ⟨rfl, OutRel.atom a _⟩
    | _ => exact hr.elim
  | mkAtom p =>
    cases act' with
    | mkAtom p' =>
      cases hr
      refine ⟨?_, OutRel.none⟩
      simp only [ListSpec.exec, exec, abs, List.map_append, List.map_cons, List.map_nil, SpecState.mk.injEq]
      constructor
      · congr 1
        · apply List.map_congr_left
          intro a ha
          have := hw.pool a ha
          rw [allocAtom_pay]; simp [show a ≠ w.nextA by omega]
        · simp [allocAtom_pay]
      · apply List.map_congr_left
        intro s hs
        split
        · congr 1
          apply List.map_congr_left
          intro a ha
          have := hw.atoms s hs a ha
          rw [allocAtom_pay]; simp [show a ≠ w.nextA by omega]
        · rfl
    | _ => exact hr.elim
  | addNew h p =>
    cases act' with
    | addNew h' p' =>
      obtain ⟨rfl, rfl⟩ := hr
      refine ⟨?_, OutRel.none⟩
      simp only [ListSpec.exec, exec, abs_setAtoms, listOf_abs]
      have h1 : (w.allocAtom p' (w.latOf h')).abs = w.abs :=
        abs_congr hw rfl rfl (fun i hi => by rw [allocAtom_pay]; simp [show i ≠ w.nextA by omega])
      rw [h1, List.map_append]
      congr 2
      · apply List.map_congr_left
        intro a ha
        have := atomsOf_lt hw h' a ha
        rw [allocAtom_pay]; simp [show a ≠ w.nextA by omega]
      · simp [allocAtom_pay]
    | _ => exact hr.elim
  | setLat h src =>
    cases act' with
    | setLat h' src' =>
      obtain ⟨rfl, rfl⟩ := hr
      refine ⟨?_, OutRel.none⟩
      simp only [ListSpec.exec, exec, abs]
      have key : ∀ (L : Nat) (ss : List Stru),
          List.map (fun s => if s.live = true then some (List.map w.pay s.atoms) else none)
            (updAt ss h' (fun s => { s with lat := L })) =
          List.map (fun s => if s.live = true then some (List.map w.pay s.atoms) else none) ss := by
        intro L ss
        rw [updAt_map _ _ (fun x => x) (by intro s; rfl), updAt_id]
      cases src' <;> simp [setLats, newLat, key]
    | _ => exact hr.elim
  | drop h =>
    cases act' with
    | drop h' =>
      cases hr
      refine ⟨?_, OutRel.none⟩
      simp only [ListSpec.exec, exec, abs, ListSpec.dropList, SpecState.mk.injEq, true_and]
      exact (updAt_map _ _ (fun _ => none) (by intro s; rfl) _ _).symm
    | _ => exact hr.elim
  | copyShape h xs =>
    cases act' with
    | copyShape h' ys =>
      obtain ⟨rfl, rfl⟩ := hr
      refine ⟨?_, ?_⟩
      · simp only [ListSpec.exec, exec, abs_setAtoms]
        have hw1 : Wf ((w.pushStru w.nextL).newLat) := by
          have := exec_wf hw (.plan { tgt := .new .fresh, pre := none, inc := [], flags := [], edit := .replace })
            (by simp [ActAll])
          constructor
          · intro s hs a ha
            simp only [pushStru, newLat, List.mem_append, List.mem_singleton] at hs
            rcases hs with hs | hs
            · exact hw.atoms s hs a ha
            · subst hs; simp at ha
          · exact hw.pool
          · intro s hs
            simp only [pushStru, newLat, List.mem_append, List.mem_singleton] at hs ⊢
            rcases hs with hs | hs
            · have := hw.lats s hs; omega
            · subst hs; simp
          · simp only [pushStru, newLat]; omega
        obtain ⟨f1, f2, _, _, f5⟩ := copySome_frame ((w.pushStru w.nextL).newLat) (dedup xs []) (allTrue (dedup xs []))
        have habs : (((w.pushStru w.nextL).newLat.copySome (dedup xs []) (allTrue (dedup xs []))).1.setLats
            (xs.filterMap (fun x => ((w.pushStru w.nextL).newLat.copySome (dedup xs []) (allTrue (dedup xs []))).2[(dedup xs []).idxOf x]?))
            w.nextL).abs = ((w.pushStru w.nextL).newLat).abs :=
          abs_congr hw1 f1 f2 (fun i hi => (f5 i hi).1)
        rw [habs]
        have hp := copyShape_pay ((w.pushStru w.nextL).newLat) xs hok
        simp only [setLats]
        rw [hp]
        simp only [abs, pushStru, newLat, ListSpec.setList, List.map_append, List.map_cons, List.map_nil,
          SpecState.mk.injEq, true_and]
        have hl : (List.map (fun s => if s.live = true then some (List.map w.pay s.atoms) else none) w.strus).length
            = w.strus.length := by simp
        rw [← hl, updAt_append_length]
        simp
      · simp only [ListSpec.exec, exec, abs, List.length_map]
        exact OutRel.stru _
    | _ => exact hr.elim


/-! #### the lattice invariant -/

theorem mem_updAt_idx {γ : Type} {l : List γ} {k : Nat} {g : γ → γ} {s : γ} (h : s ∈ updAt l k g) :
    s ∈ l ∨ ∃ t, l[k]? = some t ∧ s = g t := by
  induction l generalizing k with
  | nil => simp [updAt] at h
  | cons a l ih =>
    cases k with
    | zero =>
      simp only [updAt, List.mem_cons] at h
      rcases h with h | h
      · exact Or.inr ⟨a, by simp, h⟩
      · exact Or.inl (by simp [h])
    | succ k =>
      simp only [updAt, List.mem_cons] at h
      rcases h with h | h
      · exact Or.inl (by simp [h])
      · rcases ih h with h' | ⟨t, ht, e⟩
        · exact Or.inl (by simp [h'])
        · exact Or.inr ⟨t, by simpa using ht, e⟩

/-- every atom of every live structure refers to that structure's lattice -/
def Inv (w : World) : Prop := ∀ s ∈ w.strus, s.live = true → ∀ a ∈ s.atoms, w.alat a = s.lat

/-- the atoms `xs` may be linked to lattice `L`: every live structure that holds one of them has lattice `L` -/
def Adopts (w : World) (xs : List Nat) (L : Nat) : Prop :=
  ∀ x ∈ xs, ∀ s ∈ w.strus, s.live = true → x ∈ s.atoms → s.lat = L

/-- the lattice the incoming atoms of a plan are linked to -/
def tgtLat (w : World) (p : Plan Nat) : Nat := match p.tgt with
  | .old h => w.latOf h
  | .new .fresh => w.nextL
  | .new (.ofStru h') => w.latOf h'

/-- side condition of the global lattice invariant, on the action and the *pre*-state: atoms taken
over without copying, and the atoms of a structure whose lattice is re-assigned, are not held by a
live structure with a different lattice -/
def preSafe (w : World) : Option (Nat × List Nat) → Prop
  | none => True
  | some (h, xs) => Adopts w xs (w.latOf h)

def latSrcOf (w : World) : LatSrc → Nat
  | .fresh => w.nextL
  | .ofStru h' => w.latOf h'

def SafeAct (w : World) : Act Nat → Prop
  | .plan p => preSafe w p.pre ∧ Adopts w (keptOf p.inc p.flags) (tgtLat w p)
  | .setLat h src =>
    ∀ a ∈ w.atomsOf h, ∀ sk ∈ w.strus.zipIdx, sk.2 ≠ h → sk.1.live = true → a ∈ sk.1.atoms → sk.1.lat = latSrcOf w src
  | _ => True

instance (w : World) (xs : List Nat) (L : Nat) : Decidable (Adopts w xs L) := by unfold Adopts; infer_instance

instance (w : World) (o : Option (Nat × List Nat)) : Decidable (preSafe w o) := by
  cases o with
  | none => exact isTrue trivial
  | some q => unfold preSafe; infer_instance

instance (w : World) (act : Act Nat) : Decidable (SafeAct w act) := by
  cases act <;> unfold SafeAct <;> infer_instance

theorem w1_latOf_hT (w : World) (p : Plan Nat) : (w1 w p).latOf (hT w p) = tgtLat w p := by
  obtain ⟨_, _, _, _, _, g6⟩ := w1_frame w p
  simp only [latOf, g6, hT, tgtLat]
  cases p.tgt with
  | old h => rfl
  | new src => cases src <;> simp

theorem prep_alat (w : World) (p : Plan Nat) (i : Nat) :
    (w.prep p).1.alat i = if i ∈ (w.prep p).2.2 then tgtLat w p
      else ((w1 w p).copySome p.inc p.flags).1.alat i := by
  rw [prep_eq, w1_latOf_hT]
  rfl

theorem w0_alat (w : World) (p : Plan Nat) (i : Nat) :
    (w0 w p).alat i = match p.pre with
      | some (h, xs) => if i ∈ xs then w.latOf h else w.alat i
      | none => w.alat i := by
  unfold w0
  split <;> rfl

theorem prep_latOf (w : World) (p : Plan Nat) (k : Nat) : (w.prep p).1.latOf k = (w1 w p).latOf k := by
  simp only [latOf, (prep_strus w p).1]

theorem prep_inv {w : World} (hw : Wf w) (hi : Inv w) (p : Plan Nat) (hs : SafeAct w (.plan p)) :
    Inv (w.prep p).1 := by
  obtain ⟨e1, _, _, _, _, e6⟩ := prep_strus w p
  obtain ⟨_, g2, g3, _, _, g6⟩ := w1_frame w p
  intro s hsm hl a ha
  rw [e1, g6] at hsm
  -- `s` is a structure of the old world (the pushed one has no atoms)
  have hold : s ∈ w.strus := by
    cases htg : p.tgt with
    | old h => simpa [htg] using hsm
    | new src =>
      cases src with
      | fresh =>
        simp only [htg, List.mem_append, List.mem_singleton] at hsm
        rcases hsm with h | h
        · exact h
        · subst h; simp at ha
      | ofStru h' =>
        simp only [htg, List.mem_append, List.mem_singleton] at hsm
        rcases hsm with h | h
        · exact h
        · subst h; simp at ha
  have halt : a < w.nextA := hw.atoms s hold a ha
  rw [prep_alat]
  split
  · rename_i hin
    rw [e6] at hin
    rcases copySome_mem (w1 w p) p.inc p.flags a hin with h | h
    · exact (hs.2 a h s hold hl ha).symm
    · rw [g3] at h; omega
  · rw [((copySome_frame (w1 w p) p.inc p.flags).2.2.2.2 a (by omega)).2, g2, w0_alat]
    split
    · rename_i h xs hpre
      split
      · rename_i hin
        have h1 := hs.1
        rw [hpre] at h1
        exact (h1 a hin s hold hl ha).symm
      · exact hi s hold hl a ha
    · exact hi s hold hl a ha

theorem atomsOf_of_getElem {w : World} {h : Nat} {t : Stru} (ht : w.strus[h]? = some t) (hl : t.live = true) :
    w.atomsOf h = t.atoms := by
  simp [atomsOf, ht, hl]

theorem execPlan_inv {w : World} (hw : Wf w) (hi : Inv w) (p : Plan Nat) (hs : SafeAct w (.plan p)) :
    Inv (w.execPlan p).1 := by
  have hq := prep_inv hw hi p hs
  rw [execPlan_eq]
  rcases hap : p.edit.apply ((w.prep p).1.atomsOf (w.prep p).2.1) (w.prep p).2.2 with e | ⟨new, ret⟩
  · exact hq
  · simp only [worldFinish]
    intro s hsm hl a ha
    simp only [setAtoms] at hsm ⊢
    rcases mem_updAt_idx hsm with h | ⟨t, ht, rfl⟩
    · exact hq s h hl a ha
    · simp only at hl ha ⊢
      rcases (Edit.apply_subset hap).1 a ha with h1 | h1
      · rw [atomsOf_of_getElem ht hl] at h1
        exact hq t (List.mem_of_getElem? ht) hl a h1
      · rw [prep_alat, if_pos h1, ← w1_latOf_hT, ← prep_latOf, (prep_strus w p).2.2.2.2.1.symm]
        simp [latOf, ht]


theorem mem_updAt_ne {γ : Type} {l : List γ} {k : Nat} {g : γ → γ} {s : γ} (h : s ∈ updAt l k g) :
    (∃ j, j ≠ k ∧ l[j]? = some s) ∨ ∃ t, l[k]? = some t ∧ s = g t := by
  obtain ⟨j, hj⟩ := List.getElem?_of_mem h
  rw [getElem?_updAt] at hj
  split at hj
  · rename_i hjk
    subst hjk
    cases hlj : l[j]? with
    | none => simp [hlj] at hj
    | some t => simp [hlj] at hj; exact Or.inr ⟨t, rfl, hj.symm⟩
  · rename_i hjk
    exact Or.inl ⟨j, hjk, hj⟩

theorem exec_inv {w : World} (hw : Wf w) (hi : Inv w) (act : Act Nat) (hok : ActOk w act) (hs : SafeAct w act) :
    Inv (w.exec act).1 := by
  cases act with
  | plan p => exact execPlan_inv hw hi p hs
  | retAtom a h => exact hi
  | mkAtom p =>
    intro s hsm hl a ha
    simp only [exec] at hsm ⊢
    have := hw.atoms s hsm a ha
    rw [allocAtom_alat]
    simp only [show a ≠ w.nextA by omega, if_false]
    exact hi s hsm hl a ha
  | addNew h p =>
    intro s hsm hl a ha
    simp only [exec, setAtoms] at hsm ⊢
    rw [allocAtom_alat]
    rcases mem_updAt_idx hsm with h1 | ⟨t, ht, rfl⟩
    · have := hw.atoms s h1 a ha
      simp only [show a ≠ w.nextA by omega, if_false]
      exact hi s h1 hl a ha
    · simp only [allocAtom_strus] at ht
      simp only at hl ha ⊢
      simp only [List.mem_append, List.mem_singleton] at ha
      rcases ha with ha | ha
      · rw [atomsOf_of_getElem ht hl] at ha
        have := hw.atoms t (List.mem_of_getElem? ht) a ha
        simp only [show a ≠ w.nextA by omega, if_false]
        exact hi t (List.mem_of_getElem? ht) hl a ha
      · subst ha
        simp [latOf, ht]
  | setLat h src =>
    cases src with
    | fresh =>
      intro s hsm hl a ha
      simp only [exec, setLats, newLat] at hsm ⊢
      rcases mem_updAt_ne hsm with ⟨j, hj, hjs⟩ | ⟨t, ht, rfl⟩
      · split
        · rename_i hin
          exact (hs a hin (s, j) (List.mk_mem_zipIdx_iff_getElem?.mpr hjs) hj hl ha).symm
        · exact hi s (List.mem_of_getElem? hjs) hl a ha
      · simp only at hl ha ⊢
        rw [← atomsOf_of_getElem ht hl] at ha
        simp [ha]
    | ofStru h' =>
      intro s hsm hl a ha
      simp only [exec, setLats, newLat] at hsm ⊢
      rcases mem_updAt_ne hsm with ⟨j, hj, hjs⟩ | ⟨t, ht, rfl⟩
      · split
        · rename_i hin
          exact (hs a hin (s, j) (List.mk_mem_zipIdx_iff_getElem?.mpr hjs) hj hl ha).symm
        · exact hi s (List.mem_of_getElem? hjs) hl a ha
      · simp only at hl ha ⊢
        rw [← atomsOf_of_getElem ht hl] at ha
        simp [ha]
  | drop h =>
    intro s hsm hl a ha
    simp only [exec] at hsm ⊢
    rcases mem_updAt_idx hsm with h1 | ⟨t, ht, rfl⟩
    · exact hi s h1 hl a ha
    · simp at hl
  | copyShape h xs =>
    intro s hsm hl a ha
    simp only [exec, setAtoms] at hsm ⊢
    obtain ⟨f1, _, _, _, f5⟩ := copySome_frame ((w.pushStru w.nextL).newLat) (dedup xs []) (allTrue (dedup xs []))
    have hfresh : ∀ y ∈ ((w.pushStru w.nextL).newLat.copySome (dedup xs []) (allTrue (dedup xs []))).2, w.nextA ≤ y := by
      intro y hy
      rcases copySome_mem _ _ _ y hy with h1 | h1
      · rw [keptOf_allTrue] at h1; simp at h1
      · exact h1.1
    simp only [setLats] at hsm ⊢
    rw [f1] at hsm
    rcases mem_updAt_idx hsm with h1 | ⟨t, ht, rfl⟩
    · simp only [pushStru, newLat, List.mem_append, List.mem_singleton] at h1
      rcases h1 with h1 | h1
      · have hlt := hw.atoms s h1 a ha
        have hnot : a ∉ List.filterMap (fun x => ((w.pushStru w.nextL).newLat.copySome (dedup xs []) (allTrue (dedup xs []))).2[(dedup xs []).idxOf x]?) xs := by
          intro hin
          simp only [List.mem_filterMap] at hin
          obtain ⟨x, _, hx⟩ := hin
          have := hfresh a (List.mem_of_getElem? hx)
          omega
        simp only [hnot, if_false]
        rw [(f5 a hlt).2]
        exact hi s h1 hl a ha
      · subst h1; simp at ha
    · simp only [pushStru, newLat] at ht
      have : t = ⟨[], w.nextL, true⟩ := by
        simpa using ht.symm
      subst this
      simp only at ha ⊢
      simp [ha]

/-- the side condition of one step, on the pre-state -/
def Safe (w : World) (op : Op) : Prop :=
  match planG w.view op with
  | .ok act => SafeAct w act
  | .error _ => True

theorem stepFull_inv {w : World} (hw : Wf w) (hi : Inv w) (op : Op) (hs : Safe w op) : Inv (w.stepFull op).1 := by
  simp only [stepFull]
  simp only [Safe] at hs
  split
  · exact hi
  · rename_i act hact
    rw [hact] at hs
    exact exec_inv hw hi act (planG_all (view_all hw) hact) hs

/-- every step of the history satisfies the side condition in the state it is executed in -/
def SafeHist : World → List Op → Prop
  | _, [] => True
  | w, op :: ops => Safe w op ∧ SafeHist (w.stepFull op).1 ops

theorem run_inv {w : World} (hw : Wf w) (hi : Inv w) (ops : List Op) (hs : SafeHist w ops) : Inv (w.run ops) := by
  induction ops generalizing w with
  | nil => exact hi
  | cons op ops ih => exact ih (stepFull_wf hw op) (stepFull_inv hw hi op hs.1) hs.2


/-! #### copies are fresh, selections share -/

theorem copySome_allFalse (w : World) (xs : List Nat) : w.copySome xs (allFalse xs) = (w, xs) := by
  induction xs with
  | nil => rfl
  | cons a r ih =>
    simp only [allFalse, List.map_cons, copySome] at ih ⊢
    rw [ih]

theorem copySome_allTrue_fresh (w : World) (xs : List Nat) :
    ∀ y ∈ (w.copySome xs (allTrue xs)).2, w.nextA ≤ y := by
  intro y hy
  rcases copySome_mem w xs (allTrue xs) y hy with h | h
  · rw [keptOf_allTrue] at h; simp at h
  · exact h.1

theorem atomsOf_setAtoms_push (w : World) (ss : List Stru) (L : Nat) (l : List Nat) (hs : w.strus = ss ++ [⟨[], L, true⟩]) :
    (w.setAtoms ss.length l).atomsOf ss.length = l ∧ (w.setAtoms ss.length l).latOf ss.length = L := by
  simp only [atomsOf, latOf, setAtoms, hs, updAt_append_length]
  simp

/-- a plan that builds a new structure with a fresh lattice from copies only (`copy`, `+`, `-`, `*`,
pickling, `deepcopy`): the result is the next handle, all its atoms and its lattice are fresh -/
theorem execPlan_new_fresh (w : World) (p : Plan Nat) (ht : p.tgt = .new .fresh) (he : p.edit = .replace)
    (hf : p.flags = allTrue p.inc) :
    (w.execPlan p).2 = .ok (.stru w.strus.length) ∧
    (∀ a ∈ (w.execPlan p).1.atomsOf w.strus.length, w.nextA ≤ a) ∧
    (w.execPlan p).1.latOf w.strus.length = w.nextL ∧
    ((w.execPlan p).1.atomsOf w.strus.length).map (w.execPlan p).1.pay = ((w.prep p).2.2).map (w.prep p).1.pay := by
  obtain ⟨e1, _, _, _, e5, e6⟩ := prep_strus w p
  obtain ⟨_, _, g3, _, _, g6⟩ := w1_frame w p
  rw [execPlan_eq, he]
  simp only [Edit.apply, worldFinish, ht]
  have hh : (w.prep p).2.1 = w.strus.length := by rw [e5]; simp [hT, ht]
  have hstr : (w.prep p).1.strus = w.strus ++ [⟨[], w.nextL, true⟩] := by rw [e1, g6, ht]
  rw [hh]
  obtain ⟨a1, a2⟩ := atomsOf_setAtoms_push (w.prep p).1 w.strus w.nextL (w.prep p).2.2 hstr
  refine ⟨rfl, ?_, a2, ?_⟩
  · rw [a1, e6, hf]
    intro a ha
    have := copySome_allTrue_fresh (w1 w p) p.inc a ha
    omega
  · rw [a1]; rfl

/-- a plan that builds a selection (`s[slice]`, `s[array]`, …): the result holds exactly the
selected atom objects and refers to the lattice of the source -/
theorem execPlan_new_sel (w : World) (p : Plan Nat) (h : Nat) (ht : p.tgt = .new (.ofStru h)) (he : p.edit = .replace)
    (hf : p.flags = allFalse p.inc) :
    (w.execPlan p).2 = .ok (.stru w.strus.length) ∧
    (w.execPlan p).1.atomsOf w.strus.length = p.inc ∧
    (w.execPlan p).1.latOf w.strus.length = w.latOf h := by
  obtain ⟨e1, _, _, _, e5, e6⟩ := prep_strus w p
  obtain ⟨_, _, g3, _, _, g6⟩ := w1_frame w p
  rw [execPlan_eq, he]
  simp only [Edit.apply, worldFinish, ht]
  have hh : (w.prep p).2.1 = w.strus.length := by rw [e5]; simp [hT, ht]
  have hstr : (w.prep p).1.strus = w.strus ++ [⟨[], w.latOf h, true⟩] := by rw [e1, g6, ht]
  rw [hh]
  obtain ⟨a1, a2⟩ := atomsOf_setAtoms_push (w.prep p).1 w.strus (w.latOf h) (w.prep p).2.2 hstr
  refine ⟨rfl, ?_, a2⟩
  rw [a1, e6, hf, copySome_allFalse]

/-- a plan that edits an existing structure with copies only: whatever is in the list afterwards was
there before or is freshly allocated -/
theorem execPlan_old_fresh {w : World} (hw : Wf w) (p : Plan Nat) (h : Nat) (ht : p.tgt = .old h)
    (hf : p.flags = allTrue p.inc) :
    ∀ a ∈ (w.execPlan p).1.atomsOf h, a ∈ w.atomsOf h ∨ w.nextA ≤ a := by
  obtain ⟨e1, _, _, _, e5, e6⟩ := prep_strus w p
  obtain ⟨_, _, g3, _, _, g6⟩ := w1_frame w p
  have hh : (w.prep p).2.1 = h := by rw [e5]; simp [hT, ht]
  have hstr : (w.prep p).1.strus = w.strus := by rw [e1, g6, ht]
  have hat : (w.prep p).1.atomsOf h = w.atomsOf h := by simp [atomsOf, hstr]
  rw [execPlan_eq]
  rcases hap : p.edit.apply ((w.prep p).1.atomsOf (w.prep p).2.1) (w.prep p).2.2 with e | ⟨new, ret⟩
  · simp only [worldFinish, hat]
    intro a ha; exact Or.inl ha
  · simp only [worldFinish, hh]
    intro a ha
    have hsub : a ∈ new := by
      simp only [atomsOf, setAtoms, getElem?_updAt, if_true] at ha
      cases hg : (w.prep p).1.strus[h]? with
      | none => simp [hg] at ha
      | some t =>
        simp only [hg, Option.map_some] at ha
        split at ha
        · exact ha
        · simp at ha
    rw [hh] at hap
    rcases (Edit.apply_subset hap).1 a hsub with h1 | h1
    · rw [hat] at h1; exact Or.inl h1
    · rw [e6, hf] at h1
      have := copySome_allTrue_fresh (w1 w p) p.inc a h1
      exact Or.inr (by omega)

/-- the materialised atoms of a plan refer to the target's lattice afterwards, whether or not the
list edit succeeds -/
theorem execPlan_links (w : World) (p : Plan Nat) :
    ∀ y ∈ (w.prep p).2.2, (w.execPlan p).1.alat y = tgtLat w p := by
  intro y hy
  rw [execPlan_eq]
  rcases hap : p.edit.apply ((w.prep p).1.atomsOf (w.prep p).2.1) (w.prep p).2.2 with e | ⟨new, ret⟩
  · simp only [worldFinish]; rw [prep_alat, if_pos hy]
  · simp only [worldFinish, setAtoms]; rw [prep_alat, if_pos hy]


theorem view_atoms_ok {w : World} {h : Nat} {old : List Nat} (hv : w.view.atoms h = .ok old) :
    w.atomsOf h = old ∧ ∃ t, w.strus[h]? = some t ∧ t.live = true ∧ t.atoms = old := by
  simp only [View.atoms, view, List.getElem?_map] at hv
  cases hg : w.strus[h]? with
  | none => simp [hg] at hv
  | some t =>
    simp only [hg, Option.map_some] at hv
    by_cases hl : t.live = true
    · simp only [hl, if_true] at hv
      cases hv
      exact ⟨by simp [atomsOf, hg, hl], t, rfl, hl, rfl⟩
    · simp [hl] at hv

/-- pickling with protocol 0/1 (`copyShape`): fresh atoms, fresh lattice -/
theorem exec_copyShape_fresh (w : World) (h : Nat) (xs : List Nat) :
    (w.exec (.copyShape h xs)).2 = .ok (.stru w.strus.length) ∧
    (∀ a ∈ (w.exec (.copyShape h xs)).1.atomsOf w.strus.length, w.nextA ≤ a) ∧
    (w.exec (.copyShape h xs)).1.latOf w.strus.length = w.nextL := by
  simp only [exec]
  obtain ⟨f1, _, _, _, _⟩ := copySome_frame ((w.pushStru w.nextL).newLat) (dedup xs []) (allTrue (dedup xs []))
  have hstr : (((w.pushStru w.nextL).newLat.copySome (dedup xs []) (allTrue (dedup xs []))).1.setLats
      (xs.filterMap (fun x => ((w.pushStru w.nextL).newLat.copySome (dedup xs []) (allTrue (dedup xs []))).2[(dedup xs []).idxOf x]?))
      w.nextL).strus = w.strus ++ [⟨[], w.nextL, true⟩] := by
    simp only [setLats, f1]; rfl
  obtain ⟨a1, a2⟩ := atomsOf_setAtoms_push _ w.strus w.nextL
    (xs.filterMap (fun x => ((w.pushStru w.nextL).newLat.copySome (dedup xs []) (allTrue (dedup xs []))).2[(dedup xs []).idxOf x]?)) hstr
  refine ⟨trivial, ?_, a2⟩
  rw [a1]
  intro a ha
  simp only [List.mem_filterMap] at ha
  obtain ⟨x, _, hx⟩ := ha
  have := copySome_allTrue_fresh ((w.pushStru w.nextL).newLat) (dedup xs []) a (List.mem_of_getElem? hx)
  simpa [pushStru, newLat] using this


/-! #### which operations need the side condition -/

theorem adopts_nil (w : World) (L : Nat) : Adopts w [] L := by intro x hx; simp at hx

theorem keptOf_allFalse (xs : List Nat) : keptOf xs (allFalse xs) = xs := by
  induction xs with
  | nil => rfl
  | cons a r ih => simp only [allFalse, List.map_cons, keptOf] at ih ⊢; rw [ih]

theorem keptOf_map (xs : List Nat) (g : Nat → Bool) : ∀ y ∈ keptOf xs (xs.map g), y ∈ xs ∧ g y = false := by
  induction xs with
  | nil => simp [keptOf]
  | cons a r ih =>
    intro y hy
    simp only [List.map_cons] at hy
    cases hg : g a with
    | true =>
      simp only [hg, keptOf] at hy
      exact ⟨List.mem_cons_of_mem _ (ih y hy).1, (ih y hy).2⟩
    | false =>
      simp only [hg, keptOf, List.mem_cons] at hy
      rcases hy with hy | hy
      · subst hy; exact ⟨by simp, hg⟩
      · exact ⟨List.mem_cons_of_mem _ (ih y hy).1, (ih y hy).2⟩

/-- under the invariant, atoms of structure `h` may always be (re-)linked to `h`'s own lattice -/
theorem inv_adopts_self {w : World} (hi : Inv w) {h : Nat} {xs : List Nat} (hx : ∀ x ∈ xs, x ∈ w.atomsOf h) :
    Adopts w xs (w.latOf h) := by
  intro x hxs s hs hl hxa
  obtain ⟨t, ht, htl, hta, hg⟩ := atomsOf_mem (hx x hxs)
  have h1 := hi t ht htl x hta
  have h2 := hi s hs hl x hxa
  simp only [latOf, hg]
  rw [← h1, h2]

theorem safe_plan_allTrue (w : World) (p : Plan Nat) (hp : p.pre = none) (hf : p.flags = allTrue p.inc) :
    SafeAct w (.plan p) := by
  refine ⟨by rw [hp]; trivial, ?_⟩
  rw [hf, keptOf_allTrue]
  exact adopts_nil w _

theorem safe_plan_noinc (w : World) (p : Plan Nat) (hp : p.pre = none) (hf : p.inc = []) :
    SafeAct w (.plan p) := by
  refine ⟨by rw [hp]; trivial, ?_⟩
  rw [hf]
  exact adopts_nil w _

/-- the operations whose side condition holds automatically: everything except lattice assignment
and the insertions that take atoms over without copying (`copy=False`, and `extend` with the default
flag and an iterable that is not a Structure) -/
def AutoSafe : Op → Prop
  | .setLat _ _ => False
  | .append _ _ c => c ≠ .no
  | .insert _ _ _ c => c ≠ .no
  | .extend _ it c => c = .yes ∨ (c = .dflt ∧ ∃ h', it = .stru h')
  | .setitem _ _ _ c => c = true
  | .setslice _ _ _ c => c = true
  | .ctor src _ => src = none ∨ ∃ h', src = some (.stru h')
  | _ => True

theorem safe_of_autoSafe {w : World} (hi : Inv w) {op : Op} (ha : AutoSafe op) : Safe w op := by
  cases op with
  | mkAtom p => simp [Safe, planG, SafeAct]
  | mkStru => simp only [Safe, planG]; exact safe_plan_noinc w _ rfl rfl
  | setLat h src => exact ha.elim
  | addNew h p =>
    rcases h1 : w.view.atoms h with e | old
    · simp [Safe, planG, h1]
    · simp only [Safe, planG, h1]
      trivial
  | append h a c =>
    rcases h1 : w.view.atoms h with e | old
    · simp [Safe, planG, h1]
    · simp only [Safe, planG, h1]
      rcases h2 : w.view.aref a with e | x
      · simp [h2]
      · simp only [h2]
        apply safe_plan_allTrue w _ rfl
        simp only [AutoSafe] at ha
        simp [allTrue, ha]
  | insert h i a c =>
    rcases h1 : w.view.atoms h with e | old
    · simp [Safe, planG, h1]
    · simp only [Safe, planG, h1]
      rcases h2 : w.view.aref a with e | x
      · simp [h2]
      · simp only [h2]
        apply safe_plan_allTrue w _ rfl
        simp only [AutoSafe] at ha
        simp [allTrue, ha]
  | extend h it c =>
    rcases h1 : w.view.atoms h with e | old
    · simp [Safe, planG, h1]
    · simp only [Safe, planG, h1]
      rcases h2 : w.view.iter it with e | ⟨xs, b⟩
      · simp [h2]
      · simp only [h2]
        apply safe_plan_allTrue w _ rfl
        simp only [AutoSafe] at ha
        rcases ha with ha | ⟨ha, h', rfl⟩
        · subst ha; rfl
        · subst ha
          simp only [View.iter] at h2
          rcases h3 : w.view.atoms h' with e | l
          · simp [h3] at h2
          · simp only [h3, Except.ok.injEq, Prod.mk.injEq] at h2
            obtain ⟨_, rfl⟩ := h2
            rfl
  | getitem h ix =>
    rcases h1 : w.view.atoms h with e | old
    · simp [Safe, planG, h1]
    · simp only [Safe, planG, h1]
      have hold := (view_atoms_ok h1).1
      have hsel : ∀ idxs, SafeAct w (selPlan h (pick old idxs)) := by
        intro idxs
        refine ⟨trivial, ?_⟩
        simp only [selPlan]
        have : (List.map (fun _ => false) (pick old idxs)) = allFalse (pick old idxs) := rfl
        rw [this, keptOf_allFalse]
        simp only [tgtLat]
        exact inv_adopts_self hi (fun x hx => by rw [hold]; exact pick_subset _ _ x hx)
      cases ix with
      | int i =>
        simp only [planIndex]
        rcases normIdx old.length i with _ | k
        · trivial
        · rcases hk : old[k]? with _ | a <;> simp [hk, SafeAct]
      | label p =>
        simp only [planIndex]
        rcases findLabel w.view.lab old p with e | k
        · trivial
        · rcases hk : old[k]? with _ | a <;> simp [hk, SafeAct]
      | slice sl =>
        simp only [planIndex]
        rcases sliceAdjust old.length sl with e | a
        · trivial
        · exact hsel _
      | arr is =>
        simp only [planIndex]
        rcases mapE (normIdxE old.length) is with e | idxs
        · trivial
        · exact hsel _
      | mask bs =>
        simp only [planIndex]
        by_cases hb : bs.length ≠ old.length ∧ bs ≠ []
        · rw [if_pos hb]; trivial
        · rw [if_neg hb]; exact hsel _
      | tuple ks =>
        simp only [planIndex]
        by_cases hk : ks = []
        · rw [if_pos hk]; trivial
        · rw [if_neg hk]
          rcases mapE (resolveKey w.view.lab old) ks with e | is
          · trivial
          · simp only
            rcases mapE (normIdxE old.length) is with e | idxs
            · trivial
            · exact hsel _
      | keys ks =>
        simp only [planIndex]
        rcases mapE (resolveKey w.view.lab old) ks with e | is
        · trivial
        · simp only
          rcases mapE (normIdxE old.length) is with e | idxs
          · trivial
          · exact hsel _
  | setitem h i a c =>
    rcases h1 : w.view.atoms h with e | old
    · simp [Safe, planG, h1]
    · simp only [Safe, planG, h1]
      rcases h2 : w.view.aref a with e | x
      · simp [h2]
      · simp only [h2]
        apply safe_plan_allTrue w _ rfl
        simp only [AutoSafe] at ha
        simp [allTrue, ha]
  | setslice h sl it c =>
    rcases h1 : w.view.atoms h with e | old
    · simp [Safe, planG, h1]
    · simp only [Safe, planG, h1]
      rcases h2 : w.view.iter it with e | ⟨xs, b⟩
      · simp [h2]
      · simp only [h2]
        rcases h3 : sliceAdjust old.length sl with e | a
        · trivial
        · simp only [AutoSafe] at ha
          subst ha
          refine ⟨trivial, ?_⟩
          simp only [if_true, tgtLat]
          apply inv_adopts_self hi
          intro x hx
          have := (keptOf_map xs (fun x => decide (x ∉ pick old (sliceIdx a))) x hx).2
          simp only [decide_eq_false_iff_not, Decidable.not_not] at this
          rw [(view_atoms_ok h1).1]
          exact pick_subset _ _ x this
  | delitem h i =>
    rcases h1 : w.view.atoms h with e | old
    · simp [Safe, planG, h1]
    · simp only [Safe, planG, h1]
      exact safe_plan_noinc w _ rfl rfl
  | delslice h sl =>
    rcases h1 : w.view.atoms h with e | old
    · simp [Safe, planG, h1]
    · simp only [Safe, planG, h1]
      exact safe_plan_noinc w _ rfl rfl
  | add h it =>
    rcases h1 : w.view.atoms h with e | old
    · simp [Safe, planG, h1]
    · simp only [Safe, planG, h1]
      rcases h2 : w.view.iter it with e | ⟨xs, b⟩
      · simp [h2]
      · simp only [h2]
        exact safe_plan_allTrue w _ rfl rfl
  | iadd h it =>
    rcases h1 : w.view.atoms h with e | old
    · simp [Safe, planG, h1]
    · simp only [Safe, planG, h1]
      rcases h2 : w.view.iter it with e | ⟨xs, b⟩
      · simp [h2]
      · simp only [h2]
        exact safe_plan_allTrue w _ rfl rfl
  | sub h it =>
    rcases h1 : w.view.atoms h with e | old
    · simp [Safe, planG, h1]
    · simp only [Safe, planG, h1]
      rcases h2 : w.view.iter it with e | ⟨xs, b⟩
      · simp [h2]
      · simp only [h2]
        refine ⟨?_, ?_⟩
        · simp only [preSafe]
          apply inv_adopts_self hi
          intro x hx
          rw [(view_atoms_ok h1).1]
          exact (List.mem_filter.mp hx).1
        · simp only [keptOf_allTrue]
          exact adopts_nil w _
  | isub h it =>
    rcases h1 : w.view.atoms h with e | old
    · simp [Safe, planG, h1]
    · simp only [Safe, planG, h1]
      rcases h2 : w.view.iter it with e | ⟨xs, b⟩
      · simp [h2]
      · simp only [h2]
        refine ⟨trivial, ?_⟩
        simp only [keptOf_allFalse, tgtLat]
        apply inv_adopts_self hi
        intro x hx
        rw [(view_atoms_ok h1).1]
        exact (List.mem_filter.mp hx).1
  | mul h n =>
    rcases h1 : w.view.atoms h with e | old
    · simp [Safe, planG, h1]
    · simp only [Safe, planG, h1]
      refine ⟨?_, ?_⟩
      · simp only [preSafe]; exact adopts_nil w _
      · simp only [keptOf_allTrue]; exact adopts_nil w _
  | imul h n =>
    rcases h1 : w.view.atoms h with e | old
    · simp [Safe, planG, h1]
    · simp only [Safe, planG, h1]
      by_cases hn : n ≤ 0
      · rw [if_pos hn]; exact safe_plan_noinc w _ rfl rfl
      · rw [if_neg hn]; exact safe_plan_allTrue w _ rfl rfl
  | copy h =>
    rcases h1 : w.view.atoms h with e | old
    · simp [Safe, planG, h1]
    · simp only [Safe, planG, h1]
      exact safe_plan_allTrue w _ rfl rfl
  | pickle h k =>
    rcases h1 : w.view.atoms h with e | old
    · simp [Safe, planG, h1]
    · simp only [Safe, planG, h1]
      by_cases hk : 2 ≤ k
      · rw [if_pos hk]; exact safe_plan_allTrue w _ rfl rfl
      · rw [if_neg hk]; trivial
  | deepcopy h =>
    rcases h1 : w.view.atoms h with e | old
    · simp [Safe, planG, h1]
    · simp only [Safe, planG, h1]
      exact safe_plan_allTrue w _ rfl rfl
  | pop h i =>
    rcases h1 : w.view.atoms h with e | old
    · simp [Safe, planG, h1]
    · simp only [Safe, planG, h1]
      exact safe_plan_noinc w _ rfl rfl
  | remove h a =>
    rcases h1 : w.view.atoms h with e | old
    · simp [Safe, planG, h1]
    · simp only [Safe, planG, h1]
      rcases h2 : w.view.aref a with e | x
      · simp [h2]
      · simp only [h2]
        rcases idxOfE x old 0 with e | k
        · trivial
        · exact safe_plan_noinc w _ rfl rfl
  | reverse h =>
    rcases h1 : w.view.atoms h with e | old
    · simp [Safe, planG, h1]
    · simp only [Safe, planG, h1]
      exact safe_plan_noinc w _ rfl rfl
  | sort h =>
    rcases h1 : w.view.atoms h with e | old
    · simp [Safe, planG, h1]
    · simp only [Safe, planG, h1]
      exact safe_plan_noinc w _ rfl rfl
  | clear h =>
    rcases h1 : w.view.atoms h with e | old
    · simp [Safe, planG, h1]
    · simp only [Safe, planG, h1]
      exact safe_plan_noinc w _ rfl rfl
  | drop h =>
    rcases h1 : w.view.atoms h with e | old
    · simp [Safe, planG, h1]
    · simp only [Safe, planG, h1]
      trivial
  | ctor src lat =>
    simp only [AutoSafe] at ha
    rcases ha with rfl | ⟨h', rfl⟩
    · simp only [Safe, planG]
      rcases checkLat w.view lat with e | L
      · trivial
      · exact safe_plan_noinc w _ rfl rfl
    · simp only [Safe, planG, View.iter]
      rcases h3 : w.view.atoms h' with e | l
      · trivial
      · simp only
        rcases checkLat w.view lat with e | L
        · trivial
        · exact safe_plan_allTrue w _ rfl rfl

instance (w : World) (op : Op) : Decidable (Safe w op) := by
  unfold Safe
  cases planG w.view op <;> infer_instance

instance decSafeHist : (w : World) → (ops : List Op) → Decidable (SafeHist w ops)
  | _, [] => isTrue trivial
  | w, op :: ops => @instDecidableAnd _ _ _ (decSafeHist (w.stepFull op).1 ops)


end World

/-! #### no atom in two slots -/

section NodupLists
variable {α : Type}

theorem nodup_mid {a c ys : List α} (hac : (a ++ c).Nodup) (hy : ys.Nodup) (hd : ∀ y ∈ ys, y ∉ a ++ c) :
    (a ++ ys ++ c).Nodup := by
  simp only [List.nodup_append, List.mem_append] at hac hd ⊢
  obtain ⟨ha, hc, hac'⟩ := hac
  refine ⟨⟨ha, hy, ?_⟩, hc, ?_⟩
  · intro x hx y hyy e; subst e; exact hd x hyy (Or.inl hx)
  · intro x hx y hyc e
    subst e
    rcases hx with hx | hx
    · exact hac' x hx x hyc rfl
    · exact hd x hx (Or.inr hyc)

theorem dropIdx_sublist (idxs : List Nat) (l : List α) (k : Nat) : (dropIdx idxs l k).Sublist l := by
  induction l generalizing k with
  | nil => simp [dropIdx]
  | cons b l ih =>
    simp only [dropIdx]
    split
    · exact List.Sublist.cons _ (ih _)
    · exact List.Sublist.cons₂ _ (ih _)

theorem take_drop_sublist (l : List α) (a b : Nat) (hab : a ≤ b) : (l.take a ++ l.drop b).Sublist l := by
  have h1 : l = l.take a ++ l.drop a := (List.take_append_drop a l).symm
  have h2 : (l.drop b).Sublist (l.drop a) := by
    have : l.drop b = (l.drop a).drop (b - a) := by rw [List.drop_drop]; congr 1; omega
    rw [this]; exact List.drop_sublist _ _
  calc (l.take a ++ l.drop b).Sublist (l.take a ++ l.drop a) := List.Sublist.append_left h2 _
    _ = l := h1.symm

theorem pick_nodup [DecidableEq α] (l : List α) (idxs : List Nat) (hl : l.Nodup) (hi : idxs.Nodup) : (pick l idxs).Nodup := by
  induction idxs with
  | nil => simp [pick]
  | cons i is ih =>
    simp only [List.nodup_cons] at hi
    simp only [pick, List.filterMap_cons]
    cases hg : l[i]? with
    | none => exact ih hi.2
    | some a =>
      simp only [List.nodup_cons]
      refine ⟨?_, ih hi.2⟩
      intro hmem
      simp only [List.mem_filterMap] at hmem
      obtain ⟨j, hj, hja⟩ := hmem
      have hil : i < l.length := by
        rcases Nat.lt_or_ge i l.length with h | h
        · exact h
        · simp [List.getElem?_eq_none h] at hg
      have : i = j := (List.getElem?_inj hil hl).mp (by rw [hg, hja])
      subst this
      exact hi.1 hj

theorem insertByKey_perm (keys : List Nat) (i : Nat) (l : List Nat) : (insertByKey keys i l).Perm (i :: l) := by
  induction l with
  | nil => simp [insertByKey]
  | cons j r ih =>
    simp only [insertByKey]
    split
    · exact List.Perm.refl _
    · exact (List.Perm.cons j ih).trans (List.Perm.swap i j r)

theorem foldl_insertByKey_perm (keys : List Nat) (is acc : List Nat) :
    (is.foldl (fun acc i => insertByKey keys i acc) acc).Perm (is.reverse ++ acc) := by
  induction is generalizing acc with
  | nil => simp
  | cons i is ih =>
    simp only [List.foldl_cons, List.reverse_cons, List.append_assoc, List.singleton_append]
    exact (ih _).trans (List.Perm.append_left _ (insertByKey_perm keys i acc))

theorem sortIdx_nodup (keys : List Nat) : (sortIdx keys).Nodup := by
  have h := foldl_insertByKey_perm keys (List.range keys.length) []
  simp only [List.append_nil] at h
  have h2 : (List.range keys.length).reverse.Nodup := by
    rw [List.Nodup, List.pairwise_reverse]
    have := @List.nodup_range keys.length
    simp only [List.Nodup] at this
    exact this.imp (fun h => Ne.symm h)
  exact h.symm.nodup h2

/-- the old members that stay in place when an edit inserts new elements -/
def remain : Edit → List α → List α
  | .append, old => old
  | .insert _, old => old
  | .setInt i, old => match normIdx old.length i with
    | some k => old.eraseIdx k
    | none => old
  | .setSlice sl, old => match sliceAdjust old.length sl with
    | .ok a => old.take a.1.toNat ++ old.drop (max a.2.1 a.1).toNat
    | .error _ => old
  | .replace, _ => []
  | _, old => old

/-- the edits covered by `no_alias_partial`: everything except the assignment to an *extended*
slice (step ≠ 1) and an arbitrary permutation that repeats an index -/
def plainSlice (n : Nat) (sl : Slice) : Bool := match sliceAdjust n sl with
  | .ok a => a.2.2 == 1
  | .error _ => true

def CoreEdit : Edit → Nat → Prop
  | .setSlice sl, n => plainSlice n sl = true
  | .permute idxs, _ => idxs.Nodup
  | _, _ => True

instance (e : Edit) (n : Nat) : Decidable (CoreEdit e n) := by
  cases e <;> unfold CoreEdit <;> infer_instance

theorem Edit.apply_nodup [DecidableEq α] {e : Edit} {old ys new : List α} {ret : Option α}
    (h : e.apply old ys = .ok (new, ret)) (ho : old.Nodup) (hy : ys.Nodup)
    (hd : ∀ y ∈ ys, y ∉ remain e old) (hc : CoreEdit e old.length) : new.Nodup := by
  cases e with
  | append =>
    simp only [Edit.apply, Except.ok.injEq, Prod.mk.injEq] at h
    obtain ⟨rfl, rfl⟩ := h
    simp only [remain] at hd
    rw [List.nodup_append]
    exact ⟨ho, hy, fun a ha b hb e => by subst e; exact hd a hb ha⟩
  | insert i =>
    simp only [Edit.apply, Except.ok.injEq, Prod.mk.injEq] at h
    obtain ⟨rfl, rfl⟩ := h
    simp only [remain] at hd
    apply nodup_mid
    · rw [List.take_append_drop]; exact ho
    · exact hy
    · rw [List.take_append_drop]; exact hd
  | setInt i =>
    simp only [Edit.apply] at h
    rcases hk : normIdx old.length i with _ | k
    · simp [hk] at h
    · rcases ys with _ | ⟨y, _ | ⟨z, zs⟩⟩
      · simp [hk] at h
      · simp only [hk, Except.ok.injEq, Prod.mk.injEq] at h
        obtain ⟨rfl, rfl⟩ := h
        simp only [remain, hk, List.eraseIdx_eq_take_drop_succ] at hd
        rw [List.set_eq_take_append_cons_drop]
        split
        · have := @nodup_mid α (old.take k) (old.drop (k + 1)) [y]
            ((take_drop_sublist old k (k + 1) (by omega)).nodup ho) hy hd
          simpa using this
        · exact ho
      · simp [hk] at h
  | setSlice sl =>
    simp only [Edit.apply] at h
    split at h
    · cases h
    · rename_i a ha
      simp only [CoreEdit, plainSlice, ha, beq_iff_eq] at hc
      simp only [hc, if_true, Except.ok.injEq, Prod.mk.injEq] at h
      obtain ⟨rfl, rfl⟩ := h
      simp only [remain, ha] at hd
      apply nodup_mid _ hy hd
      apply (take_drop_sublist old _ _ _).nodup ho
      have : a.1 ≤ max a.2.1 a.1 := Int.le_max_right _ _
      omega
  | replace =>
    simp only [Edit.apply, Except.ok.injEq, Prod.mk.injEq] at h
    obtain ⟨rfl, rfl⟩ := h
    exact hy
  | delInt i =>
    simp only [Edit.apply] at h
    split at h
    · simp only [Except.ok.injEq, Prod.mk.injEq] at h
      obtain ⟨rfl, rfl⟩ := h
      exact (List.eraseIdx_sublist _ _).nodup ho
    · cases h
  | delSlice sl =>
    simp only [Edit.apply] at h
    split at h
    · cases h
    · simp only [Except.ok.injEq, Prod.mk.injEq] at h
      obtain ⟨rfl, rfl⟩ := h
      exact (dropIdx_sublist _ _ _).nodup ho
  | pop i =>
    simp only [Edit.apply] at h
    split at h
    · simp only [Except.ok.injEq, Prod.mk.injEq] at h
      obtain ⟨rfl, rfl⟩ := h
      exact (List.eraseIdx_sublist _ _).nodup ho
    · cases h
  | delAt k =>
    simp only [Edit.apply, Except.ok.injEq, Prod.mk.injEq] at h
    obtain ⟨rfl, rfl⟩ := h
    exact (List.eraseIdx_sublist _ _).nodup ho
  | reverse =>
    simp only [Edit.apply, Except.ok.injEq, Prod.mk.injEq] at h
    obtain ⟨rfl, rfl⟩ := h
    rw [List.Nodup, List.pairwise_reverse]
    exact ho.imp (fun h => Ne.symm h)
  | permute idxs =>
    simp only [Edit.apply, Except.ok.injEq, Prod.mk.injEq] at h
    obtain ⟨rfl, rfl⟩ := h
    exact pick_nodup old idxs ho hc
  | clear =>
    simp only [Edit.apply, Except.ok.injEq, Prod.mk.injEq] at h
    obtain ⟨rfl, rfl⟩ := h
    exact List.nodup_nil

end NodupLists

namespace World

theorem copySome_nodup (w : World) (xs : List Nat) (fl : List Bool) (hk : (keptOf xs fl).Nodup)
    (hx : ∀ x ∈ xs, x < w.nextA) : (w.copySome xs fl).2.Nodup := by
  induction xs generalizing w fl with
  | nil => simp [copySome]
  | cons a r ih =>
    have hr : ∀ x ∈ r, x < w.nextA := fun x h => hx x (by simp [h])
    cases fl with
    | nil =>
      simp only [keptOf, List.nodup_cons] at hk
      simp only [copySome, List.nodup_cons]
      refine ⟨?_, ih w [] hk.2 hr⟩
      intro hin
      rcases copySome_mem w r [] a hin with h | h
      · exact hk.1 h
      · have := hx a (by simp); omega
    | cons b fr =>
      cases b with
      | false =>
        simp only [keptOf, List.nodup_cons] at hk
        simp only [copySome, List.nodup_cons]
        refine ⟨?_, ih w fr hk.2 hr⟩
        intro hin
        rcases copySome_mem w r fr a hin with h | h
        · exact hk.1 h
        · have := hx a (by simp); omega
      | true =>
        simp only [keptOf] at hk
        simp only [copySome, List.nodup_cons]
        have hr' : ∀ x ∈ r, x < (w.allocAtom (w.pay a) (w.alat a)).nextA := by
          intro x h; have := hr x h; simp only [allocAtom_nextA]; omega
        refine ⟨?_, ih _ fr hk hr'⟩
        intro hin
        rcases copySome_mem _ r fr w.nextA hin with h | h
        · have := hr w.nextA (keptOf_subset r fr _ h); omega
        · have := h.1; simp only [allocAtom_nextA] at this; omega

/-- no live structure holds an atom object in two slots -/
def NodupInv (w : World) : Prop := ∀ s ∈ w.strus, s.live = true → s.atoms.Nodup

/-- the member list an action edits (empty for a new structure) -/
def oldOf (w : World) (p : Plan Nat) : List Nat := match p.tgt with
  | .old h => w.atomsOf h
  | .new _ => []

/-- side condition of `no_alias`, on the action and the pre-state: the atoms taken over *without
copying* are pairwise different and none of them is a member that stays in the target (i.e. the caller
did not pass `copy=False` a duplicate, and a slice assignment / index selection does not list one
member twice); the edit is not an extended-slice assignment; pickling uses protocol ≥ 2 -/
def DupFreeAct (w : World) : Act Nat → Prop
  | .plan p =>
    (keptOf p.inc p.flags).Nodup ∧ (∀ y ∈ keptOf p.inc p.flags, y ∉ remain p.edit (oldOf w p)) ∧
    CoreEdit p.edit (oldOf w p).length
  | .copyShape _ _ => False
  | _ => True

theorem prep_atomsOf (w : World) (p : Plan Nat) :
    (w.prep p).1.atomsOf (w.prep p).2.1 = oldOf w p := by
  obtain ⟨e1, _, _, _, e5, _⟩ := prep_strus w p
  obtain ⟨_, _, _, _, _, g6⟩ := w1_frame w p
  simp only [atomsOf, e1, g6, e5, hT, oldOf]
  cases p.tgt with
  | old h => rfl
  | new src => cases src <;> simp

theorem prep_nodupInv {w : World} (hn : NodupInv w) (p : Plan Nat) : NodupInv (w.prep p).1 := by
  obtain ⟨e1, _, _, _, _, _⟩ := prep_strus w p
  obtain ⟨_, _, _, _, _, g6⟩ := w1_frame w p
  intro s hs hl
  rw [e1, g6] at hs
  cases htg : p.tgt with
  | old h => rw [htg] at hs; exact hn s hs hl
  | new src =>
    cases src with
    | fresh =>
      simp only [htg, List.mem_append, List.mem_singleton] at hs
      rcases hs with hs | hs
      · exact hn s hs hl
      · subst hs; exact List.nodup_nil
    | ofStru h' =>
      simp only [htg, List.mem_append, List.mem_singleton] at hs
      rcases hs with hs | hs
      · exact hn s hs hl
      · subst hs; exact List.nodup_nil

theorem atomsOf_nodup {w : World} (hn : NodupInv w) (h : Nat) : (w.atomsOf h).Nodup := by
  simp only [atomsOf]
  split
  · rename_i s hs
    split
    · rename_i hl; exact hn s (List.mem_of_getElem? hs) hl
    · exact List.nodup_nil
  · exact List.nodup_nil

theorem execPlan_nodup {w : World} (hw : Wf w) (hn : NodupInv w) (p : Plan Nat) (hinc : ∀ x ∈ p.inc, x < w.nextA)
    (hd : DupFreeAct w (.plan p)) : NodupInv (w.execPlan p).1 := by
  have hq := prep_nodupInv hn p
  obtain ⟨hd1, hd2, hd3⟩ := hd
  obtain ⟨_, _, _, _, _, e6⟩ := prep_strus w p
  obtain ⟨_, _, g3, _, _, _⟩ := w1_frame w p
  rw [execPlan_eq]
  rcases hap : p.edit.apply ((w.prep p).1.atomsOf (w.prep p).2.1) (w.prep p).2.2 with e | ⟨new, ret⟩
  · exact hq
  · simp only [worldFinish]
    rw [prep_atomsOf] at hap
    have hold : (oldOf w p).Nodup := by
      simp only [oldOf]; cases p.tgt with
      | old h => exact atomsOf_nodup hn h
      | new _ => exact List.nodup_nil
    have hys : (w.prep p).2.2.Nodup := by
      rw [e6]; exact copySome_nodup _ _ _ hd1 (by intro x hx; rw [g3]; exact hinc x hx)
    have hdis : ∀ y ∈ (w.prep p).2.2, y ∉ remain p.edit (oldOf w p) := by
      intro y hy hin
      rw [e6] at hy
      rcases copySome_mem (w1 w p) p.inc p.flags y hy with h | h
      · exact hd2 y h hin
      · -- a fresh atom is not a member of the old list
        have hlt : ∀ z ∈ oldOf w p, z < w.nextA := by
          intro z hz
          simp only [oldOf] at hz
          cases htg : p.tgt with
          | old h => rw [htg] at hz; exact atomsOf_lt hw h z hz
          | new _ => rw [htg] at hz; simp at hz
        have hsub : ∀ z ∈ remain p.edit (oldOf w p), z ∈ oldOf w p := by
          intro z hz
          cases hedit : p.edit <;> simp only [hedit, remain] at hz <;> try exact hz
          · split at hz
            · exact (List.eraseIdx_sublist _ _).subset hz
            · exact hz
          · split at hz
            · simp only [List.mem_append] at hz
              rcases hz with hz | hz
              · exact List.mem_of_mem_take hz
              · exact List.mem_of_mem_drop hz
            · exact hz
          · simp at hz
        have := hlt y (hsub y hin)
        rw [g3] at h
        omega
    have hnew := Edit.apply_nodup hap hold hys hdis hd3
    intro s hsm hl
    simp only [setAtoms] at hsm
    rcases mem_updAt_idx hsm with h | ⟨t, ht, rfl⟩
    · exact hq s h hl
    · exact hnew

theorem exec_nodup {w : World} (hw : Wf w) (hn : NodupInv w) (act : Act Nat) (hok : ActOk w act)
    (hd : DupFreeAct w act) : NodupInv (w.exec act).1 := by
  cases act with
  | plan p => exact execPlan_nodup hw hn p hok.1 hd
  | retAtom a h => exact hn
  | mkAtom p => exact hn
  | addNew h p =>
    intro s hsm hl
    simp only [exec, setAtoms] at hsm
    rcases mem_updAt_idx hsm with h1 | ⟨t, ht, rfl⟩
    · exact hn s h1 hl
    · simp only
      rw [List.nodup_append]
      refine ⟨atomsOf_nodup hn h, by simp, ?_⟩
      intro a ha b hb e
      simp only [List.mem_singleton] at hb
      have := atomsOf_lt hw h a ha
      omega
  | setLat h src =>
    intro s hsm hl
    simp only [exec] at hsm
    have hstr : (match src with
        | LatSrc.fresh => w.newLat
        | LatSrc.ofStru _ => w).strus = w.strus := by cases src <;> rfl
    rcases mem_updAt_idx hsm with h1 | ⟨t, ht, rfl⟩
    · cases src <;> exact hn s h1 hl
    · cases src <;> exact hn t (List.mem_of_getElem? ht) hl
  | drop h =>
    intro s hsm hl
    simp only [exec] at hsm
    rcases mem_updAt_idx hsm with h1 | ⟨t, ht, rfl⟩
    · exact hn s h1 hl
    · simp at hl
  | copyShape h xs => exact hd.elim

instance (w : World) (act : Act Nat) : Decidable (DupFreeAct w act) := by
  cases act <;> unfold DupFreeAct <;> infer_instance

/-- the side condition of one step of `no_alias` -/
def DupFree (w : World) (op : Op) : Prop :=
  match planG w.view op with
  | .ok act => DupFreeAct w act
  | .error _ => True

instance (w : World) (op : Op) : Decidable (DupFree w op) := by
  unfold DupFree
  cases planG w.view op <;> infer_instance

theorem stepFull_nodup {w : World} (hw : Wf w) (hn : NodupInv w) (op : Op) (hd : DupFree w op) :
    NodupInv (w.stepFull op).1 := by
  simp only [stepFull]
  simp only [DupFree] at hd
  split
  · exact hn
  · rename_i act hact
    rw [hact] at hd
    exact exec_nodup hw hn act (planG_all (view_all hw) hact) hd

def DupFreeHist : World → List Op → Prop
  | _, [] => True
  | w, op :: ops => DupFree w op ∧ DupFreeHist (w.stepFull op).1 ops

instance decDupFreeHist : (w : World) → (ops : List Op) → Decidable (DupFreeHist w ops)
  | _, [] => isTrue trivial
  | w, op :: ops => @instDecidableAnd _ _ _ (decDupFreeHist (w.stepFull op).1 ops)

theorem run_nodup {w : World} (hw : Wf w) (hn : NodupInv w) (ops : List Op) (hd : DupFreeHist w ops) :
    NodupInv (w.run ops) := by
  induction ops generalizing w with
  | nil => exact hn
  | cons op ops ih => exact ih (stepFull_wf hw op) (stepFull_nodup hw hn op hd.1) hd.2

end World

end DS.World
