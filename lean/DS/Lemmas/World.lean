import DS.Model.World
/-!
Lemmas about the object-graph model `DS.Model.World` (property C08).

1. naturality of the CPython list primitives and of `Edit.apply` under `List.map`;
2. naturality of the planner `planG` under a map of the element type (the bridge between the heap
   model and the plain-list specification);
3. frame lemmas of the heap primitives (`copySome`, `setLats`, `setAtoms`, …).
-/
namespace DS.World

section Natural
variable {α β : Type} (f : α → β)

theorem pick_map (l : List α) (idxs : List Nat) : pick (l.map f) idxs = (pick l idxs).map f := by
  unfold pick
  rw [List.map_filterMap]
  congr 1
  funext i
  simp

theorem dropIdx_map (idxs : List Nat) (l : List α) (k : Nat) :
    dropIdx idxs (l.map f) k = (dropIdx idxs l k).map f := by
  induction l generalizing k with
  | nil => rfl
  | cons a l ih =>
    simp only [List.map_cons, dropIdx]
    split <;> simp [ih]

theorem setMany_map (l : List α) (is : List Nat) (ys : List α) :
    setMany (l.map f) is (ys.map f) = (setMany l is ys).map f := by
  induction is generalizing l ys with
  | nil => cases ys <;> simp [setMany]
  | cons i is ih =>
    cases ys with
    | nil => simp [setMany]
    | cons y ys => simp only [List.map_cons, setMany, ← List.map_set, ih]

theorem eraseIdx_map (l : List α) (k : Nat) : (l.map f).eraseIdx k = (l.eraseIdx k).map f := by
  induction l generalizing k with
  | nil => rfl
  | cons a l ih => cases k <;> simp [List.eraseIdx, ih]

theorem rep_map (n : Nat) (l : List α) : rep n (l.map f) = (rep n l).map f := by
  induction n with
  | zero => rfl
  | succ n ih => simp [rep, ih]

/-- the image of an edit result -/
def mapRes (r : Except Err (List α × Option α)) : Except Err (List β × Option β) :=
  match r with
  | .ok (l, o) => .ok (l.map f, o.map f)
  | .error e => .error e

theorem Edit.apply_map (e : Edit) (old ys : List α) :
    e.apply (old.map f) (ys.map f) = mapRes f (e.apply old ys) := by
  cases e with
  | append => simp [Edit.apply, mapRes]
  | insert i => simp [Edit.apply, mapRes, List.map_take, List.map_drop]
  | setInt i =>
    simp only [Edit.apply, List.length_map]
    cases normIdx old.length i with
    | none => simp [mapRes]
    | some k =>
      cases ys with
      | nil => simp [mapRes]
      | cons y ys =>
        cases ys with
        | nil => simp [mapRes, List.map_set]
        | cons z zs => simp [mapRes]
  | setSlice sl =>
    simp only [Edit.apply, List.length_map]
    cases sliceAdjust old.length sl with
    | error e => simp [mapRes]
    | ok a =>
      simp only
      split
      · simp [mapRes, List.map_take, List.map_drop]
      · split
        · simp [mapRes]
        · simp [mapRes, setMany_map]
  | replace => simp [Edit.apply, mapRes]
  | delInt i =>
    simp only [Edit.apply, List.length_map]
    cases normIdx old.length i <;> simp [mapRes, eraseIdx_map]
  | delSlice sl =>
    simp only [Edit.apply, List.length_map]
    cases sliceAdjust old.length sl <;> simp [mapRes, dropIdx_map]
  | pop i =>
    simp only [Edit.apply, List.length_map]
    cases normIdx old.length (i.getD (-1)) <;> simp [mapRes, eraseIdx_map]
  | delAt k => simp [Edit.apply, mapRes, eraseIdx_map]
  | reverse => simp [Edit.apply, mapRes]
  | permute idxs => simp [Edit.apply, mapRes, pick_map]
  | clear => simp [Edit.apply, mapRes]


/-! ### naturality of the planner -/

def emap {γ δ : Type} (g : γ → δ) : Except Err γ → Except Err δ
  | .ok a => .ok (g a)
  | .error e => .error e

@[simp] theorem emap_ok {γ δ : Type} (g : γ → δ) (a : γ) : emap g (.ok a) = .ok (g a) := rfl
@[simp] theorem emap_error {γ δ : Type} (g : γ → δ) (e : Err) : emap g (.error e : Except Err γ) = .error e := rfl

structure ViewRel (v : View α) (v' : View β) : Prop where
  strus : v'.strus = v.strus.map (Option.map (List.map f))
  pool : v'.pool = v.pool.map f
  lab : ∀ a, v'.lab (f a) = v.lab a

def ActRel : Act α → Act β → Prop
  | .plan p, .plan q => q.tgt = p.tgt ∧ q.inc = p.inc.map f ∧ q.edit = p.edit
  | .retAtom a h, .retAtom b h' => b = f a ∧ h' = h
  | .mkAtom p, .mkAtom p' => p' = p
  | .addNew h p, .addNew h' p' => h' = h ∧ p' = p
  | .setLat h s, .setLat h' s' => h' = h ∧ s' = s
  | .drop h, .drop h' => h' = h
  | .copyShape h xs, .copyShape h' ys => h' = h ∧ ys = xs.map f
  | _, _ => False

def ExRel : Except Err (Act α) → Except Err (Act β) → Prop
  | .ok a, .ok b => ActRel f a b
  | .error e, .error e' => e' = e
  | _, _ => False

variable {f}

theorem atoms_nat {v : View α} {v' : View β} (R : ViewRel f v v') (h : Nat) :
    v'.atoms h = emap (List.map f) (v.atoms h) := by
  simp only [View.atoms, R.strus, List.getElem?_map]
  cases v.strus[h]? with
  | none => rfl
  | some o => cases o <;> rfl

theorem aref_nat {v : View α} {v' : View β} (R : ViewRel f v v') (a : ARef) :
    v'.aref a = emap f (v.aref a) := by
  cases a with
  | pool k =>
    simp only [View.aref, R.pool, List.getElem?_map]
    cases v.pool[k]? <;> rfl
  | mem h i =>
    simp only [View.aref, atoms_nat R]
    cases v.atoms h with
    | error e => rfl
    | ok l =>
      simp only [emap_ok, List.length_map, List.getElem?_map]
      cases normIdx l.length i with
      | none => rfl
      | some k => cases l[k]? <;> rfl

theorem mapE_nat {γ : Type} {g : γ → Except Err α} {g' : γ → Except Err β}
    (hg : ∀ b, g' b = emap f (g b)) (xs : List γ) :
    mapE g' xs = emap (List.map f) (mapE g xs) := by
  induction xs with
  | nil => rfl
  | cons b bs ih =>
    simp only [mapE, hg, ih]
    cases g b with
    | error e => rfl
    | ok a => cases mapE g bs <;> rfl

theorem iter_nat {v : View α} {v' : View β} (R : ViewRel f v v') (it : Iter) :
    v'.iter it = emap (fun p => (p.1.map f, p.2)) (v.iter it) := by
  cases it with
  | list xs => simp only [View.iter, mapE_nat (aref_nat R)]; cases mapE v.aref xs <;> rfl
  | gen xs => simp only [View.iter, mapE_nat (aref_nat R)]; cases mapE v.aref xs <;> rfl
  | stru h => simp only [View.iter, atoms_nat R]; cases v.atoms h <;> rfl
  | tolist h => simp only [View.iter, atoms_nat R]; cases v.atoms h <;> rfl
  | genOf h => simp only [View.iter, atoms_nat R]; cases v.atoms h <;> rfl

theorem findLabel_nat {v : View α} {v' : View β} (R : ViewRel f v v') (l : List α) (p : Nat) :
    findLabel v'.lab (l.map f) p = findLabel v.lab l p := by
  simp only [findLabel, List.map_map]
  have : ((fun a => v'.lab a == p) ∘ f) = (fun a => v.lab a == p) := by
    funext a; simp [R.lab]
  rw [this]

theorem resolveKey_nat {v : View α} {v' : View β} (R : ViewRel f v v') (l : List α) (k : Key) :
    resolveKey v'.lab (l.map f) k = resolveKey v.lab l k := by
  cases k with
  | int i => rfl
  | label p => simp only [resolveKey, findLabel_nat R]

theorem planIndex_nat {v : View α} {v' : View β} (R : ViewRel f v v') (h : Nat) (old : List α) (ix : Index) :
    ExRel f (planIndex v h old ix) (planIndex v' h (old.map f) ix) := by
  cases ix with
  | int i =>
    simp only [planIndex, List.length_map, List.getElem?_map]
    cases normIdx old.length i with
    | none => simp [ExRel]
    | some k => cases old[k]? <;> simp [ExRel, ActRel]
  | slice sl =>
    simp only [planIndex, List.length_map]
    cases sliceAdjust old.length sl <;> simp [ExRel, ActRel, selPlan, pick_map]
  | arr is =>
    simp only [planIndex, List.length_map]
    cases mapE (normIdxE old.length) is <;> simp [ExRel, ActRel, selPlan, pick_map]
  | mask bs =>
    simp only [planIndex, List.length_map]
    split <;> simp [ExRel, ActRel, selPlan, pick_map]
  | label p =>
    simp only [planIndex, findLabel_nat R, List.getElem?_map]
    cases findLabel v.lab old p with
    | error e => simp [ExRel]
    | ok k => cases old[k]? <;> simp [ExRel, ActRel]
  | tuple ks =>
    simp only [planIndex, List.length_map]
    split
    · simp [ExRel]
    · have : mapE (resolveKey v'.lab (old.map f)) ks = mapE (resolveKey v.lab old) ks := by
        congr 1; funext k; exact resolveKey_nat R old k
      rw [this]
      cases mapE (resolveKey v.lab old) ks with
      | error e => simp [ExRel]
      | ok is => cases mapE (normIdxE old.length) is <;> simp [ExRel, ActRel, selPlan, pick_map]
  | keys ks =>
    simp only [planIndex, List.length_map]
    have : mapE (resolveKey v'.lab (old.map f)) ks = mapE (resolveKey v.lab old) ks := by
      congr 1; funext k; exact resolveKey_nat R old k
    rw [this]
    cases mapE (resolveKey v.lab old) ks with
    | error e => simp [ExRel]
    | ok is => cases mapE (normIdxE old.length) is <;> simp [ExRel, ActRel, selPlan, pick_map]

end Natural

end DS.World
