import DS.Model.Constraints
import DS.Model.SymSpec
import DS.Lemmas.Group
import DS.Lemmas.Orbit
import Mathlib.Tactic.Ring
import Mathlib.Tactic.LinearCombination
import Mathlib.Tactic.FieldSimp
import Mathlib.Algebra.Field.Rat
import Mathlib.Data.List.Perm.Basic

/-!
Helper lemmas for C05 / C06: the symmetry-constraint certificates of `DS.Model.Constraints`.

The vector case (`Vec3 Q`, pairing `Vec3.dot`) and the tensor case (`Mat3 Q`, pairing `frob`) share
one small abstract layer `QSp` (a rational vector space with a pairing that is linear in its first
argument); everything about linear combinations, dual families, sums over a list of linear
operators and group averages is proved once there and instantiated twice.
-/
namespace DS
namespace Con

/-! ### abstract layer -/

/-- a `Q`-vector space with a pairing linear in the first argument (just what the proofs use) -/
class QSp (V : Type) where
  qadd : V → V → V
  qsmul : Q → V → V
  qzero : V
  qpair : V → V → Q
  qadd_zero : ∀ u, qadd u qzero = u
  qadd_comm : ∀ u v, qadd u v = qadd v u
  qadd_assoc : ∀ u v w, qadd (qadd u v) w = qadd u (qadd v w)
  qsmul_add : ∀ c u v, qsmul c (qadd u v) = qadd (qsmul c u) (qsmul c v)
  qadd_smul : ∀ a b u, qsmul (a + b) u = qadd (qsmul a u) (qsmul b u)
  qmul_smul : ∀ a b u, qsmul (a * b) u = qsmul a (qsmul b u)
  qone_smul : ∀ u, qsmul 1 u = u
  qzero_smul : ∀ u, qsmul 0 u = qzero
  qsmul_zero : ∀ c, qsmul c qzero = qzero
  qpair_add : ∀ u v d, qpair (qadd u v) d = qpair u d + qpair v d
  qpair_smul : ∀ c u d, qpair (qsmul c u) d = c * qpair u d
  qpair_zero : ∀ d, qpair qzero d = 0

open QSp

section Generic
variable {V : Type} [QSp V]

theorem qzero_add (u : V) : qadd qzero u = u := by rw [qadd_comm, qadd_zero]

theorem qadd4 (a b c d : V) : qadd (qadd a b) (qadd c d) = qadd (qadd a c) (qadd b d) := by
  rw [qadd_assoc, qadd_assoc, ← qadd_assoc b c d, qadd_comm b c, qadd_assoc c b d]

theorem qadd_left_comm (a b c : V) : qadd a (qadd b c) = qadd b (qadd a c) := by
  rw [← qadd_assoc, qadd_comm a b, qadd_assoc]

/-- linear combination (generic form of `lincomb` / `lincombT`) -/
def lc : List Q → List V → V
  | c :: cs, r :: rs => qadd (qsmul c r) (lc cs rs)
  | _, _ => qzero

@[simp] theorem lc_cons (c : Q) (cs : List Q) (r : V) (rs : List V) :
    lc (c :: cs) (r :: rs) = qadd (qsmul c r) (lc cs rs) := rfl
@[simp] theorem lc_nil_left (rs : List V) : lc [] rs = (qzero : V) := rfl
@[simp] theorem lc_nil_right (cs : List Q) : lc cs ([] : List V) = (qzero : V) := by
  cases cs <;> rfl

structure IsLin (f : V → V) : Prop where
  map_add : ∀ u v, f (qadd u v) = qadd (f u) (f v)
  map_smul : ∀ c u, f (qsmul c u) = qsmul c (f u)

theorem IsLin.map_zero {f : V → V} (hf : IsLin f) : f qzero = qzero := by
  have := hf.map_smul 0 qzero
  rwa [qzero_smul, qzero_smul] at this

theorem IsLin.map_lc {f : V → V} (hf : IsLin f) :
    ∀ (cs : List Q) (rs : List V), f (lc cs rs) = lc cs (rs.map f)
  | [], rs => by simp [hf.map_zero]
  | c :: cs, [] => by simp [hf.map_zero]
  | c :: cs, r :: rs => by
    simp only [lc_cons, List.map_cons, hf.map_add, hf.map_smul, IsLin.map_lc hf cs rs]

theorem IsLin.comp {f g : V → V} (hf : IsLin f) (hg : IsLin g) : IsLin (fun v => f (g v)) :=
  ⟨fun u v => by rw [hg.map_add, hf.map_add], fun c u => by rw [hg.map_smul, hf.map_smul]⟩

theorem IsLin.smul {f : V → V} (hf : IsLin f) (a : Q) : IsLin (fun v => qsmul a (f v)) :=
  ⟨fun u v => by rw [hf.map_add, qsmul_add],
   fun c u => by rw [hf.map_smul, ← qmul_smul, ← qmul_smul, mul_comm]⟩

/-- a linear operator that fixes every row fixes every linear combination of the rows -/
theorem IsLin.fix_lc {f : V → V} (hf : IsLin f) {rows : List V} (h : ∀ r ∈ rows, f r = r)
    (cs : List Q) : f (lc cs rows) = lc cs rows := by
  rw [hf.map_lc]
  congr 1
  conv_rhs => rw [← List.map_id rows]
  exact List.map_congr_left (fun r hr => by simpa using h r hr)

/-- two linear operators that agree on a family agree on its span -/
theorem IsLin.ext_span {f g : V → V} (hf : IsLin f) (hg : IsLin g) {es : List V}
    (h : ∀ e ∈ es, f e = g e) (cs : List Q) : f (lc cs es) = g (lc cs es) := by
  rw [hf.map_lc, hg.map_lc, List.map_congr_left h]

/-- pairing of a linear combination with `d`, when all rows pair to zero with `d` -/
theorem qpair_lc_zero {rows : List V} {d : V} (h : ∀ r ∈ rows, qpair r d = 0) :
    ∀ cs : List Q, qpair (lc cs rows) d = 0 := by
  induction rows with
  | nil => intro cs; simp [qpair_zero]
  | cons r rs ih =>
    intro cs
    cases cs with
    | nil => simp [qpair_zero]
    | cons c cs =>
      rw [lc_cons, qpair_add, qpair_smul, h r (List.mem_cons_self ..),
        ih (fun r' hr' => h r' (List.mem_cons_of_mem _ hr')) cs]
      ring

/-- coordinates read off with a dual family are linear -/
theorem coords_isLin (dual : List V) : ∀ rows : List V,
    IsLin (fun w => lc (dual.map (fun d => qpair w d)) rows) := by
  induction dual with
  | nil => intro rows; exact ⟨fun u v => by simp [qadd_zero], fun c u => by simp [qsmul_zero]⟩
  | cons d ds ih =>
    intro rows
    cases rows with
    | nil => exact ⟨fun u v => by simp [qadd_zero], fun c u => by simp [qsmul_zero]⟩
    | cons r rs =>
      refine ⟨fun u v => ?_, fun c u => ?_⟩
      · simp only [List.map_cons, lc_cons]
        rw [(ih rs).map_add, qpair_add, qadd_smul, qadd4]
      · simp only [List.map_cons, lc_cons]
        rw [(ih rs).map_smul, qpair_smul, qmul_smul, qsmul_add]

/-- `rows_i · dual_j = δ_ij` (specification form of `isDual` / `isDualT`) -/
def DualP (rows dual : List V) : Prop :=
  rows.length = dual.length ∧
  ∀ i, i < rows.length → ∀ j, j < rows.length →
    qpair (rows.getD i qzero) (dual.getD j qzero) = if i = j then 1 else 0

theorem DualP.cons {r d : V} {rs ds : List V} (h : DualP (r :: rs) (d :: ds)) :
    qpair r d = 1 ∧ (∀ d' ∈ ds, qpair r d' = 0) ∧ (∀ r' ∈ rs, qpair r' d = 0) ∧ DualP rs ds := by
  obtain ⟨hl, h⟩ := h
  simp only [List.length_cons, Nat.add_right_cancel_iff] at hl
  refine ⟨?_, ?_, ?_, hl, ?_⟩
  · simpa using h 0 (by simp) 0 (by simp)
  · intro d' hd'
    obtain ⟨k, hk, rfl⟩ := List.mem_iff_getElem.1 hd'
    have := h 0 (by simp) (k + 1) (by simp; omega)
    simpa [List.getElem?_eq_getElem hk] using this
  · intro r' hr'
    obtain ⟨k, hk, rfl⟩ := List.mem_iff_getElem.1 hr'
    have := h (k + 1) (by simp; omega) 0 (by simp)
    simpa [List.getElem?_eq_getElem hk] using this
  · intro i hi j hj
    have := h (i + 1) (by simp; omega) (j + 1) (by simp; omega)
    simpa using this

/-- the dual family reads the coefficients of a linear combination back -/
theorem DualP.coords_lc : ∀ {rows dual : List V}, DualP rows dual →
    ∀ cs : List Q, cs.length = rows.length → dual.map (fun d => qpair (lc cs rows) d) = cs
  | [], [], _, cs, hl => by
    have : cs = [] := List.length_eq_zero_iff.1 (by simpa using hl)
    simp [this]
  | [], _ :: _, h, _, _ => by have := h.1; simp at this
  | _ :: _, [], h, _, _ => by have := h.1; simp at this
  | r :: rs, d :: ds, h, cs, hl => by
    obtain ⟨h1, h2, h3, h4⟩ := h.cons
    cases cs with
    | nil => simp at hl
    | cons c cs =>
      simp only [List.length_cons, Nat.add_right_cancel_iff] at hl
      simp only [List.map_cons, lc_cons, qpair_add, qpair_smul, h1, qpair_lc_zero h3 cs]
      congr 1
      · ring
      · have e : ∀ d' ∈ ds, c * qpair r d' + qpair (lc cs rs) d' = qpair (lc cs rs) d' := by
          intro d' hd'; rw [h2 d' hd']; ring
        rw [List.map_congr_left e]; exact DualP.coords_lc h4 cs hl

/-- a family that has a dual family is linearly independent -/
theorem DualP.indep {rows dual : List V} (h : DualP rows dual) (cs : List Q)
    (hl : cs.length = rows.length) (h0 : lc cs rows = qzero) : ∀ c ∈ cs, c = 0 := by
  have := h.coords_lc cs hl
  rw [h0] at this
  intro c hc
  rw [← this] at hc
  obtain ⟨d, _, rfl⟩ := List.mem_map.1 hc
  exact qpair_zero d

/-- **certificate ⇒ basis** (abstract form): `P` is closed under combinations of `rows`, `rows` has
a dual family and every `v` with `P v` is the combination of `rows` with its dual coordinates -/
theorem cert_basis (P : V → Prop) (rows dual : List V)
    (hP_lc : ∀ cs, P (lc cs rows))
    (hdual : DualP rows dual)
    (hspan : ∀ v, P v → v = lc (dual.map (fun d => qpair v d)) rows) :
    (∀ v, P v ↔ ∃ cs : List Q, cs.length = rows.length ∧ v = lc cs rows) ∧
    (∀ cs : List Q, cs.length = rows.length → lc cs rows = qzero → ∀ c ∈ cs, c = 0) := by
  refine ⟨fun v => ⟨fun hv => ⟨_, ?_, hspan v hv⟩, ?_⟩, hdual.indep⟩
  · rw [List.length_map, hdual.1]
  · rintro ⟨cs, _, rfl⟩; exact hP_lc cs

/-! ### sums of linear operators over a list -/

/-- `Σ_{h ∈ H} F h v` (generic form of `vsum` / `tsum`) -/
def gsum {ι : Type} (F : ι → V → V) (H : List ι) (v : V) : V :=
  H.foldr (fun h acc => qadd (F h v) acc) qzero

@[simp] theorem gsum_nil {ι : Type} (F : ι → V → V) (v : V) : gsum F [] v = qzero := rfl
@[simp] theorem gsum_cons {ι : Type} (F : ι → V → V) (h : ι) (H : List ι) (v : V) :
    gsum F (h :: H) v = qadd (F h v) (gsum F H v) := rfl

theorem gsum_isLin {ι : Type} (F : ι → V → V) (hF : ∀ h, IsLin (F h)) (H : List ι) :
    IsLin (gsum F H) := by
  induction H with
  | nil => exact ⟨fun u v => by simp [qadd_zero], fun c u => by simp [qsmul_zero]⟩
  | cons h H ih =>
    exact ⟨fun u v => by simp only [gsum_cons, (hF h).map_add, ih.map_add, qadd4],
      fun c u => by simp only [gsum_cons, (hF h).map_smul, ih.map_smul, qsmul_add]⟩

theorem gsum_fix {ι : Type} (F : ι → V → V) (H : List ι) (v : V) (h : ∀ a ∈ H, F a v = v) :
    gsum F H v = qsmul (H.length : Q) v := by
  induction H with
  | nil => simp [qzero_smul]
  | cons a H ih =>
    rw [gsum_cons, h a (List.mem_cons_self ..), ih (fun b hb => h b (List.mem_cons_of_mem _ hb)),
      List.length_cons, Nat.cast_succ, qadd_smul, qone_smul, qadd_comm]

theorem gsum_perm {ι : Type} (F : ι → V → V) {H₁ H₂ : List ι} (p : H₁.Perm H₂) (v : V) :
    gsum F H₁ v = gsum F H₂ v := by
  unfold gsum
  exact p.foldr_eq' (f := fun h acc => qadd (F h v) acc) (fun a _ b _ z => qadd_left_comm (V := V) _ _ _) _

theorem gsum_map {ι κ : Type} (F : ι → V → V) (g : κ → ι) (H : List κ) (v : V) :
    gsum F (H.map g) v = gsum (fun k => F (g k)) H v := by
  induction H with
  | nil => rfl
  | cons a H ih => simp only [List.map_cons, gsum_cons, ih]

theorem apply_gsum {ι : Type} {f : V → V} (hf : IsLin f) (F : ι → V → V) (H : List ι) (v : V) :
    f (gsum F H v) = gsum (fun h w => f (F h w)) H v := by
  induction H with
  | nil => simp [hf.map_zero]
  | cons a H ih => simp only [gsum_cons, hf.map_add, ih]

/-- **the group sum is invariant**: for a representation `F` of a group listed in `G`,
`F a (Σ_h F h v) = Σ_h F h v` (re-indexing the sum by left multiplication) -/
theorem gsum_invariant {G : List Op} (hG : IsGroup G) (F : Op → V → V) (hlin : ∀ a, IsLin (F a))
    (hcomp : ∀ a b v, F (a.comp b) v = F a (F b v)) {a : Op} (ha : a ∈ G) (v : V) :
    F a (gsum F G v) = gsum F G v := by
  rw [apply_gsum (hlin a)]
  have : ∀ L : List Op, gsum (fun h w => F a (F h w)) L v = gsum F (L.map (fun g => a.comp g)) v := by
    intro L
    rw [gsum_map]
    induction L with
    | nil => rfl
    | cons b L ih => simp only [gsum_cons, hcomp, ih]
  rw [this G]
  exact gsum_perm F (Orbit.map_comp_perm hG ha) v

end Generic

/-! ### vectors: `Vec3 Q` with the dot product -/

theorem vec3_ext {u v : Vec3 Q} (h1 : u.x = v.x) (h2 : u.y = v.y) (h3 : u.z = v.z) : u = v := by
  cases u; cases v; simp_all

/-- closes component-wise ring identities between `Vec3 Q` / scalar expressions -/
macro "vec3_tac" : tactic => `(tactic| first
  | (apply vec3_ext <;>
      simp only [Vec3.add, Vec3.sub, Vec3.smul, Vec3.zero, Vec3.dot, Mat3.mulVec, Mat3.mul, Mat3.one] <;> ring)
  | (simp only [Vec3.add, Vec3.sub, Vec3.smul, Vec3.zero, Vec3.dot, Mat3.mulVec, Mat3.mul, Mat3.one]; ring))

instance instQSpVec3 : QSp (Vec3 Q) where
  qadd := Vec3.add
  qsmul := Vec3.smul
  qzero := Vec3.zero
  qpair := Vec3.dot
  qadd_zero u := by vec3_tac
  qadd_comm u v := by vec3_tac
  qadd_assoc u v w := by vec3_tac
  qsmul_add c u v := by vec3_tac
  qadd_smul a b u := by vec3_tac
  qmul_smul a b u := by vec3_tac
  qone_smul u := by vec3_tac
  qzero_smul u := by vec3_tac
  qsmul_zero c := by vec3_tac
  qpair_add u v d := by vec3_tac
  qpair_smul c u d := by vec3_tac
  qpair_zero d := by vec3_tac

theorem lincomb_eq_lc : ∀ (cs : List Q) (rows : List (Vec3 Q)), lincomb cs rows = lc cs rows
  | [], _ => rfl
  | _ :: _, [] => rfl
  | c :: cs, r :: rs => by
    show (Vec3.smul c r).add (lincomb cs rs) = qadd (qsmul c r) (lc cs rs)
    rw [lincomb_eq_lc cs rs]; rfl

theorem mulVec_isLin (R : Mat3 Q) : IsLin (V := Vec3 Q) R.mulVec :=
  ⟨fun u v => by show R.mulVec (u.add v) = (R.mulVec u).add (R.mulVec v); vec3_tac,
   fun c u => by show R.mulVec (Vec3.smul c u) = Vec3.smul c (R.mulVec u); vec3_tac⟩

theorem mulVec_sub (R : Mat3 Q) (u v : Vec3 Q) : R.mulVec (u.sub v) = (R.mulVec u).sub (R.mulVec v) := by
  vec3_tac

theorem mulVec_mul (A B : Mat3 Q) (v : Vec3 Q) : (A.mul B).mulVec v = A.mulVec (B.mulVec v) := by
  vec3_tac

theorem mulVec_one (v : Vec3 Q) : (Mat3.one : Mat3 Q).mulVec v = v := by vec3_tac

theorem vsum_eq_gsum (H : List Op) (v : Vec3 Q) :
    vsum H v = gsum (fun h => (rotQ h).mulVec) H v := rfl

theorem inFree_iff {H : List Op} {v : Vec3 Q} : inFree H v = true ↔ Free H v := by
  simp [inFree, Free, List.all_eq_true]

theorem isDual_iff {rows dual : List (Vec3 Q)} : isDual rows dual = true ↔ DualP rows dual := by
  show _ ↔ (rows.length = dual.length ∧ ∀ i, i < rows.length → ∀ j, j < rows.length →
    Vec3.dot (rows.getD i Vec3.zero) (dual.getD j Vec3.zero) = if i = j then 1 else 0)
  simp [isDual, List.all_eq_true, List.mem_range]

theorem vec3_decomp (v : Vec3 Q) : v = lc [v.x, v.y, v.z] [e1, e2, e3] := by
  show v = (Vec3.smul v.x e1).add ((Vec3.smul v.y e2).add ((Vec3.smul v.z e3).add Vec3.zero))
  apply vec3_ext <;> simp only [Vec3.add, Vec3.smul, Vec3.zero, e1, e2, e3] <;> ring

/-- the rotation part of a composition is the matrix product -/
theorem rotQ_comp (g h : Op) : rotQ (g.comp h) = (rotQ g).mul (rotQ h) := by
  simp only [rotQ, Op.comp, Mat3.mul, Int.cast_add, Int.cast_mul]

theorem rotQ_one : rotQ Op.one = Mat3.one := by
  simp [rotQ, Op.one, Mat3.one]

/-! ### tensors: `Mat3 Q` with the Frobenius product -/

theorem mat3_ext {m n : Mat3 Q} (h11 : m.a11 = n.a11) (h12 : m.a12 = n.a12) (h13 : m.a13 = n.a13)
    (h21 : m.a21 = n.a21) (h22 : m.a22 = n.a22) (h23 : m.a23 = n.a23)
    (h31 : m.a31 = n.a31) (h32 : m.a32 = n.a32) (h33 : m.a33 = n.a33) : m = n := by
  cases m; cases n; simp_all

macro "mat3_tac" : tactic => `(tactic| first
  | (apply mat3_ext <;>
      simp only [Mat3.add, Mat3.sub, Mat3.smul, Mat3.zero, Mat3.one, Mat3.mul, Mat3.transpose, frob, rotT] <;> ring)
  | (simp only [Mat3.add, Mat3.sub, Mat3.smul, Mat3.zero, Mat3.one, Mat3.mul, Mat3.transpose, frob, rotT]; ring))

instance instQSpMat3 : QSp (Mat3 Q) where
  qadd := Mat3.add
  qsmul := Mat3.smul
  qzero := Mat3.zero
  qpair := frob
  qadd_zero u := by mat3_tac
  qadd_comm u v := by mat3_tac
  qadd_assoc u v w := by mat3_tac
  qsmul_add c u v := by mat3_tac
  qadd_smul a b u := by mat3_tac
  qmul_smul a b u := by mat3_tac
  qone_smul u := by mat3_tac
  qzero_smul u := by mat3_tac
  qsmul_zero c := by mat3_tac
  qpair_add u v d := by mat3_tac
  qpair_smul c u d := by mat3_tac
  qpair_zero d := by mat3_tac

theorem lincombT_eq_lc : ∀ (cs : List Q) (bs : List (Mat3 Q)), lincombT cs bs = lc cs bs
  | [], _ => rfl
  | _ :: _, [] => rfl
  | c :: cs, b :: bs => by
    show (Mat3.smul c b).add (lincombT cs bs) = qadd (qsmul c b) (lc cs bs)
    rw [lincombT_eq_lc cs bs]; rfl

theorem rotT_isLin (R : Mat3 Q) : IsLin (V := Mat3 Q) (rotT R) :=
  ⟨fun u v => by show rotT R (u.add v) = (rotT R u).add (rotT R v); mat3_tac,
   fun c u => by show rotT R (Mat3.smul c u) = Mat3.smul c (rotT R u); mat3_tac⟩

theorem transpose_isLin : IsLin (V := Mat3 Q) Mat3.transpose :=
  ⟨fun u v => by show (u.add v).transpose = u.transpose.add v.transpose; mat3_tac,
   fun c u => by show (Mat3.smul c u).transpose = Mat3.smul c u.transpose; mat3_tac⟩

theorem rotT_mul (A B U : Mat3 Q) : rotT (A.mul B) U = rotT A (rotT B U) := by mat3_tac

theorem rotT_one (U : Mat3 Q) : rotT Mat3.one U = U := by mat3_tac

theorem isSymm_iff_transpose (U : Mat3 Q) : U.isSymm ↔ U.transpose = U := by
  cases U
  simp only [Mat3.isSymm, Mat3.transpose, Mat3.mk.injEq]
  constructor
  · rintro ⟨h1, h2, h3⟩; simp [h1, h2, h3]
  · rintro ⟨-, h1, h2, -, -, h3, -, -, -⟩; exact ⟨h1.symm, h2.symm, h3.symm⟩

theorem symmB_iff {U : Mat3 Q} : symmB U = true ↔ U.isSymm := by
  simp [symmB, Mat3.isSymm, and_assoc]

theorem tsum_eq_gsum (H : List Op) (U : Mat3 Q) :
    tsum H U = gsum (fun h => rotT (rotQ h)) H U := rfl

theorem inInvT_iff {H : List Op} {U : Mat3 Q} : inInvT H U = true ↔ InvT H U := by
  simp [inInvT, InvT, List.all_eq_true]

theorem isDualT_iff {bs dual : List (Mat3 Q)} : isDualT bs dual = true ↔ DualP bs dual := by
  show _ ↔ (bs.length = dual.length ∧ ∀ i, i < bs.length → ∀ j, j < bs.length →
    frob (bs.getD i Mat3.zero) (dual.getD j Mat3.zero) = if i = j then 1 else 0)
  simp [isDualT, List.all_eq_true, List.mem_range]

/-- a symmetric tensor is the combination of the six unit tensors with its six components -/
theorem mat3_decomp (U : Mat3 Q) (h : U.isSymm) :
    U = lc [U.a11, U.a22, U.a33, U.a12, U.a13, U.a23] unitT := by
  obtain ⟨h1, h2, h3⟩ := h
  show U = (Mat3.smul U.a11 _).add ((Mat3.smul U.a22 _).add ((Mat3.smul U.a33 _).add
    ((Mat3.smul U.a12 _).add ((Mat3.smul U.a13 _).add ((Mat3.smul U.a23 _).add Mat3.zero)))))
  apply mat3_ext <;> simp only [Mat3.add, Mat3.smul, Mat3.zero] <;>
    first | ring1 | (rw [← h1]; ring1) | (rw [← h2]; ring1) | (rw [← h3]; ring1)

theorem frob_smul_right (c : Q) (U B : Mat3 Q) : frob U (Mat3.smul c B) = c * frob U B := by
  mat3_tac

/-! ### the stabiliser of a site is a group -/

/-- the operations of a group that fix (the reduction of) a site form a group, in list order -/
theorem stab_isGroup {G : List Op} (hG : IsGroup G) (k : Int) (off x : P3) :
    IsGroup (G.filter (fun g => decide (Orbit.img g k off x = Orbit.red k x))) := by
  have hmem : ∀ g, g ∈ G.filter (fun g => decide (Orbit.img g k off x = Orbit.red k x)) ↔
      g ∈ G ∧ Orbit.img g k off x = Orbit.red k x := by
    intro g; simp [List.mem_filter]
  refine ⟨?_, hG.nodup.filter _, ?_, ?_, ?_, ?_⟩
  · have h1 := hG.one_first
    cases G with
    | nil => simp at h1
    | cons g G' =>
      simp only [List.head?_cons, Option.some.injEq] at h1
      subst h1
      simp [Orbit.img_one]
  · intro a ha b hb
    rw [hmem] at ha hb ⊢
    refine ⟨hG.closed a ha.1 b hb.1, ?_⟩
    rw [← Orbit.img_comp, hb.2, Orbit.img_red, ha.2]
  · intro a ha
    rw [hmem] at ha
    obtain ⟨b, hb, hab, hba⟩ := hG.inv a ha.1
    refine ⟨b, (hmem b).2 ⟨hb, ?_⟩, hab, hba⟩
    rw [← Orbit.img_red b, ← ha.2, Orbit.img_comp, hba, Orbit.img_one]
    exact ha.2.symm
  · intro a ha; exact hG.det a ((hmem a).1 ha).1
  · intro a ha; exact hG.range a ((hmem a).1 ha).1

end Con
end DS
