import DS.Model.Expand
import DS.Lemmas.RealElem
import Mathlib.Data.List.Nodup
import Mathlib.Data.List.Perm.Basic

/-!
Helper lemmas about the expansion model `DS.Expand` (supercell, findCenter, makeEllipsoid):
the index box `ijkList`, the `(1,1,1)` shortcut, the scaling behaviour of the lattice formulas of
`setLatPar`, Cartesian images, the two-step rearrangement, fresh allocation, the ellipsoid filter.
-/
namespace DS.Expand
open DS

/-! ### the index box -/

theorem mem_ijkList {l m n : Nat} {t : Nat × Nat × Nat} :
    t ∈ ijkList l m n ↔ t.1 < l ∧ t.2.1 < m ∧ t.2.2 < n := by
  obtain ⟨i, j, k⟩ := t
  simp only [ijkList, List.mem_flatMap, List.mem_map, List.mem_range, Prod.mk.injEq]
  constructor
  · rintro ⟨i', hi, j', hj, k', hk, rfl, rfl, rfl⟩; exact ⟨hi, hj, hk⟩
  · rintro ⟨hi, hj, hk⟩; exact ⟨i, hi, j, hj, k, hk, rfl, rfl, rfl⟩

theorem sum_map_const {γ : Type} (xs : List γ) (c : Nat) : (xs.map fun _ => c).sum = xs.length * c := by
  induction xs with
  | nil => simp
  | cons x xs ih => simp [Nat.succ_mul, Nat.add_comm]

theorem length_ijkList (l m n : Nat) : (ijkList l m n).length = l * m * n := by
  simp only [ijkList, List.length_flatMap, List.length_map, List.length_range, sum_map_const,
    Nat.mul_assoc]

theorem nodup_ijkList (l m n : Nat) : (ijkList l m n).Nodup := by
  unfold ijkList
  refine List.nodup_flatMap.2 ⟨fun i _ => List.nodup_flatMap.2 ⟨fun j _ => ?_, ?_⟩, ?_⟩
  · exact List.nodup_range.map (fun a b h => by simpa using h)
  · refine List.nodup_range.imp ?_
    intro a b hab
    simp only [Function.onFun, List.disjoint_left, List.mem_map, List.mem_range]
    rintro x ⟨k, _, rfl⟩ ⟨k', _, h⟩
    simp only [Prod.mk.injEq] at h
    exact hab h.2.1.symm
  · refine List.nodup_range.imp ?_
    intro a b hab
    simp only [Function.onFun, List.disjoint_left, List.mem_flatMap, List.mem_map, List.mem_range]
    rintro x ⟨j, _, k, _, rfl⟩ ⟨j', _, k', _, h⟩
    simp only [Prod.mk.injEq] at h
    exact hab h.1.symm


/-! ### lattice formulas under multiplication of the lengths -/

section field
variable {K β : Type} [Field K] [Elem K]

/-- `diag(l, m, n)` -/
def diag (l m n : K) : Mat3 K := ⟨l, 0, 0, 0, m, 0, 0, 0, n⟩

theorem ar_scale (L : Cell K) (l m n : Nat) : (L.scale l m n).ar = L.ar / (l : K) := by
  simp only [Cell.ar, Cell.scale, Cell.sa, Cell.unitvolume, Cell.ca, Cell.cb, Cell.cg]
  simp only [div_eq_mul_inv, mul_inv]; ring
theorem br_scale (L : Cell K) (l m n : Nat) : (L.scale l m n).br = L.br / (m : K) := by
  simp only [Cell.br, Cell.scale, Cell.sb, Cell.unitvolume, Cell.ca, Cell.cb, Cell.cg]
  simp only [div_eq_mul_inv, mul_inv]; ring
theorem cr_scale (L : Cell K) (l m n : Nat) : (L.scale l m n).cr = L.cr / (n : K) := by
  simp only [Cell.cr, Cell.scale, Cell.sg, Cell.unitvolume, Cell.ca, Cell.cb, Cell.cg]
  simp only [div_eq_mul_inv, mul_inv]; ring

/-- the formula of `setLatPar` for `stdbase`, evaluated at the multiplied lengths, is
`diag(l,m,n)` times the formula at the original lengths (no side condition: only field algebra) -/
theorem stdbase_scale (L : Cell K) (l m n : Nat) :
    (L.scale l m n).stdbase = (diag (l : K) m n).mul L.stdbase := by
  apply Mat3.ext' <;>
    simp only [Cell.stdbase, Mat3.mul, diag, Cell.ar, Cell.unitvolume, Cell.cgr, Cell.sgr, Cell.ca, Cell.cb,
      Cell.cg, Cell.sa, Cell.sb, Cell.scale] <;>
    (try simp only [div_eq_mul_inv, mul_inv, inv_inv]) <;> ring

theorem base_scale (L : Cell K) (l m n : Nat) :
    (L.scale l m n).base = (diag (l : K) m n).mul L.base := by
  simp only [Cell.base, stdbase_scale, Mat3.mul_assoc]
  rfl

theorem normbase_scale (L : Cell K) {l m n : Nat} (hl : (l : K) ≠ 0) (hm : (m : K) ≠ 0) (hn : (n : K) ≠ 0) :
    (L.scale l m n).normbase = L.normbase := by
  apply Mat3.ext' <;>
    simp only [Cell.normbase, base_scale, ar_scale, br_scale, cr_scale, Mat3.mul, diag] <;>
    field_simp <;> ring

omit [Elem K] in
theorem det_diag_mul (l m n : K) (B : Mat3 K) : ((diag l m n).mul B).det = l * m * n * B.det := by
  simp only [Mat3.det, Mat3.mul, diag]; ring

omit [Elem K] in
theorem inv_diag_mul {l m n : K} (B : Mat3 K) (hl : l ≠ 0) (hm : m ≠ 0) (hn : n ≠ 0) :
    ((diag l m n).mul B).inv = B.inv.mul (diag (1 / l) (1 / m) (1 / n)) := by
  by_cases hd : B.det = 0
  · apply Mat3.ext' <;> simp only [Mat3.inv, det_diag_mul, hd, mul_zero, div_zero] <;>
      simp [Mat3.mul, diag]
  · apply Mat3.ext' <;> simp only [Mat3.inv, det_diag_mul] <;>
      simp only [Mat3.adj, Mat3.mul, diag] <;> field_simp <;> ring

/-- `recbase` of the multiplied cell: columns divided by the multipliers -/
theorem recbase_scale (L : Cell K) {l m n : Nat} (hl : (l : K) ≠ 0) (hm : (m : K) ≠ 0) (hn : (n : K) ≠ 0) :
    (L.scale l m n).recbase = L.recbase.mul (diag (1 / (l : K)) (1 / (m : K)) (1 / (n : K))) := by
  simp only [Cell.recbase, base_scale, inv_diag_mul _ hl hm hn]

theorem recnormbase_scale (L : Cell K) {l m n : Nat} (hl : (l : K) ≠ 0) (hm : (m : K) ≠ 0) (hn : (n : K) ≠ 0) :
    (L.scale l m n).recnormbase = L.recnormbase := by
  apply Mat3.ext' <;>
    simp only [Cell.recnormbase, recbase_scale L hl hm hn, ar_scale, br_scale, cr_scale, Mat3.mul, diag] <;>
    field_simp <;> ring
end field

/-! ### the `(1,1,1)` shortcut and the general path -/

section field
variable {K β : Type} [Field K]

theorem image_one (a : Atom K β) : image 1 1 1 a (0, 0, 0) = a := by
  cases a; simp [image]

theorem images_one (a : Atom K β) : images 1 1 1 a = [a] := by
  simp [images, ijkList, image_one]

theorem scale_one (L : Cell K) : L.scale 1 1 1 = L := by
  cases L; simp [Cell.scale]

theorem supercellGen_one (S : Stru K β) : supercellGen S 1 1 1 = S := by
  have h : (images 1 1 1 : Atom K β → _) = fun a => [a] := funext images_one
  cases S; simp [supercellGen, scale_one, h]

theorem supercell_eq (S : Stru K β) {l m n : Nat} (hl : 1 ≤ l) (hm : 1 ≤ m) (hn : 1 ≤ n) :
    supercell S [(l : Int), (m : Int), (n : Int)] = .ok (supercellGen S l m n) := by
  have h : ¬ (min (l : Int) (min (m : Int) (n : Int)) < 1) := by omega
  simp only [supercell, List.length_cons, List.length_nil, ne_eq, not_true_eq_false, if_false, h,
    Int.toNat_natCast]
  split
  · next h1 =>
    simp only [Prod.mk.injEq] at h1
    obtain ⟨rfl, rfl, rfl⟩ := h1
    rw [supercellGen_one]
  · rfl

end field

end DS.Expand
