import DS.Model.Expand
import DS.Lemmas.RealElem
import Mathlib.Data.List.Nodup
import Mathlib.Data.List.Perm.Basic
import Mathlib.Data.List.Sigma

/-!
Helper lemmas about the expansion model `DS.Expand` (supercell, findCenter, makeEllipsoid):
the index box `ijkList`, the `(1,1,1)` shortcut, the scaling behaviour of the lattice formulas of
`setLatPar`, Cartesian images, the two-step rearrangement, fresh allocation, the ellipsoid filter.
-/
namespace DS.Expand
open DS
set_option linter.unusedSectionVars false

/-! ### the index box -/

theorem mem_ijkList {l m n : Nat} {t : Nat × Nat × Nat} :
    t ∈ ijkList l m n ↔ t.1 < l ∧ t.2.1 < m ∧ t.2.2 < n := by
  obtain ⟨i, j, k⟩ := t
  simp only [ijkList, List.mem_flatMap, List.mem_map, List.mem_range, Prod.mk.injEq]
  constructor
  · rintro ⟨i', hi, j', hj, k', hk, rfl, rfl, rfl⟩; exact ⟨hi, hj, hk⟩
  · rintro ⟨hi, hj, hk⟩; exact ⟨i, hi, j, hj, k, hk, rfl, rfl, rfl⟩

theorem sum_map_const {γ : Type} (xs : List γ) (c : Nat) : (xs.map fun _ => c).sum = xs.length * c := by
  induction xs with
  | nil => simp
  | cons x xs ih => simp [Nat.succ_mul, Nat.add_comm]

theorem length_ijkList (l m n : Nat) : (ijkList l m n).length = l * m * n := by
  simp only [ijkList, List.length_flatMap, List.length_map, List.length_range, sum_map_const,
    Nat.mul_assoc]

theorem nodup_ijkList (l m n : Nat) : (ijkList l m n).Nodup := by
  unfold ijkList
  refine List.nodup_flatMap.2 ⟨fun i _ => List.nodup_flatMap.2 ⟨fun j _ => ?_, ?_⟩, ?_⟩
  · exact List.nodup_range.map (fun a b h => by simpa using h)
  · refine List.nodup_range.imp ?_
    intro a b hab
    simp only [Function.onFun, List.disjoint_left, List.mem_map, List.mem_range]
    rintro x ⟨k, _, rfl⟩ ⟨k', _, h⟩
    simp only [Prod.mk.injEq] at h
    exact hab h.2.1.symm
  · refine List.nodup_range.imp ?_
    intro a b hab
    simp only [Function.onFun, List.disjoint_left, List.mem_flatMap, List.mem_map, List.mem_range]
    rintro x ⟨j, _, k, _, rfl⟩ ⟨j', _, k', _, h⟩
    simp only [Prod.mk.injEq] at h
    exact hab h.1.symm


/-! ### lattice formulas under multiplication of the lengths -/

section field
variable {K β : Type} [Field K] [Elem K]

/-- `diag(l, m, n)` -/
def diag (l m n : K) : Mat3 K := ⟨l, 0, 0, 0, m, 0, 0, 0, n⟩

theorem ar_scale (L : Cell K) (l m n : Nat) : (L.scale l m n).ar = L.ar / (l : K) := by
  simp only [Cell.ar, Cell.scale, Cell.sa, Cell.unitvolume, Cell.ca, Cell.cb, Cell.cg]
  simp only [div_eq_mul_inv, mul_inv]; ring
theorem br_scale (L : Cell K) (l m n : Nat) : (L.scale l m n).br = L.br / (m : K) := by
  simp only [Cell.br, Cell.scale, Cell.sb, Cell.unitvolume, Cell.ca, Cell.cb, Cell.cg]
  simp only [div_eq_mul_inv, mul_inv]; ring
theorem cr_scale (L : Cell K) (l m n : Nat) : (L.scale l m n).cr = L.cr / (n : K) := by
  simp only [Cell.cr, Cell.scale, Cell.sg, Cell.unitvolume, Cell.ca, Cell.cb, Cell.cg]
  simp only [div_eq_mul_inv, mul_inv]; ring

/-- the formula of `setLatPar` for `stdbase`, evaluated at the multiplied lengths, is
`diag(l,m,n)` times the formula at the original lengths (no side condition: only field algebra) -/
theorem stdbase_scale (L : Cell K) (l m n : Nat) :
    (L.scale l m n).stdbase = (diag (l : K) m n).mul L.stdbase := by
  apply Mat3.ext' <;>
    simp only [Cell.stdbase, Mat3.mul, diag, Cell.ar, Cell.unitvolume, Cell.cgr, Cell.sgr, Cell.ca, Cell.cb,
      Cell.cg, Cell.sa, Cell.sb, Cell.scale] <;>
    (try simp only [div_eq_mul_inv, mul_inv, inv_inv]) <;> ring

theorem base_scale (L : Cell K) (l m n : Nat) :
    (L.scale l m n).base = (diag (l : K) m n).mul L.base := by
  simp only [Cell.base, stdbase_scale, Mat3.mul_assoc]
  rfl

theorem normbase_scale (L : Cell K) {l m n : Nat} (hl : (l : K) ≠ 0) (hm : (m : K) ≠ 0) (hn : (n : K) ≠ 0) :
    (L.scale l m n).normbase = L.normbase := by
  apply Mat3.ext' <;>
    simp only [Cell.normbase, base_scale, ar_scale, br_scale, cr_scale, Mat3.mul, diag] <;>
    field_simp <;> ring

omit [Elem K] in
theorem det_diag_mul (l m n : K) (B : Mat3 K) : ((diag l m n).mul B).det = l * m * n * B.det := by
  simp only [Mat3.det, Mat3.mul, diag]; ring

omit [Elem K] in
theorem inv_diag_mul {l m n : K} (B : Mat3 K) (hl : l ≠ 0) (hm : m ≠ 0) (hn : n ≠ 0) :
    ((diag l m n).mul B).inv = B.inv.mul (diag (1 / l) (1 / m) (1 / n)) := by
  by_cases hd : B.det = 0
  · apply Mat3.ext' <;> simp only [Mat3.inv, det_diag_mul, hd, mul_zero, div_zero] <;>
      simp [Mat3.mul, diag]
  · apply Mat3.ext' <;> simp only [Mat3.inv, det_diag_mul] <;>
      simp only [Mat3.adj, Mat3.mul, diag] <;> field_simp <;> ring

/-- `recbase` of the multiplied cell: columns divided by the multipliers -/
theorem recbase_scale (L : Cell K) {l m n : Nat} (hl : (l : K) ≠ 0) (hm : (m : K) ≠ 0) (hn : (n : K) ≠ 0) :
    (L.scale l m n).recbase = L.recbase.mul (diag (1 / (l : K)) (1 / (m : K)) (1 / (n : K))) := by
  simp only [Cell.recbase, base_scale, inv_diag_mul _ hl hm hn]

theorem recnormbase_scale (L : Cell K) {l m n : Nat} (hl : (l : K) ≠ 0) (hm : (m : K) ≠ 0) (hn : (n : K) ≠ 0) :
    (L.scale l m n).recnormbase = L.recnormbase := by
  apply Mat3.ext' <;>
    simp only [Cell.recnormbase, recbase_scale L hl hm hn, ar_scale, br_scale, cr_scale, Mat3.mul, diag] <;>
    field_simp <;> ring
end field

/-! ### the `(1,1,1)` shortcut and the general path -/

section field
variable {K β : Type} [Field K]

theorem image_one (a : Atom K β) : image 1 1 1 a (0, 0, 0) = a := by
  cases a; simp [image]

theorem images_one (a : Atom K β) : images 1 1 1 a = [a] := by
  simp [images, ijkList, image_one]

theorem scale_one (L : Cell K) : L.scale 1 1 1 = L := by
  cases L; simp [Cell.scale]

theorem supercellGen_one (S : Stru K β) : supercellGen S 1 1 1 = S := by
  have h : (images 1 1 1 : Atom K β → _) = fun a => [a] := funext images_one
  cases S; simp [supercellGen, scale_one, h]

theorem supercell_eq (S : Stru K β) {l m n : Nat} (hl : 1 ≤ l) (hm : 1 ≤ m) (hn : 1 ≤ n) :
    supercell S [(l : Int), (m : Int), (n : Int)] = .ok (supercellGen S l m n) := by
  have h : ¬ (min (l : Int) (min (m : Int) (n : Int)) < 1) := by omega
  simp only [supercell, List.length_cons, List.length_nil, ne_eq, not_true_eq_false, if_false, h,
    Int.toNat_natCast]
  split
  · next h1 =>
    simp only [Prod.mk.injEq] at h1
    obtain ⟨rfl, rfl, rfl⟩ := h1
    rw [supercellGen_one]
  · rfl

end field

/-! ### Cartesian images, two-step rearrangement -/

section cart
variable {K β : Type} [Field K] [Elem K]

/-- Cartesian position of an image in the multiplied cell = Cartesian position of the parent in the
original cell + `i·a⃗ + j·b⃗ + k·c⃗` (rows of the original `base`) -/
theorem image_cart (L : Cell K) (a : Atom K β) {l m n : Nat} (hl : (l : K) ≠ 0) (hm : (m : K) ≠ 0)
    (hn : (n : K) ≠ 0) (t : Nat × Nat × Nat) :
    (L.scale l m n).cartesian (image l m n a t).xyz =
      (L.cartesian a.xyz).add ((Vec3.smul (t.1 : K) L.base.row1).add
        ((Vec3.smul (t.2.1 : K) L.base.row2).add (Vec3.smul (t.2.2 : K) L.base.row3))) := by
  simp only [Cell.cartesian, base_scale, image, Mat3.vecMul, Mat3.mul, diag, Vec3.add, Vec3.smul,
    Mat3.row1, Mat3.row2, Mat3.row3, Vec3.mk.injEq]
  refine ⟨?_, ?_, ?_⟩ <;> field_simp <;> ring

/-- a site given in the multiplied cell as `(x + n)/mno` is the point `x + n` of the original cell -/
theorem cart_scale_div (L : Cell K) {l m n : Nat} (hl : (l : K) ≠ 0) (hm : (m : K) ≠ 0)
    (hn : (n : K) ≠ 0) (u : Vec3 K) :
    (L.scale l m n).cartesian ⟨u.x / l, u.y / m, u.z / n⟩ = L.cartesian u := by
  simp only [Cell.cartesian, base_scale, Mat3.vecMul, Mat3.mul, diag, Vec3.mk.injEq]
  refine ⟨?_, ?_, ?_⟩ <;> field_simp <;> ring
end cart

section twostep
variable {K β : Type} [Field K]

/-- index of the one-step image that a two-step image `(t₁ then t₂)` lands on -/
def comb (l m n : Nat) (t1 t2 : Nat × Nat × Nat) : Nat × Nat × Nat :=
  (t1.1 + l * t2.1, t1.2.1 + m * t2.2.1, t1.2.2 + n * t2.2.2)

theorem image_image (a : Atom K β) {l1 m1 n1 l2 m2 n2 : Nat} (h1 : (l1 : K) ≠ 0) (h2 : (m1 : K) ≠ 0)
    (h3 : (n1 : K) ≠ 0) (h4 : (l2 : K) ≠ 0) (h5 : (m2 : K) ≠ 0) (h6 : (n2 : K) ≠ 0)
    (t1 t2 : Nat × Nat × Nat) :
    image l2 m2 n2 (image l1 m1 n1 a t1) t2
      = image (l1 * l2) (m1 * m2) (n1 * n2) a (comb l1 m1 n1 t1 t2) := by
  simp only [image, comb, Atom.mk.injEq, Vec3.mk.injEq, and_true]
  push_cast
  refine ⟨?_, ?_, ?_⟩ <;> field_simp <;> ring

theorem comb1_lt {l1 l2 i1 i2 : Nat} (h1 : i1 < l1) (h2 : i2 < l2) : i1 + l1 * i2 < l1 * l2 := by
  calc i1 + l1 * i2 < l1 + l1 * i2 := by omega
    _ = l1 * (i2 + 1) := by ring
    _ ≤ l1 * l2 := Nat.mul_le_mul_left _ h2

theorem comb1_inj {l1 i1 i2 j1 j2 : Nat} (h1 : i1 < l1) (h2 : j1 < l1)
    (h : i1 + l1 * i2 = j1 + l1 * j2) : i1 = j1 ∧ i2 = j2 := by
  have hm := congrArg (· % l1) h
  have hd := congrArg (· / l1) h
  simp only [Nat.add_mul_mod_self_left, Nat.mod_eq_of_lt h1, Nat.mod_eq_of_lt h2] at hm
  have hpos : 0 < l1 := by omega
  simp only [Nat.add_mul_div_left _ _ hpos, Nat.div_eq_of_lt h1, Nat.div_eq_of_lt h2, Nat.zero_add] at hd
  exact ⟨hm, hd⟩

theorem comb1_surj {l1 l2 i : Nat} (hpos : 0 < l1) (h : i < l1 * l2) :
    i % l1 < l1 ∧ i / l1 < l2 ∧ i % l1 + l1 * (i / l1) = i :=
  ⟨Nat.mod_lt _ hpos, Nat.div_lt_of_lt_mul h, Nat.mod_add_div i l1⟩

theorem comb_perm {l1 m1 n1 : Nat} (l2 m2 n2 : Nat) (h1 : 0 < l1) (h2 : 0 < m1) (h3 : 0 < n1) :
    ((ijkList l1 m1 n1).flatMap fun t1 => (ijkList l2 m2 n2).map (comb l1 m1 n1 t1)).Perm
      (ijkList (l1 * l2) (m1 * m2) (n1 * n2)) := by
  refine (List.perm_ext_iff_of_nodup ?_ (nodup_ijkList _ _ _)).2 ?_
  · refine List.nodup_flatMap.2 ⟨fun t1 ht1 => ?_, ?_⟩
    · refine (nodup_ijkList _ _ _).map_on ?_
      rintro ⟨a, b, c⟩ _ ⟨a', b', c'⟩ _ h
      obtain ⟨x, y, z⟩ := t1
      have ht := mem_ijkList.1 ht1
      simp only [comb, Prod.mk.injEq] at h ht ⊢
      exact ⟨(comb1_inj ht.1 ht.1 h.1).2, (comb1_inj ht.2.1 ht.2.1 h.2.1).2, (comb1_inj ht.2.2 ht.2.2 h.2.2).2⟩
    · refine (nodup_ijkList _ _ _).imp_of_mem ?_
      rintro ⟨x, y, z⟩ ⟨x', y', z'⟩ hx hx' hne
      have ht := mem_ijkList.1 hx
      have ht' := mem_ijkList.1 hx'
      simp only [Function.onFun, List.disjoint_left, List.mem_map]
      rintro _ ⟨⟨a, b, c⟩, _, rfl⟩ ⟨⟨a', b', c'⟩, _, h⟩
      simp only [comb, Prod.mk.injEq] at h ht ht'
      apply hne
      rw [(comb1_inj ht'.1 ht.1 h.1).1, (comb1_inj ht'.2.1 ht.2.1 h.2.1).1, (comb1_inj ht'.2.2 ht.2.2 h.2.2).1]
  · rintro ⟨i, j, k⟩
    simp only [List.mem_flatMap, List.mem_map, mem_ijkList]
    constructor
    · rintro ⟨⟨x, y, z⟩, ht1, ⟨a, b, c⟩, ht2, h⟩
      simp only [comb, Prod.mk.injEq] at h ht1 ht2
      obtain ⟨rfl, rfl, rfl⟩ := h
      exact ⟨comb1_lt ht1.1 ht2.1, comb1_lt ht1.2.1 ht2.2.1, comb1_lt ht1.2.2 ht2.2.2⟩
    · rintro ⟨hi, hj, hk⟩
      obtain ⟨a1, a2, a3⟩ := comb1_surj h1 hi
      obtain ⟨b1, b2, b3⟩ := comb1_surj h2 hj
      obtain ⟨c1, c2, c3⟩ := comb1_surj h3 hk
      exact ⟨(i % l1, j % m1, k % n1), ⟨a1, b1, c1⟩, (i / l1, j / m1, k / n1),
        ⟨a2, b2, c2⟩, by simp only [comb, a3, b3, c3]⟩


theorem two_step_images (a : Atom K β) {l1 m1 n1 l2 m2 n2 : Nat} (h1 : 0 < l1) (h2 : 0 < m1)
    (h3 : 0 < n1) (h4 : 0 < l2) (h5 : 0 < m2) (h6 : 0 < n2) [CharZero K] :
    ((images l1 m1 n1 a).flatMap (images l2 m2 n2)).Perm (images (l1 * l2) (m1 * m2) (n1 * n2) a) := by
  have c : ∀ {x : Nat}, 0 < x → (x : K) ≠ 0 := fun h => Nat.cast_ne_zero.2 (by omega)
  have e : (images l1 m1 n1 a).flatMap (images l2 m2 n2)
      = ((ijkList l1 m1 n1).flatMap fun t1 => (ijkList l2 m2 n2).map (comb l1 m1 n1 t1)).map
          (image (l1 * l2) (m1 * m2) (n1 * n2) a) := by
    simp only [images, List.flatMap_map, List.map_flatMap, List.map_map]
    refine List.flatMap_congr fun t1 _ => List.map_congr_left fun t2 _ => ?_
    exact image_image a (c h1) (c h2) (c h3) (c h4) (c h5) (c h6) t1 t2
  rw [e]
  exact (comb_perm l2 m2 n2 h1 h2 h3).map _

theorem two_step_atoms (as : List (Atom K β)) {l1 m1 n1 l2 m2 n2 : Nat} (h1 : 0 < l1) (h2 : 0 < m1)
    (h3 : 0 < n1) (h4 : 0 < l2) (h5 : 0 < m2) (h6 : 0 < n2) [CharZero K] :
    ((as.flatMap (images l1 m1 n1)).flatMap (images l2 m2 n2)).Perm
      (as.flatMap (images (l1 * l2) (m1 * m2) (n1 * n2))) := by
  rw [List.flatMap_assoc]
  exact List.Perm.flatMap_left _ fun a _ => two_step_images a h1 h2 h3 h4 h5 h6

theorem scale_scale (L : Cell K) (l1 m1 n1 l2 m2 n2 : Nat) :
    (L.scale l1 m1 n1).scale l2 m2 n2 = L.scale (l1 * l2) (m1 * m2) (n1 * n2) := by
  cases L
  simp only [Cell.scale, Cell.mk.injEq, and_true]
  push_cast
  refine ⟨?_, ?_, ?_⟩ <;> ring

end twostep

/-! ### rejection -/
section reject
variable {α β : Type} [Add α] [Mul α] [Div α] [NatCast α]

theorem list3 {γ : Type} (xs : List γ) (h : xs.length = 3) : ∃ a b c, xs = [a, b, c] := by
  rcases xs with _ | ⟨a, _ | ⟨b, _ | ⟨c, _ | ⟨d, t⟩⟩⟩⟩ <;> simp at h ⊢

theorem supercell_three (S : Stru α β) (l m n : Int) :
    supercell S [l, m, n] =
      if min l (min m n) < 1 then .error .ValueError
      else if (l.toNat, m.toNat, n.toNat) = (1, 1, 1) then .ok S
      else .ok (supercellGen S l.toNat m.toNat n.toNat) := by
  simp [supercell]

theorem supercell_badlen (S : Stru α β) (mno : List Int) (h : mno.length ≠ 3) :
    supercell S mno = .error .ValueError := by
  simp [supercell, h]

theorem supercell_error (S : Stru α β) (mno : List Int) :
    (∃ e, supercell S mno = .error e) ↔ (mno.length ≠ 3 ∨ ∃ x ∈ mno, x < 1) := by
  by_cases hlen : mno.length ≠ 3
  · simp [supercell_badlen S mno hlen, hlen]
  · obtain ⟨l, m, n, rfl⟩ := list3 mno (by simpa using hlen)
    rw [supercell_three]
    simp only [List.length_cons, List.length_nil, ne_eq, not_true_eq_false, false_or, List.mem_cons,
      List.not_mem_nil, or_false, exists_eq_or_imp, exists_eq_left]
    by_cases hmin : min l (min m n) < 1
    · simp only [hmin, if_true]
      exact ⟨fun _ => by omega, fun _ => ⟨_, rfl⟩⟩
    · simp only [hmin, if_false]
      constructor
      · rintro ⟨e, he⟩; split at he <;> cases he
      · intro h; omega

theorem supercell_error_kind (S : Stru α β) (mno : List Int) (e : Err) (h : supercell S mno = .error e) :
    e = .ValueError := by
  by_cases hlen : mno.length ≠ 3
  · rw [supercell_badlen S mno hlen] at h; cases h; rfl
  · obtain ⟨l, m, n, rfl⟩ := list3 mno (by simpa using hlen)
    rw [supercell_three] at h
    split at h
    · cases h; rfl
    · split at h <;> cases h

theorem supercell_ok_inv (S : Stru α β) (mno : List Int) (T : Stru α β) (h : supercell S mno = .ok T) :
    ∃ l m n : Nat, 1 ≤ l ∧ 1 ≤ m ∧ 1 ≤ n ∧ mno = [(l : Int), (m : Int), (n : Int)] := by
  have hne : ¬ ∃ e, supercell S mno = .error e := by rintro ⟨e, he⟩; rw [h] at he; cases he
  rw [supercell_error] at hne
  simp only [not_or, not_exists, not_and, ne_eq, not_not, not_lt] at hne
  obtain ⟨hlen, hall⟩ := hne
  obtain ⟨l, m, n, rfl⟩ := list3 mno hlen
  have hl := hall l (by simp); have hm := hall m (by simp); have hn := hall n (by simp)
  exact ⟨l.toNat, m.toNat, n.toNat, by omega, by omega, by omega, by
    simp only [List.cons.injEq, and_true]; omega⟩
end reject

/-! ### fresh allocation -/
section heap
variable {α β : Type}

theorem read_fresh (A B : List (Atom α β)) :
    (List.range' A.length B.length).filterMap (fun i => (A ++ B)[i]?) = B := by
  induction B generalizing A with
  | nil => simp
  | cons b B ih =>
    have h := ih (A ++ [b])
    simp only [List.length_append, List.length_cons, List.length_nil, List.append_assoc,
      List.cons_append, List.nil_append, Nat.zero_add] at h
    simp only [List.length_cons, List.range'_succ, List.filterMap_cons]
    rw [List.getElem?_append_right (Nat.le_refl _)]
    simp only [Nat.sub_self, List.getElem?_cons_zero]
    rw [h]

theorem read_old (A B : List (Atom α β)) (refs : List Nat) (h : ∀ r ∈ refs, r < A.length) :
    refs.filterMap (fun i => (A ++ B)[i]?) = refs.filterMap (fun i => A[i]?) := by
  induction refs with
  | nil => rfl
  | cons r rs ih =>
    have hr := h r (by simp)
    simp only [List.filterMap_cons, List.getElem?_append_left hr]
    rw [ih (fun x hx => h x (by simp [hx]))]

end heap


/-! ### findCenter / makeEllipsoid: control flow (any scalar type) -/
section flow
variable {α β : Type} [Add α] [Mul α] [Sub α] [Neg α] [Div α] [OfNat α 0] [OfNat α 1] [OfNat α 2]
  [Elem α] [NatCast α] [LT α] [DecidableRel (α := α) (· < ·)] [IntCeil α]

theorem findCenterAux_bound (L : Cell α) (as : List (Atom α β)) (i : Nat) (best : Option Nat) (bestd : α)
    (j : Nat) (h : findCenterAux L as i best bestd = some j) :
    best = some j ∨ (i ≤ j ∧ j < i + as.length) := by
  induction as generalizing i best bestd with
  | nil => left; simpa [findCenterAux] using h
  | cons a as ih =>
    simp only [findCenterAux] at h
    split at h
    · rcases ih _ _ _ h with h' | h'
      · right; cases h'; simp
      · right; simp only [List.length_cons]; omega
    · rcases ih _ _ _ h with h' | h'
      · left; exact h'
      · right; simp only [List.length_cons]; omega

theorem findCenter_lt (T : Stru α β) (j : Nat) (h : findCenter T = some j) : j < T.atoms.length := by
  rcases findCenterAux_bound _ _ _ _ _ _ h with h' | h'
  · cases h'
  · omega

theorem centreIndex_lt (T : Stru α β) (nc : Nat) (h : centreIndex T = some nc) : nc < T.atoms.length := by
  unfold centreIndex at h
  split at h
  · next i hi => cases h; exact findCenter_lt T _ hi
  · split at h
    · cases h
    · cases h; omega

theorem ellipsoidWith_ok (S : Stru α β) (sabc : Vec3 α) (k : Int) (R : Stru α β)
    (h : ellipsoidWith S sabc k = .ok R) :
    ∃ T nc ca, supercell S [k, k, k] = .ok T ∧ centreIndex T = some nc ∧ T.atoms[nc]? = some ca ∧
      R = ⟨T.cell, T.atoms.filter (keeps T.cell sabc (T.cell.cartesian ca.xyz))⟩ := by
  unfold ellipsoidWith at h
  split at h
  · cases h
  · next T hT =>
    split at h
    · cases h
    · next nc hnc =>
      unfold cutWith at h
      split at h
      · cases h
      · next ca hca =>
        cases h
        exact ⟨T, nc, ca, hT, hnc, hca, rfl⟩

/-- the only errors: `ValueError` from `supercell` (block multiplier < 1), `IndexError` (no atoms) -/
theorem ellipsoidWith_error (S : Stru α β) (sabc : Vec3 α) (k : Int) (e : Err)
    (h : ellipsoidWith S sabc k = .error e) :
    (e = .ValueError ∧ k < 1) ∨ (e = .IndexError ∧ S.atoms = [] ∧ 1 ≤ k) := by
  unfold ellipsoidWith at h
  split at h
  · next e' he' =>
    cases h
    left
    refine ⟨supercell_error_kind _ _ _ he', ?_⟩
    have := (supercell_error S [k, k, k]).1 ⟨_, he'⟩
    simpa using this
  · next T hT =>
    have hk : 1 ≤ k := by
      obtain ⟨l, m, n, hl, _, _, hmno⟩ := supercell_ok_inv _ _ _ hT
      simp only [List.cons.injEq, and_true] at hmno
      omega
    split at h
    · next hnc =>
      cases h
      right
      refine ⟨rfl, ?_, hk⟩
      have hT0 : T.atoms = [] := by
        unfold centreIndex at hnc
        split at hnc
        · cases hnc
        · split at hnc
          · next h0 => exact List.eq_nil_of_length_eq_zero h0
          · cases hnc
      rw [supercell_three] at hT
      split at hT
      · cases hT
      · split at hT
        · cases hT; exact hT0
        · cases hT
          simp only [supercellGen, List.flatMap_eq_nil_iff] at hT0
          by_contra hne
          obtain ⟨a, as, hS⟩ := List.exists_cons_of_ne_nil hne
          have := hT0 a (by simp [hS])
          have hlen := congrArg List.length this
          simp only [images, List.length_map, length_ijkList, List.length_nil] at hlen
          have : 0 < k.toNat * k.toNat * k.toNat := by
            have : 0 < k.toNat := by omega
            positivity
          omega
    · next nc hnc =>
      unfold cutWith at h
      split at h
      · next hnone =>
        have := centreIndex_lt T nc hnc
        simp only [List.getElem?_eq_none_iff] at hnone
        omega
      · cases h

end flow

/-! ### no site twice -/
section nodup
variable {K β : Type} [Field K] [CharZero K]

/-- two fractional positions denote the same crystal site up to a lattice translation -/
def LatEquiv (u v : Vec3 K) : Prop :=
  ∃ p q r : ℤ, u.x - v.x = p ∧ u.y - v.y = q ∧ u.z - v.z = r

theorem image_xyz_inj (a : Atom K β) {l m n : Nat} (hl : 0 < l) (hm : 0 < m) (hn : 0 < n)
    (t t' : Nat × Nat × Nat) (h : (image l m n a t).xyz = (image l m n a t').xyz) : t = t' := by
  have c : ∀ {x : Nat}, 0 < x → (x : K) ≠ 0 := fun h => Nat.cast_ne_zero.2 (by omega)
  obtain ⟨i, j, k⟩ := t
  obtain ⟨i', j', k'⟩ := t'
  simp only [image, Vec3.mk.injEq] at h
  obtain ⟨h1, h2, h3⟩ := h
  rw [div_left_inj' (c hl), add_right_inj, Nat.cast_inj] at h1
  rw [div_left_inj' (c hm), add_right_inj, Nat.cast_inj] at h2
  rw [div_left_inj' (c hn), add_right_inj, Nat.cast_inj] at h3
  simp [h1, h2, h3]

theorem image_xyz_latEquiv (a b : Atom K β) {l m n : Nat} (hl : 0 < l) (hm : 0 < m) (hn : 0 < n)
    (t t' : Nat × Nat × Nat) (h : (image l m n a t).xyz = (image l m n b t').xyz) :
    LatEquiv a.xyz b.xyz := by
  have c : ∀ {x : Nat}, 0 < x → (x : K) ≠ 0 := fun h => Nat.cast_ne_zero.2 (by omega)
  simp only [image, Vec3.mk.injEq] at h
  obtain ⟨h1, h2, h3⟩ := h
  rw [div_left_inj' (c hl)] at h1
  rw [div_left_inj' (c hm)] at h2
  rw [div_left_inj' (c hn)] at h3
  refine ⟨(t'.1 : ℤ) - t.1, (t'.2.1 : ℤ) - t.2.1, (t'.2.2 : ℤ) - t.2.2, ?_, ?_, ?_⟩ <;> push_cast
  · linear_combination h1
  · linear_combination h2
  · linear_combination h3

theorem nodup_xyz_images (as : List (Atom K β)) {l m n : Nat} (hl : 0 < l) (hm : 0 < m) (hn : 0 < n)
    (h : as.Pairwise (fun a b => ¬ LatEquiv a.xyz b.xyz)) :
    ((as.flatMap (images l m n)).map (·.xyz)).Nodup := by
  rw [List.map_flatMap]
  refine List.nodup_flatMap.2 ⟨fun a _ => ?_, ?_⟩
  · simp only [images, List.map_map]
    refine (nodup_ijkList l m n).map_on ?_
    intro t _ t' _ ht
    exact image_xyz_inj a hl hm hn t t' ht
  · refine h.imp ?_
    intro a b hab
    simp only [Function.onFun, List.disjoint_left, images, List.map_map, List.mem_map, Function.comp]
    rintro x ⟨t, _, rfl⟩ ⟨t', _, ht'⟩
    exact hab (image_xyz_latEquiv a b hl hm hn t t' ht'.symm)

end nodup

/-! ### the ellipsoid test over ℝ -/
noncomputable instance : IntCeil ℝ := ⟨fun x => ⌈x⌉⟩

section real
variable {β : Type}

/-- `(x/a)² + (y/b)² + (z/c)²` of a Cartesian point relative to the centre -/
noncomputable def ellQ (sabc c r : Vec3 ℝ) : ℝ :=
  ((r.x - c.x) / sabc.x) ^ 2 + ((r.y - c.y) / sabc.y) ^ 2 + ((r.z - c.z) / sabc.z) ^ 2

theorem ellQ_nonneg (sabc c r : Vec3 ℝ) : 0 ≤ ellQ sabc c r := by unfold ellQ; positivity

theorem ellD_eq (sabc c r : Vec3 ℝ) : ellD sabc c r = Real.sqrt (ellQ sabc c r) := by
  simp only [ellD, ellQ, Elem.sqrt]
  congr 1; ring

theorem keeps_iff (L : Cell ℝ) (sabc c : Vec3 ℝ) (a : Atom ℝ β) :
    keeps L sabc c a = true ↔ ellQ sabc c (L.cartesian a.xyz) ≤ 1 := by
  simp only [keeps, Bool.not_eq_true', decide_eq_false_iff_not, not_lt, ellD_eq]
  rw [Real.sqrt_le_left (by norm_num : (0 : ℝ) ≤ 1)]
  norm_num

theorem ellQ_self (sabc c : Vec3 ℝ) : ellQ sabc c c = 0 := by simp [ellQ]

/-- a fractional position inside the unit cell `[0,1)³` -/
def InCell (u : Vec3 ℝ) : Prop := 0 ≤ u.x ∧ u.x < 1 ∧ 0 ≤ u.y ∧ u.y < 1 ∧ 0 ≤ u.z ∧ u.z < 1

theorem int_of_small {p : ℤ} {x y : ℝ} (hx0 : 0 ≤ x) (hx1 : x < 1) (hy0 : 0 ≤ y) (hy1 : y < 1)
    (h : x - y = p) : x = y := by
  have h1 : (p : ℝ) < 1 := by linarith
  have h2 : (-1 : ℝ) < p := by linarith
  have h1' : p < 1 := by exact_mod_cast h1
  have h2' : -1 < p := by exact_mod_cast h2
  have : p = 0 := by omega
  subst this
  simp at h; linarith

theorem latEquiv_inCell {u v : Vec3 ℝ} (hu : InCell u) (hv : InCell v) (h : LatEquiv u v) : u = v := by
  obtain ⟨p, q, r, h1, h2, h3⟩ := h
  obtain ⟨a1, a2, a3, a4, a5, a6⟩ := hu
  obtain ⟨b1, b2, b3, b4, b5, b6⟩ := hv
  cases u; cases v
  simp only [Vec3.mk.injEq]
  exact ⟨int_of_small a1 a2 b1 b2 h1, int_of_small a3 a4 b3 b4 h2, int_of_small a5 a6 b5 b6 h3⟩

/-- `0 ≤ x < 1 ∧ 0 ≤ (x+n)/m < 1 → 0 ≤ n < m` -/
theorem box_arith {x : ℝ} {n : ℤ} {m : ℕ} (hm : 0 < m) (hx0 : 0 ≤ x) (hx1 : x < 1)
    (h0 : 0 ≤ (x + n) / m) (h1 : (x + n) / m < 1) : 0 ≤ n ∧ n < (m : ℤ) := by
  have hm' : (0 : ℝ) < m := by exact_mod_cast hm
  rw [le_div_iff₀ hm'] at h0
  rw [div_lt_one hm'] at h1
  have a : (-1 : ℝ) < n := by linarith
  have b : (n : ℝ) < m := by linarith
  have a' : -1 < n := by exact_mod_cast a
  have b' : n < (m : ℤ) := by exact_mod_cast b
  exact ⟨by omega, b'⟩

end real

/-! ### makeEllipsoid on the heap; specification of findCenter -/

section heapell
variable {α β : Type} [Add α] [Mul α] [Sub α] [Neg α] [Div α] [OfNat α 0] [OfNat α 1] [OfNat α 2]
  [Elem α] [NatCast α] [LT α] [DecidableRel (α := α) (· < ·)] [IntCeil α]

theorem filterMap_filter_refs (A : List (Atom α β)) (q : Atom α β → Bool) (refs : List Nat) :
    (refs.filter (refTest A q)).filterMap (A[·]?)
      = (refs.filterMap (A[·]?)).filter q := by
  induction refs with
  | nil => rfl
  | cons r rs ih =>
    cases hr : A[r]? with
    | none => simp [refTest, hr, ih]
    | some p =>
      by_cases hq : q p = true
      · simp [refTest, hr, hq, ih]
      · simp [refTest, hr, hq, ih]

/-- the value computed on the heap is the value of the pure model on the input's value -/
theorem ellipsoidWithH_value (h : Heap α β) (S : HStru α) (sabc : Vec3 α) (k : Int) :
    (ellipsoidWithH h S sabc k).map (fun p => p.2.value p.1) = ellipsoidWith (S.value h) sabc k := by
  unfold ellipsoidWithH ellipsoidWith supercellH
  cases hT : supercell (S.value h) [k, k, k] with
  | error e => rfl
  | ok T =>
    have hv : (HStru.value (⟨h.atoms ++ T.atoms⟩ : Heap α β)
        ⟨T.cell, List.range' h.atoms.length T.atoms.length⟩) = T := by
      simp only [HStru.value, Heap.read, read_fresh]
    simp only [hv]
    cases hc : centreIndex T with
    | none => rfl
    | some nc =>
      simp only [cutWith]
      cases hca : T.atoms[nc]? with
      | none => rfl
      | some ca =>
        simp only [Except.map, HStru.value, Heap.read, filterMap_filter_refs, read_fresh]

end heapell

/-! ### what `findCenter` returns (over a linear order) -/
section fc
variable {β : Type}

/-- the distance `findCenter` minimises -/
noncomputable def dmid (L : Cell ℝ) (a : Atom ℝ β) : ℝ := L.dist a.xyz ⟨1 / 2, 1 / 2, 1 / 2⟩

theorem findCenterAux_spec (L : Cell ℝ) (as : List (Atom ℝ β)) (i : Nat) (best : Option Nat) (bestd : ℝ) :
    (findCenterAux L as i best bestd = best ∧ ∀ a ∈ as, bestd ≤ dmid L a) ∨
    (∃ pre c post, as = pre ++ c :: post ∧ findCenterAux L as i best bestd = some (i + pre.length) ∧
      dmid L c < bestd ∧ (∀ p ∈ pre, dmid L c < dmid L p) ∧ (∀ p ∈ post, dmid L c ≤ dmid L p)) := by
  induction as generalizing i best bestd with
  | nil => left; simp [findCenterAux]
  | cons a as ih =>
    simp only [findCenterAux]
    by_cases hlt : L.dist a.xyz ⟨1 / 2, 1 / 2, 1 / 2⟩ < bestd
    · simp only [hlt, if_true]
      rcases ih (i + 1) (some i) (L.dist a.xyz ⟨1 / 2, 1 / 2, 1 / 2⟩) with ⟨h1, h2⟩ | ⟨pre, c, post, e, h1, h2, h3, h4⟩
      · right
        exact ⟨[], a, as, rfl, by simpa using h1, hlt, by simp, h2⟩
      · right
        refine ⟨a :: pre, c, post, by simp [e], ?_, lt_trans h2 hlt, ?_, h4⟩
        · rw [h1]; simp only [List.length_cons]; congr 1; omega
        · intro p hp
          rcases List.mem_cons.1 hp with rfl | hp
          · exact h2
          · exact h3 p hp
    · simp only [hlt, if_false]
      have hge : bestd ≤ dmid L a := not_lt.1 hlt
      rcases ih (i + 1) best bestd with ⟨h1, h2⟩ | ⟨pre, c, post, e, h1, h2, h3, h4⟩
      · left
        refine ⟨h1, ?_⟩
        intro p hp
        rcases List.mem_cons.1 hp with rfl | hp
        · exact hge
        · exact h2 p hp
      · right
        refine ⟨a :: pre, c, post, by simp [e], ?_, h2, ?_, h4⟩
        · rw [h1]; simp only [List.length_cons]; congr 1; omega
        · intro p hp
          rcases List.mem_cons.1 hp with rfl | hp
          · exact lt_of_lt_of_le h2 hge
          · exact h3 p hp

/-- `centreIndex` picks the first atom at minimal distance from the middle `(½,½,½)` of the cell,
provided that distance is below `len(S)`; otherwise (every atom at least `len(S)` away) the last atom -/
theorem centreIndex_spec (T : Stru ℝ β) (nc : Nat) (h : centreIndex T = some nc) :
    (∃ pre c post, T.atoms = pre ++ c :: post ∧ nc = pre.length ∧
      (∀ p ∈ pre, dmid T.cell c < dmid T.cell p) ∧ (∀ p ∈ post, dmid T.cell c ≤ dmid T.cell p)) ∨
    (T.atoms ≠ [] ∧ nc = T.atoms.length - 1 ∧ ∀ p ∈ T.atoms, (T.atoms.length : ℝ) ≤ dmid T.cell p) := by
  unfold centreIndex findCenter at h
  rcases findCenterAux_spec T.cell T.atoms 0 none (T.atoms.length : ℝ) with ⟨h1, h2⟩ | ⟨pre, c, post, e, h1, _, h3, h4⟩
  · rw [h1] at h
    simp only at h
    split at h
    · cases h
    · next hne =>
      cases h
      exact Or.inr ⟨fun h0 => hne (by simp [h0]), rfl, h2⟩
  · rw [h1] at h
    simp only [Nat.zero_add, Option.some.injEq] at h
    exact Or.inl ⟨pre, c, post, e, h.symm, h3, h4⟩

end fc

/-! ### labelling block atoms by (parent index, translation) -/

section label
variable {α β : Type} [Add α] [Mul α] [Div α] [NatCast α]

/-- the block atoms labelled by (index of the parent in the input, box translation) -/
def labelled (as : List (Atom α β)) (l m n : Nat) : List (Nat × (Nat × Nat × Nat) × Atom α β) :=
  as.zipIdx.flatMap fun ap => (ijkList l m n).map fun t => (ap.2, t, image l m n ap.1 t)

theorem labelled_atoms (as : List (Atom α β)) (l m n : Nat) :
    (labelled as l m n).map (·.2.2) = as.flatMap (images l m n) := by
  simp only [labelled, List.map_flatMap, List.map_map, Function.comp_def]
  conv_rhs => rw [← List.zipIdx_map_fst 0 as, List.flatMap_map]
  rfl

theorem labelled_keys_nodup (as : List (Atom α β)) (l m n : Nat) :
    ((labelled as l m n).map fun x => (x.1, x.2.1)).Nodup := by
  simp only [labelled, List.map_flatMap, List.map_map, Function.comp_def]
  refine List.nodup_flatMap.2 ⟨fun ap _ => ?_, ?_⟩
  · exact (nodup_ijkList l m n).map (fun a b h => by simpa using h)
  · have h := List.nodup_zipIdx_map_snd as
    rw [List.Nodup, List.pairwise_map] at h
    refine h.imp ?_
    intro a b hab
    simp only [Function.onFun, List.disjoint_left, List.mem_map]
    rintro x ⟨t, _, rfl⟩ ⟨t', _, ht'⟩
    simp only [Prod.mk.injEq] at ht'
    exact hab ht'.1.symm

theorem labelled_mem (as : List (Atom α β)) (l m n : Nat) (x : Nat × (Nat × Nat × Nat) × Atom α β)
    (hx : x ∈ labelled as l m n) :
    ∃ a, as[x.1]? = some a ∧ x.2.1 ∈ ijkList l m n ∧ x.2.2 = image l m n a x.2.1 := by
  simp only [labelled, List.mem_flatMap, List.mem_map] at hx
  obtain ⟨ap, hap, t, ht, rfl⟩ := hx
  exact ⟨ap.1, List.mem_zipIdx_iff_getElem?.1 hap, ht, rfl⟩

end label

end DS.Expand
