import DS.Lemmas.Lattice
import DS.Lemmas.Adp

/-!
Bridge between the two lattice descriptions of the development:

* `DS.Lattice α`  (`DS/Model/Lattice.lean`): all 32 cached attributes of `diffpy.structure.lattice.Lattice`,
  built by `ofCS` / `ofPar` / `ofBase`; theorems of C01 / C10 under `Valid` / `ValidPar` / `0 < det B` / `WF`.
* `DS.LatData α` (`DS/Model/Adp.lean`): the 15 attributes read by `atom.py` and `Structure.placeInLattice`;
  theorems of C09 / C14 under the hypothesis record `LatOK`.

`toLatData` copies the 15 attributes field by field.  The conventions of the two models agree
*definitionally* (`conv_normbase`, `conv_recnormbase`, `conv_isounit`, `conv_metrics` below are all `rfl`):
`normbase = base * [[ar],[br],[cr]]` (row scaling), `recnormbase = recbase / [ar,br,cr]` (column division),
`isotropicunit = (recnormbaseᵀ·recnormbase)` with the diagonal forced to 1, `metrics` written entry by entry.

Main result: `latOK_ofCS` — every hypothesis of `LatOK` is a *theorem* for `toLatData (ofCS p Q)` when `Valid p Q`;
hence for `ofPar` (valid cell in degrees, proper rotation), `ofBase` (right-handed base), every well-formed object
(`WF`), its reciprocal, and every object reachable by a valid update history.
-/
namespace DS

/-- the attributes of a `Lattice` object read by `atom.py` / `placeInLattice`, copied field by field -/
def toLatData {α : Type} (L : Lattice α) : LatData α :=
  { a := L.a, b := L.b, c := L.c, ca := L.ca, cb := L.cb, cg := L.cg, ar := L.ar, br := L.br, cr := L.cr,
    base := L.base, recbase := L.recbase, normbase := L.normbase, recnormbase := L.recnormbase,
    isotropicunit := L.isotropicunit, metrics := L.metrics }

namespace LatBridge
open DS.Lattice

/-! ### the two models use the same conventions (all by `rfl`) -/

/-- `normbase`: row `i` of `base` multiplied by the `i`-th reciprocal length, in both models -/
theorem conv_normbase (m : Mat3 ℝ) (p q r : ℝ) : Lattice.normbaseOf m p q r = m.rowScale p q r := rfl
/-- `recnormbase`: column `j` of `recbase` divided by the `j`-th reciprocal length, in both models -/
theorem conv_recnormbase (m : Mat3 ℝ) (p q r : ℝ) : Lattice.recnormbaseOf m p q r = m.colDiv p q r := rfl
/-- `_isotropicunit`: `recnormbaseᵀ·recnormbase` with the diagonal overwritten by 1, in both models -/
theorem conv_isounit (m : Mat3 ℝ) : Lattice.isounitOf m = isotropicunitOf m := rfl
/-- the metrics array, entry by entry, in both models -/
theorem conv_metrics (a b c ca cb cg : ℝ) : Lattice.metricsOf a b c ca cb cg = DS.metricsOf a b c ca cb cg := rfl

/-- the Cartesian conversion of the two models is the same function -/
theorem cart_toLatData (L : Lattice ℝ) (u : Vec3 ℝ) : (toLatData L).cart u = L.cartesian u := rfl

/-- the norm of the two models is the same function -/
theorem norm_toLatData (L : Lattice ℝ) (u : Vec3 ℝ) : (toLatData L).norm u = L.norm u := rfl

/-! ### the unit diagonal of `recnormbaseᵀ·recnormbase` -/

/-- pure algebra: the diagonal of `(R / [p,q,r])ᵀ · (R / [p,q,r])` is the diagonal of the Gram matrix `Rᵀ·R`
of the columns of `R`, divided by `p², q², r²` -/
theorem colDiv_gram_diag (R : Mat3 ℝ) (p q r : ℝ) :
    ((R.colDiv p q r).transpose.mul (R.colDiv p q r)).a11 = (R.transpose.mul R).a11 / (p * p) ∧
    ((R.colDiv p q r).transpose.mul (R.colDiv p q r)).a22 = (R.transpose.mul R).a22 / (q * q) ∧
    ((R.colDiv p q r).transpose.mul (R.colDiv p q r)).a33 = (R.transpose.mul R).a33 / (r * r) := by
  refine ⟨?_, ?_, ?_⟩ <;> simp only [Mat3.mul, Mat3.transpose, Mat3.colDiv] <;> ring

/-- the reciprocal lengths computed by `setLatPar` are positive -/
theorem recip_lengths_pos {p : CellCS ℝ} (h : ValidCS p) (Q : Mat3 ℝ) :
    0 < (ofCS p Q).ar ∧ 0 < (ofCS p Q).br ∧ 0 < (ofCS p Q).cr :=
  ⟨div_pos h.sa_pos (mul_pos h.a_pos h.V_pos), div_pos h.sb_pos (mul_pos h.b_pos h.V_pos),
    div_pos h.sg_pos (mul_pos h.c_pos h.V_pos)⟩

/-- the squared lengths of the reciprocal base vectors (columns of `recbase`) are `ar², br², cr²`
(diagonal of `recip_gram` of C01) -/
theorem recbase_col_norms {p : CellCS ℝ} {Q : Mat3 ℝ} (h : Valid p Q) :
    ((ofCS p Q).recbase.transpose.mul (ofCS p Q).recbase).a11 = (ofCS p Q).ar * (ofCS p Q).ar ∧
    ((ofCS p Q).recbase.transpose.mul (ofCS p Q).recbase).a22 = (ofCS p Q).br * (ofCS p Q).br ∧
    ((ofCS p Q).recbase.transpose.mul (ofCS p Q).recbase).a33 = (ofCS p Q).cr * (ofCS p Q).cr := by
  have hG := recip_gram h
  rw [Mat3.transpose_transpose] at hG
  rw [hG]
  exact ⟨rfl, rfl, rfl⟩

/-- **the columns of `recnormbase` are unit vectors**: the diagonal of `recnormbaseᵀ·recnormbase` is exactly 1,
so the three assignments `isounit[k,k] = 1` of `_isotropicunit` only remove round-off -/
theorem recnormbase_unit_diag {p : CellCS ℝ} {Q : Mat3 ℝ} (h : Valid p Q) :
    ((ofCS p Q).recnormbase.transpose.mul (ofCS p Q).recnormbase).a11 = 1 ∧
    ((ofCS p Q).recnormbase.transpose.mul (ofCS p Q).recnormbase).a22 = 1 ∧
    ((ofCS p Q).recnormbase.transpose.mul (ofCS p Q).recnormbase).a33 = 1 := by
  obtain ⟨ha, hb, hc⟩ := recip_lengths_pos h.cs Q
  obtain ⟨n1, n2, n3⟩ := recbase_col_norms h
  obtain ⟨d1, d2, d3⟩ := colDiv_gram_diag (ofCS p Q).recbase (ofCS p Q).ar (ofCS p Q).br (ofCS p Q).cr
  have e : (ofCS p Q).recnormbase = (ofCS p Q).recbase.colDiv (ofCS p Q).ar (ofCS p Q).br (ofCS p Q).cr := rfl
  rw [e, d1, d2, d3, n1, n2, n3]
  exact ⟨div_self (mul_pos ha ha).ne', div_self (mul_pos hb hb).ne', div_self (mul_pos hc hc).ne'⟩

/-- consequently the cached `isotropicunit` *is* `recnormbaseᵀ·recnormbase` -/
theorem isotropicunit_eq {p : CellCS ℝ} {Q : Mat3 ℝ} (h : Valid p Q) :
    (ofCS p Q).isotropicunit = (ofCS p Q).recnormbase.transpose.mul (ofCS p Q).recnormbase := by
  obtain ⟨d1, d2, d3⟩ := recnormbase_unit_diag h
  have e : (ofCS p Q).isotropicunit = Lattice.isounitOf (ofCS p Q).recnormbase := rfl
  rw [e]
  apply Mat3.ext' <;> simp only [Lattice.isounitOf]
  · exact d1.symm
  · exact d2.symm
  · exact d3.symm

/-- pure algebra: all entries of `(R / [p,q,r])ᵀ · (R / [p,q,r])` from the Gram matrix `Rᵀ·R` -/
theorem colDiv_gram (R : Mat3 ℝ) (p q r : ℝ) :
    (R.colDiv p q r).transpose.mul (R.colDiv p q r) =
      ⟨(R.transpose.mul R).a11 / (p * p), (R.transpose.mul R).a12 / (p * q), (R.transpose.mul R).a13 / (p * r),
       (R.transpose.mul R).a21 / (q * p), (R.transpose.mul R).a22 / (q * q), (R.transpose.mul R).a23 / (q * r),
       (R.transpose.mul R).a31 / (r * p), (R.transpose.mul R).a32 / (r * q), (R.transpose.mul R).a33 / (r * r)⟩ := by
  apply Mat3.ext' <;> simp only [Mat3.mul, Mat3.transpose, Mat3.colDiv] <;> ring

/-- the unit isotropic tensor is the metric tensor of unit reciprocal axes: its off-diagonal entries are the
cosines of the reciprocal angles -/
theorem isotropicunit_recip_cos {p : CellCS ℝ} {Q : Mat3 ℝ} (h : Valid p Q) :
    (ofCS p Q).isotropicunit = Lattice.metricsOf 1 1 1 (ofCS p Q).car (ofCS p Q).cbr (ofCS p Q).cgr := by
  obtain ⟨ha, hb, hc⟩ := recip_lengths_pos h.cs Q
  have ha' := ha.ne'; have hb' := hb.ne'; have hc' := hc.ne'
  have hG := recip_gram h
  rw [Mat3.transpose_transpose] at hG
  have e : (ofCS p Q).recnormbase = (ofCS p Q).recbase.colDiv (ofCS p Q).ar (ofCS p Q).br (ofCS p Q).cr := rfl
  have hR : recipMetric p = Lattice.metricsOf (ofCS p Q).ar (ofCS p Q).br (ofCS p Q).cr (ofCS p Q).car (ofCS p Q).cbr (ofCS p Q).cgr := rfl
  rw [isotropicunit_eq h, e, colDiv_gram, hG, hR]
  generalize (ofCS p Q).ar = x at *
  generalize (ofCS p Q).br = y at *
  generalize (ofCS p Q).cr = z at *
  apply Mat3.ext' <;> simp only [Lattice.metricsOf] <;> field_simp
/-! ### `LatOK` is a theorem about genuine lattices -/

/-- **`LatOK` holds for `setLatPar`'s result** on valid cosine/sine/volume data and a proper rotation:
all thirteen hypotheses of the C09 / C14 theorems are consequences of the C01 theorems -/
theorem latOK_ofCS {p : CellCS ℝ} {Q : Mat3 ℝ} (h : Valid p Q) : LatOK (toLatData (ofCS p Q)) := by
  obtain ⟨ha, hb, hc⟩ := recip_lengths_pos h.cs Q
  obtain ⟨d1, d2, d3⟩ := recnormbase_unit_diag h
  exact
    { base_rec := base_mul_recbase h
      rec_base := recbase_mul_base h
      normbase_def := rfl
      recnormbase_def := rfl
      ar_ne := ha.ne'
      br_ne := hb.ne'
      cr_ne := hc.ne'
      iso_def := rfl
      iso_diag11 := d1
      iso_diag22 := d2
      iso_diag33 := d3
      metrics_def := rfl
      metrics_gram := (metrics_eq_gram h).symm }

/-- `Lattice(a, b, c, α, β, γ, baserot=Q)` for a valid cell in degrees and a proper rotation -/
theorem latOK_ofPar {a b c al be ga : ℝ} {Q : Mat3 ℝ} (h : ValidPar a b c al be ga) (hQ : IsRot Q) :
    LatOK (toLatData (ofPar a b c al be ga Q)) := latOK_ofCS (valid_ofPar h hQ)

/-- `Lattice(base=B)` / `setLatBase(B)` for every right-handed base -/
theorem latOK_ofBase {B : Mat3 ℝ} (hB : 0 < B.det) : LatOK (toLatData (ofBase B)) := by
  obtain ⟨hv, h⟩ := ofBase_sound hB
  rw [h]; exact latOK_ofCS hv

/-- every well-formed object (`WF`: coherent, valid parameters, proper rotation — the C10 invariant) -/
theorem latOK_of_wf {L : Lattice ℝ} (h : WF L) : LatOK (toLatData L) := by
  rw [h.coherent]; exact latOK_ofPar h.par h.rot

/-- the reciprocal lattice of a well-formed object -/
theorem latOK_reciprocal {L : Lattice ℝ} (h : WF L) : LatOK (toLatData L.reciprocal) :=
  latOK_of_wf (wf_reciprocal h)

/-- `Lattice()`, the default unit cell -/
theorem latOK_default : LatOK (toLatData (ofPar (1 : ℝ) 1 1 90 90 90 Mat3.one)) :=
  latOK_ofPar validPar_default isRot_one

/-- a `LatData` is *real* when it is the attribute record of a lattice built by `Lattice(a,b,c,α,β,γ,baserot=Q)`
from a valid cell and a proper rotation -/
def IsRealLat (l : LatData ℝ) : Prop :=
  ∃ a b c al be ga : ℝ, ∃ Q : Mat3 ℝ, ValidPar a b c al be ga ∧ IsRot Q ∧ l = toLatData (ofPar a b c al be ga Q)

theorem isRealLat_iff_wf (l : LatData ℝ) : IsRealLat l ↔ ∃ L : Lattice ℝ, WF L ∧ l = toLatData L := by
  constructor
  · rintro ⟨a, b, c, al, be, ga, Q, h, hQ, rfl⟩
    exact ⟨_, wf_ofPar h hQ, rfl⟩
  · rintro ⟨L, h, rfl⟩
    exact ⟨L.a, L.b, L.c, L.alpha, L.beta, L.gamma, L.baserot, h.par, h.rot, by rw [← h.coherent]⟩

theorem isRealLat_of_wf {L : Lattice ℝ} (h : WF L) : IsRealLat (toLatData L) :=
  (isRealLat_iff_wf _).mpr ⟨L, h, rfl⟩

theorem isRealLat_ofPar {a b c al be ga : ℝ} {Q : Mat3 ℝ} (h : ValidPar a b c al be ga) (hQ : IsRot Q) :
    IsRealLat (toLatData (ofPar a b c al be ga Q)) := ⟨a, b, c, al, be, ga, Q, h, hQ, rfl⟩

theorem isRealLat_ofBase {B : Mat3 ℝ} (hB : 0 < B.det) : IsRealLat (toLatData (ofBase B)) :=
  isRealLat_of_wf (wf_ofBase hB)

/-- real lattices satisfy `LatOK` -/
theorem IsRealLat.latOK {l : LatData ℝ} (h : IsRealLat l) : LatOK l := by
  obtain ⟨a, b, c, al, be, ga, Q, hp, hQ, rfl⟩ := h
  exact latOK_ofPar hp hQ

end LatBridge
end DS
