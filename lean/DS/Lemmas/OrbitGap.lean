import DS.Lemmas.OrbitExact

/-!
`expandPosition` (literal model `Orbit.expand`) on sites *within tolerance* of a special position:
under the gap hypothesis `Gap` (any two images are within `E/4` of each other or farther apart than
`2E`) the algorithm lists the first image of each closeness class and groups the operations by class.
-/
namespace DS
namespace Orbit

/-! ### the box distance is a metric on in-cell points -/

/-- linear characterisation of one coordinate of the box distance: the distance on the circle `Z/D` -/
theorem pdiff1_spec {D u v : Int} (hu : 0 ≤ u ∧ u < D) (hv : 0 ≤ v ∧ v < D) :
    (v ≤ u ∧ 2 * (u - v) ≤ D ∧ pdiff1 D u v = u - v) ∨
    (v ≤ u ∧ D < 2 * (u - v) ∧ pdiff1 D u v = D - (u - v)) ∨
    (u < v ∧ 2 * (v - u) < D ∧ pdiff1 D u v = v - u) ∨
    (u < v ∧ D ≤ 2 * (v - u) ∧ pdiff1 D u v = D - (v - u)) := by
  unfold pdiff1
  by_cases huv : v ≤ u
  · have : (u - v) % D = u - v := Int.emod_eq_of_lt (by omega) (by omega)
    simp only [this]
    split <;> omega
  · have : (u - v) % D = u - v + D := by
      rw [← Int.add_emod_right (u - v) D]
      exact Int.emod_eq_of_lt (by omega) (by omega)
    simp only [this]
    split <;> omega

theorem pdiff1_comm {D u v : Int} (hu : 0 ≤ u ∧ u < D) (hv : 0 ≤ v ∧ v < D) :
    pdiff1 D u v = pdiff1 D v u := by
  have h1 := pdiff1_spec hu hv
  have h2 := pdiff1_spec hv hu
  omega

theorem pdiff1_self {D u : Int} (hu : 0 ≤ u ∧ u < D) : pdiff1 D u u = 0 := by
  have h1 := pdiff1_spec hu hu
  omega

theorem pdiff1_nonneg {D u v : Int} (hu : 0 ≤ u ∧ u < D) (hv : 0 ≤ v ∧ v < D) :
    0 ≤ pdiff1 D u v := by
  have h1 := pdiff1_spec hu hv
  omega

theorem pdiff1_le_half {D u v : Int} (hu : 0 ≤ u ∧ u < D) (hv : 0 ≤ v ∧ v < D) :
    2 * pdiff1 D u v ≤ D := by
  have h1 := pdiff1_spec hu hv
  omega

theorem pdiff1_eq_zero {D u v : Int} (hu : 0 ≤ u ∧ u < D) (hv : 0 ≤ v ∧ v < D)
    (h : pdiff1 D u v = 0) : u = v := by
  have h1 := pdiff1_spec hu hv
  omega

theorem pdiff1_triangle {D u v w : Int} (hu : 0 ≤ u ∧ u < D) (hv : 0 ≤ v ∧ v < D) (hw : 0 ≤ w ∧ w < D) :
    pdiff1 D u w ≤ pdiff1 D u v + pdiff1 D v w := by
  have h1 := pdiff1_spec hu hv
  have h2 := pdiff1_spec hv hw
  have h3 := pdiff1_spec hu hw
  omega

theorem boxDist_comm {D : Int} {p q : P3} (hp : InCell D p) (hq : InCell D q) :
    boxDist D p q = boxDist D q p := by
  unfold boxDist
  rw [pdiff1_comm hp.1 hq.1, pdiff1_comm hp.2.1 hq.2.1, pdiff1_comm hp.2.2 hq.2.2]

theorem boxDist_self {D : Int} {p : P3} (hp : InCell D p) : boxDist D p p = 0 := by
  unfold boxDist
  rw [pdiff1_self hp.1, pdiff1_self hp.2.1, pdiff1_self hp.2.2]
  rfl

theorem boxDist_nonneg {D : Int} {p q : P3} (hp : InCell D p) (hq : InCell D q) :
    0 ≤ boxDist D p q := by
  unfold boxDist
  have := pdiff1_nonneg hp.1 hq.1
  omega

theorem boxDist_eq_zero {D : Int} {p q : P3} (hp : InCell D p) (hq : InCell D q)
    (h : boxDist D p q = 0) : p = q := by
  unfold boxDist at h
  have a1 := pdiff1_nonneg hp.1 hq.1
  have a2 := pdiff1_nonneg hp.2.1 hq.2.1
  have a3 := pdiff1_nonneg hp.2.2 hq.2.2
  have e1 := pdiff1_eq_zero hp.1 hq.1 (by omega)
  have e2 := pdiff1_eq_zero hp.2.1 hq.2.1 (by omega)
  have e3 := pdiff1_eq_zero hp.2.2 hq.2.2 (by omega)
  obtain ⟨p1, p2, p3⟩ := p
  obtain ⟨q1, q2, q3⟩ := q
  simp only at e1 e2 e3
  rw [e1, e2, e3]

theorem boxDist_triangle {D : Int} {p q r : P3} (hp : InCell D p) (hq : InCell D q) (hr : InCell D r) :
    boxDist D p r ≤ boxDist D p q + boxDist D q r := by
  unfold boxDist
  have a1 := pdiff1_triangle hp.1 hq.1 hr.1
  have a2 := pdiff1_triangle hp.2.1 hq.2.1 hr.2.1
  have a3 := pdiff1_triangle hp.2.2 hq.2.2 hr.2.2
  omega

/-! ### closeness and the gap hypothesis -/

/-- two positions are *close*: box distance at most a quarter of the tolerance -/
def closeB (D E : Int) (p q : P3) : Bool := decide (boxDist D p q * 4 ≤ E)

/-- **gap hypothesis**: any two images of the site are close (within `E/4`) or far (beyond `2E`) -/
def Gap (ops : List Op) (k E : Int) (off x : P3) : Prop :=
  ∀ a ∈ ops, ∀ b ∈ ops,
    boxDist (24 * k) (img a k off x) (img b k off x) * 4 ≤ E ∨
    2 * E < boxDist (24 * k) (img a k off x) (img b k off x)

instance (ops : List Op) (k E : Int) (off x : P3) : Decidable (Gap ops k E off x) := by
  unfold Gap; infer_instance

theorem Gap.mono {ops ops' : List Op} {k E : Int} {off x : P3} (h : Gap ops k E off x)
    (hsub : ∀ a ∈ ops', a ∈ ops) : Gap ops' k E off x :=
  fun a ha b hb => h a (hsub a ha) b (hsub b hb)

theorem closeB_iff {D E : Int} {p q : P3} : closeB D E p q = true ↔ boxDist D p q * 4 ≤ E := by
  simp [closeB]

theorem closeB_self {D E : Int} (hE : 0 ≤ E) {p : P3} (hp : InCell D p) : closeB D E p p = true := by
  rw [closeB_iff, boxDist_self hp]; omega

theorem closeB_comm {D E : Int} {p q : P3} (hp : InCell D p) (hq : InCell D q) :
    closeB D E p q = closeB D E q p := by
  simp only [closeB, boxDist_comm hp hq]

section images
variable {k E : Int} {off x : P3} {ops : List Op}

/-- closeness of images is reflexive -/
theorem close_refl (hk : 0 < k) (hE : 0 < E) (a : Op) :
    closeB (24 * k) E (img a k off x) (img a k off x) = true :=
  closeB_self (by omega) (img_inCell a hk off x)

/-- closeness of images is symmetric -/
theorem close_symm (hk : 0 < k) {a b : Op}
    (h : closeB (24 * k) E (img a k off x) (img b k off x) = true) :
    closeB (24 * k) E (img b k off x) (img a k off x) = true := by
  rw [closeB_comm (img_inCell b hk off x) (img_inCell a hk off x)]; exact h

/-- under the gap hypothesis closeness of images is transitive -/
theorem close_trans (hk : 0 < k) (hgap : Gap ops k E off x) {a b c : Op}
    (ha : a ∈ ops) (hc : c ∈ ops)
    (hab : closeB (24 * k) E (img a k off x) (img b k off x) = true)
    (hbc : closeB (24 * k) E (img b k off x) (img c k off x) = true) :
    closeB (24 * k) E (img a k off x) (img c k off x) = true := by
  rw [closeB_iff] at hab hbc ⊢
  have tri := boxDist_triangle (img_inCell a hk off x) (img_inCell b hk off x) (img_inCell c hk off x)
  rcases hgap a ha c hc with h | h
  · exact h
  · omega

/-- images in the same bucket are close (gap hypothesis) -/
theorem close_of_bucket_eq (hk : 0 < k) (hE : 0 < E) (hgap : Gap ops k E off x) {a b : Op}
    (ha : a ∈ ops) (hb : b ∈ ops) (h : bucket E (img a k off x) = bucket E (img b k off x)) :
    closeB (24 * k) E (img a k off x) (img b k off x) = true := by
  rw [closeB_iff]
  have := boxDist_lt_of_bucket_eq hE (img_inCell a hk off x) (img_inCell b hk off x) h
  rcases hgap a ha b hb with h | h
  · exact h
  · omega

/-- images that are not close are farther apart than `2E` -/
theorem far_of_not_close (hgap : Gap ops k E off x) {a b : Op} (ha : a ∈ ops) (hb : b ∈ ops)
    (h : closeB (24 * k) E (img a k off x) (img b k off x) = false) :
    2 * E < boxDist (24 * k) (img a k off x) (img b k off x) := by
  rcases hgap a ha b hb with h' | h'
  · rw [← closeB_iff, h] at h'; cases h'
  · exact h'

end images

/-! ### de-duplication up to a relation -/

/-- keep the first element of every class of `c` (analogue of `dedupFirst`) -/
def dedupBy {α : Type} (c : α → α → Bool) : List α → List α
  | [] => []
  | p :: ps => p :: (dedupBy c ps).filter (fun q => !c p q)

theorem mem_of_mem_dedupBy {α : Type} {c : α → α → Bool} {l : List α} {p : α}
    (h : p ∈ dedupBy c l) : p ∈ l := by
  induction l with
  | nil => simp [dedupBy] at h
  | cons q qs ih =>
    simp only [dedupBy, List.mem_cons, List.mem_filter] at h
    rcases h with h | ⟨h, _⟩
    · exact h ▸ List.mem_cons_self
    · exact List.mem_cons_of_mem _ (ih h)

/-- listed representatives are pairwise unrelated (earlier against later) -/
theorem pairwise_dedupBy {α : Type} (c : α → α → Bool) (l : List α) :
    (dedupBy c l).Pairwise (fun p q => c p q = false) := by
  induction l with
  | nil => simp [dedupBy]
  | cons q qs ih =>
    simp only [dedupBy, List.pairwise_cons, List.mem_filter]
    refine ⟨fun a ha => by simpa using ha.2, ih.filter _⟩

theorem dedupBy_append {α : Type} (c : α → α → Bool) (l : List α) (p : α) :
    dedupBy c (l ++ [p]) = if l.any (fun q => c q p) then dedupBy c l else dedupBy c l ++ [p] := by
  induction l with
  | nil => simp [dedupBy]
  | cons q qs ih =>
    simp only [List.cons_append, dedupBy, ih, List.any_cons]
    by_cases h1 : qs.any (fun q => c q p) = true
    · simp [h1]
    · by_cases h2 : c q p = true
      · simp [h1, h2, List.filter_append]
      · simp [h1, h2, List.filter_append]

theorem dedupBy_congr {α : Type} {c c' : α → α → Bool} {l : List α}
    (h : ∀ p ∈ l, ∀ q ∈ l, c p q = c' p q) : dedupBy c l = dedupBy c' l := by
  induction l with
  | nil => rfl
  | cons a as ih =>
    simp only [dedupBy]
    rw [← ih (fun p hp q hq => h p (List.mem_cons_of_mem _ hp) q (List.mem_cons_of_mem _ hq))]
    congr 1
    apply List.filter_congr
    intro q hq
    rw [h a List.mem_cons_self q (List.mem_cons_of_mem _ (mem_of_mem_dedupBy hq))]

theorem dedupBy_map {α β : Type} (c : β → β → Bool) (f : α → β) (l : List α) :
    dedupBy c (l.map f) = (dedupBy (fun a b => c (f a) (f b)) l).map f := by
  induction l with
  | nil => rfl
  | cons a as ih =>
    simp only [List.map_cons, dedupBy, ih, List.filter_map]
    rfl

theorem dedupFirst_eq_dedupBy (l : List P3) : dedupFirst l = dedupBy (fun p q => p == q) l := by
  induction l with
  | nil => rfl
  | cons a as ih =>
    simp only [dedupFirst, dedupBy, ih]
    congr 1
    apply List.filter_congr
    intro q _
    show (q != a) = !(a == q)
    rw [bne]
    by_cases e : q = a
    · subst e; rfl
    · have : ¬ a = q := fun e' => e e'.symm
      rw [beq_eq_false_iff_ne.2 e, beq_eq_false_iff_ne.2 this]

theorem head?_dedupBy {α : Type} (c : α → α → Bool) (l : List α) : (dedupBy c l).head? = l.head? := by
  cases l <;> rfl

/-! ### bucket table under appending -/

theorem lookupKey_append (m : List (P3 × Nat)) (t : P3) (i : Nat) (b : P3) :
    lookupKey (m ++ [(t, i)]) b =
      match lookupKey m b with
      | some j => some j
      | none => if t = b then some i else none := by
  simp only [lookupKey, List.find?_append]
  cases h : m.find? (fun e => e.1 == b) with
  | some e => simp
  | none =>
    by_cases e : t = b
    · simp [e]
    · simp [e]

theorem lookupKey_nil (b : P3) : lookupKey [] b = none := rfl

/-! ### the nearest listed position minimises the box distance -/

theorem nearestIdx_go_min (D : Int) (p : P3) :
    ∀ (rest pre : List P3) (best : Nat) (bd : Int), best < pre.length →
      bd = boxDist D ((pre ++ rest).getD best p) p →
      (∀ q ∈ pre, bd ≤ boxDist D q p) →
      ∀ q ∈ pre ++ rest,
        boxDist D ((pre ++ rest).getD (nearestIdx.go D p rest pre.length best bd) p) p ≤ boxDist D q p
  | [], pre, best, bd, _, hbd, hmin => by
    intro q hq
    simp only [List.append_nil] at hq hbd ⊢
    simp only [nearestIdx.go]
    rw [← hbd]; exact hmin q hq
  | r :: rs, pre, best, bd, hb, hbd, hmin => by
    have happ : pre ++ r :: rs = (pre ++ [r]) ++ rs := by simp
    have hlen : (pre ++ [r]).length = pre.length + 1 := by simp
    have hget : ((pre ++ [r]) ++ rs).getD pre.length p = r := by simp
    simp only [nearestIdx.go]
    rw [happ]
    split
    · next hlt =>
      have := nearestIdx_go_min D p rs (pre ++ [r]) pre.length (boxDist D r p) (by simp)
        (by rw [hget])
        (by
          intro q hq
          rcases List.mem_append.1 hq with h | h
          · have := hmin q h; omega
          · simp only [List.mem_singleton] at h; subst h; exact Int.le_refl _)
      rw [hlen] at this
      exact this
    · next hge =>
      have := nearestIdx_go_min D p rs (pre ++ [r]) best bd (by simp; omega)
        (by rw [← happ]; exact hbd)
        (by
          intro q hq
          rcases List.mem_append.1 hq with h | h
          · exact hmin q h
          · simp only [List.mem_singleton] at h; subst h; omega)
      rw [hlen] at this
      exact this

theorem nearestIdx_min (D : Int) (ps : List P3) (p : P3) :
    ∀ q ∈ ps, boxDist D (ps.getD (nearestIdx D ps p) p) p ≤ boxDist D q p := by
  cases ps with
  | nil => intro q hq; cases hq
  | cons r rs =>
    have := nearestIdx_go_min D p rs [r] 0 (boxDist D r p) (by simp) (by simp)
      (by intro q hq; simp only [List.mem_singleton] at hq; subst hq; exact Int.le_refl _)
    simpa [nearestIdx] using this

/-! ### classes of operations by closeness to the listed positions -/

/-- operations of `done` grouped by the listed position their image is related to -/
def classesBy (c : P3 → P3 → Bool) (f : Op → P3) (ps : List P3) (done : List Op) : List (List Op) :=
  ps.map (fun p => done.filter (fun g => c p (f g)))

theorem classesBy_snoc_mem {c : P3 → P3 → Bool} {f : Op → P3} {ps : List P3} {done : List Op} {a : Op}
    {i : Nat} (hi : i < ps.length) (hia : c ps[i] (f a) = true)
    (hother : ∀ j (hj : j < ps.length), j ≠ i → c ps[j] (f a) = false) :
    addToClass (classesBy c f ps done) i a = classesBy c f ps (done ++ [a]) := by
  apply List.ext_getElem
  · simp [addToClass, classesBy]
  · intro j h1 h2
    have hj : j < ps.length := by simpa [classesBy] using h2
    simp only [addToClass, classesBy, List.getElem_modify, List.getElem_map, List.filter_append]
    by_cases hij : i = j
    · subst hij
      simp [hia]
    · have := hother j hj (fun e => hij e.symm)
      simp [hij, this]

theorem classesBy_snoc_new {c : P3 → P3 → Bool} {f : Op → P3} {ps : List P3} {done : List Op} {a : Op}
    (hps : ∀ p ∈ ps, c p (f a) = false) (hdone : ∀ b ∈ done, c (f a) (f b) = false)
    (hself : c (f a) (f a) = true) :
    classesBy c f ps done ++ [[a]] = classesBy c f (ps ++ [f a]) (done ++ [a]) := by
  have h1 : classesBy c f ps (done ++ [a]) = classesBy c f ps done := by
    simp only [classesBy, List.filter_append]
    apply List.map_congr_left
    intro p hp
    simp [hps p hp]
  have h2 : done.filter (fun g => c (f a) (f g)) = [] := by
    rw [List.filter_eq_nil_iff]
    intro b hb
    simp [hdone b hb]
  simp only [classesBy, List.map_append, List.map_cons, List.map_nil, List.filter_append] at h1 ⊢
  rw [h1, h2]
  simp [hself]

/-! ### the loop invariant under the gap hypothesis -/

/-- invariant of the loop of `expandPosition` after the operations `done`:
* `pos`  — the listed positions are the first image of each closeness class met so far;
* `keys_sound` — every registered bucket is the bucket of an image met so far;
* `keys_complete` — the bucket of every image met so far is registered and maps to the index of a
  listed position close to that image (the representative of its class);
* `cls` — `classes[i]` are the operations of `done` whose image is close to `positions[i]`, in order -/
structure GInv (k E : Int) (off x : P3) (done : List Op) (s : St) : Prop where
  pos : s.positions = dedupBy (closeB (24 * k) E) (done.map (fun g => img g k off x))
  keys_sound : ∀ b i, lookupKey s.keymap b = some i → ∃ g ∈ done, bucket E (img g k off x) = b
  keys_complete : ∀ g ∈ done, ∃ i p, s.positions[i]? = some p ∧
    lookupKey s.keymap (bucket E (img g k off x)) = some i ∧ closeB (24 * k) E p (img g k off x) = true
  cls : s.classes = classesBy (closeB (24 * k) E) (fun g => img g k off x) s.positions done

theorem ginv_init (k E : Int) (off x : P3) :
    GInv k E off x [] { positions := [], keymap := [], classes := [] } :=
  ⟨by simp [dedupBy], (by intro b i h; simp [lookupKey] at h), (by intro g hg; cases hg), by simp [classesBy]⟩

section step
variable {k E : Int} {off x : P3} {done : List Op} {s : St}

/-- every listed position is the image of an operation already processed -/
theorem GInv.mem_positions (hinv : GInv k E off x done s) {p : P3} (hp : p ∈ s.positions) :
    ∃ h ∈ done, img h k off x = p := by
  rw [hinv.pos] at hp
  exact List.mem_map.1 (mem_of_mem_dedupBy hp)

/-- (i) distinct listed positions are not close … -/
theorem GInv.index_unique (hk : 0 < k) (hinv : GInv k E off x done s) {i j : Nat}
    (hi : i < s.positions.length) (hj : j < s.positions.length)
    (h : closeB (24 * k) E s.positions[i] s.positions[j] = true) : i = j := by
  have hP := pairwise_dedupBy (closeB (24 * k) E) (done.map (fun g => img g k off x))
  rw [← hinv.pos, List.pairwise_iff_getElem] at hP
  rcases Nat.lt_trichotomy i j with hlt | heq | hgt
  · have := hP i j hi hj hlt
    rw [h] at this; cases this
  · exact heq
  · have := hP j i hj hi hgt
    obtain ⟨a, _, ea⟩ := hinv.mem_positions (List.getElem_mem hi)
    obtain ⟨b, _, eb⟩ := hinv.mem_positions (List.getElem_mem hj)
    rw [← ea, ← eb] at h this
    rw [close_symm hk h] at this; cases this

/-- … hence, under the gap hypothesis, farther apart than `2E` -/
theorem GInv.positions_far (hk : 0 < k) (hinv : GInv k E off x done s) {ops : List Op}
    (hgap : Gap ops k E off x) (hsub : ∀ g ∈ done, g ∈ ops) {i j : Nat}
    (hi : i < s.positions.length) (hj : j < s.positions.length) (hij : i ≠ j) :
    2 * E < boxDist (24 * k) s.positions[i] s.positions[j] := by
  obtain ⟨a, ha, ea⟩ := hinv.mem_positions (List.getElem_mem hi)
  obtain ⟨b, hb, eb⟩ := hinv.mem_positions (List.getElem_mem hj)
  have hnc : closeB (24 * k) E s.positions[i] s.positions[j] = false := by
    cases hc : closeB (24 * k) E s.positions[i] s.positions[j] with
    | false => rfl
    | true => exact absurd (hinv.index_unique hk hi hj hc) hij
  rw [← ea, ← eb] at hnc ⊢
  exact far_of_not_close hgap (hsub a ha) (hsub b hb) hnc

/-- at most one listed position is close to the image of an operation -/
theorem GInv.class_unique (hk : 0 < k) (hinv : GInv k E off x done s) {a : Op}
    (hgap : Gap (done ++ [a]) k E off x) {i j : Nat} {p q : P3}
    (hp : s.positions[i]? = some p) (hq : s.positions[j]? = some q)
    (hpa : closeB (24 * k) E p (img a k off x) = true)
    (hqa : closeB (24 * k) E q (img a k off x) = true) : i = j := by
  obtain ⟨hi, rfl⟩ := List.getElem?_eq_some_iff.1 hp
  obtain ⟨hj, rfl⟩ := List.getElem?_eq_some_iff.1 hq
  obtain ⟨b, hb, eb⟩ := hinv.mem_positions (List.getElem_mem hi)
  obtain ⟨c, hc, ec⟩ := hinv.mem_positions (List.getElem_mem hj)
  apply hinv.index_unique hk hi hj
  rw [← eb] at hpa
  rw [← ec] at hqa
  rw [← eb, ← ec]
  exact close_trans hk hgap (List.mem_append_left _ hb) (List.mem_append_left _ hc) hpa (close_symm hk hqa)

/-- the step that attributes the new operation to the existing class `i` (bucket hit, or a new
bucket aliased to a listed position): the invariant is preserved for any bucket table `km'` that
extends the old one by at most the bucket of the new image and sends that bucket to `i` -/
theorem ginv_attach (hk : 0 < k) (hinv : GInv k E off x done s) {a : Op}
    (hgap : Gap (done ++ [a]) k E off x) {i : Nat} {p : P3} {km' : List (P3 × Nat)}
    (hp : s.positions[i]? = some p) (hpa : closeB (24 * k) E p (img a k off x) = true)
    (hold : ∀ b j, lookupKey s.keymap b = some j → lookupKey km' b = some j)
    (hnew : ∀ b j, lookupKey km' b = some j → lookupKey s.keymap b = some j ∨ b = bucket E (img a k off x))
    (hia : lookupKey km' (bucket E (img a k off x)) = some i) :
    GInv k E off x (done ++ [a])
      { positions := s.positions, keymap := km', classes := addToClass s.classes i a } := by
  obtain ⟨hi, hpi⟩ := List.getElem?_eq_some_iff.1 hp
  refine ⟨?_, ?_, ?_, ?_⟩
  · show s.positions = _
    rw [List.map_append, List.map_singleton, dedupBy_append, if_pos, ← hinv.pos]
    obtain ⟨h, hh, eh⟩ := hinv.mem_positions (hpi ▸ List.getElem_mem hi)
    rw [List.any_eq_true]
    exact ⟨p, List.mem_map.2 ⟨h, hh, eh⟩, hpa⟩
  · intro b j hb
    rcases hnew b j hb with h | h
    · obtain ⟨g, hg, e⟩ := hinv.keys_sound b j h
      exact ⟨g, List.mem_append_left _ hg, e⟩
    · exact ⟨a, by simp, h.symm⟩
  · intro g hg
    rcases List.mem_append.1 hg with h | h
    · obtain ⟨j, q, h1, h2, h3⟩ := hinv.keys_complete g h
      exact ⟨j, q, h1, hold _ _ h2, h3⟩
    · simp only [List.mem_singleton] at h
      subst h
      exact ⟨i, p, hp, hia, hpa⟩
  · show addToClass s.classes i a = _
    rw [hinv.cls]
    apply classesBy_snoc_mem hi (by rw [hpi]; exact hpa)
    intro j hj hji
    cases hc : closeB (24 * k) E s.positions[j] (img a k off x) with
    | false => rfl
    | true =>
      exact absurd (hinv.class_unique hk hgap (List.getElem?_eq_getElem hj) hp hc hpa) hji

/-- no listed position is close to the new image ⇒ no image met so far is -/
theorem GInv.no_close_done (hk : 0 < k) (hinv : GInv k E off x done s) {a : Op}
    (hgap : Gap (done ++ [a]) k E off x)
    (hnone : ∀ p ∈ s.positions, closeB (24 * k) E p (img a k off x) = false) :
    ∀ g ∈ done, closeB (24 * k) E (img g k off x) (img a k off x) = false := by
  intro g hg
  cases hc : closeB (24 * k) E (img g k off x) (img a k off x) with
  | false => rfl
  | true =>
    obtain ⟨i, p, h1, _, h3⟩ := hinv.keys_complete g hg
    obtain ⟨hi, hpi⟩ := List.getElem?_eq_some_iff.1 h1
    have hpm : p ∈ s.positions := hpi ▸ List.getElem_mem hi
    obtain ⟨h, hh, eh⟩ := hinv.mem_positions hpm
    have := hnone p hpm
    rw [← eh] at this h3
    rw [close_trans hk hgap (List.mem_append_left _ hh) (by simp) h3 hc] at this
    cases this

/-- the step that opens a new class -/
theorem ginv_new (hk : 0 < k) (hE : 0 < E) (hinv : GInv k E off x done s) {a : Op}
    (hgap : Gap (done ++ [a]) k E off x)
    (hlook : lookupKey s.keymap (bucket E (img a k off x)) = none)
    (hnone : ∀ p ∈ s.positions, closeB (24 * k) E p (img a k off x) = false) :
    GInv k E off x (done ++ [a])
      { positions := s.positions ++ [img a k off x],
        keymap := s.keymap ++ [(bucket E (img a k off x), s.positions.length)],
        classes := s.classes ++ [[a]] } := by
  have hdone := hinv.no_close_done hk hgap hnone
  refine ⟨?_, ?_, ?_, ?_⟩
  · show s.positions ++ _ = _
    rw [List.map_append, List.map_singleton, dedupBy_append, if_neg, ← hinv.pos]
    rw [List.any_eq_true]
    rintro ⟨q, hq, hqa⟩
    obtain ⟨g, hg, rfl⟩ := List.mem_map.1 hq
    rw [hdone g hg] at hqa; cases hqa
  · intro b j hb
    simp only [lookupKey_append] at hb
    cases h : lookupKey s.keymap b with
    | some j' =>
      obtain ⟨g, hg, e⟩ := hinv.keys_sound b j' h
      exact ⟨g, List.mem_append_left _ hg, e⟩
    | none =>
      rw [h] at hb
      by_cases e : bucket E (img a k off x) = b
      · exact ⟨a, by simp, e⟩
      · simp [e] at hb
  · intro g hg
    rcases List.mem_append.1 hg with h | h
    · obtain ⟨j, q, h1, h2, h3⟩ := hinv.keys_complete g h
      obtain ⟨hj, _⟩ := List.getElem?_eq_some_iff.1 h1
      refine ⟨j, q, ?_, ?_, h3⟩
      · show (s.positions ++ _)[j]? = _
        rw [List.getElem?_append_left hj]; exact h1
      · show lookupKey (s.keymap ++ _) _ = _
        rw [lookupKey_append, h2]
    · simp only [List.mem_singleton] at h
      subst h
      refine ⟨s.positions.length, img g k off x, ?_, ?_, close_refl hk hE g⟩
      · show (s.positions ++ _)[_]? = _
        simp
      · show lookupKey (s.keymap ++ _) _ = _
        rw [lookupKey_append, hlook]; simp
  · show s.classes ++ [[a]] = _
    rw [hinv.cls]
    apply classesBy_snoc_new hnone
    · intro b hb
      have := hdone b hb
      rw [closeB_comm (img_inCell b hk off x) (img_inCell a hk off x)] at this
      exact this
    · exact close_refl hk hE a

/-- before the first operation nothing is registered -/
theorem GInv.empty_of_positions_nil (hinv : GInv k E off x done s) (h : s.positions = []) :
    done = [] ∧ s.keymap = [] ∧ s.classes = [] := by
  have hd : done = [] := by
    cases hdn : done with
    | nil => rfl
    | cons g gs =>
      obtain ⟨i, p, h1, _, _⟩ := hinv.keys_complete g (by rw [hdn]; exact List.mem_cons_self)
      rw [h] at h1; simp at h1
  refine ⟨hd, ?_, ?_⟩
  · cases hkm : s.keymap with
    | nil => rfl
    | cons e m =>
      obtain ⟨g, hg, _⟩ := hinv.keys_sound e.1 e.2 (by simp [lookupKey, hkm])
      rw [hd] at hg; cases hg
  · rw [hinv.cls, h]; rfl

/-- **one iteration of the literal loop preserves the invariant** (gap hypothesis on the operations
processed so far together with the new one) -/
theorem ginv_step (hk : 0 < k) (hE : 0 < E) {a : Op} (hinv : GInv k E off x done s)
    (hgap : Gap (done ++ [a]) k E off x) :
    GInv k E off x (done ++ [a]) (stepOp k E off x s a) := by
  cases hlook : lookupKey s.keymap (bucket E (img a k off x)) with
  | some i =>
    -- bucket hit: the registered image in that bucket is close to the new one
    have hstep : stepOp k E off x s a = { s with classes := addToClass s.classes i a } := by
      simp only [stepOp]; rw [hlook]
    rw [hstep]
    obtain ⟨g, hg, eg⟩ := hinv.keys_sound _ _ hlook
    obtain ⟨i', p, h1, h2, h3⟩ := hinv.keys_complete g hg
    rw [eg, hlook] at h2
    obtain rfl : i = i' := by simpa using h2
    obtain ⟨hi, hpi⟩ := List.getElem?_eq_some_iff.1 h1
    obtain ⟨h, hh, eh⟩ := hinv.mem_positions (hpi ▸ List.getElem_mem hi)
    have hga := close_of_bucket_eq hk hE hgap (List.mem_append_left _ hg) (by simp) eg
    have hpa : closeB (24 * k) E p (img a k off x) = true := by
      rw [← eh] at h3 ⊢
      exact close_trans hk hgap (List.mem_append_left _ hh) (by simp) h3 hga
    exact ginv_attach hk hinv hgap h1 hpa (fun _ _ h => h) (fun _ _ h => Or.inl h) hlook
  | none =>
    by_cases hempty : s.positions = []
    · -- very first operation
      obtain ⟨_, hkm, hcl⟩ := hinv.empty_of_positions_nil hempty
      have hstep : stepOp k E off x s a =
          { positions := s.positions ++ [img a k off x],
            keymap := s.keymap ++ [(bucket E (img a k off x), s.positions.length)],
            classes := s.classes ++ [[a]] } := by
        simp only [stepOp]; rw [hlook]
        simp [hempty, hkm, hcl]
      rw [hstep]
      exact ginv_new hk hE hinv hgap hlook (by rw [hempty]; intro p hp; cases hp)
    · have he : s.positions.isEmpty = false := by
        cases hs : s.positions with
        | nil => exact absurd hs hempty
        | cons _ _ => rfl
      have hj := nearestIdx_lt (24 * k) s.positions (img a k off x) hempty
      have hnear : s.positions.getD (nearestIdx (24 * k) s.positions (img a k off x)) (img a k off x)
          = s.positions[nearestIdx (24 * k) s.positions (img a k off x)] :=
        List.getD_eq_getElem (l := s.positions) (d := img a k off x) hj
      have hmin := nearestIdx_min (24 * k) s.positions (img a k off x)
      rw [hnear] at hmin
      by_cases hex : ∃ q ∈ s.positions, closeB (24 * k) E q (img a k off x) = true
      · -- a listed position of the class of the new image exists: the nearest one is in that class
        obtain ⟨q, hq, hqa⟩ := hex
        have hle := hmin q hq
        rw [closeB_iff] at hqa
        have hpa : closeB (24 * k) E s.positions[nearestIdx (24 * k) s.positions (img a k off x)]
            (img a k off x) = true := by rw [closeB_iff]; omega
        have hwithin : boxDist (24 * k) s.positions[nearestIdx (24 * k) s.positions (img a k off x)]
            (img a k off x) ≤ E := by omega
        -- the bucket of the nearest position is registered under its own index
        obtain ⟨h, hh, eh⟩ := hinv.mem_positions (List.getElem_mem hj)
        obtain ⟨i', p, h1, h2, h3⟩ := hinv.keys_complete h hh
        obtain ⟨hi', hpi'⟩ := List.getElem?_eq_some_iff.1 h1
        have hii : i' = nearestIdx (24 * k) s.positions (img a k off x) := by
          apply hinv.index_unique hk hi' hj
          rw [hpi', ← eh]; exact h3
        rw [eh, hii] at h2
        have hstep : stepOp k E off x s a =
            { positions := s.positions,
              keymap := s.keymap ++ [(bucket E (img a k off x), nearestIdx (24 * k) s.positions (img a k off x))],
              classes := addToClass s.classes (nearestIdx (24 * k) s.positions (img a k off x)) a } := by
          simp only [stepOp]; rw [hlook]
          simp only [he, Bool.false_eq_true, if_false, hnear, if_pos hwithin, h2]
        rw [hstep]
        refine ginv_attach hk hinv hgap (List.getElem?_eq_getElem hj) hpa ?_ ?_ ?_
        · intro b j hb; rw [lookupKey_append, hb]
        · intro b j hb
          rw [lookupKey_append] at hb
          cases hc : lookupKey s.keymap b with
          | some j' => rw [hc] at hb; exact Or.inl hb
          | none =>
            rw [hc] at hb
            by_cases e : bucket E (img a k off x) = b
            · exact Or.inr e.symm
            · simp [e] at hb
        · rw [lookupKey_append, hlook]; simp
      · -- no listed position of its class: every listed position is farther than `2E`
        have hnone : ∀ p ∈ s.positions, closeB (24 * k) E p (img a k off x) = false := by
          intro p hp
          cases hc : closeB (24 * k) E p (img a k off x) with
          | false => rfl
          | true => exact absurd ⟨p, hp, hc⟩ hex
        obtain ⟨h, hh, eh⟩ := hinv.mem_positions (List.getElem_mem hj)
        have hfar : ¬ boxDist (24 * k) s.positions[nearestIdx (24 * k) s.positions (img a k off x)]
            (img a k off x) ≤ E := by
          have := hnone _ (List.getElem_mem hj)
          rw [← eh] at this ⊢
          have := far_of_not_close hgap (List.mem_append_left _ hh) (by simp) this
          omega
        have hstep : stepOp k E off x s a =
            { positions := s.positions ++ [img a k off x],
              keymap := s.keymap ++ [(bucket E (img a k off x), s.positions.length)],
              classes := s.classes ++ [[a]] } := by
          simp only [stepOp]; rw [hlook]
          simp only [he, Bool.false_eq_true, if_false, hnear, if_neg hfar]
        rw [hstep]
        exact ginv_new hk hE hinv hgap hlook hnone

end step

theorem ginv_foldl {k E : Int} (hk : 0 < k) (hE : 0 < E) {off x : P3} :
    ∀ (rest done : List Op) (s : St), GInv k E off x done s → Gap (done ++ rest) k E off x →
      GInv k E off x (done ++ rest) (rest.foldl (stepOp k E off x) s)
  | [], done, s, h, _ => by simpa using h
  | a :: rest, done, s, h, hgap => by
    have hstep := ginv_step hk hE (a := a) h (hgap.mono (by
      intro b hb
      rcases List.mem_append.1 hb with h | h
      · exact List.mem_append_left _ h
      · simp only [List.mem_singleton] at h; subst h; simp))
    have := ginv_foldl hk hE rest (done ++ [a]) _ hstep (by simpa using hgap)
    simpa using this

theorem expand_ginv {k E : Int} (hk : 0 < k) (hE : 0 < E) {off x : P3} {ops : List Op}
    (hgap : Gap ops k E off x) : GInv k E off x ops (expand ops k E off x) := by
  have := ginv_foldl hk hE ops [] _ (ginv_init k E off x) (by simpa using hgap)
  simpa [expand] using this

/-! ### the result of `expandPosition` under the gap hypothesis -/

/-- class representatives: the first image (in table order) of every closeness class -/
def reps (ops : List Op) (k E : Int) (off x : P3) : List P3 :=
  dedupBy (closeB (24 * k) E) (ops.map (fun g => img g k off x))

/-- what `expandPosition` has to return for a site within tolerance of a special position:
the class representatives, for each of them the operations whose image is close to it, and the
number of classes -/
def gapSpec (ops : List Op) (k E : Int) (off x : P3) : List P3 × List (List Op) × Nat :=
  (reps ops k E off x,
   (reps ops k E off x).map (fun p => ops.filter (fun g => closeB (24 * k) E p (img g k off x))),
   (reps ops k E off x).length)

/-- **`expandPosition` on a site within tolerance of a special position** (literal algorithm):
positions = first image of every closeness class, operation lists = the classes, multiplicity =
number of classes. -/
theorem result_gap {k E : Int} (hk : 0 < k) (hE : 0 < E) {off x : P3} {ops : List Op}
    (hgap : Gap ops k E off x) : result ops k E off x = gapSpec ops k E off x := by
  have hinv := expand_ginv hk hE hgap
  set s := expand ops k E off x with hs
  have hpos : s.positions = reps ops k E off x := hinv.pos
  simp only [result, gapSpec, ← hs, ← hpos, Prod.mk.injEq, true_and, and_true]
  apply List.ext_getElem
  · simp
  · intro i h1 h2
    have hi : i < s.positions.length := by simpa using h1
    simp only [List.getElem_map]
    have hlook : lookupKey s.keymap (bucket E s.positions[i]) = some i := by
      obtain ⟨h, hh, eh⟩ := hinv.mem_positions (List.getElem_mem hi)
      obtain ⟨i', p, a1, a2, a3⟩ := hinv.keys_complete h hh
      obtain ⟨hi', hpi'⟩ := List.getElem?_eq_some_iff.1 a1
      have : i' = i := by
        apply hinv.index_unique hk hi' hi
        rw [hpi', ← eh]; exact a3
      rw [eh, this] at a2
      exact a2
    rw [hlook]
    simp only [hinv.cls, classesBy]
    rw [List.getD_eq_getElem
      (l := List.map (fun p => List.filter (fun g => closeB (24 * k) E p (img g k off x)) ops) s.positions)
      (d := ([] : List Op)) (by simpa using hi)]
    simp

/-- the representatives are images of operations of the table -/
theorem mem_reps {ops : List Op} {k E : Int} {off x : P3} {p : P3} (hp : p ∈ reps ops k E off x) :
    ∃ h ∈ ops, img h k off x = p :=
  List.mem_map.1 (mem_of_mem_dedupBy hp)

/-- the input site (reduced into the cell) is listed first when the identity is the first operation -/
theorem result_gap_head {k E : Int} (hk : 0 < k) (hE : 0 < E) {off x : P3} {ops : List Op}
    (hgap : Gap ops k E off x) (h1 : ops.head? = some Op.one) :
    (result ops k E off x).1.head? = some (red k x) := by
  rw [result_gap hk hE hgap]
  simp only [gapSpec, reps, head?_dedupBy]
  cases ops with
  | nil => simp at h1
  | cons a as =>
    simp only [List.head?_cons, Option.some.injEq] at h1
    subst h1
    simp [img_one]

/-- the listed positions are pairwise farther apart than `2E` -/
theorem result_gap_far {k E : Int} (hk : 0 < k) (hE : 0 < E) {off x : P3} {ops : List Op}
    (hgap : Gap ops k E off x) {i j : Nat} (hi : i < (result ops k E off x).1.length)
    (hj : j < (result ops k E off x).1.length) (hij : i ≠ j) :
    2 * E < boxDist (24 * k) (result ops k E off x).1[i] (result ops k E off x).1[j] :=
  (expand_ginv hk hE hgap).positions_far hk hgap (fun _ h => h) hi hj hij

/-- **every operation occurs in exactly one class**: the class of the listed position its image is
close to -/
theorem result_gap_attribution {k E : Int} (hk : 0 < k) (hE : 0 < E) {off x : P3} {ops : List Op}
    (hgap : Gap ops k E off x) (g : Op) (hg : g ∈ ops) :
    ∃ i, ∃ (hi : i < (result ops k E off x).1.length),
      closeB (24 * k) E (result ops k E off x).1[i] (img g k off x) = true ∧
      g ∈ (result ops k E off x).2.1.getD i [] ∧
      ∀ j (_ : j < (result ops k E off x).1.length), g ∈ (result ops k E off x).2.1.getD j [] → j = i := by
  have hinv := expand_ginv hk hE hgap
  have hpos : (expand ops k E off x).positions = reps ops k E off x := hinv.pos
  have hgap' : Gap (ops ++ [g]) k E off x := hgap.mono (by
    intro b hb
    rcases List.mem_append.1 hb with h | h
    · exact h
    · simp only [List.mem_singleton] at h; subst h; exact hg)
  obtain ⟨i, p, a1, _, a3⟩ := hinv.keys_complete g hg
  rw [result_gap hk hE hgap]
  rw [hpos] at a1
  obtain ⟨hi, hpi⟩ := List.getElem?_eq_some_iff.1 a1
  simp only [gapSpec]
  refine ⟨i, hi, by rw [hpi]; exact a3, ?_, ?_⟩
  · rw [List.getD_eq_getElem (l := (reps ops k E off x).map _) (d := ([] : List Op)) (by simpa using hi)]
    simp [hpi, hg, a3]
  · intro j hj hgj
    rw [List.getD_eq_getElem (l := (reps ops k E off x).map _) (d := ([] : List Op)) (by simpa using hj)] at hgj
    simp only [List.getElem_map, List.mem_filter] at hgj
    exact hinv.class_unique hk hgap' (by rw [hpos]; exact List.getElem?_eq_getElem hj)
      (by rw [hpos]; exact a1) hgj.2 a3

/-! ### agreement with the exact statement when the images are separated -/

/-- under `Sep` and `Gap` two images are close exactly when they are equal -/
theorem close_iff_eq_of_sep {k E : Int} (hk : 0 < k) (hE : 0 < E) {off x : P3} {ops : List Op}
    (hsep : Sep ops k E off x) {a b : Op} (ha : a ∈ ops) (hb : b ∈ ops) :
    closeB (24 * k) E (img a k off x) (img b k off x) = true ↔ img a k off x = img b k off x := by
  constructor
  · intro h
    rw [closeB_iff] at h
    have := boxDist_nonneg (img_inCell a hk off x) (img_inCell b hk off x)
    rcases hsep a ha b hb with e | far
    · exact e
    · omega
  · intro e
    rw [e]; exact close_refl hk hE b

/-- for separated images the gap specification *is* the exact specification of `result_exact` -/
theorem gapSpec_eq_exact {k E : Int} (hk : 0 < k) (hE : 0 < E) {off x : P3} {ops : List Op}
    (hsep : Sep ops k E off x) :
    gapSpec ops k E off x =
      (dedupFirst (ops.map (fun g => img g k off x)),
       (dedupFirst (ops.map (fun g => img g k off x))).map
          (fun p => ops.filter (fun g => decide (img g k off x = p))),
       (dedupFirst (ops.map (fun g => img g k off x))).length) := by
  have hreps : reps ops k E off x = dedupFirst (ops.map (fun g => img g k off x)) := by
    rw [dedupFirst_eq_dedupBy, reps]
    apply dedupBy_congr
    intro p hp q hq
    obtain ⟨a, ha, rfl⟩ := List.mem_map.1 hp
    obtain ⟨b, hb, rfl⟩ := List.mem_map.1 hq
    have := close_iff_eq_of_sep hk hE hsep ha hb
    by_cases e : img a k off x = img b k off x
    · rw [this.2 e]; simp [e]
    · have hc : closeB (24 * k) E (img a k off x) (img b k off x) = false := by
        cases hc : closeB (24 * k) E (img a k off x) (img b k off x) with
        | false => rfl
        | true => exact absurd (this.1 hc) e
      rw [hc]; simp [e]
  simp only [gapSpec, Prod.mk.injEq]
  refine ⟨hreps, ?_, by rw [hreps]⟩
  rw [← hreps]
  apply List.map_congr_left
  intro p hp
  obtain ⟨h, hh, rfl⟩ := mem_reps hp
  apply List.filter_congr
  intro g hg
  have := close_iff_eq_of_sep hk hE hsep hh hg
  by_cases e : img h k off x = img g k off x
  · rw [this.2 e]; simp [e]
  · have hc : closeB (24 * k) E (img h k off x) (img g k off x) = false := by
      cases hc : closeB (24 * k) E (img h k off x) (img g k off x) with
      | false => rfl
      | true => exact absurd (this.1 hc) e
    have e' : ¬ img g k off x = img h k off x := fun e'' => e e''.symm
    rw [hc]; simp [e']

/-- `result_gap` specialises to `result_exact` when both hypotheses hold -/
theorem result_gap_sep {k E : Int} (hk : 0 < k) (hE : 0 < E) {off x : P3} {ops : List Op}
    (hgap : Gap ops k E off x) (hsep : Sep ops k E off x) :
    result ops k E off x =
      (dedupFirst (ops.map (fun g => img g k off x)),
       (dedupFirst (ops.map (fun g => img g k off x))).map
          (fun p => ops.filter (fun g => decide (img g k off x = p))),
       (dedupFirst (ops.map (fun g => img g k off x))).length) := by
  rw [result_gap hk hE hgap, gapSpec_eq_exact hk hE hsep]

/-! ### a perturbed special site has the classes of the exact site -/

/-- `x` is a perturbation of `x0`: every image of `x` is within `E/8` of the same image of `x0` -/
def Near (ops : List Op) (k E : Int) (off x x0 : P3) : Prop :=
  ∀ g ∈ ops, boxDist (24 * k) (img g k off x) (img g k off x0) * 8 ≤ E

instance (ops : List Op) (k E : Int) (off x x0 : P3) : Decidable (Near ops k E off x x0) := by
  unfold Near; infer_instance

theorem Sep.weaken {ops : List Op} {k E E' : Int} {off x : P3} (h : Sep ops k E' off x) (hle : E ≤ E') :
    Sep ops k E off x := by
  intro a ha b hb
  rcases h a ha b hb with e | far
  · exact Or.inl e
  · exact Or.inr (by omega)

section perturbed
variable {k E : Int} {off x x0 : P3} {ops : List Op}

/-- **the small lemma**: the images of the perturbed site are close exactly when the images of the
exactly special site are equal -/
theorem close_iff_eq_of_near (hk : 0 < k) (hE : 0 < E) (hsep : Sep ops k E off x0)
    (hnear : Near ops k E off x x0) {a b : Op} (ha : a ∈ ops) (hb : b ∈ ops) :
    closeB (24 * k) E (img a k off x) (img b k off x) = true ↔ img a k off x0 = img b k off x0 := by
  have ca := img_inCell a hk off x
  have cb := img_inCell b hk off x
  have ca0 := img_inCell a hk off x0
  have cb0 := img_inCell b hk off x0
  have na := hnear a ha
  have nb := hnear b hb
  rw [closeB_iff]
  constructor
  · intro h
    have t1 := boxDist_triangle ca0 ca cb0
    have t2 := boxDist_triangle ca cb cb0
    rw [boxDist_comm ca ca0] at na
    rcases hsep a ha b hb with e | far
    · exact e
    · omega
  · intro e
    have t1 := boxDist_triangle ca ca0 cb
    rw [e] at t1 na
    rw [boxDist_comm cb cb0] at nb
    omega

/-- when the distinct images of the special site are farther apart than `3E`, every perturbation
within `E/8` satisfies the gap hypothesis -/
theorem gap_of_near (hk : 0 < k) (hE : 0 < E) (hsep : Sep ops k (3 * E) off x0)
    (hnear : Near ops k E off x x0) : Gap ops k E off x := by
  intro a ha b hb
  have ca := img_inCell a hk off x
  have cb := img_inCell b hk off x
  have ca0 := img_inCell a hk off x0
  have cb0 := img_inCell b hk off x0
  have na := hnear a ha
  have nb := hnear b hb
  rcases hsep a ha b hb with e | far
  · left
    have t1 := boxDist_triangle ca ca0 cb
    rw [e] at t1 na
    rw [boxDist_comm cb cb0] at nb
    omega
  · right
    have t1 := boxDist_triangle ca0 ca cb0
    have t2 := boxDist_triangle ca cb cb0
    rw [boxDist_comm ca ca0] at na
    omega

/-- operations generating the first occurrence of each distinct image of `x0` -/
def opReps (ops : List Op) (k : Int) (off x0 : P3) : List Op :=
  dedupBy (fun a b => img a k off x0 == img b k off x0) ops

theorem opReps_sub {h : Op} (hh : h ∈ opReps ops k off x0) : h ∈ ops := mem_of_mem_dedupBy hh

theorem dedupFirst_eq_opReps (ops : List Op) (k : Int) (off x0 : P3) :
    dedupFirst (ops.map (fun g => img g k off x0)) = (opReps ops k off x0).map (fun g => img g k off x0) := by
  rw [dedupFirst_eq_dedupBy, dedupBy_map]; rfl

theorem reps_eq_opReps (hk : 0 < k) (hE : 0 < E) (hsep : Sep ops k E off x0)
    (hnear : Near ops k E off x x0) :
    reps ops k E off x = (opReps ops k off x0).map (fun g => img g k off x) := by
  rw [reps, dedupBy_map, opReps]
  congr 1
  apply dedupBy_congr
  intro a ha b hb
  have := close_iff_eq_of_near hk hE hsep hnear ha hb
  by_cases e : img a k off x0 = img b k off x0
  · rw [this.2 e]; simp [e]
  · have hc : closeB (24 * k) E (img a k off x) (img b k off x) = false := by
      cases hc : closeB (24 * k) E (img a k off x) (img b k off x) with
      | false => rfl
      | true => exact absurd (this.1 hc) e
    rw [hc]; simp [e]

/-- the fibres of the exact site, listed by `opReps` -/
def fibres (ops : List Op) (k : Int) (off x0 : P3) : List (List Op) :=
  (opReps ops k off x0).map (fun h => ops.filter (fun g => decide (img g k off x0 = img h k off x0)))

/-- `expandPosition` on the exactly special site, in terms of `opReps` -/
theorem result_exact_opReps (hk : 0 < k) (hE : 0 < E) (hsep : Sep ops k E off x0) :
    result ops k E off x0 =
      ((opReps ops k off x0).map (fun g => img g k off x0), fibres ops k off x0,
       (opReps ops k off x0).length) := by
  rw [result_exact hk hE hsep, dedupFirst_eq_opReps]
  simp only [fibres, List.map_map, List.length_map, Function.comp_def]

/-- `expandPosition` on the perturbed site: the representatives are the images of the same
operations, the classes are the fibres of the exact site -/
theorem result_near_opReps (hk : 0 < k) (hE : 0 < E) (hsep : Sep ops k E off x0)
    (hgap : Gap ops k E off x) (hnear : Near ops k E off x x0) :
    result ops k E off x =
      ((opReps ops k off x0).map (fun g => img g k off x), fibres ops k off x0,
       (opReps ops k off x0).length) := by
  rw [result_gap hk hE hgap]
  simp only [gapSpec, reps_eq_opReps hk hE hsep hnear, fibres, List.map_map, List.length_map,
    Prod.mk.injEq, true_and, and_true]
  apply List.map_congr_left
  intro h hh
  simp only [Function.comp_def]
  apply List.filter_congr
  intro g hg
  have := close_iff_eq_of_near hk hE hsep hnear (opReps_sub hh) hg
  by_cases e : img h k off x0 = img g k off x0
  · rw [this.2 e]; simp [e]
  · have hc : closeB (24 * k) E (img h k off x) (img g k off x) = false := by
      cases hc : closeB (24 * k) E (img h k off x) (img g k off x) with
      | false => rfl
      | true => exact absurd (this.1 hc) e
    have e' : ¬ img g k off x0 = img h k off x0 := fun e'' => e e''.symm
    rw [hc]; simp [e']

/-- every fibre of the exact site has the size of the stabiliser, and
multiplicity × fibre size = group order -/
theorem fibres_count (hG : IsGroup ops) (cl : List Op) (hcl : cl ∈ fibres ops k off x0) :
    (opReps ops k off x0).length * cl.length = ops.length := by
  simp only [fibres, List.mem_map] at hcl
  obtain ⟨h, hh, rfl⟩ := hcl
  have h1 := orbit_stabiliser hG k off x0
  rw [dedupFirst_eq_opReps, List.length_map, ← fibre_count hG k off x0 (opReps_sub hh)] at h1
  rw [← List.countP_eq_length_filter]
  exact h1

end perturbed

end Orbit
end DS
