import DS.Model.Formats
import DS.Lemmas.Dec
import DS.Lemmas.Formats
import DS.Lemmas.FormatsX
import DS.Lemmas.FormatsC

/-!
# Second round trip for CIF and XCFG

The reader's result has its own type (`CifRead`, `XcfgRead`), so the second trip needs the document
the writer sees for the re-read structure: `reloadCif`, `reloadXcfg` (ADP semantics of a lattice with
orthogonal axes: an isotropic atom has `U = Uiso·I`, the equivalent isotropic value of an anisotropic
atom is the mean of the diagonal).  `idem_f`: under the explicit stability predicate `stable_f`, the
second read is the first read; `repr_f` is closed under the trip.
-/
namespace DS.Formats
open DS.Dec

/-! ## CIF -/

/-- the nine components (row-major) of the symmetric tensor `U11 U22 U33 U12 U13 U23` -/
def sym9 (us : List Rat) : List Rat :=
  [us.getD 0 0, us.getD 3 0, us.getD 4 0, us.getD 3 0, us.getD 1 0, us.getD 5 0, us.getD 4 0, us.getD 5 0, us.getD 2 0]

def diag9 (x : Rat) : List Rat := [x, 0, 0, 0, x, 0, 0, 0, x]

/-- the atom `P_cif.toLines` sees for a re-read atom -/
def reloadCifAtom (a : CifRAtom) : CifAtom :=
  match a.u with
  | some us => ⟨a.el, a.xyz, (us.getD 0 0 + us.getD 1 0 + us.getD 2 0) / 3, a.occ, sym9 us⟩
  | none => ⟨a.el, a.xyz, a.uiso, a.occ, diag9 a.uiso⟩

/-- the document of the re-read structure (the CIF reader sets no title) -/
def reloadCif (r : CifRead) : CifS := ⟨[], r.cell, r.atoms.map reloadCifAtom⟩

/-- the six values of an atom's tensor that the anisotropic loop carries, rounded as printed -/
def six6 (a : CifAtom) : List Rat := [0, 4, 8, 1, 2, 5].map (fun k => roundTo 6 (a.u.getD k 0))

/-- stability of the printed classification under the trip (each clause excludes a real, small drift):
element symbols already in the reader's normal form (otherwise the site labels are renumbered:
`NA`,`Na` → `NA1`,`Na1` → `Na1`,`Na2`); an anisotropic tensor is still anisotropic after rounding to
six decimals (otherwise the ADP type switches, `cif:drift:adp-switch`); the equivalent isotropic value
recomputed from the rounded diagonal prints as before -/
def stableCif (d : CifS) : Bool :=
  d.atoms.all (fun a => capitalize a.el == a.el) &&
  d.atoms.all (fun a => uIsIso a.u ||
    (!uIsIso (sym9 (six6 a)) &&
     roundTo 6 (((six6 a).getD 0 0 + (six6 a).getD 1 0 + (six6 a).getD 2 0) / 3) == roundTo 6 a.uiso))

theorem uIsIso_diag9 (x : Rat) : uIsIso (diag9 x) = true := by simp [uIsIso, diag9]

/-! ### `cifElemOk` is kept by the reader's normalisation of the symbol -/

theorem isLetterA_toUpperA (c : Char) : isLetterA (toUpperA c) = isLetterA c := by
  have h := toUpperA_toNat c
  by_cases hl : isLowerA c = true
  · rw [if_pos hl] at h
    simp only [isLetterA, isUpperA, isLowerA, h] at hl ⊢
    simp only [Bool.and_eq_true, decide_eq_true_eq] at hl
    have e1 : (decide (65 ≤ c.toNat - 32) && decide (c.toNat - 32 ≤ 90)) = true := by
      simp only [Bool.and_eq_true, decide_eq_true_eq]; omega
    have e2 : (decide (97 ≤ c.toNat) && decide (c.toNat ≤ 122)) = true := by
      simp only [Bool.and_eq_true, decide_eq_true_eq]; omega
    rw [e1, e2]; simp
  · have : toUpperA c = c := by unfold toUpperA; rw [if_neg hl]
    rw [this]

theorem isLetterA_toLowerA (c : Char) : isLetterA (toLowerA c) = isLetterA c := by
  have h := toLowerA_toNat c
  by_cases hl : isUpperA c = true
  · rw [if_pos hl] at h
    simp only [isLetterA, isUpperA, isLowerA, h] at hl ⊢
    simp only [Bool.and_eq_true, decide_eq_true_eq] at hl
    have e1 : (decide (97 ≤ c.toNat + 32) && decide (c.toNat + 32 ≤ 122)) = true := by
      simp only [Bool.and_eq_true, decide_eq_true_eq]; omega
    have e2 : (decide (65 ≤ c.toNat) && decide (c.toNat ≤ 90)) = true := by
      simp only [Bool.and_eq_true, decide_eq_true_eq]; omega
    rw [e1, e2]; simp
  · have : toLowerA c = c := by unfold toLowerA; rw [if_neg hl]
    rw [this]

theorem toLowerA_nonletter {c : Char} (h : isLetterA c = false) : toLowerA c = c := by
  unfold toLowerA
  rw [if_neg]
  intro hu
  simp [isLetterA, hu] at h

/-- `cifElemOk` in constructive form: letters followed by nothing or by a digit and a sign -/
theorem cifElemOk_iff (e : Str) : cifElemOk e = true ↔
    ∃ L R, e = L ++ R ∧ L ≠ [] ∧ (∀ c ∈ L, isLetterA c = true) ∧
      (R = [] ∨ ∃ dg sg, R = [dg, sg] ∧ isDigit dg = true ∧ (sg = '+' ∨ sg = '-')) := by
  constructor
  · intro h
    unfold cifElemOk at h
    simp only [Bool.and_eq_true, Bool.not_eq_true', Bool.or_eq_true] at h
    obtain ⟨hl, hr⟩ := h
    refine ⟨e.takeWhile (fun c => isUpperA c || isLowerA c), e.dropWhile (fun c => isUpperA c || isLowerA c),
      (List.takeWhile_append_dropWhile).symm, ?_, ?_, ?_⟩
    · intro h0; rw [h0] at hl; simp at hl
    · intro c hc; exact takeWhile_all _ _ c hc
    · rcases hr with hr | hr
      · left; simpa using hr
      · right
        split at hr
        · rename_i dg sg heq
          simp only [Bool.and_eq_true, Bool.or_eq_true, beq_iff_eq] at hr
          exact ⟨dg, sg, heq, hr.1, hr.2⟩
        · cases hr
  · rintro ⟨L, R, rfl, hL, hLall, hR⟩
    have hhead : ∀ c ∈ R.head?, (fun c => isUpperA c || isLowerA c) c = false := by
      intro c hc
      rcases hR with rfl | ⟨dg, sg, rfl, hdg, _⟩
      · cases hc
      · simp only [List.head?_cons, Option.mem_def, Option.some.injEq] at hc
        subst hc
        simp only [isDigit, Bool.and_eq_true, decide_eq_true_eq] at hdg
        simp only [isUpperA, isLowerA, Bool.or_eq_false_iff, Bool.and_eq_false_iff, decide_eq_false_iff_not]
        omega
    obtain ⟨e1, e2⟩ := takeWhile_append_stop (fun c => isUpperA c || isLowerA c) L R hLall hhead
    unfold cifElemOk
    simp only [e1, e2]
    rcases hR with rfl | ⟨dg, sg, rfl, hdg, hsg⟩
    · simp [isEmpty_false_of_ne hL]
    · rcases hsg with rfl | rfl <;> simp [isEmpty_false_of_ne hL, hdg]

theorem cifElemOk_capitalize {e : Str} (h : cifElemOk e = true) : cifElemOk (capitalize e) = true := by
  obtain ⟨L, R, rfl, hL, hLall, hR⟩ := (cifElemOk_iff e).1 h
  apply (cifElemOk_iff _).2
  cases L with
  | nil => exact absurd rfl hL
  | cons c L =>
    have hRl : lower R = R := by
      rcases hR with rfl | ⟨dg, sg, rfl, hdg, hsg⟩
      · rfl
      · have h1 : isLetterA dg = false := by
          simp only [isDigit, Bool.and_eq_true, decide_eq_true_eq] at hdg
          simp only [isLetterA, isUpperA, isLowerA, Bool.or_eq_false_iff, Bool.and_eq_false_iff, decide_eq_false_iff_not]
          omega
        have h2 : isLetterA sg = false := by rcases hsg with rfl | rfl <;> decide
        simp [lower, toLowerA_nonletter h1, toLowerA_nonletter h2]
    refine ⟨toUpperA c :: lower L, R, ?_, by simp, ?_, hR⟩
    · simp only [List.cons_append, capitalize, lower, List.map_append]
      rw [show List.map toLowerA R = lower R from rfl, hRl]
    · intro x hx
      rcases List.mem_cons.1 hx with rfl | hx
      · rw [isLetterA_toUpperA]; exact hLall c (by simp)
      · obtain ⟨y, hy, rfl⟩ := List.mem_map.1 hx
        rw [isLetterA_toLowerA]; exact hLall y (by simp [hy])

/-! ### closure and fixed point -/

theorem reloadCifAtom_quant (p : Str × CifAtom) :
    reloadCifAtom (quantCifAtom p) =
      if uIsIso p.2.u then ⟨capitalize p.2.el, p.2.xyz.map (roundTo 6), roundTo 6 p.2.uiso, roundTo 4 p.2.occ,
        diag9 (roundTo 6 p.2.uiso)⟩
      else ⟨capitalize p.2.el, p.2.xyz.map (roundTo 6),
        ((six6 p.2).getD 0 0 + (six6 p.2).getD 1 0 + (six6 p.2).getD 2 0) / 3, roundTo 4 p.2.occ, sym9 (six6 p.2)⟩ := by
  cases h : uIsIso p.2.u <;> simp [reloadCifAtom, quantCifAtom, h, six6]

theorem length_sym9 (us : List Rat) : (sym9 us).length = 9 := rfl
theorem length_diag9 (x : Rat) : (diag9 x).length = 9 := rfl

/-- what was read can be written and read again: the range is closed under the trip -/
theorem reprCif_reload (d : CifS) (h : reprCif d = true) : reprCif (reloadCif (quantCif d)) = true := by
  simp only [reprCif, rangeCif, defectCif, Bool.and_eq_true, Bool.not_eq_true', List.all_eq_true, beq_iff_eq] at h ⊢
  obtain ⟨hall, hne⟩ := h
  have hlen : (cifLabels [] (d.atoms.map (·.el))).length = d.atoms.length := by rw [cifLabels_length, List.length_map]
  constructor
  · intro a ha
    rw [quantCif_eq] at ha
    simp only [reloadCif, List.map_map, List.mem_map, Function.comp] at ha
    obtain ⟨p, hp, rfl⟩ := ha
    have hp2 : p.2 ∈ d.atoms := (List.of_mem_zip hp).2
    rw [reloadCifAtom_quant]
    split
    · exact ⟨cifElemOk_capitalize (hall p.2 hp2).1, rfl⟩
    · exact ⟨cifElemOk_capitalize (hall p.2 hp2).1, rfl⟩
  · rw [quantCif_eq]
    cases hd : d.atoms with
    | nil => rw [hd] at hne; simp at hne
    | cons a as => simp [reloadCif, cifLA, hd, cifLabels_cons]

theorem zip_map_zip {α β γ} (g : α × β → γ) : ∀ (l : List α) (as : List β),
    l.zip ((l.zip as).map g) = (l.zip as).map (fun p => (p.1, g p)) := by
  intro l
  induction l with
  | nil => intro as; rfl
  | cons x l ih =>
    intro as
    cases as with
    | nil => rfl
    | cons a as => simp [ih as]

theorem map_snd_zip_of_length {α β} (l : List α) (as : List β) (h : l.length = as.length) : (l.zip as).map (·.2) = as := by
  exact List.map_snd_zip (Nat.le_of_eq h.symm)

/-- the atom read on the second trip is the atom read on the first -/
theorem quantCifAtom_reload (p : Str × CifAtom)
    (hs : (uIsIso p.2.u ||
      (!uIsIso (sym9 (six6 p.2)) &&
       roundTo 6 (((six6 p.2).getD 0 0 + (six6 p.2).getD 1 0 + (six6 p.2).getD 2 0) / 3) == roundTo 6 p.2.uiso)) = true) :
    quantCifAtom (p.1, reloadCifAtom (quantCifAtom p)) = quantCifAtom p := by
  rw [reloadCifAtom_quant]
  cases hiso : uIsIso p.2.u with
  | true =>
    simp [quantCifAtom, hiso, uIsIso_diag9, capitalize_idem, V3.map, roundTo_idem]
  | false =>
    simp only [hiso, Bool.false_or, Bool.and_eq_true, Bool.not_eq_true', beq_iff_eq] at hs
    obtain ⟨h4, h3⟩ := hs
    simp only [quantCifAtom, Bool.false_eq_true, if_false, h4, h3, capitalize_idem, V3.map, roundTo_idem, hiso, Bool.not_false,
      if_true]
    simp [sym9, six6, roundTo_idem]

/-- second trip for CIF: writing the re-read structure and reading it again gives the first reading,
for every representable document that is stable in the sense of `stableCif` -/
theorem idem_cif (d : CifS) (h : reprCif d = true) (hs : stableCif d = true) :
    parseCif (ofText (toText (writeCif (reloadCif (quantCif d))))) = .ok (quantCif d) := by
  rw [roundtrip_cif _ (reprCif_reload d h)]
  congr 1
  simp only [stableCif, Bool.and_eq_true, List.all_eq_true, beq_iff_eq] at hs
  obtain ⟨h1, h34⟩ := hs
  have hlen : (cifLabels [] (d.atoms.map (·.el))).length = d.atoms.length := by rw [cifLabels_length, List.length_map]
  -- elements and labels of the reloaded document
  have hels : (reloadCif (quantCif d)).atoms.map (·.el) = d.atoms.map (·.el) := by
    rw [quantCif_eq]
    simp only [reloadCif, List.map_map]
    have : ∀ p ∈ cifLA d, ((fun x => x.el) ∘ reloadCifAtom ∘ quantCifAtom) p = p.2.el := by
      intro p hp
      have hp2 : p.2 ∈ d.atoms := (List.of_mem_zip hp).2
      simp only [Function.comp, reloadCifAtom_quant]
      split <;> exact h1 p.2 hp2
    rw [List.map_congr_left this]
    have e : List.map (fun a : Str × CifAtom => a.2.el) (cifLA d) = List.map (fun x => x.el) (List.map (fun x => x.2) (cifLA d)) := by
      rw [List.map_map]; rfl
    rw [e, show List.map (fun x => x.2) (cifLA d) = d.atoms from map_snd_zip_of_length _ _ hlen]
  have hLA : cifLA (reloadCif (quantCif d)) = (cifLA d).map (fun p => (p.1, reloadCifAtom (quantCifAtom p))) := by
    unfold cifLA
    rw [hels]
    conv_lhs => rw [quantCif_eq]
    simp only [reloadCif, List.map_map]
    exact zip_map_zip (reloadCifAtom ∘ quantCifAtom) _ _
  rw [quantCif_eq (reloadCif (quantCif d)), hLA, quantCif_eq d]
  congr 1
  · simp [reloadCif, Cell6.map, roundSig_idem]
  · rw [List.map_map]
    apply List.map_congr_left
    intro p hp
    exact quantCifAtom_reload p (h34 p.2 (List.of_mem_zip hp).2)

/-! ## XCFG -/

def nOcc : Str := ['o', 'c', 'c', 'u', 'p', 'a', 'n', 'c', 'y']
def nUiso : Str := ['U', 'i', 's', 'o']
def nU11 : Str := ['U', '1', '1']
def nU22 : Str := ['U', '2', '2']
def nU33 : Str := ['U', '3', '3']
def nU12 : Str := ['U', '1', '2']
def nU13 : Str := ['U', '1', '3']
def nU23 : Str := ['U', '2', '3']

/-- `getattr(a, name)` after `_assign_auxiliaries`: the value read for the first column with that name -/
def auxVal (a : XRead) (nm : Str) : Option Rat := (a.aux.find? (fun p => p.1 == nm)).map (·.2)

/-- the displacement tensor of a re-read atom (`Uiso` → `U = Uiso·I`; `U11 …` set the symmetric components) -/
def reloadU (a : XRead) : List Rat :=
  match auxVal a nUiso with
  | some x => diag9 x
  | none =>
    match auxVal a nU11 with
    | some _ =>
      sym9 [(auxVal a nU11).getD 0, (auxVal a nU22).getD 0, (auxVal a nU33).getD 0,
            (auxVal a nU12).getD 0, (auxVal a nU13).getD 0, (auxVal a nU23).getD 0]
    | none => List.replicate 9 0

/-- the atom `P_xcfg.toLines` sees for a re-read atom (`mass`: the `AtomicMass` table) -/
def reloadXAtom (mass : Str → Rat) (a : XRead) : XAtom :=
  ⟨a.el, mass a.el, a.xyz, (auxVal a nOcc).getD 1, reloadU a, a.v,
   (a.aux.filter (fun p => !isDerivedAux p.1)).map (·.2)⟩

/-- the document of the re-read structure; `unit`: whether its cell passes the unit-cell test, `mass`: the
`AtomicMass` table (both outside the text model) -/
def reloadXcfg (unit : Bool) (mass : Str → Rat) (r : XcfgRead) : XcfgS :=
  ⟨r.base, unit, (match r.atoms with | a :: _ => a.aux.map (·.1) | [] => []), r.atoms.map (reloadXAtom mass)⟩

/-- the names of the displacement columns, with the literals as character lists -/
def uNames' (L : XLayout) : List Str :=
  if L.uMode = 0 then [] else if L.uMode = 1 then [nUiso]
  else [nU11, nU22, nU33] ++ (if L.u12 then [nU12] else []) ++ (if L.u13 then [nU13] else []) ++ (if L.u23 then [nU23] else [])

theorem uNamesOf_eq (L : XLayout) : uNamesOf L = uNames' L := by
  unfold uNamesOf uNames'
  rw [lUiso, lU11, lU22, lU33, lU12, lU13, lU23]
  rfl

/-- lookup in columns: the leading columns whose names differ are skipped -/
theorem find?_zip_skip (S T : List Str) (vs vt : List Rat) (nm : Str) (hlen : S.length = vs.length)
    (hS : ∀ n ∈ S, n ≠ nm) :
    ((S ++ T).zip (vs ++ vt)).find? (fun p => p.1 == nm) = (T.zip vt).find? (fun p => p.1 == nm) := by
  rw [List.zip_append hlen, List.find?_append]
  have : (S.zip vs).find? (fun p => p.1 == nm) = none := by
    rw [List.find?_eq_none]
    intro p hp
    simpa using hS p.1 (List.of_mem_zip hp).1
  rw [this]; rfl

theorem derived_names : isDerivedAux nOcc = true ∧ isDerivedAux nUiso = true ∧ isDerivedAux nU11 = true ∧
    isDerivedAux nU22 = true ∧ isDerivedAux nU33 = true ∧ isDerivedAux nU12 = true ∧ isDerivedAux nU13 = true ∧
    isDerivedAux nU23 = true := by decide

/-- the derived columns of a layout and the numbers read from them -/
def derivedNames (L : XLayout) : List Str := (if L.occ then [nOcc] else []) ++ uNames' L
def derivedVals (L : XLayout) (a : XAtom) : List Rat := ((if L.occ then [a.occ] else []) ++ usOf L a).map (roundSig 8)

/-- shape of the auxiliary list of a layout: stored non-derived names, then the derived columns -/
structure AuxShape (L : XLayout) (S : List Str) : Prop where
  aux : L.aux = S ++ derivedNames L
  stored : ∀ n ∈ S, isDerivedAux n = false

theorem layout_auxShape (d : XcfgS) : AuxShape (xcfgLayout d) (storedOf d) := by
  refine ⟨?_, ?_⟩
  · rw [layout_aux, uNamesOf_eq, lOcc, List.append_assoc]; rfl
  · intro n hn
    have := (List.mem_filter.1 hn).2
    simpa using this

theorem xreadOf_aux (L : XLayout) (S : List Str) (hL : AuxShape L S) (aq : Rat) (a : XAtom) :
    (xreadOf L aq a).aux = (S ++ derivedNames L).zip (a.aux.map (roundSig 8) ++ derivedVals L a) := by
  simp only [xreadOf, hL.aux, derivedVals, List.map_append, List.append_assoc]

theorem ne_of_derived {S : List Str} (hS : ∀ n ∈ S, isDerivedAux n = false) {nm : Str} (h : isDerivedAux nm = true) :
    ∀ n ∈ S, n ≠ nm := by
  intro n hn e; subst e; rw [hS n hn] at h; cases h

theorem auxVal_xreadOf (L : XLayout) (S : List Str) (hL : AuxShape L S) (aq : Rat) (a : XAtom) (hlen : a.aux.length = S.length)
    (nm : Str) (hnm : isDerivedAux nm = true) :
    auxVal (xreadOf L aq a) nm = (((derivedNames L).zip (derivedVals L a)).find? (fun p => p.1 == nm)).map (·.2) := by
  unfold auxVal
  rw [xreadOf_aux L S hL, find?_zip_skip _ _ _ _ nm (by simp [hlen]) (ne_of_derived hL.stored hnm)]

theorem derivedNames_derived (L : XLayout) : ∀ n ∈ derivedNames L, isDerivedAux n = true := by
  have hall : ∀ n ∈ [nOcc, nUiso, nU11, nU22, nU33, nU12, nU13, nU23], isDerivedAux n = true := by decide
  intro n hn
  apply hall
  unfold derivedNames uNames' at hn
  rcases List.mem_append.1 hn with hn | hn
  · split at hn
    · simp only [List.mem_singleton] at hn; simp [hn]
    · cases hn
  · split at hn
    · cases hn
    · split at hn
      · simp only [List.mem_singleton] at hn; simp [hn]
      · cases L.u12 <;> cases L.u13 <;> cases L.u23 <;> simp at hn ⊢ <;> tauto

/-- the stored (non-derived) values of a re-read atom are the printed ones -/
theorem reload_aux (L : XLayout) (S : List Str) (hL : AuxShape L S) (aq : Rat) (a : XAtom) (hlen : a.aux.length = S.length) :
    (((xreadOf L aq a).aux.filter (fun p => !isDerivedAux p.1)).map (·.2)) = a.aux.map (roundSig 8) := by
  have hd : ∀ n ∈ derivedNames L, isDerivedAux n = true := derivedNames_derived L
  rw [xreadOf_aux L S hL, List.zip_append (by simp [hlen]), List.filter_append, List.map_append]
  have h1 : (S.zip (a.aux.map (roundSig 8))).filter (fun p => !isDerivedAux p.1) = S.zip (a.aux.map (roundSig 8)) := by
    apply List.filter_eq_self.2
    intro p hp
    simp [hL.stored p.1 (List.of_mem_zip hp).1]
  have h2 : ((derivedNames L).zip (derivedVals L a)).filter (fun p => !isDerivedAux p.1) = [] := by
    apply List.filter_eq_nil_iff.2
    intro p hp
    simp [hd p.1 (List.of_mem_zip hp).1]
  rw [h1, h2, List.map_nil, List.append_nil]
  exact List.map_snd_zip (by simp [hlen])

/-- value read from a derived column -/
def lk (L : XLayout) (a : XAtom) (nm : Str) : Option Rat :=
  (((derivedNames L).zip (derivedVals L a)).find? (fun p => p.1 == nm)).map (·.2)

theorem lk_occ (L : XLayout) (a : XAtom) (h : L.occ = true) : lk L a nOcc = some (roundSig 8 a.occ) := by
  simp [lk, derivedNames, derivedVals, h]

theorem lk_u0 (L : XLayout) (a : XAtom) (h : L.uMode = 0) (nm : Str) (hnm : (nOcc == nm) = false) : lk L a nm = none := by
  cases ho : L.occ <;> simp [lk, derivedNames, derivedVals, uNames', usOf, h, ho, hnm]

theorem lk_u1 (L : XLayout) (a : XAtom) (h : L.uMode = 1) :
    lk L a nUiso = some (roundSig 8 (a.u.getD 0 0)) := by
  have e : (nOcc == nUiso) = false := by decide
  cases ho : L.occ <;> simp [lk, derivedNames, derivedVals, uNames', usOf, h, ho, e]

theorem lk_u2 (L : XLayout) (a : XAtom) (h0 : ¬ L.uMode = 0) (h1 : ¬ L.uMode = 1) :
    lk L a nUiso = none ∧ lk L a nU11 = some (roundSig 8 (a.u.getD 0 0)) ∧ lk L a nU22 = some (roundSig 8 (a.u.getD 4 0)) ∧
    lk L a nU33 = some (roundSig 8 (a.u.getD 8 0)) ∧
    lk L a nU12 = (if L.u12 then some (roundSig 8 (a.u.getD 1 0)) else none) ∧
    lk L a nU13 = (if L.u13 then some (roundSig 8 (a.u.getD 2 0)) else none) ∧
    lk L a nU23 = (if L.u23 then some (roundSig 8 (a.u.getD 5 0)) else none) := by
  cases ho : L.occ <;> cases h12 : L.u12 <;> cases h13 : L.u13 <;> cases h23 : L.u23 <;>
    simp (config := { decide := true }) [lk, derivedNames, derivedVals, uNames', usOf, h0, h1, ho, h12, h13, h23,
      nOcc, nUiso, nU11, nU22, nU33, nU12, nU13, nU23]

theorem auxVal_lk (L : XLayout) (S : List Str) (hL : AuxShape L S) (aq : Rat) (a : XAtom) (hlen : a.aux.length = S.length)
    (nm : Str) (hnm : isDerivedAux nm = true) : auxVal (xreadOf L aq a) nm = lk L a nm :=
  auxVal_xreadOf L S hL aq a hlen nm hnm

/-- the displacement columns of a re-read atom are the printed ones -/
theorem reload_us (L : XLayout) (S : List Str) (hL : AuxShape L S) (aq : Rat) (mass : Str → Rat) (a : XAtom)
    (hlen : a.aux.length = S.length) :
    usOf L (reloadXAtom mass (xreadOf L aq a)) = (usOf L a).map (roundSig 8) := by
  obtain ⟨d1, d2, d3, d4, d5, d6, d7, d8⟩ := derived_names
  have hv := fun nm h => auxVal_lk L S hL aq a hlen nm h
  unfold usOf
  by_cases h0 : L.uMode = 0
  · simp [h0]
  · by_cases h1 : L.uMode = 1
    · simp only [h1, if_true, reloadXAtom, reloadU, hv nUiso d2, lk_u1 L a h1]
      simp [diag9]
    · obtain ⟨l0, l1, l2, l3, l4, l5, l6⟩ := lk_u2 L a h0 h1
      simp only [h0, h1, if_false, reloadXAtom, reloadU, hv nUiso d2, hv nU11 d3, hv nU22 d4, hv nU33 d5, hv nU12 d6,
        hv nU13 d7, hv nU23 d8, l0, l1, l2, l3, l4, l5, l6]
      cases L.u12 <;> cases L.u13 <;> cases L.u23 <;> simp [sym9]

theorem reload_occ (L : XLayout) (S : List Str) (hL : AuxShape L S) (aq : Rat) (mass : Str → Rat) (a : XAtom)
    (hlen : a.aux.length = S.length) (ho : L.occ = true) :
    (reloadXAtom mass (xreadOf L aq a)).occ = roundSig 8 a.occ := by
  simp only [reloadXAtom, auxVal_lk L S hL aq a hlen nOcc derived_names.1, lk_occ L a ho, Option.getD_some]

theorem usOf_congr (L L' : XLayout) (a : XAtom) (h : L'.uMode = L.uMode ∧ L'.u12 = L.u12 ∧ L'.u13 = L.u13 ∧ L'.u23 = L.u23) :
    usOf L' a = usOf L a := by
  obtain ⟨h1, h2, h3, h4⟩ := h
  simp only [usOf, h1, h2, h3, h4]

/-- the columns of a layout that decide what an entry line contains -/
def sameCols (L' L : XLayout) : Prop :=
  L'.noVel = L.noVel ∧ L'.aux = L.aux ∧ L'.occ = L.occ ∧ L'.uMode = L.uMode ∧ L'.u12 = L.u12 ∧ L'.u13 = L.u13 ∧ L'.u23 = L.u23

/-- the atom read on the second trip is the atom read on the first, when the second write uses the
same columns and the three position columns reprint -/
theorem xreadOf_reload (L L' : XLayout) (S : List Str) (hL : AuxShape L S) (aq : Rat) (mass : Str → Rat) (a : XAtom)
    (hlen : a.aux.length = S.length) (hc : sameCols L' L)
    (hpos : (xcfgPos L' (reloadXAtom mass (xreadOf L aq a))).map (roundSig 8) = (xcfgPos L a).map (roundSig 8)) :
    xreadOf L' aq (reloadXAtom mass (xreadOf L aq a)) = xreadOf L aq a := by
  obtain ⟨hnv, haux, hocc, hum, h12, h13, h23⟩ := hc
  have hus := reload_us L S hL aq mass a hlen
  have hax := reload_aux L S hL aq a hlen
  have husc := usOf_congr L L' (reloadXAtom mass (xreadOf L aq a)) ⟨hum, h12, h13, h23⟩
  -- the position columns
  have hp : ∀ k, roundSig 8 ((xcfgPos L' (reloadXAtom mass (xreadOf L aq a))).getD k 0) = roundSig 8 ((xcfgPos L a).getD k 0) ∨ 3 ≤ k := by
    intro k
    have e := congrArg (fun l => l[k]?) hpos
    simp only [List.getElem?_map] at e
    by_cases hk : k < 3
    · left
      have l1 : (xcfgPos L' (reloadXAtom mass (xreadOf L aq a))).length = 3 := rfl
      have l2 : (xcfgPos L a).length = 3 := rfl
      rw [List.getD_eq_getElem?_getD, List.getD_eq_getElem?_getD]
      rw [List.getElem?_eq_getElem (by omega), List.getElem?_eq_getElem (by omega)] at e ⊢
      simpa using e
    · right; omega
  have hp0 := (hp 0).resolve_right (by omega)
  have hp1 := (hp 1).resolve_right (by omega)
  have hp2 := (hp 2).resolve_right (by omega)
  -- assemble
  have hel : (reloadXAtom mass (xreadOf L aq a)).el = capitalize a.el := rfl
  have hv : (reloadXAtom mass (xreadOf L aq a)).v = if L.noVel then none else a.v.map (fun v => v.map (roundSig 8)) := rfl
  have hauxf : (reloadXAtom mass (xreadOf L aq a)).aux = a.aux.map (roundSig 8) := hax
  have hvals : ((reloadXAtom mass (xreadOf L aq a)).aux ++ (if L'.occ then [(reloadXAtom mass (xreadOf L aq a)).occ] else []) ++
      usOf L' (reloadXAtom mass (xreadOf L aq a))).map (roundSig 8) =
      (a.aux ++ (if L.occ then [a.occ] else []) ++ usOf L a).map (roundSig 8) := by
    have hrr : (roundSig 8 ∘ roundSig 8) = roundSig 8 := by funext x; exact roundSig_idem 8 x
    rw [husc, hus, hauxf, hocc]
    cases ho : L.occ with
    | false => simp [hrr]
    | true => simp [reload_occ L S hL aq mass a hlen ho, roundSig_idem, hrr]
  clear hp hpos hus hax husc hauxf
  generalize reloadXAtom mass (xreadOf L aq a) = a' at *
  unfold xreadOf
  simp only [hp0, hp1, hp2, hel, capitalize_idem, hv, hnv, haux, hvals]
  cases L.noVel with
  | true => rfl
  | false =>
    cases a.v with
    | none => rfl
    | some v => simp [V3.map, roundSig_idem]

/-! ### the second write chooses the same columns (no auxiliary growth) -/

theorem roundSig_ne_zero (P : Nat) {x : Rat} (hx : x ≠ 0) : roundSig P x ≠ 0 := by
  unfold roundSig
  generalize hQ : (if P = 0 then 1 else P) = Q
  have hQ1 : 1 ≤ Q := by rw [← hQ]; split <;> omega
  have hnum : 0 < x.num.natAbs := by
    have : x.num ≠ 0 := Rat.num_ne_zero.2 hx
    omega
  obtain ⟨hm1, _⟩ := sci_spec Q x.num.natAbs x.den hQ1 hnum x.den_pos
  have hmpos : (0 : Rat) < ((sci Q x.num.natAbs x.den).2 : Rat) := by
    have : 0 < (sci Q x.num.natAbs x.den).2 := lt_of_lt_of_le (by positivity) hm1
    exact_mod_cast this
  have hv := scale10_pos hmpos ((sci Q x.num.natAbs x.den).1 - (Q : Int) + 1)
  simp only [roundSigP, hx, if_false]
  split
  · exact neg_ne_zero.2 (ne_of_gt hv)
  · exact ne_of_gt hv

theorem roundSig_zero (P : Nat) : roundSig P 0 = 0 := by simp [roundSig, roundSigP]

theorem roundSig_eq_zero_iff (P : Nat) (x : Rat) : roundSig P x = 0 ↔ x = 0 := by
  constructor
  · intro h; by_contra hx; exact roundSig_ne_zero P hx h
  · rintro rfl; exact roundSig_zero P

theorem layout_occ (d : XcfgS) : (xcfgLayout d).occ = d.atoms.any (fun a => a.occ != 1) := rfl
theorem layout_uMode (d : XcfgS) : (xcfgLayout d).uMode =
    if d.atoms.all (fun a => a.u.all (· == 0)) then 0 else if d.atoms.all (fun a => uIsIso a.u) then 1 else 2 := rfl
theorem layout_u12 (d : XcfgS) : (xcfgLayout d).u12 = d.atoms.any (fun a => a.u.getD 1 0 != 0) := rfl
theorem layout_u13 (d : XcfgS) : (xcfgLayout d).u13 = d.atoms.any (fun a => a.u.getD 2 0 != 0) := rfl
theorem layout_u23 (d : XcfgS) : (xcfgLayout d).u23 = d.atoms.any (fun a => a.u.getD 5 0 != 0) := rfl

theorem lk_occ_none (L : XLayout) (a : XAtom) (h : L.occ = false) : lk L a nOcc = none := by
  have e1 : (nUiso == nOcc) = false := by decide
  have e2 : (nU11 == nOcc) = false := by decide
  have e3 : (nU22 == nOcc) = false := by decide
  have e4 : (nU33 == nOcc) = false := by decide
  have e5 : (nU12 == nOcc) = false := by decide
  have e6 : (nU13 == nOcc) = false := by decide
  have e7 : (nU23 == nOcc) = false := by decide
  unfold lk derivedNames derivedVals uNames' usOf
  by_cases h0 : L.uMode = 0
  · simp [h, h0]
  · by_cases h1 : L.uMode = 1
    · simp [h, h1, e1]
    · cases L.u12 <;> cases L.u13 <;> cases L.u23 <;> simp [h, h0, h1, e2, e3, e4, e5, e6, e7]

/-- occupancy of a re-read atom -/
theorem reload_occ' (L : XLayout) (S : List Str) (hL : AuxShape L S) (aq : Rat) (mass : Str → Rat) (a : XAtom)
    (hlen : a.aux.length = S.length) :
    (reloadXAtom mass (xreadOf L aq a)).occ = if L.occ then roundSig 8 a.occ else 1 := by
  cases ho : L.occ with
  | true => simpa using reload_occ L S hL aq mass a hlen ho
  | false =>
    simp only [reloadXAtom, auxVal_lk L S hL aq a hlen nOcc derived_names.1, lk_occ_none L a ho, Option.getD_none]
    rfl

/-- displacement tensor of a re-read atom -/
theorem reload_u (L : XLayout) (S : List Str) (hL : AuxShape L S) (aq : Rat) (mass : Str → Rat) (a : XAtom)
    (hlen : a.aux.length = S.length) :
    (reloadXAtom mass (xreadOf L aq a)).u =
      if L.uMode = 0 then List.replicate 9 0 else if L.uMode = 1 then diag9 (roundSig 8 (a.u.getD 0 0))
      else sym9 [roundSig 8 (a.u.getD 0 0), roundSig 8 (a.u.getD 4 0), roundSig 8 (a.u.getD 8 0),
                 if L.u12 then roundSig 8 (a.u.getD 1 0) else 0, if L.u13 then roundSig 8 (a.u.getD 2 0) else 0,
                 if L.u23 then roundSig 8 (a.u.getD 5 0) else 0] := by
  obtain ⟨d1, d2, d3, d4, d5, d6, d7, d8⟩ := derived_names
  have hv := fun nm h => auxVal_lk L S hL aq a hlen nm h
  have e1 : (nOcc == nUiso) = false := by decide
  have e2 : (nOcc == nU11) = false := by decide
  by_cases h0 : L.uMode = 0
  · simp only [h0, if_true, reloadXAtom, reloadU, hv nUiso d2, hv nU11 d3, lk_u0 L a h0 nUiso e1, lk_u0 L a h0 nU11 e2]
  · by_cases h1 : L.uMode = 1
    · simp only [h1, if_true, reloadXAtom, reloadU, hv nUiso d2, lk_u1 L a h1]
      simp
    · obtain ⟨l0, l1, l2, l3, l4, l5, l6⟩ := lk_u2 L a h0 h1
      simp only [h0, h1, if_false, reloadXAtom, reloadU, hv nUiso d2, hv nU11 d3, hv nU22 d4, hv nU33 d5, hv nU12 d6,
        hv nU13 d7, hv nU23 d8, l0, l1, l2, l3, l4, l5, l6]
      cases L.u12 <;> cases L.u13 <;> cases L.u23 <;> simp

theorem uNamesOf_congr (L L' : XLayout) (h : L'.uMode = L.uMode ∧ L'.u12 = L.u12 ∧ L'.u13 = L.u13 ∧ L'.u23 = L.u23) :
    uNamesOf L' = uNamesOf L := by
  obtain ⟨h1, h2, h3, h4⟩ := h
  simp only [uNamesOf_eq, uNames', h1, h2, h3, h4]

theorem uIsIso_zeros : uIsIso (List.replicate 9 0) = true := by decide

theorem all_zero_getD {u : List Rat} (h : u.all (· == 0) = true) (k : Nat) : u.getD k 0 = 0 := by
  rw [List.getD_eq_getElem?_getD]
  cases hk : u[k]? with
  | none => rfl
  | some x =>
    have hx : x ∈ u := List.mem_of_getElem? hk
    have := List.all_eq_true.1 h x hx
    simpa using this

theorem uIsIso_getD {u : List Rat} (h : uIsIso u = true) :
    u.getD 1 0 = 0 ∧ u.getD 2 0 = 0 ∧ u.getD 5 0 = 0 ∧ (u.all (· == 0) = true ↔ u.getD 0 0 = 0) := by
  unfold uIsIso at h
  split at h
  · rename_i a b c d e f g hh i
    simp only [Bool.and_eq_true, beq_iff_eq] at h
    obtain ⟨⟨⟨⟨⟨⟨⟨hb, hc⟩, hd⟩, hf⟩, hg⟩, hh'⟩, he⟩, hi⟩ := h
    subst hb hc hd hf hg hh' he hi
    simp
  · cases h

theorem uIsIso_of_all_zero9 (u : List Rat) (h9 : u.length = 9) (hz : u.all (· == 0) = true) : uIsIso u = true := by
  obtain ⟨b0, b1, b2, b3, b4, b5, b6, b7, b8, rfl⟩ := list9 u h9
  simp only [List.all_cons, List.all_nil, Bool.and_true, Bool.and_eq_true, beq_iff_eq] at hz
  obtain ⟨z0, z1, z2, z3, z4, z5, z6, z7, z8⟩ := hz
  subst z0 z1 z2 z3 z4 z5 z6 z7 z8
  decide

theorem any_congr_mem {α} (l : List α) (p q : α → Bool) (h : ∀ a ∈ l, p a = q a) : l.any p = l.any q := by
  induction l with
  | nil => rfl
  | cons a l ih =>
    rw [List.any_cons, List.any_cons, h a (by simp), ih (fun x hx => h x (by simp [hx]))]

/-- the columns chosen by the second write are those of the first (in particular the list of
auxiliaries does not grow), when a non-unit occupancy and an anisotropic tensor survive printing -/
theorem sameCols_reload (unit : Bool) (mass : Str → Rat) (d : XcfgS) (h : reprXcfg d = true)
    (P1 : (xcfgLayout d).occ = true → d.atoms.any (fun a => roundSig 8 a.occ != 1) = true)
    (P2 : (xcfgLayout d).uMode = 2 → d.atoms.any (fun a =>
      !uIsIso (reloadXAtom mass (xreadOf (xcfgLayout d) (roundSig 8 ((xcfgLayout d).a : Rat)) a)).u) = true) :
    sameCols (xcfgLayout (reloadXcfg unit mass (quantXcfg d))) (xcfgLayout d) := by
  obtain ⟨hne, _, _, hwf⟩ := reprXcfg_spec d h
  have hshape := layout_auxShape d
  have hauxlen := layout_aux_length d
  have ho := layout_occ d
  have hm := layout_uMode d
  have h12 := layout_u12 d
  have h13 := layout_u13 d
  have h23 := layout_u23 d
  have hnv := layout_noVel d
  have hauxL := layout_aux d
  -- the fields of the new layout, by definition
  have ho' := layout_occ (reloadXcfg unit mass (quantXcfg d))
  have hm' := layout_uMode (reloadXcfg unit mass (quantXcfg d))
  have h12' := layout_u12 (reloadXcfg unit mass (quantXcfg d))
  have h13' := layout_u13 (reloadXcfg unit mass (quantXcfg d))
  have h23' := layout_u23 (reloadXcfg unit mass (quantXcfg d))
  have hnv' := layout_noVel (reloadXcfg unit mass (quantXcfg d))
  have haux' := layout_aux (reloadXcfg unit mass (quantXcfg d))
  rw [quantXcfg_eq d] at ho' hm' h12' h13' h23' hnv' haux' ⊢
  generalize xcfgLayout d = L at *
  generalize hL' : xcfgLayout (reloadXcfg unit mass (quantXcfgL L d)) = L' at *
  generalize haq : roundSig 8 (L.a : Rat) = aq at *
  -- the re-read atoms
  have hatoms : (reloadXcfg unit mass (quantXcfgL L d)).atoms = d.atoms.map (fun a => reloadXAtom mass (xreadOf L aq a)) := by
    simp [reloadXcfg, quantXcfgL, haq]
  have hlen : ∀ a ∈ d.atoms, a.aux.length = (storedOf d).length := fun a ha => (hwf a ha).2.2.1
  have hocc_a : ∀ a ∈ d.atoms, (reloadXAtom mass (xreadOf L aq a)).occ = if L.occ then roundSig 8 a.occ else 1 :=
    fun a ha => reload_occ' L _ hshape aq mass a (hlen a ha)
  have hu_a := fun a ha => reload_u L _ hshape aq mass a (hlen a ha)
  rw [hatoms] at ho' hm' h12' h13' h23' hnv'
  simp only [List.any_map, List.all_map, Function.comp_def] at ho' hm' h12' h13' h23'
  -- occupancy column
  have hocc : L'.occ = L.occ := by
    rw [ho']
    cases hLo : L.occ with
    | true =>
      rw [← P1 hLo]
      apply any_congr_mem
      intro a ha
      simp [hocc_a a ha, hLo]
    | false =>
      apply List.any_eq_false.2
      intro a ha
      simp [hocc_a a ha, hLo]
  -- displacement columns
  have hcases : L.uMode = 0 ∨ L.uMode = 1 ∨ L.uMode = 2 := by
    rw [hm]; split
    · left; rfl
    · split
      · right; left; rfl
      · right; right; rfl
  have hU : L'.uMode = L.uMode ∧ L'.u12 = L.u12 ∧ L'.u13 = L.u13 ∧ L'.u23 = L.u23 := by
    rcases hcases with h0 | h1 | h2
    · -- all tensors zero
      have hz : d.atoms.all (fun a => a.u.all (· == 0)) = true := by
        by_contra hc
        rw [hm, if_neg hc] at h0
        split at h0 <;> cases h0
      have hz' : ∀ a ∈ d.atoms, (reloadXAtom mass (xreadOf L aq a)).u = List.replicate 9 0 := by
        intro a ha; rw [hu_a a ha, if_pos h0]
      have hgz : ∀ a ∈ d.atoms, ∀ k, a.u.getD k 0 = 0 := fun a ha k => all_zero_getD (List.all_eq_true.1 hz a ha) k
      refine ⟨?_, ?_, ?_, ?_⟩
      · rw [hm', h0, if_pos]
        apply List.all_eq_true.2
        intro a ha
        rw [hz' a ha]; decide
      · rw [h12', h12]
        rw [List.any_eq_false.2 (fun a ha => by rw [hz' a ha]; decide),
          List.any_eq_false.2 (fun a ha => by rw [hgz a ha 1]; simp)]
      · rw [h13', h13]
        rw [List.any_eq_false.2 (fun a ha => by rw [hz' a ha]; decide),
          List.any_eq_false.2 (fun a ha => by rw [hgz a ha 2]; simp)]
      · rw [h23', h23]
        rw [List.any_eq_false.2 (fun a ha => by rw [hz' a ha]; decide),
          List.any_eq_false.2 (fun a ha => by rw [hgz a ha 5]; simp)]
    · -- all tensors isotropic, not all zero
      have hnz : ¬ d.atoms.all (fun a => a.u.all (· == 0)) = true := by
        intro hc; rw [hm, if_pos hc] at h1; cases h1
      have hiso : d.atoms.all (fun a => uIsIso a.u) = true := by
        by_contra hc
        rw [hm, if_neg hnz, if_neg hc] at h1; cases h1
      have hd' : ∀ a ∈ d.atoms, (reloadXAtom mass (xreadOf L aq a)).u = diag9 (roundSig 8 (a.u.getD 0 0)) := by
        intro a ha; rw [hu_a a ha, if_neg (by omega), if_pos h1]
      have hg : ∀ a ∈ d.atoms, _ := fun a ha => uIsIso_getD (List.all_eq_true.1 hiso a ha)
      refine ⟨?_, ?_, ?_, ?_⟩
      · rw [hm', h1]
        have hnz' : ¬ d.atoms.all (fun a => (reloadXAtom mass (xreadOf L aq a)).u.all (· == 0)) = true := by
          intro hc
          apply hnz
          apply List.all_eq_true.2
          intro a ha
          have := List.all_eq_true.1 hc a ha
          rw [hd' a ha] at this
          have hx : roundSig 8 (a.u.getD 0 0) = 0 := by simpa [diag9] using this
          exact (hg a ha).2.2.2.2 ((roundSig_eq_zero_iff 8 _).1 hx)
        rw [if_neg hnz', if_pos]
        apply List.all_eq_true.2
        intro a ha
        rw [hd' a ha]; exact uIsIso_diag9 _
      · rw [h12', h12]
        rw [List.any_eq_false.2 (fun a ha => by rw [hd' a ha]; simp [diag9]),
          List.any_eq_false.2 (fun a ha => by rw [(hg a ha).1]; simp)]
      · rw [h13', h13]
        rw [List.any_eq_false.2 (fun a ha => by rw [hd' a ha]; simp [diag9]),
          List.any_eq_false.2 (fun a ha => by rw [(hg a ha).2.1]; simp)]
      · rw [h23', h23]
        rw [List.any_eq_false.2 (fun a ha => by rw [hd' a ha]; simp [diag9]),
          List.any_eq_false.2 (fun a ha => by rw [(hg a ha).2.2.1]; simp)]
    · -- anisotropic
      have hs' : ∀ a ∈ d.atoms, (reloadXAtom mass (xreadOf L aq a)).u =
          sym9 [roundSig 8 (a.u.getD 0 0), roundSig 8 (a.u.getD 4 0), roundSig 8 (a.u.getD 8 0),
                 if L.u12 then roundSig 8 (a.u.getD 1 0) else 0, if L.u13 then roundSig 8 (a.u.getD 2 0) else 0,
                 if L.u23 then roundSig 8 (a.u.getD 5 0) else 0] := by
        intro a ha; rw [hu_a a ha, if_neg (by omega), if_neg (by omega)]
      have hP2 := P2 h2
      have hniso' : ¬ d.atoms.all (fun a => uIsIso (reloadXAtom mass (xreadOf L aq a)).u) = true := by
        intro hc
        obtain ⟨a, ha, hna⟩ := List.any_eq_true.1 hP2
        have := List.all_eq_true.1 hc a ha
        simp [this] at hna
      have hnz' : ¬ d.atoms.all (fun a => (reloadXAtom mass (xreadOf L aq a)).u.all (· == 0)) = true := by
        intro hc
        apply hniso'
        apply List.all_eq_true.2
        intro a ha
        have hz := List.all_eq_true.1 hc a ha
        rw [hs' a ha] at hz ⊢
        exact uIsIso_of_all_zero9 _ rfl hz
      have flag : ∀ (k : Nat) (b : Bool), b = d.atoms.any (fun a => a.u.getD k 0 != 0) →
          d.atoms.any (fun a => (if b then roundSig 8 (a.u.getD k 0) else 0) != 0) = b := by
        intro k b hb
        cases hbb : b with
        | false => simp
        | true =>
          rw [hbb] at hb
          obtain ⟨a, ha, hne⟩ := List.any_eq_true.1 hb.symm
          apply List.any_eq_true.2
          refine ⟨a, ha, ?_⟩
          have : a.u.getD k 0 ≠ 0 := by simpa using hne
          simpa using roundSig_ne_zero 8 this
      refine ⟨?_, ?_, ?_, ?_⟩
      · rw [hm', if_neg hnz', if_neg hniso', h2]
      · rw [h12']
        rw [any_congr_mem _ _ _ (fun a ha => by rw [hs' a ha])]
        simpa [sym9] using flag 1 L.u12 h12
      · rw [h13']
        rw [any_congr_mem _ _ _ (fun a ha => by rw [hs' a ha])]
        simpa [sym9] using flag 2 L.u13 h13
      · rw [h23']
        rw [any_congr_mem _ _ _ (fun a ha => by rw [hs' a ha])]
        simpa [sym9] using flag 5 L.u23 h23
  -- velocities
  have hnoVel : L'.noVel = L.noVel := by
    rw [hnv', hnv]
    cases hd : d.atoms with
    | nil => exact absurd hd hne
    | cons a0 as =>
      have hLnv : L.noVel = a0.v.isNone := by rw [hnv, hd]
      simp only [List.map_cons, reloadXAtom, xreadOf]
      rw [hLnv]
      cases hv0 : a0.v <;> simp
  -- auxiliary names
  have hauxEq : L'.aux = L.aux := by
    have hst : storedOf (reloadXcfg unit mass (quantXcfgL L d)) = storedOf d := by
      obtain ⟨a0, as, hd⟩ : ∃ a0 as, d.atoms = a0 :: as := by
        cases hd : d.atoms with
        | nil => exact absurd hd hne
        | cons a0 as => exact ⟨a0, as, rfl⟩
      have hnames : (reloadXcfg unit mass (quantXcfgL L d)).storedAux = L.aux := by
        simp only [reloadXcfg, quantXcfgL, hd, List.map_cons, haq]
        rw [xreadOf_aux L _ hshape, ← hshape.aux]
        apply List.map_fst_zip
        have := entryVals_length L (storedOf d).length a0 (hwf a0 (by rw [hd]; simp)) hauxlen
        have hl0 := hlen a0 (by rw [hd]; simp)
        simp only [derivedVals, List.length_append, List.length_map, hauxlen, usOf_length, hl0]
        cases L.occ <;> simp <;> omega
      unfold storedOf
      rw [hnames, hshape.aux, List.filter_append]
      have h1 : (storedOf d).filter (fun n => !isDerivedAux n) = storedOf d := by
        apply List.filter_eq_self.2
        intro n hn; simp [hshape.stored n hn]
      have h2 : (derivedNames L).filter (fun n => !isDerivedAux n) = [] := by
        apply List.filter_eq_nil_iff.2
        intro n hn; simp [derivedNames_derived L n hn]
      rw [show List.filter (fun n => !isDerivedAux n) (storedOf d) = storedOf d from h1, h2, List.append_nil]
      rfl
    rw [haux', hst, hocc, uNamesOf_congr L L' hU, hauxL]
  exact ⟨hnoVel, hauxEq, hocc, hU.1, hU.2.1, hU.2.2.1, hU.2.2.2⟩

/-- the occupancy / displacement classification of the atoms survives printing with 8 significant digits:
some non-unit occupancy is still non-unit, some anisotropic tensor is still anisotropic (otherwise the
second write drops the `occupancy` column, or switches from `U11 …` to `Uiso`: a real change of the text) -/
def classStableXcfg (mass : Str → Rat) (d : XcfgS) : Bool :=
  (!(xcfgLayout d).occ || d.atoms.any (fun a => roundSig 8 a.occ != 1)) &&
  ((xcfgLayout d).uMode != 2 || d.atoms.any (fun a =>
    !uIsIso (reloadXAtom mass (xreadOf (xcfgLayout d) (roundSig 8 ((xcfgLayout d).a : Rat)) a)).u))

/-- no auxiliary growth: the second write emits the auxiliary columns of the first, and makes the
same choices for velocities, occupancy and displacement terms -/
theorem xcfg_same_columns (unit : Bool) (mass : Str → Rat) (d : XcfgS) (h : reprXcfg d = true)
    (hs : classStableXcfg mass d = true) :
    sameCols (xcfgLayout (reloadXcfg unit mass (quantXcfg d))) (xcfgLayout d) := by
  simp only [classStableXcfg, Bool.and_eq_true, Bool.or_eq_true, Bool.not_eq_true', bne_iff_ne, ne_eq] at hs
  obtain ⟨h1, h2⟩ := hs
  apply sameCols_reload unit mass d h
  · intro ho
    rcases h1 with h1 | h1
    · rw [h1] at ho; cases ho
    · exact h1
  · intro hm
    rcases h2 with h2 | h2
    · exact absurd hm h2
    · exact h2

/-- stability of an XCFG document under the trip, for a given unit-cell flag and mass table of the
re-read structure: the re-read document is again representable; the classification of occupancies and
displacement tensors survives printing (`classStableXcfg`); the second write chooses the same length unit
`A`; the three position columns reprint (`%.8g` of `xyz'/A' + shift'` in double arithmetic gives the
digits read).  The last two are numerical facts about the layout computation that the proof takes as
hypotheses. -/
def stableXcfg (unit : Bool) (mass : Str → Rat) (d : XcfgS) : Bool :=
  let L := xcfgLayout d
  let d' := reloadXcfg unit mass (quantXcfg d)
  let L' := xcfgLayout d'
  reprXcfg d' && classStableXcfg mass d && L'.a == L.a &&
  d.atoms.all (fun a => (xcfgPos L' (reloadXAtom mass (xreadOf L (roundSig 8 (L.a : Rat)) a))).map (roundSig 8)
                          == (xcfgPos L a).map (roundSig 8))

/-- second trip for XCFG (partial: the two numerical clauses of `stableXcfg` are hypotheses): writing the
re-read structure and reading it again gives the first reading — same atoms, same auxiliary columns
(no growth), same values -/
theorem idem_xcfg_partial (unit : Bool) (mass : Str → Rat) (d : XcfgS) (h : reprXcfg d = true)
    (hs : stableXcfg unit mass d = true) :
    parseXcfg (ofText (toText (writeXcfg (reloadXcfg unit mass (quantXcfg d))))) = .ok (quantXcfg d) := by
  obtain ⟨_, _, _, hwf⟩ := reprXcfg_spec d h
  have hshape := layout_auxShape d
  simp only [stableXcfg, Bool.and_eq_true, beq_iff_eq, List.all_eq_true] at hs
  obtain ⟨⟨⟨hrepr, hclass⟩, hA⟩, hpos⟩ := hs
  have hc := xcfg_same_columns unit mass d h hclass
  rw [roundtrip_xcfg _ hrepr]
  congr 1
  rw [quantXcfg_eq (reloadXcfg unit mass (quantXcfg d))]
  rw [quantXcfg_eq d] at hA hc hpos ⊢
  generalize xcfgLayout d = L at *
  generalize xcfgLayout (reloadXcfg unit mass (quantXcfgL L d)) = L' at *
  unfold quantXcfgL reloadXcfg
  simp only [List.length_map, List.map_map, hA]
  congr 1
  · have hrr : (roundSig 8 ∘ roundSig 8) = roundSig 8 := by funext x; exact roundSig_idem 8 x
    rw [hrr]
  · apply List.map_congr_left
    intro a ha
    simp only [Function.comp]
    exact xreadOf_reload L L' (storedOf d) hshape _ mass a (hwf a ha).2.2.1 hc (hpos a ha)

end DS.Formats
