import DS.Model.Orbit
import DS.Lemmas.Group
import Mathlib.Data.List.Perm.Basic
import Mathlib.Data.List.Perm.Subperm
import Mathlib.Data.List.Count
import Mathlib.Data.List.Dedup
import Mathlib.Algebra.BigOperators.Group.List.Lemmas

/-!
Action of operations on exact positions: functoriality (`img_comp`), identity, injectivity, and the
orbit–stabiliser counting lemma.
-/
namespace DS
namespace Orbit
open Op

theorem emod_of_eq (D X Y q : Int) (h : X = Y + D * q) : X % D = Y % D := by
  subst h; exact Int.add_mul_emod_self_left Y D q

/-- raw (unreduced) image coordinates -/
def raw1 (a : Op) (k : Int) (off x : P3) : Int :=
  a.r11 * (x.1 + off.1) + a.r12 * (x.2.1 + off.2.1) + a.r13 * (x.2.2 + off.2.2) + k * a.t1 - off.1
def raw2 (a : Op) (k : Int) (off x : P3) : Int :=
  a.r21 * (x.1 + off.1) + a.r22 * (x.2.1 + off.2.1) + a.r23 * (x.2.2 + off.2.2) + k * a.t2 - off.2.1
def raw3 (a : Op) (k : Int) (off x : P3) : Int :=
  a.r31 * (x.1 + off.1) + a.r32 * (x.2.1 + off.2.1) + a.r33 * (x.2.2 + off.2.2) + k * a.t3 - off.2.2

theorem img_eq (a : Op) (k : Int) (off x : P3) :
    img a k off x = (raw1 a k off x % (24 * k), raw2 a k off x % (24 * k), raw3 a k off x % (24 * k)) := rfl

/-- functoriality of the action: applying `b` then `a` is applying `a ∘ b` -/
theorem img_comp (a b : Op) (k : Int) (off x : P3) :
    img a k off (img b k off x) = img (a.comp b) k off x := by
  obtain ⟨x1, x2, x3⟩ := x
  obtain ⟨o1, o2, o3⟩ := off
  simp only [img, Op.comp, Prod.mk.injEq]
  refine ⟨?_, ?_, ?_⟩
  · apply emod_of_eq _ _ _
      (-(a.r11 * ((b.r11 * (x1 + o1) + b.r12 * (x2 + o2) + b.r13 * (x3 + o3) + k * b.t1 - o1) / (24 * k))
        + a.r12 * ((b.r21 * (x1 + o1) + b.r22 * (x2 + o2) + b.r23 * (x3 + o3) + k * b.t2 - o2) / (24 * k))
        + a.r13 * ((b.r31 * (x1 + o1) + b.r32 * (x2 + o2) + b.r33 * (x3 + o3) + k * b.t3 - o3) / (24 * k)))
        + (a.r11 * b.t1 + a.r12 * b.t2 + a.r13 * b.t3 + a.t1) / 24)
    simp only [Int.emod_def]; ring
  · apply emod_of_eq _ _ _
      (-(a.r21 * ((b.r11 * (x1 + o1) + b.r12 * (x2 + o2) + b.r13 * (x3 + o3) + k * b.t1 - o1) / (24 * k))
        + a.r22 * ((b.r21 * (x1 + o1) + b.r22 * (x2 + o2) + b.r23 * (x3 + o3) + k * b.t2 - o2) / (24 * k))
        + a.r23 * ((b.r31 * (x1 + o1) + b.r32 * (x2 + o2) + b.r33 * (x3 + o3) + k * b.t3 - o3) / (24 * k)))
        + (a.r21 * b.t1 + a.r22 * b.t2 + a.r23 * b.t3 + a.t2) / 24)
    simp only [Int.emod_def]; ring
  · apply emod_of_eq _ _ _
      (-(a.r31 * ((b.r11 * (x1 + o1) + b.r12 * (x2 + o2) + b.r13 * (x3 + o3) + k * b.t1 - o1) / (24 * k))
        + a.r32 * ((b.r21 * (x1 + o1) + b.r22 * (x2 + o2) + b.r23 * (x3 + o3) + k * b.t2 - o2) / (24 * k))
        + a.r33 * ((b.r31 * (x1 + o1) + b.r32 * (x2 + o2) + b.r33 * (x3 + o3) + k * b.t3 - o3) / (24 * k)))
        + (a.r31 * b.t1 + a.r32 * b.t2 + a.r33 * b.t3 + a.t3) / 24)
    simp only [Int.emod_def]; ring

/-- reduction of a position into the cell -/
def red (k : Int) (x : P3) : P3 := (x.1 % (24 * k), x.2.1 % (24 * k), x.2.2 % (24 * k))

theorem img_one (k : Int) (off x : P3) : img Op.one k off x = red k x := by
  obtain ⟨x1, x2, x3⟩ := x
  obtain ⟨o1, o2, o3⟩ := off
  simp only [img, Op.one, red, Prod.mk.injEq]
  refine ⟨?_, ?_, ?_⟩ <;> congr 1 <;> ring

/-- the image only depends on the position modulo lattice translations -/
theorem img_red (a : Op) (k : Int) (off x : P3) : img a k off (red k x) = img a k off x := by
  rw [← img_one k off x, img_comp]
  obtain ⟨x1, x2, x3⟩ := x
  obtain ⟨o1, o2, o3⟩ := off
  simp only [img, Op.comp, Op.one, Prod.mk.injEq]
  refine ⟨?_, ?_, ?_⟩
  · apply emod_of_eq _ _ _ (-((a.r11 * 0 + a.r12 * 0 + a.r13 * 0 + a.t1) / 24))
    simp only [Int.emod_def]; ring
  · apply emod_of_eq _ _ _ (-((a.r21 * 0 + a.r22 * 0 + a.r23 * 0 + a.t2) / 24))
    simp only [Int.emod_def]; ring
  · apply emod_of_eq _ _ _ (-((a.r31 * 0 + a.r32 * 0 + a.r33 * 0 + a.t3) / 24))
    simp only [Int.emod_def]; ring

theorem red_img (a : Op) (k : Int) (off x : P3) : red k (img a k off x) = img a k off x := by
  simp only [img, red, Int.emod_emod_of_dvd _ (dvd_refl _)]


/-! ### left multiplication permutes a group -/

theorem comp_left_cancel {G : List Op} (hG : IsGroup G) {h a b : Op} (hh : h ∈ G) (ha : a ∈ G) (hb : b ∈ G)
    (e : h.comp a = h.comp b) : a = b := by
  obtain ⟨hi, _, _, hih⟩ := hG.inv h hh
  have := congrArg (fun z => hi.comp z) e
  simp only [comp_assoc, hih, one_comp (hG.range a ha), one_comp (hG.range b hb)] at this
  exact this

theorem map_comp_perm {G : List Op} (hG : IsGroup G) {h : Op} (hh : h ∈ G) :
    (G.map (fun g => h.comp g)).Perm G := by
  have hnd : (G.map (fun g => h.comp g)).Nodup := by
    rw [List.nodup_map_iff_inj_on hG.nodup]
    intro a ha b hb e
    exact comp_left_cancel hG hh ha hb e
  have hsub : G.map (fun g => h.comp g) ⊆ G := by
    intro z hz
    obtain ⟨g, hg, rfl⟩ := List.mem_map.1 hz
    exact hG.closed h hh g hg
  exact (List.subperm_of_subset hnd hsub).perm_of_length_le (by simp)

/-- an operation of a group acts injectively on reduced positions -/
theorem img_inj {G : List Op} (hG : IsGroup G) {h : Op} (hh : h ∈ G) (k : Int) (off p q : P3)
    (hp : red k p = p) (hq : red k q = q) (e : img h k off p = img h k off q) : p = q := by
  obtain ⟨hi, _, _, hih⟩ := hG.inv h hh
  have := congrArg (fun z => img hi k off z) e
  simp only [img_comp, hih, img_one, hp, hq] at this
  exact this

/-- **orbit–stabiliser, fibre form**: every image of the site is produced by exactly as many
operations as fix the site -/
theorem fibre_count {G : List Op} (hG : IsGroup G) (k : Int) (off x : P3) {h : Op} (hh : h ∈ G) :
    G.countP (fun g => decide (img g k off x = img h k off x)) =
      G.countP (fun g => decide (img g k off x = red k x)) := by
  have hperm := map_comp_perm hG hh
  rw [← hperm.countP_eq, List.countP_map]
  apply List.countP_congr
  intro g _
  simp only [Function.comp, decide_eq_true_eq]
  rw [← img_comp]
  constructor
  · intro e
    have e' : img h k off (img g k off x) = img h k off (red k x) := by rw [e, img_red]
    exact img_inj hG hh k off _ _ (red_img _ _ _ _) (by simp [red, Int.emod_emod_of_dvd _ (dvd_refl _)]) e'
  · intro e
    rw [e, img_red]

/-! ### first-occurrence de-duplication -/

theorem mem_dedupFirst {l : List P3} {p : P3} : p ∈ dedupFirst l ↔ p ∈ l := by
  induction l with
  | nil => simp [dedupFirst]
  | cons q qs ih =>
    simp only [dedupFirst, List.mem_cons, List.mem_filter, ih, bne_iff_ne, ne_eq]
    constructor
    · rintro (h | ⟨h, _⟩)
      · exact Or.inl h
      · exact Or.inr h
    · rintro (h | h)
      · exact Or.inl h
      · by_cases e : p = q
        · exact Or.inl e
        · exact Or.inr ⟨h, e⟩

theorem nodup_dedupFirst (l : List P3) : (dedupFirst l).Nodup := by
  induction l with
  | nil => simp [dedupFirst]
  | cons q qs ih =>
    simp only [dedupFirst, List.nodup_cons, List.mem_filter, bne_iff_ne, ne_eq, not_and, not_not]
    exact ⟨fun _ => trivial, ih.filter _⟩

theorem dedupFirst_perm_dedup (l : List P3) : (dedupFirst l).Perm l.dedup := by
  rw [List.perm_ext_iff_of_nodup (nodup_dedupFirst l) (List.nodup_dedup l)]
  intro p; rw [mem_dedupFirst, List.mem_dedup]

/-- **orbit–stabiliser**: (number of distinct images) × (number of operations fixing the site)
= order of the group -/
theorem orbit_stabiliser {G : List Op} (hG : IsGroup G) (k : Int) (off x : P3) :
    (dedupFirst (G.map (fun g => img g k off x))).length *
      G.countP (fun g => decide (img g k off x = red k x)) = G.length := by
  set imgs := G.map (fun g => img g k off x) with himgs
  have h1 : (imgs.dedup.map fun p => @List.count P3 instBEqOfDecidableEq p imgs).sum = imgs.length := List.sum_map_count_dedup_eq_length imgs
  have h2 : ∀ p ∈ imgs.dedup, @List.count P3 instBEqOfDecidableEq p imgs = G.countP (fun g => decide (img g k off x = red k x)) := by
    intro p hp
    rw [List.mem_dedup, himgs, List.mem_map] at hp
    obtain ⟨h, hh, rfl⟩ := hp
    rw [himgs]
    show List.countP (fun q => @BEq.beq P3 instBEqOfDecidableEq q (img h k off x)) (G.map _) = _
    rw [List.countP_map, ← fibre_count hG k off x hh]
    apply List.countP_congr
    intro g _
    simp [Function.comp, instBEqOfDecidableEq]
  rw [List.map_congr_left h2, List.map_const', List.sum_replicate, smul_eq_mul] at h1
  rw [(dedupFirst_perm_dedup imgs).length_eq]
  simpa [himgs] using h1

end Orbit
end DS
