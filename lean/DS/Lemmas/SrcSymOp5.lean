import DS.Model.Rx
import DS.Lemmas.SymText
import DS.Lemmas.SrcSymOp2
/-!
Lower-casing commutes with the row scanner of the model on ASCII text: `scanRow` on the lower-cased text is the
case-insensitive scanner `scanRowG axCI` on the text itself.  Plus small membership facts for `split`/`removeAll`.
Core Lean only.
-/
namespace DS.SrcSymOp5
open DS.PyStr DS.SymText

/-! ### character facts (ASCII), by enumeration -/

theorem ascii_all (P : Char → Bool) (h : ∀ n : Fin 128, P (Char.ofNat n) = true) {c : Char}
    (hc : c.toNat < 128) : P c = true := by
  have := h ⟨c.toNat, hc⟩
  simpa using this

theorem toLower_isDigit {c : Char} (hc : c.toNat < 128) : c.toLower.isDigit = c.isDigit := by
  have := ascii_all (fun c => c.toLower.isDigit == c.isDigit) (by decide) hc
  simpa using this

theorem toLower_of_isDigit {c : Char} (hc : c.toNat < 128) (hd : c.isDigit = true) : c.toLower = c := by
  have := ascii_all (fun c => !c.isDigit || c.toLower == c) (by decide) hc
  simp only [Bool.or_eq_true, Bool.not_eq_true', beq_iff_eq] at this
  rcases this with h | h
  · rw [hd] at h; cases h
  · exact h

theorem toLower_eq_dot {c : Char} (hc : c.toNat < 128) : (c.toLower = '.') ↔ (c = '.') := by
  have := ascii_all (fun c => decide (c.toLower = '.') == decide (c = '.')) (by decide) hc
  simpa using this

theorem toLower_eq_slash {c : Char} (hc : c.toNat < 128) : (c.toLower = '/') ↔ (c = '/') := by
  have := ascii_all (fun c => decide (c.toLower = '/') == decide (c = '/')) (by decide) hc
  simpa using this

theorem toLower_eq_comma {c : Char} (hc : c.toNat < 128) : (c.toLower = ',') ↔ (c = ',') := by
  have := ascii_all (fun c => decide (c.toLower = ',') == decide (c = ',')) (by decide) hc
  simpa using this

theorem toLower_eq_minus {c : Char} (hc : c.toNat < 128) : (c.toLower = '-') ↔ (c = '-') := by
  have := ascii_all (fun c => decide (c.toLower = '-') == decide (c = '-')) (by decide) hc
  simpa using this

theorem isSign_toLower {c : Char} (hc : c.toNat < 128) : isSign c.toLower = isSign c := by
  have := ascii_all (fun c => isSign c.toLower == isSign c) (by decide) hc
  simpa using this

/-! ### `lower` basics -/

theorem lower_nil : lower [] = [] := rfl
theorem lower_cons (c : Char) (r : List Char) : lower (c :: r) = c.toLower :: lower r := rfl

theorem lower_length (e : List Char) : (lower e).length = e.length := by
  unfold lower; exact List.length_map _

theorem ascii_tail {c : Char} {r : List Char} (h : ∀ x ∈ c :: r, x.toNat < 128) : ∀ x ∈ r, x.toNat < 128 :=
  fun x hx => h x (List.mem_cons_of_mem _ hx)

theorem ascii_head {c : Char} {r : List Char} (h : ∀ x ∈ c :: r, x.toNat < 128) : c.toNat < 128 :=
  h c (List.mem_cons_self)

theorem takeWhile_lower : ∀ (s : List Char), (∀ c ∈ s, c.toNat < 128) →
    (lower s).takeWhile Char.isDigit = s.takeWhile Char.isDigit := by
  intro s
  induction s with
  | nil => intro _; rfl
  | cons c r ih =>
    intro h
    have hc := ascii_head h
    rw [lower_cons, List.takeWhile_cons, List.takeWhile_cons, toLower_isDigit hc, ih (ascii_tail h)]
    by_cases hd : c.isDigit = true
    · rw [toLower_of_isDigit hc hd]
    · simp [hd]

theorem dropWhile_lower : ∀ (s : List Char), (∀ c ∈ s, c.toNat < 128) →
    (lower s).dropWhile Char.isDigit = lower (s.dropWhile Char.isDigit) := by
  intro s
  induction s with
  | nil => intro _; rfl
  | cons c r ih =>
    intro h
    have hc := ascii_head h
    rw [lower_cons, List.dropWhile_cons, List.dropWhile_cons, toLower_isDigit hc, ih (ascii_tail h)]
    by_cases hd : c.isDigit = true
    · simp [hd]
    · simp [hd, lower_cons]

theorem ascii_dropWhile {s : List Char} (h : ∀ c ∈ s, c.toNat < 128) :
    ∀ c ∈ s.dropWhile Char.isDigit, c.toNat < 128 :=
  fun c hc => h c ((List.dropWhile_sublist _).subset hc)

/-! ### the literal scanner -/

/-- `scanLit` after the split into the integer digits and the rest -/
def litOf (ip r1 : List Char) : Option (Frac × List Char) :=
  match r1 with
  | '.' :: r2 =>
    let fp := r2.takeWhile Char.isDigit
    if ip.isEmpty && fp.isEmpty then none
    else some (⟨digitsVal (ip ++ fp), 10 ^ fp.length⟩, r2.dropWhile Char.isDigit)
  | _ => if ip.isEmpty then none else some (⟨digitsVal ip, 1⟩, r1)

theorem scanLit_eq (s : List Char) : scanLit s = litOf (s.takeWhile Char.isDigit) (s.dropWhile Char.isDigit) := rfl

theorem litOf_dot (ip r2 : List Char) : litOf ip ('.' :: r2) =
    if ip.isEmpty && (r2.takeWhile Char.isDigit).isEmpty then none
    else some (⟨digitsVal (ip ++ r2.takeWhile Char.isDigit), 10 ^ (r2.takeWhile Char.isDigit).length⟩,
      r2.dropWhile Char.isDigit) := rfl

theorem litOf_nil (ip : List Char) : litOf ip [] = if ip.isEmpty then none else some (⟨digitsVal ip, 1⟩, []) := rfl

theorem litOf_other (ip : List Char) {d : Char} (r2 : List Char) (hd : d ≠ '.') :
    litOf ip (d :: r2) = if ip.isEmpty then none else some (⟨digitsVal ip, 1⟩, d :: r2) := by
  unfold litOf
  split
  · rename_i h; cases h; exact absurd rfl hd
  · rfl

abbrev lowRest (x : Frac × List Char) : Frac × List Char := (x.1, lower x.2)

theorem litOf_lower (ip r1 : List Char) (h : ∀ c ∈ r1, c.toNat < 128) :
    litOf ip (lower r1) = (litOf ip r1).map lowRest := by
  cases r1 with
  | nil =>
    rw [lower_nil, litOf_nil]
    by_cases hi : ip.isEmpty = true <;> simp [hi, lowRest, lower_nil]
  | cons d r2 =>
    have hd := ascii_head h
    have hr := ascii_tail h
    rw [lower_cons]
    by_cases hdot : d = '.'
    · subst hdot
      have : '.'.toLower = '.' := by decide
      rw [this, litOf_dot, litOf_dot, takeWhile_lower r2 hr, dropWhile_lower r2 hr]
      by_cases hi : (ip.isEmpty && (r2.takeWhile Char.isDigit).isEmpty) = true
      · rw [if_pos hi, if_pos hi]; rfl
      · rw [if_neg hi, if_neg hi]; rfl
    · have hdot' : d.toLower ≠ '.' := fun h' => hdot ((toLower_eq_dot hd).mp h')
      rw [litOf_other ip _ hdot', litOf_other ip _ hdot]
      by_cases hi : ip.isEmpty = true
      · rw [if_pos hi, if_pos hi]; rfl
      · rw [if_neg hi, if_neg hi]; rfl

theorem scanLit_lower (s : List Char) (h : ∀ c ∈ s, c.toNat < 128) :
    scanLit (lower s) = (scanLit s).map lowRest := by
  rw [scanLit_eq, scanLit_eq, takeWhile_lower s h, dropWhile_lower s h, litOf_lower _ _ (ascii_dropWhile h)]

theorem ascii_suffix {pre r : List Char} (h : ∀ c ∈ pre ++ r, c.toNat < 128) : ∀ c ∈ r, c.toNat < 128 :=
  fun c hc => h c (List.mem_append_right _ hc)

theorem scanLit_rest_ascii {s r : List Char} {v : Frac} (h : ∀ c ∈ s, c.toNat < 128)
    (hs : scanLit s = some (v, r)) : ∀ c ∈ r, c.toNat < 128 := by
  obtain ⟨pre, hp, _⟩ := scanLit_prefix hs
  rw [hp] at h
  exact ascii_suffix h

theorem scanQuot_rest_ascii {s r : List Char} {v : Frac} (h : ∀ c ∈ s, c.toNat < 128)
    (hs : scanQuot s = some (v, r)) : ∀ c ∈ r, c.toNat < 128 := by
  obtain ⟨pre, hp, _⟩ := scanQuot_prefix hs
  rw [hp] at h
  exact ascii_suffix h

/-! ### the quotient scanner -/

/-- `scanQuot` after the numerator -/
def quotOf (a : Frac) (r : List Char) : Option (Frac × List Char) :=
  match r with
  | '/' :: r' =>
    match scanLit r' with
    | none => none
    | some (b, r'') => if b.num ≤ 0 then none else some (a.div b, r'')
  | _ => some (a, r)

theorem scanQuot_eq (s : List Char) : scanQuot s =
    match scanLit s with
    | none => none
    | some (a, r) => quotOf a r := rfl

theorem quotOf_slash (a : Frac) (r' : List Char) : quotOf a ('/' :: r') =
    match scanLit r' with
    | none => none
    | some (b, r'') => if b.num ≤ 0 then none else some (a.div b, r'') := rfl

theorem quotOf_nil (a : Frac) : quotOf a [] = some (a, []) := rfl

theorem quotOf_other (a : Frac) {d : Char} (r' : List Char) (hd : d ≠ '/') :
    quotOf a (d :: r') = some (a, d :: r') := by
  unfold quotOf
  split
  · rename_i h; cases h; exact absurd rfl hd
  · rfl

theorem quotOf_lower (a : Frac) (r : List Char) (h : ∀ c ∈ r, c.toNat < 128) :
    quotOf a (lower r) = (quotOf a r).map lowRest := by
  cases r with
  | nil => rfl
  | cons d r' =>
    have hd := ascii_head h
    have hr := ascii_tail h
    rw [lower_cons]
    by_cases hsl : d = '/'
    · subst hsl
      have : '/'.toLower = '/' := by decide
      rw [this, quotOf_slash, quotOf_slash, scanLit_lower r' hr]
      cases hq : scanLit r' with
      | none => rfl
      | some x =>
        obtain ⟨b, r''⟩ := x
        simp only [Option.map_some, lowRest]
        by_cases hb : b.num ≤ 0
        · rw [if_pos hb, if_pos hb]; rfl
        · rw [if_neg hb, if_neg hb]; rfl
    · have hsl' : d.toLower ≠ '/' := fun h' => hsl ((toLower_eq_slash hd).mp h')
      rw [quotOf_other a _ hsl', quotOf_other a _ hsl]
      rfl

theorem scanQuot_lower (s : List Char) (h : ∀ c ∈ s, c.toNat < 128) :
    scanQuot (lower s) = (scanQuot s).map lowRest := by
  rw [scanQuot_eq, scanQuot_eq, scanLit_lower s h]
  cases hq : scanLit s with
  | none => rfl
  | some x =>
    obtain ⟨a, r⟩ := x
    simp only [Option.map_some, lowRest]
    exact quotOf_lower a r (scanLit_rest_ascii h hq)

/-! ### the row scanner -/

/-- the sign branch of the row scanner, on the text after the sign -/
def signStep (ax : Char → Option Nat) (rec : Bool → List Char → Option (List Tok)) (c : Char)
    (rest : List Char) : Option (List Tok) :=
  match rest with
  | [] => none
  | d :: rest' =>
    match ax d with
    | some a => (rec true rest').map (Tok.var (c = '-') a :: ·)
    | none =>
      match scanQuot rest with
      | none => none
      | some (v, r) => (rec false r).map (Tok.num (if c = '-' then v.neg else v) :: ·)

/-- the number branch of the row scanner at the beginning of a piece -/
def numStep (rec : Bool → List Char → Option (List Tok)) (cs : List Char) : Option (List Tok) :=
  match scanQuot cs with
  | none => none
  | some (v, r) => (rec false r).map (Tok.num v :: ·)

theorem scanRowG_cons (ax : Char → Option Nat) (fuel : Nat) (first : Bool) (c : Char) (rest : List Char) :
    scanRowG ax (fuel + 1) first (c :: rest) =
      match ax c with
      | some a => (scanRowG ax fuel true rest).map (Tok.var false a :: ·)
      | none =>
        if isSign c then signStep ax (scanRowG ax fuel) c rest
        else if first then numStep (scanRowG ax fuel) (c :: rest) else none := rfl

theorem scanRow_cons (fuel : Nat) (first : Bool) (c : Char) (rest : List Char) :
    scanRow (fuel + 1) first (c :: rest) =
      match axisOf c with
      | some a => (scanRow fuel true rest).map (Tok.var false a :: ·)
      | none =>
        if isSign c then signStep axisOf (scanRow fuel) c rest
        else if first then numStep (scanRow fuel) (c :: rest) else none := rfl

theorem numStep_lower (n : Nat)
    (ih : ∀ (first : Bool) (e : List Char), (∀ c ∈ e, c.toNat < 128) →
      scanRow n first (lower e) = scanRowG axCI n first e)
    (cs : List Char) (h : ∀ c ∈ cs, c.toNat < 128) :
    numStep (scanRow n) (lower cs) = numStep (scanRowG axCI n) cs := by
  unfold numStep
  rw [scanQuot_lower cs h]
  cases hq : scanQuot cs with
  | none => rfl
  | some x =>
    obtain ⟨v, r⟩ := x
    simp only [Option.map_some, lowRest]
    rw [ih false r (scanQuot_rest_ascii h hq)]

theorem signStep_lower (n : Nat)
    (ih : ∀ (first : Bool) (e : List Char), (∀ c ∈ e, c.toNat < 128) →
      scanRow n first (lower e) = scanRowG axCI n first e)
    (c : Char) (hc : c.toNat < 128) (rest : List Char) (h : ∀ x ∈ rest, x.toNat < 128) :
    signStep axisOf (scanRow n) c.toLower (lower rest) = signStep axCI (scanRowG axCI n) c rest := by
  have hm : decide (c.toLower = '-') = decide (c = '-') := by
    rw [decide_eq_decide]; exact toLower_eq_minus hc
  cases rest with
  | nil => rfl
  | cons d rest' =>
    have hq := scanQuot_lower (d :: rest') h
    rw [lower_cons] at hq
    rw [lower_cons]
    unfold signStep
    simp only [axCI]
    cases hax : axisOf d.toLower with
    | some a =>
      simp only [hm]
      rw [ih true rest' (ascii_tail h)]
    | none =>
      simp only [hq]
      cases hs : scanQuot (d :: rest') with
      | none => rfl
      | some x =>
        obtain ⟨v, r⟩ := x
        simp only [Option.map_some, lowRest]
        rw [ih false r (scanQuot_rest_ascii h hs)]
        have hm' : (c.toLower = '-') ↔ (c = '-') := toLower_eq_minus hc
        by_cases hc' : c = '-'
        · rw [if_pos hc', if_pos (hm'.mpr hc')]
        · rw [if_neg hc', if_neg (fun h' => hc' (hm'.mp h'))]

theorem scanRow_lower : ∀ (fuel : Nat) (first : Bool) (e : List Char), (∀ c ∈ e, c.toNat < 128) →
    scanRow fuel first (lower e) = scanRowG axCI fuel first e := by
  intro fuel
  induction fuel with
  | zero => intro first e _; rfl
  | succ n ih =>
    intro first e h
    cases e with
    | nil => rfl
    | cons c rest =>
      have hc := ascii_head h
      have hr := ascii_tail h
      have hnum := numStep_lower n ih (c :: rest) h
      rw [lower_cons] at hnum
      rw [lower_cons, scanRow_cons, scanRowG_cons, signStep_lower n ih c hc rest hr, hnum,
        isSign_toLower hc, ih true rest hr]
      rfl

/-! ### splitting and filtering -/

theorem splitComma_cons (c : Char) (r : List Char) : splitComma (c :: r) =
    match splitComma r with
    | [] => [[c]]
    | h :: t => if c = ',' then [] :: h :: t else (c :: h) :: t := rfl

theorem splitComma_lower (t : List Char) (h : ∀ c ∈ t, c.toNat < 128) :
    splitComma (lower t) = (splitComma t).map lower := by
  induction t with
  | nil => rfl
  | cons c r ih =>
    have hc := ascii_head h
    have hcomma : (c.toLower = ',') ↔ (c = ',') := toLower_eq_comma hc
    rw [lower_cons, splitComma_cons, splitComma_cons, ih (ascii_tail h)]
    cases splitComma r with
    | nil => rfl
    | cons a tl =>
      simp only [List.map_cons]
      by_cases hc' : c = ','
      · rw [if_pos hc', if_pos (hcomma.mpr hc')]; rfl
      · rw [if_neg hc', if_neg (fun h' => hc' (hcomma.mp h'))]; rfl

theorem split_cons (sep c : Char) (r : List Char) : split sep (c :: r) =
    match split sep r with
    | [] => [[c]]
    | h :: t => if c = sep then [] :: h :: t else (c :: h) :: t := rfl

theorem split_mem (sep : Char) : ∀ (t e : List Char), e ∈ split sep t → ∀ c ∈ e, c ∈ t := by
  intro t
  induction t with
  | nil =>
    intro e he c hc
    have : e = [] := by simpa [split] using he
    subst this
    cases hc
  | cons x r ih =>
    intro e he c hc
    rw [split_cons] at he
    cases hs : split sep r with
    | nil =>
      rw [hs] at he
      simp only [List.mem_singleton] at he
      subst he
      simp only [List.mem_singleton] at hc
      subst hc
      exact List.mem_cons_self
    | cons a tl =>
      rw [hs] at he
      simp only at he
      by_cases hx : x = sep
      · rw [if_pos hx] at he
        rcases List.mem_cons.mp he with he | he
        · subst he; cases hc
        · exact List.mem_cons_of_mem _ (ih e (hs ▸ he) c hc)
      · rw [if_neg hx] at he
        rcases List.mem_cons.mp he with he | he
        · subst he
          rcases List.mem_cons.mp hc with hc | hc
          · subst hc; exact List.mem_cons_self
          · exact List.mem_cons_of_mem _ (ih a (hs ▸ List.mem_cons_self) c hc)
        · exact List.mem_cons_of_mem _ (ih e (hs ▸ List.mem_cons_of_mem _ he) c hc)

theorem removeAll_mem (x : Char) (s : List Char) : ∀ c ∈ removeAll x s, c ∈ s := by
  intro c hc
  unfold removeAll at hc
  exact (List.mem_filter.mp hc).1

end DS.SrcSymOp5
