import DS.Model.Dec
import Mathlib.Tactic.Ring
import Mathlib.Tactic.Linarith
import Mathlib.Tactic.FieldSimp
import Mathlib.Tactic.Positivity
import Mathlib.Data.Rat.Defs
import Mathlib.Algebra.Order.Field.Rat
import Mathlib.Algebra.Order.Field.Power

/-!
# Lemmas about the exact decimal text layer (`DS.Model.Dec`)
-/
namespace DS.Dec

/-! ## digits -/

theorem digitChar_toNat (d : Nat) : (digitChar d).toNat = 48 + d % 10 := by
  unfold digitChar
  have h : (48 + d % 10).isValidChar := by
    left; omega
  rw [Char.ofNat, dif_pos h]
  rfl

theorem digitVal_digitChar (d : Nat) : digitVal (digitChar d) = d % 10 := by
  simp [digitVal, digitChar_toNat]

theorem isDigit_digitChar (d : Nat) : isDigit (digitChar d) = true := by
  simp [isDigit, digitChar_toNat]; omega

theorem numOf_snoc (ds : Str) (c : Char) : numOf (ds ++ [c]) = numOf ds * 10 + digitVal c := by
  simp [numOf, List.foldl_append]

theorem numOf_nil : numOf [] = 0 := rfl

theorem numOf_append (a b : Str) : numOf (a ++ b) = numOf a * 10 ^ b.length + numOf b := by
  induction b using List.reverseRecOn with
  | nil => simp [numOf_nil]
  | append_singleton b c ih =>
    rw [← List.append_assoc, numOf_snoc, ih, numOf_snoc]
    simp [pow_succ]; ring

theorem allDigits_append (a b : Str) : allDigits (a ++ b) = (allDigits a && allDigits b) := by
  simp [allDigits]

theorem numOf_natDigits (n : Nat) : numOf (natDigits n) = n := by
  induction n using Nat.strongRecOn with
  | _ n ih =>
    unfold natDigits
    split
    · simp [numOf, digitVal_digitChar]; omega
    · rw [numOf_snoc, ih (n / 10) (by omega), digitVal_digitChar]; omega

theorem allDigits_natDigits (n : Nat) : allDigits (natDigits n) = true := by
  induction n using Nat.strongRecOn with
  | _ n ih =>
    unfold natDigits
    split
    · simp [allDigits, isDigit_digitChar]
    · rw [allDigits_append, ih (n / 10) (by omega)]; simp [allDigits, isDigit_digitChar]

theorem natDigits_ne_nil (n : Nat) : natDigits n ≠ [] := by
  unfold natDigits; split <;> simp

theorem length_fixDigits (k n : Nat) : (fixDigits k n).length = k := by
  induction k generalizing n with
  | zero => rfl
  | succ k ih => simp [fixDigits, ih]

theorem allDigits_fixDigits (k n : Nat) : allDigits (fixDigits k n) = true := by
  induction k generalizing n with
  | zero => rfl
  | succ k ih =>
    rw [fixDigits, allDigits_append, ih]; simp [allDigits, isDigit_digitChar]

theorem numOf_fixDigits (k n : Nat) : numOf (fixDigits k n) = n % 10 ^ k := by
  induction k generalizing n with
  | zero => simp [fixDigits, numOf_nil, Nat.mod_one]
  | succ k ih =>
    rw [fixDigits, numOf_snoc, ih, digitVal_digitChar, pow_succ]
    rw [Nat.mod_mul_left_div_self_aux n (10 ^ k)]
where
  Nat.mod_mul_left_div_self_aux (n m : Nat) : n / 10 % m * 10 + n % 10 = n % (m * 10) := by
    rw [Nat.mul_comm m 10, Nat.mod_mul, Nat.add_comm, Nat.mul_comm]

/-! ## `parseDec` on digit strings -/

theorem takeWhile_digits (ds rest : Str) (h : allDigits ds = true)
    (hr : ∀ c ∈ rest.head?, isDigit c = false) :
    (ds ++ rest).takeWhile isDigit = ds ∧ (ds ++ rest).dropWhile isDigit = rest := by
  induction ds with
  | nil =>
    cases rest with
    | nil => simp
    | cons c r => simp at hr; simp [hr]
  | cons d ds ih =>
    simp [allDigits] at h
    have := ih (by simp [allDigits]; exact h.2)
    simp [h.1, this]

theorem takeWhile_digits_self (ds : Str) (h : allDigits ds = true) :
    ds.takeWhile isDigit = ds ∧ ds.dropWhile isDigit = [] := by
  have := takeWhile_digits ds [] h (by simp)
  simpa using this

theorem isEmpty_false_of_ne {ds : Str} (h : ds ≠ []) : ds.isEmpty = false := by
  cases ds with
  | nil => exact absurd rfl h
  | cons => rfl

theorem parseUnsigned_int (neg : Bool) (ip : Str) (hi : allDigits ip = true) (hne : ip ≠ []) :
    parseUnsigned neg ip = some (decValue neg ip [] 0) := by
  have h := takeWhile_digits_self ip hi
  simp [parseUnsigned, h.1, h.2, parseFrac, isEmpty_false_of_ne hne, parseExp]

theorem parseUnsigned_fixed (neg : Bool) (ip fp : Str) (hi : allDigits ip = true)
    (hf : allDigits fp = true) (hne : ip ≠ []) :
    parseUnsigned neg (ip ++ '.' :: fp) = some (decValue neg ip fp 0) := by
  have h := takeWhile_digits ip ('.' :: fp) hi (by simp [isDigit])
  have h2 := takeWhile_digits_self fp hf
  simp [parseUnsigned, h.1, h.2, parseFrac, h2.1, h2.2, isEmpty_false_of_ne hne, parseExp]

theorem parseUnsigned_fixed_exp (neg : Bool) (ip fp ex : Str) (hi : allDigits ip = true)
    (hf : allDigits fp = true) (hne : ip ≠ []) :
    parseUnsigned neg (ip ++ '.' :: (fp ++ 'e' :: ex)) = (parseInt ex).map (decValue neg ip fp) := by
  have h := takeWhile_digits ip ('.' :: (fp ++ 'e' :: ex)) hi (by simp [isDigit])
  have h2 := takeWhile_digits fp ('e' :: ex) hf (by simp [isDigit])
  simp [parseUnsigned, h.1, h.2, parseFrac, h2.1, h2.2, isEmpty_false_of_ne hne, parseExp]

theorem parseUnsigned_int_exp (neg : Bool) (ip ex : Str) (hi : allDigits ip = true) (hne : ip ≠ []) :
    parseUnsigned neg (ip ++ 'e' :: ex) = (parseInt ex).map (decValue neg ip []) := by
  have h := takeWhile_digits ip ('e' :: ex) hi (by simp [isDigit])
  simp [parseUnsigned, h.1, h.2, parseFrac, isEmpty_false_of_ne hne, parseExp]

/-- the sign prefix is consumed by `parseDec` when the body starts with a digit -/
theorem parseDec_sign (neg : Bool) (c : Char) (cs : Str) (hc : isDigit c = true) :
    parseDec (signStr neg ++ c :: cs) = parseUnsigned neg (c :: cs) := by
  cases neg with
  | true => simp [signStr, parseDec]
  | false =>
    have h1 : c ≠ '-' := by rintro rfl; simp [isDigit] at hc
    have h2 : c ≠ '+' := by rintro rfl; simp [isDigit] at hc
    simp only [signStr, Bool.false_eq_true, if_false, List.nil_append]
    unfold parseDec
    split
    · rename_i h; cases h; exact absurd rfl h1
    · rename_i h; cases h; exact absurd rfl h2
    · rfl


/-! ## `%w.pf` parses back to the rounded value -/

theorem natDigits_head (n : Nat) : ∃ c cs, natDigits n = c :: cs ∧ isDigit c = true := by
  have h := allDigits_natDigits n
  cases hd : natDigits n with
  | nil => exact absurd hd (natDigits_ne_nil n)
  | cons c cs =>
    rw [hd] at h
    simp [allDigits] at h
    exact ⟨c, cs, rfl, h.1⟩

theorem decValue_zero (neg : Bool) (ip fp : Str) :
    decValue neg ip fp 0 =
      (if neg then -1 else 1) * (((numOf ip * 10 ^ fp.length + numOf fp : Nat) : Rat) / ((10 ^ fp.length : Nat) : Rat)) := by
  cases neg <;> simp [decValue, scale10]

theorem roundTo_eq (p : Nat) (x : Rat) :
    roundTo p x = (if x < 0 then -1 else 1) * ((scaledAbs p x : Nat) : Rat) / ((10 ^ p : Nat) : Rat) := by
  unfold roundTo
  split <;> simp

theorem parseDec_fixedBody (neg : Bool) (p m : Nat) :
    parseDec (signStr neg ++ fixedBody p m) =
      some ((if neg then -1 else 1) * ((m : Nat) : Rat) / ((10 ^ p : Nat) : Rat)) := by
  obtain ⟨c, cs, hcs, hc⟩ := natDigits_head (m / 10 ^ p)
  have hne : natDigits (m / 10 ^ p) ≠ [] := natDigits_ne_nil _
  have hi := allDigits_natDigits (m / 10 ^ p)
  unfold fixedBody
  by_cases hp : p = 0
  · subst hp
    simp only [if_true, List.append_nil]
    rw [hcs, parseDec_sign neg c cs hc, ← hcs, parseUnsigned_int neg _ hi hne, decValue_zero,
      numOf_natDigits]
    simp [numOf_nil]
  · simp only [hp, if_false]
    rw [hcs, List.cons_append, parseDec_sign neg c (cs ++ _) hc, ← List.cons_append, ← hcs,
      parseUnsigned_fixed neg _ _ hi (allDigits_fixDigits p m) hne, decValue_zero,
      numOf_natDigits, numOf_fixDigits, length_fixDigits, Nat.div_add_mod']
    congr 1; ring

theorem parseDec_fmtFbody (p : Nat) (x : Rat) : parseDec (fmtFbody p x) = some (roundTo p x) := by
  rw [fmtFbody, parseDec_fixedBody, roundTo_eq]
  simp


/-! ## blanks -/

/-- blank-free -/
def NoWs (s : Str) : Prop := ∀ c ∈ s, isWs c = false
/-- a token of `str.split()`: non-empty and blank-free -/
def IsTok (s : Str) : Prop := s ≠ [] ∧ NoWs s
/-- all blanks -/
def AllWs (s : Str) : Prop := ∀ c ∈ s, isWs c = true

theorem isWs_space : isWs ' ' = true := by decide

theorem isWs_of_isDigit {c : Char} (h : isDigit c = true) : isWs c = false := by
  simp only [isDigit, Bool.and_eq_true, decide_eq_true_eq] at h
  simp only [isWs, Bool.or_eq_false_iff, Bool.and_eq_false_iff, decide_eq_false_iff_not, beq_eq_false_iff_ne]
  omega

theorem NoWs_nil : NoWs [] := by intro c h; cases h
theorem NoWs_append {a b : Str} (ha : NoWs a) (hb : NoWs b) : NoWs (a ++ b) := by
  intro c h; rcases List.mem_append.1 h with h | h
  · exact ha c h
  · exact hb c h
theorem NoWs_cons {c : Char} {s : Str} (hc : isWs c = false) (hs : NoWs s) : NoWs (c :: s) := by
  intro d h; rcases List.mem_cons.1 h with h | h
  · exact h ▸ hc
  · exact hs d h
theorem NoWs_of_allDigits {s : Str} (h : allDigits s = true) : NoWs s := by
  intro c hc
  simp [allDigits] at h
  exact isWs_of_isDigit (h c hc)
theorem AllWs_replicate (k : Nat) : AllWs (List.replicate k ' ') := by
  intro c h; rw [List.eq_of_mem_replicate h]; exact isWs_space

/-! ### strip -/

theorem lstrip_allWs_append {b s : Str} (hb : AllWs b) : lstrip (b ++ s) = lstrip s := by
  induction b with
  | nil => rfl
  | cons c b ih =>
    have hc : isWs c = true := hb c (by simp)
    have := ih (fun d hd => hb d (by simp [hd]))
    simp [lstrip, hc] at this ⊢
    exact this

theorem lstrip_noWs {s : Str} (h : NoWs s) : lstrip s = s := by
  cases s with
  | nil => rfl
  | cons c s => simp [lstrip, List.dropWhile, h c (by simp)]

theorem rstrip_noWs {s : Str} (h : NoWs s) : rstrip s = s := by
  have h' : NoWs s.reverse := fun c hc => h c (List.mem_reverse.1 hc)
  have := lstrip_noWs h'
  simp [lstrip] at this
  simp [rstrip, this]

theorem rstrip_append_allWs {b s : Str} (hb : AllWs b) : rstrip (s ++ b) = rstrip s := by
  have hb' : AllWs b.reverse := fun c hc => hb c (List.mem_reverse.1 hc)
  have := lstrip_allWs_append (s := s.reverse) hb'
  simp [lstrip] at this
  simp [rstrip, this]

theorem strip_pad {a b s : Str} (ha : AllWs a) (hb : AllWs b) (hs : NoWs s) :
    strip (a ++ s ++ b) = s := by
  rw [strip, List.append_assoc, lstrip_allWs_append ha]
  cases s with
  | nil =>
    simp only [List.nil_append]
    have : lstrip b = [] := by
      have := lstrip_allWs_append (s := []) hb
      simpa [lstrip] using this
    rw [this]; rfl
  | cons c s =>
    have hc : isWs c = false := hs c (by simp)
    have : lstrip (c :: s ++ b) = c :: s ++ b := by simp [lstrip, hc]
    rw [this, rstrip_append_allWs hb, rstrip_noWs hs]

theorem strip_padLeft {s : Str} (w : Nat) (hs : NoWs s) : strip (padLeft w s) = s := by
  have := strip_pad (b := []) (AllWs_replicate (w - s.length)) (by intro c h; cases h) hs
  simpa [padLeft] using this

/-! ### `%w.pf` is blank-free; `float("%w.pf" % x)` -/

theorem NoWs_signStr (neg : Bool) : NoWs (signStr neg) := by
  cases neg
  · exact NoWs_nil
  · intro c h; simp [signStr] at h; subst h; decide

theorem NoWs_fixedBody (p m : Nat) : NoWs (fixedBody p m) := by
  unfold fixedBody
  apply NoWs_append (NoWs_of_allDigits (allDigits_natDigits _))
  split
  · exact NoWs_nil
  · exact NoWs_cons (by decide) (NoWs_of_allDigits (allDigits_fixDigits _ _))

theorem NoWs_fmtFbody (p : Nat) (x : Rat) : NoWs (fmtFbody p x) :=
  NoWs_append (NoWs_signStr _) (NoWs_fixedBody _ _)

theorem fmtFbody_ne_nil (p : Nat) (x : Rat) : fmtFbody p x ≠ [] := by
  unfold fmtFbody fixedBody
  have := natDigits_ne_nil (scaledAbs p x / 10 ^ p)
  simp [this]

/-- `float("%w.pf" % x)` is `x` rounded half-even to `p` decimals, for every width -/
theorem pyFloat_fmtF (w p : Nat) (x : Rat) : pyFloat (fmtF w p x) = some (roundTo p x) := by
  rw [pyFloat, fmtF, strip_padLeft w (NoWs_fmtFbody p x), parseDec_fmtFbody]

/-! ### split -/

theorem splitAux_noWs (t s acc : Str) (ht : NoWs t) :
    splitAux (t ++ s) acc = splitAux s (t.reverse ++ acc) := by
  induction t generalizing acc with
  | nil => rfl
  | cons c t ih =>
    have hc : isWs c = false := ht c (by simp)
    simp only [List.cons_append, splitAux, hc, Bool.false_eq_true, if_false]
    rw [ih _ (fun d hd => ht d (by simp [hd]))]
    simp

theorem splitAux_ws_nil (c : Char) (s : Str) (hc : isWs c = true) :
    splitAux (c :: s) [] = splitAux s [] := by
  simp [splitAux, hc]

theorem splitWs_allWs_append {b s : Str} (hb : AllWs b) : splitWs (b ++ s) = splitWs s := by
  induction b with
  | nil => rfl
  | cons c b ih =>
    have hc : isWs c = true := hb c (by simp)
    have := ih (fun d hd => hb d (by simp [hd]))
    simp only [splitWs] at this ⊢
    rw [List.cons_append, splitAux_ws_nil _ _ hc, this]

theorem splitWs_tok_end {t : Str} (ht : IsTok t) : splitWs t = [t] := by
  have := splitAux_noWs t [] [] ht.2
  simp only [List.append_nil] at this
  rw [splitWs, this]
  simp [splitAux, ht.1]

theorem splitWs_tok_ws {t s : Str} {c : Char} (ht : IsTok t) (hc : isWs c = true) :
    splitWs (t ++ c :: s) = t :: splitWs s := by
  rw [splitWs, splitAux_noWs t (c :: s) [] ht.2]
  simp [splitAux, hc, ht.1, splitWs]

theorem splitWs_nil : splitWs [] = [] := rfl

theorem splitWs_allWs {b : Str} (hb : AllWs b) : splitWs b = [] := by
  have := splitWs_allWs_append (s := []) hb
  simpa [splitWs_nil] using this

/-- `" ".join(tokens).split() == tokens` for non-empty blank-free tokens -/
theorem split_join (toks : List Str) (h : ∀ t ∈ toks, IsTok t) :
    splitWs ([' '].intercalate toks) = toks := by
  induction toks with
  | nil => rfl
  | cons t ts ih =>
    cases ts with
    | nil => simpa [List.intercalate] using splitWs_tok_end (h t (by simp))
    | cons u us =>
      have := ih (fun x hx => h x (by simp [hx]))
      have e : [' '].intercalate (t :: u :: us) = t ++ ' ' :: [' '].intercalate (u :: us) := by
        simp [List.intercalate, List.intersperse]
      rw [e, splitWs_tok_ws (h t (by simp)) isWs_space, this]



/-! ## rounding: error bound and idempotence -/

theorem rhe_mul_self (a d : Nat) (hd : 0 < d) : rhe (a * d) d = a := by
  unfold rhe
  simp [Nat.mul_div_cancel _ hd, Nat.mul_mod_left, hd]

/-- `rhe n d` is within half a unit of `n / d` -/
theorem rhe_spec (n d : Nat) (hd : 0 < d) :
    2 * (rhe n d * d) ≤ 2 * n + d ∧ 2 * n ≤ 2 * (rhe n d * d) + d := by
  have h1 := Nat.div_add_mod n d
  have h2 := Nat.mod_lt n hd
  have h3 : (n / d + 1) * d = d * (n / d) + d := by ring
  have h4 : n / d * d = d * (n / d) := by ring
  unfold rhe
  simp only
  split
  · rw [h4]; omega
  · split
    · rw [h3]; omega
    · split
      · rw [h4]; omega
      · rw [h3]; omega

theorem ten_pow_pos_rat (p : Nat) : (0 : Rat) < ((10 ^ p : Nat) : Rat) := by
  positivity

theorem rat_eq_natAbs (x : Rat) :
    x = (if x < 0 then -1 else 1) * ((x.num.natAbs : Nat) : Rat) / ((x.den : Nat) : Rat) := by
  have hden : (0 : Rat) < (x.den : Rat) := by exact_mod_cast x.den_pos
  have hx : x = (x.num : Rat) / (x.den : Rat) := (Rat.num_div_den x).symm
  split
  · rename_i h
    have hn : x.num < 0 := Rat.num_neg.2 h
    have : ((x.num.natAbs : Nat) : Rat) = -(x.num : Rat) := by
      have h' : ((x.num.natAbs : Nat) : Int) = -x.num := by omega
      rw [← Int.cast_natCast, h', Int.cast_neg]
    rw [this]; rw [hx] at *; simp
    conv_lhs => rw [hx]
  · rename_i h
    have hn : 0 ≤ x.num := Rat.num_nonneg.2 (not_lt.1 h)
    have : ((x.num.natAbs : Nat) : Rat) = (x.num : Rat) := by
      have h' : ((x.num.natAbs : Nat) : Int) = x.num := by omega
      rw [← Int.cast_natCast, h']
    rw [this]; simp
    conv_lhs => rw [hx]

theorem round_key (r a t d s : Rat) (hp : 0 < t) (hdq : 0 < d)
    (h1q : 2 * (r * d) ≤ 2 * (a * t) + d) (h2q : 2 * (a * t) ≤ 2 * (r * d) + d)
    (hs : s = 1 ∨ s = -1) : |s * r / t - s * a / d| ≤ 1 / (2 * t) := by
  have e : s * r / t - s * a / d = s * (r * d - a * t) / (t * d) := by
    field_simp
  rw [e, abs_div, abs_mul, abs_of_pos (mul_pos hp hdq)]
  have hs1 : |s| = 1 := by rcases hs with h | h <;> simp [h]
  rw [hs1, one_mul, div_le_div_iff₀ (mul_pos hp hdq) (by positivity)]
  have h3 : |r * d - a * t| ≤ d / 2 := by
    rw [abs_le]; constructor <;> linarith
  calc |r * d - a * t| * (2 * t) ≤ d / 2 * (2 * t) := by
        apply mul_le_mul_of_nonneg_right h3 (by positivity)
    _ = 1 * (t * d) := by ring

/-- `"%.pf"` is correctly rounded: the printed number is within half a unit of the last place -/
theorem roundTo_error (p : Nat) (x : Rat) :
    |roundTo p x - x| ≤ 1 / (2 * ((10 ^ p : Nat) : Rat)) := by
  have hd : 0 < x.den := x.den_pos
  have hdq : (0 : Rat) < (x.den : Rat) := by exact_mod_cast hd
  have hp := ten_pow_pos_rat p
  obtain ⟨h1, h2⟩ := rhe_spec (x.num.natAbs * 10 ^ p) x.den hd
  have h1q : (2 : Rat) * ((scaledAbs p x : Nat) * (x.den : Rat)) ≤ 2 * ((x.num.natAbs : Nat) * ((10 ^ p : Nat) : Rat)) + x.den := by
    unfold scaledAbs; exact_mod_cast h1
  have h2q : (2 : Rat) * ((x.num.natAbs : Nat) * ((10 ^ p : Nat) : Rat)) ≤ 2 * ((scaledAbs p x : Nat) * (x.den : Rat)) + x.den := by
    unfold scaledAbs; exact_mod_cast h2
  have hX := rat_eq_natAbs x
  have hR := roundTo_eq p x
  by_cases hx : x < 0
  · rw [if_pos hx] at hX hR
    calc |roundTo p x - x| = |(-1) * ((scaledAbs p x : Nat) : Rat) / ((10 ^ p : Nat) : Rat)
            - (-1) * ((x.num.natAbs : Nat) : Rat) / (x.den : Rat)| := by rw [hR, ← hX]
      _ ≤ _ := round_key _ _ _ _ _ hp hdq h1q h2q (Or.inr rfl)
  · rw [if_neg hx] at hX hR
    calc |roundTo p x - x| = |1 * ((scaledAbs p x : Nat) : Rat) / ((10 ^ p : Nat) : Rat)
            - 1 * ((x.num.natAbs : Nat) : Rat) / (x.den : Rat)| := by rw [hR, ← hX]
      _ ≤ _ := round_key _ _ _ _ _ hp hdq h1q h2q (Or.inl rfl)



theorem scaledAbs_of_decimal (p : Nat) (k : Int) :
    scaledAbs p ((k : Rat) / ((10 ^ p : Nat) : Rat)) = k.natAbs := by
  set y : Rat := (k : Rat) / ((10 ^ p : Nat) : Rat) with hy
  have hp := ten_pow_pos_rat p
  have hdq : (0 : Rat) < (y.den : Rat) := by exact_mod_cast y.den_pos
  have h0 : (y.num : Rat) / (y.den : Rat) = (k : Rat) / ((10 ^ p : Nat) : Rat) := by
    rw [Rat.num_div_den]
  have h1 : (y.num : Rat) * ((10 ^ p : Nat) : Rat) = (k : Rat) * (y.den : Rat) := by
    rw [div_eq_div_iff (ne_of_gt hdq) (ne_of_gt hp)] at h0; exact h0
  have h2 : y.num * ((10 ^ p : Nat) : Int) = k * (y.den : Int) := by exact_mod_cast h1
  have h3 : y.num.natAbs * 10 ^ p = k.natAbs * y.den := by
    have := congrArg Int.natAbs h2
    simpa [Int.natAbs_mul] using this
  unfold scaledAbs
  rw [h3, rhe_mul_self _ _ y.den_pos]

/-- a number with `p` decimals is printed exactly -/
theorem roundTo_of_decimal (p : Nat) (k : Int) :
    roundTo p ((k : Rat) / ((10 ^ p : Nat) : Rat)) = (k : Rat) / ((10 ^ p : Nat) : Rat) := by
  have hp := ten_pow_pos_rat p
  rw [roundTo_eq, scaledAbs_of_decimal]
  by_cases hk : k < 0
  · have : (k : Rat) / ((10 ^ p : Nat) : Rat) < 0 := div_neg_of_neg_of_pos (by exact_mod_cast hk) hp
    rw [if_pos this]
    have h' : ((k.natAbs : Nat) : Int) = -k := by omega
    rw [← Int.cast_natCast, h', Int.cast_neg]; ring
  · have : ¬ (k : Rat) / ((10 ^ p : Nat) : Rat) < 0 := by
      rw [not_lt]; exact div_nonneg (by exact_mod_cast (not_lt.1 hk)) hp.le
    rw [if_neg this]
    have h' : ((k.natAbs : Nat) : Int) = k := by omega
    rw [← Int.cast_natCast, h']; ring

/-- rounding twice = rounding once: a printed number re-prints identically -/
theorem roundTo_idem (p : Nat) (x : Rat) : roundTo p (roundTo p x) = roundTo p x := by
  unfold roundTo
  exact roundTo_of_decimal p _

theorem fmtFbody_roundTo_abs (p : Nat) (x : Rat) : scaledAbs p (roundTo p x) = scaledAbs p x := by
  unfold roundTo
  rw [scaledAbs_of_decimal]
  split <;> simp



/-! ## lines ↔ text -/

def isNL (c : Char) : Bool := c == '\n' || c == '\r'

/-- no line break character -/
def NoNL (s : Str) : Prop := ∀ c ∈ s, isNL c = false

theorem splitLinesAux_noNL (l rest acc : Str) (h : NoNL l) :
    splitLinesAux (l ++ '\n' :: rest) acc = (acc.reverse ++ l) :: splitLinesAux rest [] := by
  induction l generalizing acc with
  | nil => simp [splitLinesAux]
  | cons c l ih =>
    have hc : (c == '\n') = false := by
      have := h c (by simp)
      simp [isNL] at this; simp [this.1]
    simp only [List.cons_append, splitLinesAux, hc, Bool.false_eq_true, if_false]
    rw [ih _ (fun d hd => h d (by simp [hd]))]
    simp

theorem splitLinesAux_last (l acc : Str) (h : NoNL l) :
    splitLinesAux l acc = [acc.reverse ++ l] := by
  induction l generalizing acc with
  | nil => simp [splitLinesAux]
  | cons c l ih =>
    have hc : (c == '\n') = false := by
      have := h c (by simp)
      simp [isNL] at this; simp [this.1]
    simp only [splitLinesAux, hc, Bool.false_eq_true, if_false]
    rw [ih _ (fun d hd => h d (by simp [hd]))]
    simp

theorem splitLines_joinLines (L : List Str) (hne : L ≠ []) (h : ∀ l ∈ L, NoNL l) :
    splitLines (joinLines L) = L := by
  induction L with
  | nil => exact absurd rfl hne
  | cons l ls ih =>
    cases ls with
    | nil =>
      simp only [joinLines, splitLines]
      rw [splitLinesAux_last l [] (h l (by simp))]; simp
    | cons m ms =>
      simp only [joinLines, splitLines]
      rw [splitLinesAux_noNL l _ [] (h l (by simp))]
      have := ih (by simp) (fun x hx => h x (by simp [hx]))
      simp only [splitLines] at this
      rw [this]; simp

theorem joinLines_snoc (L : List Str) (l : Str) :
    joinLines (L ++ [l]) = if L = [] then l else joinLines L ++ '\n' :: l := by
  induction L with
  | nil => simp [joinLines]
  | cons a as ih =>
    cases as with
    | nil => simp [joinLines]
    | cons b bs =>
      have : joinLines (a :: b :: bs ++ [l]) = a ++ '\n' :: joinLines (b :: bs ++ [l]) := by
        simp [joinLines]
      rw [this, ih]; simp [joinLines]

theorem rstripNL_snoc_nl (s : Str) (c : Char) (hc : isNL c = false) :
    rstripNL (s ++ [c] ++ ['\n']) = s ++ [c] := by
  have hc' : (c == '\n' || c == '\r') = false := hc
  simp [rstripNL, List.dropWhile, hc']

/-- `StructureParser.parse(StructureParser.tostring(·))` hands `parseLines` the very lines that
`toLines` produced, when no line contains a line break and the last line is not empty -/
theorem ofText_toText (L : List Str) (hne : L ≠ []) (h : ∀ l ∈ L, NoNL l)
    (hlast : L.getLast hne ≠ []) : ofText (toText L) = L := by
  obtain ⟨init, last, rfl⟩ : ∃ init last, L = init ++ [last] :=
    ⟨L.dropLast, L.getLast hne, (List.dropLast_append_getLast hne).symm⟩
  have hl : last ≠ [] := by simpa using hlast
  obtain ⟨pre, c, rfl⟩ : ∃ pre c, last = pre ++ [c] :=
    ⟨last.dropLast, last.getLast hl, (List.dropLast_append_getLast hl).symm⟩
  have hc : isNL c = false := h (pre ++ [c]) (by simp) c (by simp)
  have e : ∃ s, joinLines (init ++ [pre ++ [c]]) = s ++ [c] := by
    rw [joinLines_snoc]; split
    · exact ⟨pre, rfl⟩
    · exact ⟨joinLines init ++ '\n' :: pre, by simp⟩
  obtain ⟨s, hs⟩ := e
  unfold ofText toText
  rw [hs, rstripNL_snoc_nl s c hc, ← hs, splitLines_joinLines _ hne h]



/-! ## `%g` tokens are non-empty and blank-free; canonical integers -/

theorem NoWs_stripZeros {ds : Str} (h : NoWs ds) : NoWs (stripZeros ds) := by
  intro c hc
  unfold stripZeros at hc
  rw [List.mem_reverse] at hc
  exact h c (List.mem_reverse.1 ((List.dropWhile_sublist _).subset hc))

theorem NoWs_fracPart {ds : Str} (h : NoWs ds) : NoWs (fracPart ds) := by
  unfold fracPart
  simp only
  split
  · exact NoWs_nil
  · exact NoWs_cons (by decide) (NoWs_stripZeros h)

theorem NoWs_expStr (X : Int) : NoWs (expStr X) := by
  unfold expStr
  apply NoWs_cons (by decide)
  apply NoWs_cons (by split <;> decide)
  split
  · exact NoWs_cons (by decide) (NoWs_of_allDigits (allDigits_natDigits _))
  · exact NoWs_of_allDigits (allDigits_natDigits _)

theorem NoWs_gBody (P : Nat) (X : Int) (m : Nat) : NoWs (gBody P X m) := by
  unfold gBody
  split
  · exact NoWs_append (NoWs_of_allDigits (allDigits_natDigits _))
      (NoWs_fracPart (NoWs_of_allDigits (allDigits_fixDigits _ _)))
  · exact NoWs_append (NoWs_append (NoWs_of_allDigits (allDigits_natDigits _))
      (NoWs_fracPart (NoWs_of_allDigits (allDigits_fixDigits _ _)))) (NoWs_expStr _)

theorem gBody_ne_nil (P : Nat) (X : Int) (m : Nat) : gBody P X m ≠ [] := by
  unfold gBody
  split
  · simp [natDigits_ne_nil]
  · simp [natDigits_ne_nil]

theorem IsTok_fmtG (P : Nat) (x : Rat) : IsTok (fmtG P x) := by
  unfold fmtG fmtGbody
  split
  · exact ⟨by simp, NoWs_cons (by decide) NoWs_nil⟩
  · exact ⟨by simp [gBody_ne_nil], NoWs_append (NoWs_signStr _) (NoWs_gBody _ _ _)⟩

theorem IsTok_fmtFbody (p : Nat) (x : Rat) : IsTok (fmtFbody p x) :=
  ⟨fmtFbody_ne_nil p x, NoWs_fmtFbody p x⟩

theorem isWs_of_isGraphA {c : Char} (h : isGraphA c = true) : isWs c = false := by
  simp only [isGraphA, Bool.and_eq_true, decide_eq_true_eq] at h
  simp only [isWs, Bool.or_eq_false_iff, Bool.and_eq_false_iff, decide_eq_false_iff_not, beq_eq_false_iff_ne]
  omega

theorem natDigits_head_nonzero (n : Nat) (hn : 0 < n) :
    ∃ c cs, natDigits n = c :: cs ∧ c ≠ '0' ∧ isDigit c = true := by
  induction n using Nat.strongRecOn with
  | _ n ih =>
    unfold natDigits
    split
    · refine ⟨digitChar n, [], rfl, ?_, isDigit_digitChar n⟩
      intro h
      have := congrArg Char.toNat h
      rw [digitChar_toNat] at this
      simp at this; omega
    · obtain ⟨c, cs, h1, h2, h3⟩ := ih (n / 10) (by omega) (by omega)
      exact ⟨c, cs ++ [digitChar n], by simp [h1], h2, h3⟩

theorem natDigits_zero : natDigits 0 = ['0'] := by
  unfold natDigits; simp [digitChar]



/-! ## `%g` parses back to the value it denotes -/

theorem scale10_eq_zpow (v : Rat) (e : Int) : scale10 v e = v * (10 : Rat) ^ e := by
  unfold scale10
  split
  · rename_i h
    have : e = (e.toNat : Int) := (Int.toNat_of_nonneg h).symm
    conv_rhs => rw [this, zpow_natCast]
    push_cast; rfl
  · rename_i h
    have h' : 0 ≤ -e := by omega
    have : e = -((-e).toNat : Int) := by rw [Int.toNat_of_nonneg h']; ring
    conv_rhs => rw [this, zpow_neg, zpow_natCast]
    push_cast; rw [div_eq_mul_inv]

theorem takeWhile_all {α} (p : α → Bool) (l : List α) : ∀ c ∈ l.takeWhile p, p c = true := by
  induction l with
  | nil => intro c h; cases h
  | cons a l ih =>
    intro c h
    by_cases ha : p a = true
    · simp [List.takeWhile, ha] at h
      rcases h with rfl | h
      · exact ha
      · exact ih c h
    · simp [List.takeWhile, ha] at h

theorem stripZeros_spec (ds : Str) :
    ∃ j, ds = stripZeros ds ++ List.replicate j '0' := by
  unfold stripZeros
  have h := List.takeWhile_append_dropWhile (p := (· == '0')) (l := ds.reverse)
  have ht : ∀ c ∈ ds.reverse.takeWhile (· == '0'), c = '0' := by
    intro c hc
    have := takeWhile_all (· == '0') ds.reverse c hc
    simpa using this
  refine ⟨(ds.reverse.takeWhile (· == '0')).length, ?_⟩
  have e : ds.reverse.takeWhile (· == '0') = List.replicate (ds.reverse.takeWhile (· == '0')).length '0' :=
    List.eq_replicate_of_mem ht
  have h2 : ds = (ds.reverse.dropWhile (· == '0')).reverse ++ (ds.reverse.takeWhile (· == '0')).reverse := by
    have h3 := congrArg List.reverse h
    rw [List.reverse_append, List.reverse_reverse] at h3
    exact h3.symm
  conv_lhs => rw [h2]
  congr 1
  rw [e]; simp

theorem numOf_replicate_zero (j : Nat) : numOf (List.replicate j '0') = 0 := by
  induction j with
  | zero => rfl
  | succ j ih =>
    rw [List.replicate_succ', numOf_snoc, ih]; simp [digitVal]

theorem allDigits_stripZeros {ds : Str} (h : allDigits ds = true) : allDigits (stripZeros ds) = true := by
  obtain ⟨j, hj⟩ := stripZeros_spec ds
  rw [hj, allDigits_append] at h
  simp at h; exact h.1

/-- value of a fraction digit string is unchanged by removing trailing zeros -/
theorem frac_value (q : Nat) (F : Str) :
    ((q * 10 ^ (stripZeros F).length + numOf (stripZeros F) : Nat) : Rat) / ((10 ^ (stripZeros F).length : Nat) : Rat)
      = ((q * 10 ^ F.length + numOf F : Nat) : Rat) / ((10 ^ F.length : Nat) : Rat) := by
  obtain ⟨j, hj⟩ := stripZeros_spec F
  generalize stripZeros F = G at hj
  subst hj
  rw [numOf_append, numOf_replicate_zero, List.length_append, List.length_replicate]
  have h1 := ten_pow_pos_rat G.length
  have h2 := ten_pow_pos_rat (G.length + j)
  rw [div_eq_div_iff (ne_of_gt h1) (ne_of_gt h2)]
  push_cast
  ring

/-- integer part, optional fraction without trailing zeros: the fixed notation of `%g` -/
theorem parseUnsigned_gfixed (neg : Bool) (q : Nat) (F : Str) (hF : allDigits F = true) :
    parseUnsigned neg (natDigits q ++ fracPart F) =
      some ((if neg then -1 else 1) * (((q * 10 ^ F.length + numOf F : Nat) : Rat) / ((10 ^ F.length : Nat) : Rat))) := by
  have hi := allDigits_natDigits q
  have hne := natDigits_ne_nil q
  unfold fracPart
  simp only
  split
  · rename_i he
    have he' : stripZeros F = [] := by simpa using he
    rw [List.append_nil, parseUnsigned_int neg _ hi hne, decValue_zero, numOf_natDigits]
    have := frac_value q F
    rw [he'] at this
    simp only [List.length_nil, pow_zero, numOf_nil] at this ⊢
    rw [← this]
  · rw [parseUnsigned_fixed neg _ _ hi (allDigits_stripZeros hF) hne, decValue_zero, numOf_natDigits,
      frac_value]

theorem numOf_cons_zero (ds : Str) : numOf ('0' :: ds) = numOf ds := by
  simp [numOf, digitVal]

theorem parseInt_signed (neg : Bool) (ds : Str) (hd : allDigits ds = true) (hne : ds ≠ []) :
    parseInt ((if neg then '-' else '+') :: ds) = some (if neg then -(numOf ds : Int) else (numOf ds : Int)) := by
  cases neg <;> simp [parseInt, parseDigitsInt, hd, isEmpty_false_of_ne hne]

theorem parseInt_expStr (X : Int) : parseInt ((expStr X).drop 1) = some X := by
  unfold expStr
  simp only [List.drop_succ_cons, List.drop_zero]
  have hd := allDigits_natDigits X.natAbs
  have hne := natDigits_ne_nil X.natAbs
  have hnum := numOf_natDigits X.natAbs
  have key : ∀ ds : Str, allDigits ds = true → ds ≠ [] → numOf ds = X.natAbs →
      parseInt ((if X < 0 then '-' else '+') :: ds) = some X := by
    intro ds h1 h2 h3
    have := parseInt_signed (decide (X < 0)) ds h1 h2
    simp only [decide_eq_true_eq] at this
    rw [this, h3]
    by_cases hx : X < 0
    · rw [if_pos hx]; congr 1; omega
    · rw [if_neg hx]; congr 1; omega
  by_cases h10 : X.natAbs < 10
  · rw [if_pos h10]
    exact key _ (by simp [allDigits, isDigit] at hd ⊢; exact hd) (by simp) (by rw [numOf_cons_zero, hnum])
  · rw [if_neg h10]
    exact key _ hd hne hnum



theorem decValue_eq (neg : Bool) (ip fp : Str) (e : Int) :
    decValue neg ip fp e = (if neg then -1 else 1) *
      scale10 (((numOf ip * 10 ^ fp.length + numOf fp : Nat) : Rat) / ((10 ^ fp.length : Nat) : Rat)) e := by
  cases neg <;> simp [decValue]

theorem expStr_eq (X : Int) : expStr X = 'e' :: (expStr X).drop 1 := by
  unfold expStr; rfl

theorem parseUnsigned_gexp (neg : Bool) (q : Nat) (F : Str) (hF : allDigits F = true) (X : Int) :
    parseUnsigned neg (natDigits q ++ fracPart F ++ expStr X) =
      some ((if neg then -1 else 1) *
        scale10 (((q * 10 ^ F.length + numOf F : Nat) : Rat) / ((10 ^ F.length : Nat) : Rat)) X) := by
  have hi := allDigits_natDigits q
  have hne := natDigits_ne_nil q
  rw [expStr_eq]
  unfold fracPart
  simp only
  split
  · rename_i he
    have he' : stripZeros F = [] := by simpa using he
    rw [List.append_nil, parseUnsigned_int_exp neg _ _ hi hne, parseInt_expStr, Option.map_some,
      decValue_eq, numOf_natDigits]
    have := frac_value q F
    rw [he'] at this
    simp only [List.length_nil, numOf_nil] at this ⊢
    rw [this]
  · rw [List.append_assoc, List.cons_append, parseUnsigned_fixed_exp neg _ _ _ hi (allDigits_stripZeros hF) hne,
      parseInt_expStr, Option.map_some, decValue_eq, numOf_natDigits, frac_value]

theorem div_mod_value (m k : Nat) :
    ((m / 10 ^ k * 10 ^ (fixDigits k m).length + numOf (fixDigits k m) : Nat) : Rat)
      / ((10 ^ (fixDigits k m).length : Nat) : Rat) = (m : Rat) / ((10 ^ k : Nat) : Rat) := by
  rw [length_fixDigits, numOf_fixDigits, Nat.div_add_mod']

theorem natDigits_append_head (n : Nat) (s : Str) :
    ∃ c cs, natDigits n ++ s = c :: cs ∧ isDigit c = true := by
  obtain ⟨c, cs, h, hc⟩ := natDigits_head n
  exact ⟨c, cs ++ s, by rw [h]; rfl, hc⟩

/-- `float("%.Pg" % x)` is the number `%.Pg` denotes (`x` rounded to `P` significant digits) -/
theorem parseDec_fmtGbody (P : Nat) (hP : 1 ≤ P) (x : Rat) : parseDec (fmtGbody P x) = some (roundSigP P x) := by
  unfold fmtGbody roundSigP
  by_cases hx : x = 0
  · simp only [hx, if_true]
    simp [parseDec, parseUnsigned, parseFrac, parseExp, isDigit, decValue, scale10, numOf, digitVal]
  simp only [hx, if_false]
  generalize sci P x.num.natAbs x.den = r
  obtain ⟨X, m⟩ := r
  simp only
  have hsign : (if x < 0 then -scale10 (m : Rat) (X - (P : Int) + 1) else scale10 (m : Rat) (X - (P : Int) + 1))
      = (if decide (x < 0) = true then -1 else 1) * scale10 (m : Rat) (X - (P : Int) + 1) := by
    by_cases h : x < 0 <;> simp [h]
  rw [hsign]
  unfold gBody
  split
  · rename_i hfix
    simp only
    obtain ⟨c, cs, hcs, hc⟩ := natDigits_append_head (m / 10 ^ ((P : Int) - 1 - X).toNat)
      (fracPart (fixDigits ((P : Int) - 1 - X).toNat m))
    rw [hcs, parseDec_sign _ c cs hc, ← hcs, parseUnsigned_gfixed _ _ _ (allDigits_fixDigits _ _), div_mod_value]
    congr 2
    rw [scale10_eq_zpow]
    have hk : (((P : Int) - 1 - X).toNat : Int) = (P : Int) - 1 - X := Int.toNat_of_nonneg (by omega)
    have e : X - (P : Int) + 1 = -((((P : Int) - 1 - X).toNat : Nat) : Int) := by rw [hk]; ring
    rw [e, zpow_neg, zpow_natCast, div_eq_mul_inv]
    push_cast; rfl
  · obtain ⟨c, cs, hcs, hc⟩ := natDigits_append_head (m / 10 ^ (P - 1))
      (fracPart (fixDigits (P - 1) m) ++ expStr X)
    rw [← List.append_assoc] at hcs
    rw [hcs, parseDec_sign _ c cs hc, ← hcs, parseUnsigned_gexp _ _ _ (allDigits_fixDigits _ _), div_mod_value]
    congr 2
    rw [scale10_eq_zpow, scale10_eq_zpow]
    have e : X - (P : Int) + 1 = X - (((P - 1 : Nat)) : Int) := by omega
    rw [e, zpow_sub₀ (by norm_num : (10 : Rat) ≠ 0), zpow_natCast]
    push_cast
    field_simp

/-- `float("%.Pg" % x)` = `x` rounded to `P` significant digits, for every precision -/
theorem parseDec_fmtG (P : Nat) (x : Rat) : parseDec (fmtG P x) = some (roundSig P x) := by
  unfold fmtG roundSig
  exact parseDec_fmtGbody _ (by split <;> omega) x



/-! ## more on blanks: decomposition of a string into blanks · core · blanks -/

/-- non-empty, first and last character not blank -/
def Core (m : Str) : Prop := (∃ c cs, m = c :: cs ∧ isWs c = false) ∧ (∃ cs c, m = cs ++ [c] ∧ isWs c = false)

theorem dropWhile_eq_nil_iff_all {α} (p : α → Bool) (l : List α) : l.dropWhile p = [] ↔ ∀ c ∈ l, p c = true := by
  induction l with
  | nil => simp
  | cons a l ih =>
    by_cases ha : p a = true
    · simp [List.dropWhile, ha, ih]
    · simp [List.dropWhile, ha]

theorem lstrip_eq_nil_iff (s : Str) : lstrip s = [] ↔ AllWs s := dropWhile_eq_nil_iff_all _ _

theorem lstrip_head (s : Str) (h : lstrip s ≠ []) : ∃ c cs, lstrip s = c :: cs ∧ isWs c = false := by
  unfold lstrip at *
  cases hd : s.dropWhile isWs with
  | nil => exact absurd hd h
  | cons c cs =>
    refine ⟨c, cs, rfl, ?_⟩
    have := List.head_dropWhile_not isWs (l := s) (by rw [hd]; simp)
    simpa [hd] using this

theorem lstrip_split (s : Str) : ∃ a, AllWs a ∧ s = a ++ lstrip s :=
  ⟨s.takeWhile isWs, takeWhile_all isWs s, (List.takeWhile_append_dropWhile (p := isWs) (l := s)).symm⟩

theorem rstrip_split (s : Str) : ∃ b, AllWs b ∧ s = rstrip s ++ b := by
  obtain ⟨a, ha, h⟩ := lstrip_split s.reverse
  refine ⟨a.reverse, fun c hc => ha c (List.mem_reverse.1 hc), ?_⟩
  have := congrArg List.reverse h
  simpa [rstrip, lstrip] using this

theorem rstrip_last (s : Str) (h : rstrip s ≠ []) : ∃ cs c, rstrip s = cs ++ [c] ∧ isWs c = false := by
  have h' : lstrip s.reverse ≠ [] := by
    intro e; apply h; simp [rstrip]; simpa [lstrip] using e
  obtain ⟨c, cs, hc, hw⟩ := lstrip_head s.reverse h'
  refine ⟨cs.reverse, c, ?_, hw⟩
  simp only [rstrip]
  have : List.dropWhile isWs s.reverse = c :: cs := hc
  rw [this]; simp

/-- every string is all blanks, or blanks ++ core ++ blanks -/
theorem ws_decomp (s : Str) : AllWs s ∨ ∃ a m b, s = a ++ m ++ b ∧ AllWs a ∧ AllWs b ∧ Core m := by
  by_cases h : lstrip s = []
  · left; exact (lstrip_eq_nil_iff s).1 h
  · right
    obtain ⟨a, ha, hs⟩ := lstrip_split s
    obtain ⟨c, cs, hc, hw⟩ := lstrip_head s h
    obtain ⟨b, hb, hr⟩ := rstrip_split (lstrip s)
    have hne : rstrip (lstrip s) ≠ [] := by
      intro e
      rw [e, List.nil_append] at hr
      rw [hr] at hc
      have := hb c (by rw [hc]; simp)
      rw [hw] at this; cases this
    obtain ⟨ds, d, hd, hdw⟩ := rstrip_last (lstrip s) hne
    refine ⟨a, rstrip (lstrip s), b, ?_, ha, hb, ?_, ⟨ds, d, hd, hdw⟩⟩
    · rw [List.append_assoc, ← hr]; exact hs
    · -- head of rstrip (lstrip s) is the head of lstrip s
      cases hm : rstrip (lstrip s) with
      | nil => exact absurd hm hne
      | cons e es =>
        rw [hm] at hr
        rw [hr] at hc
        simp at hc
        exact ⟨e, es, rfl, hc.1 ▸ hw⟩

theorem lstrip_core {a m s : Str} (ha : AllWs a) (hm : Core m) : lstrip (a ++ m ++ s) = m ++ s := by
  obtain ⟨⟨c, cs, rfl, hc⟩, _⟩ := hm
  rw [List.append_assoc, lstrip_allWs_append ha]
  simp [lstrip, hc]

theorem rstrip_core {b m s : Str} (hb : AllWs b) (hm : Core m) : rstrip (s ++ m ++ b) = s ++ m := by
  obtain ⟨_, ⟨cs, c, rfl, hc⟩⟩ := hm
  rw [rstrip_append_allWs hb]
  simp [rstrip, hc]

theorem strip_core {a b m : Str} (ha : AllWs a) (hb : AllWs b) (hm : Core m) : strip (a ++ m ++ b) = m := by
  have h1 : lstrip (a ++ m ++ b) = m ++ b := lstrip_core ha hm
  have h2 := rstrip_core (s := []) hb hm
  simp only [List.nil_append] at h2
  rw [strip, h1, h2]

theorem strip_allWs {s : Str} (h : AllWs s) : strip s = [] := by
  have : lstrip s = [] := (lstrip_eq_nil_iff s).2 h
  rw [strip, this]; rfl

theorem rstrip_allWs {s : Str} (h : AllWs s) : rstrip s = [] := by
  have := rstrip_append_allWs (s := []) h
  simpa [rstrip] using this

/-- `strip` after `rstrip` is `strip` -/
theorem strip_rstrip (s : Str) : strip (rstrip s) = strip s := by
  rcases ws_decomp s with h | ⟨a, m, b, rfl, ha, hb, hm⟩
  · rw [rstrip_allWs h, strip_allWs h]; rfl
  · rw [rstrip_core hb hm, strip_core ha hb hm]
    have := strip_core (b := []) ha (by intro c h; cases h) hm
    simpa using this

theorem strip_idem (s : Str) : strip (strip s) = strip s := by
  rcases ws_decomp s with h | ⟨a, m, b, rfl, ha, hb, hm⟩
  · rw [strip_allWs h]; rfl
  · rw [strip_core ha hb hm]
    have := strip_core (a := []) (b := []) (by intro c h; cases h) (by intro c h; cases h) hm
    simpa using this

/-- a token in front is kept by `rstrip` -/
theorem rstrip_tok_append {t s : Str} (ht : IsTok t) : rstrip (t ++ s) = t ++ rstrip s := by
  rcases ws_decomp s with h | ⟨a, m, b, rfl, ha, hb, hm⟩
  · rw [rstrip_append_allWs h, rstrip_noWs ht.2, rstrip_allWs h, List.append_nil]
  · have e : t ++ (a ++ m ++ b) = (t ++ a) ++ m ++ b := by simp
    rw [e, rstrip_core hb hm, rstrip_core hb hm]; simp

theorem lstrip_tok_append {t s : Str} (ht : IsTok t) : lstrip (t ++ s) = t ++ s := by
  obtain ⟨hne, hnw⟩ := ht
  cases t with
  | nil => exact absurd rfl hne
  | cons c t => simp [lstrip, hnw c (by simp)]

/-- `strip(tok + s)` -/
theorem strip_tok_append {t s : Str} (ht : IsTok t) : strip (t ++ s) = t ++ rstrip s := by
  rw [strip, lstrip_tok_append ht, rstrip_tok_append ht]

/-! ### `split()` ignores blanks at the ends; joined tokens -/

theorem splitAux_allWs (b acc : Str) (hb : AllWs b) :
    splitAux b acc = if acc.isEmpty then [] else [acc.reverse] := by
  induction b generalizing acc with
  | nil => rfl
  | cons c b ih =>
    have hc : isWs c = true := hb c (by simp)
    have ih' := ih [] (fun d hd => hb d (by simp [hd]))
    simp only [splitAux, hc, if_true]
    split
    · simpa using ih'
    · rw [ih']; simp

theorem splitAux_append_allWs (s b acc : Str) (hb : AllWs b) : splitAux (s ++ b) acc = splitAux s acc := by
  induction s generalizing acc with
  | nil => simp only [List.nil_append, splitAux]; exact splitAux_allWs b acc hb
  | cons c s ih =>
    simp only [List.cons_append, splitAux]
    split
    · split
      · exact ih []
      · rw [ih []]
    · exact ih _

theorem splitWs_append_allWs {s b : Str} (hb : AllWs b) : splitWs (s ++ b) = splitWs s :=
  splitAux_append_allWs s b [] hb

theorem splitWs_rstrip (s : Str) : splitWs (rstrip s) = splitWs s := by
  obtain ⟨b, hb, h⟩ := rstrip_split s
  conv_rhs => rw [h, splitWs_append_allWs hb]

theorem splitWs_lstrip (s : Str) : splitWs (lstrip s) = splitWs s := by
  obtain ⟨a, ha, h⟩ := lstrip_split s
  conv_rhs => rw [h, splitWs_allWs_append ha]

theorem splitWs_strip (s : Str) : splitWs (strip s) = splitWs s := by
  rw [strip, splitWs_rstrip, splitWs_lstrip]

/-- `"".join(s.split())` removes exactly the blanks -/
theorem flatten_splitAux (s acc : Str) :
    (splitAux s acc).flatten = acc.reverse ++ s.filter (fun c => !isWs c) := by
  induction s generalizing acc with
  | nil =>
    simp only [splitAux, List.filter_nil, List.append_nil]
    split
    · rename_i h; have : acc = [] := by simpa using h
      subst this; rfl
    · simp
  | cons c s ih =>
    by_cases hc : isWs c = true
    · simp only [splitAux, hc, if_true, List.filter_cons, Bool.not_true, Bool.false_eq_true, if_false]
      split
      · rename_i h; have : acc = [] := by simpa using h
        subst this; simpa using ih []
      · simp [ih []]
    · have hc' : isWs c = false := by simpa using hc
      simp only [splitAux, hc', Bool.false_eq_true, if_false, List.filter_cons, Bool.not_false, if_true]
      rw [ih]; simp

theorem flatten_splitWs (s : Str) : (splitWs s).flatten = s.filter (fun c => !isWs c) := by
  have := flatten_splitAux s []
  simpa [splitWs] using this



/-! ## `%g`: the scientific decomposition is correct -/

theorem natDigits_length_spec (n : Nat) (hn : 0 < n) :
    10 ^ ((natDigits n).length - 1) ≤ n ∧ n < 10 ^ (natDigits n).length := by
  induction n using Nat.strongRecOn with
  | _ n ih =>
    unfold natDigits
    split
    · simp; omega
    · rename_i h10
      have := ih (n / 10) (by omega) (by omega)
      simp only [List.length_append, List.length_singleton, Nat.add_sub_cancel]
      have hl : 1 ≤ (natDigits (n / 10)).length := by
        have := natDigits_ne_nil (n / 10)
        cases h : natDigits (n / 10) with
        | nil => exact absurd h this
        | cons => simp
      obtain ⟨h1, h2⟩ := this
      constructor
      · have : 10 ^ (natDigits (n / 10)).length = 10 ^ ((natDigits (n / 10)).length - 1) * 10 := by
          rw [← pow_succ]; congr 1; omega
        rw [this]
        have := Nat.div_mul_le_self n 10
        nlinarith
      · rw [pow_succ]
        have := Nat.lt_succ_iff.2 (Nat.le_refl (n / 10))
        have h3 : n < (n / 10 + 1) * 10 := by
          have := Nat.div_add_mod n 10
          have := Nat.mod_lt n (by norm_num : 10 > 0)
          omega
        nlinarith

theorem ten_zpow_pos (e : Int) : (0 : Rat) < (10 : Rat) ^ e := zpow_pos (by norm_num) e

theorem natCast_ten_pow (k : Nat) : ((10 ^ k : Nat) : Rat) = (10 : Rat) ^ (k : Int) := by
  rw [zpow_natCast]; push_cast; rfl

theorem geTenPow_iff (n d : Nat) (hd : 0 < d) (e : Int) :
    geTenPow n d e = true ↔ (10 : Rat) ^ e ≤ (n : Rat) / (d : Rat) := by
  have hdq : (0 : Rat) < (d : Rat) := by exact_mod_cast hd
  unfold geTenPow
  split
  · rename_i h
    have he : e = (e.toNat : Int) := (Int.toNat_of_nonneg h).symm
    rw [decide_eq_true_eq, le_div_iff₀ hdq]
    conv_rhs => rw [he, zpow_natCast]
    constructor
    · intro h'; have : ((d * 10 ^ e.toNat : Nat) : Rat) ≤ (n : Rat) := by exact_mod_cast h'
      push_cast at this; linarith
    · intro h'
      have : ((d * 10 ^ e.toNat : Nat) : Rat) ≤ (n : Rat) := by push_cast; linarith
      exact_mod_cast this
  · rename_i h
    have h' : 0 ≤ -e := by omega
    have he : e = -((-e).toNat : Int) := by rw [Int.toNat_of_nonneg h']; ring
    rw [decide_eq_true_eq, le_div_iff₀ hdq]
    conv_rhs => rw [he, zpow_neg, zpow_natCast]
    have hp : (0 : Rat) < (10 : Rat) ^ (-e).toNat := by positivity
    rw [inv_mul_le_iff₀ hp]
    constructor
    · intro h''; have : ((d : Nat) : Rat) ≤ ((n * 10 ^ (-e).toNat : Nat) : Rat) := by exact_mod_cast h''
      push_cast at this; linarith
    · intro h''
      have : ((d : Nat) : Rat) ≤ ((n * 10 ^ (-e).toNat : Nat) : Rat) := by push_cast; linarith
      exact_mod_cast this



theorem sciExp_spec (n d : Nat) (hn : 0 < n) (hd : 0 < d) :
    (10 : Rat) ^ (sciExp n d) ≤ (n : Rat) / (d : Rat) ∧ (n : Rat) / (d : Rat) < (10 : Rat) ^ (sciExp n d + 1) := by
  have hdq : (0 : Rat) < (d : Rat) := by exact_mod_cast hd
  obtain ⟨hn1, hn2⟩ := natDigits_length_spec n hn
  obtain ⟨hd1, hd2⟩ := natDigits_length_spec d hd
  have ha : 1 ≤ numDigits n := by
    unfold numDigits
    cases h : natDigits n with
    | nil => exact absurd h (natDigits_ne_nil n)
    | cons => simp
  have hb : 1 ≤ numDigits d := by
    unfold numDigits
    cases h : natDigits d with
    | nil => exact absurd h (natDigits_ne_nil d)
    | cons => simp
  have hn1q : (10 : Rat) ^ ((numDigits n : Int) - 1) ≤ (n : Rat) := by
    have : (((numDigits n - 1 : Nat)) : Int) = (numDigits n : Int) - 1 := by omega
    rw [← this, zpow_natCast]
    have : ((10 ^ (numDigits n - 1) : Nat) : Rat) ≤ (n : Rat) := by exact_mod_cast hn1
    push_cast at this; exact this
  have hn2q : (n : Rat) < (10 : Rat) ^ (numDigits n : Int) := by
    rw [zpow_natCast]
    have : (n : Rat) < ((10 ^ numDigits n : Nat) : Rat) := by exact_mod_cast hn2
    push_cast at this; exact this
  have hd1q : (10 : Rat) ^ ((numDigits d : Int) - 1) ≤ (d : Rat) := by
    have : (((numDigits d - 1 : Nat)) : Int) = (numDigits d : Int) - 1 := by omega
    rw [← this, zpow_natCast]
    have : ((10 ^ (numDigits d - 1) : Nat) : Rat) ≤ (d : Rat) := by exact_mod_cast hd1
    push_cast at this; exact this
  have hd2q : (d : Rat) < (10 : Rat) ^ (numDigits d : Int) := by
    rw [zpow_natCast]
    have : (d : Rat) < ((10 ^ numDigits d : Nat) : Rat) := by exact_mod_cast hd2
    push_cast at this; exact this
  set g : Int := (numDigits n : Int) - (numDigits d : Int) with hg
  have h10 : (10 : Rat) ≠ 0 := by norm_num
  -- upper: n/d < 10^(g+1)
  have hup : (n : Rat) / (d : Rat) < (10 : Rat) ^ (g + 1) := by
    rw [div_lt_iff₀ hdq]
    calc (n : Rat) < (10 : Rat) ^ (numDigits n : Int) := hn2q
      _ = (10 : Rat) ^ (g + 1) * (10 : Rat) ^ ((numDigits d : Int) - 1) := by
          rw [← zpow_add₀ h10]; congr 1; omega
      _ ≤ (10 : Rat) ^ (g + 1) * (d : Rat) := by
          apply mul_le_mul_of_nonneg_left hd1q (le_of_lt (ten_zpow_pos _))
  -- lower: 10^(g-1) < n/d
  have hlo : (10 : Rat) ^ (g - 1) < (n : Rat) / (d : Rat) := by
    rw [lt_div_iff₀ hdq]
    calc (10 : Rat) ^ (g - 1) * (d : Rat) < (10 : Rat) ^ (g - 1) * (10 : Rat) ^ (numDigits d : Int) := by
          apply mul_lt_mul_of_pos_left hd2q (ten_zpow_pos _)
      _ = (10 : Rat) ^ ((numDigits n : Int) - 1) := by
          rw [← zpow_add₀ h10]; congr 1; omega
      _ ≤ (n : Rat) := hn1q
  unfold sciExp
  simp only [← hg]
  by_cases hge : geTenPow n d g = true
  · rw [if_pos hge]
    exact ⟨(geTenPow_iff n d hd g).1 hge, hup⟩
  · rw [if_neg hge]
    have : ¬ ((10 : Rat) ^ g ≤ (n : Rat) / (d : Rat)) := fun h => hge ((geTenPow_iff n d hd g).2 h)
    refine ⟨le_of_lt hlo, ?_⟩
    have e : g - 1 + 1 = g := by ring
    rw [e]; exact lt_of_not_ge this

/-- the decimal exponent is unique -/
theorem zpow_interval_unique {v : Rat} {a b : Int} (ha1 : (10 : Rat) ^ a ≤ v) (ha2 : v < (10 : Rat) ^ (a + 1))
    (hb1 : (10 : Rat) ^ b ≤ v) (hb2 : v < (10 : Rat) ^ (b + 1)) : a = b := by
  have h1 : (1 : Rat) < 10 := by norm_num
  have hab : (10 : Rat) ^ a < (10 : Rat) ^ (b + 1) := lt_of_le_of_lt ha1 hb2
  have hba : (10 : Rat) ^ b < (10 : Rat) ^ (a + 1) := lt_of_le_of_lt hb1 ha2
  rw [zpow_lt_zpow_iff_right₀ h1] at hab hba
  omega



theorem rhe_ge (n d lo : Nat) (hd : 0 < d) (h : lo * d ≤ n) : lo ≤ rhe n d := by
  obtain ⟨h1, h2⟩ := rhe_spec n d hd
  by_contra hc
  have hc' : rhe n d + 1 ≤ lo := by omega
  have : (rhe n d + 1) * d ≤ lo * d := Nat.mul_le_mul_right d hc'
  have e : (rhe n d + 1) * d = rhe n d * d + d := by ring
  omega

theorem rhe_le (n d hi : Nat) (hd : 0 < d) (h : n ≤ hi * d) : rhe n d ≤ hi := by
  obtain ⟨h1, h2⟩ := rhe_spec n d hd
  by_contra hc
  have hc' : hi + 1 ≤ rhe n d := by omega
  have : (hi + 1) * d ≤ rhe n d * d := Nat.mul_le_mul_right d hc'
  have e : (hi + 1) * d = hi * d + d := by ring
  omega

/-- `rheShift` is `rhe` of a fraction whose value is `(n/d) / 10^e` -/
theorem rheShift_eq (n d : Nat) (hd : 0 < d) (e : Int) :
    ∃ n' d' : Nat, 0 < d' ∧ rheShift n d e = rhe n' d' ∧ (n' : Rat) / (d' : Rat) = (n : Rat) / (d : Rat) / (10 : Rat) ^ e := by
  have hdq : (0 : Rat) < (d : Rat) := by exact_mod_cast hd
  unfold rheShift
  split
  · rename_i h
    have he : e = (e.toNat : Int) := (Int.toNat_of_nonneg h).symm
    refine ⟨n, d * 10 ^ e.toNat, by positivity, rfl, ?_⟩
    conv_rhs => rw [he, zpow_natCast]
    push_cast
    rw [div_div]
  · rename_i h
    have h' : 0 ≤ -e := by omega
    have he : e = -((-e).toNat : Int) := by rw [Int.toNat_of_nonneg h']; ring
    refine ⟨n * 10 ^ (-e).toNat, d, hd, rfl, ?_⟩
    conv_rhs => rw [he, zpow_neg, zpow_natCast]
    push_cast
    field_simp

theorem rhe_ge_rat (n d lo : Nat) (hd : 0 < d) (h : (lo : Rat) ≤ (n : Rat) / (d : Rat)) : lo ≤ rhe n d := by
  have hdq : (0 : Rat) < (d : Rat) := by exact_mod_cast hd
  rw [le_div_iff₀ hdq] at h
  exact rhe_ge n d lo hd (by exact_mod_cast h)

theorem rhe_le_rat (n d hi : Nat) (hd : 0 < d) (h : (n : Rat) / (d : Rat) ≤ (hi : Rat)) : rhe n d ≤ hi := by
  have hdq : (0 : Rat) < (d : Rat) := by exact_mod_cast hd
  rw [div_le_iff₀ hdq] at h
  exact rhe_le n d hi hd (by exact_mod_cast h)

theorem rhe_exact_rat (n d m : Nat) (hd : 0 < d) (h : (n : Rat) / (d : Rat) = (m : Rat)) : rhe n d = m := by
  have hdq : (0 : Rat) < (d : Rat) := by exact_mod_cast hd
  rw [div_eq_iff (ne_of_gt hdq)] at h
  have : n = m * d := by exact_mod_cast h
  rw [this, rhe_mul_self _ _ hd]

/-- the mantissa of the scientific decomposition has exactly `P` digits -/
theorem sci_spec (P n d : Nat) (hP : 1 ≤ P) (hn : 0 < n) (hd : 0 < d) :
    10 ^ (P - 1) ≤ (sci P n d).2 ∧ (sci P n d).2 < 10 ^ P := by
  obtain ⟨h1, h2⟩ := sciExp_spec n d hn hd
  obtain ⟨n', d', hd', hr, hv⟩ := rheShift_eq n d hd (sciExp n d - (P : Int) + 1)
  have h10 : (10 : Rat) ≠ 0 := by norm_num
  have hpos := ten_zpow_pos (sciExp n d - (P : Int) + 1)
  have hlo : ((10 ^ (P - 1) : Nat) : Rat) ≤ (n' : Rat) / (d' : Rat) := by
    rw [hv, le_div_iff₀ hpos, natCast_ten_pow, ← zpow_add₀ h10]
    have : ((P - 1 : Nat) : Int) + (sciExp n d - (P : Int) + 1) = sciExp n d := by omega
    rw [this]; exact h1
  have hhi : (n' : Rat) / (d' : Rat) ≤ ((10 ^ P : Nat) : Rat) := by
    rw [hv, div_le_iff₀ hpos, natCast_ten_pow, ← zpow_add₀ h10]
    have : (P : Int) + (sciExp n d - (P : Int) + 1) = sciExp n d + 1 := by omega
    rw [this]; exact le_of_lt h2
  have r1 := rhe_ge_rat n' d' _ hd' hlo
  have r2 := rhe_le_rat n' d' _ hd' hhi
  rw [← hr] at r1 r2
  unfold sci
  simp only
  split
  · simp only
    constructor
    · exact le_refl _
    · exact Nat.pow_lt_pow_right (by norm_num) (by omega)
  · rename_i hne
    simp only
    exact ⟨r1, lt_of_le_of_ne r2 hne⟩



/-- a number that already has `P` significant digits decomposes into itself -/
theorem sci_exact (P n d m : Nat) (e : Int) (hP : 1 ≤ P) (hn : 0 < n) (hd : 0 < d)
    (hm1 : 10 ^ (P - 1) ≤ m) (hm2 : m < 10 ^ P) (hv : (n : Rat) / (d : Rat) = (m : Rat) * (10 : Rat) ^ e) :
    sci P n d = (e + (P : Int) - 1, m) := by
  have h10 : (10 : Rat) ≠ 0 := by norm_num
  have hpos := ten_zpow_pos e
  obtain ⟨h1, h2⟩ := sciExp_spec n d hn hd
  have hm1q : (10 : Rat) ^ ((P : Int) - 1) ≤ (m : Rat) := by
    have : (((P - 1 : Nat)) : Int) = (P : Int) - 1 := by omega
    rw [← this, ← natCast_ten_pow]; exact_mod_cast hm1
  have hm2q : (m : Rat) < (10 : Rat) ^ (P : Int) := by
    rw [← natCast_ten_pow]; exact_mod_cast hm2
  have b1 : (10 : Rat) ^ (e + (P : Int) - 1) ≤ (n : Rat) / (d : Rat) := by
    rw [hv]
    have : e + (P : Int) - 1 = ((P : Int) - 1) + e := by ring
    rw [this, zpow_add₀ h10]
    exact mul_le_mul_of_nonneg_right hm1q (le_of_lt hpos)
  have b2 : (n : Rat) / (d : Rat) < (10 : Rat) ^ (e + (P : Int) - 1 + 1) := by
    rw [hv]
    have : e + (P : Int) - 1 + 1 = (P : Int) + e := by ring
    rw [this, zpow_add₀ h10]
    exact mul_lt_mul_of_pos_right hm2q hpos
  have hX : sciExp n d = e + (P : Int) - 1 := zpow_interval_unique h1 h2 b1 b2
  obtain ⟨n', d', hd', hr, hv'⟩ := rheShift_eq n d hd (sciExp n d - (P : Int) + 1)
  have he : sciExp n d - (P : Int) + 1 = e := by rw [hX]; ring
  rw [he] at hr hv'
  have hm : (n' : Rat) / (d' : Rat) = (m : Rat) := by
    rw [hv', hv]; field_simp
  have hrm : rheShift n d e = m := by rw [hr]; exact rhe_exact_rat n' d' m hd' hm
  unfold sci
  simp only [he, hrm]
  rw [if_neg (by omega)]
  rw [hX]

theorem scale10_pos {v : Rat} (hv : 0 < v) (e : Int) : 0 < scale10 v e := by
  rw [scale10_eq_zpow]; exact mul_pos hv (ten_zpow_pos e)

theorem natAbs_div_den (y : Rat) : ((y.num.natAbs : Nat) : Rat) / (y.den : Rat) = |y| := by
  have h := rat_eq_natAbs y
  have hden : (0 : Rat) < (y.den : Rat) := by exact_mod_cast y.den_pos
  have hnn : (0 : Rat) ≤ ((y.num.natAbs : Nat) : Rat) / (y.den : Rat) := by positivity
  by_cases hy : y < 0
  · rw [if_pos hy] at h
    rw [abs_of_neg hy]
    conv_rhs => rw [h]
    ring
  · rw [if_neg hy] at h
    rw [abs_of_nonneg (not_lt.1 hy)]
    conv_rhs => rw [h]
    ring

/-- a number printed with `P` significant digits re-prints to itself -/
theorem roundSigP_idem (P : Nat) (hP : 1 ≤ P) (x : Rat) : roundSigP P (roundSigP P x) = roundSigP P x := by
  by_cases hx : x = 0
  · subst hx; simp [roundSigP]
  have hnum : 0 < x.num.natAbs := by
    have : x.num ≠ 0 := Rat.num_ne_zero.2 hx
    omega
  obtain ⟨hm1, hm2⟩ := sci_spec P x.num.natAbs x.den hP hnum x.den_pos
  set r := sci P x.num.natAbs x.den with hr
  have hmpos : (0 : Rat) < (r.2 : Rat) := by
    have : 0 < r.2 := lt_of_lt_of_le (by positivity) hm1
    exact_mod_cast this
  set v : Rat := scale10 (r.2 : Rat) (r.1 - (P : Int) + 1) with hv
  have hvpos : 0 < v := scale10_pos hmpos _
  have hy : roundSigP P x = if x < 0 then -v else v := by
    simp only [roundSigP, hx, if_false, ← hr, ← hv]
  set y := roundSigP P x with hydef
  have hyne : y ≠ 0 := by
    rw [hy]; split <;> [exact neg_ne_zero.2 (ne_of_gt hvpos); exact ne_of_gt hvpos]
  have hyneg : y < 0 ↔ x < 0 := by
    rw [hy]; by_cases h : x < 0
    · simp [h, hvpos]
    · simp [h, le_of_lt hvpos]
  have habs : |y| = v := by
    rw [hy]; split
    · rw [abs_neg, abs_of_pos hvpos]
    · exact abs_of_pos hvpos
  have hynum : 0 < y.num.natAbs := by
    have : y.num ≠ 0 := Rat.num_ne_zero.2 hyne
    omega
  have hval : ((y.num.natAbs : Nat) : Rat) / (y.den : Rat) = (r.2 : Rat) * (10 : Rat) ^ (r.1 - (P : Int) + 1) := by
    rw [natAbs_div_den, habs, hv, scale10_eq_zpow]
  have hs := sci_exact P y.num.natAbs y.den r.2 (r.1 - (P : Int) + 1) hP hynum y.den_pos hm1 hm2 hval
  have hs' : sci P y.num.natAbs y.den = r := by
    rw [hs]; ext
    · simp; ring
    · rfl
  show roundSigP P y = y
  conv_lhs => unfold roundSigP
  simp only [hyne, if_false, hs', ← hv]
  rw [hy]
  by_cases h : x < 0
  · have : y < 0 := hyneg.2 h
    simp only [h, if_true]
    rw [hy] at this; simp only [h, if_true] at this
    simp [this]
  · have : ¬ y < 0 := fun hh => h (hyneg.1 hh)
    simp only [h, if_false]
    rw [hy] at this; simp only [h, if_false] at this
    simp [this]

theorem roundSig_idem (P : Nat) (x : Rat) : roundSig P (roundSig P x) = roundSig P x := by
  unfold roundSig
  exact roundSigP_idem _ (by split <;> omega) x



theorem rhe_error_rat (n d : Nat) (hd : 0 < d) : |((rhe n d : Nat) : Rat) - (n : Rat) / (d : Rat)| ≤ 1 / 2 := by
  have hdq : (0 : Rat) < (d : Rat) := by exact_mod_cast hd
  obtain ⟨h1, h2⟩ := rhe_spec n d hd
  have h1q : (2 : Rat) * ((rhe n d : Nat) * (d : Rat)) ≤ 2 * (n : Rat) + d := by exact_mod_cast h1
  have h2q : (2 : Rat) * (n : Rat) ≤ 2 * ((rhe n d : Nat) * (d : Rat)) + d := by exact_mod_cast h2
  have e : ((rhe n d : Nat) : Rat) - (n : Rat) / (d : Rat) = (((rhe n d : Nat) : Rat) * d - n) / d := by
    field_simp
  rw [e, abs_div, abs_of_pos hdq, div_le_iff₀ hdq, abs_le]
  constructor <;> linarith

/-- `%.Pg` is correctly rounded: the printed number is within half a unit of its last significant
digit (`10^(X-P+1)`, `X` the decimal exponent of `|x|`) -/
theorem roundSigP_error (P : Nat) (hP : 1 ≤ P) (x : Rat) (hx : x ≠ 0) :
    |roundSigP P x - x| ≤ (10 : Rat) ^ (sciExp x.num.natAbs x.den - (P : Int) + 1) / 2 := by
  have h10 : (10 : Rat) ≠ 0 := by norm_num
  set n := x.num.natAbs with hn
  set d := x.den with hd
  set e : Int := sciExp n d - (P : Int) + 1 with he
  have hpos := ten_zpow_pos e
  obtain ⟨n', d', hd', hr, hv⟩ := rheShift_eq n d x.den_pos e
  have herr := rhe_error_rat n' d' hd'
  rw [← hr, hv] at herr
  -- value of the decomposition
  have hval : scale10 ((sci P n d).2 : Rat) ((sci P n d).1 - (P : Int) + 1) = ((rheShift n d e : Nat) : Rat) * (10 : Rat) ^ e := by
    rw [scale10_eq_zpow]
    unfold sci
    simp only [← he]
    split
    · rename_i hc
      simp only
      rw [hc]
      have : sciExp n d + 1 - (P : Int) + 1 = e + 1 := by rw [he]; ring
      rw [this, zpow_add₀ h10, zpow_one]
      have hp : ((10 ^ (P - 1) : Nat) : Rat) * 10 = ((10 ^ P : Nat) : Rat) := by
        have : 10 ^ P = 10 ^ (P - 1) * 10 := by rw [← pow_succ]; congr 1; omega
        rw [this]; push_cast; ring
      rw [← hp]; ring
    · rfl
  have habs : |x| = (n : Rat) / (d : Rat) := (natAbs_div_den x).symm
  have key : |((rheShift n d e : Nat) : Rat) * (10 : Rat) ^ e - abs x| ≤ (10 : Rat) ^ e / 2 := by
    rw [habs]
    have : ((rheShift n d e : Nat) : Rat) * (10 : Rat) ^ e - (n : Rat) / (d : Rat)
        = (((rheShift n d e : Nat) : Rat) - (n : Rat) / (d : Rat) / (10 : Rat) ^ e) * (10 : Rat) ^ e := by
      field_simp
    rw [this, abs_mul, abs_of_pos hpos]
    calc _ ≤ (1 / 2 : Rat) * (10 : Rat) ^ e := mul_le_mul_of_nonneg_right herr (le_of_lt hpos)
      _ = (10 : Rat) ^ e / 2 := by ring
  simp only [roundSigP, hx, if_false, ← hn, ← hd, hval]
  by_cases hneg : x < 0
  · simp only [hneg, if_true]
    rw [abs_of_neg hneg] at key
    have : -(((rheShift n d e : Nat) : Rat) * (10 : Rat) ^ e) - x = -(((rheShift n d e : Nat) : Rat) * (10 : Rat) ^ e - -x) := by ring
    rw [this, abs_neg]; exact key
  · simp only [hneg, if_false]
    rw [abs_of_nonneg (not_lt.1 hneg)] at key
    exact key


end DS.Dec
