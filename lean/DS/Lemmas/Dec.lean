import DS.Model.Dec
import Mathlib.Tactic.Ring
import Mathlib.Tactic.Linarith
import Mathlib.Tactic.FieldSimp
import Mathlib.Tactic.Positivity
import Mathlib.Data.Rat.Defs
import Mathlib.Algebra.Order.Field.Rat

/-!
# Lemmas about the exact decimal text layer (`DS.Model.Dec`)
-/
namespace DS.Dec

/-! ## digits -/

theorem digitChar_toNat (d : Nat) : (digitChar d).toNat = 48 + d % 10 := by
  unfold digitChar
  have h : (48 + d % 10).isValidChar := by
    left; omega
  rw [Char.ofNat, dif_pos h]
  rfl

theorem digitVal_digitChar (d : Nat) : digitVal (digitChar d) = d % 10 := by
  simp [digitVal, digitChar_toNat]

theorem isDigit_digitChar (d : Nat) : isDigit (digitChar d) = true := by
  simp [isDigit, digitChar_toNat]; omega

theorem numOf_snoc (ds : Str) (c : Char) : numOf (ds ++ [c]) = numOf ds * 10 + digitVal c := by
  simp [numOf, List.foldl_append]

theorem numOf_nil : numOf [] = 0 := rfl

theorem numOf_append (a b : Str) : numOf (a ++ b) = numOf a * 10 ^ b.length + numOf b := by
  induction b using List.reverseRecOn with
  | nil => simp [numOf_nil]
  | append_singleton b c ih =>
    rw [← List.append_assoc, numOf_snoc, ih, numOf_snoc]
    simp [pow_succ]; ring

theorem allDigits_append (a b : Str) : allDigits (a ++ b) = (allDigits a && allDigits b) := by
  simp [allDigits]

theorem numOf_natDigits (n : Nat) : numOf (natDigits n) = n := by
  induction n using Nat.strongRecOn with
  | _ n ih =>
    unfold natDigits
    split
    · simp [numOf, digitVal_digitChar]; omega
    · rw [numOf_snoc, ih (n / 10) (by omega), digitVal_digitChar]; omega

theorem allDigits_natDigits (n : Nat) : allDigits (natDigits n) = true := by
  induction n using Nat.strongRecOn with
  | _ n ih =>
    unfold natDigits
    split
    · simp [allDigits, isDigit_digitChar]
    · rw [allDigits_append, ih (n / 10) (by omega)]; simp [allDigits, isDigit_digitChar]

theorem natDigits_ne_nil (n : Nat) : natDigits n ≠ [] := by
  unfold natDigits; split <;> simp

theorem length_fixDigits (k n : Nat) : (fixDigits k n).length = k := by
  induction k generalizing n with
  | zero => rfl
  | succ k ih => simp [fixDigits, ih]

theorem allDigits_fixDigits (k n : Nat) : allDigits (fixDigits k n) = true := by
  induction k generalizing n with
  | zero => rfl
  | succ k ih =>
    rw [fixDigits, allDigits_append, ih]; simp [allDigits, isDigit_digitChar]

theorem numOf_fixDigits (k n : Nat) : numOf (fixDigits k n) = n % 10 ^ k := by
  induction k generalizing n with
  | zero => simp [fixDigits, numOf_nil, Nat.mod_one]
  | succ k ih =>
    rw [fixDigits, numOf_snoc, ih, digitVal_digitChar, pow_succ]
    rw [Nat.mod_mul_left_div_self_aux n (10 ^ k)]
where
  Nat.mod_mul_left_div_self_aux (n m : Nat) : n / 10 % m * 10 + n % 10 = n % (m * 10) := by
    rw [Nat.mul_comm m 10, Nat.mod_mul, Nat.add_comm, Nat.mul_comm]

/-! ## `parseDec` on digit strings -/

theorem takeWhile_digits (ds rest : Str) (h : allDigits ds = true)
    (hr : ∀ c ∈ rest.head?, isDigit c = false) :
    (ds ++ rest).takeWhile isDigit = ds ∧ (ds ++ rest).dropWhile isDigit = rest := by
  induction ds with
  | nil =>
    cases rest with
    | nil => simp
    | cons c r => simp at hr; simp [hr]
  | cons d ds ih =>
    simp [allDigits] at h
    have := ih (by simp [allDigits]; exact h.2)
    simp [h.1, this]

theorem takeWhile_digits_self (ds : Str) (h : allDigits ds = true) :
    ds.takeWhile isDigit = ds ∧ ds.dropWhile isDigit = [] := by
  have := takeWhile_digits ds [] h (by simp)
  simpa using this

theorem isEmpty_false_of_ne {ds : Str} (h : ds ≠ []) : ds.isEmpty = false := by
  cases ds with
  | nil => exact absurd rfl h
  | cons => rfl

theorem parseUnsigned_int (neg : Bool) (ip : Str) (hi : allDigits ip = true) (hne : ip ≠ []) :
    parseUnsigned neg ip = some (decValue neg ip [] 0) := by
  have h := takeWhile_digits_self ip hi
  simp [parseUnsigned, h.1, h.2, parseFrac, isEmpty_false_of_ne hne, parseExp]

theorem parseUnsigned_fixed (neg : Bool) (ip fp : Str) (hi : allDigits ip = true)
    (hf : allDigits fp = true) (hne : ip ≠ []) :
    parseUnsigned neg (ip ++ '.' :: fp) = some (decValue neg ip fp 0) := by
  have h := takeWhile_digits ip ('.' :: fp) hi (by simp [isDigit])
  have h2 := takeWhile_digits_self fp hf
  simp [parseUnsigned, h.1, h.2, parseFrac, h2.1, h2.2, isEmpty_false_of_ne hne, parseExp]

theorem parseUnsigned_fixed_exp (neg : Bool) (ip fp ex : Str) (hi : allDigits ip = true)
    (hf : allDigits fp = true) (hne : ip ≠ []) :
    parseUnsigned neg (ip ++ '.' :: (fp ++ 'e' :: ex)) = (parseInt ex).map (decValue neg ip fp) := by
  have h := takeWhile_digits ip ('.' :: (fp ++ 'e' :: ex)) hi (by simp [isDigit])
  have h2 := takeWhile_digits fp ('e' :: ex) hf (by simp [isDigit])
  simp [parseUnsigned, h.1, h.2, parseFrac, h2.1, h2.2, isEmpty_false_of_ne hne, parseExp]

theorem parseUnsigned_int_exp (neg : Bool) (ip ex : Str) (hi : allDigits ip = true) (hne : ip ≠ []) :
    parseUnsigned neg (ip ++ 'e' :: ex) = (parseInt ex).map (decValue neg ip []) := by
  have h := takeWhile_digits ip ('e' :: ex) hi (by simp [isDigit])
  simp [parseUnsigned, h.1, h.2, parseFrac, isEmpty_false_of_ne hne, parseExp]

/-- the sign prefix is consumed by `parseDec` when the body starts with a digit -/
theorem parseDec_sign (neg : Bool) (c : Char) (cs : Str) (hc : isDigit c = true) :
    parseDec (signStr neg ++ c :: cs) = parseUnsigned neg (c :: cs) := by
  cases neg with
  | true => simp [signStr, parseDec]
  | false =>
    have h1 : c ≠ '-' := by rintro rfl; simp [isDigit] at hc
    have h2 : c ≠ '+' := by rintro rfl; simp [isDigit] at hc
    simp only [signStr, Bool.false_eq_true, if_false, List.nil_append]
    unfold parseDec
    split
    · rename_i h; cases h; exact absurd rfl h1
    · rename_i h; cases h; exact absurd rfl h2
    · rfl


/-! ## `%w.pf` parses back to the rounded value -/

theorem natDigits_head (n : Nat) : ∃ c cs, natDigits n = c :: cs ∧ isDigit c = true := by
  have h := allDigits_natDigits n
  cases hd : natDigits n with
  | nil => exact absurd hd (natDigits_ne_nil n)
  | cons c cs =>
    rw [hd] at h
    simp [allDigits] at h
    exact ⟨c, cs, rfl, h.1⟩

theorem decValue_zero (neg : Bool) (ip fp : Str) :
    decValue neg ip fp 0 =
      (if neg then -1 else 1) * (((numOf ip * 10 ^ fp.length + numOf fp : Nat) : Rat) / ((10 ^ fp.length : Nat) : Rat)) := by
  cases neg <;> simp [decValue]

theorem roundTo_eq (p : Nat) (x : Rat) :
    roundTo p x = (if x < 0 then -1 else 1) * ((scaledAbs p x : Nat) : Rat) / ((10 ^ p : Nat) : Rat) := by
  unfold roundTo
  split <;> simp

theorem parseDec_fixedBody (neg : Bool) (p m : Nat) :
    parseDec (signStr neg ++ fixedBody p m) =
      some ((if neg then -1 else 1) * ((m : Nat) : Rat) / ((10 ^ p : Nat) : Rat)) := by
  obtain ⟨c, cs, hcs, hc⟩ := natDigits_head (m / 10 ^ p)
  have hne : natDigits (m / 10 ^ p) ≠ [] := natDigits_ne_nil _
  have hi := allDigits_natDigits (m / 10 ^ p)
  unfold fixedBody
  by_cases hp : p = 0
  · subst hp
    simp only [if_true, List.append_nil]
    rw [hcs, parseDec_sign neg c cs hc, ← hcs, parseUnsigned_int neg _ hi hne, decValue_zero,
      numOf_natDigits]
    simp [numOf_nil]
  · simp only [hp, if_false]
    rw [hcs, List.cons_append, parseDec_sign neg c (cs ++ _) hc, ← List.cons_append, ← hcs,
      parseUnsigned_fixed neg _ _ hi (allDigits_fixDigits p m) hne, decValue_zero,
      numOf_natDigits, numOf_fixDigits, length_fixDigits, Nat.div_add_mod']
    congr 1; ring

theorem parseDec_fmtFbody (p : Nat) (x : Rat) : parseDec (fmtFbody p x) = some (roundTo p x) := by
  rw [fmtFbody, parseDec_fixedBody, roundTo_eq]
  simp


/-! ## blanks -/

/-- blank-free -/
def NoWs (s : Str) : Prop := ∀ c ∈ s, isWs c = false
/-- a token of `str.split()`: non-empty and blank-free -/
def IsTok (s : Str) : Prop := s ≠ [] ∧ NoWs s
/-- all blanks -/
def AllWs (s : Str) : Prop := ∀ c ∈ s, isWs c = true

theorem isWs_space : isWs ' ' = true := by decide

theorem isWs_of_isDigit {c : Char} (h : isDigit c = true) : isWs c = false := by
  simp only [isDigit, Bool.and_eq_true, decide_eq_true_eq] at h
  simp only [isWs, Bool.or_eq_false_iff, Bool.and_eq_false_iff, decide_eq_false_iff_not, beq_eq_false_iff_ne]
  omega

theorem NoWs_nil : NoWs [] := by intro c h; cases h
theorem NoWs_append {a b : Str} (ha : NoWs a) (hb : NoWs b) : NoWs (a ++ b) := by
  intro c h; rcases List.mem_append.1 h with h | h
  · exact ha c h
  · exact hb c h
theorem NoWs_cons {c : Char} {s : Str} (hc : isWs c = false) (hs : NoWs s) : NoWs (c :: s) := by
  intro d h; rcases List.mem_cons.1 h with h | h
  · exact h ▸ hc
  · exact hs d h
theorem NoWs_of_allDigits {s : Str} (h : allDigits s = true) : NoWs s := by
  intro c hc
  simp [allDigits] at h
  exact isWs_of_isDigit (h c hc)
theorem AllWs_replicate (k : Nat) : AllWs (List.replicate k ' ') := by
  intro c h; rw [List.eq_of_mem_replicate h]; exact isWs_space

/-! ### strip -/

theorem lstrip_allWs_append {b s : Str} (hb : AllWs b) : lstrip (b ++ s) = lstrip s := by
  induction b with
  | nil => rfl
  | cons c b ih =>
    have hc : isWs c = true := hb c (by simp)
    have := ih (fun d hd => hb d (by simp [hd]))
    simp [lstrip, hc] at this ⊢
    exact this

theorem lstrip_noWs {s : Str} (h : NoWs s) : lstrip s = s := by
  cases s with
  | nil => rfl
  | cons c s => simp [lstrip, List.dropWhile, h c (by simp)]

theorem rstrip_noWs {s : Str} (h : NoWs s) : rstrip s = s := by
  have h' : NoWs s.reverse := fun c hc => h c (List.mem_reverse.1 hc)
  have := lstrip_noWs h'
  simp [lstrip] at this
  simp [rstrip, this]

theorem rstrip_append_allWs {b s : Str} (hb : AllWs b) : rstrip (s ++ b) = rstrip s := by
  have hb' : AllWs b.reverse := fun c hc => hb c (List.mem_reverse.1 hc)
  have := lstrip_allWs_append (s := s.reverse) hb'
  simp [lstrip] at this
  simp [rstrip, this]

theorem strip_pad {a b s : Str} (ha : AllWs a) (hb : AllWs b) (hs : NoWs s) :
    strip (a ++ s ++ b) = s := by
  rw [strip, List.append_assoc, lstrip_allWs_append ha]
  cases s with
  | nil =>
    simp only [List.nil_append]
    have : lstrip b = [] := by
      have := lstrip_allWs_append (s := []) hb
      simpa [lstrip] using this
    rw [this]; rfl
  | cons c s =>
    have hc : isWs c = false := hs c (by simp)
    have : lstrip (c :: s ++ b) = c :: s ++ b := by simp [lstrip, hc]
    rw [this, rstrip_append_allWs hb, rstrip_noWs hs]

theorem strip_padLeft {s : Str} (w : Nat) (hs : NoWs s) : strip (padLeft w s) = s := by
  have := strip_pad (b := []) (AllWs_replicate (w - s.length)) (by intro c h; cases h) hs
  simpa [padLeft] using this

/-! ### `%w.pf` is blank-free; `float("%w.pf" % x)` -/

theorem NoWs_signStr (neg : Bool) : NoWs (signStr neg) := by
  cases neg
  · exact NoWs_nil
  · intro c h; simp [signStr] at h; subst h; decide

theorem NoWs_fixedBody (p m : Nat) : NoWs (fixedBody p m) := by
  unfold fixedBody
  apply NoWs_append (NoWs_of_allDigits (allDigits_natDigits _))
  split
  · exact NoWs_nil
  · exact NoWs_cons (by decide) (NoWs_of_allDigits (allDigits_fixDigits _ _))

theorem NoWs_fmtFbody (p : Nat) (x : Rat) : NoWs (fmtFbody p x) :=
  NoWs_append (NoWs_signStr _) (NoWs_fixedBody _ _)

theorem fmtFbody_ne_nil (p : Nat) (x : Rat) : fmtFbody p x ≠ [] := by
  unfold fmtFbody fixedBody
  have := natDigits_ne_nil (scaledAbs p x / 10 ^ p)
  simp [this]

/-- `float("%w.pf" % x)` is `x` rounded half-even to `p` decimals, for every width -/
theorem pyFloat_fmtF (w p : Nat) (x : Rat) : pyFloat (fmtF w p x) = some (roundTo p x) := by
  rw [pyFloat, fmtF, strip_padLeft w (NoWs_fmtFbody p x), parseDec_fmtFbody]

/-! ### split -/

theorem splitAux_noWs (t s acc : Str) (ht : NoWs t) :
    splitAux (t ++ s) acc = splitAux s (t.reverse ++ acc) := by
  induction t generalizing acc with
  | nil => rfl
  | cons c t ih =>
    have hc : isWs c = false := ht c (by simp)
    simp only [List.cons_append, splitAux, hc, Bool.false_eq_true, if_false]
    rw [ih _ (fun d hd => ht d (by simp [hd]))]
    simp

theorem splitAux_ws_nil (c : Char) (s : Str) (hc : isWs c = true) :
    splitAux (c :: s) [] = splitAux s [] := by
  simp [splitAux, hc]

theorem splitWs_allWs_append {b s : Str} (hb : AllWs b) : splitWs (b ++ s) = splitWs s := by
  induction b with
  | nil => rfl
  | cons c b ih =>
    have hc : isWs c = true := hb c (by simp)
    have := ih (fun d hd => hb d (by simp [hd]))
    simp only [splitWs] at this ⊢
    rw [List.cons_append, splitAux_ws_nil _ _ hc, this]

theorem splitWs_tok_end {t : Str} (ht : IsTok t) : splitWs t = [t] := by
  have := splitAux_noWs t [] [] ht.2
  simp only [List.append_nil] at this
  rw [splitWs, this]
  simp [splitAux, ht.1]

theorem splitWs_tok_ws {t s : Str} {c : Char} (ht : IsTok t) (hc : isWs c = true) :
    splitWs (t ++ c :: s) = t :: splitWs s := by
  rw [splitWs, splitAux_noWs t (c :: s) [] ht.2]
  simp [splitAux, hc, ht.1, splitWs]

theorem splitWs_nil : splitWs [] = [] := rfl

theorem splitWs_allWs {b : Str} (hb : AllWs b) : splitWs b = [] := by
  have := splitWs_allWs_append (s := []) hb
  simpa [splitWs_nil] using this

/-- `" ".join(tokens).split() == tokens` for non-empty blank-free tokens -/
theorem split_join (toks : List Str) (h : ∀ t ∈ toks, IsTok t) :
    splitWs ([' '].intercalate toks) = toks := by
  induction toks with
  | nil => rfl
  | cons t ts ih =>
    cases ts with
    | nil => simpa [List.intercalate] using splitWs_tok_end (h t (by simp))
    | cons u us =>
      have := ih (fun x hx => h x (by simp [hx]))
      have e : [' '].intercalate (t :: u :: us) = t ++ ' ' :: [' '].intercalate (u :: us) := by
        simp [List.intercalate, List.intersperse]
      rw [e, splitWs_tok_ws (h t (by simp)) isWs_space, this]


end DS.Dec
