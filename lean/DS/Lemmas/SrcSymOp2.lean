import DS.Model.Rx
import DS.Lemmas.SymText
import DS.Lemmas.SrcSymOp
/-!
Definitions and general lemmas for the proof of `getSymOp_eq` (T18): the row scanner of the model with the axis test as
a parameter (`scanRowG`), its instances (`scanRow` itself, the case-insensitive scanner on the text before lower-casing,
the scanner of one constant piece), and the literal scanner `scanLit`/`scanQuot` under truncation and under extension of
the text (look-ahead across a piece boundary).  Core Lean only; independent of the generated file.
-/
namespace DS.SymText

/-- `scanRow` with the axis test as a parameter -/
def scanRowG (ax : Char → Option Nat) : Nat → Bool → List Char → Option (List Tok)
  | 0, _, _ => none
  | fuel + 1, first, cs =>
    match cs with
    | [] => some []
    | c :: rest =>
      match ax c with
      | some a => (scanRowG ax fuel true rest).map (Tok.var false a :: ·)
      | none =>
        if isSign c then
          match rest with
          | [] => none
          | d :: rest' =>
            match ax d with
            | some a => (scanRowG ax fuel true rest').map (Tok.var (c = '-') a :: ·)
            | none =>
              match scanQuot rest with
              | none => none
              | some (v, r) => (scanRowG ax fuel false r).map (Tok.num (if c = '-' then v.neg else v) :: ·)
        else if first then
          match scanQuot cs with
          | none => none
          | some (v, r) => (scanRowG ax fuel false r).map (Tok.num v :: ·)
        else none

/-- the axis test on the text before lower-casing -/
def axCI (c : Char) : Option Nat := axisOf c.toLower

/-- no axis letter at all: the scanner of one constant piece (the text between two variable terms) -/
def axNone (_ : Char) : Option Nat := none

/-- the numbers of one constant piece: every number after the first carries an explicit sign -/
def pieceToks (fuel : Nat) (first : Bool) (s : List Char) : Option (List Tok) := scanRowG axNone fuel first s

theorem scanRowG_axisOf : ∀ (fuel : Nat) (first : Bool) (cs : List Char),
    scanRowG axisOf fuel first cs = scanRow fuel first cs := by
  intro fuel
  induction fuel with
  | zero => intro first cs; rfl
  | succ n ih =>
    intro first cs
    unfold scanRowG scanRow
    simp only [ih]
    rfl

/-! ### the literal scanner when the text is extended (look-ahead across a piece boundary) -/

/-- `tail` is empty or begins with a character that is no digit, no `.`, no `/` -/
def Stop (tail : List Char) : Prop := ∀ d r, tail = d :: r → d.isDigit = false ∧ d ≠ '.' ∧ d ≠ '/'

theorem takeWhile_append_stop (f : Char → Bool) (p tail : List Char) (h : ∀ d r, tail = d :: r → f d = false) :
    (p ++ tail).takeWhile f = p.takeWhile f ∧ (p ++ tail).dropWhile f = p.dropWhile f ++ tail := by
  induction p with
  | nil =>
    cases tail with
    | nil => simp
    | cons d r => simp [h d r rfl]
  | cons c p ih =>
    by_cases hc : f c = true <;> simp [hc, ih]

theorem scanLit_append (p tail : List Char) (h : Stop tail) :
    scanLit (p ++ tail) = (scanLit p).map (fun x => (x.1, x.2 ++ tail)) := by
  have hd : ∀ d r, tail = d :: r → Char.isDigit d = false := fun d r e => (h d r e).1
  unfold scanLit
  simp only [(takeWhile_append_stop Char.isDigit p tail hd).1, (takeWhile_append_stop Char.isDigit p tail hd).2]
  cases h1 : p.dropWhile Char.isDigit with
  | nil =>
    cases tail with
    | nil => simp
    | cons d r =>
      have := (h d r rfl).2.1
      simp only [List.nil_append]
      split
      · rename_i heq; simp at heq; exact absurd heq.1 this
      · split <;> simp
  | cons d r2 =>
    by_cases hdot : d = '.'
    · subst hdot
      simp only [List.cons_append, (takeWhile_append_stop Char.isDigit r2 tail hd).1,
        (takeWhile_append_stop Char.isDigit r2 tail hd).2]
      split <;> simp
    · simp only [List.cons_append]
      repeat' split
      all_goals simp_all

theorem scanQuot_append (p tail : List Char) (h : Stop tail) :
    scanQuot (p ++ tail) = (scanQuot p).map (fun x => (x.1, x.2 ++ tail)) := by
  unfold scanQuot
  rw [scanLit_append p tail h]
  cases scanLit p with
  | none => rfl
  | some x =>
    obtain ⟨a, r⟩ := x
    simp only [Option.map_some]
    cases r with
    | nil =>
      cases tail with
      | nil => simp
      | cons d t =>
        have := (h d t rfl).2.2
        simp only [List.nil_append]
        split
        · rename_i heq; simp at heq; exact absurd heq.1 this
        · simp
    | cons c r' =>
      by_cases hc : c = '/'
      · subst hc
        simp only [List.cons_append, scanLit_append r' tail h]
        cases scanLit r' with
        | none => rfl
        | some y =>
          obtain ⟨b, r2⟩ := y
          simp only [Option.map_some]
          split <;> simp
      · simp only [List.cons_append]
        repeat' split
        all_goals simp_all

theorem scanLit_lt {cs r : List Char} {v : Frac} (h : scanLit cs = some (v, r)) : r.length < cs.length := by
  have hlen := congrArg List.length (List.takeWhile_append_dropWhile (p := Char.isDigit) (l := cs))
  simp only [List.length_append] at hlen
  unfold scanLit at h
  dsimp only at h
  split at h
  · rename_i r2 hr1
    split at h
    · cases h
    · simp only [Option.some.injEq, Prod.mk.injEq] at h
      obtain ⟨_, hr⟩ := h
      subst hr
      have h2 := (List.dropWhile_sublist (l := r2) Char.isDigit).length_le
      rw [hr1] at hlen
      simp only [List.length_cons] at hlen
      omega
  · split at h
    · cases h
    · rename_i hne
      simp only [Option.some.injEq, Prod.mk.injEq] at h
      obtain ⟨_, hr⟩ := h
      subst hr
      have : 0 < (cs.takeWhile Char.isDigit).length := by
        cases h3 : cs.takeWhile Char.isDigit with
        | nil => simp [h3] at hne
        | cons _ _ => simp
      omega

theorem scanQuot_lt {cs r : List Char} {v : Frac} (h : scanQuot cs = some (v, r)) : r.length < cs.length := by
  unfold scanQuot at h
  split at h
  · cases h
  · rename_i a r1 ha
    have h1 := scanLit_lt ha
    split at h
    · rename_i r' hr1
      split at h
      · cases h
      · rename_i b r'' hb
        have h2 := scanLit_lt hb
        split at h
        · cases h
        · simp only [Option.some.injEq, Prod.mk.injEq] at h
          obtain ⟨_, hr⟩ := h
          subst hr
          simp only [List.length_cons] at h1
          omega
    · simp only [Option.some.injEq, Prod.mk.injEq] at h
      obtain ⟨_, hr⟩ := h
      subst hr
      exact h1

/-- enough fuel is any fuel -/
theorem scanRowG_fuel (ax : Char → Option Nat) : ∀ (f1 f2 : Nat) (first : Bool) (cs : List Char),
    cs.length < f1 → cs.length < f2 → scanRowG ax f1 first cs = scanRowG ax f2 first cs := by
  intro f1
  induction f1 with
  | zero => intro f2 first cs h; omega
  | succ n ih =>
    intro f2 first cs h1 h2
    cases f2 with
    | zero => omega
    | succ m =>
      unfold scanRowG
      cases cs with
      | nil => rfl
      | cons c rest =>
        simp only [List.length_cons] at h1 h2
        dsimp only
        split
        · rw [ih m true rest (by omega) (by omega)]
        · split
          · cases rest with
            | nil => rfl
            | cons d rest' =>
              simp only [List.length_cons] at h1 h2
              dsimp only
              split
              · rw [ih m true rest' (by omega) (by omega)]
              · split
                · rfl
                · rename_i v r hq
                  have := scanQuot_lt hq
                  simp only [List.length_cons] at this
                  rw [ih m false r (by omega) (by omega)]
          · split
            · split
              · rfl
              · rename_i v r hq
                have := scanQuot_lt hq
                simp only [List.length_cons] at this
                rw [ih m false r (by omega) (by omega)]
            · rfl

end DS.SymText
