import DS.Gen.SrcSymOp
import DS.Lemmas.SrcSymOp
import DS.Lemmas.SrcSymOp2
namespace DS.SrcSymOp3
open DS.Rx DS.PyStr DS.SymText DS.Src.SymOp

/-- the part of the loop body after the `bad` check, on the matched text `m`, with the rest of the loop as `k` -/
def stepK (m : List Char) (k : Frac → Except Exn Frac) : Except Exn Frac := do
  let p := partition '/' m
  let nom := p.1
  let den := p.2.2
  let z ← (if !den.isEmpty then (do let d ← float den; pure (decide (d.num = 0))) else pure false)
  if z then .error .structureFormatError else
  let v ← (if !den.isEmpty then (do let a ← float nom; let b ← float den; fdiv a b) else float nom)
  k v

theorem loop_succ (tpart : List Char) (fuel : Nat) (total : Frac) (pos : Nat) :
    symop_constant_loop tpart (fuel+1) total pos =
      if pos < tpart.length then
        match pyMatch rx_symop_constant tpart pos with
        | none => .error .structureFormatError
        | some mx => do
          let bad ← (if 0 < pos then (do let c ← listIndex tpart pos; pure (!(['+', '-'].contains c))) else pure false)
          if bad then .error .structureFormatError else
          stepK (group tpart mx) (fun v => symop_constant_loop tpart fuel (total.add v) mx.2)
      else pure total := by
  rw [symop_constant_loop]; rfl

theorem ok_bind {α β : Type} (a : α) (f : α → Except Exn β) : (Except.ok a >>= f) = f a := rfl
theorem err_bind {α β : Type} (e : Exn) (f : α → Except Exn β) : ((Except.error e : Except Exn α) >>= f) = Except.error e := rfl

theorem pieceToks_cons (fuel : Nat) (first : Bool) (c : Char) (rest : List Char) :
    pieceToks (fuel+1) first (c :: rest) =
      if isSign c || first then
        match scanQuot (unsign (c :: rest)) with
        | none => none
        | some (v, r) => (pieceToks fuel false r).map (Tok.num (if c = '-' then v.neg else v) :: ·)
      else none := by
  simp only [pieceToks]
  conv => lhs; unfold scanRowG
  simp only [axNone, unsign]
  by_cases hc : isSign c = true
  · simp only [hc, if_true, Bool.true_or]
    cases rest with
    | nil => simp [scanQuot, scanLit_nil]
    | cons d r => rfl
  · have hc' : isSign c = false := by simpa using hc
    have hm : c ≠ '-' := by intro h; subst h; simp [isSign] at hc
    simp only [hc', Bool.false_or, Bool.false_eq_true, if_false, hm]
    cases first <;> simp
    rfl


/-! ### the literal scanner under truncation -/

theorem takeWhile_all {p : Char → Bool} : ∀ l : List Char, (∀ c ∈ l, p c = true) → l.takeWhile p = l
  | [], _ => rfl
  | c :: l, h => by
    have hc : p c = true := h c (by simp)
    simp only [List.takeWhile_cons, hc, if_true]
    rw [takeWhile_all l (fun d hd => h d (by simp [hd]))]

theorem dropWhile_all {p : Char → Bool} : ∀ l : List Char, (∀ c ∈ l, p c = true) → l.dropWhile p = []
  | [], _ => rfl
  | c :: l, h => by
    have hc : p c = true := h c (by simp)
    simp only [List.dropWhile_cons, hc, if_true]
    exact dropWhile_all l (fun d hd => h d (by simp [hd]))

theorem mem_takeWhile {p : Char → Bool} {l : List Char} {c : Char} (h : c ∈ l.takeWhile p) : p c = true := by
  have hall : (l.takeWhile p).all p = true := List.all_takeWhile
  exact List.all_eq_true.mp hall c h

theorem dot_not_digit : Char.isDigit '.' = false := by decide

theorem takeWhile_dig_dot (ip fp : List Char) (hip : ∀ c ∈ ip, c.isDigit = true) :
    (ip ++ '.' :: fp).takeWhile Char.isDigit = ip := by
  rw [List.takeWhile_append_of_pos hip]
  simp [dot_not_digit]

theorem dropWhile_dig_dot (ip fp : List Char) (hip : ∀ c ∈ ip, c.isDigit = true) :
    (ip ++ '.' :: fp).dropWhile Char.isDigit = '.' :: fp := by
  rw [List.dropWhile_append_of_pos hip]
  simp [dot_not_digit]

theorem scanLit_build_dot (ip fp : List Char) (hip : ∀ c ∈ ip, c.isDigit = true)
    (hfp : ∀ c ∈ fp, c.isDigit = true) (hne : (ip.isEmpty && fp.isEmpty) = false) :
    scanLit (ip ++ '.' :: fp) = some (⟨digitsVal (ip ++ fp), 10 ^ fp.length⟩, []) := by
  unfold scanLit
  simp only [takeWhile_dig_dot ip fp hip, dropWhile_dig_dot ip fp hip,
    takeWhile_all _ hfp, dropWhile_all _ hfp, hne]
  simp

theorem scanLit_build_int (ip : List Char) (hip : ∀ c ∈ ip, c.isDigit = true) (hne : ip.isEmpty = false) :
    scanLit ip = some (⟨digitsVal ip, 1⟩, []) := by
  unfold scanLit
  simp only [takeWhile_all _ hip, dropWhile_all _ hip, hne]
  simp

theorem scanLit_shape {s r : List Char} {v : Frac} (h : scanLit s = some (v, r)) :
    ∃ pre, s = pre ++ r ∧ pre ≠ [] ∧ (∀ c ∈ pre, c.isDigit = true ∨ c = '.') ∧
      scanLit pre = some (v, []) ∧ 0 ≤ v.num := by
  unfold scanLit at h
  dsimp only at h
  have hsplit : s = s.takeWhile Char.isDigit ++ s.dropWhile Char.isDigit :=
    (List.takeWhile_append_dropWhile (p := Char.isDigit) (l := s)).symm
  have hip : ∀ c ∈ s.takeWhile Char.isDigit, c.isDigit = true := fun c hc => mem_takeWhile hc
  split at h
  · rename_i r2 hr1
    have hfp : ∀ c ∈ r2.takeWhile Char.isDigit, c.isDigit = true := fun c hc => mem_takeWhile hc
    split at h
    · cases h
    · rename_i hne
      simp only [Option.some.injEq, Prod.mk.injEq] at h
      obtain ⟨hv, hr⟩ := h
      subst hv hr
      refine ⟨s.takeWhile Char.isDigit ++ '.' :: r2.takeWhile Char.isDigit, ?_, by simp, ?_, ?_, ?_⟩
      · have h2 : r2 = r2.takeWhile Char.isDigit ++ r2.dropWhile Char.isDigit :=
          (List.takeWhile_append_dropWhile (p := Char.isDigit) (l := r2)).symm
        calc s = s.takeWhile Char.isDigit ++ s.dropWhile Char.isDigit := hsplit
          _ = s.takeWhile Char.isDigit ++ '.' :: r2 := by rw [hr1]
          _ = s.takeWhile Char.isDigit ++ '.' :: (r2.takeWhile Char.isDigit ++ r2.dropWhile Char.isDigit) := by rw [← h2]
          _ = _ := by simp
      · intro c hc
        simp only [List.mem_append, List.mem_cons] at hc
        rcases hc with hc | rfl | hc
        · exact Or.inl (hip c hc)
        · exact Or.inr rfl
        · exact Or.inl (hfp c hc)
      · exact scanLit_build_dot _ _ hip hfp (by simpa using hne)
      · exact Int.natCast_nonneg _
  · rename_i hr1
    split at h
    · cases h
    · rename_i hne
      simp only [Option.some.injEq, Prod.mk.injEq] at h
      obtain ⟨hv, hr⟩ := h
      subst hv hr
      refine ⟨s.takeWhile Char.isDigit, hsplit, ?_, fun c hc => Or.inl (hip c hc), ?_, Int.natCast_nonneg _⟩
      · intro h0; rw [h0] at hne; simp at hne
      · exact scanLit_build_int _ hip (by simpa using hne)


/-! ### `partition`, `float` and the value of one matched text -/

theorem partition_none (sep : Char) : ∀ l : List Char, (∀ c ∈ l, c ≠ sep) → partition sep l = (l, [], [])
  | [], _ => rfl
  | c :: l, h => by
    have hc : c ≠ sep := h c (by simp)
    simp only [partition, hc, if_false]
    rw [partition_none sep l (fun d hd => h d (by simp [hd]))]

theorem partition_at (sep : Char) : ∀ (l r : List Char), (∀ c ∈ l, c ≠ sep) →
    partition sep (l ++ sep :: r) = (l, [sep], r)
  | [], r, _ => by simp [partition]
  | c :: l, r, h => by
    have hc : c ≠ sep := h c (by simp)
    simp only [List.cons_append, partition, hc, if_false]
    rw [partition_at sep l r (fun d hd => h d (by simp [hd]))]

/-- a character of a literal -/
def litChar (c : Char) : Prop := c.isDigit = true ∨ c = '.'

theorem litChar_ne {c : Char} (h : litChar c) : c ≠ '/' ∧ c ≠ '+' ∧ c ≠ '-' := by
  refine ⟨?_, ?_, ?_⟩ <;> intro e <;> subst e <;> rcases h with h | h <;> revert h <;> decide

theorem litChar_not_sign {c : Char} (h : litChar c) : isSign c = false := by
  have := litChar_ne h
  simp [isSign, this.2.1, this.2.2]

theorem float_unsigned {c : Char} {l : List Char} (h1 : c ≠ '+') (h2 : c ≠ '-') :
    float (c :: l) = match decimal (c :: l) with | some v => .ok v | none => .error .outside := by
  unfold float
  split
  · rename_i heq; simp at heq; exact absurd heq.1 h1
  · rename_i heq; simp at heq; exact absurd heq.1 h2
  · rfl

/-- the value with the sign prefix applied -/
def sval (sg : List Char) (a : Frac) : Frac := if sg = ['-'] then a.neg else a

theorem float_sg (sg lp : List Char) (a : Frac) (hsg : sg = [] ∨ sg = ['+'] ∨ sg = ['-'])
    (hne : lp ≠ []) (hch : ∀ c ∈ lp, litChar c) (hdec : scanLit lp = some (a, [])) :
    float (sg ++ lp) = .ok (sval sg a) := by
  have hd : decimal lp = some a := by unfold decimal; rw [hdec]
  rcases hsg with rfl | rfl | rfl
  · cases lp with
    | nil => exact absurd rfl hne
    | cons c l =>
      have := litChar_ne (hch c (by simp))
      rw [List.nil_append, float_unsigned this.2.1 this.2.2, hd]; rfl
  · simp [float, hd, sval]
  · simp [float, hd, sval]

theorem stepK_plain (m : List Char) (v : Frac) (k : Frac → Except Exn Frac)
    (hm : ∀ c ∈ m, c ≠ '/') (hf : float m = .ok v) : stepK m k = k v := by
  unfold stepK
  simp only [partition_none '/' m hm, hf]
  rfl

theorem stepK_quot (n d : List Char) (a b : Frac) (k : Frac → Except Exn Frac)
    (hn : ∀ c ∈ n, c ≠ '/') (hd : d ≠ []) (hfa : float n = .ok a) (hfb : float d = .ok b) (hb : 0 ≤ b.num) :
    stepK (n ++ '/' :: d) k = if b.num = 0 then .error .structureFormatError else k (a.div b) := by
  unfold stepK
  have hde : d.isEmpty = false := by cases d with | nil => exact absurd rfl hd | cons _ _ => rfl
  simp only [partition_at '/' n d hn, hfa, hfb, hde]
  simp only [Bool.not_false, if_true, ok_bind, pure_bind]
  by_cases h0 : b.num = 0
  · simp only [h0, decide_true, if_true]
  · have hpos : 0 < b.num := by omega
    simp only [h0, decide_false, if_false, fdiv, hpos, if_true, ok_bind, Bool.false_eq_true]


/-! ### one iteration of the loop -/

theorem pyMatch_const (pre s : List Char) :
    pyMatch rx_symop_constant (pre ++ s) pre.length =
      (constRest s).map (fun rest => (pre.length, (pre ++ s).length - rest.length)) := by
  have hrx : rx_symop_constant = rxConst := rfl
  have hle : pre.length ≤ (pre ++ s).length := by simp
  simp only [pyMatch, hle, if_true, hrx, matchRest_rxConst, List.drop_left]

theorem contains_sign (c : Char) : ['+', '-'].contains c = isSign c := by
  simp only [List.contains, List.elem, isSign]
  by_cases h1 : c = '+'
  · subst h1; rfl
  · by_cases h2 : c = '-'
    · subst h2; rfl
    · have e1 : (c == '+') = false := by simp [h1]
      have e2 : (c == '-') = false := by simp [h2]
      simp [e1, e2, h1, h2]

theorem group_mid (pre s : List Char) (e : Nat) :
    group (pre ++ s) (pre.length, e) = s.take (e - pre.length) := by
  simp [group]

theorem listIndex_mid (pre : List Char) (c : Char) (rest : List Char) :
    listIndex (pre ++ c :: rest) pre.length = .ok c := by
  simp [listIndex]

theorem loop_step (pre : List Char) (c : Char) (rest : List Char) (fuel : Nat) (total : Frac) :
    symop_constant_loop (pre ++ c :: rest) (fuel+1) total pre.length =
      match constRest (c :: rest) with
      | none => .error .structureFormatError
      | some r =>
        if (isSign c || pre.isEmpty) then
          stepK ((c :: rest).take ((c :: rest).length - r.length))
            (fun v => symop_constant_loop (pre ++ c :: rest) fuel (total.add v) ((pre ++ c :: rest).length - r.length))
        else .error .structureFormatError := by
  rw [loop_succ, pyMatch_const]
  have hlt : pre.length < (pre ++ c :: rest).length := by simp
  simp only [hlt, if_true]
  cases constRest (c :: rest) with
  | none => rfl
  | some r =>
    simp only [Option.map, listIndex_mid, ok_bind, contains_sign, group_mid]
    have hlen : (pre ++ c :: rest).length - r.length - pre.length = (c :: rest).length - r.length := by
      simp only [List.length_append]; omega
    rw [hlen]
    cases pre with
    | nil => simp [pure_bind]
    | cons p ps =>
      cases hs : isSign c
      · simp [pure_bind]
      · simp [pure_bind]

/-- one iteration that matches `m` (the piece is `m ++ r` from the current position) -/
theorem loop_advance (pre m r : List Char) (c : Char) (rest : List Char) (hs : c :: rest = m ++ r)
    (hc : constRest (c :: rest) = some r) (hok : (isSign c || pre.isEmpty) = true) (fuel : Nat) (total : Frac) :
    symop_constant_loop (pre ++ c :: rest) (fuel+1) total pre.length =
      stepK m (fun v => symop_constant_loop ((pre ++ m) ++ r) fuel (total.add v) (pre ++ m).length) := by
  rw [loop_step, hc]
  simp only [hok, if_true]
  rw [hs]
  have h1 : (m ++ r).length - r.length = m.length := by simp
  have h2 : (pre ++ (m ++ r)).length - r.length = (pre ++ m).length := by
    simp only [List.length_append]; omega
  rw [h1, h2, List.take_left', List.append_assoc]
  rfl

/-! ### the model's quotient scanner and the pattern's tail, by cases -/

theorem scanQuot_none_of_lit {t : List Char} (h : scanLit t = none) : scanQuot t = none := by
  unfold scanQuot; rw [h]

theorem scanQuot_plain {t r1 : List Char} {a : Frac} (h : scanLit t = some (a, r1)) (hns : ∀ r', r1 ≠ '/' :: r') :
    scanQuot t = some (a, r1) := by
  unfold scanQuot; rw [h]
  dsimp only
  split
  · exact absurd rfl (hns _)
  · rfl

theorem scanQuot_slash_none {t r' : List Char} {a : Frac} (h : scanLit t = some (a, '/' :: r'))
    (h2 : scanLit r' = none) : scanQuot t = none := by
  unfold scanQuot; rw [h]; simp [h2]

theorem scanQuot_slash_some {t r' r2 : List Char} {a b : Frac} (h : scanLit t = some (a, '/' :: r'))
    (h2 : scanLit r' = some (b, r2)) : scanQuot t = if b.num ≤ 0 then none else some (a.div b, r2) := by
  unfold scanQuot; rw [h]; simp [h2]

theorem slashTail_plain {r1 : List Char} (hns : ∀ r', r1 ≠ '/' :: r') : slashTail r1 = r1 := by
  cases r1 with
  | nil => rfl
  | cons d r =>
    have : d ≠ '/' := fun e => hns r (by rw [e])
    simp [slashTail, this]

theorem slashTail_none {r' : List Char} (h2 : scanLit r' = none) : slashTail ('/' :: r') = '/' :: r' := by
  simp [slashTail, h2]

theorem slashTail_some {r' r2 : List Char} {b : Frac} (h2 : scanLit r' = some (b, r2)) : slashTail ('/' :: r') = r2 := by
  simp [slashTail, h2]

theorem constRest_of_lit {s r1 : List Char} {a : Frac} (h : scanLit (unsign s) = some (a, r1)) :
    constRest s = some (slashTail r1) := by
  simp [constRest, h]

theorem constRest_none {s : List Char} (h : scanLit (unsign s) = none) : constRest s = none := by
  simp [constRest, h]

/-- the sign prefix of a non-empty piece -/
theorem unsign_split (c : Char) (rest : List Char) :
    ∃ sg, c :: rest = sg ++ unsign (c :: rest) ∧ (sg = [] ∨ sg = ['+'] ∨ sg = ['-']) ∧
      (∀ v, sval sg v = if c = '-' then v.neg else v) := by
  by_cases h1 : c = '+'
  · subst h1; exact ⟨['+'], by simp [unsign, isSign], Or.inr (Or.inl rfl), fun v => by simp [sval]⟩
  · by_cases h2 : c = '-'
    · subst h2; exact ⟨['-'], by simp [unsign, isSign], Or.inr (Or.inr rfl), fun v => by simp [sval]⟩
    · exact ⟨[], by simp [unsign, isSign, h1, h2], Or.inl rfl, fun v => by simp [sval, h2]⟩

theorem sval_div (sg : List Char) (a b : Frac) : (sval sg a).div b = sval sg (a.div b) := by
  unfold sval
  split
  · simp [Frac.div, Frac.neg, Int.neg_mul]
  · rfl

theorem sg_no_slash {sg lp : List Char} (hsg : sg = [] ∨ sg = ['+'] ∨ sg = ['-']) (hch : ∀ c ∈ lp, litChar c) :
    ∀ c ∈ sg ++ lp, c ≠ '/' := by
  intro c hc
  rcases List.mem_append.mp hc with h | h
  · rcases hsg with rfl | rfl | rfl
    · simp at h
    · simp at h; subst h; decide
    · simp at h; subst h; decide
  · exact (litChar_ne (hch c h)).1

theorem finish (total v : Frac) (o : Option (List Tok)) :
    (match o with
      | none => (.error .structureFormatError : Except Exn Frac)
      | some a => .ok ((total.add v).add (rowConst a))) =
    (match o.map (Tok.num v :: ·) with
      | none => .error .structureFormatError
      | some a => .ok (total.add (rowConst a))) := by
  cases o with
  | none => rfl
  | some a => simp [rowConst, Frac.add_assoc]

/-! ### the loop -/

/-- the statement of `loop_eq` at one iteration bound -/
def LoopEq (fuel : Nat) : Prop := ∀ (pre s : List Char) (total : Frac), s.length < fuel →
    symop_constant_loop (pre ++ s) fuel total pre.length =
      match pieceToks fuel (pre.isEmpty) s with
      | none => .error .structureFormatError
      | some a => .ok (total.add (rowConst a))

theorem isEmpty_append_ne {pre m : List Char} (hm : m ≠ []) : (pre ++ m).isEmpty = false := by
  cases m with
  | nil => exact absurd rfl hm
  | cons x xs => cases pre <;> rfl

theorem length_pos_ne {l : List Char} (h : l ≠ []) : 0 < l.length := by
  cases l with
  | nil => exact absurd rfl h
  | cons _ _ => simp

/-- source side: a number without quotient (matched text `sg ++ lp`) -/
theorem lhs_plain (fuel : Nat) (ih : LoopEq fuel) (pre sg lp r1 : List Char) (c : Char) (rest : List Char)
    (a total : Frac)
    (hlen : (c :: rest).length < fuel + 1)
    (hok : (isSign c || pre.isEmpty) = true)
    (hsg : sg = [] ∨ sg = ['+'] ∨ sg = ['-'])
    (hs : c :: rest = sg ++ unsign (c :: rest))
    (hl : scanLit (unsign (c :: rest)) = some (a, r1))
    (ht : unsign (c :: rest) = lp ++ r1) (hne : lp ≠ []) (hch : ∀ c ∈ lp, litChar c)
    (hdec : scanLit lp = some (a, [])) (hst : slashTail r1 = r1) :
    symop_constant_loop (pre ++ c :: rest) (fuel+1) total pre.length =
      match pieceToks fuel false r1 with
      | none => .error .structureFormatError
      | some t => .ok ((total.add (sval sg a)).add (rowConst t)) := by
  have hs' : c :: rest = (sg ++ lp) ++ r1 := hs.trans (by rw [ht, List.append_assoc])
  have hc : constRest (c :: rest) = some r1 := by rw [constRest_of_lit hl, hst]
  rw [loop_advance pre (sg ++ lp) r1 c rest hs' hc hok]
  rw [stepK_plain (sg ++ lp) (sval sg a) _ (sg_no_slash hsg hch) (float_sg sg lp a hsg hne hch hdec)]
  have hm : sg ++ lp ≠ [] := by simp [hne]
  have hl2 : r1.length < fuel := by
    have e := congrArg List.length hs'
    have := length_pos_ne hne
    simp only [List.length_append, List.length_cons] at e hlen
    omega
  have := ih (pre ++ (sg ++ lp)) r1 (total.add (sval sg a)) hl2
  rw [isEmpty_append_ne hm] at this
  exact this

/-- source side: a quotient (matched text `sg ++ lp ++ '/' :: lp2`) -/
theorem lhs_quot (fuel : Nat) (ih : LoopEq fuel) (pre sg lp lp2 r' r2 : List Char) (c : Char) (rest : List Char)
    (a b total : Frac)
    (hlen : (c :: rest).length < fuel + 1)
    (hok : (isSign c || pre.isEmpty) = true)
    (hsg : sg = [] ∨ sg = ['+'] ∨ sg = ['-'])
    (hs : c :: rest = sg ++ unsign (c :: rest))
    (hl : scanLit (unsign (c :: rest)) = some (a, '/' :: r'))
    (ht : unsign (c :: rest) = lp ++ '/' :: r') (hne : lp ≠ []) (hch : ∀ c ∈ lp, litChar c)
    (hdec : scanLit lp = some (a, []))
    (hl2 : scanLit r' = some (b, r2)) (ht2 : r' = lp2 ++ r2) (hne2 : lp2 ≠ []) (hch2 : ∀ c ∈ lp2, litChar c)
    (hdec2 : scanLit lp2 = some (b, [])) (hb : 0 ≤ b.num) :
    symop_constant_loop (pre ++ c :: rest) (fuel+1) total pre.length =
      if b.num = 0 then .error .structureFormatError else
      match pieceToks fuel false r2 with
      | none => .error .structureFormatError
      | some t => .ok ((total.add ((sval sg a).div b)).add (rowConst t)) := by
  have hs' : c :: rest = ((sg ++ lp) ++ '/' :: lp2) ++ r2 := hs.trans (by rw [ht, ht2]; simp)
  have hc : constRest (c :: rest) = some r2 := by rw [constRest_of_lit hl, slashTail_some hl2]
  rw [loop_advance pre ((sg ++ lp) ++ '/' :: lp2) r2 c rest hs' hc hok]
  have hfb : float lp2 = .ok b := by
    have := float_sg [] lp2 b (Or.inl rfl) hne2 hch2 hdec2
    simpa [sval] using this
  rw [stepK_quot (sg ++ lp) lp2 (sval sg a) b _ (sg_no_slash hsg hch) hne2
    (float_sg sg lp a hsg hne hch hdec) hfb hb]
  by_cases h0 : b.num = 0
  · simp only [h0, if_true]
  · simp only [h0, if_false]
    have hm : (sg ++ lp) ++ '/' :: lp2 ≠ [] := by simp
    have hlt : r2.length < fuel := by
      have e := congrArg List.length hs'
      simp only [List.length_append, List.length_cons] at e hlen
      omega
    have := ih (pre ++ ((sg ++ lp) ++ '/' :: lp2)) r2 (total.add ((sval sg a).div b)) hlt
    rw [isEmpty_append_ne hm] at this
    exact this

theorem pieceToks_slash (fuel : Nat) (r' : List Char) (h : ('/' :: r').length < fuel) :
    pieceToks fuel false ('/' :: r') = none := by
  cases fuel with
  | zero => simp at h
  | succ f => rw [pieceToks_cons]; rfl

theorem loopEq_succ (fuel : Nat) (ih : LoopEq fuel) : LoopEq (fuel + 1) := by
  intro pre s total hlen
  cases s with
  | nil =>
    rw [loop_succ]
    simp [pieceToks, scanRowG, rowConst, Frac.add_zero]
    rfl
  | cons c rest =>
    by_cases hok : (isSign c || pre.isEmpty) = true
    · obtain ⟨sg, hs, hsg, hsv⟩ := unsign_split c rest
      rw [pieceToks_cons]
      simp only [hok, if_true]
      cases hl : scanLit (unsign (c :: rest)) with
      | none =>
        rw [loop_step, constRest_none hl, scanQuot_none_of_lit hl]
      | some p =>
        obtain ⟨a, r1⟩ := p
        obtain ⟨lp, ht, hne, hch, hdec, _⟩ := scanLit_shape hl
        have hr1len : r1.length < fuel := by
          have e : (c :: rest).length = (sg ++ (lp ++ r1)).length := by rw [← ht, ← hs]
          have := length_pos_ne hne
          simp only [List.length_append, List.length_cons] at e hlen
          omega
        have hcases : (∀ r', r1 ≠ '/' :: r') ∨ ∃ r', r1 = '/' :: r' := by
          cases r1 with
          | nil => left; intro r' h; cases h
          | cons d r =>
            by_cases hd : d = '/'
            · right; exact ⟨r, by rw [hd]⟩
            · left; intro r' h; injection h with h1 _; exact hd h1
        rcases hcases with hns | ⟨r', hr'⟩
        · rw [lhs_plain fuel ih pre sg lp r1 c rest a total hlen hok hsg hs hl ht hne hch hdec
            (slashTail_plain hns), scanQuot_plain hl hns]
          dsimp only
          rw [← hsv a]
          exact finish total (sval sg a) _
        · subst hr'
          cases hl2 : scanLit r' with
          | none =>
            rw [lhs_plain fuel ih pre sg lp ('/' :: r') c rest a total hlen hok hsg hs hl ht hne hch hdec
              (slashTail_none hl2), scanQuot_slash_none hl hl2, pieceToks_slash fuel r' hr1len]
          | some q =>
            obtain ⟨b, r2⟩ := q
            obtain ⟨lp2, ht2, hne2, hch2, hdec2, hb⟩ := scanLit_shape hl2
            rw [lhs_quot fuel ih pre sg lp lp2 r' r2 c rest a b total hlen hok hsg hs hl ht hne hch hdec
              hl2 ht2 hne2 hch2 hdec2 hb, scanQuot_slash_some hl hl2]
            by_cases h0 : b.num = 0
            · have h1 : b.num ≤ 0 := by omega
              rw [if_pos h0, if_pos h1]
            · have h1 : ¬ b.num ≤ 0 := by omega
              rw [if_neg h0, if_neg h1]
              dsimp only
              rw [← hsv (a.div b), ← sval_div]
              exact finish total ((sval sg a).div b) _
    · have hok' : (isSign c || pre.isEmpty) = false := by simpa using hok
      rw [pieceToks_cons, loop_step]
      simp only [hok', Bool.false_eq_true, if_false]
      cases constRest (c :: rest) <;> rfl

theorem loop_eq : ∀ (fuel : Nat) (pre s : List Char) (total : Frac), s.length < fuel →
    symop_constant_loop (pre ++ s) fuel total pre.length =
      match pieceToks fuel (pre.isEmpty) s with
      | none => .error .structureFormatError
      | some a => .ok (total.add (rowConst a)) := by
  intro fuel
  induction fuel with
  | zero => intro pre s total h; omega
  | succ n ih => exact loopEq_succ n ih

theorem symop_constant_eq (p : List Char) :
    symop_constant p =
      match pieceToks (p.length + 1) true p with
      | none => .error .structureFormatError
      | some a => .ok (rowConst a) := by
  have := loop_eq (p.length + 1) [] p Frac.zero (Nat.lt_succ_self _)
  simp only [List.nil_append, List.length_nil, List.isEmpty_nil, Frac.zero_add] at this
  exact this

end DS.SrcSymOp3
