import DS.Lemmas.Orbit

/-!
`expandPosition` (literal model `Orbit.expand`) computes the first-occurrence list of distinct
images and groups the operations by image, provided any two images are equal or farther apart
than the tolerance (`Sep`).
-/
namespace DS
namespace Orbit

/-! ### buckets and box distance -/

theorem sub_lt_of_ediv_eq {E a b : Int} (hE : 0 < E) (h : a / E = b / E) : a - b < E := by
  have h1 := Int.emod_nonneg a (Int.ne_of_gt hE)
  have h4 := Int.emod_lt_of_pos b hE
  have h3 := Int.emod_nonneg b (Int.ne_of_gt hE)
  have h2 := Int.emod_lt_of_pos a hE
  have h5 := Int.mul_ediv_add_emod a E
  have h6 := Int.mul_ediv_add_emod b E
  rw [h] at h5
  omega

theorem pdiff1_lt {D E u v : Int} (hu : 0 ≤ u ∧ u < D) (hv : 0 ≤ v ∧ v < D)
    (h1 : u - v < E) (h2 : v - u < E) : pdiff1 D u v < E := by
  unfold pdiff1
  by_cases huv : v ≤ u
  · have : (u - v) % D = u - v := Int.emod_eq_of_lt (by omega) (by omega)
    simp only [this]
    split <;> omega
  · have : (u - v) % D = u - v + D := by
      rw [← Int.add_emod_right (u - v) D]
      exact Int.emod_eq_of_lt (by omega) (by omega)
    simp only [this]
    split <;> omega

def InCell (D : Int) (p : P3) : Prop :=
  (0 ≤ p.1 ∧ p.1 < D) ∧ (0 ≤ p.2.1 ∧ p.2.1 < D) ∧ (0 ≤ p.2.2 ∧ p.2.2 < D)

theorem img_inCell (a : Op) {k : Int} (hk : 0 < k) (off x : P3) : InCell (24 * k) (img a k off x) := by
  have hD : (0 : Int) < 24 * k := by omega
  simp only [InCell, img]
  exact ⟨⟨Int.emod_nonneg _ (Int.ne_of_gt hD), Int.emod_lt_of_pos _ hD⟩,
         ⟨Int.emod_nonneg _ (Int.ne_of_gt hD), Int.emod_lt_of_pos _ hD⟩,
         ⟨Int.emod_nonneg _ (Int.ne_of_gt hD), Int.emod_lt_of_pos _ hD⟩⟩

theorem boxDist_lt_of_bucket_eq {D E : Int} (hE : 0 < E) {p q : P3} (hp : InCell D p) (hq : InCell D q)
    (h : bucket E p = bucket E q) : boxDist D p q < E := by
  simp only [bucket, Prod.mk.injEq] at h
  obtain ⟨h1, h2, h3⟩ := h
  unfold boxDist
  have a1 := pdiff1_lt hp.1 hq.1 (sub_lt_of_ediv_eq hE h1) (sub_lt_of_ediv_eq hE h1.symm)
  have a2 := pdiff1_lt hp.2.1 hq.2.1 (sub_lt_of_ediv_eq hE h2) (sub_lt_of_ediv_eq hE h2.symm)
  have a3 := pdiff1_lt hp.2.2 hq.2.2 (sub_lt_of_ediv_eq hE h3) (sub_lt_of_ediv_eq hE h3.symm)
  omega

/-! ### the bucket table of a position list -/

/-- the key table the loop maintains when no aliasing happens -/
def keysOf (E : Int) : List P3 → Nat → List (P3 × Nat)
  | [], _ => []
  | p :: ps, n => (bucket E p, n) :: keysOf E ps (n + 1)

theorem keysOf_append (E : Int) (ps : List P3) (p : P3) (n : Nat) :
    keysOf E (ps ++ [p]) n = keysOf E ps n ++ [(bucket E p, n + ps.length)] := by
  induction ps generalizing n with
  | nil => simp [keysOf]
  | cons q qs ih => simp [keysOf, ih, Nat.add_assoc, Nat.add_comm 1]

/-- looking a bucket up returns the index of the first position in that bucket -/
theorem lookupKey_keysOf_none {E : Int} {ps : List P3} {n : Nat} {b : P3}
    (h : ∀ p ∈ ps, bucket E p ≠ b) : lookupKey (keysOf E ps n) b = none := by
  induction ps generalizing n with
  | nil => simp [keysOf, lookupKey]
  | cons q qs ih =>
    have hq : bucket E q ≠ b := h q List.mem_cons_self
    have := ih (n := n + 1) (fun p hp => h p (List.mem_cons_of_mem _ hp))
    simp only [lookupKey, keysOf, List.find?_cons] at this ⊢
    have hb : (bucket E q == b) = false := by simpa using hq
    simp only [hb]
    exact this

theorem lookupKey_keysOf_some {E : Int} {ps : List P3} {n i : Nat} {b : P3} (hi : i < ps.length)
    (hb : bucket E ps[i] = b) (hfirst : ∀ j (hj : j < i), bucket E (ps[j]'(by omega)) ≠ b) :
    lookupKey (keysOf E ps n) b = some (n + i) := by
  induction ps generalizing n i with
  | nil => simp at hi
  | cons q qs ih =>
    cases i with
    | zero =>
      simp only [List.getElem_cons_zero] at hb
      simp [lookupKey, keysOf, hb]
    | succ i =>
      have hq : bucket E q ≠ b := by
        have := hfirst 0 (by omega)
        simpa using this
      have hbq : (bucket E q == b) = false := by simpa using hq
      have := ih (n := n + 1) (i := i) (by simpa using hi) (by simpa using hb)
        (fun j hj => by
          have := hfirst (j + 1) (by omega)
          simpa using this)
      simp only [lookupKey, keysOf, List.find?_cons, hbq] at this ⊢
      rw [this]; congr 1; omega


/-! ### de-duplication and classes under appending -/

theorem dedupFirst_append (l : List P3) (p : P3) :
    dedupFirst (l ++ [p]) = if p ∈ l then dedupFirst l else dedupFirst l ++ [p] := by
  induction l with
  | nil => simp [dedupFirst]
  | cons q qs ih =>
    simp only [List.cons_append, dedupFirst, ih]
    by_cases hpq : p = q
    · subst hpq
      by_cases hp : p ∈ qs
      · simp [hp]
      · simp [hp, List.filter_append]
    · by_cases hp : p ∈ qs
      · simp [hp, hpq]
      · simp [hp, hpq, List.filter_append]

/-- operations of `done` grouped by the listed positions -/
def classesOf (f : Op → P3) (ps : List P3) (done : List Op) : List (List Op) :=
  ps.map (fun p => done.filter (fun g => decide (f g = p)))

theorem classesOf_snoc_mem {f : Op → P3} {ps : List P3} (hnd : ps.Nodup) {done : List Op} {a : Op} {i : Nat}
    (hi : i < ps.length) (hfa : ps[i] = f a) :
    addToClass (classesOf f ps done) i a = classesOf f ps (done ++ [a]) := by
  apply List.ext_getElem
  · simp [addToClass, classesOf]
  · intro j h1 h2
    have hj : j < ps.length := by simpa [classesOf] using h2
    simp only [addToClass, classesOf, List.getElem_modify, List.getElem_map, List.filter_append]
    by_cases hij : i = j
    · subst hij
      simp [hfa]
    · have hne : f a ≠ ps[j] := by
        intro e
        have := (List.Nodup.getElem_inj_iff hnd).1 (hfa.trans e)
        exact hij this
      simp [hij, hne]

theorem classesOf_snoc_new {f : Op → P3} {ps : List P3} {done : List Op} {a : Op}
    (hmem : ∀ b ∈ done, f b ∈ ps) (hnew : f a ∉ ps) :
    classesOf f ps done ++ [[a]] = classesOf f (ps ++ [f a]) (done ++ [a]) := by
  have h1 : classesOf f ps (done ++ [a]) = classesOf f ps done := by
    simp only [classesOf, List.filter_append]
    apply List.map_congr_left
    intro p hp
    have : f a ≠ p := fun e => hnew (e ▸ hp)
    simp [this]
  have h2 : done.filter (fun g => decide (f g = f a)) = [] := by
    rw [List.filter_eq_nil_iff]
    intro b hb
    have : f b ≠ f a := fun e => hnew (e ▸ hmem b hb)
    simpa using this
  simp only [classesOf, List.map_append, List.map_cons, List.map_nil, List.filter_append] at h1 ⊢
  rw [h1, h2]
  simp

/-! ### the nearest-site index is a valid index -/

theorem nearestIdx_go_lt (D : Int) (p : P3) :
    ∀ (rest : List P3) (i best : Nat) (bd : Int), best < i → nearestIdx.go D p rest i best bd < i + rest.length
  | [], i, best, bd, h => by simpa [nearestIdx.go] using h
  | q :: qs, i, best, bd, h => by
    simp only [nearestIdx.go, List.length_cons]
    split
    · have := nearestIdx_go_lt D p qs (i + 1) i (boxDist D q p) (by omega)
      omega
    · have := nearestIdx_go_lt D p qs (i + 1) best bd (by omega)
      omega

theorem nearestIdx_lt (D : Int) (ps : List P3) (p : P3) (h : ps ≠ []) : nearestIdx D ps p < ps.length := by
  cases ps with
  | nil => exact absurd rfl h
  | cons q qs =>
    simp only [nearestIdx, List.length_cons]
    have := nearestIdx_go_lt D p qs 1 0 (boxDist D q p) (by omega)
    omega

/-! ### the loop invariant -/

structure Inv (k E : Int) (off x : P3) (done : List Op) (s : St) : Prop where
  pos : s.positions = dedupFirst (done.map (fun g => img g k off x))
  keys : s.keymap = keysOf E s.positions 0
  cls : s.classes = classesOf (fun g => img g k off x) s.positions done

theorem inv_init (k E : Int) (off x : P3) :
    Inv k E off x [] { positions := [], keymap := [], classes := [] } :=
  ⟨by simp [dedupFirst], by simp [keysOf], by simp [classesOf]⟩

theorem inv_step {k E : Int} (hk : 0 < k) (hE : 0 < E) {off x : P3} {done : List Op} {s : St} {a : Op}
    (hinv : Inv k E off x done s)
    (hsep : ∀ b ∈ done, img b k off x = img a k off x ∨ E < boxDist (24 * k) (img b k off x) (img a k off x)) :
    Inv k E off x (done ++ [a]) (stepOp k E off x s a) := by
  set f := fun g => img g k off x with hf
  obtain ⟨hpos, hkeys, hcls⟩ := hinv
  have hnd : s.positions.Nodup := hpos ▸ nodup_dedupFirst _
  have hmem : ∀ p, p ∈ s.positions ↔ ∃ b ∈ done, f b = p := by
    intro p; rw [hpos, mem_dedupFirst, List.mem_map]
  -- a listed position in the bucket of the new image is the new image
  have hsame : ∀ p ∈ s.positions, bucket E p = bucket E (f a) → p = f a := by
    intro p hp hb
    obtain ⟨b, hb', rfl⟩ := (hmem p).1 hp
    rcases hsep b hb' with e | far
    · exact e
    · have := boxDist_lt_of_bucket_eq hE (img_inCell b hk off x) (img_inCell a hk off x) hb
      omega
  have hmap : (done ++ [a]).map f = done.map f ++ [f a] := by simp
  by_cases hin : f a ∈ s.positions
  · -- the image is already listed
    obtain ⟨i, hi, hia⟩ := List.getElem_of_mem hin
    have hlook : lookupKey s.keymap (bucket E (f a)) = some i := by
      rw [hkeys]
      have := lookupKey_keysOf_some (E := E) (n := 0) hi (by rw [hia])
        (fun j hj hbj => by
          have e := hsame _ (List.getElem_mem (by omega)) hbj
          have := (List.Nodup.getElem_inj_iff hnd).1 (e.trans hia.symm)
          omega)
      simpa using this
    have hstep : stepOp k E off x s a = { s with classes := addToClass s.classes i a } := by
      simp only [stepOp]
      rw [show img a k off x = f a from rfl, hlook]
    rw [hstep]
    refine ⟨?_, hkeys, ?_⟩
    · show s.positions = _
      rw [hmap, dedupFirst_append, ← hpos]
      have : f a ∈ done.map f := by
        obtain ⟨b, hb, e⟩ := (hmem _).1 hin
        exact List.mem_map.2 ⟨b, hb, e⟩
      simp [this]
    · show addToClass s.classes i a = _
      rw [hcls]
      exact classesOf_snoc_mem hnd hi hia
  · -- a new image
    have hlook : lookupKey s.keymap (bucket E (f a)) = none := by
      rw [hkeys]
      exact lookupKey_keysOf_none (fun p hp hb => hin (hsame p hp hb ▸ hp))
    have hnotin : f a ∉ done.map f := by
      intro h
      obtain ⟨b, hb, e⟩ := List.mem_map.1 h
      exact hin ((hmem _).2 ⟨b, hb, e⟩)
    have hnewpos : dedupFirst ((done ++ [a]).map f) = s.positions ++ [f a] := by
      rw [hmap, dedupFirst_append, ← hpos]; simp [hnotin]
    by_cases hempty : s.positions = []
    · have hstep : stepOp k E off x s a =
          { positions := [f a], keymap := [(bucket E (f a), 0)], classes := [[a]] } := by
        simp only [stepOp]
        rw [show img a k off x = f a from rfl, hlook]
        simp [hempty]
      rw [hstep]
      have hdone : done = [] := by
        cases done with
        | nil => rfl
        | cons b bs =>
          have : f b ∈ s.positions := (hmem _).2 ⟨b, List.mem_cons_self, rfl⟩
          rw [hempty] at this; cases this
      refine ⟨?_, ?_, ?_⟩
      · show [f a] = _
        rw [hnewpos, hempty]; rfl
      · simp [keysOf]
      · subst hdone
        simp [classesOf, hf]
    · have hj := nearestIdx_lt (24 * k) s.positions (f a) hempty
      have hnear : s.positions.getD (nearestIdx (24 * k) s.positions (f a)) (f a) ∈ s.positions := by
        rw [List.getD_eq_getElem (l := s.positions) (d := f a) hj]; exact List.getElem_mem hj
      have hfar : ¬ boxDist (24 * k) (s.positions.getD (nearestIdx (24 * k) s.positions (f a)) (f a)) (f a) ≤ E := by
        obtain ⟨b, hb, e⟩ := (hmem _).1 hnear
        rcases hsep b hb with e' | far
        · have e'' : f b = f a := e'
          exact fun _ => hin ((e.symm.trans e'') ▸ hnear)
        · have far' : E < boxDist (24 * k) (f b) (f a) := far
          rw [← e]; omega
      have hstep : stepOp k E off x s a =
          { positions := s.positions ++ [f a], keymap := s.keymap ++ [(bucket E (f a), s.positions.length)],
            classes := s.classes ++ [[a]] } := by
        simp only [stepOp]
        rw [show img a k off x = f a from rfl, hlook]
        have he : s.positions.isEmpty = false := by
          cases hs : s.positions with
          | nil => exact absurd hs hempty
          | cons _ _ => rfl
        simp only [he, Bool.false_eq_true, if_false, hfar]
      rw [hstep]
      refine ⟨hnewpos.symm, ?_, ?_⟩
      · show s.keymap ++ _ = keysOf E (s.positions ++ [f a]) 0
        rw [keysOf_append, ← hkeys]; simp
      · show s.classes ++ [[a]] = _
        rw [hcls]
        exact classesOf_snoc_new (fun b hb => (hmem _).2 ⟨b, hb, rfl⟩) hin


theorem inv_foldl {k E : Int} (hk : 0 < k) (hE : 0 < E) {off x : P3} :
    ∀ (rest done : List Op) (s : St), Inv k E off x done s → Sep (done ++ rest) k E off x →
      Inv k E off x (done ++ rest) (rest.foldl (stepOp k E off x) s)
  | [], done, s, h, _ => by simpa using h
  | a :: rest, done, s, h, hsep => by
    have hstep := inv_step hk hE (a := a) h (fun b hb =>
      hsep b (List.mem_append_left _ hb) a (List.mem_append_right _ List.mem_cons_self))
    have := inv_foldl hk hE rest (done ++ [a]) _ hstep (by simpa using hsep)
    simpa using this

theorem expand_inv {k E : Int} (hk : 0 < k) (hE : 0 < E) {off x : P3} {ops : List Op}
    (hsep : Sep ops k E off x) : Inv k E off x ops (expand ops k E off x) := by
  have := inv_foldl hk hE ops [] _ (inv_init k E off x) (by simpa using hsep)
  simpa [expand] using this

/-- **`expandPosition` returns the exact orbit**: the positions are the distinct images in
first-occurrence order, the operation lists are the fibres of `g ↦ g·x`, the multiplicity is the
number of distinct images. -/
theorem result_exact {k E : Int} (hk : 0 < k) (hE : 0 < E) {off x : P3} {ops : List Op}
    (hsep : Sep ops k E off x) :
    result ops k E off x =
      (dedupFirst (ops.map (fun g => img g k off x)),
       (dedupFirst (ops.map (fun g => img g k off x))).map
          (fun p => ops.filter (fun g => decide (img g k off x = p))),
       (dedupFirst (ops.map (fun g => img g k off x))).length) := by
  obtain ⟨hpos, hkeys, hcls⟩ := expand_inv hk hE hsep
  set s := expand ops k E off x with hs
  set f := fun g => img g k off x with hf
  have hnd : s.positions.Nodup := hpos ▸ nodup_dedupFirst _
  have hmem : ∀ p, p ∈ s.positions → ∃ b ∈ ops, f b = p := by
    intro p hp; rw [hpos, mem_dedupFirst, List.mem_map] at hp; exact hp
  simp only [result, ← hs, ← hpos, Prod.mk.injEq, true_and, and_true]
  apply List.ext_getElem
  · simp
  · intro i h1 h2
    have hi : i < s.positions.length := by simpa using h1
    simp only [List.getElem_map]
    have hlook : lookupKey s.keymap (bucket E s.positions[i]) = some i := by
      rw [hkeys]
      have := lookupKey_keysOf_some (E := E) (n := 0) hi rfl
        (fun j hj hbj => by
          obtain ⟨b, hb, eb⟩ := hmem _ (List.getElem_mem (show j < s.positions.length by omega))
          obtain ⟨c, hc, ec⟩ := hmem _ (List.getElem_mem hi)
          have hpq : s.positions[j] = s.positions[i] := by
            rcases hsep b hb c hc with e | far
            · rw [← eb, ← ec]; exact e
            · have := boxDist_lt_of_bucket_eq hE (img_inCell b hk off x) (img_inCell c hk off x)
                (by rw [show img b k off x = s.positions[j] from eb, show img c k off x = s.positions[i] from ec]; exact hbj)
              omega
          have := (List.Nodup.getElem_inj_iff hnd).1 hpq
          omega)
      simpa using this
    rw [hlook]
    simp only [hcls, classesOf]
    rw [List.getD_eq_getElem (l := List.map (fun p => List.filter (fun g => decide (f g = p)) ops) s.positions)
      (d := ([] : List Op)) (by simpa using hi)]
    simp [hf]

end Orbit
end DS
