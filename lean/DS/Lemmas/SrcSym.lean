import DS.Model.SymReal
import DS.Lemmas.OrbitGap
import Mathlib.Algebra.Order.Floor.Ring
import Mathlib.Tactic.FieldSimp
import Mathlib.Tactic.Ring
import Mathlib.Tactic.Linarith
import Mathlib.Tactic.NormNum
import Mathlib.Tactic.NormNum.OfScientific

/-!
Lemmas for the source tie of `expandPosition` (`DS/Props/SrcSym.lean`); nothing here mentions the transliteration
`DS.Src.Sym`, so this file does not change when the source does.

* arithmetic of the grid `X ↦ X/D` (`D = 24k`) in a linearly ordered field with floor: floor, fold into the cell,
  periodic difference, box distance, `argmin`, `int(·/eps)`;
* the dictionary of list objects (`RefDict`): `d[k] = v` followed by `d[b]`;
* well-formedness of the loop state of `Orbit.expand` for ANY input (`WF`), the four ways through `Orbit.stepOp`;
* the simulation `Sim` between the loop state with list OBJECTS and the state of `Orbit.expand`, preserved by each way.
-/
namespace DS.SymTie
set_option linter.unusedSectionVars false
set_option linter.unusedVariables false
variable {α : Type} [Field α] [LinearOrder α] [IsStrictOrderedRing α] [FloorRing α]

instance (priority := 100) floorOrd : FloorOrd α := ⟨Int.floor⟩

theorem floor_div (X Y : Int) (hY : 0 < Y) : ⌊(X : α) / (Y : α)⌋ = X / Y := by
  have hY' : (0 : α) < (Y : α) := by exact_mod_cast hY
  rw [Int.floor_eq_iff]
  constructor
  · rw [le_div_iff₀ hY']
    exact_mod_cast Int.ediv_mul_le X (ne_of_gt hY)
  · rw [div_lt_iff₀ hY']
    exact_mod_cast Int.lt_ediv_add_one_mul_self X hY

/-- the grid point `X/D`, `D = 24 k` -/
def sc (k X : Int) : α := (X : α) / ((24 * k : Int) : α)

section
variable {k : Int} (hk : 0 < k)
include hk

theorem D_pos : (0 : α) < ((24 * k : Int) : α) := by
  have : (0 : Int) < 24 * k := by omega
  exact_mod_cast this

theorem sc_lt (X Y : Int) : (sc k X : α) < sc k Y ↔ X < Y := by
  unfold sc
  rw [div_lt_div_iff_of_pos_right (D_pos hk)]
  exact Int.cast_lt

theorem sc_le (X Y : Int) : (sc k X : α) ≤ sc k Y ↔ X ≤ Y := by
  unfold sc
  rw [div_le_div_iff_of_pos_right (D_pos hk)]
  exact Int.cast_le

theorem sc_inj (X Y : Int) : (sc k X : α) = sc k Y ↔ X = Y := by
  constructor
  · intro h
    exact le_antisymm ((sc_le (α := α) hk X Y).1 h.le) ((sc_le (α := α) hk Y X).1 h.ge)
  · rintro rfl; rfl

theorem sc_zero : (sc k 0 : α) = 0 := by simp [sc]
theorem sc_D : (sc k (24 * k) : α) = 1 := by
  unfold sc; exact div_self (ne_of_gt (D_pos hk))

omit hk in
theorem sc_add (X Y : Int) : (sc k X : α) + sc k Y = sc k (X + Y) := by
  unfold sc; push_cast; ring
omit hk in
theorem sc_sub (X Y : Int) : (sc k X : α) - sc k Y = sc k (X - Y) := by
  unfold sc; push_cast; ring
omit hk in
theorem sc_mul (r X : Int) : (r : α) * sc k X = sc k (r * X) := by
  unfold sc; push_cast; ring
theorem sc_t (t : Int) : (t : α) / 24 = sc k (k * t) := by
  unfold sc
  have hk' : (k : α) ≠ 0 := by exact_mod_cast (ne_of_gt hk)
  push_cast; field_simp

theorem floor_sc (X : Int) : ⌊(sc k X : α)⌋ = X / (24 * k) := floor_div X (24 * k) (by omega)

theorem sc_sub_floor (X : Int) : (sc k X : α) - ((⌊(sc k X : α)⌋ : Int) : α) = sc k (X % (24 * k)) := by
  rw [floor_sc hk, Int.emod_def]
  unfold sc
  have := ne_of_gt (D_pos (α := α) hk)
  push_cast at this ⊢
  field_simp

theorem sc_div_sc (P E : Int) : (sc k P : α) / sc k E = (P : α) / (E : α) := by
  unfold sc
  have := ne_of_gt (D_pos (α := α) hk)
  by_cases hE : (E : α) = 0
  · simp [hE]
  · field_simp
end

theorem pyInt_nonneg {y : α} (hy : 0 ≤ y) : Py.int y = ⌊y⌋ := by
  unfold Py.int
  rw [if_neg (not_lt.2 hy)]
  rfl

theorem pyInt_sc {k : Int} (hk : 0 < k) {P E : Int} (hP : 0 ≤ P) (hE : 0 < E) :
    Py.int ((sc k P : α) / sc k E) = P / E := by
  rw [sc_div_sc hk]
  have : (0 : α) ≤ (P : α) / (E : α) := by
    apply div_nonneg <;> exact_mod_cast (by omega)
  rw [pyInt_nonneg this, floor_div P E hE]


/-! ### scalar forms of the transliterated helpers -/

/-- one coordinate of the fold into the cell in the loop of `expandPosition`:
`mask = pos < 0.0 or pos >= 1.0; pos[mask] -= floor(pos[mask]); pos[pos >= 1.0] = 0.0` -/
def foldCell (p : α) : α :=
  let q := if (decide (p < (0.0 : α)) || decide (p ≥ (1.0 : α))) = true then p - Np.floorS p else p
  if decide (q ≥ (1.0 : α)) = true then (0.0 : α) else q

/-- one coordinate of `positionDifference` -/
def pdiffS (u v : α) : α :=
  let d := u - v
  let d := d - Np.floorS d
  if decide (d > (0.5 : α)) = true then (1.0 : α) - d else d

omit [IsStrictOrderedRing α] in
theorem floorS_eq (x : α) : Np.floorS x = ((⌊x⌋ : Int) : α) := rfl

section
variable {k : Int} (hk : 0 < k)
include hk

theorem sc_lt_one (X : Int) (h : X < 24 * k) : (sc k X : α) < 1 := by
  rw [← sc_D (α := α) hk]; exact (sc_lt hk _ _).2 h

/-- the line `pos[pos >= 1.0] = 0.0` never fires in exact arithmetic: the result is `X mod D` whichever way -/
theorem foldCell_sc (X : Int) : foldCell (sc k X : α) = sc k (X % (24 * k)) := by
  have hD : (0 : Int) < 24 * k := by omega
  have hm := Int.emod_lt_of_pos X hD
  have hm0 := Int.emod_nonneg X (ne_of_gt hD)
  have h1 : ¬ ((sc k (X % (24 * k)) : α) ≥ 1) := not_le.2 (sc_lt_one hk _ hm)
  unfold foldCell
  have e0 : (0.0 : α) = 0 := by norm_num
  have e1 : (1.0 : α) = 1 := by norm_num
  simp only [e0, e1, floorS_eq, Bool.or_eq_true, decide_eq_true_eq]
  by_cases hc : (sc k X : α) < 0 ∨ (sc k X : α) ≥ 1
  · rw [if_pos hc, sc_sub_floor hk, if_neg h1]
  · rw [if_neg hc]
    have hX : 0 ≤ X ∧ X < 24 * k := by
      rw [not_or, not_lt, ge_iff_le, not_le, ← sc_zero (α := α) hk, ← sc_D (α := α) hk, sc_le hk, sc_lt hk] at hc
      exact hc
    have : X % (24 * k) = X := Int.emod_eq_of_lt hX.1 hX.2
    rw [this] at h1 ⊢
    rw [if_neg h1]

theorem half_lt_sc (m : Int) : (0.5 : α) < sc k m ↔ 24 * k < 2 * m := by
  have e : (0.5 : α) = 1 / 2 := by norm_num
  have hD := D_pos (α := α) hk
  unfold sc
  rw [e, lt_div_iff₀ hD]
  constructor
  · intro h
    have : (((24 * k : Int) : α)) < ((2 * m : Int) : α) := by push_cast at h ⊢; linarith
    exact Int.cast_lt.1 this
  · intro h
    have : (((24 * k : Int) : α)) < ((2 * m : Int) : α) := Int.cast_lt.2 h
    push_cast at this ⊢; linarith

theorem pdiffS_sc (U V : Int) : pdiffS (sc k U : α) (sc k V) = sc k (Orbit.pdiff1 (24 * k) U V) := by
  unfold pdiffS Orbit.pdiff1
  have e1 : (1.0 : α) = 1 := by norm_num
  simp only [floorS_eq, sc_sub, sc_sub_floor hk, gt_iff_lt, half_lt_sc hk, decide_eq_true_eq, e1]
  by_cases h : 24 * k < 2 * ((U - V) % (24 * k))
  · rw [if_pos h, if_pos h, ← sc_D (α := α) hk, sc_sub]
  · rw [if_neg h, if_neg h]

theorem max2_sc (a b : Int) : Np.max2 (sc k a : α) (sc k b) = sc k (max a b) := by
  unfold Np.max2
  rw [Int.max_def]
  by_cases h : a ≤ b
  · rw [if_pos ((sc_le hk a b).2 h), if_pos h]
  · rw [if_neg (fun h' => h ((sc_le hk a b).1 h')), if_neg h]

/-- the box distance of two grid points, as the transliteration computes it (`max(max(d1, d2), d3)`) -/
theorem boxS_sc (q p : P3) :
    Np.max2 (Np.max2 (pdiffS (sc k q.1 : α) (sc k p.1)) (pdiffS (sc k q.2.1) (sc k p.2.1))) (pdiffS (sc k q.2.2) (sc k p.2.2))
      = sc k (Orbit.boxDist (24 * k) q p) := by
  rw [pdiffS_sc hk, pdiffS_sc hk, pdiffS_sc hk, max2_sc hk, max2_sc hk, Orbit.boxDist, max_assoc]

theorem argmin_go_sc (p : P3) :
    ∀ (rest : List P3) (i best : Nat) (bd : Int),
      Np.argmin.go (rest.map fun q => (sc k (Orbit.boxDist (24 * k) q p) : α)) i best (sc k bd) =
        Orbit.nearestIdx.go (24 * k) p rest i best bd
  | [], i, best, bd => by simp [Np.argmin.go, Orbit.nearestIdx.go]
  | q :: qs, i, best, bd => by
    simp only [List.map_cons, Np.argmin.go, Orbit.nearestIdx.go, sc_lt hk]
    split
    · exact argmin_go_sc p qs (i + 1) i _
    · exact argmin_go_sc p qs (i + 1) best bd

theorem argmin_sc (p : P3) (ps : List P3) (h : ps ≠ []) :
    Np.argmin (ps.map fun q => (sc k (Orbit.boxDist (24 * k) q p) : α)) = some (Orbit.nearestIdx (24 * k) ps p) := by
  cases ps with
  | nil => exact absurd rfl h
  | cons q qs =>
    simp only [List.map_cons, Np.argmin, Orbit.nearestIdx]
    rw [argmin_go_sc hk]
end

/-! ### the dictionary of list objects -/
section dict
variable {κ : Type} [BEq κ] [LawfulBEq κ]

theorem lookup_append (m : List (κ × Nat)) (t : κ) (i : Nat) (b : κ) :
    RefDict.lookup (m ++ [(t, i)]) b =
      match RefDict.lookup m b with
      | some j => some j
      | none => if b == t then some i else none := by
  simp only [RefDict.lookup, List.find?_append]
  cases h : m.find? (fun e => e.1 == b) with
  | some e => simp
  | none =>
    by_cases e : b = t
    · simp [e]
    · have : ¬ t = b := fun h => e h.symm
      simp [e, this]

theorem lookup_cons (a : κ) (i : Nat) (m : List (κ × Nat)) (b : κ) :
    RefDict.lookup ((a, i) :: m) b = if a == b then some i else RefDict.lookup m b := by
  simp only [RefDict.lookup, List.find?_cons]
  cases a == b <;> rfl

theorem lookup_map_set (k : κ) (v : Nat) (b : κ) : ∀ m : List (κ × Nat),
    RefDict.lookup (m.map fun e => if e.1 == k then (e.1, v) else e) b =
      if b == k then (RefDict.lookup m k).map (fun _ => v) else RefDict.lookup m b
  | [] => by simp [RefDict.lookup]
  | (a, i) :: m => by
    have ih := lookup_map_set k v b m
    rw [List.map_cons]
    by_cases hk : a = k
    · subst hk
      simp only [beq_self_eq_true, if_true, lookup_cons, Option.map_some]
      by_cases hb : b = a
      · subst hb; simp
      · have : ¬ a = b := fun h => hb h.symm
        simp only [beq_iff_eq, this, hb, if_false] at ih ⊢
        exact ih
    · simp only [beq_iff_eq, hk, if_false, lookup_cons]
      by_cases hb : b = k
      · subst hb
        simp only [beq_self_eq_true, if_true, beq_iff_eq, hk, if_false] at ih ⊢
        exact ih
      · simp only [beq_iff_eq, hb, if_false] at ih ⊢
        rw [ih]

/-- `d[k] = v` then `d[b]` -/
theorem lookup_assocSet (m : List (κ × Nat)) (k : κ) (v : Nat) (b : κ) :
    RefDict.lookup (RefDict.assocSet m k v) b = if b == k then some v else RefDict.lookup m b := by
  unfold RefDict.assocSet
  cases h : RefDict.lookup m k with
  | none =>
    simp only [lookup_append]
    by_cases hb : b = k
    · subst hb; simp [h]
    · simp only [beq_iff_eq, hb, if_false]
      cases RefDict.lookup m b <;> rfl
  | some j =>
    simp only [lookup_map_set, h, Option.map_some]

end dict

theorem lookup_eq_lookupKey (m : List (P3 × Nat)) (b : P3) : RefDict.lookup m b = Orbit.lookupKey m b := rfl

/-! ### well-formedness of the loop state of `Orbit.expand` (any input, no separation hypothesis) -/

open Orbit in
structure WF (D E : Int) (o : Orbit.St) : Prop where
  len : o.positions.length = o.classes.length
  keys_lt : ∀ b i, lookupKey o.keymap b = some i → i < o.classes.length
  reg : ∀ p ∈ o.positions, ∃ i, lookupKey o.keymap (bucket E p) = some i
  incell : ∀ p ∈ o.positions, InCell D p
  nil : o.positions = [] → o.keymap = []

theorem wf_init (D E : Int) : WF D E { positions := [], keymap := [], classes := [] } :=
  ⟨rfl, (by intro b i h; simp [Orbit.lookupKey] at h), (by intro p hp; cases hp), (by intro p hp; cases hp), fun _ => rfl⟩

open Orbit in
theorem wf_step {k E : Int} (hk : 0 < k) (off x : P3) {o : Orbit.St} (a : Op) (h : WF (24 * k) E o) :
    WF (24 * k) E (stepOp k E off x o a) := by
  obtain ⟨hlen, hlt, hreg, hin, hnil⟩ := h
  unfold stepOp
  simp only
  cases htpl : lookupKey o.keymap (bucket E (img a k off x)) with
  | some i =>
    simp only [addToClass]
    exact ⟨by simpa using hlen, by simpa using hlt, hreg, hin, hnil⟩
  | none =>
    simp only
    by_cases hemp : o.positions.isEmpty = true
    · rw [if_pos hemp]
      refine ⟨rfl, ?_, ?_, ?_, ?_⟩
      · intro b i hb
        rw [← List.nil_append [(_, 0)], lookupKey_append] at hb
        simp only [lookupKey_nil] at hb
        split at hb
        · cases hb; simp
        · cases hb
      · intro p hp
        rw [List.mem_singleton] at hp
        subst hp
        refine ⟨0, ?_⟩
        rw [← List.nil_append [(_, 0)], lookupKey_append]
        simp [lookupKey_nil]
      · intro p hp
        rw [List.mem_singleton] at hp
        subst hp
        exact img_inCell a hk off x
      · intro h; cases h
    · rw [if_neg hemp]
      have hne : o.positions ≠ [] := by
        intro e; apply hemp; rw [e]; rfl
      split
      · -- near
        split
        · rename_i i hi
          simp only [addToClass]
          refine ⟨by simpa using hlen, ?_, ?_, hin, fun e => absurd e hne⟩
          · intro b j hb
            rw [lookupKey_append] at hb
            rw [List.length_modify]
            cases hb' : lookupKey o.keymap b with
            | some j' => rw [hb'] at hb; cases hb; exact hlt b _ hb'
            | none =>
              rw [hb'] at hb
              simp only at hb
              split at hb
              · cases hb; exact hlt _ _ hi
              · cases hb
          · intro p hp
            obtain ⟨j, hj⟩ := hreg p hp
            exact ⟨j, by rw [lookupKey_append, hj]⟩
        · exact ⟨hlen, hlt, hreg, hin, hnil⟩
      · -- new position
        refine ⟨by simp [hlen], ?_, ?_, ?_, ?_⟩
        · intro b j hb
          rw [lookupKey_append] at hb
          rw [List.length_append, List.length_singleton]
          cases hb' : lookupKey o.keymap b with
          | some j' => rw [hb'] at hb; cases hb; exact Nat.lt_succ_of_lt (hlt b _ hb')
          | none =>
            rw [hb'] at hb
            simp only at hb
            split at hb
            · cases hb; omega
            · cases hb
        · intro p hp
          rw [List.mem_append, List.mem_singleton] at hp
          rcases hp with hp | rfl
          · obtain ⟨j, hj⟩ := hreg p hp
            exact ⟨j, by rw [lookupKey_append, hj]⟩
          · exact ⟨o.positions.length, by rw [lookupKey_append, htpl]; simp⟩
        · intro p hp
          rw [List.mem_append, List.mem_singleton] at hp
          rcases hp with hp | rfl
          · exact hin p hp
          · exact img_inCell a hk off x
        · intro e; simp at e

theorem wf_foldl {k E : Int} (hk : 0 < k) (off x : P3) : ∀ (ops : List Op) (o : Orbit.St), WF (24 * k) E o →
    WF (24 * k) E (ops.foldl (Orbit.stepOp k E off x) o)
  | [], _, h => h
  | a :: ops, o, h => wf_foldl hk off x ops _ (wf_step hk off x a h)

/-! ### the four ways through `Orbit.stepOp` -/
section stepOp
open Orbit
variable (k E : Int) (off x : P3) (o : Orbit.St) (a : Op)

theorem stepOp_known {i : Nat} (h : lookupKey o.keymap (bucket E (img a k off x)) = some i) :
    stepOp k E off x o a = { o with classes := o.classes.modify i (fun l => l ++ [a]) } := by
  simp [stepOp, h, addToClass]

theorem stepOp_first (h : lookupKey o.keymap (bucket E (img a k off x)) = none) (hp : o.positions = []) :
    stepOp k E off x o a =
      { positions := [img a k off x], keymap := [(bucket E (img a k off x), 0)], classes := [[a]] } := by
  simp [stepOp, h, hp]

theorem stepOp_alias {i : Nat} (h : lookupKey o.keymap (bucket E (img a k off x)) = none) (hp : o.positions ≠ [])
    (hd : boxDist (24 * k) (o.positions.getD (nearestIdx (24 * k) o.positions (img a k off x)) (img a k off x)) (img a k off x) ≤ E)
    (hi : lookupKey o.keymap (bucket E (o.positions.getD (nearestIdx (24 * k) o.positions (img a k off x)) (img a k off x))) = some i) :
    stepOp k E off x o a =
      { o with keymap := o.keymap ++ [(bucket E (img a k off x), i)], classes := o.classes.modify i (fun l => l ++ [a]) } := by
  have hp' : o.positions.isEmpty = false := by
    cases hh : o.positions with
    | nil => exact absurd hh hp
    | cons _ _ => rfl
  simp only [stepOp, h, hp', Bool.false_eq_true, if_false, if_pos hd, hi, addToClass]

theorem stepOp_new (h : lookupKey o.keymap (bucket E (img a k off x)) = none) (hp : o.positions ≠ [])
    (hd : ¬ boxDist (24 * k) (o.positions.getD (nearestIdx (24 * k) o.positions (img a k off x)) (img a k off x)) (img a k off x) ≤ E) :
    stepOp k E off x o a =
      { positions := o.positions ++ [img a k off x], keymap := o.keymap ++ [(bucket E (img a k off x), o.positions.length)],
        classes := o.classes ++ [[a]] } := by
  have hp' : o.positions.isEmpty = false := by
    cases hh : o.positions with
    | nil => exact absurd hh hp
    | cons _ _ => rfl
  simp only [stepOp, h, hp', Bool.false_eq_true, if_false, if_neg hd]

end stepOp

/-! ### the grid embedding -/

/-- the position with integer coordinates `p` (units `1/D`) as a fractional position -/
def castP (k : Int) (p : P3) : V3 α := (sc k p.1, sc k p.2.1, sc k p.2.2)

/-- a tabulated operation as a `SymOp`: integer rotation entries, translation `t/24` -/
def toSym (a : Op) : SymOp α :=
  ⟨(((a.r11 : α), (a.r12 : α), (a.r13 : α)), ((a.r21 : α), (a.r22 : α), (a.r23 : α)), ((a.r31 : α), (a.r32 : α), (a.r33 : α))),
   ((a.t1 : α) / 24, (a.t2 : α) / 24, (a.t3 : α) / 24)⟩

theorem castP_inj {k : Int} (hk : 0 < k) (p q : P3) : (castP k p : V3 α) = castP k q ↔ p = q := by
  obtain ⟨p1, p2, p3⟩ := p
  obtain ⟨q1, q2, q3⟩ := q
  simp only [castP, Prod.mk.injEq, sc_inj hk]

/-- what `expandPosition` returns, on the grid -/
def castResult (k : Int) (r : List P3 × List (List Op) × Nat) : List (V3 α) × List (List (SymOp α)) × Nat :=
  (r.1.map (castP k), r.2.1.map (List.map toSym), r.2.2)

/-! ### simulation between the loop states -/

/-- simulation between the transliterated loop state and the state of `Orbit.expand`: same positions; the same
keys, bound to corresponding list objects (`ρ` renames class indices to object identities, injectively — two keys
share a list object exactly when they share a class); corresponding contents.  Unreferenced list objects (the
`[]` left behind when a key is re-bound) are not constrained. -/
structure Sim (k : Int) (s : LoopSt α) (o : Orbit.St) (ρ : Nat → Nat) : Prop where
  pos : s.positions = o.positions.map (castP k)
  keys : ∀ b, RefDict.lookup s.site_symops.keys b = (Orbit.lookupKey o.keymap b).map ρ
  objs : ∀ i, i < o.classes.length → s.site_symops.objs[ρ i]? = (o.classes[i]?).map (List.map toSym)
  inj : ∀ i j, i < o.classes.length → j < o.classes.length → ρ i = ρ j → i = j

theorem sim_init (k : Int) : Sim (α := α) k ⟨[], RefDict.empty⟩ { positions := [], keymap := [], classes := [] } id :=
  ⟨rfl, fun b => rfl, (by intro i hi; cases hi), (by intro i j hi; cases hi)⟩

theorem Sim.objs_lt {k : Int} {s : LoopSt α} {o : Orbit.St} {ρ : Nat → Nat} (h : Sim k s o ρ) {i : Nat}
    (hi : i < o.classes.length) : ρ i < s.site_symops.objs.length := by
  have := h.objs i hi
  rw [List.getElem?_eq_getElem hi, Option.map_some] at this
  by_contra hc
  rw [List.getElem?_eq_none (by omega)] at this
  cases this

section
variable {k : Int} {s : LoopSt α} {o : Orbit.St} {ρ : Nat → Nat}

/-- `site_symops[tpl].append(symop)` on a known key -/
theorem sim_known (hs : Sim k s o ρ) {i : Nat} (hi : i < o.classes.length) (a : Op) :
    Sim k ⟨s.positions, { s.site_symops with objs := s.site_symops.objs.modify (ρ i) (fun l => l ++ [toSym a]) }⟩
      { o with classes := o.classes.modify i (fun l => l ++ [a]) } ρ := by
  obtain ⟨hpos, hkeys, hobjs, hinj⟩ := hs
  refine ⟨hpos, hkeys, ?_, ?_⟩
  · intro j hj
    simp only [List.length_modify] at hj
    simp only [List.getElem?_modify]
    by_cases hij : i = j
    · subst hij
      rw [hobjs i hi, List.getElem?_eq_getElem hi]
      simp
    · have : ρ i ≠ ρ j := fun h => hij (hinj i j hi hj h)
      simp only [this, hij, if_false]
      simpa using hobjs j hj
  · intro i' j' hi' hj'
    simp only [List.length_modify] at hi' hj'
    exact hinj i' j' hi' hj'

/-- a new list object under a new key, a new position -/
theorem sim_new (hs : Sim k s o ρ) (hlen : o.positions.length = o.classes.length)
    (hlt : ∀ b i, Orbit.lookupKey o.keymap b = some i → i < o.classes.length)
    {tpl : P3} (hl : Orbit.lookupKey o.keymap tpl = none) (pos : P3) (a : Op) :
    Sim k ⟨s.positions ++ [castP k pos], ⟨RefDict.assocSet s.site_symops.keys tpl s.site_symops.objs.length,
        (s.site_symops.objs ++ [[]]).modify s.site_symops.objs.length (fun l => l ++ [toSym a])⟩⟩
      { positions := o.positions ++ [pos], keymap := o.keymap ++ [(tpl, o.positions.length)], classes := o.classes ++ [[a]] }
      (fun j => if j = o.classes.length then s.site_symops.objs.length else ρ j) := by
  have hsim := hs
  obtain ⟨hpos, hkeys, hobjs, hinj⟩ := hs
  refine ⟨by simp [hpos], ?_, ?_, ?_⟩
  · intro b
    simp only [lookup_assocSet, Orbit.lookupKey_append, beq_iff_eq]
    by_cases hb : b = tpl
    · subst hb
      simp [hl, hlen]
    · have hb' : ¬ tpl = b := fun h => hb h.symm
      rw [if_neg hb, hkeys]
      cases hlb : Orbit.lookupKey o.keymap b with
      | none => simp [hb']
      | some j =>
        have := hlt b j hlb
        simp only [Option.map_some]
        rw [if_neg (by omega)]
  · intro j hj
    simp only [List.length_append, List.length_singleton] at hj
    simp only
    by_cases hjL : j = o.classes.length
    · subst hjL
      simp
    · have hj' : j < o.classes.length := by omega
      have := hsim.objs_lt hj'
      have hne : ¬ s.site_symops.objs.length = ρ j := by omega
      rw [if_neg hjL, List.getElem?_modify, List.getElem?_append_left this,
        List.getElem?_append_left hj', hobjs j hj']
      simp only [hne, if_false]
      simp
  · intro i j hi hj
    simp only [List.length_append, List.length_singleton] at hi hj
    by_cases hiL : i = o.classes.length <;> by_cases hjL : j = o.classes.length
    · intro _; omega
    · have := hsim.objs_lt (i := j) (by omega)
      rw [if_pos hiL, if_neg hjL]; intro h; omega
    · have := hsim.objs_lt (i := i) (by omega)
      rw [if_neg hiL, if_pos hjL]; intro h; omega
    · rw [if_neg hiL, if_neg hjL]
      exact hinj i j (by omega) (by omega)

/-- a new key bound to the list object of an existing class; the fresh `[]` stays unreferenced -/
theorem sim_alias (hs : Sim k s o ρ) {tpl : P3} (hl : Orbit.lookupKey o.keymap tpl = none) {i : Nat}
    (hi : i < o.classes.length) (a : Op) :
    Sim k ⟨s.positions, ⟨RefDict.assocSet (RefDict.assocSet s.site_symops.keys tpl s.site_symops.objs.length) tpl (ρ i),
        (s.site_symops.objs ++ [[]]).modify (ρ i) (fun l => l ++ [toSym a])⟩⟩
      { o with keymap := o.keymap ++ [(tpl, i)], classes := o.classes.modify i (fun l => l ++ [a]) } ρ := by
  have hsim := hs
  obtain ⟨hpos, hkeys, hobjs, hinj⟩ := hs
  refine ⟨hpos, ?_, ?_, ?_⟩
  · intro b
    simp only [lookup_assocSet, Orbit.lookupKey_append, beq_iff_eq]
    by_cases hb : b = tpl
    · subst hb
      simp [hl]
    · have hb' : ¬ tpl = b := fun h => hb h.symm
      rw [if_neg hb, if_neg hb, hkeys]
      cases hlb : Orbit.lookupKey o.keymap b with
      | none => simp [hb']
      | some j => simp
  · intro j hj
    simp only [List.length_modify] at hj
    have hρj := hsim.objs_lt hj
    simp only [List.getElem?_modify, List.getElem?_append_left hρj]
    by_cases hij : i = j
    · subst hij
      rw [hobjs i hi, List.getElem?_eq_getElem hi]
      simp
    · have : ρ i ≠ ρ j := fun h => hij (hinj i j hi hj h)
      simp only [this, hij, if_false]
      simpa using hobjs j hj
  · intro i' j' hi' hj'
    simp only [List.length_modify] at hi' hj'
    exact hinj i' j' hi' hj'

end

end DS.SymTie
