import DS.Model.SymSpec
import Mathlib.Tactic.Ring
import Mathlib.Tactic.LinearCombination
import Mathlib.Data.List.GetD
import Mathlib.Data.List.Nodup

/-!
Soundness of the certificate checker: `checkGroup ops c = true → IsGroup ops`.
-/
namespace DS
open Op

theorem emod24_of_eq (X Y k : Int) (h : X = Y + 24 * k) : X % 24 = Y % 24 := by
  subst h; exact Int.add_mul_emod_self_left Y 24 k

theorem lemT (p q r u1 u2 u3 w : Int) :
    (p * (u1 % 24) + q * (u2 % 24) + r * (u3 % 24) + w) % 24 = (p * u1 + q * u2 + r * u3 + w) % 24 := by
  apply emod24_of_eq _ _ (-(p * (u1 / 24) + q * (u2 / 24) + r * (u3 / 24)))
  rw [Int.emod_def u1, Int.emod_def u2, Int.emod_def u3]; ring

theorem lemR (X W : Int) : (X + W % 24) % 24 = (X + W) % 24 := by
  apply emod24_of_eq _ _ (-(W / 24))
  rw [Int.emod_def W]; ring

theorem Op.ext' {a b : Op}
    (h1 : a.r11 = b.r11) (h2 : a.r12 = b.r12) (h3 : a.r13 = b.r13)
    (h4 : a.r21 = b.r21) (h5 : a.r22 = b.r22) (h6 : a.r23 = b.r23)
    (h7 : a.r31 = b.r31) (h8 : a.r32 = b.r32) (h9 : a.r33 = b.r33)
    (h10 : a.t1 = b.t1) (h11 : a.t2 = b.t2) (h12 : a.t3 = b.t3) : a = b := by
  cases a; cases b; simp_all

theorem comp_assoc (a b c : Op) : a.comp (b.comp c) = (a.comp b).comp c := by
  apply Op.ext' <;> simp only [Op.comp]
  all_goals first
    | ring1
    | (rw [lemT, lemR]; congr 1; ring1)

/-! ### small facts about `Op.one` and ranges -/

theorem inRange_t {a : Op} (h : a.inRange = true) :
    (0 ≤ a.t1 ∧ a.t1 < 24) ∧ (0 ≤ a.t2 ∧ a.t2 < 24) ∧ (0 ≤ a.t3 ∧ a.t3 < 24) := by
  simp only [Op.inRange, Bool.and_eq_true, decide_eq_true_eq] at h
  omega

theorem comp_one {a : Op} (h : a.inRange = true) : a.comp Op.one = a := by
  obtain ⟨⟨h1, h1'⟩, ⟨h2, h2'⟩, ⟨h3, h3'⟩⟩ := inRange_t h
  apply Op.ext' <;> simp only [Op.comp, Op.one] <;> try ring1
  · have : (a.r11 * 0 + a.r12 * 0 + a.r13 * 0 + a.t1) = a.t1 := by ring
    rw [this]; exact Int.emod_eq_of_lt h1 h1'
  · have : (a.r21 * 0 + a.r22 * 0 + a.r23 * 0 + a.t2) = a.t2 := by ring
    rw [this]; exact Int.emod_eq_of_lt h2 h2'
  · have : (a.r31 * 0 + a.r32 * 0 + a.r33 * 0 + a.t3) = a.t3 := by ring
    rw [this]; exact Int.emod_eq_of_lt h3 h3'

theorem one_comp {a : Op} (h : a.inRange = true) : Op.one.comp a = a := by
  obtain ⟨⟨h1, h1'⟩, ⟨h2, h2'⟩, ⟨h3, h3'⟩⟩ := inRange_t h
  apply Op.ext' <;> simp only [Op.comp, Op.one] <;> try ring1
  · have : (1 * a.t1 + 0 * a.t2 + 0 * a.t3 + 0) = a.t1 := by ring
    rw [this]; exact Int.emod_eq_of_lt h1 h1'
  · have : (0 * a.t1 + 1 * a.t2 + 0 * a.t3 + 0) = a.t2 := by ring
    rw [this]; exact Int.emod_eq_of_lt h2 h2'
  · have : (0 * a.t1 + 0 * a.t2 + 1 * a.t3 + 0) = a.t3 := by ring
    rw [this]; exact Int.emod_eq_of_lt h3 h3'

/-! ### `nodupNat` -/

theorem nodupNat_iff (l : List Nat) : nodupNat l = true ↔ l.Nodup := by
  induction l with
  | nil => simp [nodupNat]
  | cons x xs ih =>
    simp only [nodupNat, Bool.and_eq_true, Bool.not_eq_true', List.nodup_cons, ih]
    constructor
    · rintro ⟨h1, h2⟩; exact ⟨by simpa [List.elem_eq_mem] using h1, h2⟩
    · rintro ⟨h1, h2⟩; exact ⟨by simpa [List.elem_eq_mem] using h1, h2⟩

/-! ### `getOp` -/

theorem getOp_mem {ops : List Op} {i : Nat} (h : i < ops.length) : getOp ops i ∈ ops := by
  unfold getOp
  rw [List.getD_eq_getElem (l := ops) (d := Op.one) h]
  exact List.getElem_mem h

/-! ### (A) Cayley rows -/

theorem checkCayRow_spec {ops : List Op} {s : Op} :
    ∀ (gs : List Op) (is : List Nat), checkCayRow ops s gs is = true → ∀ g ∈ gs, s.comp g ∈ ops
  | [], _, _ => by intro g hg; cases hg
  | g :: gs, [], h => by simp [checkCayRow] at h
  | g :: gs, i :: is, h => by
    simp only [checkCayRow, Bool.and_eq_true, decide_eq_true_eq] at h
    obtain ⟨⟨hi, he⟩, hr⟩ := h
    intro g' hg'
    rcases List.mem_cons.1 hg' with rfl | hg'
    · rw [← he]; exact getOp_mem hi
    · exact checkCayRow_spec gs is hr g' hg'

theorem checkCay_spec {ops gens : List Op} :
    ∀ (ss : List Op) (rows : List (List Nat)), checkCay ops gens ss rows = true →
      ∀ s ∈ ss, ∀ g ∈ gens, s.comp g ∈ ops
  | [], _, _ => by intro s hs; cases hs
  | s :: ss, [], h => by simp [checkCay] at h
  | s :: ss, row :: rows, h => by
    simp only [checkCay, Bool.and_eq_true] at h
    intro s' hs'
    rcases List.mem_cons.1 hs' with rfl | hs'
    · exact checkCayRow_spec gens row h.1
    · exact checkCay_spec ss rows h.2 s' hs'

/-! ### (B) generation -/

/-- words in the generators, multiplied on the right starting from the identity -/
inductive Generated (gens : List Op) : Op → Prop
  | one : Generated gens Op.one
  | step {p g : Op} : Generated gens p → g ∈ gens → Generated gens (p.comp g)

/-- what `checkParAux` establishes for position `i` -/
def ParOK (ops gens : List Op) (rank : List Nat) (i : Nat) (s : Op) : Prop :=
  s = Op.one ∨ ∃ p j, p < ops.length ∧ j < gens.length ∧
    s = (getOp ops p).comp (gens.getD j Op.one) ∧ rank.getD p 0 < rank.getD i 0

theorem checkParAux_spec {ops gens : List Op} {rank : List Nat} :
    ∀ (k : Nat) (ss : List Op) (ps : List (Nat × Nat)), checkParAux ops gens rank k ss ps = true →
      ∀ m (hm : m < ss.length), ParOK ops gens rank (k + m) ss[m]
  | _, [], _, _ => by intro m hm; cases hm
  | _, _ :: _, [], h => by simp [checkParAux] at h
  | k, s :: ss, (p, j) :: ps, h => by
    simp only [checkParAux, Bool.and_eq_true, Bool.or_eq_true, decide_eq_true_eq] at h
    obtain ⟨h1, h2⟩ := h
    intro m hm
    cases m with
    | zero =>
      simp only [List.getElem_cons_zero, Nat.add_zero]
      rcases h1 with h1 | ⟨⟨⟨hp, hj⟩, he⟩, hr⟩
      · exact Or.inl h1
      · exact Or.inr ⟨p, j, hp, hj, he, hr⟩
    | succ m =>
      have := checkParAux_spec (k + 1) ss ps h2 m (by simpa using hm)
      simpa [Nat.add_assoc, Nat.add_comm 1 m] using this

theorem generated_of_par {ops gens : List Op} {rank : List Nat}
    (h : ∀ m (hm : m < ops.length), ParOK ops gens rank m ops[m]) :
    ∀ r m (hm : m < ops.length), rank.getD m 0 = r → Generated gens ops[m] := by
  intro r
  induction r using Nat.strong_induction_on with
  | _ r ih =>
    intro m hm hr
    rcases h m hm with h1 | ⟨p, j, hp, hj, he, hlt⟩
    · rw [h1]; exact Generated.one
    · rw [he]
      have hg : gens.getD j Op.one ∈ gens := by
        rw [List.getD_eq_getElem (l := gens) (d := Op.one) hj]; exact List.getElem_mem hj
      have hp' : getOp ops p = ops[p] := by unfold getOp; rw [List.getD_eq_getElem (l := ops) (d := Op.one) hp]
      rw [hp']
      exact Generated.step (ih _ (hr ▸ hlt) p hp rfl) hg

/-! ### (C) inverses -/

theorem checkInv_spec {ops : List Op} :
    ∀ (ss : List Op) (is : List Nat), checkInv ops ss is = true →
      ∀ s ∈ ss, ∃ b ∈ ops, s.comp b = Op.one
  | [], _, _ => by intro s hs; cases hs
  | s :: ss, [], h => by simp [checkInv] at h
  | s :: ss, i :: is, h => by
    simp only [checkInv, Bool.and_eq_true, decide_eq_true_eq] at h
    obtain ⟨⟨hi, he⟩, hr⟩ := h
    intro s' hs'
    rcases List.mem_cons.1 hs' with rfl | hs'
    · exact ⟨getOp ops i, getOp_mem hi, he⟩
    · exact checkInv_spec ss is hr s' hs'

/-! ### soundness -/

theorem closed_of_generated {ops gens : List Op}
    (hr : ∀ a ∈ ops, a.inRange = true)
    (hc : ∀ s ∈ ops, ∀ g ∈ gens, s.comp g ∈ ops) :
    ∀ o, Generated gens o → ∀ a ∈ ops, a.comp o ∈ ops := by
  intro o ho
  induction ho with
  | one => intro a ha; rw [comp_one (hr a ha)]; exact ha
  | step _ hg ih => intro a ha; rw [comp_assoc]; exact hc _ (ih a ha) _ hg

theorem checkGroup_sound {ops : List Op} {c : Cert} (h : checkGroup ops c = true) : IsGroup ops := by
  simp only [checkGroup, Bool.and_eq_true, decide_eq_true_eq, List.all_eq_true, Bool.or_eq_true] at h
  obtain ⟨⟨⟨⟨⟨⟨h1, hrange⟩, hnd⟩, hdet⟩, hcay⟩, hpar⟩, hinv⟩ := h
  have hc := checkCay_spec ops c.cay hcay
  have hgen : ∀ a ∈ ops, Generated c.gens a := by
    intro a ha
    obtain ⟨m, hm, rfl⟩ := List.getElem_of_mem ha
    have hp := checkParAux_spec 0 ops c.par hpar
    simp only [Nat.zero_add] at hp
    exact generated_of_par hp _ m hm rfl
  have hclosed : ∀ a ∈ ops, ∀ b ∈ ops, a.comp b ∈ ops :=
    fun a ha b hb => closed_of_generated hrange hc b (hgen b hb) a ha
  have hone : Op.one ∈ ops := by
    cases ops with
    | nil => simp at h1
    | cons x xs => simp only [List.head?_cons, Option.some.injEq] at h1; rw [h1]; exact List.mem_cons_self
  have hinv' := checkInv_spec ops c.inv hinv
  refine ⟨h1, ?_, hclosed, ?_, hdet, hrange⟩
  · exact List.Nodup.of_map _ ((nodupNat_iff _).1 hnd)
  · intro a ha
    obtain ⟨b, hb, hab⟩ := hinv' a ha
    refine ⟨b, hb, hab, ?_⟩
    -- a right inverse in a monoid where every element has a right inverse is two-sided
    obtain ⟨c', hc', hbc⟩ := hinv' b hb
    have hb1 : b.comp Op.one = b := comp_one (hrange b hb)
    have hc1 : Op.one.comp c' = c' := one_comp (hrange c' hc')
    have ha1 : a.comp Op.one = a := comp_one (hrange a ha)
    -- a = a (b c') = (a b) c' = c'
    have hac : a = c' := by
      calc a = a.comp Op.one := ha1.symm
        _ = a.comp (b.comp c') := by rw [hbc]
        _ = (a.comp b).comp c' := comp_assoc _ _ _
        _ = Op.one.comp c' := by rw [hab]
        _ = c' := hc1
    rw [hac]; exact hbc

end DS
