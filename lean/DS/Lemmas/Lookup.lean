import DS.Model.Lookup
import DS.Lemmas.Group
import Mathlib.Data.List.Perm.Basic
import Mathlib.Data.List.Nodup
import Std.Data.String.ToNat

/-!
Lemmas for C11 (space-group lookup by identifier and by operation list).
-/
namespace DS
namespace Lookup

/-! ### sorting and fingerprints -/

theorem insertSorted_perm (x : Nat) : ∀ l : List Nat, (insertSorted x l).Perm (x :: l)
  | [] => List.Perm.refl _
  | y :: ys => by
    unfold insertSorted
    split
    · exact List.Perm.refl _
    · exact ((insertSorted_perm x ys).cons y).trans (List.Perm.swap x y ys)

theorem sortNat_perm : ∀ l : List Nat, (sortNat l).Perm l
  | [] => List.Perm.refl _
  | x :: xs => (insertSorted_perm x (sortNat xs)).trans ((sortNat_perm xs).cons x)

theorem insertSorted_sorted (x : Nat) :
    ∀ l : List Nat, l.Pairwise (· ≤ ·) → (insertSorted x l).Pairwise (· ≤ ·)
  | [], _ => by simp [insertSorted]
  | y :: ys, h => by
    unfold insertSorted
    split
    · rename_i hxy
      refine List.Pairwise.cons ?_ h
      intro z hz
      rcases List.mem_cons.1 hz with rfl | hz
      · exact hxy
      · exact Nat.le_trans hxy ((List.pairwise_cons.1 h).1 z hz)
    · rename_i hxy
      have hyx : y ≤ x := Nat.le_of_lt (Nat.lt_of_not_le hxy)
      refine List.Pairwise.cons ?_ (insertSorted_sorted x ys (List.pairwise_cons.1 h).2)
      intro z hz
      have hz' := (insertSorted_perm x ys).subset hz
      rcases List.mem_cons.1 hz' with rfl | hz'
      · exact hyx
      · exact (List.pairwise_cons.1 h).1 z hz'

theorem sortNat_sorted : ∀ l : List Nat, (sortNat l).Pairwise (· ≤ ·)
  | [] => List.Pairwise.nil
  | x :: xs => insertSorted_sorted x _ (sortNat_sorted xs)

theorem sortNat_eq_of_perm {a b : List Nat} (h : a.Perm b) : sortNat a = sortNat b :=
  List.Perm.eq_of_pairwise (le := (· ≤ ·)) (fun _ _ _ _ h1 h2 => Nat.le_antisymm h1 h2)
    (sortNat_sorted a) (sortNat_sorted b)
    ((sortNat_perm a).trans (h.trans (sortNat_perm b).symm))

theorem sortNat_eq_iff {a b : List Nat} : sortNat a = sortNat b ↔ a.Perm b :=
  ⟨fun h => (sortNat_perm a).symm.trans (h ▸ sortNat_perm b), sortNat_eq_of_perm⟩

theorem canon_perm {l₁ l₂ : List Op} (h : l₁.Perm l₂) : canon l₁ = canon l₂ :=
  sortNat_eq_of_perm (h.map _)

theorem canon_eq_iff {l₁ l₂ : List Op} :
    canon l₁ = canon l₂ ↔ (l₁.map Op.key).Perm (l₂.map Op.key) := sortNat_eq_iff

theorem canon_length (l : List Op) : (canon l).length = l.length := by
  have := (sortNat_perm (l.map Op.key)).length_eq
  rw [List.length_map] at this
  exact this

/-! ### injectivity of the packed key -/

/-- one base-3 digit step (digits shifted by one) -/
theorem digit3 {a b X Y : Int} (ha : -1 ≤ a ∧ a ≤ 1) (hb : -1 ≤ b ∧ b ≤ 1)
    (h : (a + 1) + 3 * X = (b + 1) + 3 * Y) : a = b ∧ X = Y := by omega

theorem digit24 {a b X Y : Int} (ha : 0 ≤ a ∧ a < 24) (hb : 0 ≤ b ∧ b < 24)
    (h : a + 24 * X = b + 24 * Y) : a = b ∧ X = Y := by omega

theorem inRange_iff (a : Op) : a.inRange = true ↔
    (-1 ≤ a.r11 ∧ a.r11 ≤ 1) ∧ (-1 ≤ a.r12 ∧ a.r12 ≤ 1) ∧ (-1 ≤ a.r13 ∧ a.r13 ≤ 1) ∧
    (-1 ≤ a.r21 ∧ a.r21 ≤ 1) ∧ (-1 ≤ a.r22 ∧ a.r22 ≤ 1) ∧ (-1 ≤ a.r23 ∧ a.r23 ≤ 1) ∧
    (-1 ≤ a.r31 ∧ a.r31 ≤ 1) ∧ (-1 ≤ a.r32 ∧ a.r32 ≤ 1) ∧ (-1 ≤ a.r33 ∧ a.r33 ≤ 1) ∧
    (0 ≤ a.t1 ∧ a.t1 < 24) ∧ (0 ≤ a.t2 ∧ a.t2 < 24) ∧ (0 ≤ a.t3 ∧ a.t3 < 24) := by
  simp only [Op.inRange, Bool.and_eq_true, decide_eq_true_eq]
  tauto

/-- the integer under `toNat` in `Op.key` -/
def ikey (a : Op) : Int :=
  ((a.r11 + 1) + 3 * ((a.r12 + 1) + 3 * ((a.r13 + 1) + 3 * ((a.r21 + 1) + 3 * ((a.r22 + 1)
    + 3 * ((a.r23 + 1) + 3 * ((a.r31 + 1) + 3 * ((a.r32 + 1) + 3 * ((a.r33 + 1)
    + 3 * (a.t1 + 24 * (a.t2 + 24 * a.t3)))))))))))

theorem key_eq_ikey (a : Op) : a.key = (ikey a).toNat := rfl

theorem ikey_nonneg {a : Op} (h : a.inRange = true) : 0 ≤ ikey a := by
  rw [inRange_iff] at h
  unfold ikey
  omega

theorem ikey_inj {a b : Op} (ha : a.inRange = true) (hb : b.inRange = true)
    (h : ikey a = ikey b) : a = b := by
  rw [inRange_iff] at ha hb
  obtain ⟨a1, a2, a3, a4, a5, a6, a7, a8, a9, a10, a11, a12⟩ := ha
  obtain ⟨b1, b2, b3, b4, b5, b6, b7, b8, b9, b10, b11, b12⟩ := hb
  unfold ikey at h
  obtain ⟨e1, h⟩ := digit3 a1 b1 h
  obtain ⟨e2, h⟩ := digit3 a2 b2 h
  obtain ⟨e3, h⟩ := digit3 a3 b3 h
  obtain ⟨e4, h⟩ := digit3 a4 b4 h
  obtain ⟨e5, h⟩ := digit3 a5 b5 h
  obtain ⟨e6, h⟩ := digit3 a6 b6 h
  obtain ⟨e7, h⟩ := digit3 a7 b7 h
  obtain ⟨e8, h⟩ := digit3 a8 b8 h
  obtain ⟨e9, h⟩ := digit3 a9 b9 h
  obtain ⟨e10, h⟩ := digit24 a10 b10 h
  obtain ⟨e11, e12⟩ := digit24 a11 b11 h
  exact Op.ext' e1 e2 e3 e4 e5 e6 e7 e8 e9 e10 e11 e12

/-- the packed key is injective on in-range operations -/
theorem key_inj {a b : Op} (ha : a.inRange = true) (hb : b.inRange = true)
    (h : a.key = b.key) : a = b := by
  apply ikey_inj ha hb
  have h1 := ikey_nonneg ha
  have h2 := ikey_nonneg hb
  rw [key_eq_ikey, key_eq_ikey] at h
  omega

/-- a map that is injective on the members of two lists reflects permutations -/
theorem perm_of_map_perm {α β : Type} [DecidableEq α] (f : α → β) :
    ∀ (l₁ l₂ : List α), (∀ a ∈ l₁, ∀ b ∈ l₂, f a = f b → a = b) →
      (l₁.map f).Perm (l₂.map f) → l₁.Perm l₂
  | [], l₂, _, h => by
    have : l₂ = [] := by simpa using h.symm.eq_nil
    subst this; exact List.Perm.refl _
  | a :: l₁, l₂, hinj, h => by
    have hfa : f a ∈ l₂.map f := h.subset (by simp)
    obtain ⟨b, hb, hfb⟩ := List.mem_map.1 hfa
    have hab : a = b := hinj a (by simp) b hb hfb.symm
    subst hab
    have h2 : l₂.Perm (a :: l₂.erase a) := List.perm_cons_erase hb
    have h3 : (l₁.map f).Perm ((l₂.erase a).map f) := by
      have := h.trans (h2.map f)
      simpa using this
    have ih := perm_of_map_perm f l₁ (l₂.erase a)
      (fun x hx y hy => hinj x (List.mem_cons_of_mem _ hx) y (List.mem_of_mem_erase hy)) h3
    exact (ih.cons a).trans h2.symm

theorem canon_eq_iff_perm {l₁ l₂ : List Op} (h₁ : ∀ a ∈ l₁, a.inRange = true)
    (h₂ : ∀ a ∈ l₂, a.inRange = true) : canon l₁ = canon l₂ ↔ l₁.Perm l₂ :=
  ⟨fun h => perm_of_map_perm Op.key l₁ l₂ (fun a ha b hb => key_inj (h₁ a ha) (h₂ b hb))
      (canon_eq_iff.1 h), canon_perm⟩

theorem map_key_inj : ∀ {a b : List Op}, (∀ x ∈ a, x.inRange = true) → (∀ x ∈ b, x.inRange = true) →
    a.map Op.key = b.map Op.key → a = b
  | [], [], _, _, _ => rfl
  | [], _ :: _, _, _, h => by simp at h
  | _ :: _, [], _, _, h => by simp at h
  | x :: xs, y :: ys, ha, hb, h => by
    simp only [List.map_cons, List.cons.injEq] at h
    have e := key_inj (ha x (by simp)) (hb y (by simp)) h.1
    have := map_key_inj (fun z hz => ha z (List.mem_cons_of_mem _ hz))
      (fun z hz => hb z (List.mem_cons_of_mem _ hz)) h.2
    rw [e, this]

theorem sameOrder_iff {a b : List Op} (ha : ∀ x ∈ a, x.inRange = true)
    (hb : ∀ x ∈ b, x.inRange = true) : sameOrder a b = true ↔ a = b := by
  unfold sameOrder
  rw [beq_iff_eq]
  exact ⟨map_key_inj ha hb, fun h => h ▸ rfl⟩


/-! ### `findSG` -/

theorem go_nil (c : List Nat) (i : Nat) (acc : Option Nat) : findSG.go c [] i acc = acc := by
  rw [findSG.go]

theorem go_cons (c : List Nat) (g : SG) (gs : List SG) (i : Nat) (acc : Option Nat) :
    findSG.go c (g :: gs) i acc
      = findSG.go c gs (i + 1) (if canon g.ops == c then some i else acc) := by
  rw [findSG.go]

theorem go_no_match (c : List Nat) : ∀ (rest : List SG) (i : Nat) (acc : Option Nat),
    (∀ g ∈ rest, canon g.ops ≠ c) → findSG.go c rest i acc = acc
  | [], i, acc, _ => go_nil c i acc
  | g :: gs, i, acc, h => by
    rw [go_cons, go_no_match c gs (i + 1) _ (fun g' hg' => h g' (List.mem_cons_of_mem _ hg'))]
    have : canon g.ops ≠ c := h g (by simp)
    simp [this]

/-- a result is the initial accumulator or the position of a setting with the wanted fingerprint -/
theorem go_some (c : List Nat) : ∀ (rest : List SG) (i : Nat) (acc : Option Nat) (j : Nat),
    findSG.go c rest i acc = some j →
      acc = some j ∨ ∃ k g, rest[k]? = some g ∧ canon g.ops = c ∧ j = i + k
  | [], i, acc, j, h => by rw [go_nil] at h; exact Or.inl h
  | g :: gs, i, acc, j, h => by
    rw [go_cons] at h
    rcases go_some c gs (i + 1) _ j h with h1 | ⟨k, g', hk, hc, hj⟩
    · by_cases hm : canon g.ops = c
      · simp only [hm, beq_self_eq_true, if_true, Option.some.injEq] at h1
        exact Or.inr ⟨0, g, by simp, hm, by omega⟩
      · have : (canon g.ops == c) = false := by simpa using hm
        rw [this] at h1
        exact Or.inl (by simpa using h1)
    · exact Or.inr ⟨k + 1, g', by simpa using hk, hc, by omega⟩

theorem go_of_some (c : List Nat) : ∀ (rest : List SG) (i : Nat) (x : Nat),
    ∃ y, findSG.go c rest i (some x) = some y
  | [], i, x => ⟨x, go_nil c i _⟩
  | g :: gs, i, x => by
    rw [go_cons]
    by_cases hm : (canon g.ops == c) = true
    · rw [if_pos hm]; exact go_of_some c gs (i + 1) i
    · rw [if_neg hm]; exact go_of_some c gs (i + 1) x

theorem go_none (c : List Nat) : ∀ (rest : List SG) (i : Nat) (acc : Option Nat),
    findSG.go c rest i acc = none → acc = none ∧ ∀ g ∈ rest, canon g.ops ≠ c
  | [], i, acc, h => by rw [go_nil] at h; exact ⟨h, by simp⟩
  | g :: gs, i, acc, h => by
    rw [go_cons] at h
    by_cases hm : (canon g.ops == c) = true
    · rw [if_pos hm] at h
      obtain ⟨y, hy⟩ := go_of_some c gs (i + 1) i
      rw [hy] at h; cases h
    · rw [if_neg hm] at h
      obtain ⟨h1, h2⟩ := go_none c gs (i + 1) acc h
      refine ⟨h1, ?_⟩
      intro g' hg'
      rcases List.mem_cons.1 hg' with rfl | hg'
      · simpa using hm
      · exact h2 g' hg'

/-- the last matching position wins -/
theorem go_found (c : List Nat) : ∀ (rest : List SG) (i : Nat) (acc : Option Nat) (k : Nat) (g : SG),
    rest[k]? = some g → canon g.ops = c →
    (∀ k' g', k < k' → rest[k']? = some g' → canon g'.ops ≠ c) →
    findSG.go c rest i acc = some (i + k)
  | [], _, _, _, _, h, _, _ => by simp at h
  | g0 :: gs, i, acc, 0, g, h, hc, hu => by
    simp only [List.getElem?_cons_zero, Option.some.injEq] at h
    subst h
    rw [go_cons, go_no_match c gs]
    · simp [hc]
    · intro g' hg'
      obtain ⟨k', hk'⟩ := List.getElem?_of_mem hg'
      exact hu (k' + 1) g' (by omega) (by simpa using hk')
  | g0 :: gs, i, acc, k + 1, g, h, hc, hu => by
    rw [go_cons]
    have := go_found c gs (i + 1) (if canon g0.ops == c then some i else acc) k g
      (by simpa using h) hc
      (fun k' g' hk hg' => hu (k' + 1) g' (by omega) (by simpa using hg'))
    rw [this]; congr 1; omega

theorem findSG_eq_some_imp {sgs : List SG} {l : List Op} {i : Nat} (h : findSG sgs l = some i) :
    ∃ g, sgs[i]? = some g ∧ canon g.ops = canon l := by
  unfold findSG at h
  rcases go_some (canon l) sgs 0 none i h with h1 | ⟨k, g, hk, hc, hj⟩
  · cases h1
  · have : i = k := by omega
    subst this
    exact ⟨g, hk, hc⟩

theorem nodup_map_getElem? {α β : Type} {f : α → β} {l : List α} (h : (l.map f).Nodup)
    {i j : Nat} {a b : α} (hi : l[i]? = some a) (hj : l[j]? = some b) (hf : f a = f b) : i = j := by
  obtain ⟨hi', rfl⟩ := List.getElem?_eq_some_iff.1 hi
  obtain ⟨hj', rfl⟩ := List.getElem?_eq_some_iff.1 hj
  have := (List.Nodup.getElem_inj_iff h (i := i) (j := j)
    (hi := by simpa using hi') (hj := by simpa using hj')).1 (by simpa using hf)
  exact this

/-- position `i` holds a setting with the fingerprint of `l`, fingerprints being distinct:
`findSG` returns `i` -/
theorem findSG_of_canon {sgs : List SG} (hnd : (sgs.map (fun g => canon g.ops)).Nodup)
    {l : List Op} {i : Nat} {g : SG} (hi : sgs[i]? = some g) (hc : canon g.ops = canon l) :
    findSG sgs l = some i := by
  unfold findSG
  have := go_found (canon l) sgs 0 none i g hi hc (by
    intro k' g' hk hg' hc'
    have := nodup_map_getElem? hnd hi hg' (hc.trans hc'.symm)
    omega)
  simpa using this

theorem findSG_canon_iff {sgs : List SG} (hnd : (sgs.map (fun g => canon g.ops)).Nodup)
    {l : List Op} {i : Nat} :
    findSG sgs l = some i ↔ ∃ g, sgs[i]? = some g ∧ canon g.ops = canon l :=
  ⟨findSG_eq_some_imp, fun ⟨_, hi, hc⟩ => findSG_of_canon hnd hi hc⟩

theorem findSG_none_canon_iff {sgs : List SG} {l : List Op} :
    findSG sgs l = none ↔ ∀ g ∈ sgs, canon g.ops ≠ canon l := by
  unfold findSG
  exact ⟨fun h => (go_none _ _ _ _ h).2, fun h => go_no_match _ _ _ _ h⟩

/-! ### the identifier table -/

/-- setting `g` answers to key `k`: its number (int or decimal string), short or full name -/
def Carries (g : SG) (k : Key) : Prop :=
  k = .num g.number ∨ k = .str (toString g.number) ∨ k = .str g.short ∨ k = .str g.pdb

instance (g : SG) (k : Key) : Decidable (Carries g k) :=
  inferInstanceAs (Decidable (_ ∨ _ ∨ _ ∨ _))

/-- Boolean form, argument order suited to `List.findIdx?` -/
def carriesB (k : Key) (g : SG) : Bool := decide (Carries g k)

theorem carriesB_iff {k : Key} {g : SG} : carriesB k g = true ↔ Carries g k := by
  simp [carriesB]

theorem lookup_nil (k : Key) : lookup [] k = none := rfl

theorem lookup_append (t u : Table) (k : Key) :
    lookup (t ++ u) k = (lookup t k).or (lookup u k) := by
  unfold lookup
  rw [List.find?_append]
  cases List.find? (fun e => e.1 == k) t <;> simp

theorem lookup_singleton (k k' : Key) (v : Nat) :
    lookup [(k, v)] k' = if k' = k then some v else none := by
  unfold lookup
  by_cases h : k' = k
  · subst h; simp
  · have : (k == k') = false := by simpa using fun e => h e.symm
    simp [this, h]

theorem lookup_setdefault (t : Table) (k k' : Key) (v : Nat) :
    lookup (setdefault t k v) k' = (lookup t k').or (if k' = k then some v else none) := by
  unfold setdefault
  cases h : lookup t k with
  | some w =>
    by_cases e : k' = k
    · subst e; simp [h]
    · simp [e]
  | none => simp only [lookup_append, lookup_singleton]

theorem lookup_setdefault_of_some {t : Table} {k k' : Key} {v i : Nat}
    (h : lookup t k' = some i) : lookup (setdefault t k v) k' = some i := by
  rw [lookup_setdefault, h]; rfl

theorem lookup_setdefault_self (t : Table) (k : Key) (v : Nat) :
    ∃ i, lookup (setdefault t k v) k = some i := by
  rw [lookup_setdefault]
  cases lookup t k <;> simp

theorem or_ite_some (p q : Prop) [Decidable p] [Decidable q] (i : Nat) :
    (if p then some i else none).or (if q then some i else none)
      = if p ∨ q then some i else none := by
  by_cases hp : p <;> by_cases hq : q <;> simp [hp, hq]

theorem lookup_addSG (t : Table) (g : SG) (i : Nat) (k : Key) :
    lookup (addSG t g i) k = (lookup t k).or (if Carries g k then some i else none) := by
  simp only [addSG, lookup_setdefault]
  cases lookup t k with
  | some w => simp
  | none =>
    simp only [Option.none_or, or_ite_some, or_assoc]
    by_cases h : Carries g k
    · have h' : (k = Key.num g.number ∨ k = Key.str (toString g.number) ∨ k = Key.str g.short ∨
        k = Key.str g.pdb) := h
      rw [if_pos h, if_pos h']
    · have h' : ¬ (k = Key.num g.number ∨ k = Key.str (toString g.number) ∨ k = Key.str g.short ∨
        k = Key.str g.pdb) := h
      rw [if_neg h, if_neg h']

theorem lookup_addAll : ∀ (sgs : List SG) (t : Table) (i : Nat) (k : Key),
    lookup (addAll t sgs i) k = (lookup t k).or ((sgs.findIdx? (carriesB k)).map (· + i))
  | [], t, i, k => by simp [addAll]
  | g :: gs, t, i, k => by
    rw [addAll, lookup_addAll gs, lookup_addSG, List.findIdx?_cons]
    cases lookup t k with
    | some w => simp
    | none =>
      by_cases hc : Carries g k
      · have : carriesB k g = true := carriesB_iff.2 hc
        simp [hc, this]
      · have : carriesB k g = false := by
          cases h : carriesB k g
          · rfl
          · exact absurd (carriesB_iff.1 h) hc
        simp only [hc, if_false, this, Option.or_none, Option.none_or, Bool.false_eq_true,
          Option.map_map]
        congr 1
        funext x
        simp only [Function.comp]
        omega

/-- the alias-free table is "position of the first setting that carries the key" -/
theorem lookup_base (sgs : List SG) (k : Key) :
    lookup (addAll [] sgs 0) k = sgs.findIdx? (carriesB k) := by
  rw [lookup_addAll, lookup_nil]
  cases sgs.findIdx? (carriesB k) <;> simp

theorem lookup_base_eq_some_iff {sgs : List SG} {k : Key} {i : Nat} :
    lookup (addAll [] sgs 0) k = some i ↔
      ∃ g, sgs[i]? = some g ∧ Carries g k ∧
        ∀ j g', j < i → sgs[j]? = some g' → ¬ Carries g' k := by
  rw [lookup_base, List.findIdx?_eq_some_iff_getElem]
  constructor
  · rintro ⟨h, hp, hlt⟩
    refine ⟨sgs[i], by simp [h], carriesB_iff.1 hp, ?_⟩
    intro j g' hj hg' hc
    obtain ⟨hj', rfl⟩ := List.getElem?_eq_some_iff.1 hg'
    exact hlt j hj (carriesB_iff.2 hc)
  · rintro ⟨g, hg, hc, hlt⟩
    obtain ⟨h, rfl⟩ := List.getElem?_eq_some_iff.1 hg
    refine ⟨h, carriesB_iff.2 hc, ?_⟩
    intro j hj hp
    exact hlt j _ hj (List.getElem?_eq_getElem (Nat.lt_trans hj h)) (carriesB_iff.1 hp)

theorem lookup_base_eq_none_iff {sgs : List SG} {k : Key} :
    lookup (addAll [] sgs 0) k = none ↔ ∀ g ∈ sgs, ¬ Carries g k := by
  rw [lookup_base, List.findIdx?_eq_none_iff]
  constructor
  · intro h g hg hc
    have := h g hg
    rw [carriesB_iff.2 hc] at this; cases this
  · intro h g hg
    cases hb : carriesB k g
    · rfl
    · exact absurd (carriesB_iff.1 hb) (h g hg)

/-! ### aliases -/

theorem addAliases_preserves : ∀ (al : List (String × String)) (t t' : Table) (k : Key) (i : Nat),
    addAliases t al = some t' → lookup t k = some i → lookup t' k = some i
  | [], t, t', k, i, h, hk => by
    simp only [addAliases, Option.some.injEq] at h; subst h; exact hk
  | (a, hm) :: rest, t, t', k, i, h, hk => by
    rw [addAliases] at h
    cases ht : lookup t (.str (removeBlanks hm)) with
    | none => rw [ht] at h; cases h
    | some j =>
      rw [ht] at h
      exact addAliases_preserves rest _ t' k i h (lookup_setdefault_of_some hk)

/-- how a key of the final table got its value: registered by the settings loop, or an alias whose
blank-free target name had that value at the time (possibly itself through an earlier alias) -/
inductive Resolves (t0 : Table) (al : List (String × String)) : Key → Nat → Prop
  | direct {k : Key} {i : Nat} : lookup t0 k = some i → Resolves t0 al k i
  | via {a hm : String} {i : Nat} : (a, hm) ∈ al →
      Resolves t0 al (.str (removeBlanks hm)) i → Resolves t0 al (.str a) i

theorem addAliases_resolves (t0 : Table) (al : List (String × String)) :
    ∀ (rest : List (String × String)) (t t' : Table), (∀ p ∈ rest, p ∈ al) →
      (∀ k i, lookup t k = some i → Resolves t0 al k i) → addAliases t rest = some t' →
      ∀ k i, lookup t' k = some i → Resolves t0 al k i
  | [], t, t', _, hP, h, k, i, hk => by
    simp only [addAliases, Option.some.injEq] at h; subst h; exact hP k i hk
  | (a, hm) :: rest, t, t', hsub, hP, h, k, i, hk => by
    rw [addAliases] at h
    cases ht : lookup t (.str (removeBlanks hm)) with
    | none => rw [ht] at h; cases h
    | some j =>
      rw [ht] at h
      refine addAliases_resolves t0 al rest _ t' (fun p hp => hsub p (List.mem_cons_of_mem _ hp))
        ?_ h k i hk
      intro k' i' hk'
      rw [lookup_setdefault] at hk'
      cases hl : lookup t k' with
      | some w =>
        rw [hl] at hk'
        have : w = i' := by simpa using hk'
        subst this
        exact hP k' w hl
      | none =>
        rw [hl] at hk'
        by_cases e : k' = .str a
        · subst e
          have : j = i' := by simpa using hk'
          subst this
          exact Resolves.via (hsub (a, hm) (by simp)) (hP _ _ ht)
        · simp [e] at hk'

theorem addAliases_found : ∀ (rest : List (String × String)) (t t' : Table) (a hm : String),
    addAliases t rest = some t' → (a, hm) ∈ rest → ∃ i, lookup t' (.str a) = some i
  | [], _, _, _, _, _, hm => by cases hm
  | (a0, hm0) :: rest, t, t', a, hm, h, hmem => by
    rw [addAliases] at h
    cases ht : lookup t (.str (removeBlanks hm0)) with
    | none => rw [ht] at h; cases h
    | some j =>
      rw [ht] at h
      rcases List.mem_cons.1 hmem with e | hmem
      · rw [Prod.mk.injEq] at e
        rw [e.1]
        obtain ⟨i, hi⟩ := lookup_setdefault_self t (.str a0) j
        exact ⟨i, addAliases_preserves rest _ t' _ i h hi⟩
      · exact addAliases_found rest _ t' a hm h hmem

/-- `addAliases` succeeds when every target name is already in the table -/
theorem addAliases_isSome : ∀ (rest : List (String × String)) (t : Table),
    (∀ p ∈ rest, ∃ i, lookup t (.str (removeBlanks p.2)) = some i) → ∃ t', addAliases t rest = some t'
  | [], t, _ => ⟨t, rfl⟩
  | (a, hm) :: rest, t, h => by
    obtain ⟨i, hi⟩ := h (a, hm) (by simp)
    rw [addAliases, hi]
    apply addAliases_isSome rest
    intro p hp
    obtain ⟨j, hj⟩ := h p (List.mem_cons_of_mem _ hp)
    exact ⟨j, lookup_setdefault_of_some hj⟩

/-! ### `getSG` -/

theorem getSG_eq (t : Table) (id : Key) :
    getSG t id = (lookup t id).or (match id with
      | .num _ => none
      | .str s => (lookup t (.str (normShort s))).or (lookup t (.str (normFull s)))) := by
  unfold getSG
  cases lookup t id with
  | some i => rfl
  | none =>
    cases id with
    | num n => rfl
    | str s =>
      simp only [Option.none_or]
      cases lookup t (.str (normShort s)) <;> rfl

theorem getSG_str (t : Table) (s : String) :
    getSG t (.str s) = (lookup t (.str s)).or
      ((lookup t (.str (normShort s))).or (lookup t (.str (normFull s)))) := getSG_eq t _

theorem getSG_cases {t : Table} {id : Key} {i : Nat} (h : getSG t id = some i) :
    lookup t id = some i ∨ ∃ s, id = .str s ∧ lookup t id = none ∧
      (lookup t (.str (normShort s)) = some i ∨
       (lookup t (.str (normShort s)) = none ∧ lookup t (.str (normFull s)) = some i)) := by
  rw [getSG_eq] at h
  cases h1 : lookup t id with
  | some j => rw [h1] at h; exact Or.inl (by simpa using h)
  | none =>
    rw [h1] at h
    cases id with
    | num n => simp at h
    | str s =>
      refine Or.inr ⟨s, rfl, rfl, ?_⟩
      simp only [Option.none_or] at h
      cases h2 : lookup t (.str (normShort s)) with
      | some j => rw [h2] at h; exact Or.inl (by simpa using h)
      | none => rw [h2] at h; exact Or.inr ⟨rfl, by simpa using h⟩

theorem getSG_of_lookup {t : Table} {id : Key} {i : Nat} (h : lookup t id = some i) :
    getSG t id = some i := by
  rw [getSG_eq, h]; rfl

theorem getSG_num_none {t : Table} {n : Nat} (h : lookup t (.num n) = none) :
    getSG t (.num n) = none := by
  rw [getSG_eq, h]; rfl

theorem getSG_str_none_iff {t : Table} {s : String} :
    getSG t (.str s) = none ↔ lookup t (.str s) = none ∧ lookup t (.str (normShort s)) = none ∧
      lookup t (.str (normFull s)) = none := by
  rw [getSG_str]
  cases lookup t (.str s) <;> cases lookup t (.str (normShort s)) <;> simp

theorem getSG_isSome_of_short {t : Table} {s : String} {i : Nat}
    (h : lookup t (.str (normShort s)) = some i) : ∃ j, getSG t (.str s) = some j := by
  rw [getSG_str, h]
  cases lookup t (.str s) <;> simp

theorem getSG_isSome_of_full {t : Table} {s : String} {i : Nat}
    (h : lookup t (.str (normFull s)) = some i) : ∃ j, getSG t (.str s) = some j := by
  rw [getSG_str, h]
  cases lookup t (.str s) <;> cases lookup t (.str (normShort s)) <;> simp

/-! ### numerals -/

theorem toString_nat_inj {m n : Nat} (h : toString m = toString n) : m = n :=
  Nat.repr_injective h

/-- first character present and not a decimal digit (hence the string is no numeral) -/
def notNumeralL : List Char → Bool
  | [] => false
  | c :: _ => !c.isDigit

def notNumeral (s : String) : Bool := notNumeralL s.toList

theorem notNumeral_ne_toString {s : String} (h : notNumeral s = true) (n : Nat) :
    s ≠ toString n := by
  intro e
  subst e
  unfold notNumeral at h
  have hl : (toString n).toList = Nat.toDigits 10 n := Nat.toList_repr
  rw [hl] at h
  cases hd : Nat.toDigits 10 n with
  | nil => rw [hd] at h; cases h
  | cons c cs =>
    rw [hd] at h
    have : c.isDigit = true :=
      Nat.isDigit_of_mem_toDigits (b := 10) (n := n) (by decide) (by decide) (by rw [hd]; simp)
    simp [notNumeralL, this] at h

theorem carries_num_iff {g : SG} {n : Nat} : Carries g (.num n) ↔ g.number = n := by
  unfold Carries
  constructor
  · rintro (h | h | h | h)
    · injection h with h; exact h.symm
    all_goals cases h
  · intro h; exact Or.inl (by rw [h])

theorem carries_numstr_iff {g : SG} (hs : notNumeral g.short = true) (hp : notNumeral g.pdb = true)
    {n : Nat} : Carries g (.str (toString n)) ↔ g.number = n := by
  unfold Carries
  constructor
  · rintro (h | h | h | h)
    · cases h
    · injection h with h; exact (toString_nat_inj h).symm
    · injection h with h; exact absurd h.symm (notNumeral_ne_toString hs n)
    · injection h with h; exact absurd h.symm (notNumeral_ne_toString hp n)
  · intro h; exact Or.inr (Or.inl (by rw [h]))

/-! ### general statements about `buildTable` -/

theorem buildTable_preserves {sgs : List SG} {al : List (String × String)} {t : Table}
    (ht : buildTable sgs al = some t) {k : Key} {i : Nat}
    (h : lookup (addAll [] sgs 0) k = some i) : lookup t k = some i :=
  addAliases_preserves al _ t k i ht h

theorem buildTable_resolves {sgs : List SG} {al : List (String × String)} {t : Table}
    (ht : buildTable sgs al = some t) {k : Key} {i : Nat} (h : lookup t k = some i) :
    Resolves (addAll [] sgs 0) al k i :=
  addAliases_resolves _ al al _ t (fun _ hp => hp) (fun _ _ hk => Resolves.direct hk) ht k i h

/-- every value of the table is the position of a setting -/
theorem resolves_valid {sgs : List SG} {al : List (String × String)} {k : Key} {i : Nat}
    (h : Resolves (addAll [] sgs 0) al k i) : ∃ g k0, sgs[i]? = some g ∧ Carries g k0 := by
  induction h with
  | direct hk =>
    obtain ⟨g, hg, hc, _⟩ := lookup_base_eq_some_iff.1 hk
    exact ⟨g, _, hg, hc⟩
  | via _ _ ih => exact ih

theorem resolves_cases {t0 : Table} {al : List (String × String)} {k : Key} {i : Nat}
    (h : Resolves t0 al k i) : lookup t0 k = some i ∨ ∃ a hm, (a, hm) ∈ al ∧ k = .str a := by
  cases h with
  | direct hk => exact Or.inl hk
  | @via a hm _ hmem _ => exact Or.inr ⟨a, hm, hmem, rfl⟩

/-- no alias target is itself an alias name: targets are resolved in the settings part -/
def AliasesDirect (al : List (String × String)) : Prop :=
  ∀ p ∈ al, ∀ q ∈ al, removeBlanks p.2 ≠ q.1

def aliasesDirectB (al : List (String × String)) : Bool :=
  al.all (fun p => al.all (fun q => decide (removeBlanks p.2 ≠ q.1)))

theorem aliasesDirectB_iff (al : List (String × String)) :
    aliasesDirectB al = true ↔ AliasesDirect al := by
  simp [aliasesDirectB, AliasesDirect]

/-- with direct aliases a resolution chain has length at most one -/
theorem resolves_direct {t0 : Table} {al : List (String × String)} (hd : AliasesDirect al)
    {k : Key} {i : Nat} (h : Resolves t0 al k i) :
    lookup t0 k = some i ∨ ∃ a hm, (a, hm) ∈ al ∧ k = .str a ∧
      lookup t0 (.str (removeBlanks hm)) = some i := by
  cases h with
  | direct hk => exact Or.inl hk
  | @via a hm _ hmem hr =>
    refine Or.inr ⟨a, hm, hmem, rfl, ?_⟩
    generalize hk' : Key.str (removeBlanks hm) = k' at hr
    cases hr with
    | direct hk => exact hk
    | @via a' hm' _ hmem' _ =>
      injection hk' with e
      exact absurd e (hd (a, hm) hmem (a', hm') hmem')

/-- `buildTable` succeeds when every alias target is the name of some setting -/
theorem buildTable_isSome {sgs : List SG} {al : List (String × String)}
    (h : ∀ p ∈ al, ∃ g ∈ sgs, Carries g (.str (removeBlanks p.2))) :
    ∃ t, buildTable sgs al = some t := by
  apply addAliases_isSome
  intro p hp
  obtain ⟨g, hg, hc⟩ := h p hp
  cases hl : lookup (addAll [] sgs 0) (.str (removeBlanks p.2)) with
  | some i => exact ⟨i, rfl⟩
  | none => exact absurd hc (lookup_base_eq_none_iff.1 hl g hg)

/-- Boolean test for the hypothesis of `buildTable_isSome` that compares names only -/
def aliasTargetsB (sgs : List SG) (al : List (String × String)) : Bool :=
  al.all (fun p => sgs.any (fun g =>
    decide (g.short = removeBlanks p.2) || decide (g.pdb = removeBlanks p.2)))

theorem aliasTargetsB_sound {sgs : List SG} {al : List (String × String)}
    (h : aliasTargetsB sgs al = true) :
    ∀ p ∈ al, ∃ g ∈ sgs, Carries g (.str (removeBlanks p.2)) := by
  intro p hp
  simp only [aliasTargetsB, List.all_eq_true, List.any_eq_true, Bool.or_eq_true,
    decide_eq_true_eq] at h
  obtain ⟨g, hg, hc⟩ := h p hp
  refine ⟨g, hg, ?_⟩
  rcases hc with hc | hc
  · exact Or.inr (Or.inr (Or.inl (by rw [hc])))
  · exact Or.inr (Or.inr (Or.inr (by rw [hc])))

/-! ### Boolean duplicate test for fingerprints -/

def nodupLL : List (List Nat) → Bool
  | [] => true
  | x :: xs => !(xs.any (fun y => y == x)) && nodupLL xs

theorem nodupLL_iff (l : List (List Nat)) : nodupLL l = true ↔ l.Nodup := by
  induction l with
  | nil => simp [nodupLL]
  | cons x xs ih =>
    simp only [nodupLL, Bool.and_eq_true, Bool.not_eq_true', List.nodup_cons, ih]
    constructor
    · rintro ⟨h1, h2⟩
      refine ⟨?_, h2⟩
      intro hx
      have : xs.any (fun y => y == x) = true := List.any_eq_true.2 ⟨x, hx, by simp⟩
      rw [this] at h1; cases h1
    · rintro ⟨h1, h2⟩
      refine ⟨?_, h2⟩
      cases h : xs.any (fun y => y == x)
      · rfl
      · obtain ⟨y, hy, hyx⟩ := List.any_eq_true.1 h
        have : y = x := by simpa using hyx
        subst this
        exact absurd hy h1

/-! ### normalisation on character lists; case and blank variants -/

def stripL (l : List Char) : List Char :=
  ((l.dropWhile isBlank).reverse.dropWhile isBlank).reverse

def capL : List Char → List Char
  | [] => []
  | c :: cs => c.toUpper :: cs.map Char.toLower

def normShortL (l : List Char) : List Char := capL ((stripL l).filter (· ≠ ' '))
def normFullL (l : List Char) : List Char := capL (stripL l)

theorem strip_toList (s : String) : (strip s).toList = stripL s.toList := by
  simp [strip, stripL]

theorem removeBlanks_toList (s : String) : (removeBlanks s).toList = s.toList.filter (· ≠ ' ') := by
  simp [removeBlanks]

theorem capitalise_eq (s : String) : capitalise s = String.ofList (capL s.toList) := by
  unfold capitalise
  cases s.toList <;> rfl

theorem normShort_eq (s : String) : normShort s = String.ofList (normShortL s.toList) := by
  rw [normShort, capitalise_eq, removeBlanks_toList, strip_toList]; rfl

theorem normFull_eq (s : String) : normFull s = String.ofList (normFullL s.toList) := by
  rw [normFull, capitalise_eq, strip_toList]; rfl

theorem normShort_fixed_iff (s : String) : normShort s = s ↔ normShortL s.toList = s.toList := by
  rw [normShort_eq, ← String.toList_inj, String.toList_ofList]

theorem normFull_fixed_iff (s : String) : normFull s = s ↔ normFullL s.toList = s.toList := by
  rw [normFull_eq, ← String.toList_inj, String.toList_ofList]

theorem char_toLower_toUpper (c : Char) : c.toUpper.toLower = c.toLower := by
  simp only [Char.toLower, Char.toUpper]
  split
  · next h1 =>
    split
    · next h2 =>
      split
      · next h3 =>
        simp only [UInt32.le_iff_toNat_le, UInt32.toNat_add, seval, ge_iff_le] at h1 h2 h3
        omega
      · simp only [Char.ext_iff]
        simp only [UInt32.le_iff_toNat_le, UInt32.toNat_add, seval, ge_iff_le] at h1 h2
        apply UInt32.toNat_inj.1
        simp only [UInt32.toNat_add, seval]
        omega
    · next h2 =>
      split
      · next h3 =>
        simp only [UInt32.le_iff_toNat_le, UInt32.toNat_add, seval, ge_iff_le] at h1 h2 h3
        omega
      · next h3 =>
        simp only [UInt32.le_iff_toNat_le, UInt32.toNat_add, seval, ge_iff_le, not_and, Nat.not_le]
          at h1 h2 h3
        omega
  · next h1 =>
    split <;> rfl

theorem char_toUpper_toLower (c : Char) : c.toLower.toUpper = c.toUpper := by
  simp only [Char.toLower, Char.toUpper]
  split
  · next h1 =>
    split
    · next h2 =>
      split
      · next h3 =>
        simp only [UInt32.le_iff_toNat_le, UInt32.toNat_add, seval, ge_iff_le] at h1 h2 h3
        omega
      · simp only [Char.ext_iff]
        simp only [UInt32.le_iff_toNat_le, UInt32.toNat_add, seval, ge_iff_le] at h1 h2
        apply UInt32.toNat_inj.1
        simp only [UInt32.toNat_add, seval]
        omega
    · next h2 =>
      split
      · next h3 =>
        simp only [UInt32.le_iff_toNat_le, UInt32.toNat_add, seval, ge_iff_le] at h1 h2 h3
        omega
      · next h3 =>
        simp only [UInt32.le_iff_toNat_le, UInt32.toNat_add, seval, ge_iff_le, not_and, Nat.not_le]
          at h1 h2 h3
        omega
  · next h1 =>
    split <;> rfl

theorem char_toLower_toLower (c : Char) : c.toLower.toLower = c.toLower := by
  simp only [Char.toLower]
  split
  · split
    · next h1 h2 =>
      simp only [UInt32.le_iff_toNat_le, UInt32.toNat_add, seval] at h1 h2
      omega
    · rfl
  · rfl

/-- `capitalise` only depends on the letters up to case -/
theorem capL_congr : ∀ {l l' : List Char}, l.map Char.toLower = l'.map Char.toLower → capL l = capL l'
  | [], [], _ => rfl
  | [], _ :: _, h => by simp at h
  | _ :: _, [], h => by simp at h
  | c :: cs, c' :: cs', h => by
    simp only [List.map_cons, List.cons.injEq] at h
    simp only [capL, h.2, List.cons.injEq, and_true]
    rw [← char_toUpper_toLower c, h.1, char_toUpper_toLower]

theorem capL_map_toLower : ∀ l : List Char, (capL l).map Char.toLower = l.map Char.toLower
  | [] => rfl
  | c :: cs => by
    simp only [capL, List.map_cons, List.map_map, char_toLower_toUpper, List.cons.injEq, true_and]
    apply List.map_congr_left
    intro x _
    exact char_toLower_toLower x

theorem capL_idem (l : List Char) : capL (capL l) = capL l := capL_congr (capL_map_toLower l)

/-- a string whose blank-stripped, blank-free letters agree up to case with a normalised short
name normalises to that name -/
theorem normShort_variant {s name : String} (hfix : normShort name = name)
    (h : ((stripL s.toList).filter (· ≠ ' ')).map Char.toLower = name.toList.map Char.toLower) :
    normShort s = name := by
  have h1 : capL name.toList = name.toList := by
    have := (normShort_fixed_iff name).1 hfix
    rw [← this]; exact capL_idem _
  rw [normShort_eq, normShortL, capL_congr h, h1, String.ofList_toList]

/-- a string whose blank-stripped letters agree up to case with a normalised full name
normalises to that name -/
theorem normFull_variant {s name : String} (hfix : normFull name = name)
    (h : (stripL s.toList).map Char.toLower = name.toList.map Char.toLower) :
    normFull s = name := by
  have h1 : capL name.toList = name.toList := by
    have := (normFull_fixed_iff name).1 hfix
    rw [← this]; exact capL_idem _
  rw [normFull_eq, normFullL, capL_congr h, h1, String.ofList_toList]

end Lookup
end DS
