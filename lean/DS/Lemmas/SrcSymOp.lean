import DS.Model.Rx
import DS.Lemmas.SymText
/-!
Lemmas for the source tie of `getSymOp` (T18): the matcher `DS.Rx.mK` on the constructs the two patterns use,
the exact-fraction arithmetic, the Python primitives.  Core Lean only; independent of the generated file.
-/
namespace DS.Rx

/-- a continuation that cannot fail -/
def Tot {α : Type} (k : List Char → Option α) : Prop := ∀ s, (k s).isSome = true

theorem orElse_of_isSome {α : Type} {a : Option α} (h : a.isSome = true) (b : Unit → Option α) : a.orElse b = a := by
  cases a with
  | none => simp at h
  | some v => rfl

theorem mK_seq {α : Type} (n : Nat) (a b : Re) (s : List Char) (k : List Char → Option α) :
    mK n (.seq a b) s k = mK n a s (fun s' => mK n b s' k) := by simp [mK]

theorem mK_alt {α : Type} (n : Nat) (a b : Re) (s : List Char) (k : List Char → Option α) :
    mK n (.alt a b) s k = (mK n a s k).orElse (fun _ => mK n b s k) := by simp [mK]

theorem mK_opt {α : Type} (n : Nat) (a : Re) (s : List Char) (k : List Char → Option α) :
    mK n (.opt a) s k = (mK n a s k).orElse (fun _ => k s) := by simp [mK]

theorem mK_cls_nil {α : Type} (n : Nat) (ic neg : Bool) (its : List Item) (k : List Char → Option α) :
    mK n (.cls ic neg its) [] k = none := by simp [mK]

theorem mK_cls_cons {α : Type} (n : Nat) (ic neg : Bool) (its : List Item) (c : Char) (r : List Char) (k : List Char → Option α) :
    mK n (.cls ic neg its) (c :: r) k = if clsHas ic neg its c then k r else none := by simp [mK]

/-- greedy iteration of a class before a continuation that cannot fail: everything is consumed -/
theorem starK_cls {α : Type} (n : Nat) (ic neg : Bool) (its : List Item) (k : List Char → Option α) (hk : Tot k) :
    ∀ (f : Nat) (s : List Char), s.length < f →
      starK (fun s' k' => mK n (.cls ic neg its) s' k') k f s = k (s.dropWhile (clsHas ic neg its)) := by
  intro f
  induction f with
  | zero => intro s h; omega
  | succ f ih =>
    intro s h
    cases s with
    | nil => simp [starK, mK]
    | cons c r =>
      simp only [starK, mK_cls_cons, List.dropWhile_cons]
      by_cases hc : clsHas ic neg its c = true
      · simp only [hc, if_true, List.length_cons, Nat.lt_succ_self]
        rw [ih r (by simp at h; omega)]
        exact orElse_of_isSome (hk _) _
      · simp [hc]

theorem mK_star_cls {α : Type} (n : Nat) (ic neg : Bool) (its : List Item) (s : List Char) (k : List Char → Option α) (hk : Tot k) :
    mK n (.star (.cls ic neg its)) s k = k (s.dropWhile (clsHas ic neg its)) := by
  simp only [mK]
  exact starK_cls n ic neg its k hk _ s (Nat.lt_succ_self _)

theorem mK_plus_cls {α : Type} (n : Nat) (ic neg : Bool) (its : List Item) (s : List Char) (k : List Char → Option α) (hk : Tot k) :
    mK n (.plus (.cls ic neg its)) s k =
      match s with
      | [] => none
      | c :: r => if clsHas ic neg its c then k (r.dropWhile (clsHas ic neg its)) else none := by
  cases s with
  | nil => simp [mK]
  | cons c r =>
    simp only [mK]
    by_cases hc : clsHas ic neg its c = true
    · simp only [hc, if_true]
      exact starK_cls n ic neg its k hk _ r (Nat.lt_succ_self _)
    · simp [hc]

theorem mK_opt_cls {α : Type} (n : Nat) (ic neg : Bool) (its : List Item) (s : List Char) (k : List Char → Option α) (hk : Tot k) :
    mK n (.opt (.cls ic neg its)) s k =
      match s with
      | [] => k []
      | c :: r => if clsHas ic neg its c then k r else k (c :: r) := by
  cases s with
  | nil => simp [mK]
  | cons c r =>
    simp only [mK]
    by_cases hc : clsHas ic neg its c = true
    · simp only [hc, if_true]
      exact orElse_of_isSome (hk _) _
    · simp [hc]

open DS.SymText

def D : Re := .cls false false [.digit]
def dot : Re := .cls false false [.chr '.']
def sign : Re := .cls false false [.chr '+', .chr '-']
def slash : Re := .cls false false [.chr '/']
def lit : Re := .alt (.seq (.plus D) (.seq (.opt dot) (.star D))) (.seq dot (.plus D))
def rxConst : Re := .seq (.opt sign) (.seq lit (.opt (.seq slash lit)))

theorem cls_digit : clsHas false false [.digit] = Char.isDigit := by
  funext c; simp [clsHas, Item.has]
theorem cls_dot (c : Char) : clsHas false false [.chr '.'] c = decide (c = '.') := by
  simp [clsHas, Item.has]
theorem cls_slash (c : Char) : clsHas false false [.chr '/'] c = decide (c = '/') := by
  simp [clsHas, Item.has]
theorem cls_sign (c : Char) : clsHas false false [.chr '+', .chr '-'] c = isSign c := by
  simp [clsHas, Item.has, isSign]

theorem tot_star_cls {α : Type} (n : Nat) (ic neg its) (k : List Char → Option α) (hk : Tot k) :
    Tot (fun s => mK n (.star (.cls ic neg its)) s k) := by
  intro s; simp only [mK_star_cls n ic neg its s k hk]; exact hk _

theorem tot_opt_cls {α : Type} (n : Nat) (ic neg its) (k : List Char → Option α) (hk : Tot k) :
    Tot (fun s => mK n (.opt (.cls ic neg its)) s k) := by
  intro s; simp only [mK_opt_cls n ic neg its s k hk]
  cases s with
  | nil => exact hk _
  | cons c r => dsimp only; split <;> exact hk _

theorem dropWhile_head_not (p : Char → Bool) (l : List Char) (d : Char) (r : List Char)
    (h : l.dropWhile p = d :: r) : p d = false := by
  have := List.head?_dropWhile_not p l
  simpa [h] using this

/-! ### `scanLit` by cases on the head of the text -/

theorem scanLit_nil : scanLit [] = none := by simp [scanLit]

theorem scanLit_digit_dot {c : Char} {r r2 : List Char} (hd : c.isDigit = true)
    (h1 : r.dropWhile Char.isDigit = '.' :: r2) :
    scanLit (c :: r) = some (⟨digitsVal ((c :: r.takeWhile Char.isDigit) ++ r2.takeWhile Char.isDigit),
      10 ^ (r2.takeWhile Char.isDigit).length⟩, r2.dropWhile Char.isDigit) := by
  unfold scanLit
  simp only [List.takeWhile_cons, List.dropWhile_cons, hd, if_true, h1]
  simp

theorem scanLit_digit_other {c : Char} {r r1 : List Char} (hd : c.isDigit = true)
    (h1 : r.dropWhile Char.isDigit = r1) (hn : ∀ r2, r1 ≠ '.' :: r2) :
    scanLit (c :: r) = some (⟨digitsVal (c :: r.takeWhile Char.isDigit), 1⟩, r1) := by
  unfold scanLit
  simp only [List.takeWhile_cons, List.dropWhile_cons, hd, if_true, h1]
  cases r1 with
  | nil => simp
  | cons d r2 =>
    have hd2 : d ≠ '.' := fun h => hn r2 (by rw [h])
    split
    · rename_i heq; simp at heq; first | exact absurd heq.1 hd2 | skip
    · simp

theorem scanLit_dot {r : List Char} :
    scanLit ('.' :: r) = if (r.takeWhile Char.isDigit).isEmpty then none
      else some (⟨digitsVal (r.takeWhile Char.isDigit), 10 ^ (r.takeWhile Char.isDigit).length⟩, r.dropWhile Char.isDigit) := by
  unfold scanLit
  have : Char.isDigit '.' = false := by decide
  simp only [List.takeWhile_cons, List.dropWhile_cons, this]
  simp

theorem scanLit_other {c : Char} {r : List Char} (hd : c.isDigit = false) (hdot : c ≠ '.') :
    scanLit (c :: r) = none := by
  unfold scanLit
  simp only [List.takeWhile_cons, List.dropWhile_cons, hd]
  split
  · rename_i r2 heq; simp at heq; exact absurd heq.1 hdot
  · simp

/-- the numeric literal `\d+\.?\d*|\.\d+` before a continuation that cannot fail is `scanLit` -/
theorem mK_lit {α : Type} (n : Nat) (s : List Char) (k : List Char → Option α) (hk : Tot k) :
    mK n lit s k = (scanLit s).bind (fun p => k p.2) := by
  have hk2 : Tot (fun s'' => mK n (.star D) s'' k) := tot_star_cls n _ _ _ k hk
  have hk1 : Tot (fun s' => mK n (.opt dot) s' (fun s'' => mK n (.star D) s'' k)) := tot_opt_cls n _ _ _ _ hk2
  unfold lit
  rw [mK_alt, mK_seq, mK_seq]
  simp only [mK_seq]
  unfold D dot at *
  rw [mK_plus_cls n _ _ _ s _ hk1]
  cases s with
  | nil => simp [mK, scanLit]
  | cons c r =>
    simp only [cls_digit]
    by_cases hd : c.isDigit = true
    · simp only [hd, if_true]
      rw [orElse_of_isSome (hk1 _)]
      dsimp only
      rw [mK_opt_cls n _ _ _ _ _ hk2]
      cases h1 : r.dropWhile Char.isDigit with
      | nil =>
        rw [scanLit_digit_other hd h1 (by intro r2; simp)]
        simp [mK_star_cls n _ _ _ _ k hk]
      | cons d r2 =>
        have hdn := dropWhile_head_not _ _ _ _ h1
        by_cases hdot : d = '.'
        · subst hdot
          rw [scanLit_digit_dot hd h1]
          simp [cls_dot, mK_star_cls n _ _ _ _ k hk, cls_digit]
        · rw [scanLit_digit_other hd h1 (by intro r3 h; simp at h; exact hdot h.1)]
          simp only [cls_dot, hdot, decide_false, Bool.false_eq_true, if_false]
          rw [mK_star_cls n _ _ _ _ k hk, cls_digit]
          simp [hdn]
    · have hd' : c.isDigit = false := by simpa using hd
      simp only [hd', Bool.false_eq_true, if_false, Option.orElse_none]
      rw [mK_cls_cons, cls_dot]
      by_cases hdot : c = '.'
      · subst hdot
        simp only [decide_true, if_true]
        rw [mK_plus_cls n _ _ _ _ k hk, scanLit_dot, cls_digit]
        cases r with
        | nil => simp
        | cons d r' =>
          by_cases hdd : d.isDigit = true
          · simp [hdd]
          · simp [hdd]
      · simp [hdot, scanLit_other hd' hdot]

/-! ### the constant pattern `[+-]?(lit)(/(lit))?` -/

/-- after a literal: an optional `/ literal`; when no literal follows the `/`, the `/` is not consumed -/
def slashTail (r : List Char) : List Char :=
  match r with
  | [] => []
  | c :: r' => if c = '/' then (match scanLit r' with | some p => p.2 | none => c :: r') else c :: r'

/-- optional sign taken off -/
def unsign (s : List Char) : List Char :=
  match s with
  | [] => []
  | c :: r => if isSign c then r else c :: r

/-- the text left by one signed number or quotient at the head of `s`; `none`: no number there -/
def constRest (s : List Char) : Option (List Char) := (scanLit (unsign s)).map (fun p => slashTail p.2)

theorem orElse_some_isSome {α : Type} (a : Option α) (b : α) : (a.orElse (fun _ => some b)).isSome = true := by
  cases a <;> rfl

theorem mK_slashTail (n : Nat) (r : List Char) :
    mK n (.opt (.seq slash lit)) r some = some (slashTail r) := by
  rw [mK_opt, mK_seq]
  unfold slash
  cases r with
  | nil => simp [mK, slashTail]
  | cons c r' =>
    rw [mK_cls_cons, cls_slash]
    by_cases hc : c = '/'
    · subst hc
      simp only [decide_true, if_true]
      rw [mK_lit n r' some (fun _ => rfl)]
      cases h : scanLit r' with
      | none => simp [slashTail, h]
      | some p => simp [slashTail, h]
    · simp [hc, slashTail]

theorem scanLit_sign {c : Char} (r : List Char) (hc : isSign c = true) : scanLit (c :: r) = none := by
  simp only [isSign, Bool.or_eq_true, decide_eq_true_eq] at hc
  rcases hc with rfl | rfl
  · exact scanLit_other (by decide) (by decide)
  · exact scanLit_other (by decide) (by decide)

/-- **the constant pattern is the literal grammar**: on every text, what `_rx_symop_constant.match` consumes is an
optional sign, a literal of `scanLit`, and `/` with a second literal when one follows -/
theorem matchRest_rxConst (n : Nat) (s : List Char) : matchRest rxConst n s = constRest s := by
  unfold matchRest rxConst
  rw [mK_seq, mK_opt]
  simp only [mK_seq]
  have hk2 : Tot (fun r => mK n (.opt (.seq slash lit)) r some) := by
    intro r; show (mK n (.opt (.seq slash lit)) r some).isSome = true; rw [mK_slashTail]; rfl
  have hk1 : ∀ s', mK n lit s' (fun r => mK n (.opt (.seq slash lit)) r some) = (scanLit s').map (fun p => slashTail p.2) := by
    intro s'
    rw [mK_lit n s' _ hk2]
    cases scanLit s' with
    | none => rfl
    | some p => simp [mK_slashTail]
  simp only [hk1]
  unfold sign constRest
  cases s with
  | nil => simp [mK, unsign]
  | cons c r =>
    rw [mK_cls_cons, cls_sign]
    by_cases hc : isSign c = true
    · simp [hc, unsign, scanLit_sign r hc]
    · simp [hc, unsign]

/-- what the model's quotient scanner consumes is what the constant pattern consumes -/
theorem scanQuot_rest {s r : List Char} {v : Frac} (h : scanQuot s = some (v, r)) :
    (scanLit s).map (fun p => slashTail p.2) = some r := by
  unfold scanQuot at h
  cases hs : scanLit s with
  | none => simp [hs] at h
  | some p =>
    obtain ⟨a, r1⟩ := p
    simp only [hs] at h
    cases r1 with
    | nil => simp at h; simp [slashTail, h.2]
    | cons c r' =>
      by_cases hc : c = '/'
      · subst hc
        simp only at h
        cases hb : scanLit r' with
        | none => simp [hb] at h
        | some q =>
          obtain ⟨b, r2⟩ := q
          simp only [hb] at h
          split at h
          · cases h
          · simp at h; simp [slashTail, hb, h.2]
      · split at h
        · rename_i heq; simp at heq; exact absurd heq.1 hc
        · simp at h; obtain ⟨_, h2⟩ := h; subst h2; simp [slashTail, hc]

/-! ### the variable-term pattern `(?i)[+-]?[xyz]` -/

def rxVar : Re := .seq (.opt (.cls true false [.chr '+', .chr '-'])) (.cls true false [.chr 'x', .chr 'y', .chr 'z'])

def isAxisCI (c : Char) : Bool := clsHas true false [.chr 'x', .chr 'y', .chr 'z'] c
def isSignCI (c : Char) : Bool := clsHas true false [.chr '+', .chr '-'] c

/-- on ASCII the case-insensitive classes are the model's: a sign, resp. a letter whose lower case is an axis name -/
theorem isAxisCI_ascii : ∀ n : Fin 128, isAxisCI (Char.ofNat n) = (axisOf (Char.ofNat n).toLower).isSome := by decide
theorem isSignCI_ascii : ∀ n : Fin 128, isSignCI (Char.ofNat n) = isSign (Char.ofNat n) := by decide

theorem isAxisCI_eq {c : Char} (h : c.toNat < 128) : isAxisCI c = (axisOf c.toLower).isSome := by
  have := isAxisCI_ascii ⟨c.toNat, h⟩
  simpa using this
theorem isSignCI_eq {c : Char} (h : c.toNat < 128) : isSignCI c = isSign c := by
  have := isSignCI_ascii ⟨c.toNat, h⟩
  simpa using this

/-- one variable term at the head of the text: an axis letter, or a sign directly followed by one -/
def varRest (s : List Char) : Option (List Char) :=
  match s with
  | [] => none
  | c :: r =>
    if isSignCI c then
      match r with
      | d :: r' => if isAxisCI d then some r' else if isAxisCI c then some r else none
      | [] => if isAxisCI c then some r else none
    else if isAxisCI c then some r else none

theorem matchRest_rxVar (n : Nat) (s : List Char) : matchRest rxVar n s = varRest s := by
  unfold matchRest rxVar varRest isSignCI isAxisCI
  rw [mK_seq, mK_opt]
  cases s with
  | nil => simp [mK]
  | cons c r =>
    rw [mK_cls_cons, mK_cls_cons]
    by_cases hs : clsHas true false [.chr '+', .chr '-'] c = true
    · simp only [hs, if_true]
      cases r with
      | nil => simp [mK]
      | cons d r' =>
        rw [mK_cls_cons]
        by_cases hd : clsHas true false [.chr 'x', .chr 'y', .chr 'z'] d = true
        · simp [hd]
        · simp [hd]
    · simp [hs]

end DS.Rx

namespace DS.SymText
/-! ### exact fractions under `add`: the laws that make the two summation orders (source: running total from the
left, per piece; model: `rowConst` from the right) the same value *and* the same representation -/

theorem Frac.zero_add (a : Frac) : Frac.zero.add a = a := by
  cases a; simp [Frac.add, Frac.zero]

theorem Frac.add_zero (a : Frac) : a.add Frac.zero = a := by
  cases a; simp [Frac.add, Frac.zero]

theorem Frac.add_assoc (a b c : Frac) : (a.add b).add c = a.add (b.add c) := by
  cases a; cases b; cases c
  simp only [Frac.add, Frac.mk.injEq, Int.natCast_mul]
  constructor
  · grind
  · exact Nat.mul_assoc _ _ _

theorem addVec_zero_left (v : Int × Int × Int) : addVec (0, 0, 0) v = v := by
  simp [addVec]

theorem addVec_assoc (a b c : Int × Int × Int) : addVec (addVec a b) c = addVec a (addVec b c) := by
  simp [addVec, Int.add_assoc]

end DS.SymText
