import DS.Model.Lattice
import DS.Lemmas.RealElem

set_option linter.unusedSectionVars false

namespace DS
namespace Lattice
section generic
variable {α : Type} [Add α] [Mul α] [Sub α] [Neg α] [Div α] [OfNat α 0] [OfNat α 1] [OfNat α 2]
  [OfNat α 3] [OfNat α 90] [Max α] [Min α] [Elem α]

/-- lines 344–374: everything is recomputed from the seven stored values -/
theorem refresh_eq (L : Lattice α) :
    L.refresh = ofPar L.a L.b L.c L.alpha L.beta L.gamma L.baserot := rfl

theorem assignArgs_fields (L : Lattice α) (p : ParArgs α) :
    (L.assignArgs p).a = p.a.getD L.a ∧ (L.assignArgs p).b = p.b.getD L.b ∧ (L.assignArgs p).c = p.c.getD L.c ∧
    (L.assignArgs p).alpha = p.alpha.getD L.alpha ∧ (L.assignArgs p).beta = p.beta.getD L.beta ∧
    (L.assignArgs p).gamma = p.gamma.getD L.gamma ∧ (L.assignArgs p).baserot = p.baserot.getD L.baserot := by
  obtain ⟨pa, pb, pc, pal, pbe, pga, prot⟩ := p
  cases pa <;> cases pb <;> cases pc <;> cases pal <;> cases pbe <;> cases pga <;> cases prot <;>
    simp [assignArgs]

/-- `setLatPar` refreshes every cached attribute: the result is the lattice built from the updated
seven stored values, nothing else of the previous state survives. -/
theorem setLatPar_eq (L : Lattice α) (p : ParArgs α) :
    L.setLatPar p = ofPar (p.a.getD L.a) (p.b.getD L.b) (p.c.getD L.c) (p.alpha.getD L.alpha)
      (p.beta.getD L.beta) (p.gamma.getD L.gamma) (p.baserot.getD L.baserot) := by
  obtain ⟨h1, h2, h3, h4, h5, h6, h7⟩ := assignArgs_fields L p
  rw [setLatPar, refresh_eq, h1, h2, h3, h4, h5, h6, h7]

/-- `setLatBase` refreshes every cached attribute: the result does not depend on the previous state. -/
theorem setLatBase_eq (L : Lattice α) (B : Mat3 α) : L.setLatBase B = ofBase B := rfl

end generic

/-! ### over ℝ -/
section real
open Real

@[simp] theorem elem_sqrt (x : ℝ) : (Elem.sqrt x : ℝ) = Real.sqrt x := rfl
@[simp] theorem elem_cosd (x : ℝ) : (Elem.cosd x : ℝ) = Real.cos (x * π / 180) := rfl
@[simp] theorem elem_sind (x : ℝ) : (Elem.sind x : ℝ) = Real.sin (x * π / 180) := rfl
@[simp] theorem elem_acosd (x : ℝ) : (Elem.acosd x : ℝ) = Real.arccos x * 180 / π := rfl

structure ValidCS (p : CellCS ℝ) : Prop where
  a_pos : 0 < p.a
  b_pos : 0 < p.b
  c_pos : 0 < p.c
  ha : p.sa * p.sa + p.ca * p.ca = 1
  hb : p.sb * p.sb + p.cb * p.cb = 1
  hg : p.sg * p.sg + p.cg * p.cg = 1
  sa_pos : 0 < p.sa
  sb_pos : 0 < p.sb
  sg_pos : 0 < p.sg
  hV : p.V * p.V = 1 + 2 * p.ca * p.cb * p.cg - p.ca * p.ca - p.cb * p.cb - p.cg * p.cg
  V_pos : 0 < p.V

theorem sgr_eq {p : CellCS ℝ} (h : ValidCS p) :
    Real.sqrt (1 - (p.ca * p.cb - p.cg) / (p.sa * p.sb) * ((p.ca * p.cb - p.cg) / (p.sa * p.sb))) = p.V / (p.sa * p.sb) := by
  have hsa := h.sa_pos.ne'
  have hsb := h.sb_pos.ne'
  have key : 1 - (p.ca * p.cb - p.cg) / (p.sa * p.sb) * ((p.ca * p.cb - p.cg) / (p.sa * p.sb)) = (p.V / (p.sa * p.sb)) ^ 2 := by
    field_simp
    linear_combination (p.sb ^ 2) * h.ha + (1 - p.ca ^ 2) * h.hb - h.hV
  rw [key, Real.sqrt_sq]
  exact div_nonneg h.V_pos.le (mul_pos h.sa_pos h.sb_pos).le

/-- closed form of `stdbase` for valid data -/
noncomputable def S0 (p : CellCS ℝ) : Mat3 ℝ :=
  ⟨p.a * p.V / p.sa, p.a * (p.cg - p.ca * p.cb) / p.sa, p.cb * p.a, 0, p.b * p.sa, p.b * p.ca, 0, 0, p.c⟩

theorem stdbase_eq {p : CellCS ℝ} (h : ValidCS p) (orient : Mat3 ℝ → Mat3 ℝ × Mat3 ℝ) :
    (assemble p orient).stdbase = S0 p := by
  have hsa := h.sa_pos.ne'
  have hsb := h.sb_pos.ne'
  have ha := h.a_pos.ne'
  have hV := h.V_pos.ne'
  simp only [assemble, stdbaseOf, S0, elem_sqrt]
  rw [sgr_eq h]
  apply Mat3.ext' <;> simp only [] <;> field_simp <;> ring

theorem S0_gram {p : CellCS ℝ} (h : ValidCS p) :
    (S0 p).mul (S0 p).transpose = metricsOf p.a p.b p.c p.ca p.cb p.cg := by
  have hsa := h.sa_pos.ne'
  apply Mat3.ext' <;> simp only [S0, Mat3.mul, Mat3.transpose, metricsOf]
  · field_simp
    linear_combination (p.a ^ 2) * h.hV + (p.a ^ 2 * p.cb ^ 2 - p.a ^ 2) * h.ha
  · field_simp; ring
  · ring
  · field_simp; ring
  · linear_combination (p.b ^ 2) * h.ha
  · ring
  · ring
  · ring
  · ring

theorem S0_det (p : CellCS ℝ) (h : ValidCS p) : (S0 p).det = p.a * p.b * p.c * p.V := by
  have hsa := h.sa_pos.ne'
  simp only [S0, Mat3.det]; field_simp; ring

/-- proper rotation: `Q·Qᵀ = 1`, `det Q = 1` -/
structure IsRot (Q : Mat3 ℝ) : Prop where
  orth : Q.mul Q.transpose = Mat3.one
  det_one : Q.det = 1

/-- the hypotheses of the C01 theorems: valid cosine/sine/volume data and a proper rotation -/
structure Valid (p : CellCS ℝ) (Q : Mat3 ℝ) : Prop where
  cs : ValidCS p
  rot : IsRot Q

theorem isRot_one : IsRot Mat3.one := by
  constructor
  · apply Mat3.ext' <;> simp [Mat3.mul, Mat3.transpose, Mat3.one]
  · simp [Mat3.det, Mat3.one]

theorem ofCS_base {p : CellCS ℝ} (h : ValidCS p) (Q : Mat3 ℝ) : (ofCS p Q).base = (S0 p).mul Q := by
  have := stdbase_eq h (fun S => (Q, S.mul Q))
  simp only [ofCS] at *
  rw [← this]; rfl

theorem ofCS_stdbase {p : CellCS ℝ} (h : ValidCS p) (Q : Mat3 ℝ) : (ofCS p Q).stdbase = S0 p :=
  stdbase_eq h _

theorem ofCS_baserot (p : CellCS ℝ) (Q : Mat3 ℝ) : (ofCS p Q).baserot = Q := rfl
theorem ofCS_metrics (p : CellCS ℝ) (Q : Mat3 ℝ) :
    (ofCS p Q).metrics = metricsOf p.a p.b p.c p.ca p.cb p.cg := rfl
theorem ofCS_recbase (p : CellCS ℝ) (Q : Mat3 ℝ) : (ofCS p Q).recbase = (ofCS p Q).base.inv := rfl

/-- `metrics = base · baseᵀ` -/
theorem metrics_eq_gram {p : CellCS ℝ} {Q : Mat3 ℝ} (h : Valid p Q) :
    (ofCS p Q).metrics = (ofCS p Q).base.mul (ofCS p Q).base.transpose := by
  rw [ofCS_base h.cs, ofCS_metrics, Mat3.transpose_mul, Mat3.mul_assoc, ← Mat3.mul_assoc Q, h.rot.orth,
    Mat3.one_mul, S0_gram h.cs]

theorem base_det {p : CellCS ℝ} {Q : Mat3 ℝ} (h : Valid p Q) :
    (ofCS p Q).base.det = p.a * p.b * p.c * p.V := by
  rw [ofCS_base h.cs, Mat3.det_mul, S0_det p h.cs, h.rot.det_one, _root_.mul_one]

theorem base_det_pos {p : CellCS ℝ} {Q : Mat3 ℝ} (h : Valid p Q) : 0 < (ofCS p Q).base.det := by
  rw [base_det h]
  exact mul_pos (mul_pos (mul_pos h.cs.a_pos h.cs.b_pos) h.cs.c_pos) h.cs.V_pos

theorem base_mul_recbase {p : CellCS ℝ} {Q : Mat3 ℝ} (h : Valid p Q) :
    (ofCS p Q).base.mul (ofCS p Q).recbase = Mat3.one := by
  rw [ofCS_recbase]; exact Mat3.mul_inv (base_det_pos h).ne'

theorem recbase_mul_base {p : CellCS ℝ} {Q : Mat3 ℝ} (h : Valid p Q) :
    (ofCS p Q).recbase.mul (ofCS p Q).base = Mat3.one := by
  rw [ofCS_recbase]; exact Mat3.inv_mul (base_det_pos h).ne'

theorem frac_cart {p : CellCS ℝ} {Q : Mat3 ℝ} (h : Valid p Q) (u : Vec3 ℝ) :
    (ofCS p Q).fractional ((ofCS p Q).cartesian u) = u := by
  simp only [fractional, cartesian]
  rw [Mat3.vecMul_mul, base_mul_recbase h, Mat3.vecMul_one]

theorem cart_frac {p : CellCS ℝ} {Q : Mat3 ℝ} (h : Valid p Q) (r : Vec3 ℝ) :
    (ofCS p Q).cartesian ((ofCS p Q).fractional r) = r := by
  simp only [fractional, cartesian]
  rw [Mat3.vecMul_mul, recbase_mul_base h, Mat3.vecMul_one]

/-- pure algebra: `⟨u·B, v·B⟩ = u · (v · (B·Bᵀ))` -/
theorem dot_vecMul_gram (B : Mat3 ℝ) (u v : Vec3 ℝ) :
    Vec3.dot (Mat3.vecMul u B) (Mat3.vecMul v B) = Vec3.dot u (Mat3.vecMul v (B.mul B.transpose)) := by
  simp only [Vec3.dot, Mat3.vecMul, Mat3.mul, Mat3.transpose]; ring

/-- the lattice dot product is the Euclidean dot product of the Cartesian images -/
theorem dot_eq {p : CellCS ℝ} {Q : Mat3 ℝ} (h : Valid p Q) (u v : Vec3 ℝ) :
    (ofCS p Q).dot u v = Vec3.dot ((ofCS p Q).cartesian u) ((ofCS p Q).cartesian v) := by
  simp only [dot, cartesian]
  rw [dot_vecMul_gram, ← metrics_eq_gram h]

/-! #### norm, dist, angle -/

theorem vecMul_sub (u v : Vec3 ℝ) (B : Mat3 ℝ) :
    Mat3.vecMul (Vec3.sub u v) B = Vec3.sub (Mat3.vecMul u B) (Mat3.vecMul v B) := by
  simp only [Mat3.vecMul, Vec3.sub, Vec3.mk.injEq]; refine ⟨?_, ?_, ?_⟩ <;> ring

theorem dot_self_nonneg (x : Vec3 ℝ) : 0 ≤ Vec3.dot x x := by
  simp only [Vec3.dot]; nlinarith [mul_self_nonneg x.x, mul_self_nonneg x.y, mul_self_nonneg x.z]

/-- Cauchy–Schwarz in ℝ³ (Lagrange identity) -/
theorem cauchy_schwarz (x y : Vec3 ℝ) : (Vec3.dot x y) ^ 2 ≤ Vec3.dot x x * Vec3.dot y y := by
  simp only [Vec3.dot]
  nlinarith [sq_nonneg (x.x * y.y - x.y * y.x), sq_nonneg (x.x * y.z - x.z * y.x), sq_nonneg (x.y * y.z - x.z * y.y)]

/-- the clip of `angle` is the identity on `⟨x,y⟩ / (‖x‖‖y‖)` -/
theorem clip_cos (x y : Vec3 ℝ) :
    max (min (Vec3.dot x y / (Real.sqrt (Vec3.dot x x) * Real.sqrt (Vec3.dot y y))) 1) (-1)
      = Vec3.dot x y / (Real.sqrt (Vec3.dot x x) * Real.sqrt (Vec3.dot y y)) := by
  have hn : 0 ≤ Real.sqrt (Vec3.dot x x) * Real.sqrt (Vec3.dot y y) :=
    mul_nonneg (Real.sqrt_nonneg _) (Real.sqrt_nonneg _)
  have habs : |Vec3.dot x y| ≤ Real.sqrt (Vec3.dot x x) * Real.sqrt (Vec3.dot y y) := by
    rw [← Real.sqrt_mul (dot_self_nonneg x)]
    exact Real.abs_le_sqrt (cauchy_schwarz x y)
  have h1 : |Vec3.dot x y / (Real.sqrt (Vec3.dot x x) * Real.sqrt (Vec3.dot y y))| ≤ 1 := by
    rw [abs_div, abs_of_nonneg hn]
    exact div_le_one_of_le₀ habs hn
  obtain ⟨hlo, hhi⟩ := abs_le.mp h1
  rw [min_eq_left hhi, max_eq_left hlo]

theorem norm_eq (L : Lattice ℝ) (u : Vec3 ℝ) :
    L.norm u = Real.sqrt (Vec3.dot (L.cartesian u) (L.cartesian u)) := rfl

/-- `norm` (computed through `base`) agrees with the metric tensor: `‖u‖² = u·G·u` -/
theorem norm_sq {p : CellCS ℝ} {Q : Mat3 ℝ} (h : Valid p Q) (u : Vec3 ℝ) :
    (ofCS p Q).norm u ^ 2 = (ofCS p Q).dot u u := by
  rw [norm_eq, Real.sq_sqrt (dot_self_nonneg _), dot_eq h]

theorem dist_eq (L : Lattice ℝ) (u v : Vec3 ℝ) :
    L.dist u v = Real.sqrt (Vec3.dot (Vec3.sub (L.cartesian u) (L.cartesian v)) (Vec3.sub (L.cartesian u) (L.cartesian v))) := by
  simp only [dist, norm, cartesian, vecMul_sub, elem_sqrt]

/-- `angle` is the Euclidean angle of the Cartesian images (the clip to [−1, 1] is the identity) -/
theorem angle_eq {p : CellCS ℝ} {Q : Mat3 ℝ} (h : Valid p Q) (u v : Vec3 ℝ) :
    (ofCS p Q).angle u v =
      Real.arccos (Vec3.dot ((ofCS p Q).cartesian u) ((ofCS p Q).cartesian v) /
        (Real.sqrt (Vec3.dot ((ofCS p Q).cartesian u) ((ofCS p Q).cartesian u)) *
         Real.sqrt (Vec3.dot ((ofCS p Q).cartesian v) ((ofCS p Q).cartesian v)))) * 180 / π := by
  simp only [angle, elem_acosd]
  rw [dot_eq h, norm_eq, norm_eq, clip_cos]

/-! #### the base vectors have exactly the lengths and angles given -/

theorem gram_entries (B : Mat3 ℝ) :
    (B.mul B.transpose).a11 = Vec3.dot B.row1 B.row1 ∧ (B.mul B.transpose).a22 = Vec3.dot B.row2 B.row2 ∧
    (B.mul B.transpose).a33 = Vec3.dot B.row3 B.row3 ∧ (B.mul B.transpose).a23 = Vec3.dot B.row2 B.row3 ∧
    (B.mul B.transpose).a13 = Vec3.dot B.row1 B.row3 ∧ (B.mul B.transpose).a12 = Vec3.dot B.row1 B.row2 :=
  ⟨rfl, rfl, rfl, rfl, rfl, rfl⟩

theorem row_dots {p : CellCS ℝ} {Q : Mat3 ℝ} (h : Valid p Q) :
    let B := (ofCS p Q).base
    Vec3.dot B.row1 B.row1 = p.a * p.a ∧ Vec3.dot B.row2 B.row2 = p.b * p.b ∧ Vec3.dot B.row3 B.row3 = p.c * p.c ∧
    Vec3.dot B.row2 B.row3 = p.b * p.c * p.ca ∧ Vec3.dot B.row1 B.row3 = p.a * p.c * p.cb ∧
    Vec3.dot B.row1 B.row2 = p.a * p.b * p.cg := by
  intro B
  have hm := metrics_eq_gram h
  rw [ofCS_metrics] at hm
  obtain ⟨g11, g22, g33, g23, g13, g12⟩ := gram_entries B
  refine ⟨?_, ?_, ?_, ?_, ?_, ?_⟩
  · rw [← g11]; exact (congrArg Mat3.a11 hm).symm
  · rw [← g22]; exact (congrArg Mat3.a22 hm).symm
  · rw [← g33]; exact (congrArg Mat3.a33 hm).symm
  · rw [← g23]; exact (congrArg Mat3.a23 hm).symm
  · rw [← g13]; exact (congrArg Mat3.a13 hm).symm
  · rw [← g12]; exact (congrArg Mat3.a12 hm).symm

theorem row_norms {p : CellCS ℝ} {Q : Mat3 ℝ} (h : Valid p Q) :
    let B := (ofCS p Q).base
    Real.sqrt (Vec3.dot B.row1 B.row1) = p.a ∧ Real.sqrt (Vec3.dot B.row2 B.row2) = p.b ∧
    Real.sqrt (Vec3.dot B.row3 B.row3) = p.c := by
  intro B
  obtain ⟨h1, h2, h3, -, -, -⟩ := row_dots h
  exact ⟨by rw [h1, Real.sqrt_mul_self h.cs.a_pos.le], by rw [h2, Real.sqrt_mul_self h.cs.b_pos.le],
    by rw [h3, Real.sqrt_mul_self h.cs.c_pos.le]⟩

/-! #### reciprocal vectors -/

theorem dot_recip_pair (R B : Mat3 ℝ) (hkl u : Vec3 ℝ) :
    Vec3.dot (Mat3.vecMul hkl R.transpose) (Mat3.vecMul u B) = Vec3.dot hkl (Mat3.vecMul u (B.mul R)) := by
  simp only [Vec3.dot, Mat3.vecMul, Mat3.mul, Mat3.transpose]; ring

/-- the Cartesian reciprocal vector `h* = hkl · recbaseᵀ` pairs with direct-space vectors as `h*·cart u = hkl·u` -/
theorem recip_pairing {p : CellCS ℝ} {Q : Mat3 ℝ} (h : Valid p Q) (hkl u : Vec3 ℝ) :
    Vec3.dot (Mat3.vecMul hkl (ofCS p Q).recbase.transpose) ((ofCS p Q).cartesian u) = Vec3.dot hkl u := by
  rw [cartesian, dot_recip_pair, base_mul_recbase h, Mat3.vecMul_one]

theorem rnorm_eq (L : Lattice ℝ) (hkl : Vec3 ℝ) :
    L.rnorm hkl = Real.sqrt (Vec3.dot (Mat3.vecMul hkl L.recbase.transpose) (Mat3.vecMul hkl L.recbase.transpose)) := rfl

end real
end Lattice
end DS
