import DS.Model.Lattice
import DS.Lemmas.RealElem

set_option linter.unusedSectionVars false

namespace DS
namespace Lattice
section generic
variable {α : Type} [Add α] [Mul α] [Sub α] [Neg α] [Div α] [OfNat α 0] [OfNat α 1] [OfNat α 2]
  [OfNat α 3] [OfNat α 90] [Max α] [Min α] [Elem α]

/-- lines 344–374: everything is recomputed from the seven stored values -/
theorem refresh_eq (L : Lattice α) :
    L.refresh = ofPar L.a L.b L.c L.alpha L.beta L.gamma L.baserot := rfl

theorem assignArgs_fields (L : Lattice α) (p : ParArgs α) :
    (L.assignArgs p).a = p.a.getD L.a ∧ (L.assignArgs p).b = p.b.getD L.b ∧ (L.assignArgs p).c = p.c.getD L.c ∧
    (L.assignArgs p).alpha = p.alpha.getD L.alpha ∧ (L.assignArgs p).beta = p.beta.getD L.beta ∧
    (L.assignArgs p).gamma = p.gamma.getD L.gamma ∧ (L.assignArgs p).baserot = p.baserot.getD L.baserot := by
  obtain ⟨pa, pb, pc, pal, pbe, pga, prot⟩ := p
  cases pa <;> cases pb <;> cases pc <;> cases pal <;> cases pbe <;> cases pga <;> cases prot <;>
    simp [assignArgs]

/-- `setLatPar` refreshes every cached attribute: the result is the lattice built from the updated
seven stored values, nothing else of the previous state survives. -/
theorem setLatPar_eq (L : Lattice α) (p : ParArgs α) :
    L.setLatPar p = ofPar (p.a.getD L.a) (p.b.getD L.b) (p.c.getD L.c) (p.alpha.getD L.alpha)
      (p.beta.getD L.beta) (p.gamma.getD L.gamma) (p.baserot.getD L.baserot) := by
  obtain ⟨h1, h2, h3, h4, h5, h6, h7⟩ := assignArgs_fields L p
  rw [setLatPar, refresh_eq, h1, h2, h3, h4, h5, h6, h7]

/-- `setLatBase` refreshes every cached attribute: the result does not depend on the previous state. -/
theorem setLatBase_eq (L : Lattice α) (B : Mat3 α) : L.setLatBase B = ofBase B := rfl

end generic
end Lattice
end DS
