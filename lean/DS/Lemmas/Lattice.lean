import DS.Model.Lattice
import DS.Lemmas.RealElem
import Mathlib.Tactic.Positivity

set_option linter.unusedSectionVars false

namespace DS
namespace Lattice
section generic
variable {α : Type} [Add α] [Mul α] [Sub α] [Neg α] [Div α] [OfNat α 0] [OfNat α 1] [OfNat α 2]
  [OfNat α 3] [OfNat α 90] [Max α] [Min α] [Elem α]

/-- lines 344–374: everything is recomputed from the seven stored values -/
theorem refresh_eq (L : Lattice α) :
    L.refresh = ofPar L.a L.b L.c L.alpha L.beta L.gamma L.baserot := rfl

theorem assignArgs_fields (L : Lattice α) (p : ParArgs α) :
    (L.assignArgs p).a = p.a.getD L.a ∧ (L.assignArgs p).b = p.b.getD L.b ∧ (L.assignArgs p).c = p.c.getD L.c ∧
    (L.assignArgs p).alpha = p.alpha.getD L.alpha ∧ (L.assignArgs p).beta = p.beta.getD L.beta ∧
    (L.assignArgs p).gamma = p.gamma.getD L.gamma ∧ (L.assignArgs p).baserot = p.baserot.getD L.baserot := by
  obtain ⟨pa, pb, pc, pal, pbe, pga, prot⟩ := p
  cases pa <;> cases pb <;> cases pc <;> cases pal <;> cases pbe <;> cases pga <;> cases prot <;>
    simp [assignArgs]

/-- `setLatPar` refreshes every cached attribute: the result is the lattice built from the updated
seven stored values, nothing else of the previous state survives. -/
theorem setLatPar_eq (L : Lattice α) (p : ParArgs α) :
    L.setLatPar p = ofPar (p.a.getD L.a) (p.b.getD L.b) (p.c.getD L.c) (p.alpha.getD L.alpha)
      (p.beta.getD L.beta) (p.gamma.getD L.gamma) (p.baserot.getD L.baserot) := by
  obtain ⟨h1, h2, h3, h4, h5, h6, h7⟩ := assignArgs_fields L p
  rw [setLatPar, refresh_eq, h1, h2, h3, h4, h5, h6, h7]

/-- `setLatBase` refreshes every cached attribute: the result does not depend on the previous state. -/
theorem setLatBase_eq (L : Lattice α) (B : Mat3 α) : L.setLatBase B = ofBase B := rfl

end generic

/-! ### over ℝ -/
section real
open Real

@[simp] theorem elem_sqrt (x : ℝ) : (Elem.sqrt x : ℝ) = Real.sqrt x := rfl
@[simp] theorem elem_cosd (x : ℝ) : (Elem.cosd x : ℝ) = Real.cos (x * π / 180) := rfl
@[simp] theorem elem_sind (x : ℝ) : (Elem.sind x : ℝ) = Real.sin (x * π / 180) := rfl
@[simp] theorem elem_acosd (x : ℝ) : (Elem.acosd x : ℝ) = Real.arccos x * 180 / π := rfl

structure ValidCS (p : CellCS ℝ) : Prop where
  a_pos : 0 < p.a
  b_pos : 0 < p.b
  c_pos : 0 < p.c
  ha : p.sa * p.sa + p.ca * p.ca = 1
  hb : p.sb * p.sb + p.cb * p.cb = 1
  hg : p.sg * p.sg + p.cg * p.cg = 1
  sa_pos : 0 < p.sa
  sb_pos : 0 < p.sb
  sg_pos : 0 < p.sg
  hV : p.V * p.V = 1 + 2 * p.ca * p.cb * p.cg - p.ca * p.ca - p.cb * p.cb - p.cg * p.cg
  V_pos : 0 < p.V

theorem sgr_eq {p : CellCS ℝ} (h : ValidCS p) :
    Real.sqrt (1 - (p.ca * p.cb - p.cg) / (p.sa * p.sb) * ((p.ca * p.cb - p.cg) / (p.sa * p.sb))) = p.V / (p.sa * p.sb) := by
  have hsa := h.sa_pos.ne'
  have hsb := h.sb_pos.ne'
  have key : 1 - (p.ca * p.cb - p.cg) / (p.sa * p.sb) * ((p.ca * p.cb - p.cg) / (p.sa * p.sb)) = (p.V / (p.sa * p.sb)) ^ 2 := by
    field_simp
    linear_combination (p.sb ^ 2) * h.ha + (1 - p.ca ^ 2) * h.hb - h.hV
  rw [key, Real.sqrt_sq]
  exact div_nonneg h.V_pos.le (mul_pos h.sa_pos h.sb_pos).le

/-- closed form of `stdbase` for valid data -/
noncomputable def S0 (p : CellCS ℝ) : Mat3 ℝ :=
  ⟨p.a * p.V / p.sa, p.a * (p.cg - p.ca * p.cb) / p.sa, p.cb * p.a, 0, p.b * p.sa, p.b * p.ca, 0, 0, p.c⟩

theorem stdbase_eq {p : CellCS ℝ} (h : ValidCS p) (orient : Mat3 ℝ → Mat3 ℝ × Mat3 ℝ) :
    (assemble p orient).stdbase = S0 p := by
  have hsa := h.sa_pos.ne'
  have hsb := h.sb_pos.ne'
  have ha := h.a_pos.ne'
  have hV := h.V_pos.ne'
  simp only [assemble, stdbaseOf, S0, elem_sqrt]
  rw [sgr_eq h]
  apply Mat3.ext' <;> simp only [] <;> field_simp <;> ring

theorem S0_gram {p : CellCS ℝ} (h : ValidCS p) :
    (S0 p).mul (S0 p).transpose = metricsOf p.a p.b p.c p.ca p.cb p.cg := by
  have hsa := h.sa_pos.ne'
  apply Mat3.ext' <;> simp only [S0, Mat3.mul, Mat3.transpose, metricsOf]
  · field_simp
    linear_combination (p.a ^ 2) * h.hV + (p.a ^ 2 * p.cb ^ 2 - p.a ^ 2) * h.ha
  · field_simp; ring
  · ring
  · field_simp; ring
  · linear_combination (p.b ^ 2) * h.ha
  · ring
  · ring
  · ring
  · ring

theorem S0_det (p : CellCS ℝ) (h : ValidCS p) : (S0 p).det = p.a * p.b * p.c * p.V := by
  have hsa := h.sa_pos.ne'
  simp only [S0, Mat3.det]; field_simp; ring

/-- proper rotation: `Q·Qᵀ = 1`, `det Q = 1` -/
structure IsRot (Q : Mat3 ℝ) : Prop where
  orth : Q.mul Q.transpose = Mat3.one
  det_one : Q.det = 1

/-- the hypotheses of the C01 theorems: valid cosine/sine/volume data and a proper rotation -/
structure Valid (p : CellCS ℝ) (Q : Mat3 ℝ) : Prop where
  cs : ValidCS p
  rot : IsRot Q

theorem isRot_one : IsRot Mat3.one := by
  constructor
  · apply Mat3.ext' <;> simp [Mat3.mul, Mat3.transpose, Mat3.one]
  · simp [Mat3.det, Mat3.one]

theorem ofCS_base {p : CellCS ℝ} (h : ValidCS p) (Q : Mat3 ℝ) : (ofCS p Q).base = (S0 p).mul Q := by
  have := stdbase_eq h (fun S => (Q, S.mul Q))
  simp only [ofCS] at *
  rw [← this]; rfl

theorem ofCS_stdbase {p : CellCS ℝ} (h : ValidCS p) (Q : Mat3 ℝ) : (ofCS p Q).stdbase = S0 p :=
  stdbase_eq h _

theorem ofCS_baserot (p : CellCS ℝ) (Q : Mat3 ℝ) : (ofCS p Q).baserot = Q := rfl
theorem ofCS_metrics (p : CellCS ℝ) (Q : Mat3 ℝ) :
    (ofCS p Q).metrics = metricsOf p.a p.b p.c p.ca p.cb p.cg := rfl
theorem ofCS_recbase (p : CellCS ℝ) (Q : Mat3 ℝ) : (ofCS p Q).recbase = (ofCS p Q).base.inv := rfl

/-- `metrics = base · baseᵀ` -/
theorem metrics_eq_gram {p : CellCS ℝ} {Q : Mat3 ℝ} (h : Valid p Q) :
    (ofCS p Q).metrics = (ofCS p Q).base.mul (ofCS p Q).base.transpose := by
  rw [ofCS_base h.cs, ofCS_metrics, Mat3.transpose_mul, Mat3.mul_assoc, ← Mat3.mul_assoc Q, h.rot.orth,
    Mat3.one_mul, S0_gram h.cs]

theorem base_det {p : CellCS ℝ} {Q : Mat3 ℝ} (h : Valid p Q) :
    (ofCS p Q).base.det = p.a * p.b * p.c * p.V := by
  rw [ofCS_base h.cs, Mat3.det_mul, S0_det p h.cs, h.rot.det_one, _root_.mul_one]

theorem base_det_pos {p : CellCS ℝ} {Q : Mat3 ℝ} (h : Valid p Q) : 0 < (ofCS p Q).base.det := by
  rw [base_det h]
  exact mul_pos (mul_pos (mul_pos h.cs.a_pos h.cs.b_pos) h.cs.c_pos) h.cs.V_pos

theorem base_mul_recbase {p : CellCS ℝ} {Q : Mat3 ℝ} (h : Valid p Q) :
    (ofCS p Q).base.mul (ofCS p Q).recbase = Mat3.one := by
  rw [ofCS_recbase]; exact Mat3.mul_inv (base_det_pos h).ne'

theorem recbase_mul_base {p : CellCS ℝ} {Q : Mat3 ℝ} (h : Valid p Q) :
    (ofCS p Q).recbase.mul (ofCS p Q).base = Mat3.one := by
  rw [ofCS_recbase]; exact Mat3.inv_mul (base_det_pos h).ne'

theorem frac_cart {p : CellCS ℝ} {Q : Mat3 ℝ} (h : Valid p Q) (u : Vec3 ℝ) :
    (ofCS p Q).fractional ((ofCS p Q).cartesian u) = u := by
  simp only [fractional, cartesian]
  rw [Mat3.vecMul_mul, base_mul_recbase h, Mat3.vecMul_one]

theorem cart_frac {p : CellCS ℝ} {Q : Mat3 ℝ} (h : Valid p Q) (r : Vec3 ℝ) :
    (ofCS p Q).cartesian ((ofCS p Q).fractional r) = r := by
  simp only [fractional, cartesian]
  rw [Mat3.vecMul_mul, recbase_mul_base h, Mat3.vecMul_one]

/-- pure algebra: `⟨u·B, v·B⟩ = u · (v · (B·Bᵀ))` -/
theorem dot_vecMul_gram (B : Mat3 ℝ) (u v : Vec3 ℝ) :
    Vec3.dot (Mat3.vecMul u B) (Mat3.vecMul v B) = Vec3.dot u (Mat3.vecMul v (B.mul B.transpose)) := by
  simp only [Vec3.dot, Mat3.vecMul, Mat3.mul, Mat3.transpose]; ring

/-- the lattice dot product is the Euclidean dot product of the Cartesian images -/
theorem dot_eq {p : CellCS ℝ} {Q : Mat3 ℝ} (h : Valid p Q) (u v : Vec3 ℝ) :
    (ofCS p Q).dot u v = Vec3.dot ((ofCS p Q).cartesian u) ((ofCS p Q).cartesian v) := by
  simp only [dot, cartesian]
  rw [dot_vecMul_gram, ← metrics_eq_gram h]

/-! #### norm, dist, angle -/

theorem vecMul_sub (u v : Vec3 ℝ) (B : Mat3 ℝ) :
    Mat3.vecMul (Vec3.sub u v) B = Vec3.sub (Mat3.vecMul u B) (Mat3.vecMul v B) := by
  simp only [Mat3.vecMul, Vec3.sub, Vec3.mk.injEq]; refine ⟨?_, ?_, ?_⟩ <;> ring

theorem dot_self_nonneg (x : Vec3 ℝ) : 0 ≤ Vec3.dot x x := by
  simp only [Vec3.dot]; nlinarith [mul_self_nonneg x.x, mul_self_nonneg x.y, mul_self_nonneg x.z]

/-- Cauchy–Schwarz in ℝ³ (Lagrange identity) -/
theorem cauchy_schwarz (x y : Vec3 ℝ) : (Vec3.dot x y) ^ 2 ≤ Vec3.dot x x * Vec3.dot y y := by
  simp only [Vec3.dot]
  nlinarith [sq_nonneg (x.x * y.y - x.y * y.x), sq_nonneg (x.x * y.z - x.z * y.x), sq_nonneg (x.y * y.z - x.z * y.y)]

/-- the clip of `angle` is the identity on `⟨x,y⟩ / (‖x‖‖y‖)` -/
theorem clip_cos (x y : Vec3 ℝ) :
    max (min (Vec3.dot x y / (Real.sqrt (Vec3.dot x x) * Real.sqrt (Vec3.dot y y))) 1) (-1)
      = Vec3.dot x y / (Real.sqrt (Vec3.dot x x) * Real.sqrt (Vec3.dot y y)) := by
  have hn : 0 ≤ Real.sqrt (Vec3.dot x x) * Real.sqrt (Vec3.dot y y) :=
    mul_nonneg (Real.sqrt_nonneg _) (Real.sqrt_nonneg _)
  have habs : |Vec3.dot x y| ≤ Real.sqrt (Vec3.dot x x) * Real.sqrt (Vec3.dot y y) := by
    rw [← Real.sqrt_mul (dot_self_nonneg x)]
    exact Real.abs_le_sqrt (cauchy_schwarz x y)
  have h1 : |Vec3.dot x y / (Real.sqrt (Vec3.dot x x) * Real.sqrt (Vec3.dot y y))| ≤ 1 := by
    rw [abs_div, abs_of_nonneg hn]
    exact div_le_one_of_le₀ habs hn
  obtain ⟨hlo, hhi⟩ := abs_le.mp h1
  rw [min_eq_left hhi, max_eq_left hlo]

theorem norm_eq (L : Lattice ℝ) (u : Vec3 ℝ) :
    L.norm u = Real.sqrt (Vec3.dot (L.cartesian u) (L.cartesian u)) := rfl

/-- `norm` (computed through `base`) agrees with the metric tensor: `‖u‖² = u·G·u` -/
theorem norm_sq {p : CellCS ℝ} {Q : Mat3 ℝ} (h : Valid p Q) (u : Vec3 ℝ) :
    (ofCS p Q).norm u ^ 2 = (ofCS p Q).dot u u := by
  rw [norm_eq, Real.sq_sqrt (dot_self_nonneg _), dot_eq h]

theorem dist_eq (L : Lattice ℝ) (u v : Vec3 ℝ) :
    L.dist u v = Real.sqrt (Vec3.dot (Vec3.sub (L.cartesian u) (L.cartesian v)) (Vec3.sub (L.cartesian u) (L.cartesian v))) := by
  simp only [dist, norm, cartesian, vecMul_sub, elem_sqrt]

/-- `angle` is the Euclidean angle of the Cartesian images (the clip to [−1, 1] is the identity) -/
theorem angle_eq {p : CellCS ℝ} {Q : Mat3 ℝ} (h : Valid p Q) (u v : Vec3 ℝ) :
    (ofCS p Q).angle u v =
      Real.arccos (Vec3.dot ((ofCS p Q).cartesian u) ((ofCS p Q).cartesian v) /
        (Real.sqrt (Vec3.dot ((ofCS p Q).cartesian u) ((ofCS p Q).cartesian u)) *
         Real.sqrt (Vec3.dot ((ofCS p Q).cartesian v) ((ofCS p Q).cartesian v)))) * 180 / π := by
  simp only [angle, elem_acosd]
  rw [dot_eq h, norm_eq, norm_eq, clip_cos]

/-! #### the base vectors have exactly the lengths and angles given -/

theorem gram_entries (B : Mat3 ℝ) :
    (B.mul B.transpose).a11 = Vec3.dot B.row1 B.row1 ∧ (B.mul B.transpose).a22 = Vec3.dot B.row2 B.row2 ∧
    (B.mul B.transpose).a33 = Vec3.dot B.row3 B.row3 ∧ (B.mul B.transpose).a23 = Vec3.dot B.row2 B.row3 ∧
    (B.mul B.transpose).a13 = Vec3.dot B.row1 B.row3 ∧ (B.mul B.transpose).a12 = Vec3.dot B.row1 B.row2 :=
  ⟨rfl, rfl, rfl, rfl, rfl, rfl⟩

theorem row_dots {p : CellCS ℝ} {Q : Mat3 ℝ} (h : Valid p Q) :
    let B := (ofCS p Q).base
    Vec3.dot B.row1 B.row1 = p.a * p.a ∧ Vec3.dot B.row2 B.row2 = p.b * p.b ∧ Vec3.dot B.row3 B.row3 = p.c * p.c ∧
    Vec3.dot B.row2 B.row3 = p.b * p.c * p.ca ∧ Vec3.dot B.row1 B.row3 = p.a * p.c * p.cb ∧
    Vec3.dot B.row1 B.row2 = p.a * p.b * p.cg := by
  intro B
  have hm := metrics_eq_gram h
  rw [ofCS_metrics] at hm
  obtain ⟨g11, g22, g33, g23, g13, g12⟩ := gram_entries B
  refine ⟨?_, ?_, ?_, ?_, ?_, ?_⟩
  · rw [← g11]; exact (congrArg Mat3.a11 hm).symm
  · rw [← g22]; exact (congrArg Mat3.a22 hm).symm
  · rw [← g33]; exact (congrArg Mat3.a33 hm).symm
  · rw [← g23]; exact (congrArg Mat3.a23 hm).symm
  · rw [← g13]; exact (congrArg Mat3.a13 hm).symm
  · rw [← g12]; exact (congrArg Mat3.a12 hm).symm

theorem row_norms {p : CellCS ℝ} {Q : Mat3 ℝ} (h : Valid p Q) :
    let B := (ofCS p Q).base
    Real.sqrt (Vec3.dot B.row1 B.row1) = p.a ∧ Real.sqrt (Vec3.dot B.row2 B.row2) = p.b ∧
    Real.sqrt (Vec3.dot B.row3 B.row3) = p.c := by
  intro B
  obtain ⟨h1, h2, h3, -, -, -⟩ := row_dots h
  exact ⟨by rw [h1, Real.sqrt_mul_self h.cs.a_pos.le], by rw [h2, Real.sqrt_mul_self h.cs.b_pos.le],
    by rw [h3, Real.sqrt_mul_self h.cs.c_pos.le]⟩

/-! #### reciprocal vectors -/

theorem dot_recip_pair (R B : Mat3 ℝ) (hkl u : Vec3 ℝ) :
    Vec3.dot (Mat3.vecMul hkl R.transpose) (Mat3.vecMul u B) = Vec3.dot hkl (Mat3.vecMul u (B.mul R)) := by
  simp only [Vec3.dot, Mat3.vecMul, Mat3.mul, Mat3.transpose]; ring

/-- the Cartesian reciprocal vector `h* = hkl · recbaseᵀ` pairs with direct-space vectors as `h*·cart u = hkl·u` -/
theorem recip_pairing {p : CellCS ℝ} {Q : Mat3 ℝ} (h : Valid p Q) (hkl u : Vec3 ℝ) :
    Vec3.dot (Mat3.vecMul hkl (ofCS p Q).recbase.transpose) ((ofCS p Q).cartesian u) = Vec3.dot hkl u := by
  rw [cartesian, dot_recip_pair, base_mul_recbase h, Mat3.vecMul_one]

theorem rnorm_eq (L : Lattice ℝ) (hkl : Vec3 ℝ) :
    L.rnorm hkl = Real.sqrt (Vec3.dot (Mat3.vecMul hkl L.recbase.transpose) (Mat3.vecMul hkl L.recbase.transpose)) := rfl

noncomputable def recipMetric (p : CellCS ℝ) : Mat3 ℝ :=
  metricsOf (p.sa / (p.a * p.V)) (p.sb / (p.b * p.V)) (p.sg / (p.c * p.V))
    ((p.cb * p.cg - p.ca) / (p.sb * p.sg)) ((p.ca * p.cg - p.cb) / (p.sa * p.sg)) ((p.ca * p.cb - p.cg) / (p.sa * p.sb))

theorem metrics_mul_recip {p : CellCS ℝ} (h : ValidCS p) :
    (metricsOf p.a p.b p.c p.ca p.cb p.cg).mul (recipMetric p) = Mat3.one := by
  have hsa := h.sa_pos.ne'
  have hsb := h.sb_pos.ne'
  have hsg := h.sg_pos.ne'
  have ha := h.a_pos.ne'
  have hb := h.b_pos.ne'
  have hc := h.c_pos.ne'
  have hV := h.V_pos.ne'
  have e1 := h.ha
  have e2 := h.hb
  have e3 := h.hg
  have e4 := h.hV
  apply Mat3.ext' <;> simp only [recipMetric, Mat3.mul, metricsOf, Mat3.one] <;> field_simp
  · linear_combination e1 - e4
  · linear_combination (p.a * p.cg) * e2
  · linear_combination (p.a * p.cb) * e3
  · linear_combination (p.b * p.cg) * e1
  · linear_combination e2 - e4
  · linear_combination (p.b * p.ca) * e3
  · linear_combination (p.c * p.cb) * e1
  · linear_combination (p.c * p.ca) * e2
  · linear_combination e3 - e4

/-- uniqueness of the inverse: `X·G = 1` and `G·M = 1` give `X = M` -/
theorem left_inv_eq_right_inv {X G M : Mat3 ℝ} (h1 : X.mul G = Mat3.one) (h2 : G.mul M = Mat3.one) : X = M := by
  calc X = X.mul Mat3.one := (Mat3.mul_one X).symm
    _ = X.mul (G.mul M) := by rw [h2]
    _ = (X.mul G).mul M := (Mat3.mul_assoc X G M).symm
    _ = M := by rw [h1, Mat3.one_mul]

theorem transpose_one : (Mat3.one : Mat3 ℝ).transpose = Mat3.one := rfl

/-- the Gram matrix of the reciprocal base `recbaseᵀ` is the metric tensor of the reciprocal cell
parameters `ar br cr`, `cos αr, cos βr, cos γr` -/
theorem recip_gram {p : CellCS ℝ} {Q : Mat3 ℝ} (h : Valid p Q) :
    (ofCS p Q).recbase.transpose.mul (ofCS p Q).recbase.transpose.transpose = recipMetric p := by
  rw [Mat3.transpose_transpose]
  apply left_inv_eq_right_inv (G := (ofCS p Q).metrics)
  · rw [metrics_eq_gram h, Mat3.mul_assoc, ← Mat3.mul_assoc (ofCS p Q).recbase, recbase_mul_base h, Mat3.one_mul,
      ← Mat3.transpose_mul, base_mul_recbase h, transpose_one]
  · rw [ofCS_metrics]; exact metrics_mul_recip h.cs

/-! #### exact table values of `cosd`, periodicity, `sind` -/

/-- the table `_EXACT_COSD` of `lattice.py` -/
noncomputable def cosdTable : List (ℝ × ℝ) :=
  [(0, 1), (60, 1 / 2), (90, 0), (120, -(1 / 2)), (180, -1), (240, -(1 / 2)), (270, 0), (300, 1 / 2)]

theorem cosd_table_exact : ∀ e ∈ cosdTable, (Elem.cosd e.1 : ℝ) = e.2 := by
  intro e he
  simp only [cosdTable, List.mem_cons, List.not_mem_nil, or_false] at he
  rcases he with rfl | rfl | rfl | rfl | rfl | rfl | rfl | rfl <;> simp only [elem_cosd]
  · simp
  · rw [show (60 : ℝ) * π / 180 = π / 3 by ring]; exact Real.cos_pi_div_three
  · rw [show (90 : ℝ) * π / 180 = π / 2 by ring]; exact Real.cos_pi_div_two
  · rw [show (120 : ℝ) * π / 180 = π - π / 3 by ring, Real.cos_pi_sub, Real.cos_pi_div_three]
  · rw [show (180 : ℝ) * π / 180 = π by ring]; exact Real.cos_pi
  · rw [show (240 : ℝ) * π / 180 = π / 3 + π by ring, Real.cos_add_pi, Real.cos_pi_div_three]
  · rw [show (270 : ℝ) * π / 180 = π / 2 + π by ring, Real.cos_add_pi, Real.cos_pi_div_two]; simp
  · rw [show (300 : ℝ) * π / 180 = 2 * π - π / 3 by ring, Real.cos_two_pi_sub, Real.cos_pi_div_three]

/-- `cosd (x + 360·k) = cosd x`: reducing the argument modulo 360 before the table lookup is sound -/
theorem cosd_periodic (x : ℝ) (k : ℤ) : (Elem.cosd (x + 360 * k) : ℝ) = Elem.cosd x := by
  simp only [elem_cosd]
  rw [show (x + 360 * (k : ℝ)) * π / 180 = x * π / 180 + k * (2 * π) by ring]
  exact Real.cos_add_int_mul_two_pi _ k

/-- `sind x = cosd (90 − x)` (the definition used by `lattice.sind`) -/
theorem sind_eq_cosd (x : ℝ) : (Elem.sind x : ℝ) = Elem.cosd (90 - x) := by
  simp only [elem_sind, elem_cosd]
  rw [show (90 - x) * π / 180 = π / 2 - x * π / 180 by ring, Real.cos_pi_div_two_sub]

/-! #### validity of cells given by lengths and angles in degrees -/

/-- a valid cell: positive lengths, angles strictly between 0° and 180°, positive volume -/
structure ValidPar (a b c al be ga : ℝ) : Prop where
  a_pos : 0 < a
  b_pos : 0 < b
  c_pos : 0 < c
  al_pos : 0 < al
  al_lt : al < 180
  be_pos : 0 < be
  be_lt : be < 180
  ga_pos : 0 < ga
  ga_lt : ga < 180
  vol_pos : 0 < 1 + 2 * Real.cos (al * π / 180) * Real.cos (be * π / 180) * Real.cos (ga * π / 180)
    - Real.cos (al * π / 180) * Real.cos (al * π / 180) - Real.cos (be * π / 180) * Real.cos (be * π / 180)
    - Real.cos (ga * π / 180) * Real.cos (ga * π / 180)

theorem deg_range {x : ℝ} (h0 : 0 < x) (h1 : x < 180) : 0 < x * π / 180 ∧ x * π / 180 < π := by
  have := Real.pi_pos
  constructor
  · positivity
  · rw [div_lt_iff₀ (by norm_num : (0:ℝ) < 180)]; nlinarith

theorem validCS_csOfPar {a b c al be ga : ℝ} (h : ValidPar a b c al be ga) : ValidCS (csOfPar a b c al be ga) := by
  obtain ⟨a0, a1⟩ := deg_range h.al_pos h.al_lt
  obtain ⟨b0, b1⟩ := deg_range h.be_pos h.be_lt
  obtain ⟨g0, g1⟩ := deg_range h.ga_pos h.ga_lt
  refine ⟨h.a_pos, h.b_pos, h.c_pos, ?_, ?_, ?_, ?_, ?_, ?_, ?_, ?_⟩
  · simp only [csOfPar, elem_cosd, elem_sind]; linear_combination Real.sin_sq_add_cos_sq (al * π / 180)
  · simp only [csOfPar, elem_cosd, elem_sind]; linear_combination Real.sin_sq_add_cos_sq (be * π / 180)
  · simp only [csOfPar, elem_cosd, elem_sind]; linear_combination Real.sin_sq_add_cos_sq (ga * π / 180)
  · exact Real.sin_pos_of_pos_of_lt_pi a0 a1
  · exact Real.sin_pos_of_pos_of_lt_pi b0 b1
  · exact Real.sin_pos_of_pos_of_lt_pi g0 g1
  · simp only [csOfPar, unitvol, elem_cosd, elem_sqrt]; exact Real.mul_self_sqrt h.vol_pos.le
  · simp only [csOfPar, unitvol, elem_cosd, elem_sqrt]; exact Real.sqrt_pos.mpr h.vol_pos

theorem valid_ofPar {a b c al be ga : ℝ} {Q : Mat3 ℝ} (h : ValidPar a b c al be ga) (hQ : IsRot Q) :
    Valid (csOfPar a b c al be ga) Q := ⟨validCS_csOfPar h, hQ⟩

/-- `volume = det base` -/
theorem volume_eq_det {a b c al be ga : ℝ} {Q : Mat3 ℝ} (h : ValidPar a b c al be ga) (hQ : IsRot Q) :
    (ofPar a b c al be ga Q).volume = (ofPar a b c al be ga Q).base.det := by
  rw [ofPar, base_det (valid_ofPar h hQ)]; rfl


/-! #### `setLatBase`: parameters recovered from base vectors -/

/-- the record `setLatBase` computes from lengths and cosines (lines 398–411) -/
noncomputable def csOfCos (a b c ca cb cg : ℝ) : CellCS ℝ :=
  { a := a, b := b, c := c
    alpha := Elem.acosd ca, beta := Elem.acosd cb, gamma := Elem.acosd cg
    ca := ca, cb := cb, cg := cg
    sa := Elem.sqrt (1 - ca * ca), sb := Elem.sqrt (1 - cb * cb), sg := Elem.sqrt (1 - cg * cg)
    V := unitvol (Elem.cosd (Elem.acosd ca)) (Elem.cosd (Elem.acosd cb)) (Elem.cosd (Elem.acosd cg)) }

theorem csOfBase_eq_csOfCos (B : Mat3 ℝ) :
    csOfBase B = csOfCos (Real.sqrt (Vec3.dot B.row1 B.row1)) (Real.sqrt (Vec3.dot B.row2 B.row2))
      (Real.sqrt (Vec3.dot B.row3 B.row3))
      (Vec3.dot B.row2 B.row3 / (Real.sqrt (Vec3.dot B.row2 B.row2) * Real.sqrt (Vec3.dot B.row3 B.row3)))
      (Vec3.dot B.row1 B.row3 / (Real.sqrt (Vec3.dot B.row1 B.row1) * Real.sqrt (Vec3.dot B.row3 B.row3)))
      (Vec3.dot B.row1 B.row2 / (Real.sqrt (Vec3.dot B.row1 B.row1) * Real.sqrt (Vec3.dot B.row2 B.row2))) := rfl

/-- if the Gram matrix of `B` is the metric tensor of `a b c ca cb cg` (positive lengths), `setLatBase`
recovers exactly these lengths and cosines -/
theorem csOfBase_of_gram {B : Mat3 ℝ} {a b c ca cb cg : ℝ} (ha : 0 < a) (hb : 0 < b) (hc : 0 < c)
    (hG : B.mul B.transpose = metricsOf a b c ca cb cg) : csOfBase B = csOfCos a b c ca cb cg := by
  obtain ⟨g11, g22, g33, g23, g13, g12⟩ := gram_entries B
  rw [hG] at g11 g22 g33 g23 g13 g12
  simp only [metricsOf] at g11 g22 g33 g23 g13 g12
  rw [csOfBase_eq_csOfCos, ← g11, ← g22, ← g33, ← g23, ← g13, ← g12,
    Real.sqrt_mul_self ha.le, Real.sqrt_mul_self hb.le, Real.sqrt_mul_self hc.le]
  have e1 : b * c * ca / (b * c) = ca := by field_simp
  have e2 : a * c * cb / (a * c) = cb := by field_simp
  have e3 : a * b * cg / (a * b) = cg := by field_simp
  rw [e1, e2, e3]

theorem cosd_acosd {x : ℝ} (h0 : -1 ≤ x) (h1 : x ≤ 1) : (Elem.cosd (Elem.acosd x : ℝ) : ℝ) = x := by
  simp only [elem_cosd, elem_acosd]
  rw [show Real.arccos x * 180 / π * π / 180 = Real.arccos x by field_simp]
  exact Real.cos_arccos h0 h1

theorem sind_acosd (x : ℝ) : (Elem.sind (Elem.acosd x : ℝ) : ℝ) = Real.sqrt (1 - x * x) := by
  simp only [elem_sind, elem_acosd]
  rw [show Real.arccos x * 180 / π * π / 180 = Real.arccos x by field_simp, Real.sin_arccos, pow_two]

theorem acosd_cosd {x : ℝ} (h0 : 0 < x) (h1 : x < 180) : (Elem.acosd (Elem.cosd x : ℝ) : ℝ) = x := by
  obtain ⟨r0, r1⟩ := deg_range h0 h1
  simp only [elem_cosd, elem_acosd]
  rw [Real.arccos_cos r0.le r1.le]; field_simp

/-- `assemble` only looks at `orient stdbase` -/
theorem assemble_congr (p : CellCS ℝ) (o1 o2 : Mat3 ℝ → Mat3 ℝ × Mat3 ℝ)
    (h : o1 (assemble p o1).stdbase = o2 (assemble p o1).stdbase) : assemble p o1 = assemble p o2 := by
  simp only [assemble] at h ⊢
  rw [h]

theorem S0_det_ne {p : CellCS ℝ} (h : ValidCS p) : (S0 p).det ≠ 0 := by
  rw [S0_det p h]
  exact (mul_pos (mul_pos (mul_pos h.a_pos h.b_pos) h.c_pos) h.V_pos).ne'

/-- for valid data `p = csOfBase B`, `setLatBase B` is `setLatPar` with the recovered data and rotation `stdbase⁻¹·B` -/
theorem ofBase_eq_ofCS {B : Mat3 ℝ} {p : CellCS ℝ} (hp : csOfBase B = p) (h : ValidCS p) :
    ofBase B = ofCS p ((S0 p).inv.mul B) := by
  rw [ofBase, hp, ofCS]
  apply assemble_congr
  rw [stdbase_eq h]
  show ((S0 p).inv.mul B, B) = ((S0 p).inv.mul B, (S0 p).mul ((S0 p).inv.mul B))
  rw [← Mat3.mul_assoc, Mat3.mul_inv (S0_det_ne h), Mat3.one_mul]

/-- the first of the two views: building the lattice from the base vectors of `ofCS p Q` gives `ofCS p Q` back -/
theorem ofBase_base {p : CellCS ℝ} {Q : Mat3 ℝ} (h : Valid p Q) (hp : csOfBase (ofCS p Q).base = p) :
    ofBase (ofCS p Q).base = ofCS p Q := by
  rw [ofBase_eq_ofCS hp h.cs, ofCS_base h.cs, ← Mat3.mul_assoc, Mat3.inv_mul (S0_det_ne h.cs), Mat3.one_mul]


/-! #### arbitrary base with positive determinant -/

def cross (x y : Vec3 ℝ) : Vec3 ℝ := ⟨x.y * y.z - x.z * y.y, x.z * y.x - x.x * y.z, x.x * y.y - x.y * y.x⟩

theorem lagrange (x y : Vec3 ℝ) :
    Vec3.dot (cross x y) (cross x y) = Vec3.dot x x * Vec3.dot y y - (Vec3.dot x y) ^ 2 := by
  simp only [cross, Vec3.dot]; ring

theorem det_triple1 (B : Mat3 ℝ) : B.det = Vec3.dot B.row1 (cross B.row2 B.row3) := by
  simp only [Mat3.det, Vec3.dot, cross, Mat3.row1, Mat3.row2, Mat3.row3]; ring
theorem det_triple2 (B : Mat3 ℝ) : B.det = Vec3.dot B.row2 (cross B.row3 B.row1) := by
  simp only [Mat3.det, Vec3.dot, cross, Mat3.row1, Mat3.row2, Mat3.row3]; ring
theorem det_triple3 (B : Mat3 ℝ) : B.det = Vec3.dot B.row3 (cross B.row1 B.row2) := by
  simp only [Mat3.det, Vec3.dot, cross, Mat3.row1, Mat3.row2, Mat3.row3]; ring

theorem dot_comm (x y : Vec3 ℝ) : Vec3.dot x y = Vec3.dot y x := by simp only [Vec3.dot]; ring

/-- from `det² ≤ n·L` with `n, L ≥ 0` and `det ≠ 0`: both factors are positive -/
theorem both_pos {d n L : ℝ} (hd : d ≠ 0) (hn : 0 ≤ n) (hL : 0 ≤ L) (h : d ^ 2 ≤ n * L) : 0 < n ∧ 0 < L := by
  have hd2 : 0 < d ^ 2 := by positivity
  have hnL : 0 < n * L := lt_of_lt_of_le hd2 h
  constructor
  · rcases hn.lt_or_eq with h1 | h1
    · exact h1
    · rw [← h1, zero_mul] at hnL; exact absurd hnL (lt_irrefl _)
  · rcases hL.lt_or_eq with h1 | h1
    · exact h1
    · rw [← h1, mul_zero] at hnL; exact absurd hnL (lt_irrefl _)

/-- rows of a non-singular matrix are non-zero and pairwise non-parallel (strict Cauchy–Schwarz) -/
theorem rows_of_det_ne {B : Mat3 ℝ} (hB : B.det ≠ 0) :
    0 < Vec3.dot B.row1 B.row1 ∧ 0 < Vec3.dot B.row2 B.row2 ∧ 0 < Vec3.dot B.row3 B.row3 ∧
    0 < Vec3.dot B.row2 B.row2 * Vec3.dot B.row3 B.row3 - (Vec3.dot B.row2 B.row3) ^ 2 ∧
    0 < Vec3.dot B.row1 B.row1 * Vec3.dot B.row3 B.row3 - (Vec3.dot B.row1 B.row3) ^ 2 ∧
    0 < Vec3.dot B.row1 B.row1 * Vec3.dot B.row2 B.row2 - (Vec3.dot B.row1 B.row2) ^ 2 := by
  have h1 := cauchy_schwarz B.row1 (cross B.row2 B.row3)
  have h2 := cauchy_schwarz B.row2 (cross B.row3 B.row1)
  have h3 := cauchy_schwarz B.row3 (cross B.row1 B.row2)
  rw [← det_triple1, lagrange] at h1
  rw [← det_triple2, lagrange] at h2
  rw [← det_triple3, lagrange] at h3
  have l1 := dot_self_nonneg (cross B.row2 B.row3)
  have l2 := dot_self_nonneg (cross B.row3 B.row1)
  have l3 := dot_self_nonneg (cross B.row1 B.row2)
  rw [lagrange] at l1 l2 l3
  obtain ⟨p1, q1⟩ := both_pos hB (dot_self_nonneg _) l1 h1
  obtain ⟨p2, q2⟩ := both_pos hB (dot_self_nonneg _) l2 h2
  obtain ⟨p3, q3⟩ := both_pos hB (dot_self_nonneg _) l3 h3
  refine ⟨p1, p2, p3, q1, ?_, q3⟩
  rw [dot_comm B.row1 B.row3, mul_comm]; exact q2

theorem gram_det (B : Mat3 ℝ) : (B.mul B.transpose).det = B.det ^ 2 := by
  rw [Mat3.det_mul, Mat3.det_transpose, pow_two]

theorem metricsOf_det (a b c ca cb cg : ℝ) :
    (metricsOf a b c ca cb cg).det = (a * b * c) ^ 2 * (1 + 2 * ca * cb * cg - ca * ca - cb * cb - cg * cg) := by
  simp only [metricsOf, Mat3.det]; ring

theorem abs_le_one_of {x : ℝ} (h : 0 < 1 - x * x) : -1 ≤ x ∧ x ≤ 1 := by
  constructor <;> nlinarith [sq_nonneg (x - 1), sq_nonneg (x + 1)]

theorem abs_lt_one_of {x : ℝ} (h : 0 < 1 - x * x) : -1 < x ∧ x < 1 := by
  constructor <;> nlinarith [sq_nonneg (x - 1), sq_nonneg (x + 1)]

/-- lengths, cosines with `|cos| < 1` and positive `1 + 2·ca·cb·cg − …` give valid data -/
theorem validCS_csOfCos {a b c ca cb cg : ℝ} (ha : 0 < a) (hb : 0 < b) (hc : 0 < c)
    (h1 : 0 < 1 - ca * ca) (h2 : 0 < 1 - cb * cb) (h3 : 0 < 1 - cg * cg)
    (hE : 0 < 1 + 2 * ca * cb * cg - ca * ca - cb * cb - cg * cg) : ValidCS (csOfCos a b c ca cb cg) := by
  obtain ⟨a0, a1⟩ := abs_le_one_of h1
  obtain ⟨b0, b1⟩ := abs_le_one_of h2
  obtain ⟨g0, g1⟩ := abs_le_one_of h3
  refine ⟨ha, hb, hc, ?_, ?_, ?_, ?_, ?_, ?_, ?_, ?_⟩
  · simp only [csOfCos, elem_sqrt]; rw [Real.mul_self_sqrt h1.le]; ring
  · simp only [csOfCos, elem_sqrt]; rw [Real.mul_self_sqrt h2.le]; ring
  · simp only [csOfCos, elem_sqrt]; rw [Real.mul_self_sqrt h3.le]; ring
  · exact Real.sqrt_pos.mpr h1
  · exact Real.sqrt_pos.mpr h2
  · exact Real.sqrt_pos.mpr h3
  · simp only [csOfCos, unitvol]; rw [cosd_acosd a0 a1, cosd_acosd b0 b1, cosd_acosd g0 g1]
    exact Real.mul_self_sqrt hE.le
  · simp only [csOfCos, unitvol]; rw [cosd_acosd a0 a1, cosd_acosd b0 b1, cosd_acosd g0 g1]
    exact Real.sqrt_pos.mpr hE

theorem one_sub_cos_sq_pos {n2 n3 d b c : ℝ} (hb : 0 < b) (hc : 0 < c) (hb2 : b * b = n2) (hc2 : c * c = n3)
    (hL : 0 < n2 * n3 - d ^ 2) : 0 < 1 - d / (b * c) * (d / (b * c)) := by
  have hbc : 0 < b * c := mul_pos hb hc
  have : 1 - d / (b * c) * (d / (b * c)) = (n2 * n3 - d ^ 2) / ((b * c) * (b * c)) := by
    rw [← hb2, ← hc2]; field_simp
  rw [this]; exact div_pos hL (mul_pos hbc hbc)

/-- `setLatBase` on any right-handed base: the recovered data are valid and reproduce the Gram matrix -/
theorem csOfBase_valid {B : Mat3 ℝ} (hB : 0 < B.det) :
    ValidCS (csOfBase B) ∧
    B.mul B.transpose = metricsOf (csOfBase B).a (csOfBase B).b (csOfBase B).c (csOfBase B).ca (csOfBase B).cb (csOfBase B).cg := by
  obtain ⟨n1, n2, n3, l23, l13, l12⟩ := rows_of_det_ne hB.ne'
  rw [csOfBase_eq_csOfCos]
  set a := Real.sqrt (Vec3.dot B.row1 B.row1) with hadef
  set b := Real.sqrt (Vec3.dot B.row2 B.row2) with hbdef
  set c := Real.sqrt (Vec3.dot B.row3 B.row3) with hcdef
  have ha : 0 < a := Real.sqrt_pos.mpr n1
  have hb : 0 < b := Real.sqrt_pos.mpr n2
  have hc : 0 < c := Real.sqrt_pos.mpr n3
  have ha2 : a * a = Vec3.dot B.row1 B.row1 := Real.mul_self_sqrt n1.le
  have hb2 : b * b = Vec3.dot B.row2 B.row2 := Real.mul_self_sqrt n2.le
  have hc2 : c * c = Vec3.dot B.row3 B.row3 := Real.mul_self_sqrt n3.le
  have hG : B.mul B.transpose = metricsOf a b c (Vec3.dot B.row2 B.row3 / (b * c)) (Vec3.dot B.row1 B.row3 / (a * c))
      (Vec3.dot B.row1 B.row2 / (a * b)) := by
    obtain ⟨g11, g22, g33, g23, g13, g12⟩ := gram_entries B
    have g32 : (B.mul B.transpose).a32 = Vec3.dot B.row2 B.row3 := by
      simp only [Mat3.mul, Mat3.transpose, Vec3.dot, Mat3.row2, Mat3.row3]; ring
    have g31 : (B.mul B.transpose).a31 = Vec3.dot B.row1 B.row3 := by
      simp only [Mat3.mul, Mat3.transpose, Vec3.dot, Mat3.row1, Mat3.row3]; ring
    have g21 : (B.mul B.transpose).a21 = Vec3.dot B.row1 B.row2 := by
      simp only [Mat3.mul, Mat3.transpose, Vec3.dot, Mat3.row1, Mat3.row2]; ring
    apply Mat3.ext'
    · rw [g11]; simp only [metricsOf]; exact ha2.symm
    · rw [g12]; simp only [metricsOf]; field_simp
    · rw [g13]; simp only [metricsOf]; field_simp
    · rw [g21]; simp only [metricsOf]; field_simp
    · rw [g22]; simp only [metricsOf]; exact hb2.symm
    · rw [g23]; simp only [metricsOf]; field_simp
    · rw [g31]; simp only [metricsOf]; field_simp
    · rw [g32]; simp only [metricsOf]; field_simp
    · rw [g33]; simp only [metricsOf]; exact hc2.symm
  refine ⟨?_, by simpa only [csOfCos] using hG⟩
  apply validCS_csOfCos ha hb hc
  · exact one_sub_cos_sq_pos hb hc hb2 hc2 l23
  · exact one_sub_cos_sq_pos ha hc ha2 hc2 l13
  · exact one_sub_cos_sq_pos ha hb ha2 hb2 l12
  · have hd := gram_det B
    rw [hG, metricsOf_det] at hd
    have habc : 0 < (a * b * c) ^ 2 := by positivity
    have : 0 < (a * b * c) ^ 2 * (1 + 2 * (Vec3.dot B.row2 B.row3 / (b * c)) * (Vec3.dot B.row1 B.row3 / (a * c)) *
        (Vec3.dot B.row1 B.row2 / (a * b)) - Vec3.dot B.row2 B.row3 / (b * c) * (Vec3.dot B.row2 B.row3 / (b * c)) -
        Vec3.dot B.row1 B.row3 / (a * c) * (Vec3.dot B.row1 B.row3 / (a * c)) -
        Vec3.dot B.row1 B.row2 / (a * b) * (Vec3.dot B.row1 B.row2 / (a * b))) := by
      rw [hd]; positivity
    exact (pos_iff_pos_of_mul_pos this).mp habc


theorem det_one' : (Mat3.one : Mat3 ℝ).det = 1 := by simp [Mat3.det, Mat3.one]

theorem det_inv {S : Mat3 ℝ} (h : S.det ≠ 0) : S.inv.det * S.det = 1 := by
  rw [← Mat3.det_mul, Mat3.inv_mul h, det_one']

/-- `R = S⁻¹·B` is a proper rotation when `S·Sᵀ = B·Bᵀ` and both determinants are positive -/
theorem isRot_of_gram {S B : Mat3 ℝ} (hS : 0 < S.det) (hB : 0 < B.det)
    (hG : S.mul S.transpose = B.mul B.transpose) : IsRot (S.inv.mul B) := by
  constructor
  · rw [Mat3.transpose_mul, Mat3.mul_assoc, ← Mat3.mul_assoc B, ← hG, Mat3.mul_assoc S, ← Mat3.mul_assoc S.inv,
      Mat3.inv_mul hS.ne', Mat3.one_mul, ← Mat3.transpose_mul, Mat3.inv_mul hS.ne', transpose_one]
  · have h2 : S.det ^ 2 = B.det ^ 2 := by rw [← gram_det, ← gram_det, hG]
    have h3 : S.det = B.det := by
      have := sq_eq_sq₀ hS.le hB.le |>.mp h2
      exact this
    rw [Mat3.det_mul, ← h3]; exact det_inv hS.ne'

/-- every right-handed base is `setLatPar` of valid data with a proper rotation -/
theorem ofBase_sound {B : Mat3 ℝ} (hB : 0 < B.det) :
    Valid (csOfBase B) ((S0 (csOfBase B)).inv.mul B) ∧
    ofBase B = ofCS (csOfBase B) ((S0 (csOfBase B)).inv.mul B) := by
  obtain ⟨hv, hG⟩ := csOfBase_valid hB
  refine ⟨⟨hv, ?_⟩, ofBase_eq_ofCS rfl hv⟩
  apply isRot_of_gram _ hB
  · rw [S0_gram hv, hG]
  · rw [S0_det _ hv]; exact mul_pos (mul_pos (mul_pos hv.a_pos hv.b_pos) hv.c_pos) hv.V_pos

theorem ofBase_fields (B : Mat3 ℝ) :
    (ofBase B).base = B ∧ (ofBase B).recbase = B.inv ∧
    (ofBase B).baserot = (ofBase B).stdbase.inv.mul B := ⟨rfl, rfl, rfl⟩

/-- `stdbase · baserot = base` after `setLatBase` -/
theorem ofBase_std_rot {B : Mat3 ℝ} (hB : 0 < B.det) : (ofBase B).stdbase.mul (ofBase B).baserot = B := by
  obtain ⟨hv, h⟩ := ofBase_sound hB
  rw [h, ofCS_stdbase hv.cs, ofCS_baserot, ← Mat3.mul_assoc, Mat3.mul_inv (S0_det_ne hv.cs), Mat3.one_mul]

/-! #### the two views and coherence -/

/-- recomputing cosines, sines and the volume from the recovered angles gives the same data -/
theorem csOfPar_csOfCos {a b c ca cb cg : ℝ} (h1 : 0 < 1 - ca * ca) (h2 : 0 < 1 - cb * cb) (h3 : 0 < 1 - cg * cg) :
    csOfPar a b c (Elem.acosd ca) (Elem.acosd cb) (Elem.acosd cg) = csOfCos a b c ca cb cg := by
  obtain ⟨a0, a1⟩ := abs_le_one_of h1
  obtain ⟨b0, b1⟩ := abs_le_one_of h2
  obtain ⟨g0, g1⟩ := abs_le_one_of h3
  apply CellCS.ext <;> simp only [csOfPar, csOfCos]
  · exact cosd_acosd a0 a1
  · exact cosd_acosd b0 b1
  · exact cosd_acosd g0 g1
  · exact sind_acosd ca
  · exact sind_acosd cb
  · exact sind_acosd cg

/-- for angles in (0°, 180°) the data recovered from the cosines are the data computed from the angles -/
theorem csOfCos_cosd {a b c al be ga : ℝ} (h : ValidPar a b c al be ga) :
    csOfCos a b c (Elem.cosd al) (Elem.cosd be) (Elem.cosd ga) = csOfPar a b c al be ga := by
  have hv := validCS_csOfPar h
  have e1 := acosd_cosd h.al_pos h.al_lt
  have e2 := acosd_cosd h.be_pos h.be_lt
  have e3 := acosd_cosd h.ga_pos h.ga_lt
  have s1 : Real.sqrt (1 - (Elem.cosd al : ℝ) * Elem.cosd al) = Elem.sind al := by
    have := hv.ha; simp only [csOfPar] at this
    rw [show 1 - (Elem.cosd al : ℝ) * Elem.cosd al = Elem.sind al * Elem.sind al by linear_combination -this]
    exact Real.sqrt_mul_self hv.sa_pos.le
  have s2 : Real.sqrt (1 - (Elem.cosd be : ℝ) * Elem.cosd be) = Elem.sind be := by
    have := hv.hb; simp only [csOfPar] at this
    rw [show 1 - (Elem.cosd be : ℝ) * Elem.cosd be = Elem.sind be * Elem.sind be by linear_combination -this]
    exact Real.sqrt_mul_self hv.sb_pos.le
  have s3 : Real.sqrt (1 - (Elem.cosd ga : ℝ) * Elem.cosd ga) = Elem.sind ga := by
    have := hv.hg; simp only [csOfPar] at this
    rw [show 1 - (Elem.cosd ga : ℝ) * Elem.cosd ga = Elem.sind ga * Elem.sind ga by linear_combination -this]
    exact Real.sqrt_mul_self hv.sg_pos.le
  apply CellCS.ext <;> simp only [csOfPar, csOfCos, elem_sqrt]
  · exact e1
  · exact e2
  · exact e3
  · exact s1
  · exact s2
  · exact s3
  · rw [e1, e2, e3]

/-- **two views, part 1**: the lattice built from the base vectors of `Lattice(a,b,c,α,β,γ,baserot=Q)` is that lattice -/
theorem ofBase_ofPar_base {a b c al be ga : ℝ} {Q : Mat3 ℝ} (h : ValidPar a b c al be ga) (hQ : IsRot Q) :
    ofBase (ofPar a b c al be ga Q).base = ofPar a b c al be ga Q := by
  have hv := valid_ofPar h hQ
  rw [ofPar]
  apply ofBase_base hv
  have hG := (metrics_eq_gram hv).symm
  rw [ofCS_metrics] at hG
  rw [csOfBase_of_gram h.a_pos h.b_pos h.c_pos hG]
  exact csOfCos_cosd h

/-- **coherence of `setLatBase`** (two views, part 2): every attribute computed by `setLatBase` equals the one
`setLatPar` computes from the recovered parameters and rotation -/
theorem ofBase_coherent {B : Mat3 ℝ} (hB : 0 < B.det) :
    ofBase B = ofPar (ofBase B).a (ofBase B).b (ofBase B).c (ofBase B).alpha (ofBase B).beta (ofBase B).gamma
      (ofBase B).baserot := by
  obtain ⟨n1, n2, n3, l23, l13, l12⟩ := rows_of_det_ne hB.ne'
  obtain ⟨hv, h⟩ := ofBase_sound hB
  have hv' := hv.cs
  rw [csOfBase_eq_csOfCos] at hv'
  have e : csOfPar (ofBase B).a (ofBase B).b (ofBase B).c (ofBase B).alpha (ofBase B).beta (ofBase B).gamma = csOfBase B := by
    rw [csOfBase_eq_csOfCos]
    have q1 : 0 < 1 - (csOfBase B).ca * (csOfBase B).ca := by
      have := hv.cs.ha; have := hv.cs.sa_pos; nlinarith
    have q2 : 0 < 1 - (csOfBase B).cb * (csOfBase B).cb := by
      have := hv.cs.hb; have := hv.cs.sb_pos; nlinarith
    have q3 : 0 < 1 - (csOfBase B).cg * (csOfBase B).cg := by
      have := hv.cs.hg; have := hv.cs.sg_pos; nlinarith
    exact csOfPar_csOfCos q1 q2 q3
  have hr : (ofBase B).baserot = (S0 (csOfBase B)).inv.mul B := by rw [h]; rfl
  rw [ofPar, e, hr]; exact h


/-! #### C10: well-formed objects, operations, histories -/

theorem arccos_deg_range {x : ℝ} (h : 0 < 1 - x * x) :
    0 < (Elem.acosd x : ℝ) ∧ (Elem.acosd x : ℝ) < 180 := by
  obtain ⟨h0, h1⟩ := abs_lt_one_of h
  have hp := Real.pi_pos
  have p0 : 0 < Real.arccos x := Real.arccos_pos.mpr h1
  have p1 : Real.arccos x < π :=
    lt_of_le_of_ne (Real.arccos_le_pi x) (fun e => absurd (Real.arccos_eq_pi.mp e) (not_le.mpr h0))
  simp only [elem_acosd]
  constructor
  · positivity
  · rw [div_lt_iff₀ hp]; nlinarith

theorem ofBase_validPar {B : Mat3 ℝ} (hB : 0 < B.det) :
    ValidPar (ofBase B).a (ofBase B).b (ofBase B).c (ofBase B).alpha (ofBase B).beta (ofBase B).gamma := by
  obtain ⟨hv, -⟩ := ofBase_sound hB
  have hc := hv.cs
  have q1 : 0 < 1 - (csOfBase B).ca * (csOfBase B).ca := by
    have := hc.ha; have := hc.sa_pos; nlinarith
  have q2 : 0 < 1 - (csOfBase B).cb * (csOfBase B).cb := by
    have := hc.hb; have := hc.sb_pos; nlinarith
  have q3 : 0 < 1 - (csOfBase B).cg * (csOfBase B).cg := by
    have := hc.hg; have := hc.sg_pos; nlinarith
  obtain ⟨a0, a1⟩ := arccos_deg_range q1
  obtain ⟨b0, b1⟩ := arccos_deg_range q2
  obtain ⟨g0, g1⟩ := arccos_deg_range q3
  refine ⟨hc.a_pos, hc.b_pos, hc.c_pos, a0, a1, b0, b1, g0, g1, ?_⟩
  have e1 := cosd_acosd (abs_le_one_of q1).1 (abs_le_one_of q1).2
  have e2 := cosd_acosd (abs_le_one_of q2).1 (abs_le_one_of q2).2
  have e3 := cosd_acosd (abs_le_one_of q3).1 (abs_le_one_of q3).2
  simp only [elem_cosd] at e1 e2 e3
  show 0 < 1 + 2 * Real.cos ((Elem.acosd (csOfBase B).ca : ℝ) * π / 180) * Real.cos ((Elem.acosd (csOfBase B).cb : ℝ) * π / 180) *
      Real.cos ((Elem.acosd (csOfBase B).cg : ℝ) * π / 180) -
      Real.cos ((Elem.acosd (csOfBase B).ca : ℝ) * π / 180) * Real.cos ((Elem.acosd (csOfBase B).ca : ℝ) * π / 180) -
      Real.cos ((Elem.acosd (csOfBase B).cb : ℝ) * π / 180) * Real.cos ((Elem.acosd (csOfBase B).cb : ℝ) * π / 180) -
      Real.cos ((Elem.acosd (csOfBase B).cg : ℝ) * π / 180) * Real.cos ((Elem.acosd (csOfBase B).cg : ℝ) * π / 180)
  rw [e1, e2, e3, ← hc.hV]
  exact mul_pos hc.V_pos hc.V_pos

/-- a well-formed lattice object: every cached attribute is the one `setLatPar` computes from the stored
parameters and rotation (coherence), the parameters are a valid cell and the rotation is proper -/
structure WF (L : Lattice ℝ) : Prop where
  coherent : L = ofPar L.a L.b L.c L.alpha L.beta L.gamma L.baserot
  par : ValidPar L.a L.b L.c L.alpha L.beta L.gamma
  rot : IsRot L.baserot

theorem wf_ofPar {a b c al be ga : ℝ} {Q : Mat3 ℝ} (h : ValidPar a b c al be ga) (hQ : IsRot Q) :
    WF (ofPar a b c al be ga Q) := ⟨rfl, h, hQ⟩

theorem wf_ofBase {B : Mat3 ℝ} (hB : 0 < B.det) : WF (ofBase B) := by
  refine ⟨ofBase_coherent hB, ofBase_validPar hB, ?_⟩
  obtain ⟨hv, h⟩ := ofBase_sound hB
  have hr : (ofBase B).baserot = (S0 (csOfBase B)).inv.mul B := by rw [h]; rfl
  rw [hr]; exact hv.rot

theorem wf_base_det {L : Lattice ℝ} (h : WF L) : 0 < L.base.det ∧ L.recbase = L.base.inv := by
  rw [h.coherent]
  exact ⟨base_det_pos (valid_ofPar h.par h.rot), rfl⟩

theorem wf_reciprocal {L : Lattice ℝ} (h : WF L) : WF L.reciprocal := by
  obtain ⟨hd, hr⟩ := wf_base_det h
  apply wf_ofBase
  rw [Mat3.det_transpose, hr]
  have := det_inv hd.ne'
  exact (pos_iff_pos_of_mul_pos (by rw [this]; exact one_pos)).mpr hd

theorem validPar_default : ValidPar 1 1 1 90 90 90 := by
  have h90 : Real.cos ((90 : ℝ) * π / 180) = 0 := by
    rw [show (90 : ℝ) * π / 180 = π / 2 by ring]; exact Real.cos_pi_div_two
  refine ⟨one_pos, one_pos, one_pos, by norm_num, by norm_num, by norm_num, by norm_num, by norm_num, by norm_num, ?_⟩
  rw [h90]; norm_num

/-- the merged arguments of a `setLatPar` call are a valid cell with a proper rotation -/
def ValidArgs (L : Lattice ℝ) (p : ParArgs ℝ) : Prop :=
  ValidPar (p.a.getD L.a) (p.b.getD L.b) (p.c.getD L.c) (p.alpha.getD L.alpha) (p.beta.getD L.beta) (p.gamma.getD L.gamma) ∧
  IsRot (p.baserot.getD L.baserot)

/-- "valid" operation in the world `w`: every cell that results has positive lengths, angles in (0°,180°), positive
volume and a proper rotation; bases are right-handed.  (A call that raises is outside the quantifier.) -/
def ValidOp (w : List (Lattice ℝ)) : Op ℝ → Prop
  | .newDefault => True
  | .newPar a b c al be ga rot => ValidPar a b c al be ga ∧ IsRot (rot.getD Mat3.one)
  | .newBase B => 0 < B.det
  | .copy _ => True
  | .recip _ => True
  | .setPar i p => ∀ L, w[i]? = some L → ValidArgs L p
  | .setProp i k v => ∀ L p, w[i]? = some L → propArgs k v = some p → ValidArgs L p
  | .setBase _ B => 0 < B.det

def ValidRun (w : List (Lattice ℝ)) : List (Op ℝ) → Prop
  | [] => True
  | op :: ops => ValidOp w op ∧ ∀ w', step w op = some w' → ValidRun w' ops

theorem wf_setLatPar (L : Lattice ℝ) (p : ParArgs ℝ) (h : ValidArgs L p) : WF (L.setLatPar p) := by
  rw [setLatPar_eq]; exact wf_ofPar h.1 h.2

theorem wf_append {w : List (Lattice ℝ)} {X : Lattice ℝ} (hw : ∀ L ∈ w, WF L) (hX : WF X) : ∀ L ∈ w ++ [X], WF L := by
  intro L hL
  rcases List.mem_append.mp hL with h | h
  · exact hw L h
  · rw [List.mem_singleton.mp h]; exact hX

theorem wf_set {w : List (Lattice ℝ)} {X : Lattice ℝ} (i : Nat) (hw : ∀ L ∈ w, WF L) (hX : WF X) : ∀ L ∈ w.set i X, WF L := by
  intro L hL
  rcases List.mem_or_eq_of_mem_set hL with h | h
  · exact hw L h
  · rw [h]; exact hX

theorem step_wf {w w' : List (Lattice ℝ)} {op : Op ℝ} (hw : ∀ L ∈ w, WF L) (hop : ValidOp w op)
    (hs : step w op = some w') : ∀ L ∈ w', WF L := by
  cases op with
  | newDefault =>
    simp only [step, Option.some.injEq] at hs; subst hs
    exact wf_append hw (wf_ofPar validPar_default isRot_one)
  | newPar a b c al be ga rot =>
    simp only [step, Option.some.injEq] at hs; subst hs
    exact wf_append hw (wf_ofPar hop.1 hop.2)
  | newBase B =>
    simp only [step, Option.some.injEq] at hs; subst hs
    exact wf_append hw (wf_ofBase hop)
  | copy i =>
    simp only [step, Option.map_eq_some_iff] at hs
    obtain ⟨X, hX, rfl⟩ := hs
    exact wf_append hw (hw X (List.mem_of_getElem? hX))
  | recip i =>
    simp only [step, Option.map_eq_some_iff] at hs
    obtain ⟨X, hX, rfl⟩ := hs
    exact wf_append hw (wf_reciprocal (hw X (List.mem_of_getElem? hX)))
  | setPar i p =>
    simp only [step, Option.map_eq_some_iff] at hs
    obtain ⟨X, hX, rfl⟩ := hs
    exact wf_set i hw (wf_setLatPar X p (hop X hX))
  | setProp i k v =>
    simp only [step, Option.bind_eq_some_iff, Option.map_eq_some_iff] at hs
    obtain ⟨X, hX, p, hp, rfl⟩ := hs
    exact wf_set i hw (wf_setLatPar X p (hop X p hX hp))
  | setBase i B =>
    simp only [step, Option.map_eq_some_iff] at hs
    obtain ⟨X, hX, rfl⟩ := hs
    rw [setLatBase_eq]
    exact wf_set i hw (wf_ofBase hop)

theorem run_wf : ∀ (ops : List (Op ℝ)) (w w' : List (Lattice ℝ)), (∀ L ∈ w, WF L) → ValidRun w ops →
    run w ops = some w' → ∀ L ∈ w', WF L
  | [], w, w', hw, _, hr => by
    simp only [run, Option.some.injEq] at hr; subst hr; exact hw
  | op :: ops, w, w', hw, hv, hr => by
    simp only [run, Option.bind_eq_some_iff] at hr
    obtain ⟨w1, h1, h2⟩ := hr
    exact run_wf ops w1 w' (step_wf hw hv.1 h1) (hv.2 w1 h1) h2


/-! #### reciprocal lattice -/

theorem inv_transpose (A : Mat3 ℝ) : A.transpose.inv = A.inv.transpose := by
  simp only [Mat3.inv]
  rw [Mat3.det_transpose]
  apply Mat3.ext' <;> simp only [Mat3.transpose, Mat3.adj] <;> ring

theorem inv_inv' {A : Mat3 ℝ} (h : A.det ≠ 0) : A.inv.inv = A := by
  have hd : A.inv.det ≠ 0 := by
    intro e; have := det_inv h; rw [e, zero_mul] at this; exact zero_ne_one this
  exact left_inv_eq_right_inv (Mat3.inv_mul hd) (Mat3.inv_mul h)

/-- the reciprocal of the reciprocal has the original base vectors -/
theorem recip_recip_base {L : Lattice ℝ} (h : WF L) : L.reciprocal.reciprocal.base = L.base := by
  obtain ⟨hd, hr⟩ := wf_base_det h
  show (L.recbase.transpose.inv).transpose = L.base
  rw [inv_transpose, Mat3.transpose_transpose, hr, inv_inv' hd.ne']

/-- the cell parameters of the reciprocal lattice are the cached reciprocal parameters -/
theorem recip_params {L : Lattice ℝ} (h : WF L) :
    L.reciprocal.a = L.ar ∧ L.reciprocal.b = L.br ∧ L.reciprocal.c = L.cr ∧
    L.reciprocal.alpha = L.alphar ∧ L.reciprocal.beta = L.betar ∧ L.reciprocal.gamma = L.gammar ∧
    L.reciprocal.ca = L.car ∧ L.reciprocal.cb = L.cbr ∧ L.reciprocal.cg = L.cgr ∧
    L.reciprocal.sa = L.sar ∧ L.reciprocal.sb = L.sbr ∧ L.reciprocal.sg = L.sgr ∧
    L.reciprocal.base = L.recbase.transpose := by
  have hv := valid_ofPar h.par h.rot
  have hc := hv.cs
  rw [h.coherent]
  generalize hp : csOfPar L.a L.b L.c L.alpha L.beta L.gamma = p at hv hc
  rw [ofPar, hp]
  have hG := recip_gram hv
  have har : 0 < p.sa / (p.a * p.V) := div_pos hc.sa_pos (mul_pos hc.a_pos hc.V_pos)
  have hbr : 0 < p.sb / (p.b * p.V) := div_pos hc.sb_pos (mul_pos hc.b_pos hc.V_pos)
  have hcr : 0 < p.sg / (p.c * p.V) := div_pos hc.sg_pos (mul_pos hc.c_pos hc.V_pos)
  have e := csOfBase_of_gram har hbr hcr hG
  have hrec : (ofCS p L.baserot).reciprocal = assemble (csOfBase (ofCS p L.baserot).recbase.transpose)
      (fun S => (S.inv.mul (ofCS p L.baserot).recbase.transpose, (ofCS p L.baserot).recbase.transpose)) := rfl
  rw [hrec, e]
  exact ⟨rfl, rfl, rfl, rfl, rfl, rfl, rfl, rfl, rfl, rfl, rfl, rfl, rfl⟩

/-- the reciprocal cell lengths are the norms of the reciprocal base vectors: `rnorm (1,0,0) = ar` … -/
theorem rnorm_axes {p : CellCS ℝ} {Q : Mat3 ℝ} (h : Valid p Q) :
    (ofCS p Q).rnorm ⟨1, 0, 0⟩ = (ofCS p Q).ar ∧ (ofCS p Q).rnorm ⟨0, 1, 0⟩ = (ofCS p Q).br ∧
    (ofCS p Q).rnorm ⟨0, 0, 1⟩ = (ofCS p Q).cr := by
  have hc := h.cs
  have hG := recip_gram h
  obtain ⟨g11, g22, g33, -, -, -⟩ := gram_entries (ofCS p Q).recbase.transpose
  rw [hG] at g11 g22 g33
  simp only [recipMetric, metricsOf] at g11 g22 g33
  have har : 0 ≤ p.sa / (p.a * p.V) := (div_pos hc.sa_pos (mul_pos hc.a_pos hc.V_pos)).le
  have hbr : 0 ≤ p.sb / (p.b * p.V) := (div_pos hc.sb_pos (mul_pos hc.b_pos hc.V_pos)).le
  have hcr : 0 ≤ p.sg / (p.c * p.V) := (div_pos hc.sg_pos (mul_pos hc.c_pos hc.V_pos)).le
  refine ⟨?_, ?_, ?_⟩
  · rw [rnorm_eq, show Mat3.vecMul ⟨1, 0, 0⟩ (ofCS p Q).recbase.transpose = (ofCS p Q).recbase.transpose.row1 by
      simp [Mat3.vecMul, Mat3.row1], ← g11, Real.sqrt_mul_self har]; rfl
  · rw [rnorm_eq, show Mat3.vecMul ⟨0, 1, 0⟩ (ofCS p Q).recbase.transpose = (ofCS p Q).recbase.transpose.row2 by
      simp [Mat3.vecMul, Mat3.row2], ← g22, Real.sqrt_mul_self hbr]; rfl
  · rw [rnorm_eq, show Mat3.vecMul ⟨0, 0, 1⟩ (ofCS p Q).recbase.transpose = (ofCS p Q).recbase.transpose.row3 by
      simp [Mat3.vecMul, Mat3.row3], ← g33, Real.sqrt_mul_self hcr]; rfl

/-! #### copy construction -/

/-- `Lattice(lat)` creates a new object with exactly the attributes of `lat`; every other object is unchanged -/
theorem copy_eq {w w' : List (Lattice ℝ)} {i : Nat} (h : step w (.copy i) = some w') :
    w'.length = w.length + 1 ∧ w'[w.length]? = w[i]? ∧ ∀ j, j < w.length → w'[j]? = w[j]? := by
  simp only [step, Option.map_eq_some_iff] at h
  obtain ⟨X, hX, rfl⟩ := h
  refine ⟨by simp, by simp [hX], ?_⟩
  intro j hj
  rw [List.getElem?_append_left hj]

/-- an update of one object leaves every other object (in particular a copy or its original) unchanged -/
theorem update_independent {w w' : List (Lattice ℝ)} {i : Nat} (p : ParArgs ℝ) (h : step w (.setPar i p) = some w')
    (j : Nat) (hj : j ≠ i) : w'[j]? = w[j]? := by
  simp only [step, Option.map_eq_some_iff] at h
  obtain ⟨X, -, rfl⟩ := h
  exact List.getElem?_set_ne (Ne.symm hj)

theorem setBase_independent {w w' : List (Lattice ℝ)} {i : Nat} (B : Mat3 ℝ) (h : step w (.setBase i B) = some w')
    (j : Nat) (hj : j ≠ i) : w'[j]? = w[j]? := by
  simp only [step, Option.map_eq_some_iff] at h
  obtain ⟨X, -, rfl⟩ := h
  exact List.getElem?_set_ne (Ne.symm hj)

/-! #### isotropic displacement tensor -/

/-- a multiple of `isotropicunit` has zero deviation in `isanisotropic` (the forced unit diagonal makes the trace 3) -/
theorem udev_isotropic (L : Lattice ℝ) (hd : L.isotropicunit.a11 = 1 ∧ L.isotropicunit.a22 = 1 ∧ L.isotropicunit.a33 = 1)
    (s : ℝ) : L.udev (Mat3.smul s L.isotropicunit) = Mat3.zero := by
  obtain ⟨h1, h2, h3⟩ := hd
  apply Mat3.ext' <;> simp only [udev, Mat3.sub, Mat3.smul, Mat3.trace, Mat3.zero, h1, h2, h3] <;> ring

theorem isounit_diag (p : CellCS ℝ) (o : Mat3 ℝ → Mat3 ℝ × Mat3 ℝ) :
    (assemble p o).isotropicunit.a11 = 1 ∧ (assemble p o).isotropicunit.a22 = 1 ∧ (assemble p o).isotropicunit.a33 = 1 :=
  ⟨rfl, rfl, rfl⟩


end real
end Lattice
end DS
