import DS.Model.Partition
import DS.Lemmas.Orbit
import Mathlib.Data.List.Nodup
import Mathlib.Data.List.Perm.Basic

/-!
Lemmas on the orbit partition of `SymmetryConstraints._findConstraints` (`DS.Model.Partition`):
"same orbit" is an equivalence relation for a group of operations, and the greedy partition
`partAux` / `coremap` splits the listing into exactly the classes of that relation.
-/
namespace DS
namespace Partition
open Orbit

/-! ### the relation "same orbit" -/

/-- `R ops k p q`: `q` is, modulo lattice translations, an image of `p` under an operation of `ops` -/
def R (ops : List Op) (k : Int) (p q : P3) : Prop := inOrbit ops k p q = true

instance (ops : List Op) (k : Int) (p q : P3) : Decidable (R ops k p q) := by
  unfold R; infer_instance

/-- two indices lie in the same member list of a `coremap` -/
def SameClass (cm : List (Nat × List Nat)) (i j : Nat) : Prop := ∃ e ∈ cm, i ∈ e.2 ∧ j ∈ e.2

/-- translation of a position by the lattice vector `v` (`24·k` units per lattice step) -/
def shiftBy (k : Int) (p v : P3) : P3 := (p.1 + 24 * k * v.1, p.2.1 + 24 * k * v.2.1, p.2.2 + 24 * k * v.2.2)

theorem redP_eq_red (k : Int) (x : P3) : redP k x = Orbit.red k x := rfl

theorem redP_redP (k : Int) (x : P3) : redP k (redP k x) = redP k x := by
  simp only [redP, Int.emod_emod_of_dvd _ (dvd_refl _)]

theorem redP_shiftBy (k : Int) (p v : P3) : redP k (shiftBy k p v) = redP k p := by
  simp only [redP, shiftBy, Int.add_mul_emod_self_left]

theorem inOrbit_iff {ops : List Op} {k : Int} {p q : P3} :
    inOrbit ops k p q = true ↔ ∃ g ∈ ops, img g k (0, 0, 0) p = redP k q := by
  simp [inOrbit, List.any_eq_true]

theorem R_iff {ops : List Op} {k : Int} {p q : P3} :
    R ops k p q ↔ ∃ g ∈ ops, img g k (0, 0, 0) p = redP k q := inOrbit_iff

theorem one_mem {ops : List Op} (hG : IsGroup ops) : Op.one ∈ ops :=
  List.mem_of_mem_head? (by rw [hG.one_first]; rfl)

theorem R_refl {ops : List Op} (hG : IsGroup ops) (k : Int) (p : P3) : R ops k p p :=
  R_iff.2 ⟨Op.one, one_mem hG, img_one k _ p⟩

theorem R_symm {ops : List Op} (hG : IsGroup ops) {k : Int} {p q : P3} (h : R ops k p q) :
    R ops k q p := by
  obtain ⟨g, hg, e⟩ := R_iff.1 h
  obtain ⟨gi, hgi, _, hig⟩ := hG.inv g hg
  refine R_iff.2 ⟨gi, hgi, ?_⟩
  have := congrArg (fun z => img gi k (0, 0, 0) z) e
  simp only [img_comp, hig, img_one, redP_eq_red, img_red] at this
  rw [redP_eq_red, this]

theorem R_trans {ops : List Op} (hG : IsGroup ops) {k : Int} {p q r : P3}
    (h₁ : R ops k p q) (h₂ : R ops k q r) : R ops k p r := by
  obtain ⟨g, hg, e₁⟩ := R_iff.1 h₁
  obtain ⟨h, hh, e₂⟩ := R_iff.1 h₂
  refine R_iff.2 ⟨h.comp g, hG.closed h hh g hg, ?_⟩
  rw [← img_comp, e₁, redP_eq_red, img_red, e₂]

theorem R_equivalence {ops : List Op} (hG : IsGroup ops) (k : Int) : Equivalence (R ops k) :=
  ⟨R_refl hG k, R_symm hG, R_trans hG⟩

/-- the relation only looks at positions modulo lattice translations (no group needed) -/
theorem inOrbit_red (ops : List Op) (k : Int) (p q : P3) :
    inOrbit ops k p q = inOrbit ops k (redP k p) (redP k q) := by
  rw [Bool.eq_iff_iff, inOrbit_iff, inOrbit_iff, redP_redP]; simp only [redP_eq_red, img_red]

/-- a point and its image are in the same orbit -/
theorem R_img {ops : List Op} {g : Op} (hg : g ∈ ops) (k : Int) (p : P3) :
    R ops k p (img g k (0, 0, 0) p) :=
  R_iff.2 ⟨g, hg, by rw [redP_eq_red, red_img]⟩

theorem inOrbit_img_left {ops : List Op} (hG : IsGroup ops) {g : Op} (hg : g ∈ ops) (k : Int) (p q : P3) :
    inOrbit ops k (img g k (0, 0, 0) p) q = inOrbit ops k p q := by
  rw [Bool.eq_iff_iff]
  exact ⟨fun h => R_trans hG (R_img hg k p) h, fun h => R_trans hG (R_symm hG (R_img hg k p)) h⟩

theorem inOrbit_img_right {ops : List Op} (hG : IsGroup ops) {g : Op} (hg : g ∈ ops) (k : Int) (p q : P3) :
    inOrbit ops k p (img g k (0, 0, 0) q) = inOrbit ops k p q := by
  rw [Bool.eq_iff_iff]
  exact ⟨fun h => R_trans hG h (R_symm hG (R_img hg k q)), fun h => R_trans hG h (R_img hg k q)⟩

/-! ### the greedy partition -/

section part
variable (ops : List Op) (k : Int)

theorem partAux_nil (fuel : Nat) : partAux ops k fuel [] = [] := by
  cases fuel <;> rfl

theorem partAux_cons (fuel : Nat) (i : Nat) (p : P3) (rest : List (Nat × P3)) :
    partAux ops k (fuel + 1) ((i, p) :: rest) =
      (i, i :: (rest.filter (fun q => inOrbit ops k p q.2)).map (·.1)) ::
        partAux ops k fuel (rest.filter (fun q => !inOrbit ops k p q.2)) := rfl

/-- the member lists together list every index exactly as often as the input does -/
theorem partAux_perm : ∀ (fuel : Nat) (l : List (Nat × P3)), l.length ≤ fuel →
    ((partAux ops k fuel l).flatMap (·.2)).Perm (l.map (·.1))
  | 0, l, h => by
    have : l = [] := List.length_eq_zero_iff.1 (Nat.le_zero.1 h)
    subst this; simp [partAux_nil]
  | fuel + 1, [], _ => by simp [partAux_nil]
  | fuel + 1, (i, p) :: rest, h => by
    rw [partAux_cons, List.flatMap_cons, List.map_cons]
    refine List.Perm.cons _ ?_
    have hlen : (rest.filter (fun q => !inOrbit ops k p q.2)).length ≤ fuel :=
      Nat.le_trans (List.length_filter_le _ _) (Nat.le_of_succ_le_succ h)
    refine ((partAux_perm fuel _ hlen).append_left _).trans ?_
    rw [← List.map_append]
    exact (List.filter_append_perm (fun q => inOrbit ops k p q.2) rest).map _

/-- the generator indices come in listing order -/
theorem partAux_fst_sublist : ∀ (fuel : Nat) (l : List (Nat × P3)),
    ((partAux ops k fuel l).map (·.1)).Sublist (l.map (·.1))
  | 0, l => by cases l <;> simp [partAux]
  | fuel + 1, [] => by simp [partAux_nil]
  | fuel + 1, (i, p) :: rest => by
    rw [partAux_cons, List.map_cons, List.map_cons]
    exact ((partAux_fst_sublist fuel _).trans (List.filter_sublist.map _)).cons_cons _

/-- every member list comes in listing order -/
theorem partAux_mem_sublist : ∀ (fuel : Nat) (l : List (Nat × P3)),
    ∀ e ∈ partAux ops k fuel l, e.2.Sublist (l.map (·.1))
  | 0, l, e, he => by cases l <;> simp [partAux] at he
  | fuel + 1, [], e, he => by simp [partAux_nil] at he
  | fuel + 1, (i, p) :: rest, e, he => by
    rw [partAux_cons, List.mem_cons] at he
    rcases he with rfl | he
    · exact (List.filter_sublist.map _).cons_cons _
    · exact ((partAux_mem_sublist fuel _ e he).trans (List.filter_sublist.map _)).cons _

/-- every member list starts with its generator -/
theorem partAux_head : ∀ (fuel : Nat) (l : List (Nat × P3)),
    ∀ e ∈ partAux ops k fuel l, e.2.head? = some e.1
  | 0, l, e, he => by cases l <;> simp [partAux] at he
  | fuel + 1, [], e, he => by simp [partAux_nil] at he
  | fuel + 1, (i, p) :: rest, e, he => by
    rw [partAux_cons, List.mem_cons] at he
    rcases he with rfl | he
    · rfl
    · exact partAux_head fuel _ e he

theorem snd_eq_of_nodup_fst {l : List (Nat × P3)} (hnd : (l.map (·.1)).Nodup) {a b : Nat × P3}
    (ha : a ∈ l) (hb : b ∈ l) (e : a.1 = b.1) : a = b :=
  List.inj_on_of_nodup_map hnd ha hb e

/-- the class of a generator consists of exactly the listed positions in its orbit -/
theorem partAux_class (hE : Equivalence (R ops k)) : ∀ (fuel : Nat) (l : List (Nat × P3)),
    l.length ≤ fuel → (l.map (·.1)).Nodup →
    ∀ e ∈ partAux ops k fuel l, ∃ pg, (e.1, pg) ∈ l ∧ ∀ a ∈ l, a.1 ∈ e.2 ↔ R ops k pg a.2
  | 0, l, _, _, e, he => by cases l <;> simp [partAux] at he
  | fuel + 1, [], _, _, e, he => by simp [partAux_nil] at he
  | fuel + 1, (i, p) :: rest, h, hnd, e, he => by
    rw [partAux_cons, List.mem_cons] at he
    rw [List.map_cons, List.nodup_cons] at hnd
    have hmemO : ∀ a, a ∈ rest.filter (fun q => !inOrbit ops k p q.2) ↔ a ∈ rest ∧ ¬ R ops k p a.2 := by
      intro a; simp [R]
    rcases he with rfl | he
    · refine ⟨p, List.mem_cons_self, ?_⟩
      intro a ha
      rcases List.mem_cons.1 ha with rfl | ha
      · simp only [List.mem_cons, true_or, true_iff]; exact hE.refl _
      · have hne : a.1 ≠ i := fun e => hnd.1 (by rw [← e]; exact List.mem_map_of_mem (f := (·.1)) ha)
        simp only [List.mem_cons, hne, false_or, List.mem_map, List.mem_filter]
        constructor
        · rintro ⟨b, ⟨hb, hR⟩, hba⟩
          have := snd_eq_of_nodup_fst hnd.2 hb ha hba
          subst this; exact hR
        · intro hR; exact ⟨a, ⟨ha, hR⟩, rfl⟩
    · have hlen : (rest.filter (fun q => !inOrbit ops k p q.2)).length ≤ fuel :=
        Nat.le_trans (List.length_filter_le _ _) (Nat.le_of_succ_le_succ h)
      have hndO : ((rest.filter (fun q => !inOrbit ops k p q.2)).map (·.1)).Nodup :=
        hnd.2.sublist (List.filter_sublist.map _)
      obtain ⟨pg, hpg, hcl⟩ := partAux_class hE fuel _ hlen hndO e he
      have hpg' := (hmemO _).1 hpg
      refine ⟨pg, List.mem_cons_of_mem _ hpg'.1, ?_⟩
      have hsub := (partAux_mem_sublist ops k fuel _ e he).subset
      -- members of `e` are indices of `others`
      have hmem : ∀ a ∈ (i, p) :: rest, a.1 ∈ e.2 → a ∈ rest ∧ ¬ R ops k p a.2 := by
        intro a ha hin
        obtain ⟨b, hb, hba⟩ := List.mem_map.1 (hsub hin)
        have hb' := (hmemO b).1 hb
        rcases List.mem_cons.1 ha with rfl | ha
        · exact absurd (by rw [← hba]; exact List.mem_map_of_mem (f := (·.1)) hb'.1) hnd.1
        · have := snd_eq_of_nodup_fst hnd.2 hb'.1 ha hba
          subst this; exact hb'
      intro a ha
      constructor
      · intro hin
        exact (hcl a ((hmemO a).2 (hmem a ha hin))).1 hin
      · intro hR
        rcases List.mem_cons.1 ha with rfl | ha
        · exact absurd (hE.symm hR) hpg'.2
        · have hna : ¬ R ops k p a.2 := fun h' => hpg'.2 (hE.trans h' (hE.symm hR))
          exact (hcl a ((hmemO a).2 ⟨ha, hna⟩)).2 hR

/-- `partAux` only looks at positions modulo lattice translations -/
theorem partAux_map_red : ∀ (fuel : Nat) (l : List (Nat × P3)),
    partAux ops k fuel (l.map (fun a => (a.1, redP k a.2))) = partAux ops k fuel l
  | 0, l => by cases l <;> rfl
  | fuel + 1, [] => rfl
  | fuel + 1, (i, p) :: rest => by
    rw [List.map_cons, partAux_cons, partAux_cons, List.filter_map, List.filter_map, List.map_map,
      partAux_map_red fuel]
    have h1 : ((fun q : Nat × P3 => inOrbit ops k (redP k p) q.2) ∘ fun a : Nat × P3 => (a.1, redP k a.2))
        = fun q => inOrbit ops k p q.2 := by
      funext q; simp only [Function.comp]; exact (inOrbit_red ops k p q.2).symm
    have h2 : ((fun q : Nat × P3 => !inOrbit ops k (redP k p) q.2) ∘ fun a : Nat × P3 => (a.1, redP k a.2))
        = fun q => !inOrbit ops k p q.2 := by
      funext q; simp only [Function.comp]; rw [← inOrbit_red ops k p q.2]
    rw [h1, h2]
    rfl

end part

/-! ### `coremap` -/

/-- the (index, position) pairs `coremap` works on -/
def idxList (positions : List P3) : List (Nat × P3) := positions.zipIdx.map (fun pi => (pi.2, pi.1))

section core
variable (ops : List Op) (k : Int) (positions : List P3)

theorem coremap_eq : coremap ops k positions = partAux ops k positions.length (idxList positions) := rfl

theorem idxList_length : (idxList positions).length = positions.length := by simp [idxList]

theorem idxList_fst : (idxList positions).map (·.1) = List.range positions.length := by
  simp only [idxList, List.map_map]
  rw [show ((fun a : Nat × P3 => a.1) ∘ fun pi : P3 × Nat => (pi.2, pi.1)) = Prod.snd from rfl,
    List.zipIdx_map_snd, List.range_eq_range']

theorem mem_idxList {a : Nat × P3} : a ∈ idxList positions ↔ positions[a.1]? = some a.2 := by
  simp only [idxList, List.mem_map, List.mem_zipIdx_iff_getElem?]
  constructor
  · rintro ⟨b, hb, rfl⟩; exact hb
  · intro h; exact ⟨(a.2, a.1), h, rfl⟩

theorem mem_idxList_of_lt {j : Nat} (hj : j < positions.length) : (j, positions[j]) ∈ idxList positions :=
  (mem_idxList positions).2 (List.getElem?_eq_getElem hj)

/-- the member lists list every index `0 … n-1` exactly once -/
theorem coremap_perm : ((coremap ops k positions).flatMap (·.2)).Perm (List.range positions.length) := by
  rw [← idxList_fst]
  exact partAux_perm ops k _ _ (Nat.le_of_eq (idxList_length positions))

theorem coremap_mem_lt {e : Nat × List Nat} (he : e ∈ coremap ops k positions) {j : Nat} (hj : j ∈ e.2) :
    j < positions.length := by
  have := (partAux_mem_sublist ops k positions.length (idxList positions) e he).subset hj
  rw [idxList_fst] at this
  exact List.mem_range.1 this

theorem coremap_exists_class {i : Nat} (hi : i < positions.length) :
    ∃ e ∈ coremap ops k positions, i ∈ e.2 := by
  have := (coremap_perm ops k positions).symm.subset (List.mem_range.2 hi)
  obtain ⟨e, he, hie⟩ := List.mem_flatMap.1 this
  exact ⟨e, he, hie⟩

theorem coremap_members_sorted {e : Nat × List Nat} (he : e ∈ coremap ops k positions) :
    e.2.Pairwise (· < ·) := by
  have := partAux_mem_sublist ops k positions.length (idxList positions) e he
  rw [idxList_fst] at this
  exact List.pairwise_lt_range.sublist this

theorem coremap_generators_sorted : ((coremap ops k positions).map (·.1)).Pairwise (· < ·) := by
  have := partAux_fst_sublist ops k positions.length (idxList positions)
  rw [idxList_fst] at this
  exact List.pairwise_lt_range.sublist this

theorem coremap_head {e : Nat × List Nat} (he : e ∈ coremap ops k positions) : e.2.head? = some e.1 :=
  partAux_head ops k _ _ e he

/-- the generator is a member, and the least one -/
theorem coremap_gen_mem {e : Nat × List Nat} (he : e ∈ coremap ops k positions) : e.1 ∈ e.2 :=
  List.mem_of_mem_head? (by rw [coremap_head ops k positions he]; rfl)

theorem coremap_gen_le {e : Nat × List Nat} (he : e ∈ coremap ops k positions) {j : Nat} (hj : j ∈ e.2) :
    e.1 ≤ j := by
  have hs := coremap_members_sorted ops k positions he
  have hh := coremap_head ops k positions he
  obtain ⟨g, ms⟩ := e
  cases ms with
  | nil => simp at hj
  | cons a as =>
    simp only [List.head?_cons, Option.some.injEq] at hh
    subst hh
    rcases List.mem_cons.1 hj with rfl | hj
    · exact Nat.le_refl _
    · exact Nat.le_of_lt ((List.pairwise_cons.1 hs).1 j hj)

theorem coremap_disjoint : ((coremap ops k positions).map (·.2)).Pairwise List.Disjoint := by
  have hnd : ((coremap ops k positions).flatMap (·.2)).Nodup :=
    (coremap_perm ops k positions).nodup_iff.2 List.nodup_range
  rw [List.pairwise_map]
  exact (List.nodup_flatMap.1 hnd).2

/-- the class of a generator consists of exactly the listed positions in its orbit -/
theorem coremap_class (hE : Equivalence (R ops k)) {e : Nat × List Nat} (he : e ∈ coremap ops k positions) :
    ∃ hg : e.1 < positions.length, ∀ (j : Nat) (hj : j < positions.length),
      j ∈ e.2 ↔ R ops k positions[e.1] positions[j] := by
  have hnd : ((idxList positions).map (·.1)).Nodup := by rw [idxList_fst]; exact List.nodup_range
  obtain ⟨pg, hpg, hcl⟩ := partAux_class ops k hE positions.length (idxList positions) (Nat.le_of_eq (idxList_length positions)) hnd e he
  obtain ⟨hg, hpg'⟩ := List.getElem?_eq_some_iff.1 ((mem_idxList positions).1 hpg)
  simp only at hpg'
  refine ⟨hg, fun j hj => ?_⟩
  rw [hpg']
  exact hcl (j, positions[j]) (mem_idxList_of_lt positions hj)

/-- two listed indices share a member list iff their positions are in the same orbit -/
theorem sameClass_iff (hE : Equivalence (R ops k)) {i j : Nat} (hi : i < positions.length)
    (hj : j < positions.length) :
    SameClass (coremap ops k positions) i j ↔ R ops k positions[i] positions[j] := by
  constructor
  · rintro ⟨e, he, hie, hje⟩
    obtain ⟨hg, hcl⟩ := coremap_class ops k positions hE he
    exact hE.trans (hE.symm ((hcl i hi).1 hie)) ((hcl j hj).1 hje)
  · intro hR
    obtain ⟨e, he, hie⟩ := coremap_exists_class ops k positions hi
    obtain ⟨hg, hcl⟩ := coremap_class ops k positions hE he
    exact ⟨e, he, hie, (hcl j hj).2 (hE.trans ((hcl i hi).1 hie) hR)⟩

/-- a generator is the first listed position of its orbit -/
theorem coremap_gen_first (hE : Equivalence (R ops k)) {e : Nat × List Nat} (he : e ∈ coremap ops k positions)
    {j : Nat} (hj : j < positions.length) (hg : e.1 < positions.length)
    (hR : R ops k positions[j] positions[e.1]) : e.1 ≤ j := by
  obtain ⟨_, hcl⟩ := coremap_class ops k positions hE he
  exact coremap_gen_le ops k positions he ((hcl j hj).2 (hE.symm hR))

/-- index `i` is the first listed position of its orbit -/
def firstOfOrbit (i : Nat) : Bool :=
  (List.range i).all (fun j => !inOrbit ops k (positions.getD j (0, 0, 0)) (positions.getD i (0, 0, 0)))

theorem firstOfOrbit_iff {i : Nat} (hi : i < positions.length) :
    firstOfOrbit ops k positions i = true ↔
      ∀ (j : Nat) (hj : j < i), ¬ R ops k (positions[j]'(Nat.lt_trans hj hi)) positions[i] := by
  simp only [firstOfOrbit, List.all_eq_true, List.mem_range, Bool.not_eq_true', R, Bool.not_eq_true]
  constructor
  · intro h j hj
    have := h j hj
    rwa [List.getD_eq_getElem _ _ (Nat.lt_trans hj hi), List.getD_eq_getElem _ _ hi] at this
  · intro h j hj
    rw [List.getD_eq_getElem _ _ (Nat.lt_trans hj hi), List.getD_eq_getElem _ _ hi]
    exact h j hj

/-- the generators are exactly the indices that are first of their orbit, in listing order -/
theorem coremap_generators_eq (hE : Equivalence (R ops k)) :
    (coremap ops k positions).map (·.1) =
      (List.range positions.length).filter (firstOfOrbit ops k positions) := by
  have hs₁ := coremap_generators_sorted ops k positions
  have hs₂ : ((List.range positions.length).filter (firstOfOrbit ops k positions)).Pairwise (· < ·) :=
    List.pairwise_lt_range.sublist List.filter_sublist
  refine List.Perm.eq_of_pairwise (fun a b _ _ h₁ h₂ => absurd h₁ (Nat.lt_asymm h₂)) hs₁ hs₂ ?_
  rw [List.perm_ext_iff_of_nodup (hs₁.imp Nat.ne_of_lt) (hs₂.imp Nat.ne_of_lt)]
  intro g
  simp only [List.mem_map, List.mem_filter, List.mem_range]
  constructor
  · rintro ⟨e, he, rfl⟩
    obtain ⟨hg, _⟩ := coremap_class ops k positions hE he
    refine ⟨hg, (firstOfOrbit_iff ops k positions hg).2 fun j hj hR => ?_⟩
    exact absurd (coremap_gen_first ops k positions hE he (Nat.lt_trans hj hg) hg hR) (Nat.not_le.2 hj)
  · rintro ⟨hg, hf⟩
    obtain ⟨e, he, hge⟩ := coremap_exists_class ops k positions hg
    obtain ⟨hg', hcl⟩ := coremap_class ops k positions hE he
    refine ⟨e, he, ?_⟩
    rcases Nat.lt_or_eq_of_le (coremap_gen_le ops k positions he hge) with hlt | heq
    · exact absurd ((hcl g hg).1 hge) ((firstOfOrbit_iff ops k positions hg).1 hf e.1 hlt)
    · exact heq

end core

/-! ### invariance under lattice translations -/

theorem coremap_map_red (ops : List Op) (k : Int) (positions : List P3) :
    coremap ops k (positions.map (redP k)) = coremap ops k positions := by
  rw [coremap_eq, coremap_eq, List.length_map, ← partAux_map_red ops k _ (idxList positions)]
  congr 1
  simp only [idxList, List.zipIdx_map, List.map_map]
  rfl

theorem coremap_congr_red (ops : List Op) (k : Int) {positions positions' : List P3}
    (h : positions'.map (redP k) = positions.map (redP k)) :
    coremap ops k positions' = coremap ops k positions := by
  rw [← coremap_map_red ops k positions', h, coremap_map_red]

theorem map_red_zipWith_shiftBy (k : Int) : ∀ (positions shifts : List P3), positions.length ≤ shifts.length →
    (List.zipWith (shiftBy k) positions shifts).map (redP k) = positions.map (redP k)
  | [], _, _ => by simp
  | p :: ps, [], h => by simp at h
  | p :: ps, v :: vs, h => by
    simp only [List.zipWith_cons_cons, List.map_cons, redP_shiftBy,
      map_red_zipWith_shiftBy k ps vs (Nat.le_of_succ_le_succ h)]

/-! ### counting classes: two transversals of the same classes have the same length -/

theorem length_le_of_matching {α β : Type} [DecidableEq β] (r : α → β → Prop) :
    ∀ (T₁ : List α) (T₂ : List β), T₁.Pairwise (fun a a' => ∀ b ∈ T₂, r a b → ¬ r a' b) →
      (∀ a ∈ T₁, ∃ b ∈ T₂, r a b) → T₁.length ≤ T₂.length
  | [], _, _, _ => Nat.zero_le _
  | a :: T₁, T₂, hp, hex => by
    obtain ⟨b, hb, hab⟩ := hex a List.mem_cons_self
    rw [List.pairwise_cons] at hp
    have hp' : T₁.Pairwise (fun a a' => ∀ b' ∈ T₂.erase b, r a b' → ¬ r a' b') :=
      hp.2.imp (fun h b' hb' => h b' (List.mem_of_mem_erase hb'))
    have hex' : ∀ a' ∈ T₁, ∃ b' ∈ T₂.erase b, r a' b' := by
      intro a' ha'
      obtain ⟨b', hb', hab'⟩ := hex a' (List.mem_cons_of_mem _ ha')
      have hne : b' ≠ b := by
        rintro rfl
        exact hp.1 a' ha' b' hb hab hab'
      exact ⟨b', (List.mem_erase_of_ne hne).2 hb', hab'⟩
    have ih := length_le_of_matching r T₁ (T₂.erase b) hp' hex'
    rw [List.length_erase_of_mem hb] at ih
    have : 0 < T₂.length := List.length_pos_of_mem hb
    simp only [List.length_cons]
    omega

/-- a listing whose positions all occur in a second listing has at most as many classes -/
theorem coremap_length_le (ops : List Op) (k : Int) (hE : Equivalence (R ops k)) {positions positions' : List P3}
    (hsub : positions ⊆ positions') :
    (coremap ops k positions).length ≤ (coremap ops k positions').length := by
  refine length_le_of_matching
    (fun e e' => R ops k (positions.getD e.1 (0, 0, 0)) (positions'.getD e'.1 (0, 0, 0))) _ _ ?_ ?_
  · have hs := coremap_generators_sorted ops k positions
    rw [List.pairwise_map] at hs
    refine hs.imp_of_mem ?_
    intro e₁ e₂ he₁ he₂ hlt e' _ h₁ h₂
    obtain ⟨hg₁, _⟩ := coremap_class ops k positions hE he₁
    obtain ⟨hg₂, _⟩ := coremap_class ops k positions hE he₂
    have hR := hE.trans h₁ (hE.symm h₂)
    rw [List.getD_eq_getElem _ _ hg₁, List.getD_eq_getElem _ _ hg₂] at hR
    exact absurd (coremap_gen_first ops k positions hE he₂ hg₁ hg₂ hR) (Nat.not_le.2 hlt)
  · intro e he
    obtain ⟨hg, _⟩ := coremap_class ops k positions hE he
    obtain ⟨i', hi', hpi'⟩ := List.getElem_of_mem (hsub (List.getElem_mem hg))
    obtain ⟨e', he', hie'⟩ := coremap_exists_class ops k positions' hi'
    obtain ⟨hg', hcl'⟩ := coremap_class ops k positions' hE he'
    refine ⟨e', he', ?_⟩
    show R ops k (positions.getD e.1 (0, 0, 0)) (positions'.getD e'.1 (0, 0, 0))
    rw [List.getD_eq_getElem _ _ hg, List.getD_eq_getElem _ _ hg', ← hpi']
    exact hE.symm ((hcl' i' hi').1 hie')

end Partition
end DS
