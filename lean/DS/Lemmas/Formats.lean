import DS.Model.Formats
import DS.Lemmas.Dec

/-!
# Round-trip lemmas for the per-format record models (`DS.Model.Formats`)
-/
namespace DS.Formats
open DS.Dec

/-! ## helpers -/

theorem splitWs_tok_blanks {t b s : Str} (ht : IsTok t) (hb : AllWs b) (hne : b ≠ []) :
    splitWs (t ++ (b ++ s)) = t :: splitWs s := by
  cases b with
  | nil => exact absurd rfl hne
  | cons c b =>
    rw [List.cons_append, splitWs_tok_ws ht (hb c (by simp)),
      splitWs_allWs_append (fun d hd => hb d (by simp [hd]))]

theorem padRight_eq (w : Nat) (s : Str) : padRight w s = s ++ List.replicate (w - s.length) ' ' := rfl

theorem AllWs_snoc_space {b : Str} (hb : AllWs b) : AllWs (b ++ [' ']) := by
  intro c hc
  rcases List.mem_append.1 hc with h | h
  · exact hb c h
  · simp at h; subst h; exact isWs_space

theorem IsTok_of_elemOk {e : Str} (h : elemOk e = true) : IsTok e := by
  simp only [elemOk, Bool.and_eq_true, Bool.not_eq_true', List.all_eq_true] at h
  refine ⟨?_, fun c hc => isWs_of_isGraphA (h.2 c hc)⟩
  intro he; subst he; simp at h

theorem canonInt_natDigits (n : Nat) : canonInt (natDigits n) = some (n : Int) := by
  obtain ⟨c, cs, hcs, hc⟩ := natDigits_head n
  have hd := allDigits_natDigits n
  have hnum := numOf_natDigits n
  rw [hcs] at hd hnum
  rw [hcs]
  have h1 : c ≠ '-' := by rintro rfl; simp [isDigit] at hc
  unfold canonInt
  split
  · rename_i h; cases h; exact absurd rfl h1
  · by_cases hn : n = 0
    · subst hn
      rw [natDigits_zero] at hcs
      cases hcs
      simp [allDigits, isDigit, numOf, digitVal]
    · obtain ⟨c', cs', h', hne, _⟩ := natDigits_head_nonzero n (by omega)
      rw [hcs] at h'; cases h'
      simp [hd, hne, hnum]

/-! ## XYZ -/

theorem splitWs_xyzLine (a : PAtom) (h : elemOk a.el = true) :
    splitWs (xyzLine a) = [a.el, fmtG 6 a.x, fmtG 6 a.y, fmtG 6 a.z] := by
  unfold xyzLine
  rw [padRight_eq, List.append_assoc]
  have e : List.replicate (3 - a.el.length) ' ' ++ ' ' :: (fmtG 6 a.x ++ ' ' :: (fmtG 6 a.y ++ ' ' :: fmtG 6 a.z))
      = (List.replicate (3 - a.el.length) ' ' ++ [' ']) ++ (fmtG 6 a.x ++ ' ' :: (fmtG 6 a.y ++ ' ' :: fmtG 6 a.z)) := by
    simp
  rw [e, splitWs_tok_blanks (IsTok_of_elemOk h) (AllWs_snoc_space (AllWs_replicate _)) (by simp),
    splitWs_tok_ws (IsTok_fmtG 6 a.x) isWs_space, splitWs_tok_ws (IsTok_fmtG 6 a.y) isWs_space,
    splitWs_tok_end (IsTok_fmtG 6 a.z)]

theorem xyzAtoms_write (as : List PAtom) (h : as.all pAtomOk = true) :
    xyzAtoms ((as.map xyzLine).map splitWs) = .ok (as.map quantPAtomCap) := by
  induction as with
  | nil => rfl
  | cons a as ih =>
    simp only [List.all_cons, Bool.and_eq_true] at h
    obtain ⟨ha, has⟩ := h
    have hel : elemOk a.el = true := ha
    simp only [List.map_cons, splitWs_xyzLine a hel, xyzAtoms, parseDec_fmtG, ih has]
    rfl

theorem isSkip_tok_digits (n : Nat) : isSkip [natDigits n] = false := by
  obtain ⟨c, cs, hcs, hc⟩ := natDigits_head n
  have : c ≠ '#' := by rintro rfl; simp [isDigit] at hc
  simp [isSkip, hcs, this]

theorem IsTok_natDigits (n : Nat) : IsTok (natDigits n) :=
  ⟨natDigits_ne_nil n, NoWs_of_allDigits (allDigits_natDigits n)⟩

/-- line level: `parseLines(toLines(s))` -/
theorem parseXyz_writeXyz (d : XyzS) (h : d.atoms.all pAtomOk = true) :
    parseXyz (writeXyz d) = .ok (quantXyz d) := by
  obtain ⟨title, atoms⟩ := d
  simp only at h
  unfold parseXyz writeXyz
  simp only [List.map_cons, splitWs_tok_end (IsTok_natDigits _), List.takeWhile_cons, isSkip_tok_digits,
    Bool.false_eq_true, if_false, List.length_nil, List.drop_zero, Nat.zero_add, List.drop_succ_cons,
    canonInt_natDigits]
  cases atoms with
  | nil => simp [quantXyz]
  | cons a as =>
    have hw := xyzAtoms_write (a :: as) h
    simp only [List.all_cons, Bool.and_eq_true] at h
    have hel : elemOk a.el = true := h.1
    simp only [List.map_cons, splitWs_xyzLine a hel, List.map_map] at hw
    have hz : ¬ ((as.length : Int) + 1 = 0) := by omega
    simp [quantXyz, splitWs_xyzLine a hel, hw, hz]


theorem isWs_of_isNL {c : Char} (h : isNL c = true) : isWs c = true := by
  simp only [isNL, Bool.or_eq_true, beq_iff_eq] at h
  rcases h with rfl | rfl <;> decide

theorem NoNL_of_NoWs {s : Str} (h : NoWs s) : NoNL s := by
  intro c hc
  cases hn : isNL c with
  | false => rfl
  | true => have := h c hc; rw [isWs_of_isNL hn] at this; cases this

theorem NoNL_nil : NoNL [] := by intro c h; cases h
theorem NoNL_append {a b : Str} (ha : NoNL a) (hb : NoNL b) : NoNL (a ++ b) := by
  intro c h; rcases List.mem_append.1 h with h | h
  · exact ha c h
  · exact hb c h
theorem NoNL_cons {c : Char} {s : Str} (hc : isNL c = false) (hs : NoNL s) : NoNL (c :: s) := by
  intro d h; rcases List.mem_cons.1 h with h | h
  · exact h ▸ hc
  · exact hs d h
theorem NoNL_replicate_space (k : Nat) : NoNL (List.replicate k ' ') := by
  intro c h; rw [List.eq_of_mem_replicate h]; decide
theorem NoNL_of_lineOk {t : Str} (h : lineOk t = true) : NoNL t := by
  intro c hc
  simp only [lineOk, List.all_eq_true, Bool.and_eq_true, bne_iff_ne] at h
  have := h c hc
  simp [isNL, this.1, this.2]

theorem NoNL_xyzLine (a : PAtom) (h : elemOk a.el = true) : NoNL (xyzLine a) := by
  unfold xyzLine padRight
  exact NoNL_append (NoNL_append (NoNL_of_NoWs (IsTok_of_elemOk h).2) (NoNL_replicate_space _))
    (NoNL_cons (by decide) (NoNL_append (NoNL_of_NoWs (IsTok_fmtG _ _).2)
      (NoNL_cons (by decide) (NoNL_append (NoNL_of_NoWs (IsTok_fmtG _ _).2)
        (NoNL_cons (by decide) (NoNL_of_NoWs (IsTok_fmtG _ _).2))))))

theorem xyzLine_ne_nil (a : PAtom) : xyzLine a ≠ [] := by
  unfold xyzLine; simp

/-- string level: `readStr(writeStr("xyz"), "xyz")` -/
theorem roundtrip_xyz (d : XyzS) (h : reprXyz d = true) :
    parseTextXyz (writeTextXyz d) = .ok (quantXyz d) := by
  simp only [reprXyz, rangeXyz, Bool.and_eq_true] at h
  obtain ⟨ht, ha⟩ := h
  by_cases hempty : d.atoms = [] ∧ d.title = []
  · obtain ⟨title, atoms⟩ := d
    simp only at hempty
    obtain ⟨rfl, rfl⟩ := hempty
    simp only [parseTextXyz, writeTextXyz, writeXyz, List.length_nil, natDigits_zero, List.map_nil]
    have e1 : ofText (toText [['0'], []]) = [['0']] := by decide
    rw [e1]
    rfl
  unfold parseTextXyz writeTextXyz
  rw [ofText_toText (writeXyz d) (by simp [writeXyz])]
  · exact parseXyz_writeXyz d ha
  · intro l hl
    simp only [writeXyz, List.mem_cons, List.mem_map] at hl
    rcases hl with rfl | rfl | ⟨a, hmem, rfl⟩
    · exact NoNL_of_NoWs (IsTok_natDigits _).2
    · exact NoNL_of_lineOk ht
    · have := (List.all_eq_true.1 ha) a hmem
      exact NoNL_xyzLine a this
  · rcases List.eq_nil_or_concat d.atoms with hnil | ⟨as, a, hcat⟩
    · have : d.title ≠ [] := fun ht' => hempty ⟨hnil, ht'⟩
      simp [writeXyz, hnil, this]
    · simp [writeXyz, hcat, xyzLine_ne_nil]

/-! ## raw XYZ -/

theorem fmtG_head_noWs (P : Nat) (x : Rat) : ∃ c cs, fmtG P x = c :: cs ∧ isWs c = false := by
  obtain ⟨hne, hnw⟩ := IsTok_fmtG P x
  cases h : fmtG P x with
  | nil => exact absurd h hne
  | cons c cs => exact ⟨c, cs, rfl, hnw c (by simp [h])⟩

theorem lstrip_tok_head {t s : Str} (ht : IsTok t) : lstrip (t ++ s) = t ++ s := by
  obtain ⟨hne, hnw⟩ := ht
  cases t with
  | nil => exact absurd rfl hne
  | cons c t => simp [lstrip, hnw c (by simp)]

theorem rawLine_el (a : PAtom) (h : elemOk a.el = true) :
    rawLine a = a.el ++ ' ' :: (fmtG 6 a.x ++ ' ' :: (fmtG 6 a.y ++ ' ' :: fmtG 6 a.z)) := by
  unfold rawLine; exact lstrip_tok_head (IsTok_of_elemOk h)

theorem rawLine_noel (a : PAtom) (h : a.el = []) :
    rawLine a = fmtG 6 a.x ++ ' ' :: (fmtG 6 a.y ++ ' ' :: fmtG 6 a.z) := by
  unfold rawLine
  rw [h, List.nil_append]
  have : lstrip (' ' :: (fmtG 6 a.x ++ ' ' :: (fmtG 6 a.y ++ ' ' :: fmtG 6 a.z)))
      = lstrip (fmtG 6 a.x ++ ' ' :: (fmtG 6 a.y ++ ' ' :: fmtG 6 a.z)) := by
    simp [lstrip, isWs_space]
  rw [this, lstrip_tok_head (IsTok_fmtG 6 a.x)]

theorem splitWs_rawLine_el (a : PAtom) (h : elemOk a.el = true) :
    splitWs (rawLine a) = [a.el, fmtG 6 a.x, fmtG 6 a.y, fmtG 6 a.z] := by
  rw [rawLine_el a h, splitWs_tok_ws (IsTok_of_elemOk h) isWs_space,
    splitWs_tok_ws (IsTok_fmtG 6 a.x) isWs_space, splitWs_tok_ws (IsTok_fmtG 6 a.y) isWs_space,
    splitWs_tok_end (IsTok_fmtG 6 a.z)]

theorem splitWs_rawLine_noel (a : PAtom) (h : a.el = []) :
    splitWs (rawLine a) = [fmtG 6 a.x, fmtG 6 a.y, fmtG 6 a.z] := by
  rw [rawLine_noel a h, splitWs_tok_ws (IsTok_fmtG 6 a.x) isWs_space,
    splitWs_tok_ws (IsTok_fmtG 6 a.y) isWs_space, splitWs_tok_end (IsTok_fmtG 6 a.z)]

theorem isFloatTok_fmtG (P : Nat) (x : Rat) : isFloatTok (fmtG P x) = true := by
  simp [isFloatTok, parseDec_fmtG]

theorem fmtG_ne_hash (P : Nat) (x : Rat) : fmtG P x ≠ ['#'] := by
  intro e
  have := parseDec_fmtG P x
  rw [e] at this
  simp [parseDec, parseUnsigned, parseFrac, isDigit] at this

theorem rawAtoms_el (as : List PAtom) (he : ∀ a ∈ as, rawElOk a.el = true) :
    rawAtoms true 4 ((as.map rawLine).map splitWs) = .ok (as.map quantPAtom) := by
  induction as with
  | nil => rfl
  | cons a as ih =>
    have hel : elemOk a.el = true := by
      have := he a (by simp); simp only [rawElOk, Bool.and_eq_true] at this; exact this.1.1
    have ih' := ih (fun b hb => he b (by simp [hb]))
    simp only [List.map_map] at ih'
    simp only [List.map_cons, splitWs_rawLine_el a hel, rawAtoms]
    simp [parseDec_fmtG, ih', quantPAtom]

theorem rawAtoms_noel (as : List PAtom) (he : ∀ a ∈ as, a.el = []) :
    rawAtoms false 3 ((as.map rawLine).map splitWs) = .ok (as.map quantPAtom) := by
  induction as with
  | nil => rfl
  | cons a as ih =>
    have hel := he a (by simp)
    have ih' := ih (fun b hb => he b (by simp [hb]))
    simp only [List.map_map] at ih'
    simp only [List.map_cons, splitWs_rawLine_noel a hel, rawAtoms]
    simp [parseDec_fmtG, ih', quantPAtom, hel]

/-- line level: `parseLines(toLines(s))` for raw XYZ -/
theorem parseRaw_writeRaw (atoms : List PAtom) (h : reprRaw atoms = true) :
    parseRaw (writeRaw atoms) = .ok (quantRaw atoms) := by
  cases atoms with
  | nil => rfl
  | cons a as =>
    simp only [reprRaw, Bool.or_eq_true, List.all_eq_true] at h
    rcases h with he | he
    · have hel : elemOk a.el = true := by
        have := he a (by simp); simp only [rawElOk, Bool.and_eq_true] at this; exact this.1.1
      have hnf : isFloatTok a.el = false := by
        have := he a (by simp); simp only [rawElOk, Bool.and_eq_true, Bool.not_eq_true'] at this; exact this.1.2
      have hnh : a.el ≠ ['#'] := by
        have := he a (by simp); simp only [rawElOk, Bool.and_eq_true, bne_iff_ne] at this; exact this.2
      have hw := rawAtoms_el (a :: as) he
      simp only [List.map_cons, splitWs_rawLine_el a hel, List.map_map] at hw
      unfold parseRaw writeRaw
      simp [splitWs_rawLine_el a hel, isSkip, hnh, hnf, isFloatTok_fmtG, hw, quantRaw]
    · have hel : a.el = [] := by
        have := he a (by simp); simpa using this
      have he' : ∀ b ∈ a :: as, b.el = [] := fun b hb => by simpa using he b hb
      have hw := rawAtoms_noel (a :: as) he'
      simp only [List.map_cons, splitWs_rawLine_noel a hel, List.map_map] at hw
      unfold parseRaw writeRaw
      simp [splitWs_rawLine_noel a hel, isSkip, fmtG_ne_hash, isFloatTok_fmtG, hw, quantRaw]


theorem NoNL_gtail (a : PAtom) : NoNL (fmtG 6 a.x ++ ' ' :: (fmtG 6 a.y ++ ' ' :: fmtG 6 a.z)) :=
  NoNL_append (NoNL_of_NoWs (IsTok_fmtG _ _).2)
      (NoNL_cons (by decide) (NoNL_append (NoNL_of_NoWs (IsTok_fmtG _ _).2)
        (NoNL_cons (by decide) (NoNL_of_NoWs (IsTok_fmtG _ _).2))))

theorem rawLine_ok (a : PAtom) (h : elemOk a.el = true ∨ a.el = []) : NoNL (rawLine a) ∧ rawLine a ≠ [] := by
  rcases h with h | h
  · rw [rawLine_el a h]
    exact ⟨NoNL_append (NoNL_of_NoWs (IsTok_of_elemOk h).2) (NoNL_cons (by decide) (NoNL_gtail a)), by simp⟩
  · rw [rawLine_noel a h]
    exact ⟨NoNL_gtail a, by simp [(IsTok_fmtG 6 a.x).1]⟩

/-- string level: `readStr(writeStr("rawxyz"), "rawxyz")` -/
theorem roundtrip_rawxyz (atoms : List PAtom) (h : reprRaw atoms = true) :
    parseTextRaw (writeTextRaw atoms) = .ok (quantRaw atoms) := by
  by_cases hnil : atoms = []
  · subst hnil; rfl
  have hel : ∀ a ∈ atoms, elemOk a.el = true ∨ a.el = [] := by
    intro a ha
    have h' := h
    simp only [reprRaw, Bool.or_eq_true, List.all_eq_true] at h'
    rcases h' with he | he
    · left; have := he a ha; simp only [rawElOk, Bool.and_eq_true] at this; exact this.1.1
    · right; simpa using he a ha
  unfold parseTextRaw writeTextRaw
  rw [ofText_toText (writeRaw atoms) (by simpa [writeRaw] using hnil)]
  · exact parseRaw_writeRaw atoms h
  · intro l hl
    simp only [writeRaw, List.mem_map] at hl
    obtain ⟨a, ha, rfl⟩ := hl
    exact (rawLine_ok a (hel a ha)).1
  · have hmem := List.getLast_mem (l := writeRaw atoms) (by simpa [writeRaw] using hnil)
    simp only [writeRaw, List.mem_map] at hmem
    obtain ⟨a, ha, hEq⟩ := hmem
    simp only [writeRaw] at hEq ⊢
    rw [← hEq]
    exact (rawLine_ok a (hel a ha)).2



/-! ## separated, blank-padded fields -/

def NoComma (s : Str) : Prop := ∀ c ∈ s, c ≠ ','

/-- `f` is the token `t` with blanks around it (what `%ws`, `%-ws`, `%w.pf` produce) -/
def FieldOf (f t : Str) : Prop := ∃ a b, AllWs a ∧ AllWs b ∧ f = a ++ t ++ b ∧ IsTok t ∧ NoComma t

theorem commasToBlanks_noComma {s : Str} (h : NoComma s) : commasToBlanks s = s := by
  unfold commasToBlanks
  induction s with
  | nil => rfl
  | cons c s ih =>
    have hc : c ≠ ',' := h c (by simp)
    have ih' := ih (fun d hd => h d (by simp [hd]))
    simp only [List.map_cons, beq_iff_eq, hc, if_false]
    simp only [beq_iff_eq] at ih'
    rw [ih']

theorem commasToBlanks_append (a b : Str) : commasToBlanks (a ++ b) = commasToBlanks a ++ commasToBlanks b := by
  simp [commasToBlanks]

theorem NoComma_of_allWs {s : Str} (h : AllWs s) : NoComma s := by
  intro c hc e; subst e
  have := h ',' hc
  revert this; decide

theorem NoComma_append {a b : Str} (ha : NoComma a) (hb : NoComma b) : NoComma (a ++ b) := by
  intro c h; rcases List.mem_append.1 h with h | h
  · exact ha c h
  · exact hb c h

theorem FieldOf.noComma {f t : Str} (h : FieldOf f t) : NoComma f := by
  obtain ⟨a, b, ha, hb, rfl, _, hc⟩ := h
  exact NoComma_append (NoComma_append (NoComma_of_allWs ha) hc) (NoComma_of_allWs hb)

theorem FieldOf.split_last {f t : Str} (h : FieldOf f t) : splitWs f = [t] := by
  obtain ⟨a, b, ha, hb, rfl, ht, _⟩ := h
  rw [List.append_assoc, splitWs_allWs_append ha, splitWs_append_allWs hb, splitWs_tok_end ht]

theorem FieldOf.split_sep {f t sep r : Str} (h : FieldOf f t) (hs : AllWs sep) (hne : sep ≠ []) :
    splitWs (f ++ sep ++ r) = t :: splitWs r := by
  obtain ⟨a, b, ha, hb, rfl, ht, _⟩ := h
  have e : a ++ t ++ b ++ sep ++ r = a ++ (t ++ ((b ++ sep) ++ r)) := by simp
  rw [e, splitWs_allWs_append ha, splitWs_tok_blanks ht]
  · intro c hc; rcases List.mem_append.1 hc with h | h
    · exact hb c h
    · exact hs c h
  · simp [hne]

theorem splitWs_joinSep {sep : Str} (hs : AllWs sep) (hne : sep ≠ []) :
    ∀ (fs ts : List Str), List.Forall₂ FieldOf fs ts → splitWs (joinSep sep fs) = ts
  | [], [], _ => rfl
  | [f], [t], h => by
    cases h with | cons h _ => exact h.split_last
  | f :: g :: gs, t :: u :: us, h => by
    cases h with
    | cons h hr =>
      rw [joinSep, h.split_sep hs hne, splitWs_joinSep hs hne (g :: gs) (u :: us) hr]
  | [_], [], h => by cases h
  | [_], _ :: _ :: _, h => by cases h with | cons _ h => cases h
  | [], _ :: _, h => by cases h
  | _ :: _ :: _, [], h => by cases h
  | _ :: _ :: _, [_], h => by cases h with | cons _ h => cases h

theorem commasToBlanks_csv (fs : List Str) (h : ∀ f ∈ fs, NoComma f) :
    commasToBlanks (csv fs) = joinSep [' ', ' '] fs := by
  unfold csv
  induction fs with
  | nil => rfl
  | cons f gs ih =>
    cases gs with
    | nil => simpa [joinSep] using commasToBlanks_noComma (h f (by simp))
    | cons g gs =>
      have := ih (fun x hx => h x (by simp [hx]))
      rw [joinSep, joinSep, commasToBlanks_append, commasToBlanks_append, this,
        commasToBlanks_noComma (h f (by simp))]
      rfl

theorem AllWs_two : AllWs [' ', ' '] := by
  intro c h; simp at h; subst h; decide

theorem AllWs_sp (k : Nat) : AllWs (sp k) := AllWs_replicate k

theorem forall₂_left {α β} {R : α → β → Prop} {l₁ : List α} {l₂ : List β} (h : List.Forall₂ R l₁ l₂) :
    ∀ a ∈ l₁, ∃ b, R a b := by
  induction h with
  | nil => intro a ha; cases ha
  | cons hab _ ih =>
    intro a ha
    rcases List.mem_cons.1 ha with rfl | ha
    · exact ⟨_, hab⟩
    · exact ih a ha

/-- a keyword record `kw   f1, f2, …` read with `line.replace(",", " ").split()` -/
theorem splitWs_kw_csv {kw : Str} (hk : IsTok kw) (hkc : NoComma kw) (k : Nat) (hk1 : 1 ≤ k)
    (fs ts : List Str) (h : List.Forall₂ FieldOf fs ts) :
    splitWs (commasToBlanks (kw ++ sp k ++ csv fs)) = kw :: ts := by
  have hn : ∀ f ∈ fs, NoComma f := by
    intro f hf
    obtain ⟨t, ht⟩ := forall₂_left h f hf
    exact ht.noComma
  rw [commasToBlanks_append, commasToBlanks_append, commasToBlanks_noComma hkc,
    commasToBlanks_noComma (NoComma_of_allWs (AllWs_sp k)), commasToBlanks_csv fs hn, List.append_assoc,
    splitWs_tok_blanks hk (AllWs_sp k) (by cases k with | zero => omega | succ k => simp [sp, List.replicate]),
    splitWs_joinSep AllWs_two (by simp) fs ts h]



/-! ## fields produced by `%w.pf`, `%wi`, `%-ws` -/

theorem NoComma_of_allDigits {s : Str} (h : allDigits s = true) : NoComma s := by
  intro c hc e; subst e
  simp [allDigits] at h
  have := h ',' hc
  simp [isDigit] at this

theorem NoComma_nil : NoComma [] := by intro c h; cases h
theorem NoComma_cons {c : Char} {s : Str} (hc : c ≠ ',') (hs : NoComma s) : NoComma (c :: s) := by
  intro d h; rcases List.mem_cons.1 h with h | h
  · exact h ▸ hc
  · exact hs d h

theorem NoComma_signStr (neg : Bool) : NoComma (signStr neg) := by
  cases neg
  · exact NoComma_nil
  · exact NoComma_cons (by decide) NoComma_nil

theorem NoComma_fmtFbody (p : Nat) (x : Rat) : NoComma (fmtFbody p x) := by
  unfold fmtFbody fixedBody
  refine NoComma_append (NoComma_signStr _) (NoComma_append (NoComma_of_allDigits (allDigits_natDigits _)) ?_)
  split
  · exact NoComma_nil
  · exact NoComma_cons (by decide) (NoComma_of_allDigits (allDigits_fixDigits _ _))

theorem FieldOf_fmtF (w p : Nat) (x : Rat) : FieldOf (fmtF w p x) (fmtFbody p x) :=
  ⟨List.replicate (w - (fmtFbody p x).length) ' ', [], AllWs_replicate _, (by intro c h; cases h),
    by simp [fmtF, padLeft], IsTok_fmtFbody p x, NoComma_fmtFbody p x⟩

theorem IsTok_fmtIbody (n : Int) : IsTok (fmtIbody n) :=
  ⟨by simp [fmtIbody, natDigits_ne_nil], NoWs_append (NoWs_signStr _) (NoWs_of_allDigits (allDigits_natDigits _))⟩

theorem FieldOf_fmtI (w : Nat) (n : Int) : FieldOf (fmtI w n) (fmtIbody n) :=
  ⟨List.replicate (w - (fmtIbody n).length) ' ', [], AllWs_replicate _, (by intro c h; cases h),
    by simp [fmtI, padLeft], IsTok_fmtIbody n,
    NoComma_append (NoComma_signStr _) (NoComma_of_allDigits (allDigits_natDigits _))⟩

theorem parseInt_fmtIbody_nat (n : Nat) : parseInt (fmtIbody (n : Int)) = some (n : Int) := by
  obtain ⟨c, cs, hcs, hc⟩ := natDigits_head n
  have hd := allDigits_natDigits n
  have hne := natDigits_ne_nil n
  have hnum := numOf_natDigits n
  have h1 : c ≠ '-' := by rintro rfl; simp [isDigit] at hc
  have h2 : c ≠ '+' := by rintro rfl; simp [isDigit] at hc
  have hneg : ¬ ((n : Int) < 0) := by omega
  simp only [fmtIbody, signStr, hneg, decide_false, Bool.false_eq_true, if_false, List.nil_append, Int.natAbs_natCast]
  unfold parseInt
  rw [hcs] at hd hnum hne ⊢
  split
  · rename_i h; cases h; exact absurd rfl h1
  · rename_i h; cases h; exact absurd rfl h2
  · simp [parseDigitsInt, hd, hnum]

theorem FieldOf_padRight (w : Nat) (t : Str) (ht : IsTok t) (hc : NoComma t) : FieldOf (padRight w t) t :=
  ⟨[], List.replicate (w - t.length) ' ', (by intro c h; cases h), AllWs_replicate _, by simp [padRight], ht, hc⟩

/-! ## ASCII case maps keep tokens tokens -/

theorem toNat_ofNat_small (n : Nat) (h : n < 0xd800) : (Char.ofNat n).toNat = n := by
  have hv : n.isValidChar := Or.inl h
  rw [Char.ofNat, dif_pos hv]; rfl

theorem toUpperA_toNat (c : Char) :
    (toUpperA c).toNat = if isLowerA c then c.toNat - 32 else c.toNat := by
  unfold toUpperA
  split
  · rename_i h
    simp only [isLowerA, Bool.and_eq_true, decide_eq_true_eq] at h
    rw [toNat_ofNat_small _ (by omega)]
  · rfl

theorem isGraphA_toUpperA {c : Char} (h : isGraphA c = true) : isGraphA (toUpperA c) = true := by
  simp only [isGraphA, Bool.and_eq_true, decide_eq_true_eq, toUpperA_toNat] at *
  split
  · rename_i hl; simp only [isLowerA, Bool.and_eq_true, decide_eq_true_eq] at hl; omega
  · exact h

theorem toUpperA_ne {c : Char} (k : Char) (hk : k.toNat < 65) (h : c ≠ k) : toUpperA c ≠ k := by
  intro e
  have := congrArg Char.toNat e
  rw [toUpperA_toNat] at this
  split at this
  · rename_i hl; simp only [isLowerA, Bool.and_eq_true, decide_eq_true_eq] at hl; omega
  · exact h (Char.toNat_inj.1 this)



/-! ## DISCUS -/

theorem elemOkD_upper {e : Str} (h : elemOkD e = true) :
    IsTok (upper e) ∧ NoComma (upper e) ∧ (upper e).head? ≠ some '#' := by
  simp only [elemOkD, elemOk, Bool.and_eq_true, Bool.not_eq_true', List.all_eq_true, bne_iff_ne] at h
  obtain ⟨⟨⟨hne, hg⟩, hc⟩, hh⟩ := h
  refine ⟨⟨?_, ?_⟩, ?_, ?_⟩
  · cases e with
    | nil => simp at hne
    | cons c cs => simp [upper]
  · intro c hc'
    simp only [upper, List.mem_map] at hc'
    obtain ⟨d, hd, rfl⟩ := hc'
    exact isWs_of_isGraphA (isGraphA_toUpperA (hg d hd))
  · intro c hc'
    simp only [upper, List.mem_map] at hc'
    obtain ⟨d, hd, rfl⟩ := hc'
    exact toUpperA_ne ',' (by decide) (hc d hd)
  · cases e with
    | nil => simp at hne
    | cons c cs =>
      simp only [upper, List.map_cons, List.head?_cons, ne_eq, Option.some.injEq]
      simp only [List.head?_cons, ne_eq, Option.some.injEq] at hh
      exact toUpperA_ne '#' (by decide) hh

theorem NoComma_joinSep {sep : Str} (hs : NoComma sep) : ∀ fs : List Str, (∀ f ∈ fs, NoComma f) → NoComma (joinSep sep fs)
  | [], _ => NoComma_nil
  | [f], h => h f (by simp)
  | f :: g :: gs, h => by
    rw [joinSep]
    exact NoComma_append (NoComma_append (h f (by simp)) hs)
      (NoComma_joinSep hs (g :: gs) (fun x hx => h x (by simp [hx])))

theorem discusAtomLine_split (a : DAtom) (h : elemOkD a.el = true) :
    commasToBlanks (discusAtomLine a) = discusAtomLine a ∧
    splitWs (discusAtomLine a) =
      [upper a.el, fmtFbody 8 a.pos.x, fmtFbody 8 a.pos.y, fmtFbody 8 a.pos.z, fmtFbody 4 a.b] := by
  obtain ⟨ht, hc, _⟩ := elemOkD_upper h
  have hf : List.Forall₂ FieldOf
      [padRight 4 (upper a.el), fmtF 17 8 a.pos.x, fmtF 17 8 a.pos.y, fmtF 17 8 a.pos.z, fmtF 12 4 a.b]
      [upper a.el, fmtFbody 8 a.pos.x, fmtFbody 8 a.pos.y, fmtFbody 8 a.pos.z, fmtFbody 4 a.b] := by
    refine .cons (FieldOf_padRight 4 _ ht hc) (.cons (FieldOf_fmtF _ _ _) (.cons (FieldOf_fmtF _ _ _)
      (.cons (FieldOf_fmtF _ _ _) (.cons (FieldOf_fmtF _ _ _) .nil))))
  constructor
  · apply commasToBlanks_noComma
    apply NoComma_joinSep (by intro c hc e; simp at hc; subst hc; cases e)
    intro f hf'
    obtain ⟨t, ht'⟩ := forall₂_left hf f hf'
    exact ht'.noComma
  · exact splitWs_joinSep (by intro c hc; simp at hc; subst hc; decide) (by simp) _ _ hf

theorem discusAtoms_write (as : List DAtom) (h : as.all (fun a => elemOkD a.el) = true) :
    discusAtoms (as.map discusAtomLine) = .ok (as.map quantDAtom) := by
  induction as with
  | nil => rfl
  | cons a as ih =>
    simp only [List.all_cons, Bool.and_eq_true] at h
    obtain ⟨ha, has⟩ := h
    obtain ⟨h1, h2⟩ := discusAtomLine_split a ha
    obtain ⟨_, _, hh⟩ := elemOkD_upper ha
    simp only [List.map_cons, discusAtoms, h1, h2, parseDec_fmtFbody, ih has]
    simp [hh, quantDAtom]

/-- head of a keyword is not the comment mark, and keyword (dis)equalities -/
theorem kw_facts :
    kwTitle.head? ≠ some '#' ∧ kwSpcgr.head? ≠ some '#' ∧ kwShape.head? ≠ some '#' ∧ kwCell.head? ≠ some '#' ∧
    kwNcell.head? ≠ some '#' ∧ kwAtoms.head? ≠ some '#' := by decide

theorem IsTok_kw : IsTok kwTitle ∧ IsTok kwSpcgr ∧ IsTok kwShape ∧ IsTok kwCell ∧ IsTok kwNcell ∧ IsTok kwAtoms
    ∧ IsTok kwDcell ∧ IsTok kwFormat ∧ IsTok kwPdffit ∧ IsTok kwScale ∧ IsTok kwSharp := by
  refine ⟨?_, ?_, ?_, ?_, ?_, ?_, ?_, ?_, ?_, ?_, ?_⟩ <;>
  exact ⟨by decide, by intro c hc; revert c; decide⟩



theorem sp_ne_nil {k : Nat} (hk : 1 ≤ k) : sp k ≠ [] := by
  cases k with
  | zero => omega
  | succ k => simp [sp, List.replicate]

/-- the `title` record: first word and the value the readers extract -/
theorem title_line (k : Nat) (hk : 1 ≤ k) (t : Str) :
    splitWs (strip (kwTitle ++ sp k ++ t)) = kwTitle :: splitWs t ∧
    afterKw (strip (kwTitle ++ sp k ++ t)) = strip t := by
  have hT := IsTok_kw.1
  constructor
  · rw [splitWs_strip, List.append_assoc, splitWs_tok_blanks hT (AllWs_sp k) (sp_ne_nil hk)]
  · rw [List.append_assoc, strip_tok_append hT]
    unfold afterKw
    rw [lstrip_tok_append hT]
    have : (kwTitle ++ rstrip (sp k ++ t)).drop 5 = rstrip (sp k ++ t) := by
      simp [kwTitle]
    rw [this, strip_rstrip, strip, lstrip_allWs_append (AllWs_sp k)]
    rfl

theorem spcgr_line (g : Str) :
    splitWs (kwSpcgr ++ sp 3 ++ g) = kwSpcgr :: splitWs g ∧ afterKw (kwSpcgr ++ sp 3 ++ g) = strip g := by
  have hT := IsTok_kw.2.1
  constructor
  · rw [List.append_assoc, splitWs_tok_blanks hT (AllWs_sp 3) (sp_ne_nil (by omega))]
  · unfold afterKw
    rw [List.append_assoc, lstrip_tok_append hT]
    have : (kwSpcgr ++ (sp 3 ++ g)).drop 5 = sp 3 ++ g := by simp [kwSpcgr]
    rw [this, strip, lstrip_allWs_append (AllWs_sp 3)]
    rfl

theorem dropTrailingBlank_snoc (L : List Str) (l : Str) (h : (strip l).isEmpty = false) :
    dropTrailingBlank (L ++ [l]) = L ++ [l] := by
  simp [dropTrailingBlank, h]

theorem strip_ne_of_split {l : Str} (h : splitWs l ≠ []) : (strip l).isEmpty = false := by
  cases hs : strip l with
  | nil =>
    have := splitWs_strip l
    rw [hs] at this
    exact absurd this.symm h
  | cons c cs => rfl



theorem discusRecord_title (h : DHdr) (line : Str) (words : List Str) :
    discusRecord h line words kwTitle = .ok { h with title := afterKw line } := by
  unfold discusRecord
  rw [if_neg (by decide), if_neg (by decide), if_neg (by decide), if_neg (by decide), if_neg (by decide),
    if_pos rfl]

theorem discusRecord_spcgr (h : DHdr) (line : Str) (words : List Str) :
    discusRecord h line words kwSpcgr = .ok { h with spcgr := (words.drop 1).flatten } := by
  unfold discusRecord
  rw [if_neg (by decide), if_neg (by decide), if_neg (by decide), if_neg (by decide), if_pos rfl]

theorem dh_title (t : Str) (rest : List Str) (h : DHdr) :
    discusHeader (strip (kwTitle ++ sp 3 ++ t) :: rest) h = discusHeader rest { h with title := strip t } := by
  obtain ⟨h1, h2⟩ := title_line 3 (by omega) t
  rw [discusHeader, h1]
  simp only
  rw [if_neg (by decide), if_neg (by decide), discusRecord_title, h2]

theorem dh_spcgr (g : Str) (rest : List Str) (h : DHdr) :
    discusHeader ((kwSpcgr ++ sp 3 ++ g) :: rest) h = discusHeader rest { h with spcgr := noWsStr g } := by
  obtain ⟨h1, _⟩ := spcgr_line g
  rw [discusHeader, h1]
  simp only
  rw [if_neg (by decide), if_neg (by decide), discusRecord_spcgr]
  simp only [List.drop_succ_cons, List.drop_zero, flatten_splitWs]
  rfl

theorem dh_atoms (rest : List Str) (h : DHdr) : discusHeader (kwAtoms :: rest) h = .ok (h, rest) := by
  rw [discusHeader, splitWs_tok_end IsTok_kw.2.2.2.2.2.1]
  simp only
  rw [if_neg (by decide)]
  simp



theorem NoComma_sublist {a b : Str} (h : a.Sublist b) (hb : NoComma b) : NoComma a :=
  fun c hc => hb c (h.subset hc)

theorem NoComma_fmtG (P : Nat) (x : Rat) : NoComma (fmtG P x) := by
  have hfrac : ∀ ds : Str, allDigits ds = true → NoComma (fracPart ds) := by
    intro ds hd
    unfold fracPart
    simp only
    split
    · exact NoComma_nil
    · refine NoComma_cons (by decide) ?_
      intro c hc
      unfold stripZeros at hc
      rw [List.mem_reverse] at hc
      exact NoComma_of_allDigits hd c (List.mem_reverse.1 ((List.dropWhile_sublist _).subset hc))
  have hexp : ∀ X : Int, NoComma (expStr X) := by
    intro X
    unfold expStr
    refine NoComma_cons (by decide) (NoComma_cons (by split <;> decide) ?_)
    split
    · exact NoComma_cons (by decide) (NoComma_of_allDigits (allDigits_natDigits _))
    · exact NoComma_of_allDigits (allDigits_natDigits _)
  unfold fmtG
  generalize (if P = 0 then 1 else P) = Q
  unfold fmtGbody
  split
  · exact NoComma_cons (by decide) NoComma_nil
  · refine NoComma_append (NoComma_signStr _) ?_
    unfold gBody
    split
    · exact NoComma_append (NoComma_of_allDigits (allDigits_natDigits _)) (hfrac _ (allDigits_fixDigits _ _))
    · exact NoComma_append (NoComma_append (NoComma_of_allDigits (allDigits_natDigits _))
        (hfrac _ (allDigits_fixDigits _ _))) (hexp _)

/-- the `shape   <type>, <value>` record: what the two `split()`s of `_parse_shape` see -/
theorem shape_line (ty : Str) (hty : IsTok ty) (htc : NoComma ty) (P : Nat) (v : Rat) :
    splitWs (kwShape ++ sp 3 ++ ty ++ [',', ' '] ++ fmtG P v) = [kwShape, ty ++ [','], fmtG P v] ∧
    splitWs (commasToBlanks (ssv [kwShape, ty ++ [','], fmtG P v])) = [kwShape, ty, fmtG P v] ∧
    splitWs (commasToBlanks (kwShape ++ sp 3 ++ ty ++ [',', ' '] ++ fmtG P v)) = [kwShape, ty, fmtG P v] := by
  have hS := IsTok_kw.2.2.1
  have hG := IsTok_fmtG P v
  have hty' : IsTok (ty ++ [',']) := ⟨by simp, NoWs_append hty.2 (NoWs_cons (by decide) NoWs_nil)⟩
  have hSc : NoComma kwShape := by intro c hc; revert c; decide
  refine ⟨?_, ?_, ?_⟩
  · have e : kwShape ++ sp 3 ++ ty ++ [',', ' '] ++ fmtG P v = kwShape ++ (sp 3 ++ ((ty ++ [',']) ++ ' ' :: fmtG P v)) := by
      simp
    rw [e, splitWs_tok_blanks hS (AllWs_sp 3) (sp_ne_nil (by omega)), splitWs_tok_ws hty' isWs_space,
      splitWs_tok_end hG]
  · have e : commasToBlanks (ssv [kwShape, ty ++ [','], fmtG P v]) = kwShape ++ ' ' :: (ty ++ ' ' :: ' ' :: fmtG P v) := by
      simp only [ssv, joinSep, commasToBlanks_append, commasToBlanks_noComma hSc, commasToBlanks_noComma htc,
        commasToBlanks_noComma (NoComma_fmtG P v)]
      simp [commasToBlanks]
    rw [e, splitWs_tok_ws hS isWs_space, splitWs_tok_ws hty isWs_space]
    have : splitWs (' ' :: fmtG P v) = splitWs (fmtG P v) := splitWs_allWs_append (b := [' ']) (by intro c hc; simp at hc; subst hc; decide)
    rw [this, splitWs_tok_end hG]
  · have e : commasToBlanks (kwShape ++ sp 3 ++ ty ++ [',', ' '] ++ fmtG P v)
        = kwShape ++ (sp 3 ++ (ty ++ ' ' :: ' ' :: fmtG P v)) := by
      simp only [commasToBlanks_append, commasToBlanks_noComma hSc, commasToBlanks_noComma htc,
        commasToBlanks_noComma (NoComma_fmtG P v), commasToBlanks_noComma (NoComma_of_allWs (AllWs_sp 3))]
      simp [commasToBlanks]
    rw [e, splitWs_tok_blanks hS (AllWs_sp 3) (sp_ne_nil (by omega)), splitWs_tok_ws hty isWs_space]
    have : splitWs (' ' :: fmtG P v) = splitWs (fmtG P v) := splitWs_allWs_append (b := [' ']) (by intro c hc; simp at hc; subst hc; decide)
    rw [this, splitWs_tok_end hG]

theorem dh_sphere (v : Rat) (rest : List Str) (h : DHdr) :
    discusHeader ((kwShape ++ sp 3 ++ kwSphere ++ [',', ' '] ++ fmtG 6 v) :: rest) h =
      discusHeader rest { h with spd := roundSig 6 v } := by
  obtain ⟨h1, h2, _⟩ := shape_line kwSphere (by exact ⟨by decide, by intro c hc; revert c; decide⟩)
    (by intro c hc; revert c; decide) 6 v
  rw [discusHeader, h1]
  simp only
  rw [if_neg (by decide), if_neg (by decide)]
  unfold discusRecord
  rw [if_neg (by decide), if_neg (by decide), if_neg (by decide), if_neg (by decide), if_neg (by decide),
    if_neg (by decide), if_pos rfl, h2]
  simp [shapeRecord, parseDec_fmtG]

theorem dh_stepcut (v : Rat) (rest : List Str) (h : DHdr) :
    discusHeader ((kwShape ++ sp 3 ++ kwStepcut ++ [',', ' '] ++ fmtG 6 v) :: rest) h =
      discusHeader rest { h with stepcut := roundSig 6 v } := by
  obtain ⟨h1, h2, _⟩ := shape_line kwStepcut (by exact ⟨by decide, by intro c hc; revert c; decide⟩)
    (by intro c hc; revert c; decide) 6 v
  rw [discusHeader, h1]
  simp only
  rw [if_neg (by decide), if_neg (by decide)]
  unfold discusRecord
  rw [if_neg (by decide), if_neg (by decide), if_neg (by decide), if_neg (by decide), if_neg (by decide),
    if_neg (by decide), if_pos rfl, h2]
  simp [shapeRecord, parseDec_fmtG, show kwStepcut ≠ kwSphere by decide]



theorem NoComma_kw : NoComma kwCell ∧ NoComma kwNcell ∧ NoComma kwDcell ∧ NoComma kwSharp := by
  refine ⟨?_, ?_, ?_, ?_⟩ <;> (intro c hc; revert c; decide)

/-- tokens of a `cell`/`dcell` record after `replace(",", " ").split()` -/
theorem cellLine_split (kw : Str) (hk : IsTok kw) (hkc : NoComma kw) (k : Nat) (hk1 : 1 ≤ k) (c : Cell6) :
    splitWs (commasToBlanks (cellLine kw k c)) = kw :: c.toList.map (fmtFbody 6) ∧
    ∃ ws, splitWs (cellLine kw k c) = kw :: ws := by
  constructor
  · unfold cellLine
    apply splitWs_kw_csv hk hkc k hk1
    simp only [Cell6.toList, List.map_cons, List.map_nil]
    exact .cons (FieldOf_fmtF _ _ _) (.cons (FieldOf_fmtF _ _ _) (.cons (FieldOf_fmtF _ _ _)
      (.cons (FieldOf_fmtF _ _ _) (.cons (FieldOf_fmtF _ _ _) (.cons (FieldOf_fmtF _ _ _) .nil)))))
  · unfold cellLine
    rw [List.append_assoc, splitWs_tok_blanks hk (AllWs_sp k) (sp_ne_nil hk1)]
    exact ⟨_, rfl⟩

theorem ncellLine_split (n : Nat) :
    splitWs (commasToBlanks (ncellLine n)) = [kwNcell, fmtIbody 1, fmtIbody 1, fmtIbody 1, fmtIbody (n : Int)] ∧
    ∃ ws, splitWs (ncellLine n) = kwNcell :: ws := by
  constructor
  · unfold ncellLine
    apply splitWs_kw_csv IsTok_kw.2.2.2.2.1 NoComma_kw.2.1 2 (by omega)
    exact .cons (FieldOf_fmtI _ _) (.cons (FieldOf_fmtI _ _) (.cons (FieldOf_fmtI _ _) (.cons (FieldOf_fmtI _ _) .nil)))
  · unfold ncellLine
    rw [List.append_assoc, splitWs_tok_blanks IsTok_kw.2.2.2.2.1 (AllWs_sp 2) (sp_ne_nil (by omega))]
    exact ⟨_, rfl⟩

theorem mapM_parseDec_cell (c : Cell6) :
    (c.toList.map (fmtFbody 6)).mapM parseDec = some (c.toList.map (roundTo 6)) := by
  simp [Cell6.toList, parseDec_fmtFbody]

theorem dh_cell (c : Cell6) (rest : List Str) (h : DHdr) :
    discusHeader (cellLine kwCell 3 c :: rest) h =
      discusHeader rest { h with cell := c.map (roundTo 6), cellRead := true } := by
  obtain ⟨h1, ws, h2⟩ := cellLine_split kwCell IsTok_kw.2.2.2.1 NoComma_kw.1 3 (by omega) c
  rw [discusHeader, h2]
  simp only
  rw [if_neg (by decide), if_neg (by decide)]
  unfold discusRecord
  rw [if_pos rfl, h1]
  have : ((kwCell :: c.toList.map (fmtFbody 6)).drop 1).take 6 = c.toList.map (fmtFbody 6) := by
    simp [Cell6.toList]
  rw [this, mapM_parseDec_cell]
  simp [Cell6.toList, Cell6.update, Cell6.map]

theorem dh_ncell (n : Nat) (rest : List Str) (h : DHdr) :
    discusHeader (ncellLine n :: rest) h = discusHeader rest { h with ncell := some [1, 1, 1, (n : Int)] } := by
  obtain ⟨h1, ws, h2⟩ := ncellLine_split n
  rw [discusHeader, h2]
  simp only
  rw [if_neg (by decide), if_neg (by decide)]
  unfold discusRecord
  rw [if_neg (by decide), if_neg (by decide), if_neg (by decide), if_pos rfl, h1]
  have e1 := parseInt_fmtIbody_nat 1
  have en := parseInt_fmtIbody_nat n
  simp only [Nat.cast_one] at e1
  simp [e1, en]



theorem dropTrailingBlank_of_last (L : List Str) (hne : L ≠ []) (h : (strip (L.getLast hne)).isEmpty = false) :
    dropTrailingBlank L = L := by
  have := dropTrailingBlank_snoc L.dropLast (L.getLast hne) h
  rwa [List.dropLast_append_getLast hne] at this

theorem discusAtomLine_nonblank (a : DAtom) (h : elemOkD a.el = true) :
    (strip (discusAtomLine a)).isEmpty = false :=
  strip_ne_of_split (by rw [(discusAtomLine_split a h).2]; simp)

theorem getLast_append_map {α} (pre : List Str) (hpre : pre ≠ []) (f : α → Str) (as : List α) (hne : pre ++ as.map f ≠ []) :
    (pre ++ as.map f).getLast hne = pre.getLast hpre ∨ ∃ a ∈ as, (pre ++ as.map f).getLast hne = f a := by
  rcases List.eq_nil_or_concat as with rfl | ⟨bs, b, rfl⟩
  · left; simp
  · right; exact ⟨b, by simp, by simp⟩

/-- header of a written DISCUS file, evaluated -/
theorem discusHeader_write (d : DiscusS) (rest : List Str) :
    discusHeader ([strip (kwTitle ++ sp 3 ++ d.title), kwSpcgr ++ sp 3 ++ d.spcgr] ++ shapeLines d.spd d.stepcut ++
        [cellLine kwCell 3 d.cell, ncellLine d.atoms.length, kwAtoms] ++ rest) DHdr.init =
      .ok (⟨strip d.title, noWsStr d.spcgr, quantShape d.spd, quantShape d.stepcut, d.cell.map (roundTo 6), true,
            some [1, 1, 1, (d.atoms.length : Int)]⟩, rest) := by
  unfold shapeLines quantShape
  by_cases h1 : 0 < d.spd <;> by_cases h2 : 0 < d.stepcut <;>
  simp only [h1, h2, if_true, if_false, List.cons_append, List.nil_append, List.append_nil, dh_title, dh_spcgr, dh_sphere,
    dh_stepcut, dh_cell, dh_ncell, dh_atoms, DHdr.init]

theorem intProd_ncell (n : Int) : intProd [1, 1, 1, n] = n := by simp [intProd]

/-- line level: `parseLines(toLines(s))` for DISCUS -/
theorem parseDiscus_writeDiscus (d : DiscusS) (h : d.atoms.all (fun a => elemOkD a.el) = true) :
    parseDiscus (writeDiscus d) = .ok (quantDiscus d) := by
  have hdrop : dropTrailingBlank (writeDiscus d) = writeDiscus d := by
    have hne : writeDiscus d ≠ [] := by simp [writeDiscus]
    apply dropTrailingBlank_of_last _ hne
    have hpre : [strip (kwTitle ++ sp 3 ++ d.title), kwSpcgr ++ sp 3 ++ d.spcgr] ++ shapeLines d.spd d.stepcut ++
        [cellLine kwCell 3 d.cell, ncellLine d.atoms.length, kwAtoms] ≠ [] := by simp
    rcases getLast_append_map _ hpre discusAtomLine d.atoms hne with e | ⟨a, ha, e⟩
    · simp only [writeDiscus] at e ⊢
      rw [e]; simp only [List.getLast_append_of_ne_nil _ (show [cellLine kwCell 3 d.cell, ncellLine d.atoms.length, kwAtoms] ≠ [] by simp)]
      have : [cellLine kwCell 3 d.cell, ncellLine d.atoms.length, kwAtoms].getLast (by simp) = kwAtoms := rfl
      rw [this]; decide
    · simp only [writeDiscus] at e ⊢
      rw [e]; exact discusAtomLine_nonblank a (List.all_eq_true.1 h a ha)
  unfold parseDiscus
  rw [hdrop]
  unfold writeDiscus
  rw [discusHeader_write d (d.atoms.map discusAtomLine)]
  simp only [discusAtoms_write d.atoms h, intProd_ncell]
  simp [quantDiscus]



/-! ## no line breaks inside written lines -/

theorem NoNL_sublist {a b : Str} (h : a.Sublist b) (hb : NoNL b) : NoNL a :=
  fun c hc => hb c (h.subset hc)

theorem NoNL_lstrip {s : Str} (h : NoNL s) : NoNL (lstrip s) := NoNL_sublist (List.dropWhile_sublist _) h
theorem NoNL_rstrip {s : Str} (h : NoNL s) : NoNL (rstrip s) := by
  intro c hc
  unfold rstrip at hc
  rw [List.mem_reverse] at hc
  exact h c (List.mem_reverse.1 ((List.dropWhile_sublist _).subset hc))
theorem NoNL_strip {s : Str} (h : NoNL s) : NoNL (strip s) := NoNL_rstrip (NoNL_lstrip h)

theorem NoNL_sp (k : Nat) : NoNL (sp k) := NoNL_replicate_space k

theorem NoNL_padLeft (w : Nat) {s : Str} (h : NoNL s) : NoNL (padLeft w s) :=
  NoNL_append (NoNL_replicate_space _) h
theorem NoNL_padRight (w : Nat) {s : Str} (h : NoNL s) : NoNL (padRight w s) :=
  NoNL_append h (NoNL_replicate_space _)

theorem NoNL_fmtF (w p : Nat) (x : Rat) : NoNL (fmtF w p x) := NoNL_padLeft w (NoNL_of_NoWs (NoWs_fmtFbody p x))
theorem NoNL_fmtI (w : Nat) (n : Int) : NoNL (fmtI w n) := NoNL_padLeft w (NoNL_of_NoWs (IsTok_fmtIbody n).2)
theorem NoNL_fmtG (P : Nat) (x : Rat) : NoNL (fmtG P x) := NoNL_of_NoWs (IsTok_fmtG P x).2

theorem NoNL_joinSep {sep : Str} (hs : NoNL sep) : ∀ fs : List Str, (∀ f ∈ fs, NoNL f) → NoNL (joinSep sep fs)
  | [], _ => NoNL_nil
  | [f], h => h f (by simp)
  | f :: g :: gs, h => by
    rw [joinSep]
    exact NoNL_append (NoNL_append (h f (by simp)) hs)
      (NoNL_joinSep hs (g :: gs) (fun x hx => h x (by simp [hx])))

theorem NoNL_kw : NoNL kwTitle ∧ NoNL kwSpcgr ∧ NoNL kwShape ∧ NoNL kwCell ∧ NoNL kwNcell ∧ NoNL kwAtoms
    ∧ NoNL kwDcell ∧ NoNL kwFormat ∧ NoNL kwPdffit ∧ NoNL kwScale ∧ NoNL kwSharp ∧ NoNL kwSphere ∧ NoNL kwStepcut := by
  refine ⟨?_, ?_, ?_, ?_, ?_, ?_, ?_, ?_, ?_, ?_, ?_, ?_, ?_⟩ <;> (intro c hc; revert c; decide)

theorem NoNL_csvsep : NoNL [',', ' '] := by intro c hc; revert c; decide
theorem NoNL_ssvsep : NoNL [' '] := by intro c hc; revert c; decide

theorem NoNL_upper {e : Str} (h : elemOk e = true) : NoNL (upper e) := by
  intro c hc
  simp only [upper, List.mem_map] at hc
  obtain ⟨d, hd, rfl⟩ := hc
  simp only [elemOk, Bool.and_eq_true, List.all_eq_true] at h
  exact NoNL_of_NoWs (s := [toUpperA d]) (NoWs_cons (isWs_of_isGraphA (isGraphA_toUpperA (h.2 d hd))) NoWs_nil) _ (by simp)

theorem NoNL_cellLine (kw : Str) (hk : NoNL kw) (k : Nat) (c : Cell6) : NoNL (cellLine kw k c) := by
  unfold cellLine csv
  refine NoNL_append (NoNL_append hk (NoNL_sp k)) (NoNL_joinSep NoNL_csvsep _ ?_)
  intro f hf
  simp only [List.mem_map] at hf
  obtain ⟨x, _, rfl⟩ := hf
  exact NoNL_fmtF _ _ _

theorem NoNL_ncellLine (n : Nat) : NoNL (ncellLine n) := by
  unfold ncellLine csv
  refine NoNL_append (NoNL_append NoNL_kw.2.2.2.2.1 (NoNL_sp 2)) (NoNL_joinSep NoNL_csvsep _ ?_)
  intro f hf
  simp only [List.mem_cons, List.not_mem_nil, or_false] at hf
  rcases hf with rfl | rfl | rfl | rfl <;> exact NoNL_fmtI _ _

theorem NoNL_shapeLines (spd stepcut : Rat) : ∀ l ∈ shapeLines spd stepcut, NoNL l := by
  intro l hl
  unfold shapeLines at hl
  have key : ∀ ty : Str, NoNL ty → ∀ v : Rat, NoNL (kwShape ++ sp 3 ++ ty ++ [',', ' '] ++ fmtG 6 v) := by
    intro ty hty v
    exact NoNL_append (NoNL_append (NoNL_append (NoNL_append NoNL_kw.2.2.1 (NoNL_sp 3)) hty) NoNL_csvsep) (NoNL_fmtG 6 v)
  rcases List.mem_append.1 hl with h | h
  · split at h
    · simp at h; subst h; exact key _ NoNL_kw.2.2.2.2.2.2.2.2.2.2.2.1 _
    · cases h
  · split at h
    · simp at h; subst h; exact key _ NoNL_kw.2.2.2.2.2.2.2.2.2.2.2.2 _
    · cases h

theorem NoNL_titleLine (k : Nat) {t : Str} (h : lineOk t = true) : NoNL (strip (kwTitle ++ sp k ++ t)) :=
  NoNL_strip (NoNL_append (NoNL_append NoNL_kw.1 (NoNL_sp k)) (NoNL_of_lineOk h))

theorem elemOk_of_elemOkD {e : Str} (h : elemOkD e = true) : elemOk e = true := by
  simp only [elemOkD, Bool.and_eq_true] at h; exact h.1.1

theorem NoNL_discusAtomLine (a : DAtom) (h : elemOkD a.el = true) : NoNL (discusAtomLine a) := by
  unfold discusAtomLine ssv
  apply NoNL_joinSep NoNL_ssvsep
  intro f hf
  simp only [List.mem_cons, List.not_mem_nil, or_false] at hf
  rcases hf with rfl | rfl | rfl | rfl | rfl
  · exact NoNL_padRight 4 (NoNL_upper (elemOk_of_elemOkD h))
  all_goals exact NoNL_fmtF _ _ _

/-- string level: `readStr(writeStr("discus"), "discus")` -/
theorem roundtrip_discus (d : DiscusS) (h : reprDiscus d = true) :
    parseTextDiscus (writeTextDiscus d) = .ok (quantDiscus d) := by
  simp only [reprDiscus, rangeDiscus, Bool.and_eq_true] at h
  obtain ⟨⟨ht, hg⟩, ha⟩ := h
  unfold parseTextDiscus writeTextDiscus
  have hne : writeDiscus d ≠ [] := by simp [writeDiscus]
  rw [ofText_toText (writeDiscus d) hne]
  · exact parseDiscus_writeDiscus d ha
  · intro l hl
    simp only [writeDiscus, List.mem_append, List.mem_cons, List.mem_map, List.not_mem_nil, or_false] at hl
    rcases hl with (((rfl | rfl) | hl) | (rfl | rfl | rfl)) | ⟨a, hmem, rfl⟩
    · exact NoNL_titleLine 3 ht
    · exact NoNL_append (NoNL_append NoNL_kw.2.1 (NoNL_sp 3)) (NoNL_of_lineOk hg)
    · exact NoNL_shapeLines _ _ l hl
    · exact NoNL_cellLine _ NoNL_kw.2.2.2.1 _ _
    · exact NoNL_ncellLine _
    · exact NoNL_kw.2.2.2.2.2.1
    · exact NoNL_discusAtomLine a (List.all_eq_true.1 ha a hmem)
  · have hpre : [strip (kwTitle ++ sp 3 ++ d.title), kwSpcgr ++ sp 3 ++ d.spcgr] ++ shapeLines d.spd d.stepcut ++
        [cellLine kwCell 3 d.cell, ncellLine d.atoms.length, kwAtoms] ≠ [] := by simp
    rcases getLast_append_map _ hpre discusAtomLine d.atoms hne with e | ⟨a, ha', e⟩
    · simp only [writeDiscus] at e ⊢
      rw [e]; simp only [List.getLast_append_of_ne_nil _ (show [cellLine kwCell 3 d.cell, ncellLine d.atoms.length, kwAtoms] ≠ [] by simp)]
      have : [cellLine kwCell 3 d.cell, ncellLine d.atoms.length, kwAtoms].getLast (by simp) = kwAtoms := rfl
      rw [this]; decide
    · simp only [writeDiscus] at e ⊢
      rw [e]
      intro hnil
      have := discusAtomLine_nonblank a (List.all_eq_true.1 ha a ha')
      rw [hnil] at this; simp [strip, lstrip, rstrip] at this



/-! ## PDFfit -/

theorem IsTok_upper_of_elemOk {e : Str} (h : elemOk e = true) : IsTok (upper e) := by
  simp only [elemOk, Bool.and_eq_true, Bool.not_eq_true', List.all_eq_true] at h
  refine ⟨?_, ?_⟩
  · cases e with
    | nil => simp at h
    | cons c cs => simp [upper]
  · intro c hc'
    simp only [upper, List.mem_map] at hc'
    obtain ⟨d, hd, rfl⟩ := hc'
    exact isWs_of_isGraphA (isGraphA_toUpperA (h.2 d hd))

/-- blank-padded fields where commas are irrelevant (plain `split()`) -/
def PadOf (f t : Str) : Prop := ∃ a b, AllWs a ∧ AllWs b ∧ f = a ++ t ++ b ∧ IsTok t

theorem PadOf.split_last {f t : Str} (h : PadOf f t) : splitWs f = [t] := by
  obtain ⟨a, b, ha, hb, rfl, ht⟩ := h
  rw [List.append_assoc, splitWs_allWs_append ha, splitWs_append_allWs hb, splitWs_tok_end ht]

theorem PadOf.split_sep {f t sep r : Str} (h : PadOf f t) (hs : AllWs sep) (hne : sep ≠ []) :
    splitWs (f ++ sep ++ r) = t :: splitWs r := by
  obtain ⟨a, b, ha, hb, rfl, ht⟩ := h
  have e : a ++ t ++ b ++ sep ++ r = a ++ (t ++ ((b ++ sep) ++ r)) := by simp
  rw [e, splitWs_allWs_append ha, splitWs_tok_blanks ht]
  · intro c hc; rcases List.mem_append.1 hc with h | h
    · exact hb c h
    · exact hs c h
  · simp [hne]

theorem splitWs_joinSep_pad {sep : Str} (hs : AllWs sep) (hne : sep ≠ []) :
    ∀ (fs ts : List Str), List.Forall₂ PadOf fs ts → splitWs (joinSep sep fs) = ts
  | [], [], _ => rfl
  | [f], [t], h => by
    cases h with | cons h _ => exact h.split_last
  | f :: g :: gs, t :: u :: us, h => by
    cases h with
    | cons h hr =>
      rw [joinSep, h.split_sep hs hne, splitWs_joinSep_pad hs hne (g :: gs) (u :: us) hr]
  | [_], [], h => by cases h
  | [_], _ :: _ :: _, h => by cases h with | cons _ h => cases h
  | [], _ :: _, h => by cases h
  | _ :: _ :: _, [], h => by cases h
  | _ :: _ :: _, [_], h => by cases h with | cons _ h => cases h

theorem PadOf_fmtF (w p : Nat) (x : Rat) : PadOf (fmtF w p x) (fmtFbody p x) := by
  obtain ⟨a, b, ha, hb, e, ht, _⟩ := FieldOf_fmtF w p x
  exact ⟨a, b, ha, hb, e, ht⟩

theorem PadOf_padRight (w : Nat) (t : Str) (ht : IsTok t) : PadOf (padRight w t) t :=
  ⟨[], List.replicate (w - t.length) ' ', (by intro c h; cases h), AllWs_replicate _, by simp [padRight], ht⟩

theorem AllWs_one : AllWs [' '] := by intro c hc; simp at hc; subst hc; decide

theorem f3_split (v : V3) :
    splitWs (sp 4 ++ ssv (f3 v)) = [fmtFbody 8 v.x, fmtFbody 8 v.y, fmtFbody 8 v.z] := by
  rw [splitWs_allWs_append (AllWs_sp 4)]
  exact splitWs_joinSep_pad AllWs_one (by simp) _ _
    (.cons (PadOf_fmtF _ _ _) (.cons (PadOf_fmtF _ _ _) (.cons (PadOf_fmtF _ _ _) .nil)))

theorem tok3_bodies (v : V3) (rest : List Str) :
    tok3 (fmtFbody 8 v.x :: fmtFbody 8 v.y :: fmtFbody 8 v.z :: rest) = some (v.map (roundTo 8)) := by
  simp [tok3, parseDec_fmtFbody, V3.map]

theorem pdffitAtomLines_eq (a : PFAtom) : ∃ l1 l2 l3 l4 l5 l6, pdffitAtomLines a = [l1, l2, l3, l4, l5, l6] ∧
    (elemOk a.el = true → splitWs l1 = [upper a.el, fmtFbody 8 a.pos.x, fmtFbody 8 a.pos.y, fmtFbody 8 a.pos.z, fmtFbody 4 a.occ]) ∧
    splitWs l2 = [fmtFbody 8 a.sigpos.x, fmtFbody 8 a.sigpos.y, fmtFbody 8 a.sigpos.z, fmtFbody 4 a.sigo] ∧
    splitWs l3 = [fmtFbody 8 a.uii.x, fmtFbody 8 a.uii.y, fmtFbody 8 a.uii.z] ∧
    splitWs l4 = [fmtFbody 8 a.suii.x, fmtFbody 8 a.suii.y, fmtFbody 8 a.suii.z] ∧
    splitWs l5 = [fmtFbody 8 a.uij.x, fmtFbody 8 a.uij.y, fmtFbody 8 a.uij.z] ∧
    splitWs l6 = [fmtFbody 8 a.suij.x, fmtFbody 8 a.suij.y, fmtFbody 8 a.suij.z] := by
  refine ⟨_, _, _, _, _, _, rfl, ?_, ?_, f3_split _, f3_split _, f3_split _, f3_split _⟩
  · intro h
    exact splitWs_joinSep_pad AllWs_one (by simp) _ _
      (.cons (PadOf_padRight 4 _ (IsTok_upper_of_elemOk h)) (.cons (PadOf_fmtF _ _ _) (.cons (PadOf_fmtF _ _ _)
        (.cons (PadOf_fmtF _ _ _) (.cons (PadOf_fmtF _ _ _) .nil)))))
  · rw [splitWs_allWs_append (AllWs_sp 4)]
    exact splitWs_joinSep_pad AllWs_one (by simp) _ _
      (.cons (PadOf_fmtF _ _ _) (.cons (PadOf_fmtF _ _ _) (.cons (PadOf_fmtF _ _ _) (.cons (PadOf_fmtF _ _ _) .nil))))

theorem pdffitAtoms_write (as : List PFAtom) (h : as.all (fun a => elemOk a.el) = true) :
    pdffitAtoms ((as.map pdffitAtomLines).flatten) = .ok (as.map quantPFAtom) := by
  induction as with
  | nil => rfl
  | cons a as ih =>
    simp only [List.all_cons, Bool.and_eq_true] at h
    obtain ⟨ha, has⟩ := h
    obtain ⟨l1, l2, l3, l4, l5, l6, e, h1, h2, h3, h4, h5, h6⟩ := pdffitAtomLines_eq a
    simp only [List.map_cons, List.flatten_cons, e, List.cons_append, List.nil_append]
    rw [pdffitAtoms, h1 ha, h2, h3, h4, h5, h6]
    simp only [tok3_bodies, ih has]
    simp [parseDec_fmtFbody, quantPFAtom]



theorem ph_title (t : Str) (rest : List Str) (h : PHdr) :
    pdffitHeader (strip (kwTitle ++ sp 2 ++ t) :: rest) h = pdffitHeader rest { h with title := strip t } := by
  obtain ⟨h1, h2⟩ := title_line 2 (by omega) t
  rw [pdffitHeader, h1]
  simp only
  rw [if_neg (by decide), if_neg (fun hh => absurd hh.1 (by decide))]
  unfold pdffitRecord
  simp only
  rw [if_pos trivial, h2]

theorem ph_format (rest : List Str) (h : PHdr) :
    pdffitHeader ((kwFormat ++ sp 1 ++ kwPdffit) :: rest) h = pdffitHeader rest h := by
  have e : splitWs (kwFormat ++ sp 1 ++ kwPdffit) = [kwFormat, kwPdffit] := by
    rw [List.append_assoc, splitWs_tok_blanks IsTok_kw.2.2.2.2.2.2.2.1 (AllWs_sp 1) (sp_ne_nil (by omega)),
      splitWs_tok_end IsTok_kw.2.2.2.2.2.2.2.2.1]
  rw [pdffitHeader, e]
  simp only
  rw [if_neg (by decide), if_neg (fun hh => absurd hh.1 (by decide))]
  unfold pdffitRecord
  simp only
  rw [if_neg (by decide), if_neg (by decide), if_neg (by decide), if_neg (by decide), if_neg (by decide),
    if_neg (by decide), if_neg (by decide), if_neg (by decide), if_pos trivial]
  simp

theorem ph_scale (v : Rat) (rest : List Str) (h : PHdr) :
    pdffitHeader ((kwScale ++ sp 2 ++ fmtF 9 6 v) :: rest) h = pdffitHeader rest { h with scale := roundTo 6 v } := by
  have e : splitWs (kwScale ++ sp 2 ++ fmtF 9 6 v) = [kwScale, fmtFbody 6 v] := by
    rw [List.append_assoc, splitWs_tok_blanks IsTok_kw.2.2.2.2.2.2.2.2.2.1 (AllWs_sp 2) (sp_ne_nil (by omega)),
      (PadOf_fmtF 9 6 v).split_last]
  rw [pdffitHeader, e]
  simp only
  rw [if_neg (by decide), if_neg (fun hh => absurd hh.1 (by decide))]
  unfold pdffitRecord
  simp only
  rw [if_neg (by decide), if_pos trivial]
  simp [parseDec_fmtFbody]

theorem ph_sharp (a b c d : Rat) (rest : List Str) (h : PHdr) :
    pdffitHeader ((kwSharp ++ sp 2 ++ csv [fmtF 9 6 a, fmtF 9 6 b, fmtF 9 6 c, fmtF 9 6 d]) :: rest) h =
      pdffitHeader rest { h with delta2 := roundTo 6 a, delta1 := roundTo 6 b, sratio := roundTo 6 c, rcut := roundTo 6 d } := by
  have e1 : splitWs (commasToBlanks (kwSharp ++ sp 2 ++ csv [fmtF 9 6 a, fmtF 9 6 b, fmtF 9 6 c, fmtF 9 6 d]))
      = [kwSharp, fmtFbody 6 a, fmtFbody 6 b, fmtFbody 6 c, fmtFbody 6 d] :=
    splitWs_kw_csv IsTok_kw.2.2.2.2.2.2.2.2.2.2 NoComma_kw.2.2.2 2 (by omega) _ _
      (.cons (FieldOf_fmtF _ _ _) (.cons (FieldOf_fmtF _ _ _) (.cons (FieldOf_fmtF _ _ _) (.cons (FieldOf_fmtF _ _ _) .nil))))
  have e2 : ∃ ws, splitWs (kwSharp ++ sp 2 ++ csv [fmtF 9 6 a, fmtF 9 6 b, fmtF 9 6 c, fmtF 9 6 d]) = kwSharp :: ws := by
    rw [List.append_assoc, splitWs_tok_blanks IsTok_kw.2.2.2.2.2.2.2.2.2.2 (AllWs_sp 2) (sp_ne_nil (by omega))]
    exact ⟨_, rfl⟩
  obtain ⟨ws, e2⟩ := e2
  rw [pdffitHeader, e2]
  simp only
  rw [if_neg (by decide), if_neg (fun hh => absurd hh.1 (by decide))]
  unfold pdffitRecord
  simp only
  rw [if_neg (by decide), if_neg (by decide), if_pos trivial, e1]
  simp [parseDec_fmtFbody]

theorem ph_spcgr (g : Str) (rest : List Str) (h : PHdr) :
    pdffitHeader ((kwSpcgr ++ sp 3 ++ g) :: rest) h = pdffitHeader rest { h with spcgr := strip g } := by
  obtain ⟨h1, h2⟩ := spcgr_line g
  rw [pdffitHeader, h1]
  simp only
  rw [if_neg (by decide), if_neg (fun hh => absurd hh.1 (by decide))]
  unfold pdffitRecord
  simp only
  rw [if_neg (by decide), if_neg (by decide), if_neg (by decide), if_pos trivial, h2]

theorem ph_sphere (v : Rat) (rest : List Str) (h : PHdr) :
    pdffitHeader ((kwShape ++ sp 3 ++ kwSphere ++ [',', ' '] ++ fmtG 6 v) :: rest) h =
      pdffitHeader rest { h with spd := roundSig 6 v } := by
  obtain ⟨h1, _, h3⟩ := shape_line kwSphere (by exact ⟨by decide, by intro c hc; revert c; decide⟩)
    (by intro c hc; revert c; decide) 6 v
  rw [pdffitHeader, h1]
  simp only
  rw [if_neg (by decide), if_neg (fun hh => absurd hh.1 (by decide))]
  unfold pdffitRecord
  simp only
  rw [if_neg (by decide), if_neg (by decide), if_neg (by decide), if_neg (by decide), if_pos trivial, h3]
  simp [shapeRecord, parseDec_fmtG]

theorem ph_stepcut (v : Rat) (rest : List Str) (h : PHdr) :
    pdffitHeader ((kwShape ++ sp 3 ++ kwStepcut ++ [',', ' '] ++ fmtG 6 v) :: rest) h =
      pdffitHeader rest { h with stepcut := roundSig 6 v } := by
  obtain ⟨h1, _, h3⟩ := shape_line kwStepcut (by exact ⟨by decide, by intro c hc; revert c; decide⟩)
    (by intro c hc; revert c; decide) 6 v
  rw [pdffitHeader, h1]
  simp only
  rw [if_neg (by decide), if_neg (fun hh => absurd hh.1 (by decide))]
  unfold pdffitRecord
  simp only
  rw [if_neg (by decide), if_neg (by decide), if_neg (by decide), if_neg (by decide), if_pos trivial, h3]
  simp [shapeRecord, parseDec_fmtG, show kwStepcut ≠ kwSphere by decide]

theorem ph_cell (c : Cell6) (rest : List Str) (h : PHdr) :
    pdffitHeader (cellLine kwCell 3 c :: rest) h =
      pdffitHeader rest { h with cell := c.map (roundTo 6), cellRead := true } := by
  obtain ⟨h1, ws, h2⟩ := cellLine_split kwCell IsTok_kw.2.2.2.1 NoComma_kw.1 3 (by omega) c
  rw [pdffitHeader, h2]
  simp only
  rw [if_neg (by decide), if_neg (fun hh => absurd hh.1 (by decide))]
  unfold pdffitRecord
  simp only
  rw [if_neg (by decide), if_neg (by decide), if_neg (by decide), if_neg (by decide), if_neg (by decide),
    if_pos trivial, h1]
  have : ((kwCell :: c.toList.map (fmtFbody 6)).drop 1).take 6 = c.toList.map (fmtFbody 6) := by
    simp [Cell6.toList]
  rw [this, mapM_parseDec_cell]
  simp [Cell6.toList, cellOfList, Cell6.map]

theorem ph_dcell (c : Cell6) (rest : List Str) (h : PHdr) :
    pdffitHeader (cellLine kwDcell 2 c :: rest) h = pdffitHeader rest { h with dcell := c.map (roundTo 6) } := by
  obtain ⟨h1, ws, h2⟩ := cellLine_split kwDcell IsTok_kw.2.2.2.2.2.2.1 NoComma_kw.2.2.1 2 (by omega) c
  rw [pdffitHeader, h2]
  simp only
  rw [if_neg (by decide), if_neg (fun hh => absurd hh.1 (by decide))]
  unfold pdffitRecord
  simp only
  rw [if_neg (by decide), if_neg (by decide), if_neg (by decide), if_neg (by decide), if_neg (by decide),
    if_neg (by decide), if_pos trivial, h1]
  have : ((kwDcell :: c.toList.map (fmtFbody 6)).drop 1).take 6 = c.toList.map (fmtFbody 6) := by
    simp [Cell6.toList]
  rw [this, mapM_parseDec_cell]
  simp [Cell6.toList, cellOfList, Cell6.map]

theorem ph_ncell (n : Nat) (rest : List Str) (h : PHdr) :
    pdffitHeader (ncellLine n :: rest) h = pdffitHeader rest { h with ncell := [1, 1, 1, (n : Int)] } := by
  obtain ⟨h1, ws, h2⟩ := ncellLine_split n
  rw [pdffitHeader, h2]
  simp only
  rw [if_neg (by decide), if_neg (fun hh => absurd hh.1 (by decide))]
  unfold pdffitRecord
  simp only
  rw [if_neg (by decide), if_neg (by decide), if_neg (by decide), if_neg (by decide), if_neg (by decide),
    if_neg (by decide), if_neg (by decide), if_pos trivial, h1]
  have e1 := parseInt_fmtIbody_nat 1
  have en := parseInt_fmtIbody_nat n
  simp only [Nat.cast_one] at e1
  simp [e1, en]

theorem ph_atoms (rest : List Str) (h : PHdr) (hc : h.cellRead = true) :
    pdffitHeader (kwAtoms :: rest) h = .ok (h, rest) := by
  rw [pdffitHeader, splitWs_tok_end IsTok_kw.2.2.2.2.2.1]
  simp only
  rw [if_neg (by decide)]
  simp [hc]



def pdffitHead (d : PdffitS) : List Str :=
  [ strip (kwTitle ++ sp 2 ++ d.title),
    kwFormat ++ sp 1 ++ kwPdffit,
    kwScale ++ sp 2 ++ fmtF 9 6 d.scale,
    kwSharp ++ sp 2 ++ csv [fmtF 9 6 d.delta2, fmtF 9 6 d.delta1, fmtF 9 6 d.sratio, fmtF 9 6 d.rcut],
    kwSpcgr ++ sp 3 ++ d.spcgr ] ++ shapeLines d.spd d.stepcut ++
  [ cellLine kwCell 3 d.cell, cellLine kwDcell 2 d.dcell, ncellLine d.atoms.length, kwAtoms ]

theorem writePdffit_eq (d : PdffitS) : writePdffit d = pdffitHead d ++ (d.atoms.map pdffitAtomLines).flatten := rfl

theorem pdffitHeader_write (d : PdffitS) (rest : List Str) :
    pdffitHeader (pdffitHead d ++ rest) PHdr.init =
      .ok (⟨strip d.title, roundTo 6 d.scale, roundTo 6 d.delta2, roundTo 6 d.delta1, roundTo 6 d.sratio,
            roundTo 6 d.rcut, strip d.spcgr, quantShape d.spd, quantShape d.stepcut, d.cell.map (roundTo 6), true,
            d.dcell.map (roundTo 6), [1, 1, 1, (d.atoms.length : Int)]⟩, rest) := by
  unfold pdffitHead shapeLines quantShape
  by_cases h1 : 0 < d.spd <;> by_cases h2 : 0 < d.stepcut <;>
  simp only [h1, h2, if_true, if_false, List.cons_append, List.nil_append, List.append_nil, ph_title, ph_format, ph_scale,
    ph_sharp, ph_spcgr, ph_sphere, ph_stepcut, ph_cell, ph_dcell, ph_ncell, PHdr.init] <;>
  rw [ph_atoms _ _ rfl]

theorem NoNL_f3line (v : V3) (extra : List Str) (he : ∀ f ∈ extra, NoNL f) : NoNL (sp 4 ++ ssv (f3 v ++ extra)) := by
  refine NoNL_append (NoNL_sp 4) (NoNL_joinSep NoNL_ssvsep _ ?_)
  intro f hf
  rcases List.mem_append.1 hf with h | h
  · simp only [f3, List.mem_cons, List.not_mem_nil, or_false] at h
    rcases h with rfl | rfl | rfl <;> exact NoNL_fmtF _ _ _
  · exact he f h

theorem NoNL_f3line0 (v : V3) : NoNL (sp 4 ++ ssv (f3 v)) := by
  have := NoNL_f3line v [] (by intro f hf; cases hf)
  rwa [List.append_nil] at this

theorem pdffitAtomLines_NoNL (a : PFAtom) (h : elemOk a.el = true) : ∀ l ∈ pdffitAtomLines a, NoNL l := by
  intro l hl
  simp only [pdffitAtomLines, List.mem_cons, List.not_mem_nil, or_false] at hl
  rcases hl with rfl | rfl | rfl | rfl | rfl | rfl
  · apply NoNL_joinSep NoNL_ssvsep
    intro f hf
    simp only [List.mem_cons, List.not_mem_nil, or_false] at hf
    rcases hf with rfl | rfl | rfl | rfl | rfl
    · exact NoNL_padRight 4 (NoNL_upper h)
    all_goals exact NoNL_fmtF _ _ _
  · exact NoNL_f3line _ _ (by intro f hf; simp at hf; subst hf; exact NoNL_fmtF _ _ _)
  · exact NoNL_f3line0 _
  · exact NoNL_f3line0 _
  · exact NoNL_f3line0 _
  · exact NoNL_f3line0 _

theorem pdffit_last (d : PdffitS) (hne : writePdffit d ≠ []) :
    (writePdffit d).getLast hne = kwAtoms ∨ ∃ a ∈ d.atoms, (writePdffit d).getLast hne = sp 4 ++ ssv (f3 a.suij) := by
  rcases List.eq_nil_or_concat d.atoms with hnil | ⟨bs, b, hcat⟩
  · left
    simp only [writePdffit_eq, hnil, List.map_nil, List.flatten_nil, List.append_nil, pdffitHead]
    simp
  · right
    rw [List.concat_eq_append] at hcat
    refine ⟨b, by simp [hcat], ?_⟩
    have e : writePdffit d = (pdffitHead d ++ (bs.map pdffitAtomLines).flatten ++
        [ssv [padRight 4 (upper b.el), fmtF 17 8 b.pos.x, fmtF 17 8 b.pos.y, fmtF 17 8 b.pos.z, fmtF 12 4 b.occ],
          sp 4 ++ ssv (f3 b.sigpos ++ [fmtF 12 4 b.sigo]), sp 4 ++ ssv (f3 b.uii), sp 4 ++ ssv (f3 b.suii),
          sp 4 ++ ssv (f3 b.uij)]) ++ [sp 4 ++ ssv (f3 b.suij)] := by
      rw [writePdffit_eq, hcat]
      simp [pdffitAtomLines]
    simp only [e, List.getLast_append_singleton]

theorem f3line_nonblank (v : V3) : (strip (sp 4 ++ ssv (f3 v))).isEmpty = false :=
  strip_ne_of_split (by rw [f3_split]; simp)

/-- line level: `parseLines(toLines(s))` for PDFfit -/
theorem parsePdffit_writePdffit (d : PdffitS) (h : d.atoms.all (fun a => elemOk a.el) = true) :
    parsePdffit (writePdffit d) = .ok (quantPdffit d) := by
  have hne : writePdffit d ≠ [] := by simp [writePdffit]
  have hdrop : dropTrailingBlank (writePdffit d) = writePdffit d := by
    apply dropTrailingBlank_of_last _ hne
    rcases pdffit_last d hne with e | ⟨a, _, e⟩
    · rw [e]; decide
    · rw [e]; exact f3line_nonblank _
  unfold parsePdffit
  rw [hdrop, writePdffit_eq, pdffitHeader_write d]
  simp only [pdffitAtoms_write d.atoms h, intProd_ncell]
  simp [quantPdffit]

/-- string level: `readStr(writeStr("pdffit"), "pdffit")` -/
theorem roundtrip_pdffit (d : PdffitS) (h : reprPdffit d = true) :
    parseTextPdffit (writeTextPdffit d) = .ok (quantPdffit d) := by
  simp only [reprPdffit, rangePdffit, Bool.and_eq_true] at h
  obtain ⟨⟨ht, hg⟩, ha⟩ := h
  unfold parseTextPdffit writeTextPdffit
  have hne : writePdffit d ≠ [] := by simp [writePdffit]
  rw [ofText_toText (writePdffit d) hne]
  · exact parsePdffit_writePdffit d ha
  · intro l hl
    rw [writePdffit_eq] at hl
    rcases List.mem_append.1 hl with hl | hl
    · simp only [pdffitHead, List.mem_append, List.mem_cons, List.not_mem_nil, or_false] at hl
      rcases hl with ((rfl | rfl | rfl | rfl | rfl) | hl) | (rfl | rfl | rfl | rfl)
      · exact NoNL_titleLine 2 ht
      · exact NoNL_append (NoNL_append NoNL_kw.2.2.2.2.2.2.2.1 (NoNL_sp 1)) NoNL_kw.2.2.2.2.2.2.2.2.1
      · exact NoNL_append (NoNL_append NoNL_kw.2.2.2.2.2.2.2.2.2.1 (NoNL_sp 2)) (NoNL_fmtF _ _ _)
      · refine NoNL_append (NoNL_append NoNL_kw.2.2.2.2.2.2.2.2.2.2.1 (NoNL_sp 2)) (NoNL_joinSep NoNL_csvsep _ ?_)
        intro f hf
        simp only [List.mem_cons, List.not_mem_nil, or_false] at hf
        rcases hf with rfl | rfl | rfl | rfl <;> exact NoNL_fmtF _ _ _
      · exact NoNL_append (NoNL_append NoNL_kw.2.1 (NoNL_sp 3)) (NoNL_of_lineOk hg)
      · exact NoNL_shapeLines _ _ l hl
      · exact NoNL_cellLine _ NoNL_kw.2.2.2.1 _ _
      · exact NoNL_cellLine _ NoNL_kw.2.2.2.2.2.2.1 _ _
      · exact NoNL_ncellLine _
      · exact NoNL_kw.2.2.2.2.2.1
    · simp only [List.mem_flatten, List.mem_map] at hl
      obtain ⟨ls, ⟨a, hmem, rfl⟩, hl⟩ := hl
      exact pdffitAtomLines_NoNL a (List.all_eq_true.1 ha a hmem) l hl
  · rcases pdffit_last d hne with e | ⟨a, _, e⟩
    · rw [e]; decide
    · rw [e]; intro hnil
      have := f3line_nonblank a.suij
      rw [hnil] at this; simp [strip, lstrip, rstrip] at this



/-! ## fixed columns -/

theorem slice_mid {A F R : Str} {i j : Nat} (hA : A.length = i) (hF : F.length = j - i) :
    slice i j (A ++ (F ++ R)) = F := by
  unfold slice
  rw [List.drop_left' hA, List.take_left' hF]

theorem slice_end {A F : Str} {i j : Nat} (hA : A.length = i) (hF : F.length = j - i) :
    slice i j (A ++ F) = F := by
  have := slice_mid (R := []) hA hF
  simpa using this

theorem length_padLeft_of_le {w : Nat} {s : Str} (h : s.length ≤ w) : (padLeft w s).length = w := by
  simp [padLeft]; omega

theorem length_padRight_of_le {w : Nat} {s : Str} (h : s.length ≤ w) : (padRight w s).length = w := by
  simp [padRight]; omega

theorem length_fmtF_of_fits {w p : Nat} {x : Rat} (h : fitsF w p x = true) : (fmtF w p x).length = w :=
  length_padLeft_of_le (by simpa [fitsF] using h)

theorem length_fmtI_of_fits {w : Nat} {n : Int} (h : fitsI w n = true) : (fmtI w n).length = w :=
  length_padLeft_of_le (by simpa [fitsI] using h)

theorem length_sp (k : Nat) : (sp k).length = k := by simp [sp]

/-- a field one column narrower than its width starts with a blank -/
theorem fmtF_lead_blank {w p : Nat} {x : Rat} (h : fitsF w p x = true) :
    fmtF (w + 1) p x = ' ' :: fmtF w p x := by
  have h' : (fmtFbody p x).length ≤ w := by simpa [fitsF] using h
  unfold fmtF padLeft
  have : w + 1 - (fmtFbody p x).length = (w - (fmtFbody p x).length) + 1 := by omega
  rw [this, List.replicate_succ]; rfl

theorem fmtI_lead_blank {w : Nat} {n : Int} (h : fitsI w n = true) :
    fmtI (w + 1) n = ' ' :: fmtI w n := by
  have h' : (fmtIbody n).length ≤ w := by simpa [fitsI] using h
  unfold fmtI padLeft
  have : w + 1 - (fmtIbody n).length = (w - (fmtIbody n).length) + 1 := by omega
  rw [this, List.replicate_succ]; rfl

theorem strip_padRight {w : Nat} {t : Str} (ht : IsTok t) : strip (padRight w t) = t := by
  have := strip_pad (a := []) (b := List.replicate (w - t.length) ' ') (by intro c h; cases h) (AllWs_replicate _) ht.2
  simpa [padRight] using this



theorem natDigits_one : natDigits 1 = ['1'] := by
  unfold natDigits; simp [digitChar]

theorem slice_skip {A R : Str} {n i j : Nat} (hA : A.length = n) (hi : n ≤ i) :
    slice i j (A ++ R) = slice (i - n) (j - n) R := by
  unfold slice
  have : (A ++ R).drop i = R.drop (i - n) := by
    rw [List.drop_append, hA]
    have : A.drop i = [] := List.drop_eq_nil_of_le (by omega)
    rw [this]; rfl
  rw [this]
  congr 1
  omega

theorem slice_take {F R : Str} {j : Nat} (hF : F.length = j) : slice 0 j (F ++ R) = F := by
  unfold slice
  simp [List.take_left' hF]

theorem slice_take_end {F : Str} {j : Nat} (hF : F.length = j) : slice 0 j F = F := by
  have := slice_take (R := []) hF
  simpa using this

macro "skipcol " h:term : tactic =>
  `(tactic| (rw [slice_skip $h (by omega)]; simp only [Nat.reduceSub]))

/-- the columns of an ATOM record -/
structure AtomCols (L : Str) (k : Nat) (a : PdbAtom) : Prop where
  len : L.length = 80
  first : ∃ ws, splitWs L = kwATOM :: ws
  name : slice 12 16 L = padRight 4 a.name
  xyz : slice 30 54 L = fmtF 8 3 a.pos.x ++ (fmtF 8 3 a.pos.y ++ fmtF 8 3 a.pos.z)
  occ : slice 54 60 L = fmtF 6 2 a.occ
  b : slice 60 66 L = fmtF 6 2 a.b
  el : slice 76 78 L = padLeft 2 a.el
  pre : slice 6 27 L = fmtI 5 k ++ (sp 1 ++ (padRight 4 a.name ++ pdbMid.take 11))

theorem atomCols (k : Nat) (a : PdbAtom) (hk : fitsI 5 (k : Int) = true) (ha : pdbAtomOk a = true) :
    AtomCols (pdbAtomLine k a) k a := by
  simp only [pdbAtomOk, Bool.and_eq_true, decide_eq_true_eq] at ha
  obtain ⟨⟨⟨⟨⟨⟨⟨⟨⟨hn, hnl⟩, he⟩, hel⟩, hx⟩, hy⟩, hz⟩, ho⟩, hb⟩, _⟩ := ha
  have lS := length_fmtI_of_fits hk
  have lN : (padRight 4 a.name).length = 4 := length_padRight_of_le hnl
  have lX := length_fmtF_of_fits hx
  have lY : (fmtF 8 3 a.pos.y).length = 8 := by rw [fmtF_lead_blank hy]; simp [length_fmtF_of_fits hy]
  have lZ : (fmtF 8 3 a.pos.z).length = 8 := by rw [fmtF_lead_blank hz]; simp [length_fmtF_of_fits hz]
  have lO := length_fmtF_of_fits ho
  have lB := length_fmtF_of_fits hb
  have lE : (padLeft 2 a.el).length = 2 := length_padLeft_of_le hel
  have lA : kwATOM.length = 4 := rfl
  have lM : pdbMid.length = 14 := rfl
  have l2 := length_sp 2
  have l1 := length_sp 1
  have l10 := length_sp 10
  refine ⟨?_, ?_, ?_, ?_, ?_, ?_, ?_, ?_⟩
  · simp only [pdbAtomLine, List.length_append, lS, lN, lX, lY, lZ, lO, lB, lE, lA, lM, l2, l1, l10]
  · unfold pdbAtomLine
    rw [splitWs_tok_blanks ⟨by decide, by intro c hc; revert c; decide⟩ (AllWs_sp 2) (sp_ne_nil (by omega))]
    exact ⟨_, rfl⟩
  · unfold pdbAtomLine
    skipcol lA; skipcol l2; skipcol lS; skipcol l1
    exact slice_take lN
  · unfold pdbAtomLine
    skipcol lA; skipcol l2; skipcol lS; skipcol l1; skipcol lN; skipcol lM
    rw [← List.append_assoc, ← List.append_assoc, List.append_assoc (fmtF 8 3 a.pos.x)]
    exact slice_take (by simp [lX, lY, lZ])
  · unfold pdbAtomLine
    skipcol lA; skipcol l2; skipcol lS; skipcol l1; skipcol lN; skipcol lM; skipcol lX; skipcol lY; skipcol lZ
    exact slice_take lO
  · unfold pdbAtomLine
    skipcol lA; skipcol l2; skipcol lS; skipcol l1; skipcol lN; skipcol lM; skipcol lX; skipcol lY; skipcol lZ
    skipcol lO
    exact slice_take lB
  · unfold pdbAtomLine
    skipcol lA; skipcol l2; skipcol lS; skipcol l1; skipcol lN; skipcol lM; skipcol lX; skipcol lY; skipcol lZ
    skipcol lO; skipcol lB; skipcol l10
    exact slice_take lE
  · unfold pdbAtomLine
    skipcol lA; skipcol l2
    have e : ∀ R : Str, fmtI 5 ↑k ++ (sp 1 ++ (padRight 4 a.name ++ (pdbMid ++ R)))
        = (fmtI 5 ↑k ++ (sp 1 ++ (padRight 4 a.name ++ pdbMid.take 11))) ++ (pdbMid.drop 11 ++ R) := by
      intro R
      have : pdbMid = pdbMid.take 11 ++ pdbMid.drop 11 := (List.take_append_drop 11 pdbMid).symm
      conv_lhs => rw [this]
      simp only [List.append_assoc]
    rw [e]
    exact slice_take (by simp [lS, l1, lN, lM])



theorem xyz_cols_split (a : PdbAtom) (hy : fitsF 7 3 a.pos.y = true) (hz : fitsF 7 3 a.pos.z = true) :
    splitWs (fmtF 8 3 a.pos.x ++ (fmtF 8 3 a.pos.y ++ fmtF 8 3 a.pos.z)) =
      [fmtFbody 3 a.pos.x, fmtFbody 3 a.pos.y, fmtFbody 3 a.pos.z] := by
  rw [fmtF_lead_blank hy, fmtF_lead_blank hz]
  have e : fmtF 8 3 a.pos.x ++ (' ' :: fmtF 7 3 a.pos.y ++ ' ' :: fmtF 7 3 a.pos.z)
      = fmtF 8 3 a.pos.x ++ [' '] ++ (fmtF 7 3 a.pos.y ++ [' '] ++ fmtF 7 3 a.pos.z) := by simp
  rw [e, (PadOf_fmtF 8 3 a.pos.x).split_sep AllWs_one (by simp), (PadOf_fmtF 7 3 a.pos.y).split_sep AllWs_one (by simp),
    (PadOf_fmtF 7 3 a.pos.z).split_last]

theorem strip_padLeft' {w : Nat} {t : Str} (ht : IsTok t) : strip (padLeft w t) = t := strip_padLeft w ht.2

theorem floatOr_fmtF (w p : Nat) (x d : Rat) : floatOr (fmtF w p x) d = roundTo p x := by
  simp [floatOr, pyFloat_fmtF]

theorem pl_atom (k : Nat) (a : PdbAtom) (rest : List Str) (st : PdbSt) (hk : fitsI 5 (k : Int) = true)
    (ha : pdbAtomOk a = true) :
    pdbLoop (pdbAtomLine k a :: rest) st =
      pdbLoop rest { st with ratoms := ⟨a.name, a.el, a.pos.map (roundTo 3), roundTo 2 a.occ, roundTo 2 a.b, none⟩ :: st.ratoms } := by
  have C := atomCols k a hk ha
  simp only [pdbAtomOk, Bool.and_eq_true, decide_eq_true_eq] at ha
  obtain ⟨⟨⟨⟨⟨⟨⟨⟨⟨hn, hnl⟩, he⟩, hel⟩, hx⟩, hy⟩, hz⟩, ho⟩, hb⟩, _⟩ := ha
  obtain ⟨ws, hws⟩ := C.first
  have hnb : (strip (pdbAtomLine k a)).isEmpty = false := strip_ne_of_split (by rw [hws]; simp)
  have hel' : (strip (padLeft 2 a.el)).isEmpty = false := by
    rw [strip_padLeft' (IsTok_of_elemOk he)]; exact isEmpty_false_of_ne (IsTok_of_elemOk he).1
  rw [pdbLoop, if_neg (by simp [hnb])]
  simp only [C.len, Nat.lt_irrefl, if_false, hws]
  unfold pdbRecord
  rw [if_neg (by decide), if_neg (by decide), if_neg (by decide), if_pos (Or.inl rfl)]
  simp only [C.name, C.xyz, C.occ, C.b, C.el, xyz_cols_split a hy hz, strip_padRight (IsTok_of_elemOk hn),
    strip_padLeft' (IsTok_of_elemOk he), floatOr_fmtF, List.mapM_cons, List.mapM_nil, parseDec_fmtFbody]
  simp [isEmpty_false_of_ne (IsTok_of_elemOk he).1, V3.map]



theorem parseDec_fmtIbody (n : Int) : parseDec (fmtIbody n) = some (n : Rat) := by
  obtain ⟨c, cs, hcs, hc⟩ := natDigits_head n.natAbs
  unfold fmtIbody
  rw [hcs, parseDec_sign _ c cs hc, ← hcs, parseUnsigned_int _ _ (allDigits_natDigits _) (natDigits_ne_nil _),
    decValue_zero, numOf_natDigits]
  simp only [List.length_nil, pow_zero, Nat.mul_one, numOf_nil, Nat.add_zero, Nat.cast_one, div_one]
  by_cases h : n < 0
  · simp only [h, decide_true, if_true]
    have : ((n.natAbs : Nat) : Int) = -n := by omega
    rw [← Int.cast_natCast, this]; simp
  · simp only [h, decide_false, Bool.false_eq_true, if_false]
    have : ((n.natAbs : Nat) : Int) = n := by omega
    rw [← Int.cast_natCast, this]; simp

theorem PadOf_fmtI (w : Nat) (n : Int) : PadOf (fmtI w n) (fmtIbody n) := by
  obtain ⟨a, b, ha, hb, e, ht, _⟩ := FieldOf_fmtI w n
  exact ⟨a, b, ha, hb, e, ht⟩

theorem anisou_ints_split (u0 u1 u2 u3 u4 u5 : Int) (h1 : fitsI 6 u1 = true) (h2 : fitsI 6 u2 = true)
    (h3 : fitsI 6 u3 = true) (h4 : fitsI 6 u4 = true) (h5 : fitsI 6 u5 = true) :
    splitWs (([u0, u1, u2, u3, u4, u5].map (fmtI 7)).flatten) =
      [fmtIbody u0, fmtIbody u1, fmtIbody u2, fmtIbody u3, fmtIbody u4, fmtIbody u5] := by
  simp only [List.map_cons, List.map_nil, List.flatten_cons, List.flatten_nil, List.append_nil]
  rw [fmtI_lead_blank h1, fmtI_lead_blank h2, fmtI_lead_blank h3, fmtI_lead_blank h4, fmtI_lead_blank h5]
  have e : fmtI 7 u0 ++ (' ' :: fmtI 6 u1 ++ (' ' :: fmtI 6 u2 ++ (' ' :: fmtI 6 u3 ++ (' ' :: fmtI 6 u4 ++ ' ' :: fmtI 6 u5))))
      = fmtI 7 u0 ++ [' '] ++ (fmtI 6 u1 ++ [' '] ++ (fmtI 6 u2 ++ [' '] ++ (fmtI 6 u3 ++ [' '] ++ (fmtI 6 u4 ++ [' '] ++ fmtI 6 u5)))) := by
    simp
  rw [e, (PadOf_fmtI 7 u0).split_sep AllWs_one (by simp), (PadOf_fmtI 6 u1).split_sep AllWs_one (by simp),
    (PadOf_fmtI 6 u2).split_sep AllWs_one (by simp), (PadOf_fmtI 6 u3).split_sep AllWs_one (by simp),
    (PadOf_fmtI 6 u4).split_sep AllWs_one (by simp), (PadOf_fmtI 6 u5).split_last]

theorem pl_anisou (k : Nat) (a : PdbAtom) (u : List Int) (rest : List Str) (st : PdbSt) (last : PdbAtom) (before : List PdbAtom)
    (hst : st.ratoms = last :: before) (hk : fitsI 4 (k : Int) = true) (ha : pdbAtomOk a = true) (hu : pdbAnisoOk u = true) :
    pdbLoop (pdbAnisouLine (pdbAtomLine k a) u :: rest) st =
      pdbLoop rest { st with ratoms := { last with aniso := some u } :: before } := by
  have hk5 : fitsI 5 (k : Int) = true := by simp only [fitsI, decide_eq_true_eq] at hk ⊢; omega
  have C := atomCols k a hk5 ha
  obtain ⟨u0, u1, u2, u3, u4, u5, rfl, h0, h1, h2, h3, h4, h5⟩ :
      ∃ u0 u1 u2 u3 u4 u5, u = [u0, u1, u2, u3, u4, u5] ∧ fitsI 7 u0 = true ∧ fitsI 6 u1 = true ∧ fitsI 6 u2 = true ∧
        fitsI 6 u3 = true ∧ fitsI 6 u4 = true ∧ fitsI 6 u5 = true := by
    unfold pdbAnisoOk at hu
    split at hu
    · simp only [Bool.and_eq_true] at hu
      exact ⟨_, _, _, _, _, _, rfl, hu.1.1.1.1.1, hu.1.1.1.1.2, hu.1.1.1.2, hu.1.1.2, hu.1.2, hu.2⟩
    · cases hu
  have lK : kwANISOU.length = 6 := rfl
  have lS1 : (slice 6 27 (pdbAtomLine k a)).length = 21 := by simp [slice, C.len]
  have lS2 : (slice 72 80 (pdbAtomLine k a)).length = 8 := by simp [slice, C.len]
  have l1 := length_sp 1
  have l2 := length_sp 2
  have lI : (([u0, u1, u2, u3, u4, u5].map (fmtI 7)).flatten).length = 42 := by
    simp [length_fmtI_of_fits h0, fmtI_lead_blank h1, fmtI_lead_blank h2, fmtI_lead_blank h3, fmtI_lead_blank h4,
      fmtI_lead_blank h5, length_fmtI_of_fits h1, length_fmtI_of_fits h2, length_fmtI_of_fits h3, length_fmtI_of_fits h4,
      length_fmtI_of_fits h5]
  have hlen : (pdbAnisouLine (pdbAtomLine k a) [u0, u1, u2, u3, u4, u5]).length = 80 := by
    simp only [pdbAnisouLine, List.length_append, lK, lS1, lS2, l1, l2, lI]
  have hfirst : ∃ ws, splitWs (pdbAnisouLine (pdbAtomLine k a) [u0, u1, u2, u3, u4, u5]) = kwANISOU :: ws := by
    unfold pdbAnisouLine
    rw [C.pre, fmtI_lead_blank hk]
    simp only [List.cons_append]
    rw [splitWs_tok_ws (t := kwANISOU) ⟨by decide, by intro c hc; revert c; decide⟩ isWs_space]
    exact ⟨_, rfl⟩
  have hints : slice 28 70 (pdbAnisouLine (pdbAtomLine k a) [u0, u1, u2, u3, u4, u5])
      = ([u0, u1, u2, u3, u4, u5].map (fmtI 7)).flatten := by
    unfold pdbAnisouLine
    skipcol lK; skipcol lS1; skipcol l1
    exact slice_take lI
  obtain ⟨ws, hws⟩ := hfirst
  have hnb : (strip (pdbAnisouLine (pdbAtomLine k a) [u0, u1, u2, u3, u4, u5])).isEmpty = false :=
    strip_ne_of_split (by rw [hws]; simp)
  rw [pdbLoop, if_neg (by simp [hnb])]
  simp only [hlen, Nat.lt_irrefl, if_false, hws]
  unfold pdbRecord
  rw [if_neg (by decide), if_neg (by decide), if_neg (by decide), if_neg (by decide), if_pos (Or.inr (Or.inl rfl)), hst]
  simp only [hints, anisou_ints_split u0 u1 u2 u3 u4 u5 h1 h2 h3 h4 h5, List.mapM_cons, List.mapM_nil, parseDec_fmtIbody]
  simp



theorem other_ter : pdbOtherRecords.contains kwTER = true := by decide
theorem other_end : pdbOtherRecords.contains kwEND = true := by decide

/-- a record whose name is accepted and ignored -/
theorem pl_other (kw R : Str) (hk : IsTok kw) (hc : pdbOtherRecords.contains kw = true)
    (h1 : kw ≠ kwTITLE) (h2 : kw ≠ kwCRYST1) (h3 : ¬ (kw = kwSCALE '1' ∨ kw = kwSCALE '2' ∨ kw = kwSCALE '3'))
    (h4 : ¬ (kw = kwATOM ∨ kw = kwHETATM)) (h5 : ¬ (kw = kwSIGATM ∨ kw = kwANISOU ∨ kw = kwSIGUIJ))
    (rest : List Str) (st : PdbSt) :
    pdbLoop ((kw ++ ' ' :: R) :: rest) st = pdbLoop rest st := by
  have hs : ∀ L : Str, (L = kw ++ ' ' :: R ∨ L = padRight 80 (kw ++ ' ' :: R)) → ∃ ws, splitWs L = kw :: ws := by
    intro L hL
    rcases hL with rfl | rfl
    · rw [splitWs_tok_ws hk isWs_space]; exact ⟨_, rfl⟩
    · unfold padRight; rw [splitWs_append_allWs (AllWs_replicate _), splitWs_tok_ws hk isWs_space]; exact ⟨_, rfl⟩
  have hnb : (strip (kw ++ ' ' :: R)).isEmpty = false := by
    obtain ⟨ws, h⟩ := hs _ (Or.inl rfl)
    exact strip_ne_of_split (by rw [h]; simp)
  rw [pdbLoop, if_neg (by simp [hnb])]
  by_cases hl : (kw ++ ' ' :: R).length < 80
  · obtain ⟨ws, h⟩ := hs _ (Or.inr rfl)
    simp only [hl, if_true, h]
    unfold pdbRecord
    rw [if_neg h1, if_neg h2, if_neg h3, if_neg h4, if_neg h5, if_pos hc]
  · obtain ⟨ws, h⟩ := hs _ (Or.inl rfl)
    simp only [hl, if_false, h]
    unfold pdbRecord
    rw [if_neg h1, if_neg h2, if_neg h3, if_neg h4, if_neg h5, if_pos hc]

theorem pl_ter (n : Nat) (rest : List Str) (st : PdbSt) : pdbLoop (pdbTerLine n :: rest) st = pdbLoop rest st := by
  have e : pdbTerLine n = kwTER ++ ' ' :: (sp 2 ++ fmtI 5 ((n : Int) + 1) ++ sp 6 ++ sp 3 ++ sp 1 ++ sp 1 ++ fmtI 4 1 ++ sp 1 ++ padLeft 53 (sp 1)) := by
    simp [pdbTerLine, sp, List.replicate]
  rw [e]
  exact pl_other kwTER _ ⟨by decide, by intro c hc; revert c; decide⟩ other_ter (by decide) (by decide) (by decide)
    (by decide) (by decide) rest st

theorem pl_end (rest : List Str) (st : PdbSt) : pdbLoop (padRight 80 kwEND :: rest) st = pdbLoop rest st := by
  have e : padRight 80 kwEND = kwEND ++ ' ' :: sp 76 := by decide
  rw [e]
  exact pl_other kwEND _ ⟨by decide, by intro c hc; revert c; decide⟩ other_end (by decide) (by decide) (by decide)
    (by decide) (by decide) rest st

/-- TITLE record of a title that fits one record -/
theorem pl_title (t : Str) (ht : t.length ≤ 60) (rest : List Str) (st : PdbSt) :
    pdbLoop (pdbTitleLine 0 t :: rest) st = pdbLoop rest { st with title := rstrip t } := by
  have e : pdbTitleLine 0 t = kwTITLE ++ (sp 3 ++ (sp 2 ++ (t ++ sp (70 - t.length)))) := by
    simp only [pdbTitleLine, if_true, padRight, List.append_assoc, List.length_append, length_sp]
    have : kwTITLE.length = 5 := rfl
    rw [this]
    have : 80 - (5 + (3 + (2 + t.length))) = 70 - t.length := by omega
    rw [this]; rfl
  have hlen : (pdbTitleLine 0 t).length = 80 := by
    rw [e]; simp only [List.length_append, length_sp]
    have h5 : kwTITLE.length = 5 := rfl
    rw [h5]; omega
  have hfirst : ∃ ws, splitWs (pdbTitleLine 0 t) = kwTITLE :: ws := by
    rw [e, splitWs_tok_blanks ⟨by decide, by intro c hc; revert c; decide⟩ (AllWs_sp 3) (sp_ne_nil (by omega))]
    exact ⟨_, rfl⟩
  obtain ⟨ws, hws⟩ := hfirst
  have hnb : (strip (pdbTitleLine 0 t)).isEmpty = false := strip_ne_of_split (by rw [hws]; simp)
  have h810 : slice 8 10 (pdbTitleLine 0 t) = sp 2 := by
    rw [e]
    have lT : kwTITLE.length = 5 := rfl
    skipcol lT; skipcol (length_sp 3)
    exact slice_take (length_sp 2)
  have hdrop : (pdbTitleLine 0 t).drop 10 = t ++ sp (70 - t.length) := by
    rw [e]
    have : kwTITLE ++ (sp 3 ++ (sp 2 ++ (t ++ sp (70 - t.length)))) = (kwTITLE ++ sp 3 ++ sp 2) ++ (t ++ sp (70 - t.length)) := by
      simp only [List.append_assoc]
    rw [this, List.drop_left' (by simp [length_sp]; rfl)]
  rw [pdbLoop, if_neg (by simp [hnb])]
  simp only [hlen, Nat.lt_irrefl, if_false, hws]
  unfold pdbRecord
  rw [if_pos rfl, h810, hdrop, rstrip_append_allWs (AllWs_sp _)]
  have : (strip (sp 2)).isEmpty = true := by decide
  simp [this]



theorem pl_cryst (c : Cell6) (hc : pdbCellOk c = true) (rest : List Str) (st : PdbSt) :
    pdbLoop (pdbCrystLine c :: rest) st = pdbLoop rest { st with cell := some (quantPdbCell c) } := by
  simp only [pdbCellOk, Bool.and_eq_true] at hc
  obtain ⟨⟨⟨⟨⟨ha, hb⟩, hcc⟩, hal⟩, hbe⟩, hga⟩ := hc
  have lK : kwCRYST1.length = 6 := rfl
  have lA8 := length_fmtF_of_fits ha
  have lA : (fmtF 9 3 c.a).length = 9 := by rw [fmtF_lead_blank ha]; simp [lA8]
  have lB := length_fmtF_of_fits hb
  have lC := length_fmtF_of_fits hcc
  have lAl := length_fmtF_of_fits hal
  have lBe := length_fmtF_of_fits hbe
  have lGa := length_fmtF_of_fits hga
  have l1 : [' '].length = 1 := rfl
  have e : pdbCrystLine c = kwCRYST1 ++ (fmtF 9 3 c.a ++ (fmtF 9 3 c.b ++ (fmtF 9 3 c.c ++ (fmtF 7 2 c.al ++ (fmtF 7 2 c.be ++ (fmtF 7 2 c.ga ++ sp 26)))))) := by
    simp only [pdbCrystLine, padRight, List.length_append, lK, lA, lB, lC, lAl, lBe, lGa, List.append_assoc]
    rfl
  have hlen : (pdbCrystLine c).length = 80 := by
    rw [e]; simp only [List.length_append, lK, lA, lB, lC, lAl, lBe, lGa, length_sp]
  have hfirst : ∃ ws, splitWs (pdbCrystLine c) = kwCRYST1 :: ws := by
    rw [e, fmtF_lead_blank ha]
    simp only [List.cons_append]
    rw [splitWs_tok_ws (t := kwCRYST1) ⟨by decide, by intro c hc; revert c; decide⟩ isWs_space]
    exact ⟨_, rfl⟩
  obtain ⟨ws, hws⟩ := hfirst
  have hnb : (strip (pdbCrystLine c)).isEmpty = false := strip_ne_of_split (by rw [hws]; simp)
  have s1 : slice 7 15 (pdbCrystLine c) = fmtF 8 3 c.a := by
    rw [e]; skipcol lK
    rw [fmtF_lead_blank ha]
    have : (' ' :: fmtF 8 3 c.a) = [' '] ++ fmtF 8 3 c.a := rfl
    rw [this, List.append_assoc]
    skipcol l1
    exact slice_take lA8
  have s2 : slice 15 24 (pdbCrystLine c) = fmtF 9 3 c.b := by
    rw [e]; skipcol lK; skipcol lA; exact slice_take lB
  have s3 : slice 24 33 (pdbCrystLine c) = fmtF 9 3 c.c := by
    rw [e]; skipcol lK; skipcol lA; skipcol lB; exact slice_take lC
  have s4 : slice 33 40 (pdbCrystLine c) = fmtF 7 2 c.al := by
    rw [e]; skipcol lK; skipcol lA; skipcol lB; skipcol lC; exact slice_take lAl
  have s5 : slice 40 47 (pdbCrystLine c) = fmtF 7 2 c.be := by
    rw [e]; skipcol lK; skipcol lA; skipcol lB; skipcol lC; skipcol lAl; exact slice_take lBe
  have s6 : slice 47 54 (pdbCrystLine c) = fmtF 7 2 c.ga := by
    rw [e]; skipcol lK; skipcol lA; skipcol lB; skipcol lC; skipcol lAl; skipcol lBe; exact slice_take lGa
  rw [pdbLoop, if_neg (by simp [hnb])]
  simp only [hlen, Nat.lt_irrefl, if_false, hws]
  unfold pdbRecord
  rw [if_neg (by decide), if_pos rfl, s1, s2, s3, s4, s5, s6]
  simp only [pyFloat_fmtF]
  rfl



theorem length_natDigits_le (m : Nat) (hm : 1 ≤ m) : ∀ n : Nat, n < 10 ^ m → (natDigits n).length ≤ m := by
  induction m with
  | zero => omega
  | succ m ih =>
    intro n hn
    unfold natDigits
    split
    · simp
    · rename_i h10
      have hm1 : 1 ≤ m := by
        by_contra hc
        have : m = 0 := by omega
        subst this; simp at hn; omega
      have : n / 10 < 10 ^ m := by
        rw [Nat.div_lt_iff_lt_mul (by norm_num)]; rw [pow_succ] at hn; exact hn
      have := ih hm1 (n / 10) this
      simp; omega

theorem fitsI_nat (w : Nat) (hw : 1 ≤ w) (n : Nat) (hn : n < 10 ^ w) : fitsI w (n : Int) = true := by
  have : fmtIbody (n : Int) = natDigits n := by
    have hneg : ¬ ((n : Int) < 0) := by omega
    simp [fmtIbody, signStr, hneg]
  simp only [fitsI, decide_eq_true_eq, this]
  exact length_natDigits_le w hw n hn

theorem titleChunks_short (t : Str) (hne : t ≠ []) (hl : t.length ≤ 60) : titleChunks (t.length + 1) t = [t] := by
  have h1 : t.isEmpty = false := isEmpty_false_of_ne hne
  have h2 : ¬ (t.length > 60) := by omega
  rw [titleChunks]
  simp only [h1, Bool.false_eq_true, if_false, h2, List.take_length, List.drop_length]
  cases ht : t.length with
  | zero => simp [titleChunks]
  | succ n => simp [titleChunks]

theorem pl_atoms (as : List PdbAtom) : ∀ (k : Nat) (rest : List Str) (st : PdbSt),
    as.all pdbAtomOk = true → k + as.length ≤ 9999 →
    pdbLoop (pdbAtomsLines k as ++ rest) st =
      pdbLoop rest { st with ratoms := (as.map quantPdbAtom).reverse ++ st.ratoms } := by
  induction as with
  | nil => intro k rest st _ _; simp [pdbAtomsLines]
  | cons a as ih =>
    intro k rest st hall hk
    simp only [List.all_cons, Bool.and_eq_true] at hall
    obtain ⟨ha, has⟩ := hall
    simp only [List.length_cons] at hk
    have hk4 : fitsI 4 ((k + 1 : Nat) : Int) = true := fitsI_nat 4 (by omega) (k + 1) (by omega)
    have hk5 : fitsI 5 ((k + 1 : Nat) : Int) = true := fitsI_nat 5 (by omega) (k + 1) (by omega)
    have ih' := ih (k + 1) rest
    simp only [pdbAtomsLines, pdbAtomLines]
    cases hu : a.aniso with
    | none =>
      simp only [List.cons_append, List.nil_append]
      rw [pl_atom (k + 1) a _ st hk5 ha, ih' _ has (by omega)]
      simp [quantPdbAtom, hu]
    | some u =>
      have hua : pdbAnisoOk u = true := by
        simp only [pdbAtomOk, Bool.and_eq_true, hu] at ha; exact ha.2
      simp only [List.cons_append, List.nil_append]
      rw [pl_atom (k + 1) a _ st hk5 ha, pl_anisou (k + 1) a u _ _ _ _ rfl hk4 ha hua, ih' _ has (by omega)]
      simp [quantPdbAtom, hu]

theorem pl_titles (t : Str) (htl : t.length ≤ 60) (rest : List Str) (st : PdbSt) :
    pdbLoop (pdbTitleLines t ++ rest) st =
      pdbLoop rest { st with title := if t = [] then st.title else rstrip t } ∧
    quantPdbTitle t = if t = [] then [] else rstrip t := by
  by_cases ht : t = []
  · simp [pdbTitleLines, quantPdbTitle, ht, titleChunks]
  · have := titleChunks_short t ht htl
    simp only [pdbTitleLines, quantPdbTitle, this, ht, if_false]
    simp [pl_title t htl]

/-- line level: `parseLines(toLines(s))` for PDB -/
theorem parsePdb_writePdb (d : PdbS) (h : reprPdb d = true) : parsePdb (writePdb d) = .ok (quantPdb d) := by
  obtain ⟨title, cell, atoms⟩ := d
  simp only [reprPdb, Bool.and_eq_true, decide_eq_true_eq] at h
  obtain ⟨⟨⟨⟨_, htl⟩, hc⟩, ha⟩, hn⟩ := h
  unfold parsePdb writePdb
  cases cell with
  | none =>
    simp only [List.append_assoc, List.nil_append]
    rw [(pl_titles title htl _ _).1, pl_atoms atoms 0 _ _ ha (by omega)]
    rw [pl_ter, pl_end, pdbLoop]
    simp only [quantPdb, (pl_titles title htl [] ⟨[], none, []⟩).2]
    simp
  | some c =>
    simp only at hc
    simp only [List.append_assoc, List.cons_append, List.nil_append]
    rw [(pl_titles title htl _ _).1, pl_cryst c hc, pl_atoms atoms 0 _ _ ha (by omega)]
    rw [pl_ter, pl_end, pdbLoop]
    simp only [quantPdb, (pl_titles title htl [] ⟨[], none, []⟩).2]
    simp



theorem NoNL_slice (i j : Nat) {s : Str} (h : NoNL s) : NoNL (slice i j s) :=
  NoNL_sublist ((List.take_sublist _ _).trans (List.drop_sublist _ _)) h

theorem NoNL_elem {e : Str} (h : elemOk e = true) : NoNL e := NoNL_of_NoWs (IsTok_of_elemOk h).2

theorem NoNL_pdbAtomLine (k : Nat) (a : PdbAtom) (ha : pdbAtomOk a = true) : NoNL (pdbAtomLine k a) := by
  simp only [pdbAtomOk, Bool.and_eq_true, decide_eq_true_eq] at ha
  obtain ⟨⟨⟨⟨⟨⟨⟨⟨⟨hn, _⟩, he⟩, _⟩, _⟩, _⟩, _⟩, _⟩, _⟩, _⟩ := ha
  unfold pdbAtomLine
  have hm : NoNL pdbMid := by intro c hc; revert c; decide
  have hk : NoNL kwATOM := by intro c hc; revert c; decide
  exact NoNL_append hk (NoNL_append (NoNL_sp _) (NoNL_append (NoNL_fmtI _ _) (NoNL_append (NoNL_sp _)
    (NoNL_append (NoNL_padRight 4 (NoNL_elem hn)) (NoNL_append hm (NoNL_append (NoNL_fmtF _ _ _)
    (NoNL_append (NoNL_fmtF _ _ _) (NoNL_append (NoNL_fmtF _ _ _) (NoNL_append (NoNL_fmtF _ _ _)
    (NoNL_append (NoNL_fmtF _ _ _) (NoNL_append (NoNL_sp _) (NoNL_append (NoNL_padLeft 2 (NoNL_elem he)) (NoNL_sp _)))))))))))))

theorem NoNL_flatten {ls : List Str} (h : ∀ l ∈ ls, NoNL l) : NoNL ls.flatten := by
  intro c hc
  obtain ⟨l, hl, hcl⟩ := List.mem_flatten.1 hc
  exact h l hl c hcl

theorem NoNL_pdbAnisouLine (L : Str) (hL : NoNL L) (u : List Int) : NoNL (pdbAnisouLine L u) := by
  unfold pdbAnisouLine
  have hk : NoNL kwANISOU := by intro c hc; revert c; decide
  refine NoNL_append hk (NoNL_append (NoNL_slice _ _ hL) (NoNL_append (NoNL_sp _) (NoNL_append (NoNL_flatten ?_)
    (NoNL_append (NoNL_sp _) (NoNL_slice _ _ hL)))))
  intro l hl
  obtain ⟨n, _, rfl⟩ := List.mem_map.1 hl
  exact NoNL_fmtI _ _

theorem NoNL_pdbAtomsLines (as : List PdbAtom) (h : as.all pdbAtomOk = true) :
    ∀ k, ∀ l ∈ pdbAtomsLines k as, NoNL l := by
  induction as with
  | nil => intro k l hl; cases hl
  | cons a as ih =>
    intro k l hl
    simp only [List.all_cons, Bool.and_eq_true] at h
    simp only [pdbAtomsLines, List.mem_append] at hl
    rcases hl with hl | hl
    · have hA := NoNL_pdbAtomLine (k + 1) a h.1
      unfold pdbAtomLines at hl
      cases hu : a.aniso with
      | none => simp [hu] at hl; subst hl; exact hA
      | some u =>
        simp [hu] at hl
        rcases hl with rfl | rfl
        · exact hA
        · exact NoNL_pdbAnisouLine _ hA u
    · exact ih h.2 (k + 1) l hl

theorem NoNL_pdbTitleLines (t : Str) (ht : lineOk t = true) (htl : t.length ≤ 60) : ∀ l ∈ pdbTitleLines t, NoNL l := by
  intro l hl
  by_cases hne : t = []
  · simp [pdbTitleLines, hne, titleChunks] at hl
  · have := titleChunks_short t hne htl
    simp only [pdbTitleLines, this] at hl
    simp at hl; subst hl
    unfold pdbTitleLine
    have hk : NoNL kwTITLE := by intro c hc; revert c; decide
    exact NoNL_padRight 80 (NoNL_append (NoNL_append (NoNL_append hk (NoNL_sp _)) (by simp; exact NoNL_sp _)) (NoNL_of_lineOk ht))

/-- string level: `readStr(writeStr("pdb"), "pdb")` -/
theorem roundtrip_pdb (d : PdbS) (h : reprPdb d = true) : parseTextPdb (writeTextPdb d) = .ok (quantPdb d) := by
  have h' := h
  simp only [reprPdb, Bool.and_eq_true, decide_eq_true_eq] at h'
  obtain ⟨⟨⟨⟨ht, htl⟩, hc⟩, ha⟩, hn⟩ := h'
  unfold parseTextPdb writeTextPdb
  have hne : writePdb d ≠ [] := by simp [writePdb]
  rw [ofText_toText (writePdb d) hne]
  · exact parsePdb_writePdb d h
  · intro l hl
    simp only [writePdb, List.mem_append, List.mem_cons, List.not_mem_nil, or_false] at hl
    rcases hl with ((hl | hl) | hl) | (rfl | rfl)
    · exact NoNL_pdbTitleLines d.title ht htl l hl
    · cases hd : d.cell with
      | none => simp [hd] at hl
      | some c =>
        simp [hd] at hl; subst hl
        unfold pdbCrystLine
        have hk : NoNL kwCRYST1 := by intro c hc; revert c; decide
        exact NoNL_padRight 80 (NoNL_append hk (NoNL_append (NoNL_fmtF _ _ _) (NoNL_append (NoNL_fmtF _ _ _)
          (NoNL_append (NoNL_fmtF _ _ _) (NoNL_append (NoNL_fmtF _ _ _) (NoNL_append (NoNL_fmtF _ _ _) (NoNL_fmtF _ _ _)))))))
    · exact NoNL_pdbAtomsLines d.atoms ha 0 l hl
    · unfold pdbTerLine
      have hk : NoNL kwTER := by intro c hc; revert c; decide
      exact NoNL_append (NoNL_append (NoNL_append (NoNL_append (NoNL_append (NoNL_append (NoNL_append (NoNL_append
        (NoNL_append hk (NoNL_sp _)) (NoNL_fmtI _ _)) (NoNL_sp _)) (NoNL_sp _)) (NoNL_sp _)) (NoNL_sp _)) (NoNL_fmtI _ _))
        (NoNL_sp _)) (NoNL_padLeft 53 (NoNL_sp _))
    · intro c hc; revert c; decide
  · have : (writePdb d).getLast hne = padRight 80 kwEND := by
      simp [writePdb]
    rw [this]; decide



theorem length_fixedBody (p m d : Nat) (hd : 1 ≤ d) (hm : m < 10 ^ (d + p)) :
    (fixedBody p m).length ≤ d + (if p = 0 then 0 else 1 + p) := by
  unfold fixedBody
  have hq : m / 10 ^ p < 10 ^ d := by
    rw [Nat.div_lt_iff_lt_mul (by positivity)]; rw [pow_add] at hm; exact hm
  have := length_natDigits_le d hd _ hq
  split
  · simp; omega
  · simp [length_fixDigits]; omega

/-- a value whose rounded magnitude has at most `d` integer digits fits `%w.pf` when
`sign + d + 1 + p ≤ w` — the numeric reading of the column-width conditions of `Repr_pdb` -/
theorem fitsF_of_bound (w p d : Nat) (x : Rat) (hd : 1 ≤ d) (hp : 1 ≤ p) (hm : scaledAbs p x < 10 ^ (d + p))
    (hw : (if x < 0 then 1 else 0) + d + 1 + p ≤ w) : fitsF w p x = true := by
  have h := length_fixedBody p (scaledAbs p x) d hd hm
  have hp' : p ≠ 0 := by omega
  simp only [hp', if_false] at h
  simp only [fitsF, decide_eq_true_eq, fmtFbody, List.length_append]
  by_cases hx : x < 0
  · simp only [hx, if_true] at hw; simp [signStr, hx]; omega
  · simp only [hx, if_false] at hw; simp [signStr, hx]; omega

theorem fitsI_of_bound (w d : Nat) (n : Int) (hd : 1 ≤ d) (hm : n.natAbs < 10 ^ d)
    (hw : (if n < 0 then 1 else 0) + d ≤ w) : fitsI w n = true := by
  have := length_natDigits_le d hd _ hm
  simp only [fitsI, decide_eq_true_eq, fmtIbody, List.length_append]
  by_cases hx : n < 0
  · simp only [hx, if_true] at hw; simp [signStr, hx]; omega
  · simp only [hx, if_false] at hw; simp [signStr, hx]; omega

macro "fitsF_tac " d:num : tactic =>
  `(tactic| exact fitsF_of_bound _ _ $d _ (by decide) (by decide) (by decide) (by decide))
macro "fitsI_tac " d:num : tactic =>
  `(tactic| exact fitsI_of_bound _ $d _ (by decide) (by decide) (by decide))

def exPdb : PdbS :=
  ⟨"CdSe".toList, some ⟨mkRat 43 10, mkRat 43 10, 7, 90, 90, 120⟩,
   [⟨"Cd".toList, "Cd".toList, ⟨mkRat 1 3, mkRat (-2) 3, 0⟩, 1, mkRat 1 2, none⟩,
    ⟨"Se1".toList, "Se".toList, ⟨mkRat (-99999) 1000, mkRat 999999 1000, mkRat 7 2⟩, mkRat 1 2, mkRat 79 100,
      some [100, 200, 300, -10, 0, 999999]⟩]⟩

/-- non-vacuity of `roundtrip_pdb`: a structure with negative and column-filling coordinates -/
theorem exPdb_repr : reprPdb exPdb = true := by
  simp only [reprPdb, exPdb, Bool.and_eq_true, decide_eq_true_eq, List.all_cons, List.all_nil, pdbAtomOk,
    pdbCellOk, pdbAnisoOk]
  refine ⟨⟨⟨⟨by decide, by decide⟩, ⟨⟨⟨⟨⟨?_, ?_⟩, ?_⟩, ?_⟩, ?_⟩, ?_⟩⟩,
    ⟨⟨⟨⟨⟨⟨⟨⟨⟨⟨by decide, by decide⟩, by decide⟩, by decide⟩, ?_⟩, ?_⟩, ?_⟩, ?_⟩, ?_⟩, trivial⟩,
     ⟨⟨⟨⟨⟨⟨⟨⟨⟨by decide, by decide⟩, by decide⟩, by decide⟩, ?_⟩, ?_⟩, ?_⟩, ?_⟩, ?_⟩, ⟨⟨⟨⟨⟨?_, ?_⟩, ?_⟩, ?_⟩, ?_⟩, ?_⟩⟩, trivial⟩⟩, by decide⟩
  · fitsF_tac 1
  · fitsF_tac 1
  · fitsF_tac 1
  · fitsF_tac 2
  · fitsF_tac 2
  · fitsF_tac 3
  · fitsF_tac 1
  · fitsF_tac 1
  · fitsF_tac 1
  · fitsF_tac 1
  · fitsF_tac 1
  · fitsF_tac 2
  · fitsF_tac 3
  · fitsF_tac 1
  · fitsF_tac 1
  · fitsF_tac 1
  · fitsI_tac 3
  · fitsI_tac 3
  · fitsI_tac 3
  · fitsI_tac 2
  · fitsI_tac 1
  · fitsI_tac 6



/-! ## second round trip: `quant_f` is idempotent and stays inside `repr_f` -/

theorem roundSig_pos (P : Nat) {x : Rat} (hx : 0 < x) : 0 < roundSig P x := by
  unfold roundSig
  generalize hQ : (if P = 0 then 1 else P) = Q
  have hQ1 : 1 ≤ Q := by rw [← hQ]; split <;> omega
  have hx0 : x ≠ 0 := ne_of_gt hx
  have hnum : 0 < x.num.natAbs := by
    have : x.num ≠ 0 := Rat.num_ne_zero.2 hx0
    omega
  obtain ⟨hm1, _⟩ := sci_spec Q x.num.natAbs x.den hQ1 hnum x.den_pos
  have hmpos : (0 : Rat) < ((sci Q x.num.natAbs x.den).2 : Rat) := by
    have : 0 < (sci Q x.num.natAbs x.den).2 := lt_of_lt_of_le (by positivity) hm1
    exact_mod_cast this
  have hneg : ¬ x < 0 := not_lt.2 (le_of_lt hx)
  simp only [roundSigP, hx0, if_false, hneg]
  exact scale10_pos hmpos _

theorem quantShape_idem (v : Rat) : quantShape (quantShape v) = quantShape v := by
  unfold quantShape
  by_cases h : 0 < v
  · simp only [h, if_true, roundSig_pos 6 h, roundSig_idem]
  · simp [h]

theorem toUpperA_idem (c : Char) : toUpperA (toUpperA c) = toUpperA c := by
  apply Char.toNat_inj.1
  rw [toUpperA_toNat, toUpperA_toNat]
  have : isLowerA (toUpperA c) = false := by
    cases hl : isLowerA c with
    | true =>
      have h := toUpperA_toNat c
      rw [hl] at h; simp only [if_true] at h
      simp only [isLowerA, Bool.and_eq_true, decide_eq_true_eq] at hl
      simp only [isLowerA, h, Bool.and_eq_false_iff, decide_eq_false_iff_not]; omega
    | false =>
      have : toUpperA c = c := by simp [toUpperA, hl]
      rw [this, hl]
  simp [this]

theorem toLowerA_toNat (c : Char) :
    (toLowerA c).toNat = if isUpperA c then c.toNat + 32 else c.toNat := by
  unfold toLowerA
  split
  · rename_i h
    simp only [isUpperA, Bool.and_eq_true, decide_eq_true_eq] at h
    rw [toNat_ofNat_small _ (by omega)]
  · rfl

theorem toLowerA_idem (c : Char) : toLowerA (toLowerA c) = toLowerA c := by
  apply Char.toNat_inj.1
  rw [toLowerA_toNat, toLowerA_toNat]
  have : isUpperA (toLowerA c) = false := by
    cases hl : isUpperA c with
    | true =>
      have h := toLowerA_toNat c
      rw [hl] at h; simp only [if_true] at h
      simp only [isUpperA, Bool.and_eq_true, decide_eq_true_eq] at hl
      simp only [isUpperA, h, Bool.and_eq_false_iff, decide_eq_false_iff_not]; omega
    | false =>
      have : toLowerA c = c := by simp [toLowerA, hl]
      rw [this, hl]
  simp [this]

theorem toUpperA_toLowerA (c : Char) : toUpperA (toLowerA c) = toUpperA c := by
  apply Char.toNat_inj.1
  rw [toUpperA_toNat, toUpperA_toNat]
  by_cases hu : isUpperA c = true
  · have h1 : isLowerA (toLowerA c) = true := by
      simp only [isUpperA, Bool.and_eq_true, decide_eq_true_eq] at hu
      simp only [isLowerA, Bool.and_eq_true, decide_eq_true_eq, toLowerA_toNat, isUpperA]
      simp [hu]
    have h2 : isLowerA c = false := by
      simp only [isUpperA, Bool.and_eq_true, decide_eq_true_eq] at hu
      simp only [isLowerA, Bool.and_eq_false_iff, decide_eq_false_iff_not]; omega
    simp only [h1, h2, if_true, Bool.false_eq_true, if_false, toLowerA_toNat, hu]; omega
  · have : toLowerA c = c := by simp [toLowerA, hu]
    rw [this]

theorem isGraphA_toLowerA {c : Char} (h : isGraphA c = true) : isGraphA (toLowerA c) = true := by
  simp only [isGraphA, Bool.and_eq_true, decide_eq_true_eq, toLowerA_toNat] at *
  split
  · rename_i hl; simp only [isUpperA, Bool.and_eq_true, decide_eq_true_eq] at hl; omega
  · exact h

theorem capitalize_idem (e : Str) : capitalize (capitalize e) = capitalize e := by
  cases e with
  | nil => rfl
  | cons c cs =>
    simp only [capitalize, toUpperA_idem, lower, List.map_map]
    congr 1
    apply List.map_congr_left
    intro d _
    exact toLowerA_idem d

theorem upper_capitalize (e : Str) : upper (capitalize e) = upper e := by
  cases e with
  | nil => rfl
  | cons c cs =>
    simp only [capitalize, upper, lower, List.map_cons, List.map_map, toUpperA_idem]
    congr 1
    apply List.map_congr_left
    intro d _
    exact toUpperA_toLowerA d

theorem elemOk_capitalize {e : Str} (h : elemOk e = true) : elemOk (capitalize e) = true := by
  simp only [elemOk, Bool.and_eq_true, Bool.not_eq_true', List.all_eq_true] at *
  cases e with
  | nil => simp at h
  | cons c cs =>
    refine ⟨by simp [capitalize], ?_⟩
    intro d hd
    simp only [capitalize, lower, List.mem_cons, List.mem_map] at hd
    rcases hd with rfl | ⟨x, hx, rfl⟩
    · exact isGraphA_toUpperA (h.2 c (by simp))
    · exact isGraphA_toLowerA (h.2 x (by simp [hx]))

theorem lineOk_sublist {a b : Str} (h : a.Sublist b) (hb : lineOk b = true) : lineOk a = true := by
  simp only [lineOk, List.all_eq_true] at *
  exact fun c hc => hb c (h.subset hc)

theorem strip_sublist (s : Str) : (strip s).Sublist s := by
  unfold strip rstrip lstrip
  have h1 : (List.dropWhile isWs (List.dropWhile isWs s).reverse).reverse.Sublist (List.dropWhile isWs s) := by
    have := (List.dropWhile_sublist isWs (l := (List.dropWhile isWs s).reverse))
    have := this.reverse
    simpa using this
  exact h1.trans (List.dropWhile_sublist _)



theorem quantPAtomCap_idem (a : PAtom) : quantPAtomCap (quantPAtomCap a) = quantPAtomCap a := by
  simp [quantPAtomCap, capitalize_idem, roundSig_idem]

theorem quantXyz_idem (d : XyzS) : quantXyz (quantXyz d) = quantXyz d := by
  simp [quantXyz, strip_idem, List.map_map, Function.comp_def, quantPAtomCap_idem]

theorem reprXyz_quant (d : XyzS) (h : reprXyz d = true) : reprXyz (quantXyz d) = true := by
  simp only [reprXyz, rangeXyz, Bool.and_eq_true, List.all_eq_true] at *
  refine ⟨lineOk_sublist (strip_sublist _) h.1, ?_⟩
  intro a ha
  simp only [quantXyz, List.mem_map] at ha
  obtain ⟨b, hb, rfl⟩ := ha
  exact elemOk_capitalize (h.2 b hb)

/-- second round trip for XYZ: the re-read structure is a fixed point -/
theorem idem_xyz (d : XyzS) (h : reprXyz d = true) :
    parseTextXyz (writeTextXyz (quantXyz d)) = .ok (quantXyz d) := by
  rw [roundtrip_xyz _ (reprXyz_quant d h), quantXyz_idem]

theorem quantRaw_idem (d : List PAtom) : quantRaw (quantRaw d) = quantRaw d := by
  simp [quantRaw, List.map_map, Function.comp_def, quantPAtom, roundSig_idem]

theorem reprRaw_quant (d : List PAtom) (h : reprRaw d = true) : reprRaw (quantRaw d) = true := by
  simp only [reprRaw, quantRaw, List.all_map, Function.comp_def, quantPAtom] at *
  exact h

theorem idem_rawxyz (d : List PAtom) (h : reprRaw d = true) :
    parseTextRaw (writeTextRaw (quantRaw d)) = .ok (quantRaw d) := by
  rw [roundtrip_rawxyz _ (reprRaw_quant d h), quantRaw_idem]

theorem upper_idem (e : Str) : upper (upper e) = upper e := by
  simp [upper, List.map_map, Function.comp_def, toUpperA_idem]

theorem cap_upper_idem (e : Str) : capitalize (upper (capitalize (upper e))) = capitalize (upper e) := by
  rw [upper_capitalize, upper_idem]

theorem V3_map_idem (f : Rat → Rat) (hf : ∀ x, f (f x) = f x) (v : V3) : (v.map f).map f = v.map f := by
  simp [V3.map, hf]

theorem Cell6_map_idem (f : Rat → Rat) (hf : ∀ x, f (f x) = f x) (c : Cell6) : (c.map f).map f = c.map f := by
  simp [Cell6.map, hf]

theorem noWsStr_idem (s : Str) : noWsStr (noWsStr s) = noWsStr s := by
  simp [noWsStr, List.filter_filter]

theorem quantDAtom_idem (a : DAtom) : quantDAtom (quantDAtom a) = quantDAtom a := by
  simp [quantDAtom, cap_upper_idem, roundTo_idem]

theorem quantDiscus_idem (d : DiscusS) : quantDiscus (quantDiscus d) = quantDiscus d := by
  simp [quantDiscus, strip_idem, noWsStr_idem, quantShape_idem, Cell6_map_idem _ (roundTo_idem 6), List.map_map,
    Function.comp_def, quantDAtom_idem]

theorem toLowerA_ne {c : Char} (k : Char) (hk : k.toNat < 65) (h : c ≠ k) : toLowerA c ≠ k := by
  intro e
  have := congrArg Char.toNat e
  rw [toLowerA_toNat] at this
  cases hu : isUpperA c with
  | true =>
    rw [hu] at this; simp only [if_true] at this
    simp only [isUpperA, Bool.and_eq_true, decide_eq_true_eq] at hu; omega
  | false => rw [hu] at this; simp only [Bool.false_eq_true, if_false] at this; exact h (Char.toNat_inj.1 this)

theorem elemOk_upper {e : Str} (h : elemOk e = true) : elemOk (upper e) = true := by
  simp only [elemOk, Bool.and_eq_true, Bool.not_eq_true', List.all_eq_true] at *
  cases e with
  | nil => simp at h
  | cons c cs =>
    refine ⟨by simp [upper], ?_⟩
    intro d hd
    simp only [upper, List.mem_map] at hd
    obtain ⟨x, hx, rfl⟩ := hd
    exact isGraphA_toUpperA (h.2 x hx)

theorem elemOkD_cap_upper {e : Str} (h : elemOkD e = true) : elemOkD (capitalize (upper e)) = true := by
  have hok := elemOk_capitalize (elemOk_upper (elemOk_of_elemOkD h))
  simp only [elemOkD, Bool.and_eq_true, List.all_eq_true, bne_iff_ne] at h ⊢
  obtain ⟨⟨_, hc⟩, hh⟩ := h
  refine ⟨⟨hok, ?_⟩, ?_⟩
  · intro d hd
    cases e with
    | nil => simp [upper, capitalize] at hd
    | cons c cs =>
      simp only [upper, capitalize, lower, List.map_cons, List.mem_cons, List.mem_map] at hd
      rcases hd with rfl | ⟨x, ⟨y, hy, rfl⟩, rfl⟩
      · exact toUpperA_ne ',' (by decide) (toUpperA_ne ',' (by decide) (hc c (by simp)))
      · exact toLowerA_ne ',' (by decide) (toUpperA_ne ',' (by decide) (hc y (by simp [hy])))
  · cases e with
    | nil => simp [upper, capitalize]
    | cons c cs =>
      simp only [upper, capitalize, List.map_cons, List.head?_cons, ne_eq, Option.some.injEq]
      simp only [List.head?_cons, ne_eq, Option.some.injEq] at hh
      exact toUpperA_ne '#' (by decide) (toUpperA_ne '#' (by decide) hh)

theorem lineOk_filter (p : Char → Bool) {s : Str} (h : lineOk s = true) : lineOk (s.filter p) = true :=
  lineOk_sublist List.filter_sublist h

theorem reprDiscus_quant (d : DiscusS) (h : reprDiscus d = true) : reprDiscus (quantDiscus d) = true := by
  simp only [reprDiscus, rangeDiscus, Bool.and_eq_true, List.all_eq_true] at *
  refine ⟨⟨lineOk_sublist (strip_sublist _) h.1.1, lineOk_filter _ h.1.2⟩, ?_⟩
  intro a ha
  simp only [quantDiscus, List.mem_map] at ha
  obtain ⟨b, hb, rfl⟩ := ha
  exact elemOkD_cap_upper (h.2 b hb)

theorem idem_discus (d : DiscusS) (h : reprDiscus d = true) :
    parseTextDiscus (writeTextDiscus (quantDiscus d)) = .ok (quantDiscus d) := by
  rw [roundtrip_discus _ (reprDiscus_quant d h), quantDiscus_idem]

theorem quantPFAtom_idem (a : PFAtom) : quantPFAtom (quantPFAtom a) = quantPFAtom a := by
  simp [quantPFAtom, cap_upper_idem, roundTo_idem, V3_map_idem _ (roundTo_idem 8)]

theorem quantPdffit_idem (d : PdffitS) : quantPdffit (quantPdffit d) = quantPdffit d := by
  simp [quantPdffit, strip_idem, quantShape_idem, roundTo_idem, Cell6_map_idem _ (roundTo_idem 6), List.map_map,
    Function.comp_def, quantPFAtom_idem]

theorem reprPdffit_quant (d : PdffitS) (h : reprPdffit d = true) : reprPdffit (quantPdffit d) = true := by
  simp only [reprPdffit, rangePdffit, Bool.and_eq_true, List.all_eq_true] at *
  refine ⟨⟨lineOk_sublist (strip_sublist _) h.1.1, lineOk_sublist (strip_sublist _) h.1.2⟩, ?_⟩
  intro a ha
  simp only [quantPdffit, List.mem_map] at ha
  obtain ⟨b, hb, rfl⟩ := ha
  exact elemOk_capitalize (elemOk_upper (h.2 b hb))

theorem idem_pdffit (d : PdffitS) (h : reprPdffit d = true) :
    parseTextPdffit (writeTextPdffit (quantPdffit d)) = .ok (quantPdffit d) := by
  rw [roundtrip_pdffit _ (reprPdffit_quant d h), quantPdffit_idem]



theorem roundTo_neg_imp {p : Nat} {x : Rat} (h : roundTo p x < 0) : x < 0 := by
  by_contra hx
  rw [roundTo_eq, if_neg hx] at h
  have : (0 : Rat) ≤ 1 * ((scaledAbs p x : Nat) : Rat) / ((10 ^ p : Nat) : Rat) := by positivity
  exact absurd h (not_lt.2 this)

theorem fitsF_roundTo {w p : Nat} {x : Rat} (h : fitsF w p x = true) : fitsF w p (roundTo p x) = true := by
  simp only [fitsF, decide_eq_true_eq, fmtFbody, List.length_append, fmtFbody_roundTo_abs] at *
  have : (signStr (decide (roundTo p x < 0))).length ≤ (signStr (decide (x < 0))).length := by
    by_cases hr : roundTo p x < 0
    · have := roundTo_neg_imp hr; simp [signStr, hr, this]
    · simp [signStr, hr]
  omega

theorem rstrip_sublist (s : Str) : (rstrip s).Sublist s := by
  unfold rstrip
  have := (List.dropWhile_sublist isWs (l := s.reverse)).reverse
  simpa using this

theorem rstrip_idem (s : Str) : rstrip (rstrip s) = rstrip s := by
  rcases ws_decomp s with h | ⟨a, m, b, rfl, _, hb, hm⟩
  · rw [rstrip_allWs h]; rfl
  · rw [rstrip_core hb hm]
    have := rstrip_core (s := a) (b := []) (by intro c h; cases h) hm
    simpa using this

theorem quantPdbTitle_short (t : Str) (hl : t.length ≤ 60) : quantPdbTitle t = rstrip t := by
  by_cases ht : t = []
  · subst ht; rfl
  · simp [quantPdbTitle, titleChunks_short t ht hl]

theorem pdbAtomOk_quant {a : PdbAtom} (h : pdbAtomOk a = true) : pdbAtomOk (quantPdbAtom a) = true := by
  simp only [pdbAtomOk, Bool.and_eq_true, decide_eq_true_eq] at h
  obtain ⟨⟨⟨⟨⟨⟨⟨⟨⟨hn, hnl⟩, he⟩, hel⟩, hx⟩, hy⟩, hz⟩, ho⟩, hb⟩, hu⟩ := h
  simp only [pdbAtomOk, quantPdbAtom, V3.map, Bool.and_eq_true]
  exact ⟨⟨⟨⟨⟨⟨⟨⟨⟨hn, decide_eq_true hnl⟩, he⟩, decide_eq_true hel⟩, fitsF_roundTo hx⟩, fitsF_roundTo hy⟩, fitsF_roundTo hz⟩, fitsF_roundTo ho⟩,
    fitsF_roundTo hb⟩, hu⟩

theorem pdbCellOk_quant {c : Cell6} (h : pdbCellOk c = true) : pdbCellOk (quantPdbCell c) = true := by
  simp only [pdbCellOk, Bool.and_eq_true, quantPdbCell] at *
  obtain ⟨⟨⟨⟨⟨h1, h2⟩, h3⟩, h4⟩, h5⟩, h6⟩ := h
  exact ⟨⟨⟨⟨⟨fitsF_roundTo h1, fitsF_roundTo h2⟩, fitsF_roundTo h3⟩, fitsF_roundTo h4⟩, fitsF_roundTo h5⟩, fitsF_roundTo h6⟩

theorem reprPdb_quant (d : PdbS) (h : reprPdb d = true) : reprPdb (quantPdb d) = true := by
  obtain ⟨title, cell, atoms⟩ := d
  simp only [reprPdb, Bool.and_eq_true, decide_eq_true_eq] at h
  obtain ⟨⟨⟨⟨ht, htl⟩, hc⟩, ha⟩, hn⟩ := h
  simp only [reprPdb, quantPdb, quantPdbTitle_short title htl, Bool.and_eq_true, decide_eq_true_eq]
  refine ⟨⟨⟨⟨lineOk_sublist (rstrip_sublist _) ht, le_trans (rstrip_sublist _).length_le htl⟩, ?_⟩, ?_⟩, by simpa using hn⟩
  · cases cell with
    | none => rfl
    | some c => exact pdbCellOk_quant hc
  · simp only [List.all_eq_true] at *
    intro a ha'
    obtain ⟨b, hb, rfl⟩ := List.mem_map.1 ha'
    exact pdbAtomOk_quant (ha b hb)

theorem quantPdb_idem (d : PdbS) (hl : d.title.length ≤ 60) : quantPdb (quantPdb d) = quantPdb d := by
  obtain ⟨title, cell, atoms⟩ := d
  simp only at hl
  have h1 : quantPdbTitle (quantPdbTitle title) = quantPdbTitle title := by
    rw [quantPdbTitle_short title hl, quantPdbTitle_short _ (le_trans (rstrip_sublist _).length_le hl), rstrip_idem]
  have h2 : ∀ a : PdbAtom, quantPdbAtom (quantPdbAtom a) = quantPdbAtom a := by
    intro a; simp [quantPdbAtom, roundTo_idem, V3_map_idem _ (roundTo_idem 3)]
  have h3 : ∀ c : Cell6, quantPdbCell (quantPdbCell c) = quantPdbCell c := by
    intro c; simp [quantPdbCell, roundTo_idem]
  simp only [quantPdb, h1, List.map_map, Function.comp_def, h2]
  cases cell <;> simp [h3]

/-- second round trip for PDB -/
theorem idem_pdb (d : PdbS) (h : reprPdb d = true) :
    parseTextPdb (writeTextPdb (quantPdb d)) = .ok (quantPdb d) := by
  have hl : d.title.length ≤ 60 := by
    simp only [reprPdb, Bool.and_eq_true, decide_eq_true_eq] at h; exact h.1.1.1.2
  rw [roundtrip_pdb _ (reprPdb_quant d h), quantPdb_idem d hl]



/-! ## XCFG and CIF: record-level round trips (the file-level statements are not proved) -/

theorem PadOf_tok {t : Str} (ht : IsTok t) : PadOf t t :=
  ⟨[], [], (by intro c h; cases h), (by intro c h; cases h), by simp, ht⟩

theorem forall₂_map_same {α} (f : α → Str) (hf : ∀ x, IsTok (f x)) : ∀ l : List α, List.Forall₂ PadOf (l.map f) (l.map f)
  | [] => .nil
  | x :: xs => .cons (PadOf_tok (hf x)) (forall₂_map_same f hf xs)

/-- an XCFG entry line (`"{:.8g}" …` joined by blanks) reads back as the numbers rounded to eight
significant digits, for any number of columns -/
theorem xcfg_entry_roundtrip (vs : List Rat) :
    (splitWs (ssv (vs.map g8))).mapM parseDec = some (vs.map (roundSig 8)) := by
  rw [ssv, splitWs_joinSep_pad AllWs_one (by simp) _ _ (forall₂_map_same g8 (fun x => IsTok_fmtG 8 x) vs)]
  induction vs with
  | nil => rfl
  | cons v vs ih => simp [g8, parseDec_fmtG, ih]

theorem xcfgEntry_roundtrip (L : XLayout) (a : XAtom) :
    ∃ vs : List Rat, xcfgEntry L a = ssv (vs.map g8) ∧
      (splitWs (xcfgEntry L a)).mapM parseDec = some (vs.map (roundSig 8)) := by
  refine ⟨_, rfl, ?_⟩
  unfold xcfgEntry
  exact xcfg_entry_roundtrip _

/-- a row of the CIF `_atom_site` loop splits into its eight values, and the numeric ones read back
rounded to the printed precision -/
theorem cif_row_roundtrip (label : Str) (a : CifAtom) (hl : IsTok label) (he : IsTok a.el) :
    splitWs (cifAtomLine label a) =
      [label, a.el, fmtFbody 6 a.xyz.x, fmtFbody 6 a.xyz.y, fmtFbody 6 a.xyz.z, fmtFbody 6 a.uiso,
       (if uIsIso a.u then "Uiso".toList else "Uani".toList), fmtFbody 4 a.occ] ∧
    ([fmtFbody 6 a.xyz.x, fmtFbody 6 a.xyz.y, fmtFbody 6 a.xyz.z, fmtFbody 6 a.uiso, fmtFbody 4 a.occ].mapM parseDec
      = some [roundTo 6 a.xyz.x, roundTo 6 a.xyz.y, roundTo 6 a.xyz.z, roundTo 6 a.uiso, roundTo 4 a.occ]) := by
  constructor
  · unfold cifAtomLine
    rw [splitWs_allWs_append (AllWs_sp 2)]
    have hadp : IsTok (if uIsIso a.u then "Uiso".toList else "Uani".toList) := by
      split <;> exact ⟨by decide, by intro c hc; revert c; decide⟩
    exact splitWs_joinSep_pad AllWs_one (by simp) _ _
      (.cons (PadOf_padRight 5 _ hl) (.cons (PadOf_padRight 3 _ he) (.cons (PadOf_fmtF _ _ _) (.cons (PadOf_fmtF _ _ _)
        (.cons (PadOf_fmtF _ _ _) (.cons (PadOf_fmtF _ _ _) (.cons (PadOf_padRight 5 _ hadp) (.cons (PadOf_fmtF _ _ _) .nil))))))))
  · simp [parseDec_fmtFbody]


end DS.Formats
