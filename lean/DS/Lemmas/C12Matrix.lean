import DS.Lemmas.Formats
/-!
# C12 — rejection criteria of the modelled parsers on arbitrary lines

Generic facts ("a text without a `cell` record is not DISCUS", "a text without an `atoms` record is not DISCUS",
"a text whose first record word is not a PDB record name is not PDB", …) used by `DS.Props.C12Matrix` to prove the off-diagonal entries of the
written-format × parser matrix from the models of `DS.Model.Formats`.
-/
namespace DS.Formats
open DS.Dec

/-! ## first word of a line -/

theorem splitAux_acc (s acc : Str) (h : acc ≠ []) : ∃ t rest, splitAux s acc = (acc.reverse ++ t) :: rest := by
  induction s generalizing acc with
  | nil => exact ⟨[], [], by simp [splitAux, h]⟩
  | cons c cs ih =>
    unfold splitAux
    by_cases hc : isWs c = true
    · simp only [hc, if_true]
      have : acc.isEmpty = false := by cases acc <;> simp_all
      simp only [this]
      exact ⟨[], splitAux cs [], by simp⟩
    · simp only [hc]
      obtain ⟨t, rest, e⟩ := ih (c :: acc) (by simp)
      exact ⟨c :: t, rest, by simp [e]⟩

/-- the first word of a line starts with the line's first non-blank character -/
theorem splitWs_head_char {l w : Str} {ws : List Str} (h : splitWs l = w :: ws) :
    ∃ c cs t, lstrip l = c :: cs ∧ isWs c = false ∧ w = c :: t := by
  rw [← splitWs_lstrip] at h
  cases hl : lstrip l with
  | nil => rw [hl] at h; cases h
  | cons c cs =>
    obtain ⟨c', cs', e, hc⟩ := lstrip_head l (by rw [hl]; simp)
    rw [hl] at e; cases e
    rw [hl, splitWs, splitAux] at h
    simp only [hc] at h
    obtain ⟨t, rest, e⟩ := splitAux_acc cs [c] (by simp)
    rw [e] at h
    cases h
    exact ⟨c, cs, t, rfl, hc, by simp⟩

/-- a line whose first character is not blank: its first word starts with it -/
theorem splitWs_cons_head {c : Char} {s : Str} (hc : isWs c = false) :
    ∃ t rest, splitWs (c :: s) = (c :: t) :: rest := by
  rw [splitWs, splitAux]
  simp only [hc]
  obtain ⟨t, rest, e⟩ := splitAux_acc s [c] (by simp)
  exact ⟨t, rest, by simpa using e⟩

/-! ## numbers start with a digit, a sign or a point -/

def numHead (c : Char) : Bool := isDigit c || c == '-' || c == '+' || c == '.'

theorem parseDec_head {s : Str} {v : Rat} (h : parseDec s = some v) : ∃ c cs, s = c :: cs ∧ numHead c = true := by
  cases s with
  | nil => simp [parseDec, parseUnsigned, parseFrac] at h
  | cons c cs =>
    refine ⟨c, cs, rfl, ?_⟩
    by_cases h1 : c = '-'
    · simp [numHead, h1]
    by_cases h2 : c = '+'
    · simp [numHead, h2]
    by_cases h3 : isDigit c = true
    · simp [numHead, h3]
    by_cases h4 : c = '.'
    · simp [numHead, h4]
    exfalso
    have hd : isDigit c = false := by simpa using h3
    have : parseDec (c :: cs) = parseUnsigned false (c :: cs) := by
      unfold parseDec
      split
      · rename_i r e; cases e; exact absurd rfl h1
      · rename_i r e; cases e; exact absurd rfl h2
      · rfl
    rw [this] at h
    simp only [parseUnsigned, List.takeWhile_cons, hd, List.dropWhile_cons] at h
    unfold parseFrac at h
    split at h
    · rename_i r e; simp at e; exact h4 e.1
    · simp at h

theorem fmtG_numHead (P : Nat) (x : Rat) : ∃ c cs, fmtG P x = c :: cs ∧ numHead c = true :=
  parseDec_head (parseDec_fmtG P x)

theorem fmtFbody_numHead (p : Nat) (x : Rat) : ∃ c cs, fmtFbody p x = c :: cs ∧ numHead c = true :=
  parseDec_head (parseDec_fmtFbody p x)

/-! ## XYZ: the first record must be a lone canonical integer -/

theorem canonInt_none_of_head {c : Char} {t : Str} (hd : isDigit c = false) (hm : c ≠ '-') :
    canonInt (c :: t) = none := by
  unfold canonInt
  split
  · rename_i r e; cases e; exact absurd rfl hm
  · simp [allDigits, hd]

theorem parseXyz_reject_words (l : Str) (ls : List Str) (w : Str) (ws : List Str)
    (hs : splitWs l = w :: ws) (hw : w ≠ ['#']) (hc : ws ≠ [] ∨ canonInt w = none) :
    parseXyz (l :: ls) = .error .sfe := by
  have hsk : isSkip (w :: ws) = false := by simp [isSkip, hw]
  unfold parseXyz
  simp only [List.map_cons, hs, List.takeWhile_cons, hsk]
  cases ws with
  | nil =>
    rcases hc with hc | hc
    · exact absurd rfl hc
    · simp [hc]
  | cons a as => rfl

/-- a first line that starts with a character which is neither `#`, a digit nor `-` is not XYZ -/
theorem parseXyz_reject_head (l : Str) (ls : List Str) (c : Char) (cs : Str) (hl : lstrip l = c :: cs)
    (hws : isWs c = false) (h1 : c ≠ '#') (h2 : isDigit c = false) (h3 : c ≠ '-') :
    parseXyz (l :: ls) = .error .sfe := by
  obtain ⟨t, rest, e⟩ := splitWs_cons_head (s := cs) hws
  have hs : splitWs l = (c :: t) :: rest := by rw [← splitWs_lstrip, hl, e]
  exact parseXyz_reject_words l ls _ _ hs (by intro h; cases h; exact h1 rfl) (Or.inr (canonInt_none_of_head h2 h3))

/-! ## raw XYZ: every record has the same number (3 or 4) of columns -/

theorem rawAtoms_spec (b : Bool) (nf : Nat) (rows : List (List Str)) :
    rawAtoms b nf rows = .error .sfe ∨
      ∃ as, rawAtoms b nf rows = .ok as ∧ ∀ r ∈ rows, r = [] ∨ r.length = nf := by
  induction rows with
  | nil => right; exact ⟨[], rfl, by simp⟩
  | cons f rest ih =>
    cases f with
    | nil =>
      rw [rawAtoms]
      rcases ih with e | ⟨as, e, hall⟩
      · left; exact e
      · right; exact ⟨as, e, by intro r hr; rcases List.mem_cons.mp hr with rfl | hr; exact Or.inl rfl; exact hall r hr⟩
    | cons w ws =>
      simp only [rawAtoms]
      by_cases hlen : (w :: ws).length ≠ nf
      · left; rw [if_pos hlen]
      · rw [if_neg hlen]
        cases hm : List.mapM parseDec ((if b = true then (w :: ws).drop 1 else w :: ws).take 3) with
        | none => left; rfl
        | some vs =>
          simp only
          rcases ih with e | ⟨as, e, hall⟩
          · left; rw [e]; split <;> simp_all
          · rw [e]
            split
            · right
              refine ⟨_, rfl, ?_⟩
              intro r hr
              rcases List.mem_cons.mp hr with rfl | hr
              · right; simpa using hlen
              · exact hall r hr
            · simp_all
            · left; rfl

theorem parseRaw_reject (l : Str) (ls : List Str) (hsk : isSkip (splitWs l) = false)
    (hbad : ∃ l' ∈ l :: ls, (splitWs l').length ≠ 0 ∧ (splitWs l').length ≠ 3 ∧ (splitWs l').length ≠ 4) :
    parseRaw (l :: ls) = .error .sfe := by
  obtain ⟨l', hl', h0, h3, h4⟩ := hbad
  have hne : (splitWs l).isEmpty = false := by
    cases h : splitWs l with
    | nil => rw [h] at hsk; simp [isSkip] at hsk
    | cons a as => rfl
  have hall : ((splitWs l :: ls.map splitWs).all List.isEmpty = true) = False := by simp [hne]
  unfold parseRaw
  simp only [List.map_cons, List.dropWhile_cons, hsk, Bool.false_eq_true, if_false, hall]
  have hmem : splitWs l' ∈ splitWs l :: ls.map splitWs := by
    rcases List.mem_cons.mp hl' with rfl | h
    · simp
    · exact List.mem_cons_of_mem _ (List.mem_map_of_mem h)
  have key : ∀ b, rawAtoms b (splitWs l).length (splitWs l :: ls.map splitWs) = .error .sfe ∨
      ((splitWs l).length ≠ 3 ∧ (splitWs l).length ≠ 4) := by
    intro b
    rcases rawAtoms_spec b (splitWs l).length (splitWs l :: ls.map splitWs) with e | ⟨as, _, hall⟩
    · left; exact e
    · right
      have h1 := hall _ hmem
      have h2 := hall (splitWs l) (by simp)
      have h1' : (splitWs l').length = (splitWs l).length := by
        rcases h1 with h1 | h1
        · rw [h1] at h0; simp at h0
        · exact h1
      constructor
      · intro e; exact h3 (h1'.trans e)
      · intro e; exact h4 (h1'.trans e)
  by_cases hlen : (splitWs l).length ≠ 3 ∧ (splitWs l).length ≠ 4
  · rw [if_pos hlen]
  · rw [if_neg hlen]
    split
    · rcases key false with e | e
      · exact e
      · exact absurd e hlen
    · split
      · rcases key true with e | e
        · exact e
        · exact absurd e hlen
      · rfl

/-! ## DISCUS and PDFfit: no `cell` record, no structure -/

theorem mem_dropTrailingBlank {L : List Str} {l : Str} (h : l ∈ dropTrailingBlank L) : l ∈ L := by
  unfold dropTrailingBlank at h
  have := (List.dropWhile_sublist (fun l => (strip l).isEmpty) (l := L.reverse)).subset (List.mem_reverse.mp h)
  exact List.mem_reverse.mp this

theorem shapeRecord_err {words ty : List Str} {a b : Rat} {e : PErr} (h : shapeRecord words ty a b = .error e) :
    e = .sfe := by
  unfold shapeRecord at h
  repeat' split at h
  all_goals first | (cases h; rfl) | cases h

/-- first word of a line is not in `ks` -/
def FirstWordNot (ks : List Str) (l : Str) : Prop := ∀ w ws, splitWs l = w :: ws → w ∉ ks

theorem discusRecord_noCell (h : DHdr) (line : Str) (words : List Str) (w0 : Str) (hw : w0 ≠ kwCell) :
    (∃ e, discusRecord h line words w0 = .error e ∧ (e = .sfe ∨ e = .notImpl)) ∨
    ∃ h', discusRecord h line words w0 = .ok h' ∧ h'.cellRead = h.cellRead := by
  unfold discusRecord
  rw [if_neg hw]
  repeat' split
  all_goals first
    | (left; exact ⟨_, rfl, Or.inl rfl⟩)
    | (left; exact ⟨_, rfl, Or.inr rfl⟩)
    | (right; exact ⟨_, rfl, rfl⟩)
    | (left; rename_i hk; exact ⟨_, rfl, Or.inl (shapeRecord_err hk)⟩)

theorem discusHeader_noCell (lines : List Str) (h : DHdr) (hno : ∀ l ∈ lines, FirstWordNot [kwCell] l) :
    (∃ e, discusHeader lines h = .error e ∧ (e = .sfe ∨ e = .notImpl)) ∨
    ∃ h' rest, discusHeader lines h = .ok (h', rest) ∧ h'.cellRead = h.cellRead := by
  induction lines generalizing h with
  | nil => left; exact ⟨.sfe, rfl, Or.inl rfl⟩
  | cons line rest ih =>
    have ih' := fun h => ih h (fun l hl => hno l (List.mem_cons_of_mem _ hl))
    rw [discusHeader]
    cases hs : splitWs line with
    | nil => exact ih' h
    | cons w0 ws =>
      simp only
      by_cases h1 : w0.head? = some '#'
      · rw [if_pos h1]; exact ih' h
      · rw [if_neg h1]
        by_cases h2 : w0 = kwAtoms
        · rw [if_pos h2]; right; exact ⟨h, rest, rfl, rfl⟩
        · rw [if_neg h2]
          have hw : w0 ≠ kwCell := by
            intro e; exact hno line (by simp) w0 ws hs (by simp [e])
          rcases discusRecord_noCell h line (w0 :: ws) w0 hw with ⟨e, he, hk⟩ | ⟨h', he, hc⟩
          · left; rw [he]; exact ⟨e, rfl, hk⟩
          · rw [he]
            simp only
            rcases ih' h' with ⟨e, he', hk⟩ | ⟨h'', r, he', hc'⟩
            · left; exact ⟨e, he', hk⟩
            · right; exact ⟨h'', r, he', hc'.trans hc⟩

/-- a text none of whose lines begins with the word `cell` is rejected by the DISCUS reader, with the format error
or (for a `generator` / `molecule` / `symmetry` record) `NotImplementedError` -/
theorem parseDiscus_noCell (lines : List Str) (hno : ∀ l ∈ lines, FirstWordNot [kwCell] l) :
    parseDiscus lines = .error .sfe ∨ parseDiscus lines = .error .notImpl := by
  unfold parseDiscus
  rcases discusHeader_noCell (dropTrailingBlank lines) DHdr.init
      (fun l hl => hno l (mem_dropTrailingBlank hl)) with ⟨e, he, hk⟩ | ⟨h', r, he, hc⟩
  · rw [he]; rcases hk with rfl | rfl
    · left; rfl
    · right; rfl
  · rw [he]
    have : h'.cellRead = false := hc
    left; simp [this]

theorem pdffitRecord_noCell (h : PHdr) (line : Str) (words : List Str) (w0 : Str) (hw : w0 ≠ kwCell) (hd : w0 ≠ kwDcell) :
    pdffitRecord h line words w0 = .error .sfe ∨
    ∃ h', pdffitRecord h line words w0 = .ok h' ∧ h'.cellRead = h.cellRead := by
  unfold pdffitRecord
  simp only [if_neg hw, if_neg hd]
  repeat' split
  all_goals first
    | (left; rfl)
    | (right; exact ⟨_, rfl, rfl⟩)
    | (left; rename_i hk; rw [shapeRecord_err hk])

theorem pdffitHeader_noCell (lines : List Str) (h : PHdr) (hno : ∀ l ∈ lines, FirstWordNot [kwCell, kwDcell] l) :
    pdffitHeader lines h = .error .sfe ∨
    ∃ h' rest, pdffitHeader lines h = .ok (h', rest) ∧ h'.cellRead = h.cellRead := by
  induction lines generalizing h with
  | nil => left; rfl
  | cons line rest ih =>
    have ih' := fun h => ih h (fun l hl => hno l (List.mem_cons_of_mem _ hl))
    rw [pdffitHeader]
    cases hs : splitWs line with
    | nil => exact ih' h
    | cons w0 ws =>
      simp only
      by_cases h1 : w0.head? = some '#'
      · rw [if_pos h1]; exact ih' h
      · rw [if_neg h1]
        by_cases h2 : w0 = kwAtoms ∧ h.cellRead = true
        · rw [if_pos h2]; right; exact ⟨h, rest, rfl, rfl⟩
        · rw [if_neg h2]
          have hw := hno line (by simp) w0 ws hs
          rcases pdffitRecord_noCell h line (w0 :: ws) w0 (by intro e; exact hw (by simp [e]))
              (by intro e; exact hw (by simp [e])) with he | ⟨h', he, hc⟩
          · left; rw [he]
          · rw [he]
            simp only
            rcases ih' h' with he' | ⟨h'', r, he', hc'⟩
            · left; exact he'
            · right; exact ⟨h'', r, he', hc'.trans hc⟩

/-- a text none of whose lines begins with the word `cell` or `dcell` is rejected by the PDFfit reader -/
theorem parsePdffit_noCell (lines : List Str) (hno : ∀ l ∈ lines, FirstWordNot [kwCell, kwDcell] l) :
    parsePdffit lines = .error .sfe := by
  unfold parsePdffit
  rcases pdffitHeader_noCell (dropTrailingBlank lines) PHdr.init
      (fun l hl => hno l (mem_dropTrailingBlank hl)) with he | ⟨h', r, he, hc⟩
  · rw [he]
  · rw [he]
    have : h'.cellRead = false := hc
    simp [this]

/-- a line whose first non-blank character is not `c` / `d` does not begin with `cell` / `dcell` -/
theorem firstWordNot_of_head {l : Str} (h : ∀ c cs, lstrip l = c :: cs → c ≠ 'c' ∧ c ≠ 'd') :
    FirstWordNot [kwCell, kwDcell] l := by
  intro w ws hs hmem
  obtain ⟨c, cs, t, hl, _, hw⟩ := splitWs_head_char hs
  obtain ⟨h1, h2⟩ := h c cs hl
  simp only [List.mem_cons, List.not_mem_nil, or_false] at hmem
  rcases hmem with e | e
  · rw [hw] at e; cases e; exact h1 rfl
  · rw [hw] at e; cases e; exact h2 rfl

theorem FirstWordNot.mono {ks ks' : List Str} {l : Str} (h : FirstWordNot ks l) (hs : ∀ k ∈ ks', k ∈ ks) :
    FirstWordNot ks' l := fun w ws e hm => h w ws e (hs w hm)

/-! ## DISCUS and PDFfit: no `atoms` record, no structure (the readers require it since 56ab7f4) -/

/-- the errors of one DISCUS header record -/
theorem discusRecord_err {h : DHdr} {line : Str} {words : List Str} {w0 : Str} {e : PErr}
    (he : discusRecord h line words w0 = .error e) : e = .sfe ∨ e = .notImpl := by
  unfold discusRecord at he
  repeat' split at he
  all_goals first
    | (cases he; exact Or.inl rfl)
    | (cases he; exact Or.inr rfl)
    | (cases he; rename_i hk; exact Or.inl (shapeRecord_err hk))
    | cases he

/-- the DISCUS header loop over lines none of which begins with the word `atoms` never leaves through the `atoms`
branch: it fails in a record, or runs out of lines (`for … else: raise`) -/
theorem discusHeader_noAtoms (lines : List Str) (h : DHdr) (hno : ∀ l ∈ lines, FirstWordNot [kwAtoms] l) :
    ∃ e, discusHeader lines h = .error e ∧ (e = .sfe ∨ e = .notImpl) := by
  induction lines generalizing h with
  | nil => exact ⟨.sfe, rfl, Or.inl rfl⟩
  | cons line rest ih =>
    have ih' := fun h => ih h (fun l hl => hno l (List.mem_cons_of_mem _ hl))
    rw [discusHeader]
    cases hs : splitWs line with
    | nil => exact ih' h
    | cons w0 ws =>
      simp only
      by_cases h1 : w0.head? = some '#'
      · rw [if_pos h1]; exact ih' h
      · rw [if_neg h1]
        have h2 : w0 ≠ kwAtoms := by
          intro e; exact hno line (by simp) w0 ws hs (by simp [e])
        rw [if_neg h2]
        cases hrec : discusRecord h line (w0 :: ws) w0 with
        | error e => exact ⟨e, rfl, discusRecord_err hrec⟩
        | ok h' => exact ih' h'

/-- a text none of whose lines begins with the word `atoms` is rejected by the DISCUS reader, with the format error
or (for a `generator` / `molecule` / `symmetry` record) `NotImplementedError` — whatever `cell` records it has -/
theorem parseDiscus_noAtoms (lines : List Str) (hno : ∀ l ∈ lines, FirstWordNot [kwAtoms] l) :
    parseDiscus lines = .error .sfe ∨ parseDiscus lines = .error .notImpl := by
  unfold parseDiscus
  obtain ⟨e, he, hk⟩ := discusHeader_noAtoms (dropTrailingBlank lines) DHdr.init
      (fun l hl => hno l (mem_dropTrailingBlank hl))
  rw [he]; rcases hk with rfl | rfl
  · left; rfl
  · right; rfl

/-- the errors of one PDFfit header record: the format error, or - only for a `dcell` record whose numbers are not
six - the model's `unmodelled` -/
theorem pdffitRecord_err {h : PHdr} {line : Str} {words : List Str} {w0 : Str} {e : PErr}
    (he : pdffitRecord h line words w0 = .error e) : e = .sfe ∨ (e = .unmodelled ∧ w0 = kwDcell) := by
  unfold pdffitRecord at he
  simp only at he
  repeat' split at he
  all_goals first
    | (cases he; exact Or.inl rfl)
    | (cases he; rename_i hk; exact Or.inl (shapeRecord_err hk))
    | (cases he; right; refine ⟨rfl, ?_⟩; assumption)
    | cases he

/-- the PDFfit header loop over lines none of which begins with the word `atoms` never leaves through the `atoms`
branch -/
theorem pdffitHeader_noAtoms (lines : List Str) (h : PHdr) (hno : ∀ l ∈ lines, FirstWordNot [kwAtoms] l) :
    pdffitHeader lines h = .error .sfe ∨
    (pdffitHeader lines h = .error .unmodelled ∧ ∃ l ∈ lines, ∃ ws, splitWs l = kwDcell :: ws) := by
  induction lines generalizing h with
  | nil => left; rfl
  | cons line rest ih =>
    have ih' : ∀ h, pdffitHeader rest h = .error .sfe ∨
        (pdffitHeader rest h = .error .unmodelled ∧ ∃ l ∈ line :: rest, ∃ ws, splitWs l = kwDcell :: ws) := by
      intro h
      rcases ih h (fun l hl => hno l (List.mem_cons_of_mem _ hl)) with e | ⟨e, l, hl, hw⟩
      · exact Or.inl e
      · exact Or.inr ⟨e, l, List.mem_cons_of_mem _ hl, hw⟩
    rw [pdffitHeader]
    cases hs : splitWs line with
    | nil => exact ih' h
    | cons w0 ws =>
      simp only
      by_cases h1 : w0.head? = some '#'
      · rw [if_pos h1]; exact ih' h
      · rw [if_neg h1]
        have h2 : ¬ (w0 = kwAtoms ∧ h.cellRead = true) := by
          intro e; exact hno line (by simp) w0 ws hs (by simp [e.1])
        rw [if_neg h2]
        cases hrec : pdffitRecord h line (w0 :: ws) w0 with
        | error e =>
          rcases pdffitRecord_err hrec with rfl | ⟨rfl, hw⟩
          · left; rfl
          · right; exact ⟨rfl, line, by simp, ws, by rw [hs, hw]⟩
        | ok h' => exact ih' h'

/-- a text none of whose lines begins with the word `atoms` is rejected by the PDFfit reader (the model stops with
`unmodelled` at a `dcell` record that has not six numbers; the real reader goes on and fails at the end of the header) -/
theorem parsePdffit_noAtoms' (lines : List Str) (hno : ∀ l ∈ lines, FirstWordNot [kwAtoms] l) :
    parsePdffit lines = .error .sfe ∨
    (parsePdffit lines = .error .unmodelled ∧ ∃ l ∈ lines, ∃ ws, splitWs l = kwDcell :: ws) := by
  unfold parsePdffit
  rcases pdffitHeader_noAtoms (dropTrailingBlank lines) PHdr.init
      (fun l hl => hno l (mem_dropTrailingBlank hl)) with he | ⟨he, l, hl, hw⟩
  · rw [he]; left; rfl
  · rw [he]; right; exact ⟨rfl, l, mem_dropTrailingBlank hl, hw⟩

/-- a text none of whose lines begins with the word `atoms` or `dcell` is rejected by the PDFfit reader with the format
error -/
theorem parsePdffit_noAtoms (lines : List Str) (hno : ∀ l ∈ lines, FirstWordNot [kwAtoms, kwDcell] l) :
    parsePdffit lines = .error .sfe := by
  rcases parsePdffit_noAtoms' lines (fun l hl => (hno l hl).mono (by intro k hk; simp at hk; subst hk; simp))
    with e | ⟨_, l, hl, ws, hw⟩
  · exact e
  · exact absurd (by simp) (hno l hl kwDcell ws hw)

/-- a PDFfit header record other than `cell` leaves the `cell`-has-been-read flag alone -/
theorem pdffitRecord_cellRead {h h' : PHdr} {line : Str} {words : List Str} {w0 : Str} (hw : w0 ≠ kwCell)
    (he : pdffitRecord h line words w0 = .ok h') : h'.cellRead = h.cellRead := by
  unfold pdffitRecord at he
  simp only [if_neg hw] at he
  repeat' split at he
  all_goals first
    | (cases he; rfl)
    | cases he

theorem pdffitHeader_noAtoms_or (lines : List Str) (h : PHdr) (hno : ∀ l ∈ lines, FirstWordNot [kwAtoms] l) :
    pdffitHeader lines h = .error .sfe ∨ pdffitHeader lines h = .error .unmodelled :=
  (pdffitHeader_noAtoms lines h hno).imp id And.left

/-- the PDFfit header loop takes an `atoms` line for the end of the header only after a `cell` record: lines `pre`
without a `cell` record followed by lines `post` without an `atoms` record are rejected -/
theorem pdffitHeader_noAtomsAfterCell (pre post : List Str) (h : PHdr) (hc : h.cellRead = false)
    (hpre : ∀ l ∈ pre, FirstWordNot [kwCell] l) (hpost : ∀ l ∈ post, FirstWordNot [kwAtoms] l) :
    pdffitHeader (pre ++ post) h = .error .sfe ∨ pdffitHeader (pre ++ post) h = .error .unmodelled := by
  induction pre generalizing h with
  | nil => exact pdffitHeader_noAtoms_or post h hpost
  | cons line rest ih =>
    have ih' := fun h hc => ih h hc (fun l hl => hpre l (List.mem_cons_of_mem _ hl))
    rw [List.cons_append, pdffitHeader]
    cases hs : splitWs line with
    | nil => exact ih' h hc
    | cons w0 ws =>
      simp only
      by_cases h1 : w0.head? = some '#'
      · rw [if_pos h1]; exact ih' h hc
      · rw [if_neg h1]
        have h2 : ¬ (w0 = kwAtoms ∧ h.cellRead = true) := by
          intro e; rw [hc] at e; exact absurd e.2 (by decide)
        rw [if_neg h2]
        have hw : w0 ≠ kwCell := by
          intro e; exact hpre line (by simp) w0 ws hs (by simp [e])
        cases hrec : pdffitRecord h line (w0 :: ws) w0 with
        | error e =>
          rcases pdffitRecord_err hrec with rfl | ⟨rfl, _⟩
          · left; rfl
          · right; rfl
        | ok h' => exact ih' h' ((pdffitRecord_cellRead hw hrec).trans hc)

theorem dropTrailingBlank_append (pre post : List Str) :
    ∃ pre' post', dropTrailingBlank (pre ++ post) = pre' ++ post' ∧ (∀ l ∈ pre', l ∈ pre) ∧ (∀ l ∈ post', l ∈ post) := by
  unfold dropTrailingBlank
  rw [List.reverse_append, List.dropWhile_append]
  split
  · exact ⟨_, [], (List.append_nil _).symm,
      fun l hl => mem_dropTrailingBlank (by unfold dropTrailingBlank; exact hl), by simp⟩
  · refine ⟨pre, (post.reverse.dropWhile (fun l => (strip l).isEmpty)).reverse, by simp, fun _ h => h,
      fun l hl => mem_dropTrailingBlank (by unfold dropTrailingBlank; exact hl)⟩

/-- a text that splits into lines without a `cell` record followed by lines without an `atoms` record is rejected by
the PDFfit reader (the model's `unmodelled`: a `dcell` record that has not six numbers) -/
theorem parsePdffit_noAtomsAfterCell (pre post : List Str)
    (hpre : ∀ l ∈ pre, FirstWordNot [kwCell] l) (hpost : ∀ l ∈ post, FirstWordNot [kwAtoms] l) :
    parsePdffit (pre ++ post) = .error .sfe ∨ parsePdffit (pre ++ post) = .error .unmodelled := by
  obtain ⟨pre', post', e, h1, h2⟩ := dropTrailingBlank_append pre post
  unfold parsePdffit
  rw [e]
  rcases pdffitHeader_noAtomsAfterCell pre' post' PHdr.init rfl (fun l hl => hpre l (h1 l hl))
      (fun l hl => hpost l (h2 l hl)) with he | he
  · rw [he]; left; rfl
  · rw [he]; right; rfl

/-! ## PDB: the first record word must be a record name -/

def pdbRecordNames : List Str :=
  [kwTITLE, kwCRYST1, kwSCALE '1', kwSCALE '2', kwSCALE '3', kwATOM, kwHETATM, kwSIGATM, kwANISOU, kwSIGUIJ] ++ pdbOtherRecords

def isPdbRecord (w : Str) : Bool := pdbRecordNames.contains w

theorem pdbRecord_reject (st : PdbSt) (line w : Str) (h : isPdbRecord w = false) :
    pdbRecord st line w = .error .sfe := by
  have hn : ∀ k ∈ pdbRecordNames, w ≠ k := by
    intro k hk e
    rw [isPdbRecord, e] at h
    have : pdbRecordNames.contains k = true := List.contains_iff_mem.mpr hk
    rw [this] at h; cases h
  have hother : pdbOtherRecords.contains w = false := by
    cases ho : pdbOtherRecords.contains w with
    | false => rfl
    | true =>
      exact absurd rfl (hn w (by simp [pdbRecordNames, List.contains_iff_mem.mp ho]))
  unfold pdbRecord
  rw [if_neg (hn _ (by simp [pdbRecordNames])), if_neg (hn _ (by simp [pdbRecordNames])),
    if_neg (by
      intro e
      rcases e with e | e | e
      · exact hn _ (by simp [pdbRecordNames]) e
      · exact hn _ (by simp [pdbRecordNames]) e
      · exact hn _ (by simp [pdbRecordNames]) e),
    if_neg (by
      intro e
      rcases e with e | e
      · exact hn _ (by simp [pdbRecordNames]) e
      · exact hn _ (by simp [pdbRecordNames]) e),
    if_neg (by
      intro e
      rcases e with e | e | e
      · exact hn _ (by simp [pdbRecordNames]) e
      · exact hn _ (by simp [pdbRecordNames]) e
      · exact hn _ (by simp [pdbRecordNames]) e)]
  have hmem : w ∉ pdbOtherRecords := fun hm => hn w (by simp [pdbRecordNames, hm]) rfl
  simp [hmem]

/-- a text whose first line is not blank and begins with a word that is not a PDB record name is rejected -/
theorem parsePdb_reject_words (l : Str) (ls : List Str) (w : Str) (ws : List Str) (hs : splitWs l = w :: ws)
    (hw : isPdbRecord w = false) : parsePdb (l :: ls) = .error .sfe := by
  have hne : (strip l).isEmpty = false := strip_ne_of_split (by rw [hs]; simp)
  have hpad : splitWs (if l.length < 80 then padRight 80 l else l) = w :: ws := by
    split
    · rw [padRight_eq, splitWs_append_allWs (AllWs_replicate _), hs]
    · exact hs
  unfold parsePdb
  rw [pdbLoop]
  simp only [hne, Bool.false_eq_true, if_false, hpad, pdbRecord_reject _ _ w hw]

theorem isPdbRecord_head {w : Str} (h : isPdbRecord w = true) : ∃ c cs, w = c :: cs ∧ isUpperA c = true := by
  have hall : pdbRecordNames.all (fun r => match r with | c :: _ => isUpperA c | [] => false) = true := by decide
  have := List.all_eq_true.mp hall w (List.contains_iff_mem.mp h)
  cases w with
  | nil => simp at this
  | cons c cs => exact ⟨c, cs, rfl, this⟩

/-- … in particular when the first line begins with a character that is not an upper-case letter -/
theorem parsePdb_reject_head (l : Str) (ls : List Str) (c : Char) (cs : Str) (hl : lstrip l = c :: cs)
    (hws : isWs c = false) (hu : isUpperA c = false) : parsePdb (l :: ls) = .error .sfe := by
  obtain ⟨t, rest, e⟩ := splitWs_cons_head (s := cs) hws
  have hs : splitWs l = (c :: t) :: rest := by rw [← splitWs_lstrip, hl, e]
  apply parsePdb_reject_words l ls _ _ hs
  cases hr : isPdbRecord (c :: t) with
  | false => rfl
  | true =>
    obtain ⟨c', cs', e', hu'⟩ := isPdbRecord_head hr
    cases e'; rw [hu] at hu'; cases hu'

/-! ## XCFG: the first record must be `Number of particles =` -/

def kwNumber : Str := "Number of particles =".toList

theorem isPrefixOf_head {p s : Str} {c : Char} {p' : Str} (hp : p = c :: p') (h : isPrefixOf p s = true) :
    s.head? = some c := by
  subst hp
  cases s with
  | nil => simp [isPrefixOf] at h
  | cons d ds =>
    simp only [isPrefixOf, List.length_cons, List.take_succ_cons, beq_iff_eq, List.cons.injEq] at h
    simp [h.1]

theorem dropTrailingBlank_cons (l : Str) (ls : List Str) (h : (strip l).isEmpty = false) :
    ∃ ls', dropTrailingBlank (l :: ls) = l :: ls' := by
  unfold dropTrailingBlank
  rw [List.reverse_cons]
  have : ∃ X, (ls.reverse ++ [l]).dropWhile (fun l => (strip l).isEmpty) = X ++ [l] := by
    generalize ls.reverse = A
    induction A with
    | nil => exact ⟨[], by simp [h]⟩
    | cons a A ih =>
      simp only [List.cons_append, List.dropWhile_cons]
      split
      · exact ih
      · exact ⟨a :: A, rfl⟩
  obtain ⟨X, e⟩ := this
  rw [e]
  exact ⟨X.reverse, by simp⟩

/-- a text whose first line is not blank, not a comment and does not start with `Number of particles =` is
rejected by the XCFG reader -/
theorem parseXcfg_reject_head (l : Str) (ls : List Str) (h1 : (strip l).isEmpty = false) (h2 : l.head? ≠ some '#')
    (h3 : isPrefixOf kwNumber l = false) : parseXcfg (l :: ls) = .error .sfe := by
  obtain ⟨ls', e⟩ := dropTrailingBlank_cons l ls h1
  unfold parseXcfg
  rw [e, xcfgHeader]
  have h2' : (l.head? == some '#') = false := by simpa using h2
  have h3' : isPrefixOf "Number of particles =".toList l = false := h3
  simp only [h1, h2', h3', Bool.or_false, Bool.false_eq_true, if_false, Option.isNone_none, if_true, Bool.not_false]

theorem xcfgHeader_noNumber (lines : List Str) (h : XHdr) (hn : h.n = none)
    (hno : ∀ l ∈ lines, isPrefixOf kwNumber l = false) :
    xcfgHeader lines h = .error .sfe ∨ ∃ h', xcfgHeader lines h = .ok (h', []) ∧ h'.n = none := by
  induction lines with
  | nil => right; exact ⟨h, rfl, hn⟩
  | cons l rest ih =>
    have ih' := ih (fun l hl => hno l (List.mem_cons_of_mem _ hl))
    rw [xcfgHeader]
    split
    · exact ih'
    · have h3' : isPrefixOf "Number of particles =".toList l = false := hno l (by simp)
      left; simp only [hn, h3', Option.isNone_none, if_true, Bool.not_false]

/-- a text without any line starting with `Number of particles =` is rejected by the XCFG reader -/
theorem parseXcfg_reject_noNumber (lines : List Str) (hno : ∀ l ∈ lines, isPrefixOf kwNumber l = false) :
    parseXcfg lines = .error .sfe := by
  unfold parseXcfg
  rcases xcfgHeader_noNumber (dropTrailingBlank lines) ⟨none, none, List.replicate 9 none, false, none, []⟩ rfl
      (fun l hl => hno l (mem_dropTrailingBlank hl)) with e | ⟨h', e, hn⟩
  · rw [e]
  · rw [e]
    simp only [hn]
    split <;> simp_all

end DS.Formats
