import DS.Model.SymType
import Mathlib.Tactic.Ring
import Mathlib.Tactic.Linarith

/-!
Soundness of the screw-order certificate checker `DS.SymType.checkScrew` and the origin-shift invariance of
`s = N t`.
-/
namespace DS
namespace SymType

/-! ### componentwise algebra on `Vec3 Int` / `Mat3 Int` -/

theorem v_ext {u v : V} (h1 : u.x = v.x) (h2 : u.y = v.y) (h3 : u.z = v.z) : u = v := by
  cases u; cases v; simp_all

theorem m_ext {a b : M}
    (h1 : a.a11 = b.a11) (h2 : a.a12 = b.a12) (h3 : a.a13 = b.a13)
    (h4 : a.a21 = b.a21) (h5 : a.a22 = b.a22) (h6 : a.a23 = b.a23)
    (h7 : a.a31 = b.a31) (h8 : a.a32 = b.a32) (h9 : a.a33 = b.a33) : a = b := by
  cases a; cases b; simp_all

theorem one_mul (R : M) : Mat3.one.mul R = R := by
  apply m_ext <;> simp only [Mat3.mul, Mat3.one] <;> ring

theorem zero_add (A : M) : Mat3.zero.add A = A := by
  apply m_ext <;> simp only [Mat3.add, Mat3.zero] <;> ring

theorem add_mul (A B C : M) : (A.add B).mul C = (A.mul C).add (B.mul C) := by
  apply m_ext <;> simp only [Mat3.mul, Mat3.add] <;> ring

theorem add_assoc (A B C : M) : (A.add B).add C = A.add (B.add C) := by
  apply m_ext <;> simp only [Mat3.add] <;> ring

theorem add_right_cancel_one {A B : M} (h : Mat3.one.add A = B.add Mat3.one) : A = B := by
  have h' := h
  simp only [Mat3.add, Mat3.one, Mat3.mk.injEq] at h'
  obtain ⟨h1, h2, h3, h4, h5, h6, h7, h8, h9⟩ := h'
  apply m_ext <;> linarith

theorem mulVec_add (A : M) (u v : V) : A.mulVec (u.add v) = (A.mulVec u).add (A.mulVec v) := by
  apply v_ext <;> simp only [Mat3.mulVec, Vec3.add] <;> ring

theorem mulVec_sub (A : M) (u v : V) : A.mulVec (u.sub v) = (A.mulVec u).sub (A.mulVec v) := by
  apply v_ext <;> simp only [Mat3.mulVec, Vec3.sub] <;> ring

theorem mulVec_mulVec (A B : M) (v : V) : A.mulVec (B.mulVec v) = (A.mul B).mulVec v := by
  apply v_ext <;> simp only [Mat3.mulVec, Mat3.mul] <;> ring

theorem mulVec_zero (A : M) : A.mulVec Vec3.zero = Vec3.zero := by
  apply v_ext <;> simp only [Mat3.mulVec, Vec3.zero] <;> ring

theorem add_sub_self (v w : V) : v.add (w.sub w) = v := by
  apply v_ext <;> simp only [Vec3.add, Vec3.sub] <;> ring

theorem dot_vecMul (f : V) (N : M) (v : V) : (Mat3.vecMul f N).dot v = f.dot (N.mulVec v) := by
  simp only [Mat3.vecMul, Mat3.mulVec, Vec3.dot]; ring

theorem dot_smul (f : V) (c : Int) (v : V) : f.dot (Vec3.smul c v) = c * f.dot v := by
  simp only [Vec3.smul, Vec3.dot]; ring

/-! ### order of the rotation part, `N = 1 + R + … + R^(n-1)` -/

/-- `1 + (1 + R + … + R^(k-1)) R = (1 + R + … + R^(k-1)) + R^k` -/
theorem sumPow_mul (R : M) : ∀ k, Mat3.one.add ((sumPow R k).mul R) = (sumPow R k).add (pow R k)
  | 0 => by
    apply m_ext <;> simp only [sumPow, pow, Mat3.mul, Mat3.add, Mat3.zero, Mat3.one] <;> ring
  | k + 1 => by
    have ih := sumPow_mul R k
    show Mat3.one.add (((sumPow R k).add (pow R k)).mul R) = ((sumPow R k).add (pow R k)).add ((pow R k).mul R)
    rw [add_mul, ← add_assoc, ih]

/-- `N R = N` when `R^n = 1` -/
theorem sumPow_mul_self {R : M} {n : Nat} (h : pow R n = Mat3.one) : (sumPow R n).mul R = sumPow R n := by
  have := sumPow_mul R n
  rw [h] at this
  exact add_right_cancel_one this

theorem ordAux_spec (R : M) : ∀ (fuel k : Nat) (P acc : M), 0 < k → P = pow R k → acc = sumPow R k →
    (∀ j, 0 < j → j < k → pow R j ≠ Mat3.one) →
    ∀ n N, ordAux R fuel k P acc = some (n, N) → IsOrd R n ∧ N = sumPow R n
  | 0, _, _, _, _, _, _, _, _, _, h => by simp [ordAux] at h
  | fuel + 1, k, P, acc, hk, hP, hacc, hmin, n, N, h => by
    unfold ordAux at h
    split at h
    · rename_i hone
      simp only [Option.some.injEq, Prod.mk.injEq] at h
      obtain ⟨rfl, rfl⟩ := h
      exact ⟨⟨hk, hP ▸ hone, hmin⟩, hacc⟩
    · rename_i hne
      refine ordAux_spec R fuel (k + 1) (P.mul R) (acc.add P) (Nat.succ_pos k) ?_ ?_ ?_ n N h
      · rw [hP]; rfl
      · rw [hP, hacc]; rfl
      · intro j hj hjk
        rcases Nat.lt_succ_iff_lt_or_eq.1 hjk with hlt | rfl
        · exact hmin j hj hlt
        · rw [← hP]; exact hne

theorem ordSum_spec {R : M} {n : Nat} {N : M} (h : ordSum R = some (n, N)) : IsOrd R n ∧ N = sumPow R n := by
  refine ordAux_spec R 6 1 R Mat3.one Nat.one_pos ?_ ?_ ?_ n N h
  · show R = (Mat3.one).mul R
    rw [one_mul]
  · show Mat3.one = (Mat3.zero).add Mat3.one
    rw [zero_add]
  · intro j hj hj1; omega

theorem isOrd_unique {R : M} {n n' : Nat} (h : IsOrd R n) (h' : IsOrd R n') : n = n' := by
  rcases Nat.lt_trichotomy n n' with hlt | heq | hgt
  · exact absurd h.2.1 (h'.2.2 n h.1 hlt)
  · exact heq
  · exact absurd h'.2.1 (h.2.2 n' h'.1 hgt)

theorem ordOf_spec {R : M} {n : Nat} (h : IsOrd R n) (hn : ordSum R ≠ none) : ordOf R = n := by
  unfold ordOf
  cases hs : ordSum R with
  | none => exact absurd hs hn
  | some p =>
    obtain ⟨k, N⟩ := p
    exact isOrd_unique (ordSum_spec hs).1 h

/-! ### origin shift -/

/-- Conjugating `(R, t)` by the translation `u` changes `t` to `t + (1 - R) u` and leaves `s = N t` unchanged,
because `N (1 - R) = 0` when `R^n = 1`. -/
theorem sumPow_shift {R : M} {n : Nat} (h : pow R n = Mat3.one) (t u : V) :
    (sumPow R n).mulVec (t.add (u.sub (R.mulVec u))) = (sumPow R n).mulVec t := by
  rw [mulVec_add, mulVec_sub, mulVec_mulVec, sumPow_mul_self h, add_sub_self]

theorem rot_shift (a : Op) (u : V) : rot (shift a u) = rot a := rfl

theorem tr_shift (a : Op) (u : V) : tr (shift a u) = (tr a).add (u.sub ((rot a).mulVec u)) := rfl

theorem screwVec_shift {a : Op} {n : Nat} (h : pow (rot a) n = Mat3.one) (u : V) :
    screwVec (shift a u) n = screwVec a n := by
  unfold screwVec
  rw [rot_shift, tr_shift, sumPow_shift h]

/-- the screw order does not depend on the choice of origin -/
theorem isScrewOrder_shift (gens : List V) (a : Op) (u : V) (m : Nat) :
    IsScrewOrder gens (shift a u) m ↔ IsScrewOrder gens a m := by
  unfold IsScrewOrder
  constructor
  · rintro ⟨n, hn, hm, hin, hleast⟩
    rw [rot_shift] at hn hin hleast
    rw [screwVec_shift hn.2.1] at hin hleast
    exact ⟨n, hn, hm, hin, hleast⟩
  · rintro ⟨n, hn, hm, hin, hleast⟩
    refine ⟨n, by rw [rot_shift]; exact hn, hm, ?_, ?_⟩
    · rw [rot_shift, screwVec_shift hn.2.1]; exact hin
    · rw [rot_shift, screwVec_shift hn.2.1]; exact hleast

/-! ### the span of the generators -/

theorem span_add_smul {gens : List V} {v g : V} (hv : Span gens v) (hg : g ∈ gens) (c : Int) :
    Span gens (v.add (Vec3.smul c g)) := by
  induction c using Int.induction_on with
  | zero =>
    have : v.add (Vec3.smul 0 g) = v := by
      apply v_ext <;> simp only [Vec3.add, Vec3.smul] <;> ring
    rw [this]; exact hv
  | succ i ih =>
    have : v.add (Vec3.smul ((i : Int) + 1) g) = (v.add (Vec3.smul (i : Int) g)).add g := by
      apply v_ext <;> simp only [Vec3.add, Vec3.smul] <;> ring
    rw [this]; exact Span.add ih hg
  | pred i ih =>
    have : v.add (Vec3.smul (-(i : Int) - 1) g) = (v.add (Vec3.smul (-(i : Int)) g)).sub g := by
      apply v_ext <;> simp only [Vec3.add, Vec3.sub, Vec3.smul] <;> ring
    rw [this]; exact Span.sub ih hg

theorem span_lincomb {gens : List V} : ∀ (cs : List Int) (vs : List V), (∀ v ∈ vs, v ∈ gens) →
    Span gens (lincomb cs vs)
  | [], _, _ => by unfold lincomb; exact Span.zero
  | _ :: _, [], _ => by unfold lincomb; exact Span.zero
  | c :: cs, v :: vs, h => by
    have ih := span_lincomb cs vs (fun w hw => h w (List.mem_cons_of_mem _ hw))
    have hv : v ∈ gens := h v List.mem_cons_self
    have : lincomb (c :: cs) (v :: vs) = (lincomb cs vs).add (Vec3.smul c v) := by
      apply v_ext <;> simp only [lincomb, Vec3.add] <;> ring
    rw [this]; exact span_add_smul ih hv c

theorem span_neg {gens : List V} {v : V} (hv : Span gens v) : Span gens (Vec3.zero.sub v) := by
  induction hv with
  | zero =>
    have : (Vec3.zero : V).sub Vec3.zero = Vec3.zero := by
      apply v_ext <;> simp only [Vec3.sub, Vec3.zero] <;> ring
    rw [this]; exact Span.zero
  | @add v g _ hg ih =>
    have : (Vec3.zero : V).sub (v.add g) = ((Vec3.zero : V).sub v).sub g := by
      apply v_ext <;> simp only [Vec3.sub, Vec3.add, Vec3.zero] <;> ring
    rw [this]; exact Span.sub ih hg
  | @sub v g _ hg ih =>
    have : (Vec3.zero : V).sub (v.sub g) = ((Vec3.zero : V).sub v).add g := by
      apply v_ext <;> simp only [Vec3.sub, Vec3.add, Vec3.zero] <;> ring
    rw [this]; exact Span.add ih hg

theorem span_add {gens : List V} {v w : V} (hv : Span gens v) (hw : Span gens w) : Span gens (v.add w) := by
  induction hw with
  | zero =>
    have : v.add Vec3.zero = v := by
      apply v_ext <;> simp only [Vec3.add, Vec3.zero] <;> ring
    rw [this]; exact hv
  | @add w g _ hg ih =>
    have : v.add (w.add g) = (v.add w).add g := by
      apply v_ext <;> simp only [Vec3.add] <;> ring
    rw [this]; exact Span.add ih hg
  | @sub w g _ hg ih =>
    have : v.add (w.sub g) = (v.add w).sub g := by
      apply v_ext <;> simp only [Vec3.add, Vec3.sub] <;> ring
    rw [this]; exact Span.sub ih hg

theorem span_sub {gens : List V} {v w : V} (hv : Span gens v) (hw : Span gens w) : Span gens (v.sub w) := by
  have : v.sub w = v.add (Vec3.zero.sub w) := by
    apply v_ext <;> simp only [Vec3.add, Vec3.sub, Vec3.zero] <;> ring
  rw [this]; exact span_add hv (span_neg hw)

theorem span_nsmul {gens : List V} {v : V} (hv : Span gens v) : ∀ m : Nat, Span gens (Vec3.smul (m : Int) v)
  | 0 => by
    have : Vec3.smul ((0 : Nat) : Int) v = Vec3.zero := by
      apply v_ext <;> simp only [Vec3.smul, Vec3.zero] <;> simp
    rw [this]; exact Span.zero
  | m + 1 => by
    have : Vec3.smul ((m + 1 : Nat) : Int) v = (Vec3.smul (m : Int) v).add v := by
      apply v_ext <;> simp only [Vec3.smul, Vec3.add] <;> push_cast <;> ring
    rw [this]; exact span_add (span_nsmul hv m) hv

/-- a functional that vanishes modulo `q` on the images of the generators vanishes modulo `q` on `N(L)` -/
theorem span_dvd {gens : List V} {N : M} {f : V} {q : Int}
    (h : ∀ g ∈ gens, q ∣ (Mat3.vecMul f N).dot g) {l : V} (hl : Span gens l) : q ∣ f.dot (N.mulVec l) := by
  induction hl with
  | zero =>
    have : f.dot (N.mulVec Vec3.zero) = 0 := by
      simp only [Mat3.mulVec, Vec3.dot, Vec3.zero]; ring
    rw [this]; exact Int.dvd_zero q
  | @add v g _ hg ih =>
    have : f.dot (N.mulVec (v.add g)) = f.dot (N.mulVec v) + (Mat3.vecMul f N).dot g := by
      simp only [Mat3.mulVec, Mat3.vecMul, Vec3.dot, Vec3.add]; ring
    rw [this]; exact Int.dvd_add ih (h g hg)
  | @sub v g _ hg ih =>
    have : f.dot (N.mulVec (v.sub g)) = f.dot (N.mulVec v) - (Mat3.vecMul f N).dot g := by
      simp only [Mat3.mulVec, Mat3.vecMul, Vec3.dot, Vec3.sub]; ring
    rw [this]; exact Int.dvd_sub ih (h g hg)

/-! ### the screw order belongs to the coset of the translation group -/

theorem inNL_translate {gens : List V} {N : M} {s l : V} (hl : Span gens l) (k : Nat) :
    InNL gens N (Vec3.smul (k : Int) (s.add (N.mulVec l))) ↔ InNL gens N (Vec3.smul (k : Int) s) := by
  have key : Vec3.smul (k : Int) (s.add (N.mulVec l))
      = (Vec3.smul (k : Int) s).add (N.mulVec (Vec3.smul (k : Int) l)) := by
    apply v_ext <;> simp only [Vec3.smul, Vec3.add, Mat3.mulVec] <;> ring
  rw [key]
  constructor
  · rintro ⟨l', hl', hx⟩
    refine ⟨l'.sub (Vec3.smul (k : Int) l), span_sub hl' (span_nsmul hl k), ?_⟩
    rw [mulVec_sub, ← hx]
    apply v_ext <;> simp only [Vec3.add, Vec3.sub] <;> ring
  · rintro ⟨l', hl', hx⟩
    refine ⟨l'.add (Vec3.smul (k : Int) l), span_add hl' (span_nsmul hl k), ?_⟩
    rw [mulVec_add, ← hx]

theorem screwVec_translate (a : Op) (l : V) (n : Nat) :
    screwVec (translate a l) n = (screwVec a n).add ((sumPow (rot a) n).mulVec l) := by
  unfold screwVec
  rw [← mulVec_add]; rfl

/-- all operations of a coset `a·T` (translation part changed by a lattice vector) have the same screw order -/
theorem isScrewOrder_translate {gens : List V} (a : Op) {l : V} (hl : Span gens l) (m : Nat) :
    IsScrewOrder gens (translate a l) m ↔ IsScrewOrder gens a m := by
  unfold IsScrewOrder
  have hr : rot (translate a l) = rot a := rfl
  constructor
  · rintro ⟨n, hn, hm, hin, hleast⟩
    rw [hr] at hn hin hleast
    rw [screwVec_translate, inNL_translate hl] at hin
    refine ⟨n, hn, hm, hin, fun m' h1 h2 hc => hleast m' h1 h2 ?_⟩
    rw [screwVec_translate, inNL_translate hl]; exact hc
  · rintro ⟨n, hn, hm, hin, hleast⟩
    refine ⟨n, by rw [hr]; exact hn, hm, ?_, fun m' h1 h2 hc => hleast m' h1 h2 ?_⟩
    · rw [hr, screwVec_translate, inNL_translate hl]; exact hin
    · rw [hr, screwVec_translate, inNL_translate hl] at hc; exact hc

/-! ### the certificate checker -/

theorem checkNonOne_sound {N : M} {gens : List V} {s : V} {m' : Nat} {f : V} {q : Nat}
    (h : checkNonOne N gens s m' f q = true) : ¬ InNL gens N (Vec3.smul (m' : Int) s) := by
  simp only [checkNonOne, Bool.and_eq_true, List.all_eq_true, decide_eq_true_eq, Bool.not_eq_true',
    decide_eq_false_iff_not] at h
  obtain ⟨hg, hs⟩ := h
  rintro ⟨l, hl, hx⟩
  apply hs
  have hd : (q : Int) ∣ f.dot (N.mulVec l) :=
    span_dvd (fun g hg' => Int.dvd_of_emod_eq_zero (hg g hg')) hl
  rw [← hx, dot_smul] at hd
  exact Int.emod_eq_zero_of_dvd hd

theorem checkNon_sound {N : M} {gens : List V} {s : V} {m : Nat} :
    ∀ (certs : List (V × Nat)) (m' : Nat), checkNon N gens s m m' certs = true →
      ∀ k, m' ≤ k → k < m → ¬ InNL gens N (Vec3.smul (k : Int) s)
  | [], m', h => by
    simp only [checkNon, decide_eq_true_eq] at h
    intro k hk hkm; omega
  | (f, q) :: rest, m', h => by
    simp only [checkNon, Bool.or_eq_true, Bool.and_eq_true, decide_eq_true_eq] at h
    intro k hk hkm
    rcases h with h | ⟨h1, h2⟩
    · omega
    · rcases Nat.eq_or_lt_of_le hk with rfl | hlt
      · exact checkNonOne_sound h1
      · exact checkNon_sound rest (m' + 1) h2 k hlt hkm

theorem mem_latGens_all (gens : List V) : ∀ v ∈ gens, v ∈ gens := fun _ h => h

/-- (a) the witness gives membership, (b) the functionals exclude membership for all integer combinations:
an accepted certificate names the screw order of the operation. -/
theorem checkOp_sound {gens : List V} {a : Op} {c : OpCert} (h : checkOp gens a c = true) :
    IsScrewOrder gens a c.m := by
  unfold checkOp at h
  split at h
  · exact absurd h (by simp)
  · rename_i n N hs
    obtain ⟨hord, rfl⟩ := ordSum_spec hs
    simp only [Bool.and_eq_true, decide_eq_true_eq] at h
    obtain ⟨⟨hm, hw⟩, hnon⟩ := h
    refine ⟨n, hord, hm, ?_, ?_⟩
    · refine ⟨Vec3.zero.sub (lincomb c.a gens), span_neg (span_lincomb c.a gens (fun _ h => h)), ?_⟩
      have hw' := hw
      simp only [Vec3.add, Vec3.zero, Vec3.mk.injEq] at hw'
      obtain ⟨h1, h2, h3⟩ := hw'
      unfold screwVec
      rw [mulVec_sub, mulVec_zero]
      apply v_ext <;> simp only [Vec3.sub, Vec3.zero] <;> linarith
    · intro m' hm1 hlt
      exact checkNon_sound c.non 1 hnon m' hm1 hlt

theorem checkOps_sound {gens : List V} : ∀ (ops : List Op) (cs : List OpCert), checkOps gens ops cs = true →
    OrdersAre gens ops (cs.map (·.m))
  | [], [], _ => OrdersAre.nil
  | [], _ :: _, h => by simp [checkOps] at h
  | _ :: _, [], h => by simp [checkOps] at h
  | a :: as, c :: cs, h => by
    simp only [checkOps, Bool.and_eq_true] at h
    exact OrdersAre.cons (checkOp_sound h.1) (checkOps_sound as cs h.2)

theorem checkCensus_sound {ks : List Key} {ref : List (Key × Nat)} {nc : Nat}
    (h : checkCensus ks ref nc = true) : CensusIs ks ref nc := by
  simp only [checkCensus, Bool.and_eq_true, List.all_eq_true, decide_eq_true_eq, List.elem_eq_mem] at h
  exact ⟨h.1.1, h.1.2, h.2⟩

/-- If the checker accepts, then for every operation the claimed `m` really is the least `m ≥ 1` with
`m·(N t) ∈ N(L)`, `L` the ℤ-span of the unit and centring translations, and the census of
(det, trace, m) is the reference census of `number % 1000`. -/
theorem checkScrew_sound {g : SG} {c : List OpCert} (h : checkScrew g c = true) :
    TypeOK g (c.map (·.m)) := by
  simp only [checkScrew, checkTypeOps, checkTypeCensus, Bool.and_eq_true] at h
  exact ⟨checkOps_sound _ _ h.1, checkCensus_sound h.2⟩

/-- the screw order is a function of the operation and the lattice -/
theorem isScrewOrder_unique {gens : List V} {a : Op} {m m' : Nat}
    (h : IsScrewOrder gens a m) (h' : IsScrewOrder gens a m') : m = m' := by
  obtain ⟨n, hn, hm, hin, hl⟩ := h
  obtain ⟨n', hn', hm', hin', hl'⟩ := h'
  obtain rfl := isOrd_unique hn hn'
  rcases Nat.lt_trichotomy m m' with hlt | heq | hgt
  · exact absurd hin (hl' m hm hlt)
  · exact heq
  · exact absurd hin' (hl m' hm' hgt)

/-- hence the orders found by the checker are the only ones: any other list of screw orders coincides -/
theorem orders_unique {gens : List V} : ∀ {ops : List Op} {ms ms' : List Nat},
    OrdersAre gens ops ms → OrdersAre gens ops ms' → ms = ms'
  | _, _, _, OrdersAre.nil, OrdersAre.nil => rfl
  | _, _, _, OrdersAre.cons h t, OrdersAre.cons h' t' => by
    rw [isScrewOrder_unique h h', orders_unique t t']

end SymType
end DS
