import DS.Model.LatRule
import DS.Lemmas.RealElem
import Mathlib.Analysis.SpecialFunctions.Trigonometric.Basic
import Mathlib.Tactic.Ring
import Mathlib.Tactic.Linarith
import Mathlib.Tactic.LinearCombination
import Mathlib.Tactic.NormNum

/-!
Soundness of the lattice-rule certificates (`DS.LatRule.checkLatCert`) over the reals and the
bridge from linear conditions on the metric tensor to the parameter comparisons that
`isSpaceGroupLatPar` performs.
-/
namespace DS.LatRule
open DS Real

abbrev CellR := CellP ℝ

/-- a proper cell: positive lengths, angles strictly between 0 and 180 degrees -/
structure Valid (c : CellR) : Prop where
  a_pos : 0 < c.a
  b_pos : 0 < c.b
  c_pos : 0 < c.c
  alpha_pos : 0 < c.alpha
  alpha_lt : c.alpha < 180
  beta_pos : 0 < c.beta
  beta_lt : c.beta < 180
  gamma_pos : 0 < c.gamma
  gamma_lt : c.gamma < 180

theorem Valid.len_pos {c : CellR} (h : Valid c) (x : Len) : 0 < c.len x := by
  cases x
  · exact h.a_pos
  · exact h.b_pos
  · exact h.c_pos

theorem Valid.ang_pos {c : CellR} (h : Valid c) (x : Ang) : 0 < c.ang x := by
  cases x
  · exact h.alpha_pos
  · exact h.beta_pos
  · exact h.gamma_pos

theorem Valid.ang_lt {c : CellR} (h : Valid c) (x : Ang) : c.ang x < 180 := by
  cases x
  · exact h.alpha_lt
  · exact h.beta_lt
  · exact h.gamma_lt

/-! ### cosine in degrees -/

theorem cosd_def (x : ℝ) : (Elem.cosd x : ℝ) = Real.cos (x * π / 180) := rfl

theorem cosd_90 : (Elem.cosd (90 : ℝ) : ℝ) = 0 := by
  rw [cosd_def, show (90 : ℝ) * π / 180 = π / 2 by ring]
  exact Real.cos_pi_div_two

theorem cosd_120 : (Elem.cosd (120 : ℝ) : ℝ) = -(1 / 2) := by
  rw [cosd_def, show (120 : ℝ) * π / 180 = π - π / 3 by ring, Real.cos_pi_sub, Real.cos_pi_div_three]

/-- cosine is injective on angles between 0 and 180 degrees -/
theorem cosd_inj {x y : ℝ} (hx0 : 0 < x) (hx : x < 180) (hy0 : 0 < y) (hy : y < 180)
    (h : (Elem.cosd x : ℝ) = Elem.cosd y) : x = y := by
  have hpi := Real.pi_pos
  have key : x * π / 180 = y * π / 180 := by
    apply Real.injOn_cos _ _ h
    · constructor
      · positivity
      · rw [div_le_iff₀ (by norm_num : (0 : ℝ) < 180)]; nlinarith
    · constructor
      · positivity
      · rw [div_le_iff₀ (by norm_num : (0 : ℝ) < 180)]; nlinarith
  have : x * π = y * π := by linarith
  exact mul_right_cancel₀ hpi.ne' this

/-! ### entries of the metric tensor -/

theorem metric_diag (c : CellR) (x : Len) : (metric c).diag x = c.len x * c.len x := by
  cases x <;> rfl

theorem metric_off (c : CellR) (x : Ang) :
    (metric c).off x = c.len x.ax1 * c.len x.ax2 * Elem.cosd (c.ang x) := by
  cases x <;> rfl

/-! ### linear forms over the reals -/

namespace LF

theorem eval_zero (G : Metric ℝ) : LF.zero.eval G = 0 := by
  simp [LF.zero, LF.eval]

theorem eval_add (f g : LF) (G : Metric ℝ) : (f.add g).eval G = f.eval G + g.eval G := by
  simp only [LF.add, LF.eval]; push_cast; ring

theorem eval_sub (f g : LF) (G : Metric ℝ) : (f.sub g).eval G = f.eval G - g.eval G := by
  simp only [LF.sub, LF.eval]; push_cast; ring

theorem eval_smul (k : Int) (f : LF) (G : Metric ℝ) : (f.smul k).eval G = (k : ℝ) * f.eval G := by
  simp only [LF.smul, LF.eval]; push_cast; ring

theorem eval_diag (x : Len) (G : Metric ℝ) : (LF.diag x).eval G = G.diag x := by
  cases x <;> simp [LF.diag, LF.eval, Metric.diag]

theorem eval_off (x : Ang) (G : Metric ℝ) : (LF.off x).eval G = G.off x := by
  cases x <;> simp [LF.off, LF.eval, Metric.off]

end LF

/-- every entry of `Rᵀ G R − G`, as a linear form evaluated at `G`, vanishes on an invariant metric -/
theorem eval_entryForm {R : Op} {G : Metric ℝ} (h : Invariant R G) (e : Nat) :
    (entryForm R e).eval G = 0 := by
  unfold Invariant at h
  simp only [Mat3.mul, Mat3.transpose, rotMat, Metric.toMat, Mat3.mk.injEq] at h
  obtain ⟨h11, h12, h13, -, h22, h23, -, -, h33⟩ := h
  match e with
  | 0 => simp only [entryForm, LF.eval_sub, LF.eval_diag, Metric.diag]
         simp only [bil, col1, LF.eval]; push_cast; linear_combination h11
  | 1 => simp only [entryForm, LF.eval_sub, LF.eval_diag, Metric.diag]
         simp only [bil, col2, LF.eval]; push_cast; linear_combination h22
  | 2 => simp only [entryForm, LF.eval_sub, LF.eval_diag, Metric.diag]
         simp only [bil, col3, LF.eval]; push_cast; linear_combination h33
  | 3 => simp only [entryForm, LF.eval_sub, LF.eval_off, Metric.off]
         simp only [bil, col1, col2, LF.eval]; push_cast; linear_combination h12
  | 4 => simp only [entryForm, LF.eval_sub, LF.eval_off, Metric.off]
         simp only [bil, col1, col3, LF.eval]; push_cast; linear_combination h13
  | 5 => simp only [entryForm, LF.eval_sub, LF.eval_off, Metric.off]
         simp only [bil, col2, col3, LF.eval]; push_cast; linear_combination h23
  | (n + 6) => simp only [entryForm]; exact LF.eval_zero G

/-- conversely the six upper entries suffice (the metric is symmetric) -/
theorem invariant_of_forms {R : Op} {G : Metric ℝ} (h : ∀ e < 6, (entryForm R e).eval G = 0) :
    Invariant R G := by
  have h0 := h 0 (by decide); have h1 := h 1 (by decide); have h2 := h 2 (by decide)
  have h3 := h 3 (by decide); have h4 := h 4 (by decide); have h5 := h 5 (by decide)
  simp only [entryForm, LF.eval_sub, LF.eval_diag, LF.eval_off, Metric.diag, Metric.off] at h0 h1 h2 h3 h4 h5
  simp only [bil, col1, col2, col3, LF.eval] at h0 h1 h2 h3 h4 h5
  push_cast at h0 h1 h2 h3 h4 h5
  unfold Invariant
  simp only [Mat3.mul, Mat3.transpose, rotMat, Metric.toMat, Mat3.mk.injEq]
  refine ⟨?_, ?_, ?_, ?_, ?_, ?_, ?_, ?_, ?_⟩
  · linear_combination h0
  · linear_combination h3
  · linear_combination h4
  · linear_combination h3
  · linear_combination h1
  · linear_combination h5
  · linear_combination h4
  · linear_combination h5
  · linear_combination h2

/-! ### soundness of the checker -/

theorem comboSum_eval {ops : List Op} {G : Metric ℝ} (hinv : ∀ op ∈ ops, Invariant op G)
    (rows : List Row) : (comboSum ops rows).eval G = 0 := by
  induction rows with
  | nil => exact LF.eval_zero G
  | cons r rs ih =>
    obtain ⟨i, e, k⟩ := r
    simp only [comboSum, LF.eval_add, ih, add_zero]
    cases hq : ops[i]? with
    | none => exact LF.eval_zero G
    | some R =>
      simp only [LF.eval_smul, eval_entryForm (hinv R (List.mem_of_getElem? hq)) e, mul_zero]

theorem checkCombo_sound {ops : List Op} {G : Metric ℝ} (hinv : ∀ op ∈ ops, Invariant op G)
    {t : LF} {cb : Combo} (h : checkCombo ops t cb = true) : t.eval G = 0 := by
  simp only [checkCombo, Bool.and_eq_true, decide_eq_true_eq] at h
  obtain ⟨hden, hsum⟩ := h
  have h0 := comboSum_eval hinv cb.rows
  rw [hsum, LF.eval_smul] at h0
  have hd : ((cb.den : Int) : ℝ) ≠ 0 := by exact_mod_cast hden
  exact (mul_eq_zero.1 h0).resolve_left hd

theorem checkForms_sound {ops : List Op} {G : Metric ℝ} (hinv : ∀ op ∈ ops, Invariant op G) :
    ∀ (ts : List LF) (cbs : List Combo), checkForms ops ts cbs = true → ∀ t ∈ ts, t.eval G = 0
  | [], _, _, t, ht => absurd ht List.not_mem_nil
  | t :: ts, [], h, _, _ => by simp [checkForms] at h
  | t :: ts, cb :: cbs, h, u, hu => by
    simp only [checkForms, Bool.and_eq_true] at h
    rcases List.mem_cons.1 hu with rfl | hu
    · exact checkCombo_sound hinv h.1
    · exact checkForms_sound hinv ts cbs h.2 u hu

/-! ### from metric conditions to parameter comparisons -/

theorem len_eq_of_sq {p q : ℝ} (hp : 0 < p) (hq : 0 < q) (h : p * p - q * q = 0) : p = q := by
  have h' : (p - q) * (p + q) = 0 := by linear_combination h
  rcases mul_eq_zero.1 h' with h1 | h1
  · linarith
  · linarith

/-- the atom holds on a valid cell whose metric annihilates the atom's linear forms -/
theorem atom_sound {c : CellR} (hv : Valid c) {a : Atom} (hs : a.supported = true)
    (hf : ∀ f ∈ a.forms, f.eval (metric c) = 0) : evalAtom c a := by
  cases a with
  | lenEq x y =>
    have h := hf _ (List.mem_singleton.2 rfl)
    rw [LF.eval_sub, LF.eval_diag, LF.eval_diag, metric_diag, metric_diag] at h
    exact len_eq_of_sq (hv.len_pos x) (hv.len_pos y) h
  | angEq x y =>
    have h1 := hf ((LF.off x).sub (LF.off y)) (by simp [Atom.forms])
    have h2 := hf ((LF.diag y.opp).sub (LF.diag x.opp)) (by simp [Atom.forms])
    rw [LF.eval_sub, LF.eval_off, LF.eval_off, metric_off, metric_off] at h1
    rw [LF.eval_sub, LF.eval_diag, LF.eval_diag, metric_diag, metric_diag] at h2
    have hl := len_eq_of_sq (hv.len_pos _) (hv.len_pos _) h2
    have ha := hv.a_pos; have hb := hv.b_pos; have hc := hv.c_pos
    show c.ang x = c.ang y
    apply cosd_inj (hv.ang_pos x) (hv.ang_lt x) (hv.ang_pos y) (hv.ang_lt y)
    cases x <;> cases y <;> simp only [Ang.ax1, Ang.ax2, Ang.opp, CellP.len, CellP.ang] at h1 hl ⊢
    all_goals first
      | rfl
      | (have hne : c.a * c.b ≠ 0 := (mul_pos ha hb).ne'
         have hne' : c.a * c.c ≠ 0 := (mul_pos ha hc).ne'
         have hne'' : c.b * c.c ≠ 0 := (mul_pos hb hc).ne'
         rw [hl] at h1
         first
           | exact mul_left_cancel₀ hne (by linear_combination h1)
           | exact mul_left_cancel₀ hne' (by linear_combination h1)
           | exact mul_left_cancel₀ hne'' (by linear_combination h1))
  | angIs x v =>
    simp only [Atom.supported, Bool.or_eq_true, beq_iff_eq] at hs
    show c.ang x = ((v : ℕ) : ℝ)
    have hp1 := hv.len_pos x.ax1
    have hp2 := hv.len_pos x.ax2
    rcases hs with rfl | rfl
    · have h := hf (LF.off x) (by simp [Atom.forms])
      rw [LF.eval_off, metric_off] at h
      have hc : (Elem.cosd (c.ang x) : ℝ) = 0 :=
        (mul_eq_zero.1 h).resolve_left (mul_pos hp1 hp2).ne'
      apply cosd_inj (hv.ang_pos x) (hv.ang_lt x) (by norm_num) (by norm_num)
      rw [hc]; norm_num [cosd_90]
    · have h1 := hf (((LF.off x).smul 2).add (LF.diag x.ax1)) (by simp [Atom.forms])
      have h2 := hf ((LF.diag x.ax1).sub (LF.diag x.ax2)) (by simp [Atom.forms])
      rw [LF.eval_add, LF.eval_smul, LF.eval_off, LF.eval_diag, metric_off, metric_diag] at h1
      rw [LF.eval_sub, LF.eval_diag, LF.eval_diag, metric_diag, metric_diag] at h2
      have hl := len_eq_of_sq hp1 hp2 h2
      rw [← hl] at h1
      have hne : c.len x.ax1 * c.len x.ax1 ≠ 0 := (mul_pos hp1 hp1).ne'
      have hc : (Elem.cosd (c.ang x) : ℝ) = -(1 / 2) := by
        apply mul_left_cancel₀ hne
        push_cast at h1
        linear_combination (1 / 2 : ℝ) * h1
      apply cosd_inj (hv.ang_pos x) (hv.ang_lt x) (by norm_num) (by norm_num)
      rw [hc]; norm_num [cosd_120]

theorem checkConj_sound {ops : List Op} {c : CellR} (hv : Valid c)
    (hinv : ∀ op ∈ ops, Invariant op (metric c)) {k : Conj} {cbs : List Combo}
    (h : checkConj ops k cbs = true) : evalConj c k := by
  simp only [checkConj, Bool.and_eq_true, List.all_eq_true] at h
  intro a ha
  refine atom_sound hv (h.1 a ha) (fun f hf => ?_)
  exact checkForms_sound hinv _ _ h.2 f (List.mem_flatMap.2 ⟨a, ha, hf⟩)

/-- **soundness of the certificate checker.**  An accepted certificate for the rule table `src`
and the setting `g` implies: every valid real cell whose metric tensor is invariant under all
rotation parts of `g` satisfies the rule of `g`'s crystal system. -/
theorem checkLatCert_sound {src : CSys → DNF} {g : SG} {lc : LatCert}
    (h : checkLatCert src g lc = true) (c : CellR) (hv : Valid c)
    (hinv : ∀ op ∈ g.ops, Invariant op (metric c)) : evalDNF c (src g.system) := by
  unfold checkLatCert checkLatCertD at h
  cases hk : (src g.system)[lc.alt]? with
  | none => rw [hk] at h; exact Bool.noConfusion h
  | some k =>
    rw [hk] at h
    exact ⟨k, List.mem_of_getElem? hk, checkConj_sound hv hinv h⟩

/-- the linear conditions themselves (before the bridge): every form required by the chosen
alternative vanishes on every invariant real metric — valid cell or not -/
theorem checkLatCert_forms {src : CSys → DNF} {g : SG} {lc : LatCert}
    (h : checkLatCert src g lc = true) (G : Metric ℝ) (hinv : ∀ op ∈ g.ops, Invariant op G) :
    ∃ k, (src g.system)[lc.alt]? = some k ∧ ∀ a ∈ k, ∀ f ∈ a.forms, f.eval G = 0 := by
  unfold checkLatCert checkLatCertD at h
  cases hk : (src g.system)[lc.alt]? with
  | none => rw [hk] at h; exact Bool.noConfusion h
  | some k =>
    rw [hk] at h
    simp only [checkConj, Bool.and_eq_true] at h
    exact ⟨k, rfl, fun a ha f hf =>
      checkForms_sound hinv _ _ h.2 f (List.mem_flatMap.2 ⟨a, ha, hf⟩)⟩

/-! ### the data form of the rule is the rule -/

theorem rule_iff_table (S : CSys) (c : CellR) : rule S c ↔ evalDNF c (ruleTable S) := by
  cases S <;>
    simp only [rule, ruleTable, evalDNF, evalConj, evalAtom, CellP.len, CellP.ang, List.mem_cons,
      List.mem_nil_iff, or_false, exists_eq_or_imp, forall_eq_or_imp, exists_eq_left, forall_eq,
      Nat.cast_ofNat, IsEmpty.forall_iff, implies_true]
  all_goals first
    | trivial
    | (constructor <;> intro h <;> (try rcases h with h | h | h) <;> (try rcases h with h | h) <;>
        grind)

theorem agreeing_spec {src : CSys → DNF} {S : CSys} (h : S ∈ agreeing src) : src S = ruleTable S := by
  simp only [agreeing, List.mem_filter, decide_eq_true_eq] at h
  exact h.2

theorem rule_of_src {src : CSys → DNF} {S : CSys} (h : S ∈ agreeing src) (c : CellR) :
    rule S c ↔ evalDNF c (src S) := by
  rw [agreeing_spec h]; exact rule_iff_table S c

/-! ### concrete invariant metrics (non-vacuity witnesses) -/

/-- an integer metric read as a real one -/
def Metric.castR (G : Metric Int) : Metric ℝ := ⟨G.g11, G.g22, G.g33, G.g12, G.g13, G.g23⟩

theorem LF.eval_castR (f : LF) (G : Metric Int) : f.eval (Metric.castR G) = ((f.eval G : Int) : ℝ) := by
  simp only [LF.eval, Metric.castR, Int.cast_id]; push_cast; ring

theorem checkInvInt_sound {ops : List Op} {G : Metric Int} (h : checkInvInt ops G = true) :
    ∀ op ∈ ops, Invariant op (Metric.castR G) := by
  intro op hop
  simp only [checkInvInt, List.all_eq_true, List.mem_range, decide_eq_true_eq] at h
  apply invariant_of_forms
  intro e he
  rw [LF.eval_castR, h op hop e he, Int.cast_zero]


end DS.LatRule
