import DS.Model.Cif
import DS.Model.CifNum
import DS.Lemmas.Orbit
import DS.Lemmas.OrbitExact
import DS.Lemmas.Constraints
import Mathlib.Data.List.Basic
import Mathlib.Data.List.Nodup
import Mathlib.Data.List.Perm.Basic

/-!
Helper lemmas for C07: structure of the atom list produced by `Cif.expand` (blocks per site,
attributes of the images), the label algebra (`imageLabel` is injective in both arguments on the
images `j ≥ 1`), and the analysis of the numeric-prefix matcher `CifNum.floatMatch`
(a literal followed by anything that cannot continue it is matched exactly).
-/
namespace DS
namespace Cif
open Orbit

/-- multiplicity of a site = number of positions `expandPosition` returns -/
def mult (ops : List Op) (k E : Int) (s : Site) : Nat := (Orbit.result ops k E (0, 0, 0) s.x).1.length

/-! ### blocks -/

theorem expandFrom_eq (ops : List Op) (k E : Int) : ∀ (n : Nat) (sites : List Site),
    expandFrom ops k E n sites = (sites.zipIdx n).flatMap (fun si => expandSite ops k E si.2 si.1)
  | _, [] => by simp [expandFrom]
  | n, s :: ss => by
    simp only [expandFrom, List.zipIdx_cons, List.flatMap_cons]
    rw [expandFrom_eq ops k E (n + 1) ss]

theorem expandSite_length (ops : List Op) (k E : Int) (i : Nat) (s : Site) :
    (expandSite ops k E i s).length = mult ops k E s := by
  simp [expandSite, mult]

theorem expandFrom_length (ops : List Op) (k E : Int) : ∀ (n : Nat) (sites : List Site),
    (expandFrom ops k E n sites).length = (sites.map (mult ops k E)).sum
  | _, [] => by simp [expandFrom]
  | n, s :: ss => by
    simp only [expandFrom, List.length_append, List.map_cons, List.sum_cons, expandSite_length,
      expandFrom_length ops k E (n + 1) ss]

/-- the `j`-th atom of a block, explicitly -/
theorem mem_expandSite {ops : List Op} {k E : Int} {i : Nat} {s : Site} {a : OutAtom} :
    a ∈ expandSite ops k E i s ↔ ∃ j, j < mult ops k E s ∧
      a = { site := i, img := j, label := imageLabel s.label j, elem := s.elem,
            pos := (Orbit.result ops k E (0, 0, 0) s.x).1.getD j (0, 0, 0), occ := s.occ, aniso := s.aniso,
            U := if s.aniso then
                Con.rotT (Con.rotQ (((Orbit.result ops k E (0, 0, 0) s.x).2.1.getD j []).headD Op.one)) s.U
              else s.U } := by
  simp only [expandSite, mult, List.mem_map, List.mem_range]
  constructor
  · rintro ⟨j, hj, rfl⟩; exact ⟨j, hj, rfl⟩
  · rintro ⟨j, hj, rfl⟩; exact ⟨j, hj, rfl⟩

theorem expandSite_img (ops : List Op) (k E : Int) (i : Nat) (s : Site) :
    (expandSite ops k E i s).map (·.img) = List.range (mult ops k E s) := by
  simp only [expandSite, mult, List.map_map]
  exact List.map_id'' (fun _ => rfl) _

theorem map_getD_range {α : Type} (l : List α) (d : α) : (List.range l.length).map (fun j => l.getD j d) = l := by
  apply List.ext_getElem
  · simp
  · intro i h1 h2
    simp only [List.getElem_map, List.getElem_range]
    exact List.getD_eq_getElem (l := l) (d := d) h2

/-- the positions of a block are literally the positions `expandPosition` returned -/
theorem expandSite_pos (ops : List Op) (k E : Int) (i : Nat) (s : Site) :
    (expandSite ops k E i s).map (·.pos) = (Orbit.result ops k E (0, 0, 0) s.x).1 := by
  simp only [expandSite, List.map_map]
  exact map_getD_range _ _

/-- the labels of a block do not depend on the site index -/
theorem expandSite_labels (ops : List Op) (k E : Int) (i : Nat) (s : Site) :
    (expandSite ops k E i s).map (·.label) = (List.range (mult ops k E s)).map (imageLabel s.label) := by
  simp only [expandSite, mult, List.map_map]
  rfl

theorem expandFrom_labels (ops : List Op) (k E : Int) : ∀ (n : Nat) (sites : List Site),
    (expandFrom ops k E n sites).map (·.label) =
      sites.flatMap (fun s => (List.range (mult ops k E s)).map (imageLabel s.label))
  | _, [] => by simp [expandFrom]
  | n, s :: ss => by
    simp only [expandFrom, List.map_append, List.flatMap_cons, expandSite_labels,
      expandFrom_labels ops k E (n + 1) ss]

/-! ### the first operation of a class -/

theorem headD_filter_eq_find {p : Op → Bool} {ops : List Op} {g : Op} (h : ops.find? p = some g) :
    (ops.filter p).headD Op.one = g := by
  rw [List.headD_eq_head?_getD, List.head?_filter, h]; rfl

/-! ### labels -/

theorem toString_nat_inj {m n : Nat} (h : toString m = toString n) : m = n := by
  have h' : (Nat.repr m).toList = (Nat.repr n).toList := congrArg String.toList h
  rw [Nat.toList_repr, Nat.toList_repr] at h'
  have := congrArg (fun l => Nat.ofDigitChars 10 l 0) h'
  simpa [Nat.ofDigitChars_ten_toDigits] using this

theorem underscore_not_mem_toString (n : Nat) : '_' ∉ (toString n).toList := by
  show '_' ∉ (Nat.repr n).toList
  rw [Nat.toList_repr]; exact Nat.underscore_not_in_toDigits

theorem imageLabel_zero (l : String) : imageLabel l 0 = l := by simp [imageLabel]

theorem imageLabel_pos (l : String) {j : Nat} (hj : 1 ≤ j) : imageLabel l j = l ++ "_" ++ toString (j + 1) := by
  have : j ≠ 0 := by omega
  simp [imageLabel, this]

/-- splitting at the last underscore: `a ++ '_' :: d` determines `a` and `d` when `d` has no underscore -/
theorem split_last_underscore : ∀ {a a' d d' : List Char}, '_' ∉ d → '_' ∉ d' →
    a ++ '_' :: d = a' ++ '_' :: d' → a = a' ∧ d = d'
  | [], [], d, d', _, _, h => by simpa using h
  | [], c :: r, d, d', hd, _, h => by
    simp only [List.nil_append, List.cons_append, List.cons.injEq] at h
    exact absurd (h.2 ▸ List.mem_append_right r List.mem_cons_self) hd
  | c :: r, [], d, d', _, hd', h => by
    simp only [List.nil_append, List.cons_append, List.cons.injEq] at h
    exact absurd (h.2 ▸ List.mem_append_right r List.mem_cons_self) hd'
  | c :: r, c' :: r', d, d', hd, hd', h => by
    simp only [List.cons_append, List.cons.injEq] at h
    obtain ⟨e1, e2⟩ := split_last_underscore hd hd' h.2
    exact ⟨by rw [h.1, e1], e2⟩

/-- an image label `L_<j+1>` (`j ≥ 1`) determines both the site label and the image number -/
theorem imageLabel_pos_inj {l l' : String} {j j' : Nat} (hj : 1 ≤ j) (hj' : 1 ≤ j')
    (h : imageLabel l j = imageLabel l' j') : l = l' ∧ j = j' := by
  rw [imageLabel_pos l hj, imageLabel_pos l' hj'] at h
  have h' := congrArg String.toList h
  simp only [String.toList_append] at h'
  have hu : ("_" : String).toList = ['_'] := rfl
  rw [hu, List.append_assoc, List.append_assoc, List.singleton_append, List.singleton_append] at h'
  obtain ⟨e1, e2⟩ := split_last_underscore (underscore_not_mem_toString _) (underscore_not_mem_toString _) h'
  refine ⟨String.toList_inj.1 e1, ?_⟩
  have := toString_nat_inj (String.toList_inj.1 e2)
  omega

/-- `imageLabel l` is injective in the image number -/
theorem imageLabel_inj (l : String) {j j' : Nat} (h : imageLabel l j = imageLabel l j') : j = j' := by
  have hlen : ∀ i, 1 ≤ i → (imageLabel l i).length > l.length := by
    intro i hi; rw [imageLabel_pos l hi]
    have : ("_" : String).length = 1 := by decide
    simp only [String.length_append, this]; omega
  rcases Nat.eq_zero_or_pos j with h0 | hp <;> rcases Nat.eq_zero_or_pos j' with h0' | hp'
  · omega
  · subst h0; have := hlen j' hp'; rw [← h, imageLabel_zero] at this; omega
  · subst h0'; have := hlen j hp; rw [h, imageLabel_zero] at this; omega
  · exact (imageLabel_pos_inj hp hp' h).2

end Cif
end DS

/-! ## the numeric prefix (`leading_float`) -/
namespace DS
namespace CifNum

/-! ### character classes -/

theorem isSign_of_isDig {c : Char} (h : isDig c = true) : isSign c = false := by
  have h1 : c ≠ '-' := by rintro rfl; revert h; decide
  have h2 : c ≠ '+' := by rintro rfl; revert h; decide
  simp [isSign, h1, h2]

theorem isE_of_isDig {c : Char} (h : isDig c = true) : isE c = false := by
  have h1 : c ≠ 'e' := by rintro rfl; revert h; decide
  have h2 : c ≠ 'E' := by rintro rfl; revert h; decide
  simp [isE, h1, h2]

theorem not_isDig_of_isE {c : Char} (h : isE c = true) : isDig c = false := by
  cases hd : isDig c with
  | false => rfl
  | true => rw [isE_of_isDig hd] at h; cases h

theorem ne_dot_of_isE {c : Char} (h : isE c = true) : c ≠ '.' := by
  rintro rfl; revert h; decide

/-- the next character (if any) satisfies `p` -/
def Next (p : Char → Bool) (rest : List Char) : Prop := ∀ c ∈ rest.head?, p c = true

theorem next_nil (p : Char → Bool) : Next p [] := by simp [Next]
theorem next_cons {p : Char → Bool} {c : Char} {r : List Char} : Next p (c :: r) ↔ p c = true := by simp [Next]

/-! ### runs of digits -/

theorem takeWhile_run {p : Char → Bool} {a rest : List Char} (ha : ∀ x ∈ a, p x = true)
    (hr : Next (fun c => !p c) rest) : (a ++ rest).takeWhile p = a := by
  rw [List.takeWhile_append_of_pos ha]
  cases rest with
  | nil => simp
  | cons c r =>
    have : p c = false := by simpa using next_cons.1 hr
    simp [this]

theorem dropWhile_run {p : Char → Bool} {a rest : List Char} (ha : ∀ x ∈ a, p x = true)
    (hr : Next (fun c => !p c) rest) : (a ++ rest).dropWhile p = rest := by
  rw [List.dropWhile_append_of_pos ha]
  cases rest with
  | nil => simp
  | cons c r =>
    have : p c = false := by simpa using next_cons.1 hr
    simp [this]

theorem mem_takeWhile_imp {p : Char → Bool} : ∀ {l : List Char} {x : Char}, x ∈ l.takeWhile p → p x = true
  | [], _, h => by simp at h
  | c :: r, x, h => by
    rw [List.takeWhile_cons] at h
    split at h
    · rcases List.mem_cons.1 h with rfl | h'
      · assumption
      · exact mem_takeWhile_imp h'
    · simp at h

/-! ### the grammar, generatively -/

/-- `digits+`, `digits+ '.' digits*` or `'.' digits+` -/
def IsMant (m : List Char) : Prop :=
  ∃ ip fr : List Char, (∀ x ∈ ip, isDig x = true) ∧ (∀ x ∈ fr, isDig x = true) ∧
    ((ip ≠ [] ∧ m = ip) ∨ (ip ≠ [] ∧ m = ip ++ '.' :: fr) ∨ (fr ≠ [] ∧ m = '.' :: fr))

/-- empty or one sign character -/
def IsSignOpt (sg : List Char) : Prop := sg = [] ∨ ∃ c, isSign c = true ∧ sg = [c]

/-- what may follow the mantissa for it to be read completely: not a digit, not a dot -/
def endMant (c : Char) : Bool := !isDig c && !(c == '.')

theorem mantissa_spec {m rest : List Char} (hm : IsMant m) (hr : Next endMant rest) :
    mantissa (m ++ rest) = some (m, rest) := by
  have hnd : Next (fun c => !isDig c) rest := fun c hc => by
    have := hr c hc; simp only [endMant, Bool.and_eq_true] at this; exact this.1
  have hdot : ∀ r, rest ≠ '.' :: r := by
    rintro r rfl
    have := next_cons.1 hr; simp [endMant] at this
  obtain ⟨ip, fr, hip, hfr, h | h | h⟩ := hm
  · obtain ⟨hne, rfl⟩ := h
    have e1 := takeWhile_run hip hnd
    have e2 := dropWhile_run hip hnd
    have hemp : m.isEmpty = false := by cases m with | nil => exact absurd rfl hne | cons _ _ => rfl
    simp only [mantissa, e1, e2, hemp, Bool.false_eq_true, ↓reduceIte]
  · obtain ⟨hne, rfl⟩ := h
    have hnd' : Next (fun c => !isDig c) ('.' :: (fr ++ rest)) := next_cons.2 (by decide)
    have e1 : ((ip ++ '.' :: fr) ++ rest).takeWhile isDig = ip := by
      rw [List.append_assoc, List.cons_append]; exact takeWhile_run hip hnd'
    have e2 : ((ip ++ '.' :: fr) ++ rest).dropWhile isDig = '.' :: (fr ++ rest) := by
      rw [List.append_assoc, List.cons_append]; exact dropWhile_run hip hnd'
    have hemp : ip.isEmpty = false := by cases ip with | nil => exact absurd rfl hne | cons _ _ => rfl
    simp only [mantissa, e1, e2, hemp, Bool.false_eq_true, ↓reduceIte, takeWhile_run hfr hnd, dropWhile_run hfr hnd]
  · obtain ⟨hne, rfl⟩ := h
    have e1 : (('.' :: fr) ++ rest).takeWhile isDig = [] := by
      simp only [List.cons_append]; rw [List.takeWhile_cons]; simp [show isDig '.' = false by decide]
    simp only [mantissa, e1]
    have hemp : fr.isEmpty = false := by cases fr with | nil => exact absurd rfl hne | cons _ _ => rfl
    simp only [List.cons_append, List.isEmpty_nil, if_true, takeWhile_run hfr hnd, dropWhile_run hfr hnd, hemp]
    simp

theorem isMant_head {m : List Char} (hm : IsMant m) : ∃ c r, m = c :: r ∧ isSign c = false := by
  obtain ⟨ip, fr, hip, hfr, h | h | h⟩ := hm
  · obtain ⟨hne, rfl⟩ := h
    cases m with
    | nil => exact absurd rfl hne
    | cons c r => exact ⟨c, r, rfl, isSign_of_isDig (hip c List.mem_cons_self)⟩
  · obtain ⟨hne, rfl⟩ := h
    cases ip with
    | nil => exact absurd rfl hne
    | cons c r => exact ⟨c, r ++ '.' :: fr, rfl, isSign_of_isDig (hip c List.mem_cons_self)⟩
  · obtain ⟨_, rfl⟩ := h
    exact ⟨'.', fr, rfl, by decide⟩

theorem optSign_spec {sg m : List Char} (hs : IsSignOpt sg) (hm : IsMant m) (rest : List Char) :
    optSign (sg ++ m ++ rest) = (sg, m ++ rest) := by
  rcases hs with rfl | ⟨c, hc, rfl⟩
  · obtain ⟨c, r, rfl, hc⟩ := isMant_head hm
    simp [optSign, hc]
  · simp [optSign, hc]

theorem expPart_none {rest : List Char} (hr : Next (fun c => !isE c) rest) : expPart rest = [] := by
  cases rest with
  | nil => rfl
  | cons c r =>
    have : isE c = false := by simpa using next_cons.1 hr
    simp [expPart, this]

/-- `[eE] [sign] digits+` -/
def IsExp (x : List Char) : Prop :=
  ∃ e sg ds, isE e = true ∧ IsSignOpt sg ∧ (∀ c ∈ ds, isDig c = true) ∧ ds ≠ [] ∧ x = e :: (sg ++ ds)

theorem expPart_spec {x rest : List Char} (hx : IsExp x) (hr : Next (fun c => !isDig c) rest) :
    expPart (x ++ rest) = x := by
  obtain ⟨e, sg, ds, he, hs, hds, hne, rfl⟩ := hx
  have hemp : ds.isEmpty = false := by cases ds with | nil => exact absurd rfl hne | cons _ _ => rfl
  have hos : optSign (sg ++ ds ++ rest) = (sg, ds ++ rest) := by
    rcases hs with rfl | ⟨c, hc, rfl⟩
    · cases ds with
      | nil => exact absurd rfl hne
      | cons c r => simp [optSign, isSign_of_isDig (hds c List.mem_cons_self)]
    · simp [optSign, hc]
  simp only [List.cons_append, expPart, he, if_true, hos, takeWhile_run hds hr, hemp]
  simp

/-- what may follow a number without exponent for it to be read completely -/
def endLit (c : Char) : Bool := !isDig c && !(c == '.') && !isE c

/-- **the match on a literal followed by anything that cannot continue it is the literal** -/
theorem floatMatch_lit {sg m rest : List Char} (hs : IsSignOpt sg) (hm : IsMant m) (hr : Next endLit rest) :
    floatMatch (sg ++ m ++ rest) = some (sg ++ m) := by
  have h1 : Next endMant rest := fun c hc => by
    have := hr c hc; simp only [endLit, Bool.and_eq_true] at this; simp [endMant, this.1.1, this.1.2]
  have h2 : Next (fun c => !isE c) rest := fun c hc => by
    have := hr c hc; simp only [endLit, Bool.and_eq_true] at this; exact this.2
  simp only [floatMatch, optSign_spec hs hm rest, mantissa_spec hm h1, expPart_none h2, List.append_nil]

/-- the same with an exponent -/
theorem floatMatch_litExp {sg m x rest : List Char} (hs : IsSignOpt sg) (hm : IsMant m) (hx : IsExp x)
    (hr : Next (fun c => !isDig c) rest) :
    floatMatch (sg ++ m ++ x ++ rest) = some (sg ++ m ++ x) := by
  have h1 : Next endMant (x ++ rest) := by
    obtain ⟨e, sg', ds, he, _, _, _, rfl⟩ := hx
    refine next_cons.2 ?_
    simp [endMant, not_isDig_of_isE he, ne_dot_of_isE he]
  have e : sg ++ m ++ x ++ rest = sg ++ m ++ (x ++ rest) := by simp
  simp only [floatMatch, e, optSign_spec hs hm (x ++ rest), mantissa_spec hm h1, expPart_spec hx hr]

/-! ### the decidable recogniser -/

theorem optSign_append (d : List Char) : (optSign d).1 ++ (optSign d).2 = d ∧ IsSignOpt (optSign d).1 := by
  cases d with
  | nil => exact ⟨rfl, Or.inl rfl⟩
  | cons c r =>
    cases hc : isSign c with
    | true => simp only [optSign, hc, if_true]; exact ⟨rfl, Or.inr ⟨c, hc, rfl⟩⟩
    | false => simp only [optSign, hc]; exact ⟨rfl, Or.inl rfl⟩

theorem isFloatLit_sound {d : List Char} (h : isFloatLit d = true) :
    ∃ sg m, d = sg ++ m ∧ IsSignOpt sg ∧ IsMant m := by
  obtain ⟨hd, hs⟩ := optSign_append d
  refine ⟨(optSign d).1, (optSign d).2, hd.symm, hs, ?_⟩
  simp only [isFloatLit] at h
  generalize (optSign d).2 = body at h
  have hsplit := List.takeWhile_append_dropWhile (p := isDig) (l := body)
  have hip : ∀ x ∈ body.takeWhile isDig, isDig x = true := fun x hx => mem_takeWhile_imp hx
  generalize body.takeWhile isDig = ip at h hsplit hip
  generalize body.dropWhile isDig = r at h hsplit
  cases r with
  | nil =>
    simp only [Bool.not_eq_true', List.isEmpty_eq_false_iff] at h
    exact ⟨ip, [], hip, by simp, Or.inl ⟨h, by simpa using hsplit.symm⟩⟩
  | cons c f =>
    simp only [Bool.and_eq_true, beq_iff_eq, List.all_eq_true, Bool.or_eq_true, Bool.not_eq_true',
      List.isEmpty_eq_false_iff] at h
    obtain ⟨⟨rfl, hf⟩, hne⟩ := h
    refine ⟨ip, f, hip, hf, ?_⟩
    by_cases hi : ip = []
    · subst hi
      rcases hne with hne | hne
      · exact absurd rfl hne
      · exact Or.inr (Or.inr ⟨hne, by simpa using hsplit.symm⟩)
    · exact Or.inr (Or.inl ⟨hi, hsplit.symm⟩)

/-- **esd suffixes are ignored**: a CIF number `d` followed by `(…)` — indeed by anything that
starts with a character other than a digit, `.`, `e`, `E` — yields the same matched text as `d`
alone, and that text is all of `d`. -/
theorem floatPrefix_lit {d : List Char} (h : isFloatLit d = true) {rest : List Char} (hr : Next endLit rest) :
    floatPrefix (d ++ rest) = d := by
  obtain ⟨sg, m, rfl, hs, hm⟩ := isFloatLit_sound h
  simp only [floatPrefix, floatMatch_lit hs hm hr, Option.getD_some]

theorem esd_ignored {d : List Char} (h : isFloatLit d = true) (ds : List Char) :
    floatPrefix (d ++ '(' :: ds ++ [')']) = floatPrefix d ∧ floatPrefix d = d := by
  have h1 : floatPrefix (d ++ ('(' :: ds ++ [')'])) = d :=
    floatPrefix_lit h (rest := '(' :: ds ++ [')']) (next_cons.2 (by decide))
  have h2 : floatPrefix (d ++ []) = d := floatPrefix_lit h (next_nil _)
  rw [List.append_nil] at h2
  rw [List.append_assoc, h1, h2]
  exact ⟨rfl, rfl⟩

/-- the recogniser accepts every literal of the grammar (so `esd_ignored` is not about a
smaller class than intended) -/
theorem isFloatLit_complete {sg m : List Char} (hs : IsSignOpt sg) (hm : IsMant m) :
    isFloatLit (sg ++ m) = true := by
  have hos := optSign_spec hs hm []
  simp only [List.append_nil] at hos
  simp only [isFloatLit, hos]
  obtain ⟨ip, fr, hip, hfr, h | h | h⟩ := hm
  · obtain ⟨hne, rfl⟩ := h
    have e1 := takeWhile_run (rest := []) hip (next_nil _)
    have e2 := dropWhile_run (rest := []) hip (next_nil _)
    simp only [List.append_nil] at e1 e2
    simp [e1, e2, hne]
  · obtain ⟨hne, rfl⟩ := h
    have hnd' : Next (fun c => !isDig c) ('.' :: fr) := next_cons.2 (by decide)
    simp only [takeWhile_run hip hnd', dropWhile_run hip hnd']
    simp [hne]
    exact hfr
  · obtain ⟨hne, rfl⟩ := h
    have hd : isDig '.' = false := by decide
    simp [hd, hne]
    exact hfr

example : floatPrefix "0.2500(12)".toList = "0.2500".toList := by decide
example : floatPrefix "-.5(3)".toList = "-.5".toList := by decide
example : floatPrefix "12.(1)".toList = "12.".toList := by decide
example : floatPrefix "1.5e-3(2)".toList = "1.5e-3".toList := by decide
example : floatPrefix "1.5e-(2)".toList = "1.5".toList := by decide
example : floatMatch "?".toList = none := by decide
example : floatMatch ".".toList = none := by decide
example : isFloatLit "0.2500".toList = true := by decide

end CifNum
end DS
