import DS.Lemmas.World
/-!
Additional lemmas about `DS.Model.World` for the *full* `no_alias` theorem of property C08
(`DS.Props.C08.no_alias`): the two forms that `World.run_nodup` (`no_alias_partial`) leaves out,

* assignment to an **extended slice** `s[i:j:k] = …` (`Edit.setSlice` with step ≠ 1, CPython's
  `list_ass_subscript`: `setMany old (sliceIdx a) ys`), with the *exact* set of members that stay
  in place (`remainX`: the members at the positions the slice does not address), and
* **pickling with protocol 0/1** (`Act.copyShape`, copies that keep the identity pattern),

plus the fact that the planner only ever emits a permutation (`Edit.permute`) without repeated
index (`sort`).  Everything here is additive; nothing of `DS.Lemmas.World` is changed.
-/
namespace DS.World

section ExtSlice
variable {α : Type}

theorem dropIdx_nil (l : List α) (k : Nat) : dropIdx [] l k = l := by
  induction l generalizing k with
  | nil => rfl
  | cons a l ih => simp [dropIdx, ih]

/-- only the positions `k … k + |l| - 1` matter -/
theorem dropIdx_congr (A B : List Nat) (l : List α) (k : Nat)
    (h : ∀ j, k ≤ j → j < k + l.length → (j ∈ A ↔ j ∈ B)) : dropIdx A l k = dropIdx B l k := by
  induction l generalizing k with
  | nil => rfl
  | cons a l ih =>
    simp only [dropIdx]
    have hk := h k (Nat.le_refl _) (by simp)
    have ih' := ih (k + 1) (fun j h1 h2 => h j (by omega) (by simp only [List.length_cons]; omega))
    by_cases hA : k ∈ A
    · simp [hA, hk.mp hA, ih']
    · have hB : k ∉ B := fun hb => hA (hk.mpr hb)
      simp [hA, hB, ih']

/-- writing into a slot that is dropped anyway changes nothing -/
theorem dropIdx_set_mem (is : List Nat) (y : α) (l : List α) (k j : Nat) (h : k + j ∈ is) :
    dropIdx is (l.set j y) k = dropIdx is l k := by
  induction l generalizing k j with
  | nil => simp
  | cons a l ih =>
    cases j with
    | zero =>
      simp only [Nat.add_zero] at h
      simp [dropIdx, h]
    | succ j =>
      simp only [List.set_cons_succ, dropIdx]
      rw [ih (k + 1) j (by rw [show k + 1 + j = k + (j + 1) by omega]; exact h)]

/-- writing `y` into a slot that stays: the remaining members are those without that slot, plus `y` -/
theorem dropIdx_set_perm (is : List Nat) (y : α) (l : List α) (k j : Nat) (hj : j < l.length) (h : k + j ∉ is) :
    (dropIdx is (l.set j y) k).Perm (y :: dropIdx ((k + j) :: is) l k) := by
  induction l generalizing k j with
  | nil => simp at hj
  | cons a l ih =>
    cases j with
    | zero =>
      simp only [Nat.add_zero] at h
      simp only [List.set_cons_zero, dropIdx, Nat.add_zero, h, if_false, List.mem_cons, true_or, if_true]
      rw [dropIdx_congr (k :: is) is l (k + 1) (by
        intro j h1 _
        simp only [List.mem_cons]
        constructor
        · intro h'; rcases h' with h' | h'
          · omega
          · exact h'
        · intro h'; exact Or.inr h')]
    | succ j =>
      simp only [List.set_cons_succ, dropIdx]
      have ih' := ih (k + 1) j (by simpa using hj) (by rw [show k + 1 + j = k + (j + 1) by omega]; exact h)
      rw [show k + 1 + j = k + (j + 1) by omega] at ih'
      have hk : k ∈ (k + (j + 1)) :: is ↔ k ∈ is := by
        simp only [List.mem_cons]
        constructor
        · intro h'; rcases h' with h' | h'
          · omega
          · exact h'
        · intro h'; exact Or.inr h'
      by_cases hA : k ∈ is
      · simp only [hA, hk.mpr hA, if_true]; exact ih'
      · have hB : k ∉ (k + (j + 1)) :: is := fun hb => hA (hk.mp hb)
        simp only [hA, hB, if_false]
        exact (List.Perm.cons a ih').trans (List.Perm.swap y a _)

/-- **extended-slice assignment keeps the list duplicate-free**: if the members at the positions
that are *not* assigned are pairwise different, the assigned values are pairwise different and none of
them is such a member, the result of CPython's element-wise assignment has no repeated element.
(No hypothesis on the index list: a position listed twice receives the later value.) -/
theorem setMany_nodup (is : List Nat) (ys l : List α) (hlen : is.length = ys.length)
    (hy : ys.Nodup) (hr : (dropIdx is l 0).Nodup) (hd : ∀ y ∈ ys, y ∉ dropIdx is l 0) :
    (setMany l is ys).Nodup := by
  induction is generalizing l ys with
  | nil =>
    cases ys with
    | nil => simpa [setMany, dropIdx_nil] using hr
    | cons y ys => simp at hlen
  | cons i is ih =>
    cases ys with
    | nil => simp at hlen
    | cons y ys =>
      simp only [setMany]
      simp only [List.nodup_cons] at hy
      have hlen' : is.length = ys.length := by simpa using hlen
      by_cases hc : i ∈ is ∨ l.length ≤ i
      · -- the slot is overwritten later, or does not exist: the remainder is unchanged
        have heq : dropIdx is (l.set i y) 0 = dropIdx (i :: is) l 0 := by
          rcases hc with hc | hc
          · rw [dropIdx_set_mem is y l 0 i (by simpa using hc)]
            exact dropIdx_congr _ _ _ _ (by intro j _ _; simp only [List.mem_cons]; constructor
                                            · intro h; exact Or.inr h
                                            · intro h; rcases h with h | h
                                              · subst h; exact hc
                                              · exact h)
          · rw [List.set_eq_of_length_le hc]
            exact dropIdx_congr _ _ _ _ (by intro j _ h2; simp only [List.mem_cons]; constructor
                                            · intro h; exact Or.inr h
                                            · intro h; rcases h with h | h
                                              · omega
                                              · exact h)
        apply ih ys (l.set i y) hlen' hy.2
        · rw [heq]; exact hr
        · intro y' hy'; rw [heq]; exact hd y' (List.mem_cons_of_mem _ hy')
      · have hi : i ∉ is := fun h => hc (Or.inl h)
        have hil : i < l.length := by
          rcases Nat.lt_or_ge i l.length with h | h
          · exact h
          · exact (hc (Or.inr h)).elim
        have hp := dropIdx_set_perm is y l 0 i hil (by simpa using hi)
        simp only [Nat.zero_add] at hp
        apply ih ys (l.set i y) hlen' hy.2
        · apply hp.symm.nodup
          simp only [List.nodup_cons]
          exact ⟨hd y (by simp), hr⟩
        · intro y' hy' hin
          have := hp.mem_iff.mp hin
          simp only [List.mem_cons] at this
          rcases this with h | h
          · subst h; exact hy.1 hy'
          · exact hd y' (List.mem_cons_of_mem _ hy') h

/-- the old members that stay in place when an edit inserts new elements — **exact** also for an
extended slice (`remain` describes the contiguous case only): the members at the positions that
`s[i:j:k] = …` does not address -/
def remainX : Edit → List α → List α
  | .setSlice sl, old => match sliceAdjust old.length sl with
    | .ok a => if a.2.2 = 1 then old.take a.1.toNat ++ old.drop (max a.2.1 a.1).toNat
               else dropIdx (sliceIdx a) old 0
    | .error _ => old
  | e, old => remain e old

theorem remainX_core (e : Edit) (old : List α) (hc : CoreEdit e old.length) : remainX e old = remain e old := by
  cases e <;> try rfl
  case setSlice sl =>
    simp only [CoreEdit, plainSlice] at hc
    rcases ha : sliceAdjust old.length sl with e | a
    · simp only [remainX, remain, ha]
    · simp only [ha, beq_iff_eq] at hc
      simp only [remainX, remain, ha, hc, if_true]

theorem remainX_subset (e : Edit) (old : List α) : ∀ z ∈ remainX e old, z ∈ old := by
  intro z hz
  cases e <;> simp only [remainX, remain] at hz <;> try exact hz
  · split at hz
    · exact (List.eraseIdx_sublist _ _).subset hz
    · exact hz
  · split at hz
    · split at hz
      · simp only [List.mem_append] at hz
        rcases hz with hz | hz
        · exact List.mem_of_mem_take hz
        · exact List.mem_of_mem_drop hz
      · exact dropIdx_subset _ _ _ z hz
    · exact hz
  · simp at hz

/-- what the planner guarantees about an edit: a permutation repeats no index -/
def EditOk : Edit → Prop
  | .permute idxs => idxs.Nodup
  | _ => True

/-- `Edit.apply_nodup` without the restriction to `CoreEdit` -/
theorem Edit.apply_nodupX [DecidableEq α] {e : Edit} {old ys new : List α} {ret : Option α}
    (h : e.apply old ys = .ok (new, ret)) (ho : old.Nodup) (hy : ys.Nodup)
    (hd : ∀ y ∈ ys, y ∉ remainX e old) (hc : EditOk e) : new.Nodup := by
  by_cases hcore : CoreEdit e old.length
  · rw [remainX_core e old hcore] at hd
    exact Edit.apply_nodup h ho hy hd hcore
  · cases e <;> try exact (hcore trivial).elim
    case permute idxs => exact (hcore hc).elim
    case setSlice sl =>
      simp only [CoreEdit, plainSlice] at hcore
      simp only [Edit.apply] at h
      split at h
      · cases h
      · rename_i a ha
        simp only [ha, beq_iff_eq] at hcore
        simp only [remainX, ha, hcore, if_false] at hd
        simp only [hcore, if_false] at h
        split at h
        · cases h
        · rename_i hl
          simp only [Except.ok.injEq, Prod.mk.injEq] at h
          obtain ⟨rfl, rfl⟩ := h
          exact setMany_nodup (sliceIdx a) ys old (by simpa using hl) hy
            ((dropIdx_sublist _ _ _).nodup ho) hd

end ExtSlice

/-! ### which members a slice addresses, and which stay -/

section SliceArith
variable {α : Type}

theorem mem_dropIdx (idxs : List Nat) (l : List α) (k : Nat) (a : α) (h : a ∈ dropIdx idxs l k) :
    ∃ j, l[j]? = some a ∧ k + j ∉ idxs := by
  induction l generalizing k with
  | nil => simp [dropIdx] at h
  | cons b l ih =>
    simp only [dropIdx] at h
    split at h
    · obtain ⟨j, hj, hn⟩ := ih (k + 1) h
      exact ⟨j + 1, by simpa using hj, by rw [show k + (j + 1) = k + 1 + j by omega]; exact hn⟩
    · rename_i hk
      simp only [List.mem_cons] at h
      rcases h with h | h
      · subst h; exact ⟨0, by simp, by simpa using hk⟩
      · obtain ⟨j, hj, hn⟩ := ih (k + 1) h
        exact ⟨j + 1, by simpa using hj, by rw [show k + (j + 1) = k + 1 + j by omega]; exact hn⟩

/-- in a list without repetition, a member at an addressed position is not among those that stay -/
theorem pick_dropIdx_disjoint (l : List α) (idxs : List Nat) (hl : l.Nodup) (y : α) (hy : y ∈ pick l idxs) :
    y ∉ dropIdx idxs l 0 := by
  intro hin
  simp only [pick, List.mem_filterMap] at hy
  obtain ⟨i, hi, hiy⟩ := hy
  obtain ⟨j, hj, hn⟩ := mem_dropIdx idxs l 0 y hin
  obtain ⟨hil, _⟩ := List.getElem?_eq_some_iff.mp hiy
  have : i = j := (List.getElem?_inj hil hl).mp (by rw [hiy, hj])
  subst this
  simp only [Nat.zero_add] at hn
  exact hn hi

/-- what `PySlice_AdjustIndices` guarantees -/
theorem sliceAdjust_bounds {n : Nat} {sl : Slice} {a : Int × Int × Int} (h : sliceAdjust n sl = .ok a) :
    a.2.2 ≠ 0 ∧ (0 < a.2.2 → 0 ≤ a.1 ∧ 0 ≤ a.2.1) ∧ (a.2.2 < 0 → -1 ≤ a.2.1 ∧ a.1 ≤ (n : Int) - 1) := by
  simp only [sliceAdjust] at h
  split at h
  · cases h
  · rename_i hstep
    simp only [Except.ok.injEq] at h
    subst h
    refine ⟨hstep, ?_, ?_⟩
    · intro hpos
      simp only at hpos
      have hneg : ¬ (sl.step.getD 1 < 0) := by omega
      simp only [hneg, if_false]
      constructor
      · cases sl.start with
        | none => simp
        | some s => simp only [clampIdx]; split <;> omega
      · cases sl.stop with
        | none => simp
        | some s => simp only [clampIdx]; split <;> omega
    · intro hneg
      simp only at hneg
      simp only [hneg, if_true]
      constructor
      · cases sl.stop with
        | none => simp
        | some s => simp only [clampIdx]; split <;> omega
      · cases sl.start with
        | none => simp
        | some s => simp only [clampIdx]; split <;> omega

/-- the positions of a slice in Int: `start + k·step` for `k < sliceLen`, all non-negative -/
theorem sliceIdx_nonneg {n : Nat} {sl : Slice} {a : Int × Int × Int} (h : sliceAdjust n sl = .ok a) (k : Nat)
    (hk : k < sliceLen a.1 a.2.1 a.2.2) : 0 ≤ a.1 + (k : Int) * a.2.2 := by
  obtain ⟨h0, hp, hn⟩ := sliceAdjust_bounds h
  rcases Int.lt_or_gt_of_ne h0 with hneg | hpos
  · obtain ⟨b1, _⟩ := hn hneg
    simp only [sliceLen] at hk
    have hng : ¬ (a.2.2 > 0) := by omega
    simp only [hng, if_false] at hk
    split at hk
    · rename_i hlt
      have hd : (0 : Int) < -a.2.2 := by omega
      have hq : (k : Int) ≤ (a.1 - a.2.1 - 1) / (-a.2.2) := by
        have : (0 : Int) ≤ (a.1 - a.2.1 - 1) / (-a.2.2) := Int.ediv_nonneg (by omega) (by omega)
        omega
      have hm := (Int.le_ediv_iff_mul_le hd).mp hq
      have : (k : Int) * (-a.2.2) = -((k : Int) * a.2.2) := by rw [Int.mul_neg]
      omega
    · simp at hk
  · obtain ⟨b1, _⟩ := hp hpos
    have : (0 : Int) ≤ (k : Int) * a.2.2 := Int.mul_nonneg (by omega) (by omega)
    omega

/-- a slice addresses no position twice -/
theorem sliceIdx_nodup {n : Nat} {sl : Slice} {a : Int × Int × Int} (h : sliceAdjust n sl = .ok a) :
    (sliceIdx a).Nodup := by
  simp only [sliceIdx, List.Nodup, List.pairwise_map]
  have hr : List.Pairwise (fun a b => a ≠ b) (List.range (sliceLen a.1 a.2.1 a.2.2)) := List.nodup_range
  apply hr.imp_of_mem
  intro k1 k2 hk1 hk2 hne heq
  simp only [List.mem_range] at hk1 hk2
  have n1 := sliceIdx_nonneg h k1 hk1
  have n2 := sliceIdx_nonneg h k2 hk2
  have h0 := (sliceAdjust_bounds h).1
  have he : a.1 + (k1 : Int) * a.2.2 = a.1 + (k2 : Int) * a.2.2 := by omega
  have he2 : ((k1 : Int) - (k2 : Int)) * a.2.2 = 0 := by rw [Int.sub_mul]; omega
  rcases Int.mul_eq_zero.mp he2 with h1 | h1
  · exact hne (by omega)
  · exact h0 h1

/-- the members a slice assignment addresses are not among those that stay (`remainX`), whatever the step -/
theorem pick_sliceIdx_not_remain (old : List α) (sl : Slice) (a : Int × Int × Int)
    (h : sliceAdjust old.length sl = .ok a) (ho : old.Nodup) (y : α) (hy : y ∈ pick old (sliceIdx a)) :
    y ∉ remainX (.setSlice sl) old := by
  simp only [remainX, h]
  split
  · rename_i h1
    intro hin
    simp only [pick, List.mem_filterMap] at hy
    obtain ⟨i, hi, hiy⟩ := hy
    simp only [sliceIdx, List.mem_map, List.mem_range] at hi
    obtain ⟨k, hk, rfl⟩ := hi
    obtain ⟨hil, _⟩ := List.getElem?_eq_some_iff.mp hiy
    obtain ⟨b1, b2⟩ := (sliceAdjust_bounds h).2.1 (by omega)
    simp only [h1, sliceLen] at hk
    have hk' : a.1 < a.2.1 ∧ (k : Int) < a.2.1 - a.1 := by
      split at hk
      · split at hk
        · rename_i hlt; exact ⟨hlt, by omega⟩
        · simp at hk
      · omega
    simp only [List.mem_append] at hin
    rcases hin with hin | hin
    · obtain ⟨j, hj⟩ := List.mem_iff_getElem?.mp hin
      rw [List.getElem?_take] at hj
      split at hj
      · rename_i hjl
        have : (a.1 + (k : Int) * a.2.2).toNat = j := (List.getElem?_inj hil ho).mp (by rw [hiy, hj])
        rw [h1] at this
        omega
      · cases hj
    · obtain ⟨j, hj⟩ := List.mem_iff_getElem?.mp hin
      rw [List.getElem?_drop] at hj
      have : (a.1 + (k : Int) * a.2.2).toNat = (max a.2.1 a.1).toNat + j := (List.getElem?_inj hil ho).mp (by rw [hiy, hj])
      rw [h1] at this
      omega
  · exact pick_dropIdx_disjoint old _ ho y hy

theorem trueIdx_ge (bs : List Bool) (k : Nat) : ∀ i ∈ trueIdx bs k, k ≤ i := by
  induction bs generalizing k with
  | nil => simp [trueIdx]
  | cons b bs ih =>
    intro i hi
    simp only [trueIdx] at hi
    split at hi
    · simp only [List.mem_cons] at hi
      rcases hi with hi | hi
      · omega
      · have := ih (k + 1) i hi; omega
    · have := ih (k + 1) i hi; omega

/-- a boolean mask selects no position twice -/
theorem trueIdx_nodup (bs : List Bool) (k : Nat) : (trueIdx bs k).Nodup := by
  induction bs generalizing k with
  | nil => simp [trueIdx]
  | cons b bs ih =>
    simp only [trueIdx]
    split
    · simp only [List.nodup_cons]
      exact ⟨fun hin => by have := trueIdx_ge bs (k + 1) k hin; omega, ih (k + 1)⟩
    · exact ih (k + 1)

end SliceArith

/-! ### `extend` with the default flag: what is taken over uncopied is new to the target and listed once -/

theorem keptOf_memoFlags (seen xs : List Nat) :
    (World.keptOf xs (memoFlags seen xs)).Nodup ∧ ∀ y ∈ World.keptOf xs (memoFlags seen xs), y ∉ seen := by
  induction xs generalizing seen with
  | nil => simp [World.keptOf]
  | cons a r ih =>
    obtain ⟨i1, i2⟩ := ih (a :: seen)
    by_cases ha : a ∈ seen
    · simp only [memoFlags, ha, decide_true, World.keptOf]
      exact ⟨i1, fun y hy hin => i2 y hy (List.mem_cons_of_mem _ hin)⟩
    · simp only [memoFlags, ha, decide_false, World.keptOf, List.nodup_cons, List.mem_cons]
      refine ⟨⟨fun hin => i2 a hin (by simp), i1⟩, ?_⟩
      intro y hy hin
      rcases hy with hy | hy
      · subst hy; exact ha hin
      · exact i2 y hy (List.mem_cons_of_mem _ hin)

/-! ### what the planner emits -/

section Shape
variable {α : Type}

/-- shape facts of an action that `planG` returns: permutations come from `sort` (no repeated
index); a `copyShape` (pickle protocol 0/1) carries exactly the member list of its source -/
def ActShape (v : View α) : Act α → Prop
  | .plan p => EditOk p.edit
  | .copyShape h xs => v.atoms h = .ok xs
  | _ => True

theorem planIndex_shape (v : View α) (h : Nat) (old : List α) (ix : Index) {act : Act α}
    (hp : planIndex v h old ix = .ok act) : ActShape v act := by
  cases ix <;> simp only [planIndex] at hp <;> (repeat' split at hp) <;>
    first
    | (cases hp; simp only [ActShape, selPlan, EditOk])
    | cases hp

theorem planG_shape [DecidableEq α] (v : View α) (op : Op) {act : Act α}
    (hp : planG v op = .ok act) : ActShape v act := by
  cases op
  case getitem h ix =>
    simp only [planG] at hp
    split at hp
    · cases hp
    · exact planIndex_shape v h _ ix hp
  case sort h =>
    simp only [planG] at hp
    split at hp
    · cases hp
    · cases hp; exact sortIdx_nodup _
  case pickle h proto =>
    simp only [planG] at hp
    split at hp
    · cases hp
    · rename_i old hold
      split at hp
      · cases hp; trivial
      · cases hp; exact hold
  all_goals
    simp only [planG] at hp
    (repeat' split at hp) <;>
      first
      | (cases hp; simp only [ActShape, EditOk])
      | cases hp

end Shape

namespace World

/-! ### pickling with protocol 0/1 -/

theorem dedup_of_nodup (xs seen : List Nat) (hn : xs.Nodup) (hd : ∀ x ∈ xs, x ∉ seen) : dedup xs seen = xs := by
  induction xs generalizing seen with
  | nil => rfl
  | cons a r ih =>
    simp only [List.nodup_cons] at hn
    simp only [dedup, hd a (by simp), if_false]
    rw [ih (a :: seen) hn.2]
    intro x hx
    simp only [List.mem_cons, not_or]
    exact ⟨fun e => hn.1 (e ▸ hx), hd x (List.mem_cons_of_mem _ hx)⟩

theorem filterMap_congr' {β γ : Type} (f g : β → Option γ) (l : List β) (h : ∀ x ∈ l, f x = g x) :
    l.filterMap f = l.filterMap g := by
  induction l with
  | nil => rfl
  | cons a r ih =>
    simp only [List.filterMap_cons, h a (by simp)]
    rw [ih (fun x hx => h x (List.mem_cons_of_mem _ hx))]

theorem filterMap_idxOf_self (xs : List Nat) (c : List Nat) (hn : xs.Nodup) (hl : c.length = xs.length) :
    xs.filterMap (fun x => c[xs.idxOf x]?) = c := by
  induction xs generalizing c with
  | nil => cases c <;> simp_all
  | cons a r ih =>
    cases c with
    | nil => simp at hl
    | cons b c =>
      simp only [List.nodup_cons] at hn
      simp only [List.filterMap_cons, List.idxOf_cons_self, List.getElem?_cons_zero]
      congr 1
      refine Eq.trans ?_ (ih c hn.2 (by simpa using hl))
      apply filterMap_congr'
      intro x hx
      have hne : (a == x) = false := by
        simp only [beq_eq_false_iff_ne, ne_eq]
        exact fun e => hn.1 (e ▸ hx)
      simp only [List.idxOf_cons, hne, cond_false, List.getElem?_cons_succ]

/-- `copySome` with all flags set returns pairwise different atoms -/
theorem copySome_allTrue_nodup (w : World) (xs : List Nat) : (w.copySome xs (allTrue xs)).2.Nodup := by
  induction xs generalizing w with
  | nil => simp [copySome]
  | cons a r ih =>
    simp only [allTrue, List.map_cons, copySome, List.nodup_cons]
    refine ⟨?_, ih _⟩
    intro hin
    have := copySome_allTrue_fresh (w.allocAtom (w.pay a) (w.alat a)) r w.nextA hin
    simp only [allocAtom_nextA] at this
    omega

/-- the member list of the structure that `pickle.loads(pickle.dumps(s, 0 or 1))` returns repeats no
atom if that of `s` does not -/
theorem copyShape_atoms_nodup (w : World) (h : Nat) (xs : List Nat) (hn : xs.Nodup) :
    ((w.exec (.copyShape h xs)).1.atomsOf w.strus.length).Nodup := by
  simp only [exec]
  obtain ⟨f1, _, _, _, _⟩ := copySome_frame ((w.pushStru w.nextL).newLat) (dedup xs []) (allTrue (dedup xs []))
  have hstr : (((w.pushStru w.nextL).newLat.copySome (dedup xs []) (allTrue (dedup xs []))).1.setLats
      (xs.filterMap (fun x => ((w.pushStru w.nextL).newLat.copySome (dedup xs []) (allTrue (dedup xs []))).2[(dedup xs []).idxOf x]?))
      w.nextL).strus = w.strus ++ [⟨[], w.nextL, true⟩] := by
    simp only [setLats, f1]; rfl
  obtain ⟨a1, _⟩ := atomsOf_setAtoms_push _ w.strus w.nextL
    (xs.filterMap (fun x => ((w.pushStru w.nextL).newLat.copySome (dedup xs []) (allTrue (dedup xs []))).2[(dedup xs []).idxOf x]?)) hstr
  rw [a1]
  have hd : dedup xs [] = xs := dedup_of_nodup xs [] hn (by simp)
  rw [hd, filterMap_idxOf_self xs _ hn (copySome_length _ _ _)]
  exact copySome_allTrue_nodup _ xs

theorem exec_copyShape_strus (w : World) (h : Nat) (xs : List Nat) :
    ∃ ys, (w.exec (.copyShape h xs)).1.strus = w.strus ++ [⟨ys, w.nextL, true⟩] := by
  obtain ⟨f1, _, _, _, _⟩ := copySome_frame ((w.pushStru w.nextL).newLat) (dedup xs []) (allTrue (dedup xs []))
  refine ⟨xs.filterMap (fun x => ((w.pushStru w.nextL).newLat.copySome (dedup xs []) (allTrue (dedup xs []))).2[(dedup xs []).idxOf x]?), ?_⟩
  simp only [exec, setAtoms, setLats, f1]
  simp only [pushStru, newLat, updAt_append_length]

/-! ### the full side condition and the step lemma -/

/-- side condition of `no_alias` without any restriction on the kind of edit: the atoms taken over
*without copying* are pairwise different and none of them is a member that stays in the target
(`remainX`: exact also for extended slices).  Pickling needs no condition. -/
def DupFreeActX (w : World) : Act Nat → Prop
  | .plan p =>
    (keptOf p.inc p.flags).Nodup ∧ (∀ y ∈ keptOf p.inc p.flags, y ∉ remainX p.edit (oldOf w p))
  | _ => True

instance (w : World) (act : Act Nat) : Decidable (DupFreeActX w act) := by
  cases act <;> unfold DupFreeActX <;> infer_instance

theorem execPlan_nodupX {w : World} (hw : Wf w) (hn : NodupInv w) (p : Plan Nat) (hinc : ∀ x ∈ p.inc, x < w.nextA)
    (hd : DupFreeActX w (.plan p)) (hc : EditOk p.edit) : NodupInv (w.execPlan p).1 := by
  have hq := prep_nodupInv hn p
  obtain ⟨hd1, hd2⟩ := hd
  obtain ⟨_, _, _, _, _, e6⟩ := prep_strus w p
  obtain ⟨_, _, g3, _, _, _⟩ := w1_frame w p
  rw [execPlan_eq]
  rcases hap : p.edit.apply ((w.prep p).1.atomsOf (w.prep p).2.1) (w.prep p).2.2 with e | ⟨new, ret⟩
  · exact hq
  · simp only [worldFinish]
    rw [prep_atomsOf] at hap
    have hold : (oldOf w p).Nodup := by
      simp only [oldOf]; cases p.tgt with
      | old h => exact atomsOf_nodup hn h
      | new _ => exact List.nodup_nil
    have hys : (w.prep p).2.2.Nodup := by
      rw [e6]; exact copySome_nodup _ _ _ hd1 (by intro x hx; rw [g3]; exact hinc x hx)
    have hdis : ∀ y ∈ (w.prep p).2.2, y ∉ remainX p.edit (oldOf w p) := by
      intro y hy hin
      rw [e6] at hy
      rcases copySome_mem (w1 w p) p.inc p.flags y hy with h | h
      · exact hd2 y h hin
      · -- a fresh atom is not a member of the old list
        have hlt : ∀ z ∈ oldOf w p, z < w.nextA := by
          intro z hz
          simp only [oldOf] at hz
          cases htg : p.tgt with
          | old h => rw [htg] at hz; exact atomsOf_lt hw h z hz
          | new _ => rw [htg] at hz; simp at hz
        have := hlt y (remainX_subset p.edit _ y hin)
        rw [g3] at h
        omega
    have hnew := Edit.apply_nodupX hap hold hys hdis hc
    intro s hsm hl
    simp only [setAtoms] at hsm
    rcases mem_updAt_idx hsm with h | ⟨t, ht, rfl⟩
    · exact hq s h hl
    · exact hnew

theorem exec_nodupX {w : World} (hw : Wf w) (hn : NodupInv w) (act : Act Nat) (hok : ActOk w act)
    (hs : ActShape w.view act) (hd : DupFreeActX w act) : NodupInv (w.exec act).1 := by
  cases act with
  | plan p => exact execPlan_nodupX hw hn p hok.1 hd hs
  | copyShape h xs =>
    have hxs : xs.Nodup := by
      have := (view_atoms_ok hs).1
      rw [← this]; exact atomsOf_nodup hn h
    have hres := copyShape_atoms_nodup w h xs hxs
    obtain ⟨ys, hys⟩ := exec_copyShape_strus w h xs
    have hat : (w.exec (.copyShape h xs)).1.atomsOf w.strus.length = ys := by
      simp [atomsOf, hys]
    rw [hat] at hres
    intro s hsm hl
    rw [hys] at hsm
    simp only [List.mem_append, List.mem_singleton] at hsm
    rcases hsm with h1 | h1
    · exact hn s h1 hl
    · subst h1; exact hres
  | retAtom a h => exact exec_nodup hw hn _ hok trivial
  | mkAtom p => exact exec_nodup hw hn _ hok trivial
  | addNew h p => exact exec_nodup hw hn _ hok trivial
  | setLat h src => exact exec_nodup hw hn _ hok trivial
  | drop h => exact exec_nodup hw hn _ hok trivial

/-- the side condition of one step of the full `no_alias` -/
def DupFreeX (w : World) (op : Op) : Prop :=
  match planG w.view op with
  | .ok act => DupFreeActX w act
  | .error _ => True

instance (w : World) (op : Op) : Decidable (DupFreeX w op) := by
  unfold DupFreeX
  cases planG w.view op <;> infer_instance

theorem stepFull_nodupX {w : World} (hw : Wf w) (hn : NodupInv w) (op : Op) (hd : DupFreeX w op) :
    NodupInv (w.stepFull op).1 := by
  simp only [stepFull]
  simp only [DupFreeX] at hd
  split
  · exact hn
  · rename_i act hact
    rw [hact] at hd
    exact exec_nodupX hw hn act (planG_all (view_all hw) hact) (planG_shape _ _ hact) hd

def DupFreeHistX : World → List Op → Prop
  | _, [] => True
  | w, op :: ops => DupFreeX w op ∧ DupFreeHistX (w.stepFull op).1 ops

instance decDupFreeHistX : (w : World) → (ops : List Op) → Decidable (DupFreeHistX w ops)
  | _, [] => isTrue trivial
  | w, op :: ops => @instDecidableAnd _ _ _ (decDupFreeHistX (w.stepFull op).1 ops)

theorem run_nodupX {w : World} (hw : Wf w) (hn : NodupInv w) (ops : List Op) (hd : DupFreeHistX w ops) :
    NodupInv (w.run ops) := by
  induction ops generalizing w with
  | nil => exact hn
  | cons op ops ih => exact ih (stepFull_wf hw op) (stepFull_nodupX hw hn op hd.1) hd.2

/-- a plan that edits an existing structure: whatever is in the list afterwards was there before, is
one of the atoms taken over uncopied, or is freshly allocated (generalises `execPlan_old_fresh`) -/
theorem execPlan_old_mem (w : World) (p : Plan Nat) (h : Nat) (ht : p.tgt = .old h) :
    ∀ a ∈ (w.execPlan p).1.atomsOf h, a ∈ w.atomsOf h ∨ a ∈ keptOf p.inc p.flags ∨ w.nextA ≤ a := by
  obtain ⟨e1, _, _, _, e5, e6⟩ := prep_strus w p
  obtain ⟨_, _, g3, _, _, g6⟩ := w1_frame w p
  have hh : (w.prep p).2.1 = h := by rw [e5]; simp [hT, ht]
  have hstr : (w.prep p).1.strus = w.strus := by rw [e1, g6, ht]
  have hat : (w.prep p).1.atomsOf h = w.atomsOf h := by simp [atomsOf, hstr]
  rw [execPlan_eq]
  rcases hap : p.edit.apply ((w.prep p).1.atomsOf (w.prep p).2.1) (w.prep p).2.2 with e | ⟨new, ret⟩
  · simp only [worldFinish, hat]
    intro a ha; exact Or.inl ha
  · simp only [worldFinish, hh]
    intro a ha
    have hsub : a ∈ new := by
      simp only [atomsOf, setAtoms, getElem?_updAt, if_true] at ha
      cases hg : (w.prep p).1.strus[h]? with
      | none => simp [hg] at ha
      | some t =>
        simp only [hg, Option.map_some] at ha
        split at ha
        · exact ha
        · simp at ha
    rw [hh] at hap
    rcases (Edit.apply_subset hap).1 a hsub with h1 | h1
    · rw [hat] at h1; exact Or.inl h1
    · rw [e6] at h1
      rcases copySome_mem (w1 w p) p.inc p.flags a h1 with h2 | h2
      · exact Or.inr (Or.inl h2)
      · exact Or.inr (Or.inr (by omega))

/-- the restricted side condition implies the full one (so `run_nodupX` subsumes `run_nodup`) -/
theorem dupFreeX_of_dupFree {w : World} {op : Op} (h : DupFree w op) : DupFreeX w op := by
  simp only [DupFree, DupFreeX] at h ⊢
  split
  · rename_i act hact
    rw [hact] at h
    cases act <;> try trivial
    case plan p =>
      obtain ⟨h1, h2, h3⟩ := h
      exact ⟨h1, by rw [remainX_core _ _ h3]; exact h2⟩
  · trivial

end World

end DS.World
