import DS.Model.ConReal
import DS.Model.Constraints
import DS.Model.Partition
import DS.Lemmas.SrcSym
import DS.Lemmas.Partition
import DS.Lemmas.Dec
import Mathlib.Data.Rat.Floor
import Mathlib.Tactic.Ring
import Mathlib.Tactic.Linarith
import Mathlib.Tactic.NormNum
import Mathlib.Tactic.NormNum.OfScientific

/-!
Lemmas for the source tie of the constraint code (`DS/Props/SrcConstraints.lean`).  Nothing here mentions the transliteration
`DS.Src.Constraints`, so this file does not change when the source does: facts about the Python/numpy primitives of
`DS/Model/ConReal.lean` (loops, lists, dictionaries, the set of independent indices, `re.sub`) and about the model functions
added to `DS/Model/Constraints.lean` / `Partition.lean`.
-/
namespace DS.ConTie
open DS
set_option linter.unusedSectionVars false
set_option linter.unusedVariables false

/-! ### Python loops, lists -/
section py
variable {β σ κ : Type}

@[simp] theorem forM_nil (s : σ) (body : σ → β → Option σ) : Py.forM [] s body = some s := rfl

@[simp] theorem forM_cons (x : β) (xs : List β) (s : σ) (body : σ → β → Option σ) :
    Py.forM (x :: xs) s body = (body s x).bind fun s' => Py.forM xs s' body := by
  simp [Py.forM, List.foldlM_cons]

theorem forM_append (xs ys : List β) (s : σ) (body : σ → β → Option σ) :
    Py.forM (xs ++ ys) s body = (Py.forM xs s body).bind fun s' => Py.forM ys s' body := by
  induction xs generalizing s with
  | nil => simp
  | cons x xs ih =>
    simp only [List.cons_append, forM_cons]
    cases body s x with
    | none => rfl
    | some s' => simp [ih]

/-- a loop whose body never raises is a fold -/
theorem forM_total (l : List β) (s : σ) (body : σ → β → Option σ) (f : σ → β → σ) (h : ∀ s x, body s x = some (f s x)) :
    Py.forM l s body = some (l.foldl f s) := by
  induction l generalizing s with
  | nil => rfl
  | cons x xs ih => simp [h, ih]

@[simp] theorem forBreak_nil (s : σ) (body : σ → β → σ × Bool) : Py.forBreak [] s body = s := rfl

theorem forBreak_cons (x : β) (xs : List β) (s : σ) (body : σ → β → σ × Bool) :
    Py.forBreak (x :: xs) s body = if (body s x).2 then (body s x).1 else Py.forBreak xs (body s x).1 body := rfl

theorem getIdx_zero (l : List β) : Py.getIdx l (0 : Int) = l.head? := by
  cases l <;> simp [Py.getIdx]

theorem getIdx_nat (l : List β) (i : Nat) : Py.getIdx l (Int.ofNat i) = l[i]? := by
  simp [Py.getIdx]

theorem listSet_eq (l : List β) (i : Nat) (v : β) (h : i < l.length) : Py.listSet l i v = some (l.set i v) := by
  simp [Py.listSet, h]

theorem mapOpt_total {γ : Type} (f : β → Option γ) (g : β → γ) (l : List β) (h : ∀ x ∈ l, f x = some (g x)) :
    Py.mapOpt f l = some (l.map g) := by
  induction l with
  | nil => rfl
  | cons x xs ih =>
    rw [Py.mapOpt, h x (List.mem_cons_self ..), ih (fun y hy => h y (List.mem_cons_of_mem _ hy))]
    rfl

/-! ### dictionaries (insertion order) -/
variable [BEq κ] [LawfulBEq κ]

theorem dictGet_append_ne (d : List (κ × β)) (k k' : κ) (v : β) (h : k' ≠ k) :
    Py.dictGet (d ++ [(k', v)]) k = Py.dictGet d k := by
  unfold Py.dictGet
  rw [List.find?_append]
  cases hf : d.find? (fun e => e.1 == k) with
  | some e => simp
  | none => simp [h]

theorem dictGet_append_self (d : List (κ × β)) (k : κ) (v : β) (h : Py.dictHas d k = false) :
    Py.dictGet (d ++ [(k, v)]) k = some v := by
  unfold Py.dictHas at h
  unfold Py.dictGet at h ⊢
  rw [List.find?_append]
  cases hf : d.find? (fun e => e.1 == k) with
  | some e => simp [hf] at h
  | none => simp

theorem dictSet_fresh (d : List (κ × β)) (k : κ) (v : β) (h : Py.dictHas d k = false) :
    Py.dictSet d k v = d ++ [(k, v)] := by
  simp [Py.dictSet, h]

theorem dictHas_iff_mem_keys (d : List (κ × β)) (k : κ) : Py.dictHas d k = (d.map (·.1)).contains k := by
  induction d with
  | nil => rfl
  | cons e d ih =>
    unfold Py.dictHas Py.dictGet at ih ⊢
    rw [List.find?_cons, List.map_cons, List.contains_cons]
    by_cases h : e.1 = k
    · subst h; simp
    · have h1 : (e.1 == k) = false := by simpa using h
      have h2 : (k == e.1) = false := by simpa using (Ne.symm h)
      rw [h1, h2]
      simpa using ih

/-- `d[k] = f(d[k])` on the LAST entry -/
theorem dictUpd_last (d : List (κ × β)) (k : κ) (v : β) (f : β → β) (h : Py.dictHas d k = false) :
    Py.dictUpd (d ++ [(k, v)]) k f = some (d ++ [(k, f v)]) := by
  have hk : ∀ e ∈ d, (e.1 == k) = false := by
    intro e he
    rw [dictHas_iff_mem_keys] at h
    by_contra hc
    simp only [Bool.not_eq_false, beq_iff_eq] at hc
    have : k ∈ d.map (·.1) := by rw [← hc]; exact List.mem_map_of_mem he
    simp [this] at h
  unfold Py.dictUpd
  rw [dictGet_append_self d k v h]
  simp only [Option.map_some, Py.dictSet]
  have : Py.dictHas (d ++ [(k, v)]) k = true := by
    unfold Py.dictHas; rw [dictGet_append_self d k v h]; rfl
  rw [if_pos this, List.map_append]
  congr 2
  · rw [List.map_congr_left (g := id)]
    · simp
    · intro e he; simp [hk e he]
  · simp

end py

/-! ### the set of independent indices: a sorted list -/

theorem insertNat_of_le_all (x : Nat) (l : List Nat) (h : ∀ y ∈ l, x ≤ y) : Py.insertNat x l = x :: l := by
  cases l with
  | nil => rfl
  | cons y ys => simp [Py.insertNat, h y (List.mem_cons_self ..)]

theorem sortedNat_of_sorted (l : List Nat) (h : l.Pairwise (· ≤ ·)) : Py.sortedNat l = l := by
  induction l with
  | nil => rfl
  | cons x xs ih =>
    rw [List.pairwise_cons] at h
    show Py.insertNat x (Py.sortedNat xs) = x :: xs
    rw [ih h.2, insertNat_of_le_all x xs h.1]

theorem sortedNat_of_lt (l : List Nat) (h : l.Pairwise (· < ·)) : Py.sortedNat l = l :=
  sortedNat_of_sorted l (h.imp Nat.le_of_lt)

theorem setRemove_mem (s : List Nat) (x : Nat) (h : x ∈ s) : Py.setRemove s x = some (s.filter fun y => y != x) := by
  simp [Py.setRemove, h]


/-! ### `dict(zip(keys, values))` with distinct keys -/
section dictzip
variable {κ β : Type} [BEq κ] [LawfulBEq κ]

theorem dictFold_fresh : ∀ (l : List (κ × β)) (d : List (κ × β)), (l.map (·.1)).Nodup →
    (∀ e ∈ l, Py.dictHas d e.1 = false) → l.foldl (fun d e => Py.dictSet d e.1 e.2) d = d ++ l
  | [], d, _, _ => by simp
  | e :: l, d, hnd, hd => by
    rw [List.map_cons, List.nodup_cons] at hnd
    rw [List.foldl_cons, dictSet_fresh d e.1 e.2 (hd e (List.mem_cons_self ..)),
      dictFold_fresh l _ hnd.2, List.append_assoc]
    · rfl
    · intro e' he'
      rw [dictHas_iff_mem_keys, List.map_append, List.map_cons, List.map_nil]
      have h1 := hd e' (List.mem_cons_of_mem _ he')
      rw [dictHas_iff_mem_keys] at h1
      have h2 : e'.1 ≠ e.1 := fun h => hnd.1 (h ▸ List.mem_map_of_mem he')
      simp only [List.contains_eq_mem, List.mem_append, List.mem_cons, List.not_mem_nil, or_false, decide_eq_false_iff_not,
        not_or] at h1 ⊢
      exact ⟨h1, h2⟩

theorem map_fst_zip_sublist : ∀ (a : List κ) (b : List β), ((a.zip b).map (·.1)).Sublist a
  | [], _ => by simp
  | _ :: _, [] => by simp
  | x :: xs, y :: ys => by
    rw [List.zip_cons_cons, List.map_cons]
    exact (map_fst_zip_sublist xs ys).cons_cons x

theorem dictZip_nodup (a : List κ) (b : List β) (h : a.Nodup) : Py.dictZip a b = a.zip b := by
  unfold Py.dictZip
  rw [dictFold_fresh (a.zip b) [] _ (fun _ _ => rfl), List.nil_append]
  exact (map_fst_zip_sublist a b).nodup h

theorem dictGet_zip (a : List κ) (b : List β) (h : a.Nodup) (i : Nat) (hi : i < a.length) (hb : i < b.length) :
    Py.dictGet (a.zip b) a[i] = some b[i] := by
  induction a generalizing b i with
  | nil => simp at hi
  | cons x xs ih =>
    cases b with
    | nil => simp at hb
    | cons y ys =>
      rw [List.nodup_cons] at h
      cases i with
      | zero => simp [Py.dictGet]
      | succ i =>
        have hi' : i < xs.length := by simpa using hi
        have hne : (x == xs[i]) = false := by
          have : xs[i] ∈ xs := List.getElem_mem _
          have : x ≠ xs[i] := fun e => h.1 (e ▸ this)
          simpa using this
        simp only [List.zip_cons_cons, List.getElem_cons_succ, Py.dictGet, List.find?_cons, hne]
        exact ih ys h.2 i (by simpa using hi) (by simpa using hb)

end dictzip

/-! ### `re.sub` on printed formula strings -/

/-- pieces of a printed formula string: literal text (numbers, signs, `*`, blanks) and parameter symbols `head ++ str(index)` -/
inductive FTok where
  | lit (s : List Char)
  | sym (head : List Char) (idx : Nat)
deriving DecidableEq, Repr

def FTok.render : FTok → List Char
  | FTok.lit s => s
  | FTok.sym h i => h ++ Py.strNat i

def renderAll (ts : List FTok) : List Char := ts.flatMap FTok.render

/-- the patterns of `positionFormulas` (`m = 0`) and `UFormulas` (`m = 2`): `\b[C]\d{m}\d+` -/
def symPat (C : List Char) (m : Nat) : List RxAtom :=
  RxAtom.wordB :: RxAtom.cls C :: (List.replicate m RxAtom.digit ++ [RxAtom.digits1])

def nonWordPrev (prev : Option Char) : Bool :=
  match prev with
  | some c => !Rx.isWord c
  | none => true

def startsNonDigit (s : List Char) : Bool :=
  match s with
  | c :: _ => !Dec.isDigit c
  | [] => true

/-- well-formed token lists for a class `C` of symbol letters and `m` fixed digits: literal text contains no letter of `C`;
a symbol is `c :: ds ++ str(i)` with `c ∈ C` a word character, `ds` exactly `m` digits; it is preceded by a non-word character
(or the start of the string) and followed by a non-digit (or the end) -/
def WFToks (C : List Char) (m : Nat) : Option Char → List FTok → Prop
  | _, [] => True
  | prev, FTok.lit s :: rest => (∀ c ∈ s, c ∉ C) ∧ WFToks C m (if s = [] then prev else s.getLast?) rest
  | prev, FTok.sym h i :: rest =>
    nonWordPrev prev = true ∧
    (∃ c ds, h = c :: ds ∧ c ∈ C ∧ Rx.isWord c = true ∧ ds.length = m ∧ Dec.allDigits ds = true) ∧
    startsNonDigit (renderAll rest) = true ∧ WFToks C m (h ++ Py.strNat i).getLast? rest

def tokSub (fn : List Char → Option (List Char)) : FTok → Option (List Char)
  | FTok.lit s => some s
  | FTok.sym h i => fn (h ++ Py.strNat i)

theorem takeDigits_all (ds tail : List Char) (hd : Dec.allDigits ds = true) (ht : startsNonDigit tail = true) :
    Rx.takeDigits (ds ++ tail) = (ds, tail) := by
  induction ds with
  | nil =>
    cases tail with
    | nil => rfl
    | cons c cs =>
      simp only [startsNonDigit, Bool.not_eq_true'] at ht
      simp [Rx.takeDigits, ht]
  | cons d ds ih =>
    simp only [Dec.allDigits, List.all_cons, Bool.and_eq_true] at hd
    have := ih (by simpa [Dec.allDigits] using hd.2)
    simp [Rx.takeDigits, hd.1, this]

theorem matchAt_digits (m : Nat) : ∀ (ds digs tail : List Char) (prev : Option Char), ds.length = m → Dec.allDigits ds = true →
    digs ≠ [] → Dec.allDigits digs = true → startsNonDigit tail = true →
    Rx.matchAt (List.replicate m RxAtom.digit ++ [RxAtom.digits1]) prev (ds ++ digs ++ tail) = some (ds ++ digs, tail) := by
  induction m with
  | zero =>
    intro ds digs tail prev hl _ hne hd ht
    have : ds = [] := List.length_eq_zero_iff.1 hl
    subst this
    simp only [List.replicate_zero, List.nil_append, Rx.matchAt, takeDigits_all digs tail hd ht]
    cases digs with
    | nil => exact absurd rfl hne
    | cons _ _ => rfl
  | succ m ih =>
    intro ds digs tail prev hl hds hne hd ht
    cases ds with
    | nil => simp at hl
    | cons d ds =>
      simp only [Dec.allDigits, List.all_cons, Bool.and_eq_true] at hds
      simp only [List.replicate_succ, List.cons_append, Rx.matchAt, hds.1, if_true]
      rw [ih ds digs tail (some d) (by simpa using hl) (by simpa [Dec.allDigits] using hds.2) hne hd ht]
      rfl

theorem strNat_digits (i : Nat) : Py.strNat i ≠ [] ∧ Dec.allDigits (Py.strNat i) = true :=
  ⟨Dec.natDigits_ne_nil i, Dec.allDigits_natDigits i⟩

/-- a symbol at the current position is matched as a whole -/
theorem matchAt_sym (C : List Char) (m : Nat) (prev : Option Char) (c : Char) (ds : List Char) (i : Nat) (tail : List Char)
    (hp : nonWordPrev prev = true) (hc : c ∈ C) (hw : Rx.isWord c = true) (hl : ds.length = m) (hd : Dec.allDigits ds = true)
    (ht : startsNonDigit tail = true) :
    Rx.matchAt (symPat C m) prev ((c :: ds) ++ Py.strNat i ++ tail) = some ((c :: ds) ++ Py.strNat i, tail) := by
  have hcc : C.contains c = true := by simpa using hc
  have hm := matchAt_digits m ds (Py.strNat i) tail (some c) hl hd (strNat_digits i).1 (strNat_digits i).2 ht
  cases prev with
  | none =>
    simp only [symPat, List.cons_append, Rx.matchAt, hw, hcc, if_true, bne_iff_ne, ne_eq, Bool.false_eq_true,
      not_false_eq_true, hm, Option.map_some]
  | some p =>
    have hpw : Rx.isWord p = false := by simpa [nonWordPrev] using hp
    simp only [symPat, List.cons_append, Rx.matchAt, hw, hcc, hpw, if_true, bne_iff_ne, ne_eq, Bool.false_eq_true,
      not_false_eq_true, hm, Option.map_some]

/-- no match starts at a character that is not a symbol letter -/
theorem matchAt_nonletter (C : List Char) (m : Nat) (prev : Option Char) (c : Char) (cs : List Char) (hc : c ∉ C) :
    Rx.matchAt (symPat C m) prev (c :: cs) = none := by
  have hcc : C.contains c = false := by simpa using hc
  simp only [symPat, Rx.matchAt, hcc, Bool.false_eq_true, if_false]
  simp

theorem subAux_lit (C : List Char) (m : Nat) (fn : List Char → Option (List Char)) :
    ∀ (s tail : List Char) (fuel : Nat) (prev : Option Char), (∀ c ∈ s, c ∉ C) → s.length ≤ fuel →
      Rx.subAux (symPat C m) fn fuel prev (s ++ tail) =
        (Rx.subAux (symPat C m) fn (fuel - s.length) (if s = [] then prev else s.getLast?) tail).map fun r => s ++ r
  | [], tail, fuel, prev, _, _ => by simp
  | c :: s, tail, fuel, prev, h, hf => by
    cases fuel with
    | zero => simp at hf
    | succ fuel =>
      simp only [List.cons_append, Rx.subAux, matchAt_nonletter C m prev c (s ++ tail) (h c (List.mem_cons_self ..))]
      rw [subAux_lit C m fn s tail fuel (some c) (fun d hd => h d (List.mem_cons_of_mem _ hd)) (by simpa using hf)]
      have e1 : fuel + 1 - (c :: s).length = fuel - s.length := by simp
      have e2 : (if s = [] then some c else s.getLast?) = (c :: s).getLast? := by
        cases s with
        | nil => rfl
        | cons d s => simp [List.getLast?_cons_cons]
      rw [e1, if_neg (List.cons_ne_nil c s), ← e2]
      cases Rx.subAux (symPat C m) fn (fuel - s.length) (if s = [] then some c else s.getLast?) tail <;> rfl

theorem renderAll_cons (t : FTok) (ts : List FTok) : renderAll (t :: ts) = t.render ++ renderAll ts := by
  simp [renderAll]

/-- **`re.sub` on a well-formed token list** replaces every symbol token by `fn(symbol)` and copies the literal text -/
theorem subAux_tokens (C : List Char) (m : Nat) (fn : List Char → Option (List Char)) :
    ∀ (ts : List FTok) (fuel : Nat) (prev : Option Char), WFToks C m prev ts → (renderAll ts).length < fuel →
      Rx.subAux (symPat C m) fn fuel prev (renderAll ts) = (Py.mapOpt (tokSub fn) ts).map List.flatten
  | [], fuel, prev, _, hf => by
    cases fuel with
    | zero => simp at hf
    | succ fuel => rfl
  | FTok.lit s :: rest, fuel, prev, hwf, hf => by
    obtain ⟨hs, hrest⟩ := hwf
    rw [renderAll_cons] at hf ⊢
    simp only [FTok.render, List.length_append] at hf
    rw [FTok.render, subAux_lit C m fn s _ fuel prev hs (by omega),
      subAux_tokens C m fn rest _ _ hrest (by omega), Py.mapOpt]
    simp only [tokSub, Option.bind_some]
    cases Py.mapOpt (tokSub fn) rest <;> simp
  | FTok.sym h i :: rest, fuel, prev, hwf, hf => by
    obtain ⟨hp, ⟨c, ds, rfl, hc, hw, hl, hd⟩, hnd, hrest⟩ := hwf
    rw [renderAll_cons] at hf ⊢
    simp only [FTok.render, List.length_append] at hf
    cases fuel with
    | zero => simp at hf
    | succ fuel =>
      have hm := matchAt_sym C m prev c ds i (renderAll rest) hp hc hw hl hd hnd
      simp only [FTok.render, List.cons_append, List.append_assoc] at hm ⊢
      simp only [Rx.subAux, hm]
      have hne : ((c :: (ds ++ Py.strNat i)).isEmpty) = false := rfl
      simp only [hne, Bool.false_eq_true, if_false, Py.mapOpt, tokSub, List.cons_append]
      cases fn (c :: (ds ++ Py.strNat i)) with
      | none => rfl
      | some rep =>
        simp only [Option.bind_some]
        rw [subAux_tokens C m fn rest fuel _ (by simpa using hrest) (by simp at hf; omega)]
        cases Py.mapOpt (tokSub fn) rest <;> simp

theorem sub_tokens (C : List Char) (m : Nat) (fn : List Char → Option (List Char)) (ts : List FTok) (hwf : WFToks C m none ts) :
    Rx.sub (symPat C m) fn (renderAll ts) = (Py.mapOpt (tokSub fn) ts).map List.flatten :=
  subAux_tokens C m fn ts _ none hwf (Nat.lt_succ_self _)

/-- no prefix confusion: a symbol is determined by its letters and its index (`x1` is not `x10`) -/
theorem symKey_inj (h h' : List Char) (i i' : Nat) (hl : h.length = h'.length)
    (e : h ++ Py.strNat i = h' ++ Py.strNat i') : h = h' ∧ i = i' := by
  have := List.append_inj e hl
  refine ⟨this.1, ?_⟩
  have h2 := congrArg Dec.numOf this.2
  simpa [Py.strNat, Dec.numOf_natDigits] using h2

section orbit
open DS.Orbit

/-! ### the adoption test of `positionFormula` on exact positions = "same orbit" -/

theorem pdiff1_emod_right (D u v : Int) : pdiff1 D u (v % D) = pdiff1 D u v := by
  unfold pdiff1
  have : (u - v % D) % D = (u - v) % D := by
    rw [Int.sub_emod, Int.emod_emod_of_dvd _ (dvd_refl D), ← Int.sub_emod]
  simp only [this]

theorem boxDist_red_right (k : Int) (p q : P3) : boxDist (24 * k) p (red k q) = boxDist (24 * k) p q := by
  simp only [boxDist, red, pdiff1_emod_right]

/-- **adoption = same orbit.**  Let the images of `p` be pairwise equal or farther apart than `E` (`Sep`, as in C02) and let the
listed position `q` coincide (modulo lattice translations) with an image of `p` or be farther than `E` from every image.  Then the
test of `positionFormula` — the nearest of the equivalent positions of `p` is within the box distance `E` of `q` — holds exactly when
`q` lies in the orbit of `p` (`Partition.inOrbit`, the relation of `DS.Props.C05Partition`). -/
theorem adoption_iff_inOrbit {k E : Int} (hk : 0 < k) (hE : 0 < E) {ops : List Op} {p q : P3} (hne : ops ≠ [])
    (hsep : Sep ops k E (0, 0, 0) p)
    (hfar : ∀ a ∈ ops, img a k (0, 0, 0) p = red k q ∨ E < boxDist (24 * k) (img a k (0, 0, 0) p) (red k q)) :
    boxDist (24 * k) ((result ops k E (0, 0, 0) p).1.getD (nearestIdx (24 * k) (result ops k E (0, 0, 0) p).1 q) q) q ≤ E ↔
      Partition.inOrbit ops k p q = true := by
  rw [result_exact hk hE hsep]
  simp only
  set ps := dedupFirst (ops.map fun g => img g k (0, 0, 0) p) with hps
  have hpsne : ps ≠ [] := by
    cases ops with
    | nil => exact absurd rfl hne
    | cons a rest =>
      intro h
      have : img a k (0, 0, 0) p ∈ ps := by rw [hps, mem_dedupFirst]; simp
      rw [h] at this; simp at this
  have hlt := nearestIdx_lt (24 * k) ps q hpsne
  have hgd : ps.getD (nearestIdx (24 * k) ps q) q = ps[nearestIdx (24 * k) ps q] := by
    rw [List.getD_eq_getElem?_getD, List.getElem?_eq_getElem hlt]; rfl
  rw [Partition.inOrbit_iff]
  constructor
  · intro h
    have hmem : ps[nearestIdx (24 * k) ps q] ∈ ps := List.getElem_mem hlt
    obtain ⟨a, ha, hax⟩ := List.mem_map.1 (mem_dedupFirst.1 hmem)
    rw [hgd, ← hax, ← boxDist_red_right] at h
    rcases hfar a ha with he | hf
    · exact ⟨a, ha, he⟩
    · omega
  · rintro ⟨g, hg, hgq⟩
    have hmem : img g k (0, 0, 0) p ∈ ps := by
      rw [hps, mem_dedupFirst, List.mem_map]; exact ⟨g, hg, rfl⟩
    have hmin := nearestIdx_min (24 * k) ps q _ hmem
    have hcell := img_inCell g hk (0, 0, 0) p
    have h0 : boxDist (24 * k) (img g k (0, 0, 0) p) q = 0 := by
      have e1 : boxDist (24 * k) (img g k (0, 0, 0) p) q = boxDist (24 * k) (img g k (0, 0, 0) p) (red k q) :=
        (boxDist_red_right k _ q).symm
      have e2 : red k q = img g k (0, 0, 0) p := hgq.symm
      rw [e1, e2]
      exact boxDist_self hcell
    omega

/-! ### the names of the position parameters are distinct -/

theorem posNamesAux_spec : ∀ (rows : List (Vec3 Con.Q)) (used names : List (List Char)),
    Con.posNamesAux used rows = some names →
      names.length = rows.length ∧ names.Nodup ∧ (∀ c ∈ names, c ∉ used) ∧
      ∀ c ∈ names, c ∈ ([['x'], ['y'], ['z']] : List (List Char))
  | [], used, names, h => by
    simp only [Con.posNamesAux, Option.some.injEq] at h
    subst h; simp
  | v :: rows, used, names, h => by
    simp only [Con.posNamesAux] at h
    cases hf : Con.firstNZ v with
    | none => rw [hf] at h; exact absurd h (by simp)
    | some idx =>
      simp only [hf, Option.bind_some] at h
      cases hh : (List.filter (fun s => !used.contains s) (List.drop idx [['x'], ['y'], ['z']])).head? with
      | none => rw [hh] at h; exact absurd h (by simp)
      | some c =>
        simp only [hh, Option.bind_some] at h
        cases hr : Con.posNamesAux (used ++ [c]) rows with
        | none => rw [hr] at h; exact absurd h (by simp)
        | some cs =>
          simp only [hr, Option.map_some, Option.some.injEq] at h
          subst h
          obtain ⟨h1, h2, h3, h4⟩ := posNamesAux_spec rows (used ++ [c]) cs hr
          have hcm := List.mem_of_mem_head? hh
          rw [List.mem_filter] at hcm
          have hcu : c ∉ used := by simpa using hcm.2
          have hcx : c ∈ ([['x'], ['y'], ['z']] : List (List Char)) := List.mem_of_mem_drop hcm.1
          refine ⟨by simp [h1], ?_, ?_, ?_⟩
          · rw [List.nodup_cons]
            exact ⟨fun hc => (h3 c hc) (by simp), h2⟩
          · intro d hd
            rcases List.mem_cons.1 hd with rfl | hd
            · exact hcu
            · intro hdu; exact h3 d hd (by simp [hdu])
          · intro d hd
            rcases List.mem_cons.1 hd with rfl | hd
            · exact hcx
            · exact h4 d hd

/-- **the parameter names of a site are one per free direction, pairwise distinct, and among `x`, `y`, `z`** — so the symbols
`x<i>`, `y<i>`, `z<i>` of a generator denote different parameters and the formula pieces of `Con.posPieces` can be evaluated by
`Con.evalFormula` with one value per free direction -/
theorem posNames_spec (rows : List (Vec3 Con.Q)) (names : List (List Char)) (h : Con.posNames rows = some names) :
    names.length = rows.length ∧ names.Nodup ∧ ∀ c ∈ names, c ∈ ([['x'], ['y'], ['z']] : List (List Char)) := by
  obtain ⟨h1, h2, _, h4⟩ := posNamesAux_spec rows [] names h
  exact ⟨h1, h2, h4⟩

end orbit

end DS.ConTie
