import DS.Model.Parsers
/-!
# Which exception kinds the parser models can raise

`RaisesIn S m`: if the computation `m` ends with an exception, its kind is in `S`.  The calculus below
is compositional over `bind`, `if`, `match`; per format the lemma `…Body_raises` states that the body
of the outer `try` raises only kinds of `needed… ++ [SFE, NotImpl]` (for *every* abstract document and
every value of the oracle fields), and `witness…_raises` that each needed kind is raised by some
document.  No Mathlib import is needed here.
-/
namespace DS.Parsers

universe u

def RaisesIn {α : Type u} (S : List Kind) (m : M α) : Prop := ∀ k, m = .error k → k ∈ S

namespace RaisesIn
variable {α β : Type u} {S : List Kind}

theorem ok (a : α) : RaisesIn S (.ok a : M α) := by intro k h; cases h
theorem pure (a : α) : RaisesIn S (Pure.pure a : M α) := by intro k h; cases h
theorem error {k : Kind} (h : k ∈ S) : RaisesIn S (.error k : M α) := by
  intro k' h'; cases h'; exact h
theorem raise {k : Kind} (h : k ∈ S) : RaisesIn S (DS.Parsers.raise k : M α) := error h

theorem bind {m : M α} {f : α → M β} (hm : RaisesIn S m) (hf : ∀ a, RaisesIn S (f a)) :
    RaisesIn S (m >>= f) := by
  intro k h
  cases m with
  | error e =>
    have h' : e = k := by simpa [Bind.bind, Except.bind] using h
    exact h' ▸ hm e rfl
  | ok a => exact hf a k (by simpa [Bind.bind, Except.bind] using h)

theorem ite {c : Prop} [Decidable c] {a b : M α} (ha : RaisesIn S a) (hb : RaisesIn S b) :
    RaisesIn S (if c then a else b) := by
  split <;> assumption

theorem map {m : M α} {f : α → β} (h : RaisesIn S m) : RaisesIn S (m.map f) := by
  intro k hk
  cases m with
  | ok a => simp [Except.map] at hk
  | error e => simp only [Except.map] at hk; cases hk; exact h k rfl

theorem mono {T : List Kind} {m : M α} (h : RaisesIn S m) (hST : ∀ k, k ∈ S → k ∈ T) : RaisesIn T m :=
  fun k hk => hST k (h k hk)

/-- inside `try … except H: raise SFE` -/
theorem tryExcept {H : List Kind} {m : M α} (hS : Kind.SFE ∈ S) (hm : ∀ k, m = .error k → k ∈ H ∨ k ∈ S) :
    RaisesIn S (DS.Parsers.tryExcept H m) := by
  intro k h
  cases m with
  | ok a => simp [DS.Parsers.tryExcept] at h
  | error e =>
    simp only [DS.Parsers.tryExcept] at h
    split at h
    · cases h; exact hS
    · cases h
      rcases hm k rfl with h1 | h1
      · contradiction
      · exact h1

theorem tryExcept_of {H : List Kind} {m : M α} (hS : Kind.SFE ∈ S) (hm : RaisesIn S m) :
    RaisesIn S (DS.Parsers.tryExcept H m) :=
  tryExcept hS (fun k hk => Or.inr (hm k hk))

theorem trySwallow_of {H : List Kind} {m : M Unit} (hm : RaisesIn S m) :
    RaisesIn S (DS.Parsers.trySwallow H m) := by
  intro k h
  cases m with
  | ok a => simp [DS.Parsers.trySwallow] at h
  | error e =>
    simp only [DS.Parsers.trySwallow] at h
    split at h
    · cases h
    · cases h; exact hm k rfl

theorem trySwallow {H : List Kind} {m : M Unit} (hm : ∀ k, m = .error k → k ∈ H ∨ k ∈ S) :
    RaisesIn S (DS.Parsers.trySwallow H m) := by
  intro k h
  cases m with
  | ok a => simp [DS.Parsers.trySwallow] at h
  | error e =>
    simp only [DS.Parsers.trySwallow] at h
    split at h
    · cases h
    · cases h
      rcases hm k rfl with h1 | h1
      · contradiction
      · exact h1

end RaisesIn

/-- one step of the syntax-directed proof search -/
macro "raises_step" : tactic => `(tactic| with_reducible first
  | exact RaisesIn.pure _
  | exact RaisesIn.ok _
  | exact RaisesIn.raise (by assumption)
  | exact RaisesIn.error (by assumption)
  | assumption
  | apply_assumption
  | refine RaisesIn.bind ?_ (fun _ => ?_)
  | refine RaisesIn.ite ?_ ?_
  | refine RaisesIn.map ?_
  | split
  | dsimp only)

macro "raises" : tactic => `(tactic| repeat raises_step)

section prims
variable {S : List Kind}

theorem idx_raises {α} (l : List α) (i : Nat) (hI : Kind.IndexError ∈ S) : RaisesIn S (idx l i) := by
  unfold idx; raises

theorem pyFloat_raises (t : Tok) (hV : Kind.ValueError ∈ S) : RaisesIn S (pyFloat t) := by
  unfold pyFloat; raises

theorem pyInt_raises (t : Tok) (hV : Kind.ValueError ∈ S) : RaisesIn S (pyInt t) := by
  unfold pyInt; raises

theorem floats_raises (ts : List Tok) (hV : Kind.ValueError ∈ S) : RaisesIn S (floats ts) := by
  induction ts with
  | nil => unfold floats; raises
  | cons t ts ih =>
    unfold floats
    have := pyFloat_raises t hV
    raises

theorem ints_raises (ts : List Tok) (hV : Kind.ValueError ∈ S) : RaisesIn S (ints ts) := by
  induction ts with
  | nil => unfold ints; raises
  | cons t ts ih =>
    unfold ints
    have := pyInt_raises t hV
    raises

theorem floatAt_raises (l : List Tok) (i : Nat) (hV : Kind.ValueError ∈ S) (hI : Kind.IndexError ∈ S) :
    RaisesIn S (floatAt l i) := by
  unfold floatAt
  have := idx_raises l i hI
  have := fun t => pyFloat_raises t hV
  raises

theorem latRun_raises (o : LatOut) (hV : Kind.ValueError ∈ S) (hZ : Kind.ZeroDivisionError ∈ S)
    (hL : o = .latticeError → Kind.LatticeError ∈ S) : RaisesIn S o.run := by
  cases o <;> unfold LatOut.run
  · raises
  · raises
  · raises
  · exact RaisesIn.raise (hL rfl)

theorem parRun_raises (o : ParOut) (hV : Kind.ValueError ∈ S) (hZ : Kind.ZeroDivisionError ∈ S) :
    RaisesIn S o.run := by
  cases o <;> unfold ParOut.run <;> raises

theorem mulFloatInt_raises (n : Int) (hO : Kind.OverflowError ∈ S) : RaisesIn S (mulFloatInt n) := by
  unfold mulFloatInt; raises

theorem pyProduct_raises (b : Bool) (l : List Int) (hT : b = false → Kind.TypeError ∈ S) :
    RaisesIn S (pyProduct b l) := by
  unfold pyProduct
  split
  · exact RaisesIn.raise (hT rfl)
  · raises

theorem nextLine_raises {α} (l : List α) (hSt : Kind.StopIteration ∈ S) : RaisesIn S (nextLine l) := by
  unfold nextLine; raises

theorem step_raises (o : Option Kind) (h : ∀ k, o = some k → k ∈ S) : RaisesIn S (step o) := by
  unfold step
  split
  · raises
  · exact RaisesIn.raise (h _ rfl)

end prims

/-! ## PDFfit -/
section pdffit
variable {S : List Kind}

theorem latticeCtor_raises (n : Nat) (o : ParOut) (hV : Kind.ValueError ∈ S) (hZ : Kind.ZeroDivisionError ∈ S) :
    RaisesIn S (latticeCtor n o) := by
  unfold latticeCtor
  have := parRun_raises o hV hZ
  raises

theorem pdffitShape_raises (l : Line) (hF : Kind.SFE ∈ S) (hV : Kind.ValueError ∈ S) (hI : Kind.IndexError ∈ S) :
    RaisesIn S (pdffitShape l) := by
  unfold pdffitShape
  have := fun (l : List Tok) i => idx_raises (S := S) l i hI
  have := fun l i => floatAt_raises (S := S) l i hV hI
  raises

theorem pdffitHeader_raises (ls : List Line) (st : PState) (hF : Kind.SFE ∈ S) (hV : Kind.ValueError ∈ S)
    (hI : Kind.IndexError ∈ S) (hZ : Kind.ZeroDivisionError ∈ S) : RaisesIn S (pdffitHeader ls st) := by
  induction ls generalizing st with
  | nil => unfold pdffitHeader; raises
  | cons l rest ih =>
    unfold pdffitHeader
    have := fun (l : List Tok) i => idx_raises (S := S) l i hI
    have := fun l i => floatAt_raises (S := S) l i hV hI
    have := fun ts => floats_raises (S := S) ts hV
    have := fun ts => ints_raises (S := S) ts hV
    have := fun n o => latticeCtor_raises (S := S) n o hV hZ
    have := pdffitShape_raises l hF hV hI
    raises

theorem pdffitAtoms_raises (fuel : Nat) (ls : List Line) (n : Nat) (hV : Kind.ValueError ∈ S)
    (hI : Kind.IndexError ∈ S) (hSt : Kind.StopIteration ∈ S) : RaisesIn S (pdffitAtoms fuel ls n) := by
  induction fuel generalizing ls n with
  | zero => unfold pdffitAtoms; raises
  | succ fuel ih =>
    have := fun (l : List Tok) i => idx_raises (S := S) l i hI
    have := fun l i => floatAt_raises (S := S) l i hV hI
    have := fun ts => floats_raises (S := S) ts hV
    have := fun (l : List Line) => nextLine_raises (S := S) l hSt
    cases ls with
    | nil => unfold pdffitAtoms; raises
    | cons l1 rest =>
      unfold pdffitAtoms
      raises

theorem superStep_raises (nl : Nat) (ncell : List Int) (i : Nat) (hI : Kind.IndexError ∈ S)
    (hO : Kind.OverflowError ∈ S) : RaisesIn S (superStep nl ncell i) := by
  unfold superStep
  exact RaisesIn.ite (RaisesIn.raise hI) (RaisesIn.bind (idx_raises _ _ hI) (fun n => mulFloatInt_raises n hO))

theorem superCell_raises (nl : Nat) (ncell : List Int) (o : ParOut) (hV : Kind.ValueError ∈ S)
    (hI : Kind.IndexError ∈ S) (hZ : Kind.ZeroDivisionError ∈ S) (hO : Kind.OverflowError ∈ S) :
    RaisesIn S (superCell nl ncell o) := by
  unfold superCell
  have := fun i => superStep_raises (S := S) nl ncell i hI hO
  have := parRun_raises o hV hZ
  raises

/-- the body of the outer `try` of `P_pdffit.parseLines` raises only these kinds, for every document -/
theorem pdffitBody_raises (cfg : PdffitCfg) (d : PdffitDoc) (hF : Kind.SFE ∈ S)
    (hN : ∀ k, k ∈ neededPdffit cfg → k ∈ S) : RaisesIn S (pdffitBody cfg d) := by
  have hV : Kind.ValueError ∈ S := hN _ (by simp [neededPdffit])
  have hI : Kind.IndexError ∈ S := hN _ (by simp [neededPdffit])
  have hSt : Kind.StopIteration ∈ S := hN _ (by simp [neededPdffit])
  have hZ : Kind.ZeroDivisionError ∈ S := hN _ (by simp [neededPdffit])
  have hO : Kind.OverflowError ∈ S := hN _ (by simp [neededPdffit])
  have hT : cfg.reduceInit = false → Kind.TypeError ∈ S := fun h => hN _ (by simp [neededPdffit, h])
  unfold pdffitBody
  have := fun ls st => pdffitHeader_raises (S := S) ls st hF hV hI hZ
  have := fun l => pyProduct_raises (S := S) cfg.reduceInit l hT
  have := fun f ls n => pdffitAtoms_raises (S := S) f ls n hV hI hSt
  have := fun nl nc o => superCell_raises (S := S) nl nc o hV hI hZ hO
  raises

end pdffit

/-! ## DISCUS -/
section discus
variable {S : List Kind}

theorem discusShape_raises (l : Line) (hF : Kind.SFE ∈ S) (hV : Kind.ValueError ∈ S) (hI : Kind.IndexError ∈ S) :
    RaisesIn S (discusShape l) := by
  unfold discusShape
  have := fun (l : List Tok) i => idx_raises (S := S) l i hI
  have := fun l i => floatAt_raises (S := S) l i hV hI
  raises

theorem discusHeader_raises (cfg : DiscusCfg) (ls : List Line) (st : DState) (hF : Kind.SFE ∈ S)
    (hNI : Kind.NotImpl ∈ S) (hV : Kind.ValueError ∈ S) (hI : Kind.IndexError ∈ S)
    (hZ : Kind.ZeroDivisionError ∈ S) : RaisesIn S (discusHeader cfg ls st) := by
  induction ls generalizing st with
  | nil => unfold discusHeader; raises
  | cons l rest ih =>
    unfold discusHeader
    have := fun (l : List Tok) i => idx_raises (S := S) l i hI
    have := fun ts => floats_raises (S := S) ts hV
    have := fun ts => ints_raises (S := S) ts hV
    have := RaisesIn.tryExcept_of (H := cfg.Hcell) hF (parRun_raises l.lat hV hZ)
    have := discusShape_raises l hF hV hI
    raises

theorem discusAtoms_raises (ls : List Line) (n : Nat) (hV : Kind.ValueError ∈ S) (hI : Kind.IndexError ∈ S) :
    RaisesIn S (discusAtoms ls n) := by
  induction ls generalizing n with
  | nil => unfold discusAtoms; raises
  | cons l rest ih =>
    unfold discusAtoms
    have := fun l i => floatAt_raises (S := S) l i hV hI
    have := fun ts => floats_raises (S := S) ts hV
    raises

theorem discusBody_raises (cfg : DiscusCfg) (d : DiscusDoc) (hF : Kind.SFE ∈ S) (hNI : Kind.NotImpl ∈ S)
    (hN : ∀ k, k ∈ neededDiscus cfg → k ∈ S) : RaisesIn S (discusBody cfg d) := by
  have hV : Kind.ValueError ∈ S := hN _ (by simp [neededDiscus])
  have hI : Kind.IndexError ∈ S := hN _ (by simp [neededDiscus])
  have hZ : Kind.ZeroDivisionError ∈ S := hN _ (by simp [neededDiscus])
  have hO : Kind.OverflowError ∈ S := hN _ (by simp [neededDiscus])
  have hT : cfg.reduceInit = false → Kind.TypeError ∈ S := fun h => hN _ (by simp [neededDiscus, h])
  unfold discusBody
  have := fun ls st => discusHeader_raises (S := S) cfg ls st hF hNI hV hI hZ
  have := fun l => pyProduct_raises (S := S) cfg.reduceInit l hT
  have := fun ls n => discusAtoms_raises (S := S) ls n hV hI
  have := fun nl nc o => superCell_raises (S := S) nl nc o hV hI hZ hO
  raises

end discus

/-! ## XYZ and RAWXYZ -/
section xyz
variable {S : List Kind}

theorem xyzTitle_raises (cfg : XyzCfg) (ls : List WLine) (start : Nat) (hI : Kind.IndexError ∈ S) :
    RaisesIn S (xyzTitle cfg ls start) := by
  unfold xyzTitle
  have := fun (l : List WLine) i => idx_raises (S := S) l i hI
  raises

theorem xyzHead_raises (cfg : XyzCfg) (ls : List WLine) (start : Nat) (hF : Kind.SFE ∈ S) (hV : Kind.ValueError ∈ S)
    (hI : Kind.IndexError ∈ S) : RaisesIn S (xyzHead cfg ls start) := by
  unfold xyzHead
  have := xyzTitle_raises cfg ls start hI
  have := fun (l : List WLine) i => idx_raises (S := S) l i hI
  have := fun (l : List Tok) i => idx_raises (S := S) l i hI
  have := fun t => pyInt_raises (S := S) t hV
  raises

theorem xyzRecords_raises (nf : Nat) (ls : List WLine) (n : Nat) (hF : Kind.SFE ∈ S) (hV : Kind.ValueError ∈ S) :
    RaisesIn S (xyzRecords nf ls n) := by
  induction ls generalizing n with
  | nil => unfold xyzRecords; raises
  | cons l rest ih =>
    unfold xyzRecords
    have := fun ts => floats_raises (S := S) ts hV
    raises

theorem rawRecords_raises (nf x0 : Nat) (ls : List WLine) (hF : Kind.SFE ∈ S) (hV : Kind.ValueError ∈ S) :
    RaisesIn S (rawRecords nf x0 ls) := by
  induction ls with
  | nil => unfold rawRecords; raises
  | cons l rest ih =>
    unfold rawRecords
    have := fun ts => floats_raises (S := S) ts hV
    raises

end xyz

/-! ## XCFG -/
section xcfg
variable {S : List Kind}

theorem tokAt_raises (t : Option Tok) (hI : Kind.IndexError ∈ S) : RaisesIn S (tokAt t) := by
  unfold tokAt; raises

theorem digitRun_raises (d : DigitRes) (hV : Kind.ValueError ∈ S) (hI : Kind.IndexError ∈ S) : RaisesIn S d.run := by
  cases d <;> unfold DigitRes.run <;> raises

theorem h0Index_raises (d : Nat) (hI : Kind.IndexError ∈ S) : RaisesIn S (h0Index d) := by
  unfold h0Index; raises

theorem auxOutRun_raises (o : AuxOut) (hV : Kind.ValueError ∈ S) (hI : Kind.IndexError ∈ S)
    (hT : Kind.TypeError ∈ S) (hA : Kind.AttributeError ∈ S) : RaisesIn S o.run := by
  cases o <;> unfold AuxOut.run <;> raises

theorem auxRun_raises (l : List (Nat × AuxOut)) (hV : Kind.ValueError ∈ S) (hI : Kind.IndexError ∈ S)
    (hT : Kind.TypeError ∈ S) (hA : Kind.AttributeError ∈ S) : RaisesIn S (auxRun l) := by
  induction l with
  | nil => unfold auxRun; raises
  | cons p ps ih =>
    unfold auxRun
    have := auxOutRun_raises p.2 hV hI hT hA
    raises

theorem xcfgFindNumber_raises (ls : List XLine) (hF : Kind.SFE ∈ S) (hV : Kind.ValueError ∈ S)
    (hI : Kind.IndexError ∈ S) : RaisesIn S (xcfgFindNumber ls) := by
  induction ls with
  | nil => unfold xcfgFindNumber; raises
  | cons l rest ih =>
    unfold xcfgFindNumber
    have := fun t => tokAt_raises (S := S) t hI
    have := fun t => pyInt_raises (S := S) t hV
    raises

theorem xcfgHeader_raises (ls : List XLine) (st : XState) (hV : Kind.ValueError ∈ S)
    (hI : Kind.IndexError ∈ S) : RaisesIn S (xcfgHeader ls st) := by
  induction ls generalizing st with
  | nil => unfold xcfgHeader; raises
  | cons l rest ih =>
    unfold xcfgHeader
    have := fun t => tokAt_raises (S := S) t hI
    have := fun t => pyInt_raises (S := S) t hV
    have := fun t => pyFloat_raises (S := S) t hV
    have := fun d => digitRun_raises (S := S) d hV hI
    have := fun d => h0Index_raises (S := S) d hI
    raises

theorem xcfgData_raises (aSet : Bool) (ec : Int) (aux : List (Nat × AuxOut)) (ls : List XLine) (e : Bool) (n : Nat)
    (hF : Kind.SFE ∈ S) (hV : Kind.ValueError ∈ S) (hI : Kind.IndexError ∈ S) (hT : Kind.TypeError ∈ S)
    (hA : Kind.AttributeError ∈ S) : RaisesIn S (xcfgData aSet ec aux ls e n) := by
  induction ls generalizing e n with
  | nil => unfold xcfgData; raises
  | cons l rest ih =>
    unfold xcfgData
    have := auxRun_raises aux hV hI hT hA
    raises

theorem xcfgFill_raises (st : XState) (hR : Kind.Resource ∈ S) : RaisesIn S (xcfgFill st) := by
  unfold xcfgFill; raises

theorem xcfgEntryCount_raises (st : XState) (hF : Kind.SFE ∈ S) : RaisesIn S (xcfgEntryCount st) := by
  unfold xcfgEntryCount; raises

theorem xcfgAfterHeader_raises (cfg : XcfgCfg) (d : XcfgDoc) (na : Int) (st : XState) (rest : List XLine)
    (hF : Kind.SFE ∈ S) (hN : ∀ k, k ∈ neededXcfg cfg → k ∈ S) : RaisesIn S (xcfgAfterHeader cfg d na st rest) := by
  have hV : Kind.ValueError ∈ S := hN _ (by simp [neededXcfg])
  have hI : Kind.IndexError ∈ S := hN _ (by simp [neededXcfg])
  have hT : Kind.TypeError ∈ S := hN _ (by simp [neededXcfg])
  have hZ : Kind.ZeroDivisionError ∈ S := hN _ (by simp [neededXcfg])
  have hL : Kind.LatticeError ∈ S := hN _ (by simp [neededXcfg])
  have hA : Kind.AttributeError ∈ S := hN _ (by simp [neededXcfg])
  have hR : Kind.Resource ∈ S := hN _ (by simp [neededXcfg])
  unfold xcfgAfterHeader
  have := xcfgFill_raises st hR
  have := xcfgEntryCount_raises st hF
  have := latRun_raises d.baseLat hV hZ (fun _ => hL)
  have := fun a e x l b n => xcfgData_raises (S := S) a e x l b n hF hV hI hT hA
  raises

theorem xcfgBody_raises (cfg : XcfgCfg) (d : XcfgDoc) (hF : Kind.SFE ∈ S)
    (hN : ∀ k, k ∈ neededXcfg cfg → k ∈ S) : RaisesIn S (xcfgBody cfg d) := by
  have hV : Kind.ValueError ∈ S := hN _ (by simp [neededXcfg])
  have hI : Kind.IndexError ∈ S := hN _ (by simp [neededXcfg])
  unfold xcfgBody
  have := fun ls => xcfgFindNumber_raises (S := S) ls hF hV hI
  have := fun ls st => xcfgHeader_raises (S := S) ls st hV hI
  have := fun na st rest => xcfgAfterHeader_raises (S := S) cfg d na st rest hF hN
  raises

end xcfg

/-! ## PDB -/
section pdb
variable {S : List Kind}

theorem pdbScaleRow_raises (l : PLine) (hV : Kind.ValueError ∈ S) : RaisesIn S (pdbScaleRow l) := by
  unfold pdbScaleRow; raises

theorem pdbNoAtom_raises (cfg : PdbCfg) (hF : Kind.SFE ∈ S) (hA : cfg.guard = false → Kind.AttributeError ∈ S)
    (hU : cfg.lastAtomInit = false → Kind.UnboundLocalError ∈ S) : RaisesIn S (pdbNoAtom cfg) := by
  unfold pdbNoAtom
  split
  · raises
  · split
    · exact RaisesIn.raise (hA (by simpa using ‹¬cfg.guard = true›))
    · exact RaisesIn.raise (hU (by simpa using ‹¬cfg.lastAtomInit = true›))

theorem pdbGuard_raises (cfg : PdbCfg) (last : Option Bool) (hF : Kind.SFE ∈ S)
    (hU : cfg.lastAtomInit = false → Kind.UnboundLocalError ∈ S) : RaisesIn S (pdbGuard cfg last) := by
  unfold pdbGuard
  split
  · split
    · raises
    · exact RaisesIn.raise (hU (by simpa using ‹¬cfg.lastAtomInit = true›))
  · raises

theorem optCol_raises (H : List Kind) (b : Bool) (hV : Kind.ValueError ∈ S) :
    RaisesIn S (trySwallow H (if b then pure () else raise .ValueError)) := by
  apply RaisesIn.trySwallow_of
  raises

theorem pdbLoopK_raises (kU : Kind) (cfg : PdbCfg) (ls : List PLine) (last : Option Bool) (hF : Kind.SFE ∈ S)
    (hNI : Kind.NotImpl ∈ S) (hK : kU ∈ S) (hN : ∀ k, k ∈ neededPdb cfg → k ≠ .AttributeError → k ∈ S)
    (hA : cfg.guard = false → Kind.AttributeError ∈ S) :
    RaisesIn S (pdbLoopK kU cfg ls last) := by
  have hV : Kind.ValueError ∈ S := hN _ (by simp [neededPdb]) (by decide)
  have hI : Kind.IndexError ∈ S := hN _ (by simp [neededPdb]) (by decide)
  have hZ : Kind.ZeroDivisionError ∈ S := hN _ (by simp [neededPdb]) (by decide)
  have hL : Kind.LatticeError ∈ S := hN _ (by simp [neededPdb]) (by decide)
  have hU : cfg.lastAtomInit = false → Kind.UnboundLocalError ∈ S :=
    fun h => hN _ (by simp [neededPdb, h]) (by decide)
  induction ls generalizing last with
  | nil => unfold pdbLoopK; raises
  | cons l rest ih =>
    unfold pdbLoopK
    have := latRun_raises l.lat hV hZ (fun _ => hL)
    have := pdbScaleRow_raises l hV
    have := pdbNoAtom_raises cfg hF hA hU
    have := pdbGuard_raises cfg last hF hU
    have := fun b => optCol_raises (S := S) cfg.Hopt b hV
    raises

theorem pdbLoop_raises (cfg : PdbCfg) (ls : List PLine) (last : Option Bool) (hF : Kind.SFE ∈ S)
    (hNI : Kind.NotImpl ∈ S) (hN : ∀ k, k ∈ neededPdb cfg → k ∈ S) : RaisesIn S (pdbLoop cfg ls last) :=
  pdbLoopK_raises _ cfg ls last hF hNI (hN _ (by simp [neededPdb])) (fun k hk _ => hN k hk)
    (fun _ => hN _ (by simp [neededPdb]))

/-- a document in which every SIGUIJ follows a SIGATM of the same atom never reads an unset `sigU` -/
theorem pdbLoopK_ordered (k1 k2 : Kind) (cfg : PdbCfg) (ls : List PLine) (last : Option Bool)
    (h : pdbOrdered ls last = true) : pdbLoopK k1 cfg ls last = pdbLoopK k2 cfg ls last := by
  induction ls generalizing last with
  | nil => unfold pdbLoopK; rfl
  | cons l rest ih =>
    unfold pdbLoopK
    unfold pdbOrdered at h
    cases hk : l.kind <;> simp only [hk] at h ⊢
    all_goals first
      | rw [ih _ h]
      | skip
    · -- sigatm
      cases last with
      | none => rfl
      | some s => simp only [Option.map] at h; dsimp only; simp only [ih _ h]
    · -- anisou
      cases last with
      | none => rfl
      | some s => dsimp only; simp only [ih _ h]
    · -- siguij
      simp only [Bool.and_eq_true, bne_iff_ne, ne_eq] at h
      cases last with
      | none => rfl
      | some s =>
        cases s with
        | false => exact absurd rfl h.1
        | true => dsimp only; simp only [Bool.not_true, Bool.false_eq_true, ↓reduceIte, ih _ h.2]

end pdb

/-! ## CIF glue -/
section cif
variable {S : List Kind}

theorem optIn_mem {o : Option Kind} {T : List Kind} (h : optIn o T = true) : ∀ k, o = some k → k ∈ T := by
  intro k hk
  subst hk
  simpa [optIn] using h

theorem cifBlock_raises (cfg : CifCfg) (b : CifBlock) (hF : Kind.SFE ∈ S)
    (hN : ∀ k, k ∈ neededCif → k ∈ S) (hb : b.wf = true) : RaisesIn S (cifBlock cfg b) := by
  simp only [CifBlock.wf, Bool.and_eq_true] at hb
  have h1 : RaisesIn S (tryExcept cfg.Hlat (step b.cellItems)) :=
    RaisesIn.tryExcept_of hF (step_raises _ (fun k hk => hN k (by
      have := optIn_mem hb.1.1.1.1 k hk
      exact (by decide : ∀ k, k ∈ cifCellKinds → k ∈ neededCif) k this)))
  have h2 : RaisesIn S (step b.lattice) := step_raises _ (fun k hk => hN k (by
      have := optIn_mem hb.1.1.1.2 k hk
      exact (by decide : ∀ k, k ∈ cifLatticeKinds → k ∈ neededCif) k this))
  have h3 : RaisesIn S (step b.sites) := step_raises _ (fun k hk => hN k (by
      have := optIn_mem hb.1.1.2 k hk
      exact (by decide : ∀ k, k ∈ cifSitesKinds → k ∈ neededCif) k this))
  have h4 : RaisesIn S (step b.aniso) := step_raises _ (fun k hk => hN k (by
      have := optIn_mem hb.1.2 k hk
      exact (by decide : ∀ k, k ∈ cifAnisoKinds → k ∈ neededCif) k this))
  have h5 : RaisesIn S (step b.symops) := step_raises _ (fun k hk => by
      have := optIn_mem hb.2 k hk
      simp only [cifSymopsKinds, List.mem_cons] at this
      rcases this with h | h | h | h | h | h | h | h
      · subst h; exact hF
      all_goals first | (subst h; exact hN _ (by simp [neededCif])) | cases h)
  unfold cifBlock
  raises

theorem cifBlocks_raises (cfg : CifCfg) (bs : List CifBlock) (hF : Kind.SFE ∈ S)
    (hN : ∀ k, k ∈ neededCif → k ∈ S) (hwf : bs.all CifBlock.wf = true) : RaisesIn S (cifBlocks cfg bs) := by
  induction bs with
  | nil => unfold cifBlocks; raises
  | cons b rest ih =>
    unfold cifBlocks
    simp only [List.all_cons, Bool.and_eq_true] at hwf
    have ih := ih hwf.2
    have := cifBlock_raises cfg b hF hN hwf.1
    raises

theorem cifBody_raises (cfg : CifCfg) (d : CifDoc) (hF : Kind.SFE ∈ S)
    (hN : ∀ k, k ∈ neededCif → k ∈ S) (hwf : d.wf = true) : RaisesIn S (cifBody cfg d) := by
  unfold cifBody
  simp only [CifDoc.wf, Bool.and_eq_true] at hwf
  have h1 : RaisesIn S (step d.cifFile) := step_raises _ (fun k hk => hN k (by
    have := optIn_mem hwf.1 k hk
    exact (by decide : ∀ k, k ∈ cifFileKinds → k ∈ neededCif) k this))
  have := cifBlocks_raises cfg d.blocks hF hN hwf.2
  raises

end cif

/-! ## From "raises only" to the outcome of `parse` -/

/-- kinds of `needed` that the handler tuple `H` lacks -/
def missingKinds (needed H : List Kind) : List Kind := needed.filter (fun k => !H.contains k)

theorem mem_missingKinds {needed H : List Kind} {k : Kind} :
    k ∈ missingKinds needed H ↔ k ∈ needed ∧ k ∉ H := by
  simp [missingKinds]

/-- what is left after `try … except H`: the needed kinds that `H` lacks, plus whatever was allowed to pass -/
theorem RaisesIn.tryExcept_missing {α : Type u} {needed H R : List Kind} {m : M α} (hF : Kind.SFE ∈ R)
    (hm : RaisesIn (needed ++ R) m) : RaisesIn (missingKinds needed H ++ R) (DS.Parsers.tryExcept H m) := by
  refine RaisesIn.tryExcept (List.mem_append_right _ hF) (fun k hk => ?_)
  have := hm k hk
  by_cases hH : k ∈ H
  · exact Or.inl hH
  · right
    rcases List.mem_append.mp this with h | h
    · exact List.mem_append_left _ (mem_missingKinds.mpr ⟨h, hH⟩)
    · exact List.mem_append_right _ h

def passKinds : List Kind := [.SFE, .NotImpl]

theorem allowed_or_of_raises {T : List Kind} {m : M Unit} (h : RaisesIn (T ++ passKinds) m) :
    (toOutcome m).allowed = true ∨ ∃ k, k ∈ T ∧ toOutcome m = .err k := by
  cases m with
  | ok a => left; rfl
  | error k =>
    have hk := h k rfl
    rcases List.mem_append.mp hk with h1 | h1
    · right; exact ⟨k, h1, rfl⟩
    · left
      simp only [passKinds, List.mem_cons, List.not_mem_nil, or_false] at h1
      rcases h1 with rfl | rfl <;> rfl

theorem mem_append_pass {needed S : List Kind} :
    ∀ k, k ∈ needed → k ∈ needed ++ S := fun _ h => List.mem_append_left _ h

/-! ### per format: outcome is allowed, or is one of the missing kinds -/

theorem parsePdffit_cases (cfg : PdffitCfg) (d : PdffitDoc) :
    (parsePdffit cfg d).allowed = true ∨
      ∃ k, k ∈ missingKinds (neededPdffit cfg) cfg.H ∧ parsePdffit cfg d = .err k := by
  have hb : RaisesIn (neededPdffit cfg ++ passKinds) (pdffitBody cfg d) :=
    pdffitBody_raises cfg d (by simp [passKinds]) mem_append_pass
  exact allowed_or_of_raises (RaisesIn.tryExcept_missing (by simp [passKinds]) hb)

theorem parseDiscus_cases (cfg : DiscusCfg) (d : DiscusDoc) :
    (parseDiscus cfg d).allowed = true ∨
      ∃ k, k ∈ missingKinds (neededDiscus cfg) cfg.H ∧ parseDiscus cfg d = .err k := by
  have hb : RaisesIn (neededDiscus cfg ++ passKinds) (discusBody cfg d) :=
    discusBody_raises cfg d (by simp [passKinds]) (by simp [passKinds]) mem_append_pass
  exact allowed_or_of_raises (RaisesIn.tryExcept_missing (by simp [passKinds]) hb)

theorem parseXcfg_cases (cfg : XcfgCfg) (d : XcfgDoc) :
    (parseXcfg cfg d).allowed = true ∨
      ∃ k, k ∈ missingKinds (neededXcfg cfg) cfg.H ∧ parseXcfg cfg d = .err k := by
  have hb : RaisesIn (neededXcfg cfg ++ passKinds) (xcfgBody cfg d) :=
    xcfgBody_raises cfg d (by simp [passKinds]) mem_append_pass
  exact allowed_or_of_raises (RaisesIn.tryExcept_missing (by simp [passKinds]) hb)

theorem parsePdb_cases (cfg : PdbCfg) (d : PdbDoc) :
    (parsePdb cfg d).allowed = true ∨
      ∃ k, k ∈ missingKinds (neededPdb cfg) cfg.H ∧ parsePdb cfg d = .err k := by
  have hb : RaisesIn (neededPdb cfg ++ passKinds) (pdbLoop cfg d.lines none) :=
    pdbLoop_raises cfg d.lines none (by simp [passKinds]) (by simp [passKinds]) mem_append_pass
  exact allowed_or_of_raises (RaisesIn.tryExcept_missing (by simp [passKinds]) hb)

/-- PDB documents in which every SIGUIJ follows a SIGATM of the same atom: with the `last_atom is None`
guard in place, `AttributeError` is not needed in the handler tuple -/
theorem parsePdb_cases_ordered (cfg : PdbCfg) (hg : cfg.guard = true) (d : PdbDoc)
    (ho : pdbOrdered d.lines none = true) :
    (parsePdb cfg d).allowed = true ∨
      ∃ k, k ∈ missingKinds ((neededPdb cfg).erase .AttributeError) cfg.H ∧ parsePdb cfg d = .err k := by
  have hb : RaisesIn ((neededPdb cfg).erase .AttributeError ++ passKinds) (pdbLoopK .SFE cfg d.lines none) :=
    pdbLoopK_raises .SFE cfg d.lines none (by simp [passKinds]) (by simp [passKinds]) (by simp [passKinds])
      (fun k hk hne => List.mem_append_left _ ((List.mem_erase_of_ne hne).mpr hk))
      (fun h => by simp [hg] at h)
  have he : pdbLoop cfg d.lines none = pdbLoopK .SFE cfg d.lines none := pdbLoopK_ordered _ _ cfg _ _ ho
  unfold parsePdb
  rw [he]
  exact allowed_or_of_raises (RaisesIn.tryExcept_missing (by simp [passKinds]) hb)

/-- XYZ has two `try` blocks; the code between them raises StructureFormatError only -/
theorem xyzRun_raises (cfg : XyzCfg) (d : XyzDoc) :
    RaisesIn ((missingKinds neededXyz1 cfg.H1 ++ missingKinds neededXyz2 cfg.H2) ++ passKinds) (xyzRun cfg d) := by
  have hF : Kind.SFE ∈ (missingKinds neededXyz1 cfg.H1 ++ missingKinds neededXyz2 cfg.H2) ++ passKinds := by
    simp [passKinds]
  have h1 : ∀ ls st, RaisesIn ((missingKinds neededXyz1 cfg.H1 ++ missingKinds neededXyz2 cfg.H2) ++ passKinds)
      (tryExcept cfg.H1 (xyzHead cfg ls st)) := by
    intro ls st
    have hb : RaisesIn (neededXyz1 ++ passKinds) (xyzHead cfg ls st) :=
      xyzHead_raises cfg ls st (by simp [passKinds]) (by simp [neededXyz1]) (by simp [neededXyz1])
    refine (RaisesIn.tryExcept_missing (H := cfg.H1) (by simp [passKinds]) hb).mono ?_
    intro k hk
    simp only [List.mem_append] at hk ⊢
    rcases hk with h | h
    · exact Or.inl (Or.inl h)
    · exact Or.inr h
  have h2 : ∀ nf ls n, RaisesIn ((missingKinds neededXyz1 cfg.H1 ++ missingKinds neededXyz2 cfg.H2) ++ passKinds)
      (tryExcept cfg.H2 (xyzRecords nf ls n)) := by
    intro nf ls n
    have hb : RaisesIn (neededXyz2 ++ passKinds) (xyzRecords nf ls n) :=
      xyzRecords_raises nf ls n (by simp [passKinds]) (by simp [neededXyz2])
    refine (RaisesIn.tryExcept_missing (H := cfg.H2) (by simp [passKinds]) hb).mono ?_
    intro k hk
    simp only [List.mem_append] at hk ⊢
    rcases hk with h | h
    · exact Or.inl (Or.inr h)
    · exact Or.inr h
  unfold xyzRun
  raises

theorem parseXyz_cases (cfg : XyzCfg) (d : XyzDoc) :
    (parseXyz cfg d).allowed = true ∨
      ∃ k, k ∈ missingKinds neededXyz1 cfg.H1 ++ missingKinds neededXyz2 cfg.H2 ∧ parseXyz cfg d = .err k :=
  allowed_or_of_raises (xyzRun_raises cfg d)

theorem rawxyzRun_raises (cfg : RawxyzCfg) (d : XyzDoc) :
    RaisesIn (missingKinds neededRawxyz cfg.H ++ passKinds) (rawxyzRun cfg d) := by
  have hF : Kind.SFE ∈ missingKinds neededRawxyz cfg.H ++ passKinds := by simp [passKinds]
  have h1 : ∀ nf x0 ls, RaisesIn (missingKinds neededRawxyz cfg.H ++ passKinds)
      (tryExcept cfg.H (rawRecords nf x0 ls)) := by
    intro nf x0 ls
    have hb : RaisesIn (neededRawxyz ++ passKinds) (rawRecords nf x0 ls) :=
      rawRecords_raises nf x0 ls (by simp [passKinds]) (by simp [neededRawxyz])
    exact RaisesIn.tryExcept_missing (H := cfg.H) (by simp [passKinds]) hb
  unfold rawxyzRun
  raises

theorem parseRawxyz_cases (cfg : RawxyzCfg) (d : XyzDoc) :
    (parseRawxyz cfg d).allowed = true ∨
      ∃ k, k ∈ missingKinds neededRawxyz cfg.H ∧ parseRawxyz cfg d = .err k :=
  allowed_or_of_raises (rawxyzRun_raises cfg d)

theorem parseCif_cases (cfg : CifCfg) (d : CifDoc) (hwf : d.wf = true) :
    (parseCif cfg d).allowed = true ∨
      ∃ k, k ∈ missingKinds neededCif cfg.H ∧ parseCif cfg d = .err k := by
  have hb : RaisesIn (neededCif ++ passKinds) (cifBody cfg d) :=
    cifBody_raises cfg d (by simp [passKinds]) mem_append_pass hwf
  have ht := RaisesIn.tryExcept_missing (H := cfg.H) (by simp [passKinds]) hb
  unfold parseCif
  cases hm : tryExcept cfg.H (cifBody cfg d) with
  | ok b => left; cases b <;> rfl
  | error k =>
    have hk := ht k hm
    rcases List.mem_append.mp hk with h1 | h1
    · right; exact ⟨k, h1, rfl⟩
    · left
      simp only [passKinds, List.mem_cons, List.not_mem_nil, or_false] at h1
      rcases h1 with rfl | rfl <;> rfl

theorem tryExcept_eq_ok {α : Type u} {H : List Kind} {m : M α} {a : α} (h : tryExcept H m = .ok a) : m = .ok a := by
  cases m with
  | ok b => simpa [tryExcept] using h
  | error k => simp only [tryExcept] at h; split at h <;> cases h

theorem cifBlocks_false (cfg : CifCfg) (bs : List CifBlock) (h : cifBlocks cfg bs = .ok false) :
    bs.all (fun b => !b.hasSites) = true := by
  induction bs with
  | nil => rfl
  | cons b rest ih =>
    unfold cifBlocks at h
    cases hs : b.hasSites with
    | false =>
      simp only [hs, Bool.not_false, ↓reduceIte] at h
      simp [hs, ih h]
    | true =>
      exfalso
      simp only [hs, Bool.not_true, Bool.false_eq_true, ↓reduceIte] at h
      cases hb : cifBlock cfg b <;> simp [hb, Except.map] at h

/-- `P_cif.parse` returns `None` only when PyCifRW succeeded and no block has `_atom_site_label` -/
theorem parseCif_none (cfg : CifCfg) (d : CifDoc) (h : parseCif cfg d = .none) :
    d.cifFile = none ∧ d.blocks.all (fun b => !b.hasSites) = true := by
  unfold parseCif at h
  have hb : cifBody cfg d = .ok false := by
    cases hm : tryExcept cfg.H (cifBody cfg d) with
    | error k => simp [hm] at h
    | ok b =>
      cases b with
      | true => simp [hm] at h
      | false => exact tryExcept_eq_ok hm
  unfold cifBody at hb
  cases hf : d.cifFile with
  | some k => simp [hf, step, raise, Bind.bind, Except.bind] at hb
  | none =>
    refine ⟨rfl, cifBlocks_false cfg _ ?_⟩
    simpa [hf, step, Bind.bind, Except.bind, Pure.pure, Except.pure] using hb

/-! ## Necessity: every needed kind is raised by a concrete document -/

theorem tryExcept_error_not_mem {α : Type u} {H : List Kind} {k : Kind} (h : k ∉ H) :
    tryExcept H (.error k : M α) = .error k := by
  simp [tryExcept, h]

set_option exponentiation.threshold 2000

theorem witnessPdffit_raises (cfg : PdffitCfg) :
    ∀ k, k ∈ neededPdffit cfg → ∃ d, witnessPdffit k = some d ∧ pdffitBody cfg d = .error k := by
  intro k hk
  rcases cfg with ⟨H, ri⟩
  cases ri <;> simp [neededPdffit] at hk <;> rcases hk with rfl | rfl | rfl | rfl | rfl | rfl <;>
    exact ⟨_, rfl, rfl⟩

theorem witnessDiscus_raises (cfg : DiscusCfg) :
    ∀ k, k ∈ neededDiscus cfg → ∃ d, witnessDiscus k = some d ∧ discusBody cfg d = .error k := by
  intro k hk
  rcases cfg with ⟨H, Hc, ri⟩
  cases ri <;> simp [neededDiscus] at hk <;> rcases hk with rfl | rfl | rfl | rfl | rfl <;>
    exact ⟨_, rfl, rfl⟩

theorem witnessXcfg_raises (cfg : XcfgCfg) :
    ∀ k, k ∈ neededXcfg cfg → ∃ d, witnessXcfg k = some d ∧ xcfgBody cfg d = .error k := by
  intro k hk
  rcases cfg with ⟨H, ca, ef⟩
  cases ca <;> cases ef <;> simp [neededXcfg] at hk <;> rcases hk with rfl | rfl | rfl | rfl | rfl | rfl | rfl <;>
    exact ⟨_, rfl, rfl⟩

theorem witnessPdb_raises (cfg : PdbCfg) :
    ∀ k, k ∈ neededPdb cfg → ∃ d, witnessPdb k = some d ∧ pdbLoop cfg d.lines none = .error k := by
  intro k hk
  rcases cfg with ⟨H, Ho, gd, li⟩
  cases gd <;> cases li <;> simp [neededPdb] at hk <;> rcases hk with rfl | rfl | rfl | rfl | rfl | rfl <;>
    exact ⟨_, rfl, rfl⟩

/-- for CIF the witnesses are abstract (PyCifRW is a parameter): a well-formed abstract document -/
theorem witnessCif_raises (cfg : CifCfg) (hA : Kind.AttributeError ∉ cfg.Hlat) :
    ∀ k, k ∈ neededCif → ∃ d, witnessCif k = some d ∧ d.wf = true ∧ cifBody cfg d = .error k := by
  intro k hk
  simp [neededCif] at hk
  rcases hk with rfl | rfl | rfl | rfl | rfl | rfl | rfl | rfl
  · exact ⟨_, rfl, rfl, rfl⟩
  · exact ⟨_, rfl, rfl, rfl⟩
  · exact ⟨_, rfl, rfl, rfl⟩
  · exact ⟨_, rfl, rfl, rfl⟩
  · exact ⟨_, rfl, rfl, rfl⟩
  · exact ⟨_, rfl, rfl, rfl⟩
  · exact ⟨_, rfl, rfl, rfl⟩
  · refine ⟨_, rfl, rfl, ?_⟩
    -- AttributeError raised while reading the cell items passes the inner handler (it does not list it)
    simp [cifBody, cifBlocks, cifBlock, step, raise, tryExcept, hA, Bind.bind, Except.bind, Except.map, Pure.pure, Except.pure]

/-! ## The handler tuple is sufficient **and** necessary -/

theorem toOutcome_tryExcept_error {H : List Kind} {k : Kind} {m : M Unit} (hm : m = .error k) (h : k ∉ H) :
    toOutcome (tryExcept H m) = .err k := by
  subst hm; simp [tryExcept, h, toOutcome]

theorem parsePdffit_escapes (cfg : PdffitCfg) : ∀ k, k ∈ missingKinds (neededPdffit cfg) cfg.H →
    ∃ d, witnessPdffit k = some d ∧ parsePdffit cfg d = .err k := by
  intro k hk
  obtain ⟨hn, hH⟩ := mem_missingKinds.mp hk
  obtain ⟨d, hw, hb⟩ := witnessPdffit_raises cfg k hn
  exact ⟨d, hw, toOutcome_tryExcept_error hb hH⟩

theorem parseDiscus_escapes (cfg : DiscusCfg) : ∀ k, k ∈ missingKinds (neededDiscus cfg) cfg.H →
    ∃ d, witnessDiscus k = some d ∧ parseDiscus cfg d = .err k := by
  intro k hk
  obtain ⟨hn, hH⟩ := mem_missingKinds.mp hk
  obtain ⟨d, hw, hb⟩ := witnessDiscus_raises cfg k hn
  exact ⟨d, hw, toOutcome_tryExcept_error hb hH⟩

theorem parseXcfg_escapes (cfg : XcfgCfg) : ∀ k, k ∈ missingKinds (neededXcfg cfg) cfg.H →
    ∃ d, witnessXcfg k = some d ∧ parseXcfg cfg d = .err k := by
  intro k hk
  obtain ⟨hn, hH⟩ := mem_missingKinds.mp hk
  obtain ⟨d, hw, hb⟩ := witnessXcfg_raises cfg k hn
  exact ⟨d, hw, toOutcome_tryExcept_error hb hH⟩

theorem parsePdb_escapes (cfg : PdbCfg) : ∀ k, k ∈ missingKinds (neededPdb cfg) cfg.H →
    ∃ d, witnessPdb k = some d ∧ parsePdb cfg d = .err k := by
  intro k hk
  obtain ⟨hn, hH⟩ := mem_missingKinds.mp hk
  obtain ⟨d, hw, hb⟩ := witnessPdb_raises cfg k hn
  exact ⟨d, hw, toOutcome_tryExcept_error hb hH⟩

theorem parseCif_escapes (cfg : CifCfg) (hA : Kind.AttributeError ∉ cfg.Hlat) :
    ∀ k, k ∈ missingKinds neededCif cfg.H →
    ∃ d, witnessCif k = some d ∧ d.wf = true ∧ parseCif cfg d = .err k := by
  intro k hk
  obtain ⟨hn, hH⟩ := mem_missingKinds.mp hk
  obtain ⟨d, hw, hwf, hb⟩ := witnessCif_raises cfg hA k hn
  refine ⟨d, hw, hwf, ?_⟩
  simp [parseCif, hb, tryExcept, hH]

/-- generic packaging: `parse` is total iff no needed kind is missing from the handler tuple -/
theorem total_iff_of {δ : Type} (parse : δ → Outcome) (miss : List Kind)
    (hcases : ∀ d, (parse d).allowed = true ∨ ∃ k, k ∈ miss ∧ parse d = .err k)
    (hwit : ∀ k, k ∈ miss → ∃ d, parse d = .err k)
    (hna : ∀ k, k ∈ miss → (Outcome.err k).allowed = false) :
    (∀ d, (parse d).allowed = true) ↔ miss = [] := by
  constructor
  · intro h
    cases hm : miss with
    | nil => rfl
    | cons k ks =>
      exfalso
      have hk : k ∈ miss := by simp [hm]
      obtain ⟨d, hd⟩ := hwit k hk
      have := h d
      rw [hd, hna k hk] at this
      cases this
  · intro h d
    rcases hcases d with h1 | ⟨k, hk, _⟩
    · exact h1
    · simp [h] at hk

theorem needed_not_allowed {needed H : List Kind} (h : needed.all (fun k => !(Outcome.err k).allowed) = true) :
    ∀ k, k ∈ missingKinds needed H → (Outcome.err k).allowed = false := by
  intro k hk
  have := List.all_eq_true.mp h k (mem_missingKinds.mp hk).1
  simpa using this

theorem parsePdffit_total_iff (cfg : PdffitCfg) :
    (∀ d, (parsePdffit cfg d).allowed = true) ↔ missingKinds (neededPdffit cfg) cfg.H = [] :=
  total_iff_of _ _ (parsePdffit_cases cfg)
    (fun k hk => (parsePdffit_escapes cfg k hk).imp fun _ h => h.2)
    (needed_not_allowed (by rcases cfg with ⟨H, ri⟩; cases ri <;> rfl))

theorem parseDiscus_total_iff (cfg : DiscusCfg) :
    (∀ d, (parseDiscus cfg d).allowed = true) ↔ missingKinds (neededDiscus cfg) cfg.H = [] :=
  total_iff_of _ _ (parseDiscus_cases cfg)
    (fun k hk => (parseDiscus_escapes cfg k hk).imp fun _ h => h.2)
    (needed_not_allowed (by rcases cfg with ⟨H, Hc, ri⟩; cases ri <;> rfl))

theorem parseXcfg_total_iff (cfg : XcfgCfg) :
    (∀ d, (parseXcfg cfg d).allowed = true) ↔ missingKinds (neededXcfg cfg) cfg.H = [] :=
  total_iff_of _ _ (parseXcfg_cases cfg)
    (fun k hk => (parseXcfg_escapes cfg k hk).imp fun _ h => h.2)
    (needed_not_allowed (by rfl))

theorem parsePdb_total_iff (cfg : PdbCfg) :
    (∀ d, (parsePdb cfg d).allowed = true) ↔ missingKinds (neededPdb cfg) cfg.H = [] :=
  total_iff_of _ _ (parsePdb_cases cfg)
    (fun k hk => (parsePdb_escapes cfg k hk).imp fun _ h => h.2)
    (needed_not_allowed (by rcases cfg with ⟨H, Ho, gd, li⟩; cases gd <;> cases li <;> rfl))

/-- sufficiency alone, in the form used by the property file -/
theorem total_of_missing_nil {δ : Type} {parse : δ → Outcome} {miss : List Kind}
    (hcases : ∀ d, (parse d).allowed = true ∨ ∃ k, k ∈ miss ∧ parse d = .err k) (h : miss = []) :
    ∀ d, (parse d).allowed = true := by
  intro d
  rcases hcases d with h1 | ⟨k, hk, _⟩
  · exact h1
  · simp [h] at hk

/-- if all missing kinds are equal to `k0`, every document is allowed or ends with `k0` -/
theorem allowed_or_single {δ : Type} {parse : δ → Outcome} {miss : List Kind} {S : List Kind}
    (hcases : ∀ d, (parse d).allowed = true ∨ ∃ k, k ∈ miss ∧ parse d = .err k)
    (h : miss.all (fun k => S.contains k) = true) :
    ∀ d, (parse d).allowed = true ∨ ∃ k, k ∈ S ∧ parse d = .err k := by
  intro d
  rcases hcases d with h1 | ⟨k, hk, he⟩
  · exact Or.inl h1
  · right
    have := List.all_eq_true.mp h k hk
    exact ⟨k, by simpa using this, he⟩

end DS.Parsers
