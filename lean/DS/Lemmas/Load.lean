import DS.Model.Load
import Mathlib.Data.List.Perm.Basic
/-!
Helper lemmas about the loading model: sorting and reordering are permutations, the loop of the
automatic parser, attribute lookup through `setKey` / `update` / `replace`.
-/
namespace DS.Load

/-! ## sorting and reordering -/

theorem insertSorted_perm (a : String) (l : List String) : (insertSorted a l).Perm (a :: l) := by
  induction l with
  | nil => simp [insertSorted]
  | cons b l ih =>
    simp only [insertSorted]
    split
    · exact List.Perm.refl _
    · exact (List.Perm.cons b ih).trans (List.Perm.swap a b l)

theorem isort_perm (l : List String) : (isort l).Perm l := by
  induction l with
  | nil => exact List.Perm.refl _
  | cons a l ih => exact (insertSorted_perm a (isort l)).trans (List.Perm.cons a ih)

/-- the state of the reordering loop after the prefix `pre` has been processed -/
def arranged (m : String → Bool) (pre : List String) : List String :=
  (pre.filter m).reverse ++ pre.filter (fun f => !m f)

theorem reorder_aux (m : String → Bool) : ∀ (rest pre : List String), (pre ++ rest).Nodup →
    rest.foldl (fun acc f => if m f then f :: acc.erase f else acc) (arranged m pre ++ rest)
      = arranged m (pre ++ rest) := by
  intro rest
  induction rest with
  | nil => intro pre _; simp
  | cons f rest ih =>
    intro pre hnd
    have hnd' : ((pre ++ [f]) ++ rest).Nodup := by simpa using hnd
    have hf : f ∉ pre := by
      intro hmem
      have := List.nodup_append.mp hnd
      exact this.2.2 f hmem f (by simp) rfl
    have hfa : f ∉ arranged m pre := by
      intro hmem
      simp only [arranged, List.mem_append, List.mem_reverse, List.mem_filter] at hmem
      rcases hmem with h | h <;> exact hf h.1
    rw [List.foldl_cons]
    have key : (if m f then f :: (arranged m pre ++ f :: rest).erase f else arranged m pre ++ f :: rest)
        = arranged m (pre ++ [f]) ++ rest := by
      by_cases hm : m f = true
      · rw [if_pos hm, List.erase_append_right _ hfa]
        simp [arranged, List.filter_append, hm]
      · rw [if_neg hm]
        simp [arranged, List.filter_append, hm]
    rw [key, ih (pre ++ [f]) hnd']
    simp

/-- the reordering loop puts the matching formats first, in reverse sorted order, and keeps the others in order -/
theorem reorder_eq (m : String → Bool) (l : List String) (h : l.Nodup) :
    reorder m l = (l.filter m).reverse ++ l.filter (fun f => !m f) := by
  have := reorder_aux m l [] (by simpa using h)
  simpa [arranged, reorder] using this

theorem arranged_perm (m : String → Bool) (l : List String) : (arranged m l).Perm l := by
  unfold arranged
  exact (List.Perm.append_right _ (List.reverse_perm _)).trans (List.filter_append_perm m l)

theorem candidates_nodup (cfg : OrderCfg) (reg : Registry) (h : (reg.map (·.name)).Nodup) :
    (candidates cfg reg).Nodup := by
  unfold candidates inputFormats
  refine List.Nodup.sublist List.filter_sublist ?_
  apply (isort_perm _).nodup_iff.mpr
  exact List.Nodup.sublist ((List.filter_sublist (l := reg)).map _) h

theorem mem_candidates (cfg : OrderCfg) (reg : Registry) (f : String) :
    f ∈ candidates cfg reg ↔ (∃ e ∈ reg, e.hasInput = true ∧ e.name = f) ∧ f ∉ cfg.excluded := by
  unfold candidates inputFormats
  simp only [List.mem_filter, (isort_perm _).mem_iff, List.mem_map, Bool.not_eq_eq_eq_not, Bool.not_true,
    List.contains_eq_mem, decide_eq_false_iff_not]
  constructor
  · rintro ⟨⟨e, ⟨he, hi⟩, rfl⟩, hx⟩; exact ⟨⟨e, he, hi, rfl⟩, hx⟩
  · rintro ⟨⟨e, he, hi, rfl⟩, hx⟩; exact ⟨⟨e, ⟨he, hi⟩, rfl⟩, hx⟩

/-! ## the loop of the automatic parser -/

variable {R : Type}

/-- candidate `f` raised an exception that `_wrapParseMethod` swallows -/
def Swallowed (c : AutoCfg) (parse : String → Outcome R) (f : String) : Prop :=
  ∃ k m, parse f = .err k m ∧ c.handler k ≠ .escape

/-- the complaint line a candidate contributes, if its exception is *collected* -/
def line (c : AutoCfg) (parse : String → Outcome R) (f : String) : Option String :=
  match parse f with
  | .err k m => if c.handler k = .collect then some (c.complaint f m) else none
  | _ => none

/-- the complaints recorded for a list of candidates: one line per candidate whose exception is collected -/
def complaints (c : AutoCfg) (parse : String → Outcome R) (l : List String) : List String :=
  l.filterMap (line c parse)

/-- candidates whose exception is collected (they contribute a line) -/
def collected (c : AutoCfg) (parse : String → Outcome R) (f : String) : Bool := (line c parse f).isSome

theorem complaints_length (c : AutoCfg) (parse : String → Outcome R) (l : List String) :
    (complaints c parse l).length = (l.filter (collected c parse)).length := by
  induction l with
  | nil => rfl
  | cons f fs ih =>
    unfold complaints at ih ⊢
    cases h : line c parse f <;> simp [collected, h, ih]

theorem complaints_append (c : AutoCfg) (parse : String → Outcome R) (a b : List String) :
    complaints c parse (a ++ b) = complaints c parse a ++ complaints c parse b := by
  simp [complaints]

/-- swallowed candidates only extend the list of complaints -/
theorem autoLoop_swallowed (c : AutoCfg) (parse : String → Outcome R) :
    ∀ (pre rest msgs : List String), (∀ f ∈ pre, Swallowed c parse f) →
      autoLoop c parse (pre ++ rest) msgs = autoLoop c parse rest (msgs ++ complaints c parse pre) := by
  intro pre
  induction pre with
  | nil => intro rest msgs _; simp [complaints]
  | cons f fs ih =>
    intro rest msgs h
    obtain ⟨k, m, hp, hk⟩ := h f (by simp)
    have h' : ∀ g ∈ fs, Swallowed c parse g := fun g hg => h g (by simp [hg])
    simp only [List.cons_append, autoLoop, hp, complaints, List.filterMap_cons, line]
    cases hh : c.handler k with
    | escape => exact absurd hh hk
    | collect =>
      have := ih rest (msgs ++ [c.complaint f m]) h'
      simpa [complaints, List.append_assoc] using this
    | skip => simpa [complaints] using ih rest _ h'

/-- the loop returns `ok` only through a candidate that returned a structure, all earlier ones having been swallowed -/
theorem autoLoop_ok (c : AutoCfg) (parse : String → Outcome R) :
    ∀ (o msgs : List String) (f : String) (r : R), autoLoop c parse o msgs = .ok f r →
      ∃ pre post, o = pre ++ f :: post ∧ (∀ g ∈ pre, Swallowed c parse g) ∧ parse f = .ok r := by
  intro o
  induction o with
  | nil => intro msgs f r h; simp [autoLoop] at h
  | cons g gs ih =>
    intro msgs f r h
    simp only [autoLoop] at h
    cases hp : parse g with
    | ok r' =>
      rw [hp] at h
      dsimp only at h
      simp only [AutoResult.ok.injEq] at h
      obtain ⟨rfl, rfl⟩ := h
      exact ⟨[], gs, rfl, by simp, hp⟩
    | none => rw [hp] at h; simp at h
    | err k m =>
      rw [hp] at h
      dsimp only at h
      cases hk : c.handler k with
      | escape => rw [hk] at h; simp at h
      | collect =>
        rw [hk] at h
        obtain ⟨pre, post, rfl, hs, hf⟩ := ih _ f r h
        refine ⟨g :: pre, post, rfl, ?_, hf⟩
        intro x hx
        rcases List.mem_cons.mp hx with rfl | hx
        · exact ⟨k, m, hp, by simp [hk]⟩
        · exact hs x hx
      | skip =>
        rw [hk] at h
        obtain ⟨pre, post, rfl, hs, hf⟩ := ih _ f r h
        refine ⟨g :: pre, post, rfl, ?_, hf⟩
        intro x hx
        rcases List.mem_cons.mp hx with rfl | hx
        · exact ⟨k, m, hp, by simp [hk]⟩
        · exact hs x hx

/-! ## attribute lookup -/

theorem lookup_setKey {β : Type} (d : List (String × β)) (k k' : String) (v : β) :
    (setKey d k v).lookup k' = if k' = k then some v else d.lookup k' := by
  unfold setKey
  split
  · rename_i hany
    induction d with
    | nil => simp at hany
    | cons p d ih =>
      obtain ⟨pk, pv⟩ := p
      by_cases hpk : pk = k
      · subst hpk
        by_cases hk' : k' = pk
        · subst hk'; simp
        · have : (k' == pk) = false := by simpa using hk'
          simp only [List.map_cons, beq_self_eq_true, ↓reduceIte, List.lookup, this, hk']
          by_cases hany' : d.any (·.1 == pk) = true
          · simpa [hk'] using ih hany'
          · have hno : ∀ q ∈ d, ¬ q.1 = pk := by
              intro q hq hqk; apply hany'; exact List.any_eq_true.mpr ⟨q, hq, by simpa using hqk⟩
            have : d.map (fun p => if (p.1 == pk) = true then (pk, v) else p) = d := by
              conv_rhs => rw [← List.map_id d]
              apply List.map_congr_left
              intro q hq
              simp [hno q hq]
            rw [this]
      · have hany' : d.any (·.1 == k) = true := by
          simp only [List.any_cons, Bool.or_eq_true, beq_iff_eq] at hany
          rcases hany with h | h
          · exact absurd h hpk
          · exact h
        have hb : (pk == k) = false := by simpa using hpk
        simp only [List.map_cons, hb, Bool.false_eq_true, ↓reduceIte, List.lookup]
        by_cases hk' : k' = pk
        · subst hk'
          simp [hpk]
        · have : (k' == pk) = false := by simpa using hk'
          simp only [this]
          exact ih hany'
  · rename_i hany
    have hno : ∀ q ∈ d, ¬ q.1 = k := by
      intro q hq hqk; apply hany; exact List.any_eq_true.mpr ⟨q, hq, by simpa using hqk⟩
    induction d with
    | nil =>
      by_cases hk' : k' = k
      · subst hk'; simp
      · have : (k' == k) = false := by simpa using hk'
        simp [List.lookup, this, hk']
    | cons p d ih =>
      obtain ⟨pk, pv⟩ := p
      have hpk : ¬ pk = k := hno (pk, pv) (by simp)
      have hany' : ¬ d.any (·.1 == k) = true := by
        intro h; apply hany; simp only [List.any_cons, Bool.or_eq_true]; exact Or.inr h
      have hno' : ∀ q ∈ d, ¬ q.1 = k := fun q hq => hno q (by simp [hq])
      simp only [List.cons_append, List.lookup]
      by_cases hk' : k' = pk
      · subst hk'
        simp [hpk]
      · have : (k' == pk) = false := by simpa using hk'
        simp only [this]
        exact ih hany' hno'

theorem getattr_setKey (o : Obj) (k k' : String) (v : Val) :
    getattr { o with dict := setKey o.dict k v } k' = if k' = k then some v else getattr o k' := by
  unfold getattr
  simp only [lookup_setKey]
  by_cases h : k' = k <;> simp [h]

/-- `dict.update` with distinct keys: the new binding wins, other keys are kept -/
theorem lookup_update (n : Dict) : ∀ (d : Dict) (k : String), (n.map (·.1)).Nodup →
    (update d n).lookup k = match n.lookup k with | some v => some v | none => d.lookup k := by
  induction n with
  | nil => intro d k _; simp [update, List.lookup]
  | cons p n ih =>
    intro d k hnd
    obtain ⟨pk, pv⟩ := p
    have hnd' : (n.map (·.1)).Nodup := (List.nodup_cons.mp (by simpa using hnd)).2
    have hpk : pk ∉ n.map (·.1) := (List.nodup_cons.mp (by simpa using hnd)).1
    have hstep : update d ((pk, pv) :: n) = update (setKey d pk pv) n := by simp [update]
    rw [hstep, ih _ k hnd', lookup_setKey]
    by_cases hk : k = pk
    · subst hk
      have : n.lookup k = none := by
        rw [List.lookup_eq_none_iff]
        intro q hq
        have : ¬ k = q.1 := fun hqk => hpk (List.mem_map.mpr ⟨q, hq, hqk.symm⟩)
        simpa using this
      simp [this, List.lookup]
    · have hb : (k == pk) = false := by simpa using hk
      simp [List.lookup, hb, hk]

/-! ## attributes through the steps of `read` -/

theorem getattr_congr_dict (a b : Obj) (h : a.dict = b.dict) (k : String) : getattr a k = getattr b k := by
  unfold getattr; rw [h]

/-- attribute lookup after `__dict__.update(new.__dict__)` + slice assignment -/
theorem getattr_replace (o : Obj) (n : Parsed) (k : String) (hn : (n.dict.map (·.1)).Nodup) :
    getattr (replace o n) k = match n.dict.lookup k with | some v => some v | none => getattr o k := by
  unfold replace getattr
  simp only [lookup_update n.dict o.dict k hn]
  cases n.dict.lookup k <;> rfl

/-- `Structure.__init__(self)` touches no attribute other than a missing lattice -/
theorem getattr_init0_ne (fresh : Nat) (o : Obj) (k : String) (hk : k ≠ "_lattice") :
    getattr (init0 fresh o) k = getattr o k := by
  unfold init0
  split
  · unfold setLattice
    have := getattr_setKey o "_lattice" k (.lat fresh defaultLatticeValue)
    simp only [hk, if_false] at this
    rw [← this]
    exact getattr_congr_dict _ _ rfl k
  · rfl

theorem init0_cls (fresh : Nat) (o : Obj) : (init0 fresh o).cls = o.cls := by
  unfold init0; split <;> rfl

/-- every atom refers to the structure's own lattice object -/
def OwnLattice (o : Obj) : Prop := ∀ a ∈ o.atoms, a.lat = latIdOf (getattr o "_lattice")

theorem observe_own (o : Obj) : (observe o).atomsOwnLattice = true ↔ OwnLattice o := by
  simp [observe, OwnLattice]

theorem own_replace (o : Obj) (n : Parsed) : OwnLattice (replace o n) := by
  intro a ha
  simp only [replace, List.mem_map] at ha
  obtain ⟨b, _, rfl⟩ := ha
  exact congrArg latIdOf (getattr_congr_dict _ _ rfl "_lattice")

theorem replace_atoms (o : Obj) (n : Parsed) :
    (replace o n).atoms = n.atoms.map (fun a => { a with lat := latIdOf (getattr (replace o n) "_lattice") }) := by
  simp only [replace]
  apply List.map_congr_left
  intro a _
  exact congrArg (fun l => ({ a with lat := latIdOf l } : Atom)) (getattr_congr_dict _ _ rfl "_lattice")

theorem own_setKey (o : Obj) (k : String) (v : Val) (hk : k ≠ "_lattice") (h : OwnLattice o) :
    OwnLattice { o with dict := setKey o.dict k v } := by
  intro a ha
  have := getattr_setKey o k "_lattice" v
  simp only [Ne.symm hk, if_false] at this
  rw [this]
  exact h a ha

theorem own_init0 (fresh : Nat) (o : Obj) (h : OwnLattice o) : OwnLattice (init0 fresh o) := by
  unfold init0
  split
  · intro a ha
    simp only [setLattice, List.mem_map] at ha
    obtain ⟨b, _, rfl⟩ := ha
    have := getattr_setKey o "_lattice" "_lattice" (.lat fresh defaultLatticeValue)
    simp only [if_true] at this
    have hg : getattr (setLattice o (.lat fresh defaultLatticeValue)) "_lattice"
        = some (.lat fresh defaultLatticeValue) := by
      rw [← this]
      exact getattr_congr_dict _ _ rfl "_lattice"
    rw [hg]
  · exact h

theorem own_titleStep (fn : Option String) (o : Obj) (h : OwnLattice o) : OwnLattice (titleStep fn o) := by
  unfold titleStep
  cases fn with
  | none => exact h
  | some fn =>
    dsimp only
    split
    · exact h
    · exact own_setKey o "title" _ (by decide) h

theorem own_postStep (cls : Cls) (sg : Option String) (r : ReadOut) (h : OwnLattice r.obj) :
    OwnLattice (postStep cls sg r).obj := by
  unfold postStep
  split
  · split
    · exact own_setKey r.obj "pdffit" _ (by decide) h
    · exact h
  · exact h

/-- two objects that the property cannot tell apart -/
def Same (a b : Obj) : Prop :=
  a.atoms = b.atoms ∧ ∀ k ∈ ["_lattice", "title", "pdffit", "xcfg"], getattr a k = getattr b k

theorem observe_same (a b : Obj) (h : Same a b) : observe a = observe b := by
  obtain ⟨ha, hk⟩ := h
  have h1 := hk "_lattice" (by simp)
  have h2 := hk "title" (by simp)
  have h3 := hk "pdffit" (by simp)
  have h4 := hk "xcfg" (by simp)
  simp only [observe, ha, h1, h2, h3, h4]

theorem same_setKey (a b : Obj) (k : String) (v : Val) (h : Same a b) :
    Same { a with dict := setKey a.dict k v } { b with dict := setKey b.dict k v } := by
  refine ⟨h.1, ?_⟩
  intro k' hk'
  rw [getattr_setKey, getattr_setKey, h.2 k' hk']

theorem same_titleStep (fn : Option String) (a b : Obj) (h : Same a b) : Same (titleStep fn a) (titleStep fn b) := by
  unfold titleStep
  cases fn with
  | none => exact h
  | some fn =>
    dsimp only
    rw [h.2 "title" (by simp)]
    split
    · exact h
    · exact same_setKey a b "title" _ h

theorem same_postStep (cls : Cls) (sg : Option String) (ra rb : ReadOut) (he : ra.err = rb.err)
    (h : Same ra.obj rb.obj) :
    (postStep cls sg ra).err = (postStep cls sg rb).err ∧ Same (postStep cls sg ra).obj (postStep cls sg rb).obj := by
  unfold postStep
  rw [he, h.2 "pdffit" (by simp)]
  split
  · split
    · exact ⟨rfl, same_setKey _ _ "pdffit" _ h⟩
    · exact ⟨rfl, h⟩
  · exact ⟨he, h⟩

/-! ## when the post-step is the identity -/

theorem postStep_base (sg : Option String) (r : ReadOut) : postStep .base sg r = r := by
  unfold postStep; rfl

theorem postStep_nosg (cls : Cls) (r : ReadOut) : postStep cls none r = r := by
  unfold postStep
  cases cls <;> cases r.err <;> rfl

theorem postStep_err (cls : Cls) (sg : Option String) (r : ReadOut) (h : r.err ≠ none) : postStep cls sg r = r := by
  unfold postStep
  cases cls with
  | base => rfl
  | pdffit =>
    cases he : r.err with
    | none => exact absurd he h
    | some e => cases sg <;> rfl

theorem postStep_dict (cls : Cls) (sg : Option String) (r : ReadOut) (kv : List (String × String))
    (he : r.err = none) (h : getattr r.obj "pdffit" = some (.dict kv)) : (postStep cls sg r).err = none := by
  unfold postStep
  cases cls with
  | base => exact he
  | pdffit =>
    cases sg with
    | none => rw [he]; exact he
    | some sg => rw [he, h]

end DS.Load
