import DS.Model.SymText
/-!
Lemmas about the operator-text scanner (property C17a).  Core Lean only.
-/
namespace DS.SymText

theorem digit_alpha {c : Char} (h : c.isDigit = true) : inAlphabet c = true := by
  simp [inAlphabet, h]

theorem takeWhile_digits_alpha (cs : List Char) : ∀ c ∈ cs.takeWhile Char.isDigit, inAlphabet c = true := by
  intro c hc
  have hall : (cs.takeWhile Char.isDigit).all Char.isDigit = true := List.all_takeWhile
  exact digit_alpha (List.all_eq_true.mp hall c hc)

/-- a literal consumes a prefix made of digits and at most one dot -/
theorem scanLit_prefix {cs r : List Char} {v : Frac} (h : scanLit cs = some (v, r)) :
    ∃ pre, cs = pre ++ r ∧ (∀ c ∈ pre, inAlphabet c = true) ∧ 0 < v.den ∧ 0 ≤ v.num := by
  unfold scanLit at h
  dsimp only at h
  have hsplit : cs = cs.takeWhile Char.isDigit ++ cs.dropWhile Char.isDigit :=
    (List.takeWhile_append_dropWhile (p := Char.isDigit) (l := cs)).symm
  split at h
  · rename_i r2 hr1
    split at h
    · cases h
    · simp only [Option.some.injEq, Prod.mk.injEq] at h
      obtain ⟨hv, hr⟩ := h
      subst hv hr
      refine ⟨cs.takeWhile Char.isDigit ++ '.' :: r2.takeWhile Char.isDigit, ?_, ?_, ?_, ?_⟩
      · have h2 : r2 = r2.takeWhile Char.isDigit ++ r2.dropWhile Char.isDigit :=
          (List.takeWhile_append_dropWhile (p := Char.isDigit) (l := r2)).symm
        calc cs = cs.takeWhile Char.isDigit ++ cs.dropWhile Char.isDigit := hsplit
          _ = cs.takeWhile Char.isDigit ++ '.' :: r2 := by rw [hr1]
          _ = cs.takeWhile Char.isDigit ++ '.' :: (r2.takeWhile Char.isDigit ++ r2.dropWhile Char.isDigit) := by rw [← h2]
          _ = _ := by simp
      · intro c hc
        simp only [List.mem_append, List.mem_cons] at hc
        rcases hc with hc | rfl | hc
        · exact takeWhile_digits_alpha _ c hc
        · decide
        · exact takeWhile_digits_alpha _ c hc
      · exact Nat.pow_pos (by decide)
      · exact Int.natCast_nonneg _
  · rename_i hr1
    split at h
    · cases h
    · simp only [Option.some.injEq, Prod.mk.injEq] at h
      obtain ⟨hv, hr⟩ := h
      subst hv hr
      exact ⟨cs.takeWhile Char.isDigit, hsplit, takeWhile_digits_alpha _, Nat.one_pos, Int.natCast_nonneg _⟩

theorem scanQuot_prefix {cs r : List Char} {v : Frac} (h : scanQuot cs = some (v, r)) :
    ∃ pre, cs = pre ++ r ∧ (∀ c ∈ pre, inAlphabet c = true) ∧ 0 < v.den := by
  unfold scanQuot at h
  split at h
  · cases h
  · rename_i a r1 ha
    obtain ⟨p1, hp1, hal1, hd1, _⟩ := scanLit_prefix ha
    split at h
    · rename_i r' hr1
      split at h
      · cases h
      · rename_i b r'' hb
        obtain ⟨p2, hp2, hal2, hd2, _⟩ := scanLit_prefix hb
        split at h
        · cases h
        · rename_i hpos
          simp only [Option.some.injEq, Prod.mk.injEq] at h
          obtain ⟨hv, hr⟩ := h
          subst hv hr
          refine ⟨p1 ++ '/' :: p2, ?_, ?_, ?_⟩
          · rw [hp1, hp2]; simp
          · intro c hc
            simp only [List.mem_append, List.mem_cons] at hc
            rcases hc with hc | rfl | hc
            · exact hal1 c hc
            · decide
            · exact hal2 c hc
          · have hb' : 0 < b.num := by omega
            have : 0 < b.num.toNat := by omega
            exact Nat.mul_pos hd1 this
    · simp only [Option.some.injEq, Prod.mk.injEq] at h
      obtain ⟨hv, hr⟩ := h
      subst hv hr
      exact ⟨p1, hp1, hal1, hd1⟩

theorem axis_alpha {c : Char} {a : Nat} (h : axisOf c = some a) : inAlphabet c = true := by
  unfold axisOf at h
  split at h
  · rename_i hc; subst hc; decide
  · split at h
    · rename_i hc; subst hc; decide
    · split at h
      · rename_i hc; subst hc; decide
      · cases h

theorem sign_alpha {c : Char} (h : isSign c = true) : inAlphabet c = true := by
  simp only [isSign, Bool.or_eq_true, decide_eq_true_eq] at h
  rcases h with rfl | rfl <;> decide

/-- all denominators of the numbers of a token list are positive -/
def TokOK : List Tok → Prop
  | [] => True
  | .var _ _ :: r => TokOK r
  | .num v :: r => 0 < v.den ∧ TokOK r

/-- an accepted component consists of alphabet characters only, and its numbers are well formed -/
theorem scanRow_alphabet : ∀ (fuel : Nat) (first : Bool) (cs : List Char) (toks : List Tok),
    scanRow fuel first cs = some toks → (∀ c ∈ cs, inAlphabet c = true) ∧ TokOK toks := by
  intro fuel
  induction fuel with
  | zero => intro first cs toks h; simp [scanRow] at h
  | succ n ih =>
    intro first cs toks h
    unfold scanRow at h
    split at h
    · simp only [Option.some.injEq] at h; subst h; exact ⟨by simp, trivial⟩
    · rename_i c rest
      split at h
      · rename_i a ha
        simp only [Option.map_eq_some_iff] at h
        obtain ⟨t, ht, rfl⟩ := h
        obtain ⟨h1, h2⟩ := ih _ _ _ ht
        refine ⟨?_, h2⟩
        intro x hx
        rcases List.mem_cons.mp hx with rfl | hx
        · exact axis_alpha ha
        · exact h1 x hx
      · split at h
        · rename_i hs
          split at h
          · cases h
          · rename_i d rest'
            split at h
            · rename_i a ha
              simp only [Option.map_eq_some_iff] at h
              obtain ⟨t, ht, rfl⟩ := h
              obtain ⟨h1, h2⟩ := ih _ _ _ ht
              refine ⟨?_, h2⟩
              intro x hx
              rcases List.mem_cons.mp hx with rfl | hx
              · exact sign_alpha hs
              · rcases List.mem_cons.mp hx with rfl | hx
                · exact axis_alpha ha
                · exact h1 x hx
            · split at h
              · cases h
              · rename_i v r hq
                simp only [Option.map_eq_some_iff] at h
                obtain ⟨t, ht, rfl⟩ := h
                obtain ⟨h1, h2⟩ := ih _ _ _ ht
                obtain ⟨pre, hpre, hal, hden⟩ := scanQuot_prefix hq
                refine ⟨?_, ?_, h2⟩
                · intro x hx
                  rcases List.mem_cons.mp hx with rfl | hx
                  · exact sign_alpha hs
                  · rw [hpre] at hx
                    rcases List.mem_append.mp hx with hx | hx
                    · exact hal x hx
                    · exact h1 x hx
                · split <;> simpa [Frac.neg] using hden
        · split at h
          · split at h
            · cases h
            · rename_i v r hq
              simp only [Option.map_eq_some_iff] at h
              obtain ⟨t, ht, rfl⟩ := h
              obtain ⟨h1, h2⟩ := ih _ _ _ ht
              obtain ⟨pre, hpre, hal, hden⟩ := scanQuot_prefix hq
              refine ⟨?_, hden, h2⟩
              intro x hx
              rw [hpre] at hx
              rcases List.mem_append.mp hx with hx | hx
              · exact hal x hx
              · exact h1 x hx
          · cases h

theorem rowConst_den_pos : ∀ toks : List Tok, TokOK toks → 0 < (rowConst toks).den
  | [], _ => by decide
  | .var _ _ :: r, h => rowConst_den_pos r h
  | .num v :: r, h => by
    simp only [rowConst, Frac.add]
    exact Nat.mul_pos h.1 (rowConst_den_pos r h.2)

/-- `fract` lands in `[0, 1)` -/
theorem fract_range (a : Frac) (h : 0 < a.den) : 0 ≤ a.fract.num ∧ a.fract.num < a.fract.den ∧ a.fract.den = a.den := by
  simp only [Frac.fract]
  have hd : (a.den : Int) ≠ 0 := by omega
  exact ⟨Int.emod_nonneg _ hd, Int.emod_lt_of_pos _ (by omega), trivial⟩

/-- `fract a` and `a` differ by an integer -/
theorem fract_congr (a : Frac) : ∃ k : Int, a.num = a.fract.num + k * a.den := by
  refine ⟨a.num / a.den, ?_⟩
  simp only [Frac.fract]
  have := Int.emod_add_mul_ediv a.num a.den
  rw [Int.mul_comm] at this
  omega

end DS.SymText
