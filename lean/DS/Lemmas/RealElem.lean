import DS.Model.Lin
import Mathlib.Analysis.SpecialFunctions.Trigonometric.Inverse
import Mathlib.Tactic.Ring
import Mathlib.Tactic.FieldSimp
import Mathlib.Tactic.LinearCombination
import Mathlib.Algebra.Order.Floor.Ring

/-!
`Elem ℝ`: the instance at which the scalar-generic geometry models are reasoned about, and
basic matrix algebra lemmas over a commutative ring / field.
-/
namespace DS
open Real

noncomputable instance : Elem ℝ where
  sqrt := Real.sqrt
  cosd := fun x => Real.cos (x * π / 180)
  sind := fun x => Real.sin (x * π / 180)
  acosd := fun c => Real.arccos c * 180 / π
  floor := fun x => (⌊x⌋ : ℝ)
  ceil := fun x => (⌈x⌉ : ℝ)

namespace Mat3
variable {R : Type} [CommRing R]

@[ext] theorem ext' {m n : Mat3 R} (h11 : m.a11 = n.a11) (h12 : m.a12 = n.a12) (h13 : m.a13 = n.a13)
    (h21 : m.a21 = n.a21) (h22 : m.a22 = n.a22) (h23 : m.a23 = n.a23)
    (h31 : m.a31 = n.a31) (h32 : m.a32 = n.a32) (h33 : m.a33 = n.a33) : m = n := by
  cases m; cases n; simp_all

theorem mul_assoc (a b c : Mat3 R) : (a.mul b).mul c = a.mul (b.mul c) := by
  apply ext' <;> simp only [mul] <;> ring

theorem mul_one (a : Mat3 R) : a.mul one = a := by
  apply ext' <;> simp only [mul, one] <;> ring

theorem one_mul (a : Mat3 R) : one.mul a = a := by
  apply ext' <;> simp only [mul, one] <;> ring

theorem transpose_mul (a b : Mat3 R) : (a.mul b).transpose = b.transpose.mul a.transpose := by
  apply ext' <;> simp only [mul, transpose] <;> ring

theorem transpose_transpose (a : Mat3 R) : a.transpose.transpose = a := rfl

theorem det_mul (a b : Mat3 R) : (a.mul b).det = a.det * b.det := by
  simp only [mul, det]; ring

theorem det_transpose (a : Mat3 R) : a.transpose.det = a.det := by
  simp only [transpose, det]; ring

theorem mul_adj (a : Mat3 R) : a.mul a.adj = smul a.det one := by
  apply ext' <;> simp only [mul, adj, smul, one, det] <;> ring

theorem adj_mul (a : Mat3 R) : a.adj.mul a = smul a.det one := by
  apply ext' <;> simp only [mul, adj, smul, one, det] <;> ring

theorem vecMul_mul (v : Vec3 R) (a b : Mat3 R) : vecMul (vecMul v a) b = vecMul v (a.mul b) := by
  cases v; simp only [vecMul, mul, Vec3.mk.injEq]; refine ⟨?_, ?_, ?_⟩ <;> ring

theorem vecMul_one (v : Vec3 R) : vecMul v one = v := by
  cases v; simp only [vecMul, one, Vec3.mk.injEq]; refine ⟨?_, ?_, ?_⟩ <;> ring

end Mat3

namespace Mat3
variable {K : Type} [Field K]

theorem mul_inv {a : Mat3 K} (h : a.det ≠ 0) : a.mul a.inv = one := by
  apply ext' <;> simp only [mul, inv, adj, one] <;> field_simp <;> simp only [det] <;> ring

theorem inv_mul {a : Mat3 K} (h : a.det ≠ 0) : a.inv.mul a = one := by
  apply ext' <;> simp only [mul, inv, adj, one] <;> field_simp <;> simp only [det] <;> ring

end Mat3
end DS
