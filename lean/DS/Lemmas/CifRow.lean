import DS.Model.CifRow
import DS.Lemmas.Adp

namespace DS.CifRow
open DS

section generic
variable {σ κ : Type} (f : σ → κ → σ) (R : σ → σ → Prop)

theorem foldl_rel_congr (Rcongr : ∀ a b x, R a b → R (f a x) (f b x)) :
    ∀ (l : List κ) (a b : σ), R a b → R (l.foldl f a) (l.foldl f b)
  | [], _, _, h => h
  | x :: l, a, b, h => foldl_rel_congr Rcongr l _ _ (Rcongr a b x h)

theorem perm_foldl_rel (Q : σ → List κ → Prop)
    (Rrefl : ∀ s, R s s) (Rtrans : ∀ a b c, R a b → R b c → R a c)
    (Rcongr : ∀ a b x, R a b → R (f a x) (f b x))
    (Qstep : ∀ s x l, Q s (x :: l) → Q (f s x) l)
    (Qswap : ∀ s x y l, Q s (x :: y :: l) → R (f (f s x) y) (f (f s y) x))
    (Qperm : ∀ s l l', l.Perm l' → Q s l → Q s l')
    {l l' : List κ} (h : l.Perm l') : ∀ s, Q s l → R (l.foldl f s) (l'.foldl f s) := by
  induction h with
  | nil => intro s _; exact Rrefl _
  | cons x _ ih => intro s hq; exact ih (f s x) (Qstep s x _ hq)
  | swap x y l =>
    intro s hq
    exact foldl_rel_congr f R Rcongr l _ _ (Qswap s y x l hq)
  | trans h1 _ ih1 ih2 =>
    intro s hq
    exact Rtrans _ _ _ (ih1 s hq) (ih2 s (Qperm s _ _ h1 hq))
end generic

/-! ### what can be read from an atom -/

/-- what can be read from the ADP/position state: with the flag off only `_U[0,0]` is meaningful
(every reader — `U`, `Uij`, `Uisoequiv`, `anisotropy = True` — derives the tensor from it) -/
def SObs (s t : AtomS ℝ) : Prop :=
  s.xyz = t.xyz ∧ s.aniso = t.aniso ∧ s.lat = t.lat ∧ (if s.aniso then s.U = t.U else s.U.a11 = t.U.a11)

theorem SObs.refl (s : AtomS ℝ) : SObs s s := ⟨rfl, rfl, rfl, by split <;> rfl⟩

theorem SObs.eq_of_aniso {s t : AtomS ℝ} (h : SObs s t) (ha : s.aniso = true) : s = t := by
  obtain ⟨h1, h2, h3, h4⟩ := h
  rw [ha] at h4
  simp only [if_true] at h4
  cases s; cases t; simp_all

theorem SObs.of_iso {s t : AtomS ℝ} (hs : s.aniso = false) (ht : t.aniso = false) (hx : s.xyz = t.xyz)
    (hl : s.lat = t.lat) (hu : s.U.a11 = t.U.a11) : SObs s t :=
  ⟨hx, by rw [hs, ht], hl, by rw [hs]; simpa using hu⟩

theorem SObs.a11 {s t : AtomS ℝ} (h : SObs s t) : s.U.a11 = t.U.a11 := by
  obtain ⟨_, _, _, h4⟩ := h
  split at h4
  · rw [h4]
  · exact h4

theorem SObs.trans {a b c : AtomS ℝ} (h1 : SObs a b) (h2 : SObs b c) : SObs a c := by
  cases ha : a.aniso with
  | true => rw [← h1.eq_of_aniso ha] at h2; exact h2
  | false =>
    have hb : b.aniso = false := by rw [← h1.2.1, ha]
    have hc : c.aniso = false := by rw [← h2.2.1, hb]
    exact SObs.of_iso ha hc (h1.1.trans h2.1) (h1.2.2.1.trans h2.2.2.1) (h1.a11.trans h2.a11)

/-- the readable tensor, `Uisoequiv` and the six `Uij` agree on observationally equal states -/
theorem SObs.getU {s t : AtomS ℝ} (h : SObs s t) : (s.getU).1 = (t.getU).1 := by
  cases ha : s.aniso with
  | true => rw [h.eq_of_aniso ha]
  | false =>
    have hb : t.aniso = false := by rw [← h.2.1, ha]
    simp only [AtomS.getU, ha, hb, Bool.false_eq_true, if_false, AtomS.latOf, h.a11, h.2.2.1]

theorem SObs.uisoequiv {s t : AtomS ℝ} (h : SObs s t) : s.uisoequiv = t.uisoequiv := by
  cases ha : s.aniso with
  | true => rw [h.eq_of_aniso ha]
  | false =>
    have hb : t.aniso = false := by rw [← h.2.1, ha]
    simp only [AtomS.uisoequiv, ha, hb, Bool.not_false, if_true, h.a11]

/-- a state-machine step that neither reads nor writes the position and respects `SObs` -/
structure AdpFn (f : AtomS ℝ → AtomS ℝ) : Prop where
  xyz : ∀ s, (f s).xyz = s.xyz
  lat : ∀ s, (f s).lat = s.lat
  indep : ∀ s x, f { s with xyz := x } = { f s with xyz := x }
  congr : ∀ s t, SObs s t → SObs (f s) (f t)

theorem setUiso_adpFn (v : ℝ) : AdpFn (AtomS.setUiso v) where
  xyz s := by simp only [AtomS.setUiso]; split_ifs <;> rfl
  lat s := by simp only [AtomS.setUiso]; split_ifs <;> rfl
  indep s x := by
    simp only [AtomS.setUiso, AtomS.uisoequiv, AtomS.latOf]; split_ifs <;> rfl
  congr s t h := by
    cases ha : s.aniso with
    | true => rw [h.eq_of_aniso ha]; exact SObs.refl _
    | false =>
      have hb : t.aniso = false := by rw [← h.2.1, ha]
      simp only [AtomS.setUiso, ha, hb, Bool.false_eq_true, if_false]
      exact SObs.of_iso rfl rfl h.1 h.2.2.1 (by simp [Mat3.set])

theorem setAniso_adpFn (b : Bool) : AdpFn (AtomS.setAniso b) where
  xyz s := by simp only [AtomS.setAniso, AtomS.getU]; split_ifs <;> rfl
  lat s := by simp only [AtomS.setAniso, AtomS.getU]; split_ifs <;> rfl
  indep s x := by
    simp only [AtomS.setAniso, AtomS.getU, AtomS.uisoequiv, AtomS.latOf]; split_ifs <;> rfl
  congr s t h := by
    cases ha : s.aniso with
    | true => rw [h.eq_of_aniso ha]; exact SObs.refl _
    | false =>
      have hb : t.aniso = false := by rw [← h.2.1, ha]
      cases b with
      | false =>
        have e1 : s.setAniso false = s := by simp [AtomS.setAniso, ha]
        have e2 : t.setAniso false = t := by simp [AtomS.setAniso, hb]
        rw [e1, e2]; exact h
      | true =>
        simp only [AtomS.setAniso, AtomS.getU, ha, hb, Bool.false_eq_true, if_false, beq_iff_eq, if_true,
          Bool.true_eq_false, AtomS.latOf]
        refine ⟨h.1, rfl, h.2.2.1, ?_⟩
        simp only [if_true, h.a11, h.2.2.1]

theorem setUij_adpFn (i j : Ix) (v : ℝ) : AdpFn (AtomS.setUij i j v) where
  xyz s := rfl
  lat s := rfl
  indep s x := rfl
  congr s t h := by
    cases ha : s.aniso with
    | true => rw [h.eq_of_aniso ha]; exact SObs.refl _
    | false =>
      have hb : t.aniso = false := by rw [← h.2.1, ha]
      refine SObs.of_iso ha hb h.1 h.2.2.1 ?_
      have := h.a11
      cases i <;> cases j <;> simp [AtomS.setUij, ha, hb, Mat3.set, this]


/-! ### atoms -/

/-- what can be read from an atom after the row phase -/
def ObsEq (a b : Atom ℝ) : Prop :=
  a.element = b.element ∧ a.label = b.label ∧ a.occ = b.occ ∧ SObs a.s b.s

theorem ObsEq.refl (a : Atom ℝ) : ObsEq a a := ⟨rfl, rfl, rfl, SObs.refl _⟩
theorem ObsEq.of_eq {a b : Atom ℝ} (h : a = b) : ObsEq a b := h ▸ ObsEq.refl a
theorem ObsEq.trans {a b c : Atom ℝ} (h1 : ObsEq a b) (h2 : ObsEq b c) : ObsEq a c :=
  ⟨h1.1.trans h2.1, h1.2.1.trans h2.2.1, h1.2.2.1.trans h2.2.2.1, h1.2.2.2.trans h2.2.2.2⟩

/-- the part of the atom an effect writes: 0 nothing, 1 element/label, 2 position, 3 occupancy, 4 displacement parameters -/
def Eff.kind : Eff ℝ → Nat
  | .nop => 0 | .names _ => 1 | .pos _ => 2 | .occ _ => 3 | .adp _ => 4

/-- the displacement-parameter effects are steps of the `atom.py` state machine that ignore the position -/
def Eff.WF : Eff ℝ → Prop
  | .adp f => AdpFn f
  | _ => True

theorem eff_wf (it : Item) (v : Value ℝ) : (eff it v).WF := by
  cases it <;> simp only [eff, Eff.WF] <;>
    first | trivial | exact setUiso_adpFn _ | exact setAniso_adpFn _ | exact setUij_adpFn _ _ _

theorem pos_adp_comm (f : Option (LatData ℝ) → Vec3 ℝ → Vec3 ℝ) {g : AtomS ℝ → AtomS ℝ} (hg : AdpFn g) (a : Atom ℝ) :
    Atom.movePos f (Atom.liftS g a) = Atom.liftS g (Atom.movePos f a) := by
  have e := hg.indep a.s (f a.s.lat a.s.xyz)
  simp only [Atom.movePos, Atom.liftS, hg.lat, hg.xyz]
  rw [e]
  simp only [hg.lat]

/-- effects on different parts of the atom commute -/
theorem Eff.run_comm {e1 e2 : Eff ℝ} (h1 : e1.WF) (h2 : e2.WF) (hk : e1.kind ≠ e2.kind) (a : Atom ℝ) :
    e1.run (e2.run a) = e2.run (e1.run a) := by
  cases e1 <;> cases e2 <;> simp only [Eff.kind, ne_eq, not_true_eq_false] at hk <;>
    first
    | rfl
    | exact pos_adp_comm _ h2 a
    | exact (pos_adp_comm _ h1 a).symm

/-- every effect maps observationally equal atoms to observationally equal atoms -/
theorem Eff.run_congr {e : Eff ℝ} (he : e.WF) {a b : Atom ℝ} (h : ObsEq a b) : ObsEq (e.run a) (e.run b) := by
  obtain ⟨h1, h2, h3, h4⟩ := h
  cases e with
  | nop => exact ⟨h1, h2, h3, h4⟩
  | names f => exact ⟨by simp only [Eff.run, h1, h2], by simp only [Eff.run, h1, h2], h3, h4⟩
  | pos f =>
    refine ⟨h1, h2, h3, ?_⟩
    obtain ⟨x, y, z, w⟩ := h4
    exact ⟨by simp only [Eff.run, Atom.movePos, x, z], y, z, w⟩
  | occ v => exact ⟨h1, h2, rfl, h4⟩
  | adp f => exact ⟨h1, h2, h3, he.congr _ _ h4⟩

/-! ### exchanging two displacement-parameter steps -/

/-- the three kinds of steps of the ADP state machine the setters perform -/
inductive DOp where
  | iso (v : ℝ)
  | flag (b : Bool)
  | uij (p : Pair) (v : ℝ)

noncomputable def DOp.fn : DOp → AtomS ℝ → AtomS ℝ
  | .iso v => AtomS.setUiso v
  | .flag b => AtomS.setAniso b
  | .uij p v => AtomS.setUij p.i p.j v

/-- writes `_U[0,0]` of an isotropic atom -/
def DOp.writer : DOp → Bool
  | .iso _ => true
  | .flag _ => false
  | .uij p _ => p == .p11 || p == .p22 || p == .p33

theorem setAniso_same {s : AtomS ℝ} {b : Bool} (h : s.aniso = b) : s.setAniso b = s := by
  simp [AtomS.setAniso, h]

theorem setAniso_aniso (s : AtomS ℝ) (b : Bool) : (s.setAniso b).aniso = b := by
  simp only [AtomS.setAniso, AtomS.getU]
  cases b <;> cases h : s.aniso <;> simp [h]

theorem setUiso_aniso (s : AtomS ℝ) (v : ℝ) : (s.setUiso v).aniso = s.aniso := by
  simp only [AtomS.setUiso]; split_ifs <;> rfl

/-- `U_iso` and a flag column commute (the flag may only be switched on) -/
theorem iso_flag_comm {s : AtomS ℝ} (hl : LatOK? s.lat) (v : ℝ) (b : Bool) (hb : s.aniso = true → b = true) :
    (s.setUiso v).setAniso b = (s.setAniso b).setUiso v := by
  cases ha : s.aniso with
  | true =>
    have : b = true := hb ha
    subst this
    rw [setAniso_same ha, setAniso_same (by rw [setUiso_aniso, ha])]
  | false =>
    cases b with
    | false => rw [setAniso_same ha, setAniso_same (by rw [setUiso_aniso, ha])]
    | true =>
      -- the state after switching the flag on: storage `u · isotropicunit`
      have hlo : LatOK s.latOf := by
        unfold AtomS.latOf
        cases h : s.lat with
        | none => exact latOK_cartesian
        | some l => exact hl l h
      set t : AtomS ℝ := s.setAniso true with ht
      have tU : t.U = Mat3.smul s.U.a11 s.latOf.isotropicunit := by
        simp [ht, AtomS.setAniso, AtomS.getU, ha]
      have ta : t.aniso = true := setAniso_aniso s true
      have tl : t.lat = s.lat := (setAniso_adpFn true).lat s
      have tlo : t.latOf = s.latOf := by unfold AtomS.latOf; rw [tl]
      have tinv : AdpInv t := ⟨by rw [tU]; exact Mat3.isSymm_smul _ hlo.iso_symm, by rw [tl]; exact hl⟩
      have tue : t.uisoequiv = s.U.a11 := AtomS.uisoequiv_of_iso_storage tinv ta _ (by rw [tU, tlo])
      have lhs : (s.setUiso v).setAniso true =
          { xyz := s.xyz, U := Mat3.smul v s.latOf.isotropicunit, aniso := true, lat := s.lat } := by
        simp [AtomS.setUiso, AtomS.setAniso, AtomS.getU, ha, Mat3.set, AtomS.latOf]
      rw [lhs]
      have tx : t.xyz = s.xyz := (setAniso_adpFn true).xyz s
      simp only [AtomS.setUiso, ta, if_true, tue, tlo]
      split_ifs with hlt
      · rw [tx, tl]
      · have hne : s.U.a11 ≠ 0 := by
          intro h0
          apply hlt
          rw [h0, absα_zero]
          exact eps_pos
        rw [tU, tx, tl]
        congr 1
        simp only [Mat3.scaleR, Mat3.smul]
        congr 1 <;> field_simp


theorem SObs.symm {s t : AtomS ℝ} (h : SObs s t) : SObs t s := by
  cases ha : s.aniso with
  | true => rw [h.eq_of_aniso ha]; exact SObs.refl _
  | false =>
    have hb : t.aniso = false := by rw [← h.2.1, ha]
    exact SObs.of_iso hb ha h.1.symm h.2.2.1.symm h.a11.symm

def Pair.diag : Pair → Bool
  | .p11 | .p22 | .p33 => true
  | _ => false

/-- when two displacement-parameter steps may be exchanged on a state whose flag is `an` -/
def DOK2 (an : Bool) : DOp → DOp → Prop
  | .iso _, .flag b => an = true → b = true
  | .flag b, .iso _ => an = true → b = true
  | .uij p _, .uij q _ => p ≠ q ∧ (an = true ∨ ¬(p.diag = true ∧ q.diag = true))
  | .uij _ _, .flag b => b = an
  | .flag b, .uij _ _ => b = an
  | .iso _, .uij p _ => an = false ∧ p.diag = false
  | .uij p _, .iso _ => an = false ∧ p.diag = false
  | .iso _, .iso _ => False
  | .flag _, .flag _ => False

theorem setUij_aniso (s : AtomS ℝ) (i j : Ix) (v : ℝ) : (s.setUij i j v).aniso = s.aniso := rfl

theorem uij_uij_comm_aniso {s : AtomS ℝ} (ha : s.aniso = true) {p q : Pair} (hpq : p ≠ q) (v w : ℝ) :
    (s.setUij p.i p.j v).setUij q.i q.j w = (s.setUij q.i q.j w).setUij p.i p.j v := by
  cases p <;> cases q <;> first | exact absurd rfl hpq | simp [AtomS.setUij, Mat3.set, ha, Pair.i, Pair.j]

theorem uij_uij_comm_iso {s : AtomS ℝ} (ha : s.aniso = false) {p q : Pair} (hpq : ¬(p.diag = true ∧ q.diag = true)) (v w : ℝ) :
    SObs ((s.setUij p.i p.j v).setUij q.i q.j w) ((s.setUij q.i q.j w).setUij p.i p.j v) := by
  refine SObs.of_iso ha ha rfl rfl ?_
  cases p <;> cases q <;> first | exact absurd ⟨rfl, rfl⟩ hpq | simp [AtomS.setUij, Mat3.set, ha, Pair.i, Pair.j]

theorem iso_uij_comm {s : AtomS ℝ} (ha : s.aniso = false) {p : Pair} (hp : p.diag = false) (v w : ℝ) :
    SObs ((s.setUiso v).setUij p.i p.j w) ((s.setUij p.i p.j w).setUiso v) := by
  refine SObs.of_iso (by rw [setUij_aniso, setUiso_aniso, ha]) (by rw [setUiso_aniso, setUij_aniso, ha]) ?_ ?_ ?_
  · rw [(setUij_adpFn _ _ _).xyz, (setUiso_adpFn _).xyz, (setUiso_adpFn _).xyz, (setUij_adpFn _ _ _).xyz]
  · rw [(setUij_adpFn _ _ _).lat, (setUiso_adpFn _).lat, (setUiso_adpFn _).lat, (setUij_adpFn _ _ _).lat]
  · cases p <;> first | exact absurd hp (by decide) | simp [AtomS.setUij, AtomS.setUiso, Mat3.set, ha, Pair.i, Pair.j]

theorem uij_flag_comm {s : AtomS ℝ} (p : Pair) (v : ℝ) :
    (s.setUij p.i p.j v).setAniso s.aniso = (s.setAniso s.aniso).setUij p.i p.j v := by
  rw [setAniso_same rfl, setAniso_same (setUij_aniso _ _ _ _)]

/-- two exchangeable displacement-parameter steps give the same readable state in either order -/
theorem dop_comm {s : AtomS ℝ} (hl : LatOK? s.lat) {d1 d2 : DOp} (h : DOK2 s.aniso d1 d2) :
    SObs (d2.fn (d1.fn s)) (d1.fn (d2.fn s)) := by
  cases d1 with
  | iso v =>
    cases d2 with
    | iso w => exact absurd h (by simp [DOK2])
    | flag b => simp only [DOK2] at h; simp only [DOp.fn]; rw [iso_flag_comm hl _ _ h]; exact SObs.refl _
    | uij p w => simp only [DOK2] at h; exact iso_uij_comm h.1 h.2 _ _
  | flag b =>
    cases d2 with
    | iso w => simp only [DOK2] at h; simp only [DOp.fn]; rw [iso_flag_comm hl _ _ h]; exact SObs.refl _
    | flag c => exact absurd h (by simp [DOK2])
    | uij p w => simp only [DOK2] at h; subst h; simp only [DOp.fn]; rw [uij_flag_comm]; exact SObs.refl _
  | uij p v =>
    cases d2 with
    | iso w => simp only [DOK2] at h; exact (iso_uij_comm h.1 h.2 _ _).symm
    | flag c => simp only [DOK2] at h; subst h; simp only [DOp.fn]; rw [uij_flag_comm]; exact SObs.refl _
    | uij q w =>
      simp only [DOK2] at h
      obtain ⟨hne, h2⟩ := h
      simp only [DOp.fn]
      cases ha : s.aniso with
      | true => rw [uij_uij_comm_aniso ha hne]; exact SObs.refl _
      | false =>
        rw [ha] at h2
        exact uij_uij_comm_iso ha (by simpa using h2) _ _

/-! ### the shape of a row -/

/-- the quantity a column gives (two spellings of one quantity share the slot) -/
inductive Slot where
  | label | type | pos (k : Ix) | iso | adp | occ | uij (p : Pair)
deriving DecidableEq, Repr

def slot : Item → Option Slot
  | .ignore => none
  | .label => some .label
  | .typeSymbol => some .type
  | .fract k => some (.pos k)
  | .cartn k => some (.pos k)
  | .uiso => some .iso
  | .biso => some .iso
  | .adpType => some .adp
  | .thermalType => some .adp
  | .occupancy => some .occ
  | .anisoU p => some (.uij p)
  | .anisoB p => some (.uij p)

def isFract : Item → Bool | .fract _ => true | _ => false
def isCartn : Item → Bool | .cartn _ => true | _ => false

/-- the step of the ADP state machine a column performs (`none`: the column does not touch the displacement parameters) -/
noncomputable def dop : Item → Value ℝ → Option DOp
  | .uiso, v => some (.iso (numOf v 0))
  | .biso, v => some (.iso (BtoU * numOf v 0))
  | .adpType, v => some (.flag (adpFlag v.text))
  | .thermalType, v => some (.flag (adpFlag v.text))
  | .anisoU p, v => some (.uij p (numOf v 0))
  | .anisoB p, v => some (.uij p (BtoU * numOf v 0))
  | _, _ => none

/-- kind of a displacement-parameter column, decidable part: 0 none, 1 iso value, 2 flag, 3 tensor component -/
inductive DKind where
  | iso | flag (b : Bool) | uij (p : Pair)
deriving DecidableEq, Repr

def dkind (it : Item) (text : String) : Option DKind :=
  match it with
  | .uiso | .biso => some .iso
  | .adpType | .thermalType => some (.flag (adpFlag text))
  | .anisoU p | .anisoB p => some (.uij p)
  | _ => none

def DKind.writer : DKind → Bool
  | .iso => true
  | .flag _ => false
  | .uij p => p.diag

/-- the displacement-parameter columns of a row applied to an atom whose flag is `an` can be taken in any order:
(A) only a `U/B_iso` value and an adp-type column, the latter not switching the flag off;
(B) flag on: tensor components and adp-type columns that keep it on;
(C) flag off and staying off: at most one column that writes the isotropic value (`U/B_iso`, `U/B_11`, `_22`, `_33`). -/
def DKind.isFlag : DKind → Bool | .flag _ => true | _ => false
def DKind.okA (an : Bool) : DKind → Bool | .iso => true | .flag b => !an || b | .uij _ => false
def DKind.okB : DKind → Bool | .iso => false | .flag b => b | .uij _ => true
def DKind.okC : DKind → Bool | .flag b => !b | _ => true

def DOK (an : Bool) (ks : List DKind) : Bool :=
  (ks.all (DKind.okA an) && decide ((ks.filter DKind.isFlag).length ≤ 1))
  || (an && ks.all DKind.okB)
  || (!an && ks.all DKind.okC && decide ((ks.filter DKind.writer).length ≤ 1))

/-- hypotheses of `row_col_perm` on the columns of a row applied to an atom whose flag is `an` -/
def RowShape (an : Bool) (cols : List (Col ℝ)) : Prop :=
  (cols.filterMap (fun c => slot c.1)).Nodup ∧
  ((∀ c ∈ cols, isFract c.1 = false) ∨ (∀ c ∈ cols, isCartn c.1 = false)) ∧
  ((∀ c ∈ cols, c.1 ≠ .label) ∨ (∀ c ∈ cols, c.1 = .typeSymbol → normSymbol c.2.text ≠ "")) ∧
  DOK an (cols.filterMap (fun c => dkind c.1 c.2.text)) = true

instance (an : Bool) (cols : List (Col ℝ)) : Decidable (RowShape an cols) := by
  unfold RowShape; infer_instance


theorem DOK_perm {an : Bool} {ks ks' : List DKind} (h : ks.Perm ks') : DOK an ks = DOK an ks' := by
  simp only [DOK, h.all_eq, (h.filter _).length_eq]

theorem DOK_sublist {an : Bool} {ks ks' : List DKind} (h : ks'.Sublist ks) (hk : DOK an ks = true) : DOK an ks' = true := by
  have hall : ∀ p : DKind → Bool, ks.all p = true → ks'.all p = true := fun p hp =>
    List.all_eq_true.2 fun x hx => List.all_eq_true.1 hp x (h.subset hx)
  have hlen : ∀ p : DKind → Bool, (ks.filter p).length ≤ 1 → (ks'.filter p).length ≤ 1 := fun p hp =>
    Nat.le_trans (h.filter p).length_le hp
  simp only [DOK, Bool.or_eq_true, Bool.and_eq_true, decide_eq_true_eq] at hk ⊢
  rcases hk with (⟨h1, h2⟩ | ⟨h1, h2⟩) | ⟨⟨h1, h2⟩, h3⟩
  · exact Or.inl (Or.inl ⟨hall _ h1, hlen _ h2⟩)
  · exact Or.inl (Or.inr ⟨h1, hall _ h2⟩)
  · exact Or.inr ⟨⟨h1, hall _ h2⟩, hlen _ h3⟩

/-- the flag after a column -/
def flagAfter (an : Bool) (k : Option DKind) : Bool :=
  match k with
  | some (.flag b) => b
  | _ => an

theorem DOK_step {an : Bool} {k : Option DKind} {ks : List DKind}
    (h : DOK an (match k with | some k => k :: ks | none => ks) = true) : DOK (flagAfter an k) ks = true := by
  cases k with
  | none => exact h
  | some k =>
    have hs : DOK an ks = true := DOK_sublist (List.sublist_cons_self k ks) h
    cases k with
    | iso => exact hs
    | uij p => exact hs
    | flag b =>
      simp only [flagAfter]
      simp only [DOK, Bool.or_eq_true, Bool.and_eq_true, decide_eq_true_eq, List.all_cons, List.filter_cons,
        DKind.isFlag, DKind.okA, DKind.okB, DKind.okC, DKind.writer, if_true, List.length_cons] at h ⊢
      rcases h with (⟨⟨h0, h1⟩, h2⟩ | ⟨h1, h0, h2⟩) | ⟨⟨h1, h0, h2⟩, h3⟩
      · -- (A): no further flag column
        have hnil : ks.filter DKind.isFlag = [] := List.eq_nil_of_length_eq_zero (by omega)
        refine Or.inl (Or.inl ⟨?_, by omega⟩)
        refine List.all_eq_true.2 fun x hx => ?_
        have hx1 := List.all_eq_true.1 h1 x hx
        cases x with
        | iso => rfl
        | uij p => simp [DKind.okA] at hx1
        | flag c =>
          have : DKind.flag c ∈ ks.filter DKind.isFlag := List.mem_filter.2 ⟨hx, rfl⟩
          rw [hnil] at this
          exact absurd this (by simp)
      · subst h1
        subst h0
        exact Or.inl (Or.inr ⟨rfl, h2⟩)
      · have hb : b = false := by simpa using h0
        subst hb
        exact Or.inr ⟨⟨rfl, h2⟩, h3⟩


theorem RowShape.perm {an : Bool} {l l' : List (Col ℝ)} (hp : l.Perm l') (h : RowShape an l) : RowShape an l' := by
  obtain ⟨h1, h2, h3, h4⟩ := h
  refine ⟨((hp.filterMap _).nodup_iff).1 h1, ?_, ?_, ?_⟩
  · rcases h2 with h2 | h2
    · exact Or.inl fun c hc => h2 c (hp.mem_iff.2 hc)
    · exact Or.inr fun c hc => h2 c (hp.mem_iff.2 hc)
  · rcases h3 with h3 | h3
    · exact Or.inl fun c hc => h3 c (hp.mem_iff.2 hc)
    · exact Or.inr fun c hc => h3 c (hp.mem_iff.2 hc)
  · rw [← DOK_perm (hp.filterMap _)]; exact h4

theorem RowShape.sublist {an : Bool} {l l' : List (Col ℝ)} (hs : l'.Sublist l) (h : RowShape an l) : RowShape an l' := by
  obtain ⟨h1, h2, h3, h4⟩ := h
  refine ⟨h1.sublist (hs.filterMap _), ?_, ?_, DOK_sublist (hs.filterMap _) h4⟩
  · rcases h2 with h2 | h2
    · exact Or.inl fun c hc => h2 c (hs.subset hc)
    · exact Or.inr fun c hc => h2 c (hs.subset hc)
  · rcases h3 with h3 | h3
    · exact Or.inl fun c hc => h3 c (hs.subset hc)
    · exact Or.inr fun c hc => h3 c (hs.subset hc)

theorem aniso_after (a : Atom ℝ) (x : Col ℝ) :
    (applySetter x.1 x.2 a).s.aniso = flagAfter a.s.aniso (dkind x.1 x.2.text) := by
  obtain ⟨it, v⟩ := x
  cases it <;> simp only [applySetter, eff, Eff.run, Atom.liftS, Atom.movePos, Atom.setOcc, dkind, flagAfter,
    setUiso_aniso, setAniso_aniso, setUij_aniso]

theorem lat_after (a : Atom ℝ) (x : Col ℝ) : (applySetter x.1 x.2 a).s.lat = a.s.lat := by
  obtain ⟨it, v⟩ := x
  cases it <;> simp only [applySetter, eff, Eff.run, Atom.liftS, Atom.movePos, Atom.setOcc,
    (setUiso_adpFn _).lat, (setAniso_adpFn _).lat, (setUij_adpFn _ _ _).lat]

theorem RowShape.step {a : Atom ℝ} {x : Col ℝ} {l : List (Col ℝ)} (h : RowShape a.s.aniso (x :: l)) :
    RowShape (applySetter x.1 x.2 a).s.aniso l := by
  have ht := RowShape.sublist (List.sublist_cons_self x l) h
  refine ⟨ht.1, ht.2.1, ht.2.2.1, ?_⟩
  rw [aniso_after]
  apply DOK_step
  have h4 := h.2.2.2
  rw [List.filterMap_cons] at h4
  cases hk : dkind x.1 x.2.text with
  | none => simpa [hk] using h4
  | some k => simpa [hk] using h4


/-! ### exchanging two adjacent columns -/

theorem setIx_comm (u : Vec3 ℝ) {k k' : Ix} (h : k ≠ k') (v w : ℝ) :
    (u.setIx k v).setIx k' w = (u.setIx k' w).setIx k v := by
  cases k <;> cases k' <;> first | exact absurd rfl h | rfl

theorem cart_frac {l : LatData ℝ} (hl : LatOK l) (c : Vec3 ℝ) : l.cart (frac l c) = c := by
  simp only [LatData.cart, frac, Mat3.vecMul_mul, hl.rec_base, Mat3.vecMul_one]

theorem frac_cart {l : LatData ℝ} (hl : LatOK l) (x : Vec3 ℝ) : frac l (l.cart x) = x := by
  simp only [LatData.cart, frac, Mat3.vecMul_mul, hl.base_rec, Mat3.vecMul_one]

theorem cartn_comm {lat : Option (LatData ℝ)} (hl : LatOK? lat) {k k' : Ix} (h : k ≠ k') (v w : ℝ) (x : Vec3 ℝ) :
    setCartnIx k' w lat (setCartnIx k v lat x) = setCartnIx k v lat (setCartnIx k' w lat x) := by
  cases lat with
  | none => exact setIx_comm x h v w
  | some l =>
    have hl := hl l rfl
    simp only [setCartnIx, cart_frac hl, setIx_comm _ h]

theorem eff_of_dop {it : Item} {v : Value ℝ} {d : DOp} (h : dop it v = some d) : eff it v = .adp d.fn := by
  cases it <;> simp only [dop, Option.some.injEq, reduceCtorEq] at h <;> subst h <;> rfl

theorem D_swap (a : Atom ℝ) (hl : LatOK? a.s.lat) {x y : Col ℝ} {d1 d2 : DOp}
    (h1 : dop x.1 x.2 = some d1) (h2 : dop y.1 y.2 = some d2) (h : DOK2 a.s.aniso d1 d2) :
    ObsEq (applySetter y.1 y.2 (applySetter x.1 x.2 a)) (applySetter x.1 x.2 (applySetter y.1 y.2 a)) := by
  simp only [applySetter, eff_of_dop h1, eff_of_dop h2, Eff.run, Atom.liftS]
  exact ⟨rfl, rfl, rfl, dop_comm hl h⟩

/-- the decidable kinds of two displacement-parameter columns with different slots satisfy `DOK` only if the steps are exchangeable -/
theorem DOK2_of_DOK {an : Bool} {x y : Col ℝ} {d1 d2 : DOp} {k1 k2 : DKind}
    (h1 : dop x.1 x.2 = some d1) (h2 : dop y.1 y.2 = some d2)
    (g1 : dkind x.1 x.2.text = some k1) (g2 : dkind y.1 y.2.text = some k2)
    (hs : slot x.1 ≠ slot y.1) (h : DOK an [k1, k2] = true) : DOK2 an d1 d2 := by
  obtain ⟨ix, vx⟩ := x
  obtain ⟨iy, vy⟩ := y
  cases ix <;> simp only [dop, dkind, Option.some.injEq, reduceCtorEq] at h1 g1 <;>
    cases iy <;> simp only [dop, dkind, Option.some.injEq, reduceCtorEq] at h2 g2 <;>
    subst h1 h2 g1 g2 <;>
    simp only [slot, ne_eq, not_true_eq_false, Option.some.injEq, Slot.uij.injEq] at hs <;>
    cases an <;>
    simp [DOK, DOK2, DKind.okA, DKind.okB, DKind.okC, DKind.isFlag, DKind.writer, List.filter_cons] at h ⊢ <;>
    first
    | exact h
    | exact hs
    | (split_ifs at h <;> simp_all)


theorem names_comm (a : Atom ℝ) (vl vt : Value ℝ) (h : normSymbol vt.text ≠ "") :
    applySetter .typeSymbol vt (applySetter .label vl a) = applySetter .label vl (applySetter .typeSymbol vt a) := by
  simp only [applySetter, eff, Eff.run, labelNames, beq_iff_eq, h, if_false]

/-- the part of the atom the setter of an item writes (`Eff.kind` of its effect) -/
def ikind : Item → Nat
  | .ignore => 0
  | .label | .typeSymbol => 1
  | .fract _ | .cartn _ => 2
  | .occupancy => 3
  | _ => 4

theorem eff_kind (it : Item) (v : Value ℝ) : (eff it v).kind = ikind it := by cases it <;> rfl

theorem dop_some_of_ikind {it : Item} (v : Value ℝ) (h : ikind it = 4) : ∃ d k, dop it v = some d ∧ dkind it v.text = some k := by
  cases it <;> simp only [ikind, reduceCtorEq, Nat.reduceEqDiff] at h <;>
    exact ⟨_, _, rfl, rfl⟩

theorem slot_ne_of_nodup {x y : Col ℝ} {l : List (Col ℝ)} (h : ((x :: y :: l).filterMap (fun c => slot c.1)).Nodup)
    {sx : Slot} (hx : slot x.1 = some sx) : slot x.1 ≠ slot y.1 := by
  intro he
  have hy : slot y.1 = some sx := by rw [← he, hx]
  simp only [List.filterMap_cons, hx, hy, List.nodup_cons, List.mem_cons, true_or, not_true_eq_false, false_and] at h

theorem swap_D (a : Atom ℝ) (hl : LatOK? a.s.lat) (x y : Col ℝ) (h : RowShape a.s.aniso [x, y])
    (hx : ikind x.1 = 4) (hy : ikind y.1 = 4) :
    ObsEq (applySetter y.1 y.2 (applySetter x.1 x.2 a)) (applySetter x.1 x.2 (applySetter y.1 y.2 a)) := by
  obtain ⟨d1, k1, h1, g1⟩ := dop_some_of_ikind x.2 hx
  obtain ⟨d2, k2, h2, g2⟩ := dop_some_of_ikind y.2 hy
  obtain ⟨hnd, -, -, hd⟩ := h
  have hs : slot x.1 ≠ slot y.1 := by
    have : ∃ sx, slot x.1 = some sx := by
      obtain ⟨ix, vx⟩ := x
      cases ix <;> simp only [ikind, reduceCtorEq, Nat.reduceEqDiff] at hx <;>
        exact ⟨_, rfl⟩
    obtain ⟨sx, hsx⟩ := this
    exact slot_ne_of_nodup hnd hsx
  have hd' : DOK a.s.aniso [k1, k2] = true := by
    simpa only [List.filterMap_cons, g1, g2, List.filterMap_nil] using hd
  exact D_swap a hl h1 h2 (DOK2_of_DOK h1 h2 g1 g2 hs hd')


theorem swap_names (a : Atom ℝ) (x y : Col ℝ) (h : RowShape a.s.aniso [x, y])
    (hx : ikind x.1 = 1) (hy : ikind y.1 = 1) :
    applySetter y.1 y.2 (applySetter x.1 x.2 a) = applySetter x.1 x.2 (applySetter y.1 y.2 a) := by
  obtain ⟨hnd, -, hts, -⟩ := h
  obtain ⟨ix, vx⟩ := x
  obtain ⟨iy, vy⟩ := y
  cases ix <;> simp only [ikind, reduceCtorEq, Nat.reduceEqDiff] at hx <;>
    cases iy <;> simp only [ikind, reduceCtorEq, Nat.reduceEqDiff] at hy
  · exact absurd rfl (slot_ne_of_nodup (x := (Item.label, vx)) (y := (Item.label, vy)) hnd (sx := .label) rfl)
  · refine names_comm a vx vy ?_
    rcases hts with hts | hts
    · exact absurd rfl (hts (Item.label, vx) (by simp))
    · exact hts (Item.typeSymbol, vy) (by simp) rfl
  · refine (names_comm a vy vx ?_).symm
    rcases hts with hts | hts
    · exact absurd rfl (hts (Item.label, vy) (by simp))
    · exact hts (Item.typeSymbol, vx) (by simp) rfl
  · exact absurd rfl (slot_ne_of_nodup (x := (Item.typeSymbol, vx)) (y := (Item.typeSymbol, vy)) hnd (sx := .type) rfl)

theorem swap_pos (a : Atom ℝ) (hl : LatOK? a.s.lat) (x y : Col ℝ) (h : RowShape a.s.aniso [x, y])
    (hx : ikind x.1 = 2) (hy : ikind y.1 = 2) :
    applySetter y.1 y.2 (applySetter x.1 x.2 a) = applySetter x.1 x.2 (applySetter y.1 y.2 a) := by
  obtain ⟨hnd, hmix, -, -⟩ := h
  obtain ⟨ix, vx⟩ := x
  obtain ⟨iy, vy⟩ := y
  cases ix <;> simp only [ikind, reduceCtorEq, Nat.reduceEqDiff] at hx <;>
    cases iy <;> simp only [ikind, reduceCtorEq, Nat.reduceEqDiff] at hy
  · rename_i k k'
    have hne : k ≠ k' := fun e => (slot_ne_of_nodup (x := (Item.fract k, vx)) (y := (Item.fract k', vy)) hnd (sx := .pos k) rfl) (by simp [slot, e])
    simp only [applySetter, eff, Eff.run, Atom.movePos, setXyzIx, setIx_comm _ hne]
  · exfalso
    rename_i k k'
    rcases hmix with hm | hm
    · exact absurd (hm (Item.fract k, vx) (by simp)) (by simp [isFract])
    · exact absurd (hm (Item.cartn k', vy) (by simp)) (by simp [isCartn])
  · exfalso
    rename_i k k'
    rcases hmix with hm | hm
    · exact absurd (hm (Item.fract k', vy) (by simp)) (by simp [isFract])
    · exact absurd (hm (Item.cartn k, vx) (by simp)) (by simp [isCartn])
  · rename_i k k'
    have hne : k ≠ k' := fun e => (slot_ne_of_nodup (x := (Item.cartn k, vx)) (y := (Item.cartn k', vy)) hnd (sx := .pos k) rfl) (by simp [slot, e])
    simp only [applySetter, eff, Eff.run, Atom.movePos, cartn_comm hl hne]

/-- two adjacent columns of a row that satisfies `RowShape` may be exchanged -/
theorem swap_two (a : Atom ℝ) (hl : LatOK? a.s.lat) (x y : Col ℝ) (h : RowShape a.s.aniso [x, y]) :
    ObsEq (applySetter y.1 y.2 (applySetter x.1 x.2 a)) (applySetter x.1 x.2 (applySetter y.1 y.2 a)) := by
  by_cases hk : ikind y.1 = ikind x.1
  · have hcases : ikind x.1 = 0 ∨ ikind x.1 = 1 ∨ ikind x.1 = 2 ∨ ikind x.1 = 3 ∨ ikind x.1 = 4 := by
      cases x.1 <;> simp [ikind]
    rcases hcases with h0 | h1 | h2 | h3 | h4
    · have e1 : eff x.1 x.2 = .nop := by
        obtain ⟨ix, vx⟩ := x; cases ix <;> simp [ikind] at h0; rfl
      have e2 : eff y.1 y.2 = .nop := by
        rw [h0] at hk
        obtain ⟨iy, vy⟩ := y; cases iy <;> simp [ikind] at hk; rfl
      simp only [applySetter, e1, e2, Eff.run]; exact ObsEq.refl _
    · exact ObsEq.of_eq (swap_names a x y h h1 (hk.trans h1))
    · exact ObsEq.of_eq (swap_pos a hl x y h h2 (hk.trans h2))
    · exfalso
      have hy := hk.trans h3
      obtain ⟨ix, vx⟩ := x
      obtain ⟨iy, vy⟩ := y
      cases ix <;> simp [ikind] at h3
      cases iy <;> simp [ikind] at hy
      exact absurd rfl (slot_ne_of_nodup (x := (Item.occupancy, vx)) (y := (Item.occupancy, vy)) h.1 (sx := .occ) rfl)
    · exact swap_D a hl x y h h4 (hk.trans h4)
  · exact ObsEq.of_eq (Eff.run_comm (eff_wf _ _) (eff_wf _ _) (by rw [eff_kind, eff_kind]; exact hk) a)

end DS.CifRow
