import DS.Model.Formats
import DS.Lemmas.Dec
import DS.Lemmas.Formats

/-!
# File-level round trips for XCFG and CIF (`DS.Model.Formats`)

`roundtrip_xcfg` / `roundtrip_cif`: `parse(tostring(toLines d)) = quant d` on the whole written text,
for every document in the representable range.
-/
namespace DS.Formats
open DS.Dec

/-! ## generic helpers -/

theorem strip_cons_nonblank {c : Char} (s : Str) (hc : isWs c = false) : (strip (c :: s)).isEmpty = false := by
  have ht : IsTok [c] := ⟨by simp, by intro d hd; simp at hd; subst hd; exact hc⟩
  have := strip_tok_append (t := [c]) (s := s) ht
  simp only [List.singleton_append] at this
  rw [this]; rfl

theorem firstTok_blank_tok {t s : Str} (ht : IsTok t) : firstTok (' ' :: (t ++ ' ' :: s)) = some t := by
  unfold firstTok
  rw [show (' ' :: (t ++ ' ' :: s)) = [' '] ++ (t ++ ' ' :: s) from rfl, splitWs_allWs_append AllWs_one,
    splitWs_tok_ws ht isWs_space]
  rfl

theorem firstTok_tok {t s : Str} (ht : IsTok t) : firstTok (t ++ ' ' :: s) = some t := by
  unfold firstTok
  rw [splitWs_tok_ws ht isWs_space]
  rfl

theorem firstTok_blank_tok_end {t : Str} (ht : IsTok t) : firstTok (' ' :: t) = some t := by
  unfold firstTok
  rw [show (' ' :: t) = [' '] ++ t from rfl, splitWs_allWs_append AllWs_one, splitWs_tok_end ht]
  rfl

theorem parseInt_natDigits (n : Nat) : parseInt (natDigits n) = some (n : Int) := by
  have := parseInt_fmtIbody_nat n
  have hneg : ¬ ((n : Int) < 0) := by omega
  simpa [fmtIbody, signStr, hneg] using this

theorem natDigits_two : natDigits 2 = ['2'] := by
  unfold natDigits; simp [digitChar]
theorem natDigits_three : natDigits 3 = ['3'] := by
  unfold natDigits; simp [digitChar]

/-! ## XCFG: string literals of the writer and the reader as character lists -/

theorem lNumEq : "Number of particles = ".toList = ['N', 'u', 'm', 'b', 'e', 'r', ' ', 'o', 'f', ' ', 'p', 'a', 'r', 't', 'i', 'c', 'l', 'e', 's', ' ', '=', ' '] := rfl
theorem lNum : "Number of particles =".toList = ['N', 'u', 'm', 'b', 'e', 'r', ' ', 'o', 'f', ' ', 'p', 'a', 'r', 't', 'i', 'c', 'l', 'e', 's', ' ', '='] := rfl
theorem lAeq : "A = ".toList = ['A', ' ', '=', ' '] := rfl
theorem lA : "A =".toList = ['A', ' ', '='] := rfl
theorem lAng : " Angstrom".toList = [' ', 'A', 'n', 'g', 's', 't', 'r', 'o', 'm'] := rfl
theorem lH0 : "H0(".toList = ['H', '0', '('] := rfl
theorem lH0e : ") = ".toList = [')', ' ', '=', ' '] := rfl
theorem lHA : " A".toList = [' ', 'A'] := rfl
theorem lNoVel : ".NO_VELOCITY.".toList = ['.', 'N', 'O', '_', 'V', 'E', 'L', 'O', 'C', 'I', 'T', 'Y', '.'] := rfl
theorem lEcEq : "entry_count = ".toList = ['e', 'n', 't', 'r', 'y', '_', 'c', 'o', 'u', 'n', 't', ' ', '=', ' '] := rfl
theorem lEc : "entry_count =".toList = ['e', 'n', 't', 'r', 'y', '_', 'c', 'o', 'u', 'n', 't', ' ', '='] := rfl
theorem lAux : "auxiliary[".toList = ['a', 'u', 'x', 'i', 'l', 'i', 'a', 'r', 'y', '['] := rfl
theorem lAuxE : "] = ".toList = [']', ' ', '=', ' '] := rfl
theorem lAuxM : "] =".toList = [']', ' ', '='] := rfl
theorem lAu : " [au]".toList = [' ', '[', 'a', 'u', ']'] := rfl
theorem lOcc : "occupancy".toList = ['o', 'c', 'c', 'u', 'p', 'a', 'n', 'c', 'y'] := rfl
theorem lUiso : "Uiso".toList = ['U', 'i', 's', 'o'] := rfl
theorem lBiso : "Biso".toList = ['B', 'i', 's', 'o'] := rfl
theorem lU11 : "U11".toList = ['U', '1', '1'] := rfl
theorem lU22 : "U22".toList = ['U', '2', '2'] := rfl
theorem lU33 : "U33".toList = ['U', '3', '3'] := rfl
theorem lU12 : "U12".toList = ['U', '1', '2'] := rfl
theorem lU13 : "U13".toList = ['U', '1', '3'] := rfl
theorem lU23 : "U23".toList = ['U', '2', '3'] := rfl
theorem lAuxN : "aux".toList = ['a', 'u', 'x'] := rfl

/-! ## XCFG header records -/

def kNum : Str := ['N', 'u', 'm', 'b', 'e', 'r', ' ', 'o', 'f', ' ', 'p', 'a', 'r', 't', 'i', 'c', 'l', 'e', 's', ' ', '=']
def kA : Str := ['A', ' ', '=']
def kH0 : Str := ['H', '0', '(']
def kNoVel : Str := ['.', 'N', 'O', '_', 'V', 'E', 'L', 'O', 'C', 'I', 'T', 'Y', '.']
def kEc : Str := ['e', 'n', 't', 'r', 'y', '_', 'c', 'o', 'u', 'n', 't', ' ', '=']

/-- one step of the header loop with the keywords as character lists -/
theorem xcfgHeader_cons (line : Str) (rest : List Str) (h : XHdr) :
    xcfgHeader (line :: rest) h =
    if (strip line).isEmpty || line.head? == some '#' then xcfgHeader rest h
    else if h.n.isNone then
      if !isPrefixOf kNum line then .error .sfe else
      match (firstTok (line.drop 21)).bind parseInt with
      | some n => xcfgHeader rest { h with n := some n }
      | none => .error .sfe
    else if isPrefixOf kA line then
      match (firstTok (line.drop 3)).bind parseDec with
      | some a => xcfgHeader rest { h with a := some a }
      | none => .error .sfe
    else if isPrefixOf kH0 line then
      match (line.drop 3).head?.bind digit1, (line.drop 5).head?.bind digit1, (firstTok (line.drop 10)).bind parseDec with
      | some i, some j, some v =>
        if 1 ≤ i ∧ i ≤ 3 ∧ 1 ≤ j ∧ j ≤ 3 then xcfgHeader rest { h with h0 := h.h0.set ((i - 1) * 3 + (j - 1)) (some v) }
        else .error .unmodelled
      | _, _, _ => .error .sfe
    else if isPrefixOf kNoVel line then xcfgHeader rest { h with noVel := true }
    else if isPrefixOf kEc line then
      match (firstTok (line.drop 13)).bind parseInt with
      | some n => xcfgHeader rest { h with entryCount := some n }
      | none => .error .sfe
    else match auxMatch line with
      | some (idx, r) =>
        match firstTok r with
        | some nm => xcfgHeader rest { h with aux := (h.aux.filter (fun p => p.1 != idx)) ++ [(idx, nm)] }
        | none => .error .sfe
      | none => .ok (h, rest) := by
  rw [xcfgHeader]
  rfl

theorem xh_n (n : Nat) (rest : List Str) (h : XHdr) (hn : h.n = none) :
    xcfgHeader (("Number of particles = ".toList ++ natDigits n) :: rest) h =
      xcfgHeader rest { h with n := some (n : Int) } := by
  rw [xcfgHeader_cons, lNumEq]
  simp only [List.cons_append, List.nil_append]
  rw [strip_cons_nonblank _ (by decide)]
  simp only [hn, isPrefixOf, kNum, List.head?_cons, Option.isNone_none, List.take, List.length_cons, List.length_nil,
    List.drop_succ_cons, List.drop_zero]
  rw [firstTok_blank_tok_end (IsTok_natDigits n)]
  simp [parseInt_natDigits]

theorem IsTok_g8 (x : Rat) : IsTok (g8 x) := IsTok_fmtG 8 x
theorem parseDec_g8 (x : Rat) : parseDec (g8 x) = some (roundSig 8 x) := parseDec_fmtG 8 x

theorem xh_A (x : Rat) (rest : List Str) (h : XHdr) (hn : h.n.isNone = false) :
    xcfgHeader (("A = ".toList ++ g8 x ++ " Angstrom".toList) :: rest) h =
      xcfgHeader rest { h with a := some (roundSig 8 x) } := by
  rw [xcfgHeader_cons, lAeq, lAng]
  simp only [List.cons_append, List.nil_append]
  rw [strip_cons_nonblank _ (by decide)]
  simp only [hn, isPrefixOf, kA, List.head?_cons, List.take, List.length_cons, List.length_nil,
    List.drop_succ_cons, List.drop_zero]
  rw [firstTok_blank_tok (IsTok_g8 x)]
  simp [parseDec_g8]

theorem xh_H0c (ci cj : Char) (i j : Nat) (hci : digit1 ci = some i) (hcj : digit1 cj = some j)
    (hi : 1 ≤ i ∧ i ≤ 3) (hj : 1 ≤ j ∧ j ≤ 3) (v : Rat) (rest : List Str) (h : XHdr) (hn : h.n.isNone = false) :
    xcfgHeader (('H' :: '0' :: '(' :: ci :: ',' :: cj :: ')' :: ' ' :: '=' :: ' ' :: (g8 v ++ [' ', 'A'])) :: rest) h =
      xcfgHeader rest { h with h0 := h.h0.set ((i - 1) * 3 + (j - 1)) (some (roundSig 8 v)) } := by
  rw [xcfgHeader_cons]
  rw [strip_cons_nonblank _ (by decide)]
  simp only [hn, isPrefixOf, kA, kH0, List.head?_cons, List.take, List.length_cons, List.length_nil,
    List.drop_succ_cons, List.drop_zero]
  rw [firstTok_tok (IsTok_g8 v)]
  simp [parseDec_g8, hci, hcj, hi, hj]

theorem xh_H0 (i j : Nat) (hi : 1 ≤ i ∧ i ≤ 3) (hj : 1 ≤ j ∧ j ≤ 3) (v : Rat) (rest : List Str) (h : XHdr)
    (hn : h.n.isNone = false) :
    xcfgHeader (("H0(".toList ++ nameI i ++ [','] ++ nameI j ++ ") = ".toList ++ g8 v ++ " A".toList) :: rest) h =
      xcfgHeader rest { h with h0 := h.h0.set ((i - 1) * 3 + (j - 1)) (some (roundSig 8 v)) } := by
  have hd : ∀ k : Nat, 1 ≤ k ∧ k ≤ 3 → ∃ c, nameI k = [c] ∧ digit1 c = some k := by
    intro k hk
    have : k = 1 ∨ k = 2 ∨ k = 3 := by omega
    rcases this with rfl | rfl | rfl
    · exact ⟨'1', natDigits_one, by decide⟩
    · exact ⟨'2', natDigits_two, by decide⟩
    · exact ⟨'3', natDigits_three, by decide⟩
  obtain ⟨ci, e1, hci⟩ := hd i hi
  obtain ⟨cj, e2, hcj⟩ := hd j hj
  rw [e1, e2, lH0, lH0e, lHA]
  simp only [List.cons_append, List.nil_append]
  exact xh_H0c ci cj i j hci hcj hi hj v rest h hn

theorem xh_novel (rest : List Str) (h : XHdr) (hn : h.n.isNone = false) :
    xcfgHeader (".NO_VELOCITY.".toList :: rest) h = xcfgHeader rest { h with noVel := true } := by
  rw [xcfgHeader_cons, lNoVel]
  rw [strip_cons_nonblank _ (by decide)]
  simp [hn, isPrefixOf, kA, kH0, kNoVel]

theorem xh_ec (k : Nat) (rest : List Str) (h : XHdr) (hn : h.n.isNone = false) :
    xcfgHeader (("entry_count = ".toList ++ natDigits k) :: rest) h =
      xcfgHeader rest { h with entryCount := some (k : Int) } := by
  rw [xcfgHeader_cons, lEcEq]
  simp only [List.cons_append, List.nil_append]
  rw [strip_cons_nonblank _ (by decide)]
  simp only [hn, isPrefixOf, kA, kH0, kNoVel, kEc, List.head?_cons, List.take, List.length_cons, List.length_nil,
    List.drop_succ_cons, List.drop_zero]
  rw [firstTok_blank_tok_end (IsTok_natDigits k)]
  simp [parseInt_natDigits]

theorem xh_blank (rest : List Str) (h : XHdr) : xcfgHeader ([] :: rest) h = xcfgHeader rest h := by
  rw [xcfgHeader_cons]
  simp [strip, lstrip, rstrip]

def kAux : Str := ['a', 'u', 'x', 'i', 'l', 'i', 'a', 'r', 'y', '[']

theorem auxMatch_eq (line : Str) : auxMatch line =
    if !isPrefixOf kAux line then none else
    if ((line.drop 10).takeWhile isDigit).isEmpty || !isPrefixOf [']', ' ', '='] ((line.drop 10).dropWhile isDigit) then none
    else some (numOf ((line.drop 10).takeWhile isDigit), ((line.drop 10).dropWhile isDigit).drop 3) := rfl

theorem auxMatch_line (i : Nat) (nm : Str) :
    auxMatch ("auxiliary[".toList ++ natDigits i ++ "] = ".toList ++ nm ++ " [au]".toList) = some (i, ' ' :: (nm ++ " [au]".toList)) := by
  rw [auxMatch_eq, lAux, lAuxE]
  simp only [List.cons_append, List.nil_append, List.append_assoc, List.drop_succ_cons, List.drop_zero]
  have h := takeWhile_digits (natDigits i) (']' :: ' ' :: '=' :: ' ' :: (nm ++ " [au]".toList)) (allDigits_natDigits i)
    (by simp [isDigit])
  rw [h.1, h.2]
  simp [isPrefixOf, kAux, isEmpty_false_of_ne (natDigits_ne_nil i), numOf_natDigits]

theorem xh_aux (i : Nat) (nm : Str) (hnm : IsTok nm) (rest : List Str) (h : XHdr) (hn : h.n.isNone = false) :
    xcfgHeader (("auxiliary[".toList ++ natDigits i ++ "] = ".toList ++ nm ++ " [au]".toList) :: rest) h =
      xcfgHeader rest { h with aux := (h.aux.filter (fun p => p.1 != i)) ++ [(i, nm)] } := by
  have hft : firstTok (' ' :: (nm ++ " [au]".toList)) = some nm := by rw [lAu]; exact firstTok_blank_tok hnm
  rw [xcfgHeader_cons, auxMatch_line]
  simp only [hft]
  rw [lAux]
  simp only [List.cons_append, List.nil_append, List.append_assoc]
  rw [strip_cons_nonblank _ (by decide)]
  simp [hn, isPrefixOf, kA, kH0, kNoVel, kEc]

/-- a line that starts with a digit or a minus sign ends the header (`break`; the line is consumed) -/
theorem xh_break (c : Char) (cs : Str) (hc : isDigit c = true ∨ c = '-') (rest : List Str) (h : XHdr)
    (hn : h.n.isNone = false) : xcfgHeader ((c :: cs) :: rest) h = .ok (h, rest) := by
  have hws : isWs c = false := by
    rcases hc with hc | rfl
    · exact isWs_of_isDigit hc
    · decide
  have hne : ∀ k : Char, isDigit k = false → k ≠ '-' → c ≠ k := by
    intro k hk hk2 e; subst e
    rcases hc with hc | hc
    · rw [hk] at hc; cases hc
    · exact hk2 hc
  have h1 := hne '#' (by decide) (by decide)
  have h2 := hne 'A' (by decide) (by decide)
  have h3 := hne 'H' (by decide) (by decide)
  have h4 := hne '.' (by decide) (by decide)
  have h5 := hne 'e' (by decide) (by decide)
  have h6 := hne 'a' (by decide) (by decide)
  rw [xcfgHeader_cons, auxMatch_eq, strip_cons_nonblank _ hws]
  simp [hn, isPrefixOf, kA, kH0, kNoVel, kEc, kAux, h1, h2, h3, h4, h5, h6]

theorem fmtFbody_head (p : Nat) (x : Rat) : ∃ c cs, fmtFbody p x = c :: cs ∧ (isDigit c = true ∨ c = '-') := by
  unfold fmtFbody signStr fixedBody
  obtain ⟨c, cs, hcs, hc⟩ := natDigits_head (scaledAbs p x / 10 ^ p)
  by_cases hx : x < 0
  · refine ⟨'-', natDigits (scaledAbs p x / 10 ^ p) ++ (if p = 0 then [] else '.' :: fixDigits p (scaledAbs p x)), ?_, Or.inr rfl⟩
    simp only [hx, decide_true, if_true, List.singleton_append]
  · refine ⟨c, cs ++ (if p = 0 then [] else '.' :: fixDigits p (scaledAbs p x)), ?_, Or.inl hc⟩
    simp [hx, hcs]

theorem fmtF_zero (p : Nat) (x : Rat) : fmtF 0 p x = fmtFbody p x := by simp [fmtF, padLeft]

theorem xh_mass (m : Rat) (rest : List Str) (h : XHdr) (hn : h.n.isNone = false) :
    xcfgHeader (fmtF 0 4 m :: rest) h = .ok (h, rest) := by
  obtain ⟨c, cs, e, hc⟩ := fmtFbody_head 4 m
  rw [fmtF_zero, e]
  exact xh_break c cs hc rest h hn

def auxLine (p : Str × Nat) : Str :=
  "auxiliary[".toList ++ natDigits p.2 ++ "] = ".toList ++ p.1 ++ " [au]".toList

/-- index/name pairs the reader collects from the `auxiliary[i] = name` records -/
def auxPairs (l : List Str) (k : Nat) : List (Nat × Str) := (l.zipIdx k).map (fun p => (p.2, p.1))

theorem auxPairs_cons (a : Str) (l : List Str) (k : Nat) : auxPairs (a :: l) k = (k, a) :: auxPairs l (k + 1) := by
  simp [auxPairs, List.zipIdx_cons]

theorem xh_auxes (l : List Str) : ∀ (k : Nat) (h : XHdr) (rest : List Str), h.n.isNone = false →
    (∀ nm ∈ l, IsTok nm) → (∀ p ∈ h.aux, p.1 < k) →
    xcfgHeader ((l.zipIdx k).map auxLine ++ rest) h = xcfgHeader rest { h with aux := h.aux ++ auxPairs l k } := by
  induction l with
  | nil => intro k h rest _ _ _; simp [auxPairs]
  | cons a l ih =>
    intro k h rest hn htok hlt
    have hf : h.aux.filter (fun p => p.1 != k) = h.aux := by
      apply List.filter_eq_self.2
      intro p hp
      have := hlt p hp
      simp only [bne_iff_ne, ne_eq]
      omega
    rw [List.zipIdx_cons, List.map_cons, List.cons_append]
    show xcfgHeader (("auxiliary[".toList ++ natDigits k ++ "] = ".toList ++ a ++ " [au]".toList) :: _) h = _
    rw [xh_aux k a (htok a (by simp)) _ h hn, hf,
      ih (k + 1) { h with aux := h.aux ++ [(k, a)] } rest hn (fun nm hnm => htok nm (by simp [hnm]))]
    · simp [auxPairs_cons]
    · intro p hp
      simp only [List.mem_append, List.mem_singleton] at hp
      rcases hp with hp | rfl
      · have := hlt p hp; omega
      · simp

theorem auxPairs_foldl_max (l : List Str) : ∀ (k m : Nat),
    ((auxPairs l k).map (·.1)).foldl max m = if l = [] then m else max m (k + l.length - 1) := by
  induction l with
  | nil => intro k m; simp [auxPairs]
  | cons a l ih =>
    intro k m
    rw [auxPairs_cons, List.map_cons, List.foldl_cons, ih (k + 1) (max m k)]
    by_cases hl : l = []
    · subst hl; simp
    · simp only [hl, if_false, List.length_cons, reduceCtorEq]
      have : 0 < l.length := List.length_pos_iff.2 hl
      omega

theorem auxPairs_isEmpty (l : List Str) (k : Nat) : (auxPairs l k).isEmpty = l.isEmpty := by
  cases l <;> simp [auxPairs]

/-- the reader's count of auxiliaries (`max(keys) + 1`) is the number of names written -/
theorem auxnum_eq (l : List Str) :
    (if (auxPairs l 0).isEmpty then 0 else ((auxPairs l 0).map (·.1)).foldl max 0 + 1) = l.length := by
  rw [auxPairs_isEmpty, auxPairs_foldl_max]
  cases l with
  | nil => rfl
  | cons a l => simp

theorem auxPairs_find (l : List Str) : ∀ (k i : Nat) (hi : i < l.length),
    (auxPairs l k).find? (fun p => p.1 == k + i) = some (k + i, l[i]) := by
  induction l with
  | nil => intro k i hi; simp at hi
  | cons a l ih =>
    intro k i hi
    rw [auxPairs_cons]
    cases i with
    | zero => simp
    | succ i =>
      have hne : (k == k + (i + 1)) = false := by simp
      rw [List.find?_cons]
      simp only [hne]
      have := ih (k + 1) i (by simpa using hi)
      rw [show k + (i + 1) = k + 1 + i by omega]
      simpa using this

/-- the reader's list of auxiliary names is the list written -/
theorem auxNames_eq (l : List Str) :
    (List.range l.length).map (fun i =>
      match (auxPairs l 0).find? (fun p => p.1 == i) with
      | some p => p.2
      | none => "aux".toList ++ natDigits i) = l := by
  apply List.ext_getElem
  · simp
  · intro i h1 h2
    have hi : i < l.length := h2
    have := auxPairs_find l 0 i hi
    simp only [Nat.zero_add] at this
    simp [this]

end DS.Formats
