import DS.Model.Formats
import DS.Lemmas.Dec
import DS.Lemmas.Formats

/-!
# File-level round trips for XCFG and CIF (`DS.Model.Formats`)

`roundtrip_xcfg` / `roundtrip_cif`: `parse(tostring(toLines d)) = quant d` on the whole written text,
for every document in the representable range.
-/
namespace DS.Formats
open DS.Dec

/-! ## generic helpers -/

theorem strip_cons_nonblank {c : Char} (s : Str) (hc : isWs c = false) : (strip (c :: s)).isEmpty = false := by
  have ht : IsTok [c] := ⟨by simp, by intro d hd; simp at hd; subst hd; exact hc⟩
  have := strip_tok_append (t := [c]) (s := s) ht
  simp only [List.singleton_append] at this
  rw [this]; rfl

theorem firstTok_blank_tok {t s : Str} (ht : IsTok t) : firstTok (' ' :: (t ++ ' ' :: s)) = some t := by
  unfold firstTok
  rw [show (' ' :: (t ++ ' ' :: s)) = [' '] ++ (t ++ ' ' :: s) from rfl, splitWs_allWs_append AllWs_one,
    splitWs_tok_ws ht isWs_space]
  rfl

theorem firstTok_tok {t s : Str} (ht : IsTok t) : firstTok (t ++ ' ' :: s) = some t := by
  unfold firstTok
  rw [splitWs_tok_ws ht isWs_space]
  rfl

theorem firstTok_blank_tok_end {t : Str} (ht : IsTok t) : firstTok (' ' :: t) = some t := by
  unfold firstTok
  rw [show (' ' :: t) = [' '] ++ t from rfl, splitWs_allWs_append AllWs_one, splitWs_tok_end ht]
  rfl

theorem parseInt_natDigits (n : Nat) : parseInt (natDigits n) = some (n : Int) := by
  have := parseInt_fmtIbody_nat n
  have hneg : ¬ ((n : Int) < 0) := by omega
  simpa [fmtIbody, signStr, hneg] using this

theorem natDigits_two : natDigits 2 = ['2'] := by
  unfold natDigits; simp [digitChar]
theorem natDigits_three : natDigits 3 = ['3'] := by
  unfold natDigits; simp [digitChar]

/-! ## XCFG: string literals of the writer and the reader as character lists -/

theorem lNumEq : "Number of particles = ".toList = ['N', 'u', 'm', 'b', 'e', 'r', ' ', 'o', 'f', ' ', 'p', 'a', 'r', 't', 'i', 'c', 'l', 'e', 's', ' ', '=', ' '] := rfl
theorem lNum : "Number of particles =".toList = ['N', 'u', 'm', 'b', 'e', 'r', ' ', 'o', 'f', ' ', 'p', 'a', 'r', 't', 'i', 'c', 'l', 'e', 's', ' ', '='] := rfl
theorem lAeq : "A = ".toList = ['A', ' ', '=', ' '] := rfl
theorem lA : "A =".toList = ['A', ' ', '='] := rfl
theorem lAng : " Angstrom".toList = [' ', 'A', 'n', 'g', 's', 't', 'r', 'o', 'm'] := rfl
theorem lH0 : "H0(".toList = ['H', '0', '('] := rfl
theorem lH0e : ") = ".toList = [')', ' ', '=', ' '] := rfl
theorem lHA : " A".toList = [' ', 'A'] := rfl
theorem lNoVel : ".NO_VELOCITY.".toList = ['.', 'N', 'O', '_', 'V', 'E', 'L', 'O', 'C', 'I', 'T', 'Y', '.'] := rfl
theorem lEcEq : "entry_count = ".toList = ['e', 'n', 't', 'r', 'y', '_', 'c', 'o', 'u', 'n', 't', ' ', '=', ' '] := rfl
theorem lEc : "entry_count =".toList = ['e', 'n', 't', 'r', 'y', '_', 'c', 'o', 'u', 'n', 't', ' ', '='] := rfl
theorem lAux : "auxiliary[".toList = ['a', 'u', 'x', 'i', 'l', 'i', 'a', 'r', 'y', '['] := rfl
theorem lAuxE : "] = ".toList = [']', ' ', '=', ' '] := rfl
theorem lAuxM : "] =".toList = [']', ' ', '='] := rfl
theorem lAu : " [au]".toList = [' ', '[', 'a', 'u', ']'] := rfl
theorem lOcc : "occupancy".toList = ['o', 'c', 'c', 'u', 'p', 'a', 'n', 'c', 'y'] := rfl
theorem lUiso : "Uiso".toList = ['U', 'i', 's', 'o'] := rfl
theorem lBiso : "Biso".toList = ['B', 'i', 's', 'o'] := rfl
theorem lU11 : "U11".toList = ['U', '1', '1'] := rfl
theorem lU22 : "U22".toList = ['U', '2', '2'] := rfl
theorem lU33 : "U33".toList = ['U', '3', '3'] := rfl
theorem lU12 : "U12".toList = ['U', '1', '2'] := rfl
theorem lU13 : "U13".toList = ['U', '1', '3'] := rfl
theorem lU23 : "U23".toList = ['U', '2', '3'] := rfl
theorem lAuxN : "aux".toList = ['a', 'u', 'x'] := rfl

/-! ## XCFG header records -/

def kNum : Str := ['N', 'u', 'm', 'b', 'e', 'r', ' ', 'o', 'f', ' ', 'p', 'a', 'r', 't', 'i', 'c', 'l', 'e', 's', ' ', '=']
def kA : Str := ['A', ' ', '=']
def kH0 : Str := ['H', '0', '(']
def kNoVel : Str := ['.', 'N', 'O', '_', 'V', 'E', 'L', 'O', 'C', 'I', 'T', 'Y', '.']
def kEc : Str := ['e', 'n', 't', 'r', 'y', '_', 'c', 'o', 'u', 'n', 't', ' ', '=']

/-- one step of the header loop with the keywords as character lists -/
theorem xcfgHeader_cons (line : Str) (rest : List Str) (h : XHdr) :
    xcfgHeader (line :: rest) h =
    if (strip line).isEmpty || line.head? == some '#' then xcfgHeader rest h
    else if h.n.isNone then
      if !isPrefixOf kNum line then .error .sfe else
      match (firstTok (line.drop 21)).bind parseInt with
      | some n => xcfgHeader rest { h with n := some n }
      | none => .error .sfe
    else if isPrefixOf kA line then
      match (firstTok (line.drop 3)).bind parseDec with
      | some a => xcfgHeader rest { h with a := some a }
      | none => .error .sfe
    else if isPrefixOf kH0 line then
      match (line.drop 3).head?.bind digit1, (line.drop 5).head?.bind digit1, (firstTok (line.drop 10)).bind parseDec with
      | some i, some j, some v =>
        if 1 ≤ i ∧ i ≤ 3 ∧ 1 ≤ j ∧ j ≤ 3 then xcfgHeader rest { h with h0 := h.h0.set ((i - 1) * 3 + (j - 1)) (some v) }
        else .error .unmodelled
      | _, _, _ => .error .sfe
    else if isPrefixOf kNoVel line then xcfgHeader rest { h with noVel := true }
    else if isPrefixOf kEc line then
      match (firstTok (line.drop 13)).bind parseInt with
      | some n => xcfgHeader rest { h with entryCount := some n }
      | none => .error .sfe
    else match auxMatch line with
      | some (idx, r) =>
        match firstTok r with
        | some nm => xcfgHeader rest { h with aux := (h.aux.filter (fun p => p.1 != idx)) ++ [(idx, nm)] }
        | none => .error .sfe
      | none => .ok (h, rest) := by
  rw [xcfgHeader]
  rfl

theorem xh_n (n : Nat) (rest : List Str) (h : XHdr) (hn : h.n = none) :
    xcfgHeader (("Number of particles = ".toList ++ natDigits n) :: rest) h =
      xcfgHeader rest { h with n := some (n : Int) } := by
  rw [xcfgHeader_cons, lNumEq]
  simp only [List.cons_append, List.nil_append]
  rw [strip_cons_nonblank _ (by decide)]
  simp only [hn, isPrefixOf, kNum, List.head?_cons, Option.isNone_none, List.take, List.length_cons, List.length_nil,
    List.drop_succ_cons, List.drop_zero]
  rw [firstTok_blank_tok_end (IsTok_natDigits n)]
  simp [parseInt_natDigits]

theorem IsTok_g8 (x : Rat) : IsTok (g8 x) := IsTok_fmtG 8 x
theorem parseDec_g8 (x : Rat) : parseDec (g8 x) = some (roundSig 8 x) := parseDec_fmtG 8 x

theorem xh_A (x : Rat) (rest : List Str) (h : XHdr) (hn : h.n.isNone = false) :
    xcfgHeader (("A = ".toList ++ g8 x ++ " Angstrom".toList) :: rest) h =
      xcfgHeader rest { h with a := some (roundSig 8 x) } := by
  rw [xcfgHeader_cons, lAeq, lAng]
  simp only [List.cons_append, List.nil_append]
  rw [strip_cons_nonblank _ (by decide)]
  simp only [hn, isPrefixOf, kA, List.head?_cons, List.take, List.length_cons, List.length_nil,
    List.drop_succ_cons, List.drop_zero]
  rw [firstTok_blank_tok (IsTok_g8 x)]
  simp [parseDec_g8]

theorem xh_H0c (ci cj : Char) (i j : Nat) (hci : digit1 ci = some i) (hcj : digit1 cj = some j)
    (hi : 1 ≤ i ∧ i ≤ 3) (hj : 1 ≤ j ∧ j ≤ 3) (v : Rat) (rest : List Str) (h : XHdr) (hn : h.n.isNone = false) :
    xcfgHeader (('H' :: '0' :: '(' :: ci :: ',' :: cj :: ')' :: ' ' :: '=' :: ' ' :: (g8 v ++ [' ', 'A'])) :: rest) h =
      xcfgHeader rest { h with h0 := h.h0.set ((i - 1) * 3 + (j - 1)) (some (roundSig 8 v)) } := by
  rw [xcfgHeader_cons]
  rw [strip_cons_nonblank _ (by decide)]
  simp only [hn, isPrefixOf, kA, kH0, List.head?_cons, List.take, List.length_cons, List.length_nil,
    List.drop_succ_cons, List.drop_zero]
  rw [firstTok_tok (IsTok_g8 v)]
  simp [parseDec_g8, hci, hcj, hi, hj]

theorem xh_H0 (i j : Nat) (hi : 1 ≤ i ∧ i ≤ 3) (hj : 1 ≤ j ∧ j ≤ 3) (v : Rat) (rest : List Str) (h : XHdr)
    (hn : h.n.isNone = false) :
    xcfgHeader (("H0(".toList ++ nameI i ++ [','] ++ nameI j ++ ") = ".toList ++ g8 v ++ " A".toList) :: rest) h =
      xcfgHeader rest { h with h0 := h.h0.set ((i - 1) * 3 + (j - 1)) (some (roundSig 8 v)) } := by
  have hd : ∀ k : Nat, 1 ≤ k ∧ k ≤ 3 → ∃ c, nameI k = [c] ∧ digit1 c = some k := by
    intro k hk
    have : k = 1 ∨ k = 2 ∨ k = 3 := by omega
    rcases this with rfl | rfl | rfl
    · exact ⟨'1', natDigits_one, by decide⟩
    · exact ⟨'2', natDigits_two, by decide⟩
    · exact ⟨'3', natDigits_three, by decide⟩
  obtain ⟨ci, e1, hci⟩ := hd i hi
  obtain ⟨cj, e2, hcj⟩ := hd j hj
  rw [e1, e2, lH0, lH0e, lHA]
  simp only [List.cons_append, List.nil_append]
  exact xh_H0c ci cj i j hci hcj hi hj v rest h hn

theorem xh_novel (rest : List Str) (h : XHdr) (hn : h.n.isNone = false) :
    xcfgHeader (".NO_VELOCITY.".toList :: rest) h = xcfgHeader rest { h with noVel := true } := by
  rw [xcfgHeader_cons, lNoVel]
  rw [strip_cons_nonblank _ (by decide)]
  simp [hn, isPrefixOf, kA, kH0, kNoVel]

theorem xh_ec (k : Nat) (rest : List Str) (h : XHdr) (hn : h.n.isNone = false) :
    xcfgHeader (("entry_count = ".toList ++ natDigits k) :: rest) h =
      xcfgHeader rest { h with entryCount := some (k : Int) } := by
  rw [xcfgHeader_cons, lEcEq]
  simp only [List.cons_append, List.nil_append]
  rw [strip_cons_nonblank _ (by decide)]
  simp only [hn, isPrefixOf, kA, kH0, kNoVel, kEc, List.head?_cons, List.take, List.length_cons, List.length_nil,
    List.drop_succ_cons, List.drop_zero]
  rw [firstTok_blank_tok_end (IsTok_natDigits k)]
  simp [parseInt_natDigits]

theorem xh_blank (rest : List Str) (h : XHdr) : xcfgHeader ([] :: rest) h = xcfgHeader rest h := by
  rw [xcfgHeader_cons]
  simp [strip, lstrip, rstrip]

def kAux : Str := ['a', 'u', 'x', 'i', 'l', 'i', 'a', 'r', 'y', '[']

theorem auxMatch_eq (line : Str) : auxMatch line =
    if !isPrefixOf kAux line then none else
    if ((line.drop 10).takeWhile isDigit).isEmpty || !isPrefixOf [']', ' ', '='] ((line.drop 10).dropWhile isDigit) then none
    else some (numOf ((line.drop 10).takeWhile isDigit), ((line.drop 10).dropWhile isDigit).drop 3) := rfl

theorem auxMatch_line (i : Nat) (nm : Str) :
    auxMatch ("auxiliary[".toList ++ natDigits i ++ "] = ".toList ++ nm ++ " [au]".toList) = some (i, ' ' :: (nm ++ " [au]".toList)) := by
  rw [auxMatch_eq, lAux, lAuxE]
  simp only [List.cons_append, List.nil_append, List.append_assoc, List.drop_succ_cons, List.drop_zero]
  have h := takeWhile_digits (natDigits i) (']' :: ' ' :: '=' :: ' ' :: (nm ++ " [au]".toList)) (allDigits_natDigits i)
    (by simp [isDigit])
  rw [h.1, h.2]
  simp [isPrefixOf, kAux, isEmpty_false_of_ne (natDigits_ne_nil i), numOf_natDigits]

theorem xh_aux (i : Nat) (nm : Str) (hnm : IsTok nm) (rest : List Str) (h : XHdr) (hn : h.n.isNone = false) :
    xcfgHeader (("auxiliary[".toList ++ natDigits i ++ "] = ".toList ++ nm ++ " [au]".toList) :: rest) h =
      xcfgHeader rest { h with aux := (h.aux.filter (fun p => p.1 != i)) ++ [(i, nm)] } := by
  have hft : firstTok (' ' :: (nm ++ " [au]".toList)) = some nm := by rw [lAu]; exact firstTok_blank_tok hnm
  rw [xcfgHeader_cons, auxMatch_line]
  simp only [hft]
  rw [lAux]
  simp only [List.cons_append, List.nil_append, List.append_assoc]
  rw [strip_cons_nonblank _ (by decide)]
  simp [hn, isPrefixOf, kA, kH0, kNoVel, kEc]

/-- a line that starts with a digit or a minus sign ends the header (`break`; the line is consumed) -/
theorem xh_break (c : Char) (cs : Str) (hc : isDigit c = true ∨ c = '-') (rest : List Str) (h : XHdr)
    (hn : h.n.isNone = false) : xcfgHeader ((c :: cs) :: rest) h = .ok (h, rest) := by
  have hws : isWs c = false := by
    rcases hc with hc | rfl
    · exact isWs_of_isDigit hc
    · decide
  have hne : ∀ k : Char, isDigit k = false → k ≠ '-' → c ≠ k := by
    intro k hk hk2 e; subst e
    rcases hc with hc | hc
    · rw [hk] at hc; cases hc
    · exact hk2 hc
  have h1 := hne '#' (by decide) (by decide)
  have h2 := hne 'A' (by decide) (by decide)
  have h3 := hne 'H' (by decide) (by decide)
  have h4 := hne '.' (by decide) (by decide)
  have h5 := hne 'e' (by decide) (by decide)
  have h6 := hne 'a' (by decide) (by decide)
  rw [xcfgHeader_cons, auxMatch_eq, strip_cons_nonblank _ hws]
  simp [hn, isPrefixOf, kA, kH0, kNoVel, kEc, kAux, h1, h2, h3, h4, h5, h6]

theorem fmtFbody_head (p : Nat) (x : Rat) : ∃ c cs, fmtFbody p x = c :: cs ∧ (isDigit c = true ∨ c = '-') := by
  unfold fmtFbody signStr fixedBody
  obtain ⟨c, cs, hcs, hc⟩ := natDigits_head (scaledAbs p x / 10 ^ p)
  by_cases hx : x < 0
  · refine ⟨'-', natDigits (scaledAbs p x / 10 ^ p) ++ (if p = 0 then [] else '.' :: fixDigits p (scaledAbs p x)), ?_, Or.inr rfl⟩
    simp only [hx, decide_true, if_true, List.singleton_append]
  · refine ⟨c, cs ++ (if p = 0 then [] else '.' :: fixDigits p (scaledAbs p x)), ?_, Or.inl hc⟩
    simp [hx, hcs]

theorem fmtF_zero (p : Nat) (x : Rat) : fmtF 0 p x = fmtFbody p x := by simp [fmtF, padLeft]

theorem xh_mass (m : Rat) (rest : List Str) (h : XHdr) (hn : h.n.isNone = false) :
    xcfgHeader (fmtF 0 4 m :: rest) h = .ok (h, rest) := by
  obtain ⟨c, cs, e, hc⟩ := fmtFbody_head 4 m
  rw [fmtF_zero, e]
  exact xh_break c cs hc rest h hn

def auxLine (p : Str × Nat) : Str :=
  "auxiliary[".toList ++ natDigits p.2 ++ "] = ".toList ++ p.1 ++ " [au]".toList

/-- index/name pairs the reader collects from the `auxiliary[i] = name` records -/
def auxPairs (l : List Str) (k : Nat) : List (Nat × Str) := (l.zipIdx k).map (fun p => (p.2, p.1))

theorem auxPairs_cons (a : Str) (l : List Str) (k : Nat) : auxPairs (a :: l) k = (k, a) :: auxPairs l (k + 1) := by
  simp [auxPairs, List.zipIdx_cons]

theorem xh_auxes (l : List Str) : ∀ (k : Nat) (h : XHdr) (rest : List Str), h.n.isNone = false →
    (∀ nm ∈ l, IsTok nm) → (∀ p ∈ h.aux, p.1 < k) →
    xcfgHeader ((l.zipIdx k).map auxLine ++ rest) h = xcfgHeader rest { h with aux := h.aux ++ auxPairs l k } := by
  induction l with
  | nil => intro k h rest _ _ _; simp [auxPairs]
  | cons a l ih =>
    intro k h rest hn htok hlt
    have hf : h.aux.filter (fun p => p.1 != k) = h.aux := by
      apply List.filter_eq_self.2
      intro p hp
      have := hlt p hp
      simp only [bne_iff_ne, ne_eq]
      omega
    rw [List.zipIdx_cons, List.map_cons, List.cons_append]
    show xcfgHeader (("auxiliary[".toList ++ natDigits k ++ "] = ".toList ++ a ++ " [au]".toList) :: _) h = _
    rw [xh_aux k a (htok a (by simp)) _ h hn, hf,
      ih (k + 1) { h with aux := h.aux ++ [(k, a)] } rest hn (fun nm hnm => htok nm (by simp [hnm]))]
    · simp [auxPairs_cons]
    · intro p hp
      simp only [List.mem_append, List.mem_singleton] at hp
      rcases hp with hp | rfl
      · have := hlt p hp; omega
      · simp

theorem auxPairs_foldl_max (l : List Str) : ∀ (k m : Nat),
    ((auxPairs l k).map (·.1)).foldl max m = if l = [] then m else max m (k + l.length - 1) := by
  induction l with
  | nil => intro k m; simp [auxPairs]
  | cons a l ih =>
    intro k m
    rw [auxPairs_cons, List.map_cons, List.foldl_cons, ih (k + 1) (max m k)]
    by_cases hl : l = []
    · subst hl; simp
    · simp only [hl, if_false, List.length_cons, reduceCtorEq]
      have : 0 < l.length := List.length_pos_iff.2 hl
      omega

theorem auxPairs_isEmpty (l : List Str) (k : Nat) : (auxPairs l k).isEmpty = l.isEmpty := by
  cases l <;> simp [auxPairs]

/-- the reader's count of auxiliaries (`max(keys) + 1`) is the number of names written -/
theorem auxnum_eq (l : List Str) :
    (if (auxPairs l 0).isEmpty then 0 else ((auxPairs l 0).map (·.1)).foldl max 0 + 1) = l.length := by
  rw [auxPairs_isEmpty, auxPairs_foldl_max]
  cases l with
  | nil => rfl
  | cons a l => simp

theorem auxPairs_find (l : List Str) : ∀ (k i : Nat) (hi : i < l.length),
    (auxPairs l k).find? (fun p => p.1 == k + i) = some (k + i, l[i]) := by
  induction l with
  | nil => intro k i hi; simp at hi
  | cons a l ih =>
    intro k i hi
    rw [auxPairs_cons]
    cases i with
    | zero => simp
    | succ i =>
      have hne : (k == k + (i + 1)) = false := by simp
      rw [List.find?_cons]
      simp only [hne]
      have := ih (k + 1) i (by simpa using hi)
      rw [show k + (i + 1) = k + 1 + i by omega]
      simpa using this

/-- the reader's list of auxiliary names is the list written -/
theorem auxNames_eq (l : List Str) :
    (List.range l.length).map (fun i =>
      match (auxPairs l 0).find? (fun p => p.1 == i) with
      | some p => p.2
      | none => "aux".toList ++ natDigits i) = l := by
  apply List.ext_getElem
  · simp
  · intro i h1 h2
    have hi : i < l.length := h2
    have := auxPairs_find l 0 i hi
    simp only [Nat.zero_add] at this
    simp [this]

theorem range_map_eq (l : List Str) (g : Nat → Str) (hg : ∀ i (hi : i < l.length), g i = l[i]) :
    (List.range l.length).map g = l := by
  apply List.ext_getElem
  · simp
  · intro i h1 h2
    simp [hg i h2]

/-! ## XCFG data block -/

def usOf (L : XLayout) (a : XAtom) : List Rat :=
  if L.uMode = 0 then [] else if L.uMode = 1 then [a.u.getD 0 0]
  else [a.u.getD 0 0, a.u.getD 4 0, a.u.getD 8 0] ++ (if L.u12 then [a.u.getD 1 0] else []) ++
       (if L.u13 then [a.u.getD 2 0] else []) ++ (if L.u23 then [a.u.getD 5 0] else [])

def velOf (L : XLayout) (a : XAtom) : List Rat :=
  if L.noVel then [] else match a.v with | some v => [v.x, v.y, v.z] | none => []

/-- the numbers of one entry line, in column order -/
def entryVals (L : XLayout) (a : XAtom) : List Rat :=
  xcfgPos L a ++ velOf L a ++ a.aux ++ (if L.occ then [a.occ] else []) ++ usOf L a

theorem xcfgEntry_eq (L : XLayout) (a : XAtom) : xcfgEntry L a = ssv ((entryVals L a).map g8) := rfl

def uCount (L : XLayout) : Nat :=
  if L.uMode = 0 then 0 else if L.uMode = 1 then 1
  else 3 + (if L.u12 then 1 else 0) + (if L.u13 then 1 else 0) + (if L.u23 then 1 else 0)

theorem usOf_length (L : XLayout) (a : XAtom) : (usOf L a).length = uCount L := by
  unfold usOf uCount
  split
  · rfl
  · split
    · rfl
    · cases L.u12 <;> cases L.u13 <;> cases L.u23 <;> rfl

/-- the non-derived stored auxiliaries: the names whose values an atom carries in `aux` -/
def storedOf (d : XcfgS) : List Str := d.storedAux.filter (fun n => !isDerivedAux n)

def uNamesOf (L : XLayout) : List Str :=
  if L.uMode = 0 then [] else if L.uMode = 1 then ["Uiso".toList]
  else ["U11".toList, "U22".toList, "U33".toList] ++ (if L.u12 then ["U12".toList] else []) ++
       (if L.u13 then ["U13".toList] else []) ++ (if L.u23 then ["U23".toList] else [])

theorem uNamesOf_length (L : XLayout) : (uNamesOf L).length = uCount L := by
  unfold uNamesOf uCount
  split
  · rfl
  · split
    · rfl
    · cases L.u12 <;> cases L.u13 <;> cases L.u23 <;> rfl

theorem layout_aux (d : XcfgS) :
    (xcfgLayout d).aux =
      storedOf d ++ (if (xcfgLayout d).occ then ["occupancy".toList] else []) ++ uNamesOf (xcfgLayout d) := rfl

theorem layout_aux_length (d : XcfgS) :
    (xcfgLayout d).aux.length =
      (storedOf d).length + (if (xcfgLayout d).occ then 1 else 0) + uCount (xcfgLayout d) := by
  rw [layout_aux, List.length_append, List.length_append, uNamesOf_length]
  cases (xcfgLayout d).occ <;> rfl

/-- what the reader makes of one written entry line (the atom of `quantXcfg`) -/
def xreadOf (L : XLayout) (aq : Rat) (a : XAtom) : XRead :=
  let pos := xcfgPos L a
  let vel := if L.noVel then none else a.v.map (fun v => v.map (roundSig 8))
  ⟨capitalize a.el, ⟨aq * roundSig 8 (pos.getD 0 0), aq * roundSig 8 (pos.getD 1 0), aq * roundSig 8 (pos.getD 2 0)⟩, vel,
   L.aux.zip ((a.aux ++ (if L.occ then [a.occ] else []) ++ usOf L a).map (roundSig 8))⟩

/-- `quantXcfg` as a function of the layout -/
def quantXcfgL (L : XLayout) (d : XcfgS) : XcfgRead :=
  ⟨d.atoms.length, roundSig 8 (L.a : Rat), d.base.map (roundSig 8), d.atoms.map (xreadOf L (roundSig 8 (L.a : Rat)))⟩

theorem quantXcfg_eq (d : XcfgS) : quantXcfg d = quantXcfgL (xcfgLayout d) d := rfl

theorem splitWs_entry (vs : List Rat) : splitWs (ssv (vs.map g8)) = vs.map g8 := by
  rw [ssv, splitWs_joinSep_pad AllWs_one (by simp) _ _ (forall₂_map_same g8 (fun x => IsTok_fmtG 8 x) vs)]

theorem mapM_parseDec_g8 (vs : List Rat) : (vs.map g8).mapM parseDec = some (vs.map (roundSig 8)) := by
  induction vs with
  | nil => rfl
  | cons v vs ih => simp [parseDec_g8, ih]

theorem xcfgData_entry (L : XLayout) (aq : Rat) (ec : Nat) (a : XAtom) (el : Str) (rest : List Str)
    (hlen : (entryVals L a).length = ec) (hv : L.noVel = false → a.v.isSome = true) :
    xcfgData aq L.noVel ec L.aux (some el) (xcfgEntry L a :: rest) =
      match xcfgData aq L.noVel ec L.aux (some el) rest with
      | .ok as => .ok ({ xreadOf L aq a with el := el } :: as)
      | .error k => .error k := by
  have hw := splitWs_entry (entryVals L a)
  have hm := mapM_parseDec_g8 (entryVals L a)
  have hlen' : ((entryVals L a).map g8).length = ec := by simpa using hlen
  rw [xcfgData, xcfgEntry_eq, hw]
  cases hnv : L.noVel with
  | true =>
    have he : entryVals L a = (xcfgPos L a).getD 0 0 :: (xcfgPos L a).getD 1 0 :: (xcfgPos L a).getD 2 0 ::
        (a.aux ++ (if L.occ then [a.occ] else []) ++ usOf L a) := by
      simp [entryVals, velOf, hnv, xcfgPos]
    rw [he] at hm hlen' ⊢
    simp only [List.map_cons] at hm hlen' ⊢
    simp only [hlen', hm]
    generalize xcfgData aq true ec L.aux (some el) rest = r
    cases r <;> simp [xreadOf, hnv]
  | false =>
    obtain ⟨v, hav⟩ := Option.isSome_iff_exists.1 (hv hnv)
    have he : entryVals L a = (xcfgPos L a).getD 0 0 :: (xcfgPos L a).getD 1 0 :: (xcfgPos L a).getD 2 0 ::
        v.x :: v.y :: v.z :: (a.aux ++ (if L.occ then [a.occ] else []) ++ usOf L a) := by
      simp [entryVals, velOf, hnv, hav, xcfgPos]
    rw [he] at hm hlen' ⊢
    simp only [List.map_cons] at hm hlen' ⊢
    simp only [hlen', hm]
    generalize xcfgData aq false ec L.aux (some el) rest = r
    cases r <;> simp [xreadOf, hnv, hav, V3.map]

theorem xcfgData_mass (aq : Rat) (nv : Bool) (ec : Nat) (names : List Str) (pel : Option Str) (m : Rat) (rest : List Str) :
    xcfgData aq nv ec names pel (fmtF 0 4 m :: rest) = xcfgData aq nv ec names pel rest := by
  have ht : IsTok (fmtFbody 4 m) := IsTok_fmtFbody 4 m
  have hf : isFloatTok (fmtFbody 4 m) = true := by simp [isFloatTok, parseDec_fmtFbody]
  rw [xcfgData.eq_def]
  simp only [fmtF_zero, splitWs_tok_end ht, hf, if_true]

theorem xcfgData_el (aq : Rat) (nv : Bool) (ec : Nat) (names : List Str) (pel : Option Str) (el : Str) (rest : List Str)
    (he : elemOk el = true) (hf : isFloatTok el = false) :
    xcfgData aq nv ec names pel (el :: rest) = xcfgData aq nv ec names (some (capitalize el)) rest := by
  have ht : IsTok el := IsTok_of_elemOk he
  have hs : strip el = el := by
    have := strip_pad (a := []) (b := []) (s := el) (by intro c h; cases h) (by intro c h; cases h) ht.2
    simpa using this
  rw [xcfgData.eq_def]
  simp only [splitWs_tok_end ht, hf, hs, Bool.false_eq_true, if_false]

/-- per-atom conditions: the element is one non-numeric token, the atom carries one value per stored
auxiliary, and a velocity when the first atom has one -/
def atomWF (L : XLayout) (nst : Nat) (a : XAtom) : Prop :=
  elemOk a.el = true ∧ isFloatTok a.el = false ∧ a.aux.length = nst ∧ (L.noVel = false → a.v.isSome = true)

theorem entryVals_length (L : XLayout) (nst : Nat) (a : XAtom) (ha : atomWF L nst a)
    (hL : L.aux.length = nst + (if L.occ then 1 else 0) + uCount L) :
    (entryVals L a).length = (if L.noVel then 3 else 6) + L.aux.length := by
  obtain ⟨_, _, hax, hv⟩ := ha
  have hp : (xcfgPos L a).length = 3 := rfl
  have hvel : (velOf L a).length = if L.noVel then 0 else 3 := by
    unfold velOf
    cases hnv : L.noVel with
    | true => rfl
    | false =>
      obtain ⟨v, hav⟩ := Option.isSome_iff_exists.1 (hv hnv)
      simp [hav]
  have ho : (if L.occ then [a.occ] else []).length = if L.occ then 1 else 0 := by cases L.occ <;> rfl
  simp only [entryVals, List.length_append, hp, hvel, hax, ho, usOf_length, hL]
  cases L.noVel <;> simp <;> omega

theorem xcfgData_atoms (L : XLayout) (aq : Rat) (nst : Nat)
    (hL : L.aux.length = nst + (if L.occ then 1 else 0) + uCount L) :
    ∀ (as : List XAtom) (e : Str), (∀ a ∈ as, atomWF L nst a) →
      xcfgData aq L.noVel ((if L.noVel then 3 else 6) + L.aux.length) L.aux (some (capitalize e))
        (xcfgAtomLines L (some e) as) = .ok (as.map (xreadOf L aq)) := by
  intro as
  induction as with
  | nil => intro e _; rfl
  | cons a as ih =>
    intro e hwf
    have ha := hwf a (by simp)
    have hlen := entryVals_length L nst a ha hL
    have ihh := ih a.el (fun b hb => hwf b (by simp [hb]))
    have hentry : xcfgData aq L.noVel ((if L.noVel then 3 else 6) + L.aux.length) L.aux (some (capitalize a.el))
        (xcfgEntry L a :: xcfgAtomLines L (some a.el) as) = .ok (xreadOf L aq a :: as.map (xreadOf L aq)) := by
      rw [xcfgData_entry L aq _ a (capitalize a.el) _ hlen ha.2.2.2, ihh]
      rfl
    by_cases he : e = a.el
    · subst he
      simp only [xcfgAtomLines, if_true, List.nil_append, List.map_cons]
      exact hentry
    · have : (some e = some a.el) = False := by simp [he]
      simp only [xcfgAtomLines, this, if_false, List.cons_append, List.nil_append, List.map_cons]
      rw [xcfgData_mass, xcfgData_el _ _ _ _ _ _ _ ha.1 ha.2.1]
      exact hentry

/-! ## XCFG: the whole header -/

theorem list9 {α} (l : List α) (h : l.length = 9) :
    ∃ b0 b1 b2 b3 b4 b5 b6 b7 b8, l = [b0, b1, b2, b3, b4, b5, b6, b7, b8] := by
  match l, h with
  | [b0, b1, b2, b3, b4, b5, b6, b7, b8], _ => exact ⟨b0, b1, b2, b3, b4, b5, b6, b7, b8, rfl⟩

def h0Line (base : List Rat) (k : Nat) : Str :=
  "H0(".toList ++ nameI (k / 3 + 1) ++ [','] ++ nameI (k % 3 + 1) ++ ") = ".toList ++ g8 (base.getD k 0) ++ " A".toList

/-! explicit-field forms of the header steps (no nested record updates) -/

theorem xh_n' (k : Nat) (rest : List Str) (a : Option Rat) (h0 : List (Option Rat)) (nv : Bool) (ec : Option Int)
    (aux : List (Nat × Str)) :
    xcfgHeader (("Number of particles = ".toList ++ natDigits k) :: rest) ⟨none, a, h0, nv, ec, aux⟩ =
      xcfgHeader rest ⟨some (k : Int), a, h0, nv, ec, aux⟩ := xh_n k rest _ rfl

theorem xh_A' (x : Rat) (rest : List Str) (n : Int) (a : Option Rat) (h0 : List (Option Rat)) (nv : Bool) (ec : Option Int)
    (aux : List (Nat × Str)) :
    xcfgHeader (("A = ".toList ++ g8 x ++ " Angstrom".toList) :: rest) ⟨some n, a, h0, nv, ec, aux⟩ =
      xcfgHeader rest ⟨some n, some (roundSig 8 x), h0, nv, ec, aux⟩ := xh_A x rest _ rfl

theorem xh_H0' (i j : Nat) (hi : 1 ≤ i ∧ i ≤ 3) (hj : 1 ≤ j ∧ j ≤ 3) (v : Rat) (rest : List Str)
    (n : Int) (a : Option Rat) (h0 : List (Option Rat)) (nv : Bool) (ec : Option Int) (aux : List (Nat × Str)) :
    xcfgHeader (("H0(".toList ++ nameI i ++ [','] ++ nameI j ++ ") = ".toList ++ g8 v ++ " A".toList) :: rest)
        ⟨some n, a, h0, nv, ec, aux⟩ =
      xcfgHeader rest ⟨some n, a, h0.set ((i - 1) * 3 + (j - 1)) (some (roundSig 8 v)), nv, ec, aux⟩ :=
  xh_H0 i j hi hj v rest _ rfl

theorem xh_novel' (rest : List Str) (n : Int) (a : Option Rat) (h0 : List (Option Rat)) (nv : Bool) (ec : Option Int)
    (aux : List (Nat × Str)) :
    xcfgHeader (".NO_VELOCITY.".toList :: rest) ⟨some n, a, h0, nv, ec, aux⟩ =
      xcfgHeader rest ⟨some n, a, h0, true, ec, aux⟩ := xh_novel rest _ rfl

theorem xh_ec' (k : Nat) (rest : List Str) (n : Int) (a : Option Rat) (h0 : List (Option Rat)) (nv : Bool) (ec : Option Int)
    (aux : List (Nat × Str)) :
    xcfgHeader (("entry_count = ".toList ++ natDigits k) :: rest) ⟨some n, a, h0, nv, ec, aux⟩ =
      xcfgHeader rest ⟨some n, a, h0, nv, some (k : Int), aux⟩ := xh_ec k rest _ rfl

theorem xh_auxes' (l : List Str) (htok : ∀ nm ∈ l, IsTok nm) (rest : List Str) (n : Int) (a : Option Rat)
    (h0 : List (Option Rat)) (nv : Bool) (ec : Option Int) :
    xcfgHeader ((l.zipIdx 0).map auxLine ++ rest) ⟨some n, a, h0, nv, ec, []⟩ =
      xcfgHeader rest ⟨some n, a, h0, nv, ec, auxPairs l 0⟩ := by
  have := xh_auxes l 0 ⟨some n, a, h0, nv, ec, []⟩ rest rfl htok (by intro p hp; cases hp)
  simpa using this

theorem xh_mass' (m : Rat) (rest : List Str) (n : Int) (a : Option Rat) (h0 : List (Option Rat)) (nv : Bool) (ec : Option Int)
    (aux : List (Nat × Str)) :
    xcfgHeader (fmtF 0 4 m :: rest) ⟨some n, a, h0, nv, ec, aux⟩ = .ok (⟨some n, a, h0, nv, ec, aux⟩, rest) :=
  xh_mass m rest _ rfl

theorem xh_H0block (base : List Rat) (hb : base.length = 9) (rest : List Str)
    (n : Int) (a : Option Rat) (nv : Bool) (ec : Option Int) (aux : List (Nat × Str)) :
    xcfgHeader ((List.range 9).map (h0Line base) ++ rest) ⟨some n, a, List.replicate 9 none, nv, ec, aux⟩ =
      xcfgHeader rest ⟨some n, a, base.map (fun b => some (roundSig 8 b)), nv, ec, aux⟩ := by
  obtain ⟨b0, b1, b2, b3, b4, b5, b6, b7, b8, rfl⟩ := list9 base hb
  have r9 : List.range 9 = [0, 1, 2, 3, 4, 5, 6, 7, 8] := by decide
  rw [r9]
  simp only [List.map_cons, List.map_nil, List.cons_append, List.nil_append]
  unfold h0Line
  simp only [Nat.reduceDiv, Nat.reduceMod, Nat.reduceAdd]
  rw [xh_H0' 1 1 (by omega) (by omega), xh_H0' 1 2 (by omega) (by omega), xh_H0' 1 3 (by omega) (by omega),
    xh_H0' 2 1 (by omega) (by omega), xh_H0' 2 2 (by omega) (by omega), xh_H0' 2 3 (by omega) (by omega),
    xh_H0' 3 1 (by omega) (by omega), xh_H0' 3 2 (by omega) (by omega), xh_H0' 3 3 (by omega) (by omega)]
  rfl

def numLine (n : Nat) : Str := "Number of particles = ".toList ++ natDigits n
def aLine (x : Rat) : Str := "A = ".toList ++ g8 x ++ " Angstrom".toList
def ecLine (k : Nat) : Str := "entry_count = ".toList ++ natDigits k

/-- `writeXcfg` as a function of the layout, lines right-nested -/
def writeXcfgL (L : XLayout) (d : XcfgS) : List Str :=
  numLine d.atoms.length :: aLine (L.a : Rat) ::
  ((List.range 9).map (h0Line d.base) ++
  ((if L.noVel then [".NO_VELOCITY.".toList] else []) ++
  (ecLine ((if L.noVel then 3 else 6) + L.aux.length) ::
  ((L.aux.zipIdx.map auxLine) ++ ([] :: xcfgAtomLines L none d.atoms)))))

theorem writeXcfgL_eq (L : XLayout) (d : XcfgS) :
    [numLine d.atoms.length, aLine (L.a : Rat)] ++
      (List.range 9).map (h0Line d.base) ++
      (if L.noVel then [".NO_VELOCITY.".toList] else []) ++
      [ecLine ((if L.noVel then 3 else 6) + L.aux.length)] ++
      (L.aux.zipIdx.map auxLine) ++ [[]] ++ xcfgAtomLines L none d.atoms = writeXcfgL L d := by
  simp only [writeXcfgL, List.append_assoc, List.cons_append, List.nil_append]

theorem writeXcfg_eq (d : XcfgS) : writeXcfg d = writeXcfgL (xcfgLayout d) d := by
  rw [← writeXcfgL_eq]
  rfl

theorem IsTok_lit (s : Str) (h : (!s.isEmpty && s.all (fun c => !isWs c)) = true) : IsTok s := by
  simp only [Bool.and_eq_true, Bool.not_eq_true', List.all_eq_true] at h
  refine ⟨?_, fun c hc => ?_⟩
  · intro e; subst e; simp at h
  · simpa using h.2 c hc

theorem uNamesOf_tok (L : XLayout) : ∀ nm ∈ uNamesOf L, IsTok nm := by
  have hall : ∀ nm ∈ ["Uiso".toList, "U11".toList, "U22".toList, "U33".toList, "U12".toList, "U13".toList, "U23".toList],
      IsTok nm := by
    intro nm h
    simp only [List.mem_cons, List.not_mem_nil, or_false] at h
    rcases h with h | h | h | h | h | h | h <;> subst h <;> exact IsTok_lit _ (by decide)
  intro nm h
  apply hall
  unfold uNamesOf at h
  split at h
  · cases h
  · split at h
    · simp only [List.mem_singleton] at h; simp [h]
    · cases L.u12 <;> cases L.u13 <;> cases L.u23 <;> simp at h ⊢ <;> tauto

theorem layout_aux_tok (d : XcfgS) (hs : d.storedAux.all elemOk = true) : ∀ nm ∈ (xcfgLayout d).aux, IsTok nm := by
  intro nm hnm
  rw [layout_aux] at hnm
  simp only [List.mem_append] at hnm
  rcases hnm with (h | h) | h
  · have := (List.mem_filter.1 h).1
    exact IsTok_of_elemOk (List.all_eq_true.1 hs nm this)
  · split at h
    · simp only [List.mem_singleton] at h; subst h; exact IsTok_lit _ (by decide)
    · cases h
  · exact uNamesOf_tok _ nm h

theorem xcfgAtomLines_snoc (L : XLayout) : ∀ (as : List XAtom) (prev : Option Str), as ≠ [] →
    ∃ pre a, a ∈ as ∧ xcfgAtomLines L prev as = pre ++ [xcfgEntry L a] := by
  intro as
  induction as with
  | nil => intro _ h; exact absurd rfl h
  | cons a as ih =>
    intro prev _
    by_cases has : as = []
    · subst has
      exact ⟨(if prev = some a.el then [] else [fmtF 0 4 a.mass, a.el]), a, by simp, by simp [xcfgAtomLines]⟩
    · obtain ⟨pre, b, hb, e⟩ := ih (some a.el) has
      refine ⟨(if prev = some a.el then [] else [fmtF 0 4 a.mass, a.el]) ++ xcfgEntry L a :: pre, b, by simp [hb], ?_⟩
      simp [xcfgAtomLines, e]

theorem entryVals_ne_nil (L : XLayout) (a : XAtom) : entryVals L a ≠ [] := by
  simp [entryVals, xcfgPos]

theorem xcfgEntry_nonblank (L : XLayout) (a : XAtom) : (strip (xcfgEntry L a)).isEmpty = false := by
  apply strip_ne_of_split
  rw [xcfgEntry_eq, splitWs_entry]
  simpa using entryVals_ne_nil L a

theorem xcfgEntry_ne_nil (L : XLayout) (a : XAtom) : xcfgEntry L a ≠ [] := by
  intro h
  have := xcfgEntry_nonblank L a
  rw [h] at this
  simp [strip, lstrip, rstrip] at this

def hdr0 : XHdr := ⟨none, none, List.replicate 9 none, false, none, []⟩

/-- the header of a written XCFG file, evaluated: the reader's state at the `break`, and the lines left
(the first mass line is consumed by the `break`) -/
theorem xcfgHeader_write (L : XLayout) (d : XcfgS) (a : XAtom) (as : List XAtom) (hat : d.atoms = a :: as)
    (hb : d.base.length = 9) (htok : ∀ nm ∈ L.aux, IsTok nm) :
    xcfgHeader (writeXcfgL L d) hdr0 =
      .ok (⟨some (d.atoms.length : Int), some (roundSig 8 (L.a : Rat)),
            d.base.map (fun b => some (roundSig 8 b)), L.noVel,
            some (((if L.noVel then 3 else 6) + L.aux.length : Nat) : Int),
            auxPairs L.aux 0⟩,
           a.el :: xcfgEntry L a :: xcfgAtomLines L (some a.el) as) := by
  rw [writeXcfgL, hat, xcfgAtomLines, hdr0]
  unfold numLine aLine ecLine
  rw [xh_n', xh_A', xh_H0block d.base hb]
  cases hnv : L.noVel with
  | true =>
    simp only [if_true, List.cons_append, List.nil_append]
    rw [xh_novel', xh_ec', xh_auxes' _ htok, xh_blank]
    simp only [reduceCtorEq, if_false, List.cons_append, List.nil_append]
    rw [xh_mass']
  | false =>
    simp only [Bool.false_eq_true, if_false, List.nil_append]
    rw [xh_ec', xh_auxes' _ htok, xh_blank]
    simp only [reduceCtorEq, if_false, List.cons_append, List.nil_append]
    rw [xh_mass']

theorem mapM_id_some {α} (l : List α) (f : α → α) : (l.map (fun b => some (f b))).mapM id = some (l.map f) := by
  induction l with
  | nil => rfl
  | cons a l ih => simp [ih]

theorem writeXcfgL_snoc (L : XLayout) (d : XcfgS) (hne : d.atoms ≠ []) :
    ∃ Y b, b ∈ d.atoms ∧ writeXcfgL L d = Y ++ [xcfgEntry L b] := by
  obtain ⟨pre, b, hb, e⟩ := xcfgAtomLines_snoc L d.atoms none hne
  refine ⟨[numLine d.atoms.length, aLine (L.a : Rat)] ++
      (List.range 9).map (h0Line d.base) ++
      (if L.noVel then [".NO_VELOCITY.".toList] else []) ++
      [ecLine ((if L.noVel then 3 else 6) + L.aux.length)] ++
      (L.aux.zipIdx.map auxLine) ++ [[]] ++ pre, b, hb, ?_⟩
  rw [← writeXcfgL_eq, e, ← List.append_assoc]

/-- line level: `parseLines(toLines(s))` for XCFG, for any layout whose auxiliary list has the
right length -/
theorem parseXcfg_writeXcfgL (L : XLayout) (d : XcfgS) (hne : d.atoms ≠ []) (hb : d.base.length = 9)
    (htok : ∀ nm ∈ L.aux, IsTok nm) (nst : Nat) (hL : L.aux.length = nst + (if L.occ then 1 else 0) + uCount L)
    (hwf : ∀ a ∈ d.atoms, atomWF L nst a) :
    parseXcfg (writeXcfgL L d) = .ok (quantXcfgL L d) := by
  obtain ⟨a, as, hat⟩ : ∃ a as, d.atoms = a :: as := by
    cases h : d.atoms with
    | nil => exact absurd h hne
    | cons a as => exact ⟨a, as, rfl⟩
  have hdrop : dropTrailingBlank (writeXcfgL L d) = writeXcfgL L d := by
    obtain ⟨Y, b, _, e⟩ := writeXcfgL_snoc L d hne
    rw [e]
    exact dropTrailingBlank_snoc Y _ (xcfgEntry_nonblank L b)
  have hdata := xcfgData_atoms L (roundSig 8 (L.a : Rat)) nst hL (a :: as) a.el (by rw [← hat]; exact hwf)
  have hdata' : xcfgData (roundSig 8 (L.a : Rat)) L.noVel ((if L.noVel then 3 else 6) + L.aux.length) L.aux none
      (a.el :: xcfgEntry L a :: xcfgAtomLines L (some a.el) as) = .ok ((a :: as).map (xreadOf L (roundSig 8 (L.a : Rat)))) := by
    have ha := hwf a (by rw [hat]; simp)
    rw [xcfgData_el _ _ _ _ _ _ _ ha.1 ha.2.1]
    simpa [xcfgAtomLines] using hdata
  have hec : ((L.aux.length : Int) + (if L.noVel then 3 else 6)) =
      (((if L.noVel then 3 else 6) + L.aux.length : Nat) : Int) := by
    cases L.noVel <;> simp <;> omega
  unfold parseXcfg
  rw [hdrop]
  have hw := xcfgHeader_write L d a as hat hb htok
  rw [hdr0] at hw
  rw [hw]
  simp only [mapM_id_some, auxnum_eq, hec, Int.toNat_natCast, ne_eq, not_true_eq_false, if_false]
  generalize hg : List.map _ (List.range L.aux.length) = names
  have hnames : names = L.aux := by
    rw [← hg]
    apply range_map_eq
    intro i hi
    have := auxPairs_find L.aux 0 i hi
    simp only [Nat.zero_add] at this
    simp [this]
  rw [hnames, hdata']
  simp [quantXcfgL, hat]

/-! ## XCFG: text level -/

theorem NoNL_lit (s : Str) (h : s.all (fun c => !isNL c) = true) : NoNL s := by
  intro c hc
  have := List.all_eq_true.1 h c hc
  simpa using this

theorem NoNL_tok {t : Str} (h : IsTok t) : NoNL t := NoNL_of_NoWs h.2

theorem NoNL_g8 (x : Rat) : NoNL (g8 x) := NoNL_tok (IsTok_g8 x)

theorem NoNL_natDigits (n : Nat) : NoNL (natDigits n) := NoNL_tok (IsTok_natDigits n)

theorem NoNL_xcfgEntry (L : XLayout) (a : XAtom) : NoNL (xcfgEntry L a) := by
  rw [xcfgEntry_eq, ssv]
  apply NoNL_joinSep NoNL_ssvsep
  intro f hf
  obtain ⟨x, _, rfl⟩ := List.mem_map.1 hf
  exact NoNL_g8 x

theorem NoNL_xcfgAtomLines (L : XLayout) : ∀ (as : List XAtom) (prev : Option Str),
    (∀ a ∈ as, elemOk a.el = true) → ∀ l ∈ xcfgAtomLines L prev as, NoNL l := by
  intro as
  induction as with
  | nil => intro _ _ l hl; cases hl
  | cons a as ih =>
    intro prev hel l hl
    simp only [xcfgAtomLines, List.mem_append, List.mem_cons] at hl
    rcases hl with hl | rfl | hl
    · split at hl
      · cases hl
      · simp only [List.mem_cons, List.not_mem_nil, or_false] at hl
        rcases hl with rfl | rfl
        · exact NoNL_fmtF 0 4 a.mass
        · exact NoNL_elem (hel a (by simp))
    · exact NoNL_xcfgEntry L a
    · exact ih (some a.el) (fun b hb => hel b (by simp [hb])) l hl

theorem NoNL_writeXcfgL (L : XLayout) (d : XcfgS) (htok : ∀ nm ∈ L.aux, IsTok nm) (hel : ∀ a ∈ d.atoms, elemOk a.el = true) :
    ∀ l ∈ writeXcfgL L d, NoNL l := by
  intro l hl
  rw [← writeXcfgL_eq] at hl
  simp only [List.mem_append, List.mem_cons, List.not_mem_nil, or_false, List.mem_map, List.mem_range] at hl
  rcases hl with (((((hl | hl) | hl) | hl) | hl) | hl) | hl
  · rcases hl with rfl | rfl
    · unfold numLine; rw [lNumEq]
      exact NoNL_append (NoNL_lit _ (by decide)) (NoNL_natDigits _)
    · unfold aLine; rw [lAeq, lAng]
      exact NoNL_append (NoNL_append (NoNL_lit _ (by decide)) (NoNL_g8 _)) (NoNL_lit _ (by decide))
  · obtain ⟨k, _, rfl⟩ := hl
    unfold h0Line nameI; rw [lH0, lH0e, lHA]
    exact NoNL_append (NoNL_append (NoNL_append (NoNL_append (NoNL_append (NoNL_append (NoNL_lit _ (by decide))
      (NoNL_natDigits _)) (NoNL_lit _ (by decide))) (NoNL_natDigits _)) (NoNL_lit _ (by decide))) (NoNL_g8 _))
      (NoNL_lit _ (by decide))
  · split at hl
    · simp only [List.mem_singleton] at hl; subst hl; rw [lNoVel]; exact NoNL_lit _ (by decide)
    · cases hl
  · subst hl
    unfold ecLine; rw [lEcEq]
    exact NoNL_append (NoNL_lit _ (by decide)) (NoNL_natDigits _)
  · obtain ⟨p, hp, rfl⟩ := hl
    have hnm : IsTok p.1 := htok p.1 (List.fst_mem_of_mem_zipIdx hp)
    unfold auxLine; rw [lAux, lAuxE, lAu]
    exact NoNL_append (NoNL_append (NoNL_append (NoNL_append (NoNL_lit _ (by decide)) (NoNL_natDigits _))
      (NoNL_lit _ (by decide))) (NoNL_tok hnm)) (NoNL_lit _ (by decide))
  · subst hl; exact NoNL_nil
  · exact NoNL_xcfgAtomLines L d.atoms none hel l hl

theorem layout_noVel (d : XcfgS) :
    (xcfgLayout d).noVel = (match d.atoms with | a :: _ => a.v.isNone | [] => true) := rfl

/-- what `reprXcfg` says, as propositions -/
theorem reprXcfg_spec (d : XcfgS) (h : reprXcfg d = true) :
    d.atoms ≠ [] ∧ d.base.length = 9 ∧ d.storedAux.all elemOk = true ∧
    ∀ a ∈ d.atoms, atomWF (xcfgLayout d) (storedOf d).length a := by
  simp only [reprXcfg, rangeXcfg, wfXcfg, Bool.and_eq_true, Bool.not_eq_true', List.all_eq_true, beq_iff_eq,
    Bool.or_eq_true] at h
  obtain ⟨⟨⟨⟨⟨hne, hb⟩, hat⟩, hs⟩, _⟩, hax, hv⟩ := h
  refine ⟨?_, hb, List.all_eq_true.2 hs, ?_⟩
  · intro e; rw [e] at hne; simp at hne
  · intro a ha
    obtain ⟨⟨he, hf⟩, _⟩ := hat a ha
    refine ⟨he, hf, hax a ha, ?_⟩
    intro hnv
    rw [layout_noVel] at hnv
    rcases hv with hv | hv
    · cases hda : d.atoms with
      | nil => rw [hda] at ha; cases ha
      | cons b bs =>
        rw [hda] at hnv hv
        simp only at hnv hv
        rw [hv] at hnv; cases hnv
    · exact hv a ha

/-- string level: `readStr(writeStr("xcfg"), "xcfg")` — the full statement for XCFG -/
theorem roundtrip_xcfg : roundtrip_xcfg_statement := by
  intro d h
  obtain ⟨hne, hb, hs, hwf⟩ := reprXcfg_spec d h
  have htok := layout_aux_tok d hs
  have hel : ∀ a ∈ d.atoms, elemOk a.el = true := fun a ha => (hwf a ha).1
  have hL := layout_aux_length d
  rw [writeXcfg_eq, quantXcfg_eq]
  generalize xcfgLayout d = L at *
  have hne' : writeXcfgL L d ≠ [] := by rw [writeXcfgL]; exact List.cons_ne_nil _ _
  rw [ofText_toText (writeXcfgL L d) hne' (NoNL_writeXcfgL L d htok hel)]
  · exact parseXcfg_writeXcfgL L d hne hb htok _ hL hwf
  · obtain ⟨Y, b, _, e⟩ := writeXcfgL_snoc L d hne
    simp only [e, List.getLast_append_singleton]
    exact xcfgEntry_ne_nil L b

end DS.Formats
