import DS.Model.Adp
import DS.Lemmas.RealElem
import Mathlib.Analysis.SpecialFunctions.Trigonometric.Basic
import Mathlib.Tactic.NormNum
import Mathlib.Tactic.Linarith

/-!
Helper lemmas for C09 / C14: the ADP state machine of `DS.Model.Adp` over the reals.
-/
namespace DS
open Real

/-- the constants of `atom.py` over the reals: `π` and `ε = 10⁻⁸` -/
noncomputable instance : AdpConst ℝ where
  pi := Real.pi
  eps := 1 / 100000000

theorem eps_pos : (0 : ℝ) < (AdpConst.eps : ℝ) := by
  show (0 : ℝ) < 1 / 100000000
  norm_num

/-- `_BtoU = 1/(8π²)` -/
theorem BtoU_eq : (BtoU : ℝ) = 1 / (8 * π ^ 2) := by
  show (1 : ℝ) / (8 * (π * π)) = 1 / (8 * π ^ 2)
  ring

/-- `_UtoB = 8π²` -/
theorem UtoB_eq : (UtoB : ℝ) = 8 * π ^ 2 := by
  show (1 : ℝ) / (1 / (8 * (π * π))) = 8 * π ^ 2
  have : (π : ℝ) ≠ 0 := Real.pi_ne_zero
  field_simp

theorem UtoB_mul_BtoU : (UtoB : ℝ) * BtoU = 1 := by
  rw [UtoB_eq, BtoU_eq]
  have : (π : ℝ) ≠ 0 := Real.pi_ne_zero
  field_simp

theorem absα_zero : absα (0 : ℝ) = 0 := by simp [absα]

/-! ### matrix algebra used below (commutative ring) -/
namespace Mat3
variable {R : Type} [CommRing R]

theorem smul_mul (c : R) (a b : Mat3 R) : (smul c a).mul b = smul c (a.mul b) := by
  apply ext' <;> simp only [mul, smul] <;> ring

theorem mul_smul (c : R) (a b : Mat3 R) : a.mul (smul c b) = smul c (a.mul b) := by
  apply ext' <;> simp only [mul, smul] <;> ring

theorem transpose_one : (one : Mat3 R).transpose = one := rfl

theorem trace_smul_one (c : R) : (smul c (one : Mat3 R)).trace = 3 * c := by
  simp only [trace, smul, one]; ring

theorem isSymm_iff_transpose (m : Mat3 R) : m.isSymm ↔ m.transpose = m := by
  constructor
  · rintro ⟨h1, h2, h3⟩
    apply ext' <;> simp only [transpose] <;> simp [h1, h2, h3]
  · intro h
    refine ⟨?_, ?_, ?_⟩
    · have := congrArg Mat3.a21 h; simpa [transpose] using this
    · have := congrArg Mat3.a31 h; simpa [transpose] using this
    · have := congrArg Mat3.a32 h; simpa [transpose] using this

theorem isSymm_one : (one : Mat3 R).isSymm := ⟨rfl, rfl, rfl⟩
theorem isSymm_zero : (zero : Mat3 R).isSymm := ⟨rfl, rfl, rfl⟩

theorem isSymm_smul {m : Mat3 R} (c : R) (h : m.isSymm) : (smul c m).isSymm := by
  obtain ⟨h1, h2, h3⟩ := h
  exact ⟨by simp only [smul, h1], by simp only [smul, h2], by simp only [smul, h3]⟩

theorem isSymm_scaleR {m : Mat3 R} (c : R) (h : m.isSymm) : (m.scaleR c).isSymm := by
  obtain ⟨h1, h2, h3⟩ := h
  exact ⟨by simp only [scaleR, h1], by simp only [scaleR, h2], by simp only [scaleR, h3]⟩

omit [CommRing R] in
theorem isSymm_set00 {m : Mat3 R} (v : R) (h : m.isSymm) : (m.set .i0 .i0 v).isSymm := h

omit [CommRing R] in
/-- `_set_Uij` writes `[i,j]` and `[j,i]`: symmetry is kept -/
theorem isSymm_set_set {m : Mat3 R} (i j : Ix) (v : R) (h : m.isSymm) :
    ((m.set i j v).set j i v).isSymm := by
  obtain ⟨h1, h2, h3⟩ := h
  cases i <;> cases j <;> exact ⟨by simp [set, h1], by simp [set, h2], by simp [set, h3]⟩

/-- `AᵀA` is symmetric -/
theorem isSymm_transpose_mul_self (m : Mat3 R) : (m.transpose.mul m).isSymm := by
  refine ⟨?_, ?_, ?_⟩ <;> simp only [mul, transpose] <;> ring

/-- `Tᵀ·(U·T)` is symmetric when `U` is -/
theorem isSymm_conj {u : Mat3 R} (t : Mat3 R) (h : u.isSymm) : (t.transpose.mul (u.mul t)).isSymm := by
  obtain ⟨h1, h2, h3⟩ := h
  refine ⟨?_, ?_, ?_⟩ <;> simp only [mul, transpose, h1, h2, h3] <;> ring

end Mat3

/-! ### consequences of `LatOK` -/
section latok
variable {l : LatData ℝ}

theorem LatOK.normbase_recnormbase (h : LatOK l) : l.normbase.mul l.recnormbase = Mat3.one := by
  have ha := h.ar_ne; have hb := h.br_ne; have hc := h.cr_ne
  have e := h.base_rec
  have e11 := congrArg Mat3.a11 e; have e12 := congrArg Mat3.a12 e; have e13 := congrArg Mat3.a13 e
  have e21 := congrArg Mat3.a21 e; have e22 := congrArg Mat3.a22 e; have e23 := congrArg Mat3.a23 e
  have e31 := congrArg Mat3.a31 e; have e32 := congrArg Mat3.a32 e; have e33 := congrArg Mat3.a33 e
  simp only [Mat3.mul, Mat3.one] at e11 e12 e13 e21 e22 e23 e31 e32 e33
  rw [h.normbase_def, h.recnormbase_def]
  apply Mat3.ext' <;> simp only [Mat3.mul, Mat3.rowScale, Mat3.colDiv, Mat3.one] <;> field_simp
  · linear_combination e11
  · linear_combination l.ar * e12
  · linear_combination l.ar * e13
  · linear_combination l.br * e21
  · linear_combination e22
  · linear_combination l.br * e23
  · linear_combination l.cr * e31
  · linear_combination l.cr * e32
  · linear_combination e33

theorem LatOK.recnormbase_normbase (h : LatOK l) : l.recnormbase.mul l.normbase = Mat3.one := by
  have ha := h.ar_ne; have hb := h.br_ne; have hc := h.cr_ne
  have e := h.rec_base
  have e11 := congrArg Mat3.a11 e; have e12 := congrArg Mat3.a12 e; have e13 := congrArg Mat3.a13 e
  have e21 := congrArg Mat3.a21 e; have e22 := congrArg Mat3.a22 e; have e23 := congrArg Mat3.a23 e
  have e31 := congrArg Mat3.a31 e; have e32 := congrArg Mat3.a32 e; have e33 := congrArg Mat3.a33 e
  simp only [Mat3.mul, Mat3.one] at e11 e12 e13 e21 e22 e23 e31 e32 e33
  rw [h.normbase_def, h.recnormbase_def]
  apply Mat3.ext' <;> simp only [Mat3.mul, Mat3.rowScale, Mat3.colDiv, Mat3.one] <;> field_simp
  · linear_combination e11
  · linear_combination e12
  · linear_combination e13
  · linear_combination e21
  · linear_combination e22
  · linear_combination e23
  · linear_combination e31
  · linear_combination e32
  · linear_combination e33

/-- forcing the diagonal changes nothing for a genuine lattice -/
theorem LatOK.iso_eq (h : LatOK l) : l.isotropicunit = l.recnormbase.transpose.mul l.recnormbase := by
  rw [h.iso_def]
  have h1 := h.iso_diag11; have h2 := h.iso_diag22; have h3 := h.iso_diag33
  apply Mat3.ext' <;> simp only [isotropicunitOf, Mat3.forceDiag1]
  · exact h1.symm
  · exact h2.symm
  · exact h3.symm

theorem LatOK.iso_symm (h : LatOK l) : l.isotropicunit.isSymm := by
  rw [h.iso_eq]; exact Mat3.isSymm_transpose_mul_self _

theorem LatOK.iso_diag (h : LatOK l) :
    l.isotropicunit.a11 = 1 ∧ l.isotropicunit.a22 = 1 ∧ l.isotropicunit.a33 = 1 := by
  rw [h.iso_def]; exact ⟨rfl, rfl, rfl⟩

/-- Cartesian form of `u · isotropicunit` is `u · 1` -/
theorem LatOK.ucart_iso (h : LatOK l) (u : ℝ) :
    AtomS.ucart l (Mat3.smul u l.isotropicunit) = Mat3.smul u Mat3.one := by
  unfold AtomS.ucart
  rw [h.iso_eq, Mat3.smul_mul, Mat3.mul_smul, Mat3.mul_assoc, h.recnormbase_normbase, Mat3.mul_one,
    ← Mat3.transpose_mul, h.recnormbase_normbase, Mat3.transpose_one]

/-- the six-term formula of `Uisoequiv` is one third of the trace of the Cartesian tensor -/
theorem LatOK.sixterm_trace (h : LatOK l) {u : Mat3 ℝ} (hu : u.isSymm) :
    1 / 3 *
        (u.a11 * l.ar * l.ar * l.a * l.a + u.a22 * l.br * l.br * l.b * l.b + u.a33 * l.cr * l.cr * l.c * l.c
          + 2 * u.a12 * l.ar * l.br * l.a * l.b * l.cg + 2 * u.a13 * l.ar * l.cr * l.a * l.c * l.cb
          + 2 * u.a23 * l.br * l.cr * l.b * l.c * l.ca)
      = (AtomS.ucart l u).trace / 3 := by
  obtain ⟨s1, s2, s3⟩ := hu
  have e := h.metrics_gram
  rw [h.metrics_def] at e
  have e11 := congrArg Mat3.a11 e; have e12 := congrArg Mat3.a12 e; have e13 := congrArg Mat3.a13 e
  have e22 := congrArg Mat3.a22 e; have e23 := congrArg Mat3.a23 e; have e33 := congrArg Mat3.a33 e
  simp only [Mat3.mul, Mat3.transpose, metricsOf] at e11 e12 e13 e22 e23 e33
  unfold AtomS.ucart
  rw [h.normbase_def]
  simp only [Mat3.mul, Mat3.transpose, Mat3.rowScale, Mat3.trace, ← s1, ← s2, ← s3]
  linear_combination (-(1 : ℝ) / 3 * u.a11 * l.ar * l.ar) * e11 + (-(1 : ℝ) / 3 * u.a22 * l.br * l.br) * e22
    + (-(1 : ℝ) / 3 * u.a33 * l.cr * l.cr) * e33 + (-(2 : ℝ) / 3 * u.a12 * l.ar * l.br) * e12
    + (-(2 : ℝ) / 3 * u.a13 * l.ar * l.cr) * e13 + (-(2 : ℝ) / 3 * u.a23 * l.br * l.cr) * e23

/-- `Lattice()` satisfies the hypotheses -/
theorem latOK_cartesian : LatOK (cartesianLat : LatData ℝ) where
  base_rec := by simp only [cartesianLat]; exact Mat3.mul_one _
  rec_base := by simp only [cartesianLat]; exact Mat3.mul_one _
  normbase_def := by apply Mat3.ext' <;> simp [cartesianLat, Mat3.rowScale, Mat3.one]
  recnormbase_def := by apply Mat3.ext' <;> simp [cartesianLat, Mat3.colDiv, Mat3.one]
  ar_ne := by simp [cartesianLat]
  br_ne := by simp [cartesianLat]
  cr_ne := by simp [cartesianLat]
  iso_def := by apply Mat3.ext' <;> simp [cartesianLat, isotropicunitOf, Mat3.forceDiag1, Mat3.mul, Mat3.transpose, Mat3.one]
  iso_diag11 := by simp [cartesianLat, Mat3.mul, Mat3.transpose, Mat3.one]
  iso_diag22 := by simp [cartesianLat, Mat3.mul, Mat3.transpose, Mat3.one]
  iso_diag33 := by simp [cartesianLat, Mat3.mul, Mat3.transpose, Mat3.one]
  metrics_def := by apply Mat3.ext' <;> simp [cartesianLat, metricsOf, Mat3.one]
  metrics_gram := by apply Mat3.ext' <;> simp [cartesianLat, Mat3.mul, Mat3.transpose, Mat3.one]

end latok

/-! ### the invariant of the ADP state machine -/

/-- the lattice reference, when present, is a genuine lattice -/
def LatOK? (o : Option (LatData ℝ)) : Prop := ∀ l, o = some l → LatOK l

/-- invariant: symmetric storage, genuine lattice -/
structure AdpInv (s : AtomS ℝ) : Prop where
  symm : s.U.isSymm
  lat : LatOK? s.lat

/-- admissible steps: symmetric tensors, genuine lattices -/
def OpOK : AdpOp ℝ → Prop
  | .setU m => m.isSymm
  | .setLattice l => LatOK? l
  | _ => True

namespace AtomS
variable {s : AtomS ℝ}

theorem latOf_ok (h : AdpInv s) : LatOK s.latOf := by
  unfold latOf
  cases hl : s.lat with
  | none => exact latOK_cartesian
  | some l => exact h.lat l hl

theorem default_inv : AdpInv (AtomS.default : AtomS ℝ) :=
  ⟨Mat3.isSymm_zero, fun _ h => by simp [AtomS.default] at h⟩

theorem getU_fst_symm (h : AdpInv s) : (s.getU).1.isSymm := by
  unfold getU
  cases s.aniso with
  | true => exact h.symm
  | false => exact Mat3.isSymm_smul _ (latOf_ok h).iso_symm

theorem getU_snd_inv (h : AdpInv s) : AdpInv (s.getU).2 := by
  unfold getU
  cases hs : s.aniso with
  | true => exact h
  | false =>
    refine ⟨?_, h.lat⟩
    have := Mat3.isSymm_smul s.U.a11 (latOf_ok h).iso_symm
    simpa using this

theorem getU_snd_aniso : (s.getU).2.aniso = s.aniso := by
  unfold getU; split <;> rfl

theorem getU_snd_lat : (s.getU).2.lat = s.lat := by
  unfold getU; split <;> rfl

theorem setAniso_inv (b : Bool) (h : AdpInv s) : AdpInv (s.setAniso b) := by
  unfold setAniso
  by_cases hb : (b == s.aniso) = true
  · simp only [hb, if_true]; exact h
  · simp only [hb]
    cases b with
    | true =>
      have h2 := getU_snd_inv h
      exact ⟨h2.symm, by simpa using h2.lat⟩
    | false => exact ⟨Mat3.isSymm_set00 _ h.symm, h.lat⟩

theorem setUij_inv (i j : Ix) (v : ℝ) (h : AdpInv s) : AdpInv (s.setUij i j v) := by
  unfold setUij
  refine ⟨?_, h.lat⟩
  have h1 := Mat3.isSymm_set_set i j v h.symm
  by_cases hc : (!s.aniso && i == j && i != Ix.i0) = true
  · simp only [hc, if_true]; exact Mat3.isSymm_set00 _ h1
  · simp only [hc]; exact h1

theorem setUiso_inv (v : ℝ) (h : AdpInv s) : AdpInv (s.setUiso v) := by
  unfold setUiso
  cases hs : s.aniso with
  | false => exact ⟨Mat3.isSymm_set00 _ h.symm, h.lat⟩
  | true =>
    simp only [if_true]
    split
    · exact ⟨Mat3.isSymm_smul _ (latOf_ok h).iso_symm, h.lat⟩
    · exact ⟨Mat3.isSymm_scaleR _ h.symm, h.lat⟩

end AtomS

theorem apply_inv {s : AtomS ℝ} (op : AdpOp ℝ) (hop : OpOK op) (h : AdpInv s) : AdpInv (op.apply s) := by
  cases op with
  | setAniso b => exact AtomS.setAniso_inv b h
  | setU m => exact ⟨hop, h.lat⟩
  | setUij i j v => exact AtomS.setUij_inv i j v h
  | setBij i j v => exact AtomS.setUij_inv i j _ h
  | setUiso v => exact AtomS.setUiso_inv v h
  | setBiso v => exact AtomS.setUiso_inv _ h
  | setLattice l => exact ⟨h.symm, hop⟩
  | readU => exact AtomS.getU_snd_inv h

/-- the invariant holds after every admissible history -/
theorem runOps_inv (ops : List (AdpOp ℝ)) : ∀ {s : AtomS ℝ}, AdpInv s → (∀ op ∈ ops, OpOK op) → AdpInv (runOps s ops) := by
  induction ops with
  | nil => intro s h _; exact h
  | cons op ops ih =>
    intro s h hops
    show AdpInv (runOps (op.apply s) ops)
    exact ih (apply_inv op (hops op (List.mem_cons_self ..)) h) (fun o ho => hops o (List.mem_cons_of_mem _ ho))

/-! ### readable quantities of a state satisfying the invariant -/
namespace AtomS
variable {s : AtomS ℝ}

/-- `Uisoequiv = trace(Cartesian tensor)/3` -/
theorem uisoequiv_trace (h : AdpInv s) : s.uisoequiv = (ucart s.latOf (s.getU).1).trace / 3 := by
  have hl := latOf_ok h
  unfold uisoequiv getU
  cases hs : s.aniso with
  | false =>
    simp only [Bool.not_false, if_true, Bool.false_eq_true, if_false]
    rw [hl.ucart_iso, Mat3.trace_smul_one]; ring
  | true =>
    simp only [Bool.not_true, Bool.false_eq_true, if_false, if_true]
    cases hlat : s.lat with
    | none =>
      have : s.latOf = cartesianLat := by unfold latOf; rw [hlat]; rfl
      rw [this]
      simp only [ucart, cartesianLat, Mat3.transpose_one, Mat3.mul_one, Mat3.one_mul]
    | some l =>
      have : s.latOf = l := by unfold latOf; rw [hlat]; rfl
      rw [this]
      exact (h.lat l hlat).sixterm_trace h.symm

/-- value of `Uisoequiv` of an anisotropic state whose storage is `u · isotropicunit` -/
theorem uisoequiv_of_iso_storage (h : AdpInv s) (ha : s.aniso = true) (u : ℝ)
    (hU : s.U = Mat3.smul u s.latOf.isotropicunit) : s.uisoequiv = u := by
  rw [uisoequiv_trace h]
  have : (s.getU).1 = s.U := by unfold getU; simp [ha]
  rw [this, hU, (latOf_ok h).ucart_iso, Mat3.trace_smul_one]; ring

/-- `Uisoequiv` is linear in the storage of an anisotropic atom -/
theorem uisoequiv_scaleR (ha : s.aniso = true) (f : ℝ) :
    ({ s with U := s.U.scaleR f } : AtomS ℝ).uisoequiv = f * s.uisoequiv := by
  unfold uisoequiv
  simp only [ha, Bool.not_true, Bool.false_eq_true, if_false]
  cases s.lat with
  | none => simp only [Mat3.trace, Mat3.scaleR]; ring
  | some l => simp only [Mat3.scaleR]; ring

end AtomS
end DS
