import DS.Model.Sched
/-!
Invariant of the `publish` protocol (lemmas for property C19).  Core Lean only.
-/
namespace DS.Sched

variable {K : Nat} {val : Nat → Nat}

theorem isEmptyB_empty : isEmptyB K emptyT = true := by
  simp [isEmptyB, emptyT]

theorem prefixT_zero : prefixT K val 0 = emptyT := by
  funext k; simp [prefixT, emptyT]

theorem prefixT_full : prefixT K val K = fullT K val := by
  funext k; simp [prefixT, fullT]

theorem prefixT_of_ge {i : Nat} (h : K ≤ i) : prefixT K val i = fullT K val := by
  funext k; simp only [prefixT, fullT]
  by_cases hk : k < K
  · have : k < i := by omega
    simp [hk, this]
  · simp [hk]

theorem setdefault_prefix {i : Nat} (h : i < K) :
    setdefault (prefixT K val i) i (val i) = prefixT K val (i + 1) := by
  funext j
  simp only [setdefault, prefixT]
  by_cases hj : j = i
  · subst hj; simp [h]
  · by_cases h1 : j < i
    · have : j < i + 1 := by omega
      simp [hj, h1, this]
    · have : ¬ j < i + 1 := by omega
      simp [hj, h1, this]

theorem update_full (s : Table) (hs : s = emptyT ∨ s = fullT K val) :
    update s (fullT K val) = fullT K val := by
  funext k
  rcases hs with rfl | rfl <;> simp only [update, fullT, emptyT] <;> split <;> simp_all

theorem full_isSome {q : Nat} : ((fullT K val) q).isSome = decide (q < K) := by
  simp only [fullT]; split <;> simp_all

theorem isEmptyB_full_false (h : isEmptyB K (fullT K val) = false) : 0 < K := by
  rcases Nat.eq_zero_or_pos K with h0 | h0
  · subst h0; simp [isEmptyB] at h
  · exact h0

/-- what is known about one thread, given the shared table -/
def ThOK (K : Nat) (val : Nat → Nat) (sh : Table) (th : Thread) : Prop :=
  match th.pc with
  | .start => True
  | .pbuild priv i => priv = prefixT K val i
  | .iclear => False
  | .ibuild _ => False
  | .check rest => sh = fullT K val ∧ seqResult K val th.qs = seqResult K val rest
  | .get q => sh = fullT K val ∧ q < K ∧ seqResult K val th.qs = .found (val q)
  | .done r => r = seqResult K val th.qs

/-- THE invariant of the publish protocol: the shared table is empty or complete -/
def SharedOK (K : Nat) (val : Nat → Nat) (sh : Table) : Prop := sh = emptyT ∨ sh = fullT K val

def Inv (K : Nat) (val : Nat → Nat) (s : State) : Prop :=
  SharedOK K val s.shared ∧ ∀ th ∈ s.threads, ThOK K val s.shared th

theorem stepThread_publish {sh sh' : Table} {th th' : Thread}
    (hs : SharedOK K val sh) (ht : ThOK K val sh th)
    (h : stepThread .publish K val sh th = some (sh', th')) :
    SharedOK K val sh' ∧ ThOK K val sh' th' ∧ (sh = fullT K val → sh' = fullT K val) ∧ th'.qs = th.qs := by
  obtain ⟨qs, pc⟩ := th
  cases pc with
  | start =>
    simp only [stepThread] at h
    split at h
    · simp only [Option.some.injEq, Prod.mk.injEq] at h
      obtain ⟨rfl, rfl⟩ := h
      exact ⟨hs, by simp [ThOK, prefixT_zero], id, rfl⟩
    · rename_i hne
      simp only [Option.some.injEq, Prod.mk.injEq] at h
      obtain ⟨rfl, rfl⟩ := h
      rcases hs with rfl | rfl
      · exact absurd isEmptyB_empty hne
      · exact ⟨Or.inr rfl, ⟨rfl, rfl⟩, id, rfl⟩
  | pbuild priv i =>
    simp only [ThOK] at ht
    subst ht
    simp only [stepThread] at h
    split at h
    · rename_i hi
      simp only [Option.some.injEq, Prod.mk.injEq] at h
      obtain ⟨rfl, rfl⟩ := h
      exact ⟨hs, by simp [ThOK, setdefault_prefix hi], id, rfl⟩
    · rename_i hi
      simp only [Option.some.injEq, Prod.mk.injEq] at h
      obtain ⟨rfl, rfl⟩ := h
      have hp : prefixT K val i = fullT K val := prefixT_of_ge (by omega)
      have hu : update sh (prefixT K val i) = fullT K val := by rw [hp]; exact update_full sh hs
      exact ⟨Or.inr hu, ⟨hu, rfl⟩, fun _ => hu, rfl⟩
  | iclear => exact absurd ht (by simp [ThOK])
  | ibuild i => exact absurd ht (by simp [ThOK])
  | check rest =>
    simp only [ThOK] at ht
    obtain ⟨hfull, hseq⟩ := ht
    cases rest with
    | nil =>
      simp only [stepThread, Option.some.injEq, Prod.mk.injEq] at h
      obtain ⟨rfl, rfl⟩ := h
      exact ⟨hs, by simpa [ThOK, seqResult] using hseq.symm, id, rfl⟩
    | cons q rest =>
      simp only [stepThread] at h
      subst hfull
      rw [full_isSome] at h
      split at h
      · rename_i hq
        simp only [Option.some.injEq, Prod.mk.injEq] at h
        obtain ⟨rfl, rfl⟩ := h
        have hq' : q < K := by simpa using hq
        exact ⟨hs, ⟨rfl, hq', by simpa [seqResult, hq'] using hseq⟩, id, rfl⟩
      · rename_i hq
        simp only [Option.some.injEq, Prod.mk.injEq] at h
        obtain ⟨rfl, rfl⟩ := h
        have hq' : ¬ q < K := by simpa using hq
        exact ⟨hs, ⟨rfl, by simpa [seqResult, hq'] using hseq⟩, id, rfl⟩
  | get q =>
    simp only [ThOK] at ht
    obtain ⟨hfull, hq, hseq⟩ := ht
    subst hfull
    simp only [stepThread, fullT, hq, if_true, Option.some.injEq, Prod.mk.injEq] at h
    obtain ⟨rfl, rfl⟩ := h
    exact ⟨hs, by simpa [ThOK] using hseq.symm, id, rfl⟩
  | done r => simp [stepThread] at h

theorem ThOK_mono {sh sh' : Table} {th : Thread} (hm : sh = fullT K val → sh' = fullT K val)
    (ht : ThOK K val sh th) : ThOK K val sh' th := by
  obtain ⟨qs, pc⟩ := th
  cases pc <;> simp only [ThOK] at ht ⊢ <;> first
    | exact ht
    | exact ⟨hm ht.1, ht.2⟩

theorem inv_init (lookups : List (List Nat)) : Inv K val (init lookups) := by
  refine ⟨Or.inl rfl, ?_⟩
  intro th hth
  simp only [init, List.mem_map] at hth
  obtain ⟨qs, _, rfl⟩ := hth
  simp [ThOK]

theorem inv_step {s s' : State} {i : Nat} (hinv : Inv K val s)
    (h : step .publish K val s i = some s') : Inv K val s' := by
  simp only [step] at h
  split at h
  · cases h
  · rename_i th hth
    split at h
    · cases h
    · rename_i sh' th' hst
      simp only [Option.some.injEq] at h
      subst h
      have hmem : th ∈ s.threads := List.mem_of_getElem? hth
      obtain ⟨h1, h2, h3, _⟩ := stepThread_publish hinv.1 (hinv.2 th hmem) hst
      refine ⟨h1, ?_⟩
      intro t ht
      rcases List.mem_or_eq_of_mem_set ht with hin | rfl
      · exact ThOK_mono h3 (hinv.2 t hin)
      · exact h2

theorem inv_reach {lookups : List (List Nat)} {s : State}
    (h : Reach .publish K val lookups s) : Inv K val s := by
  induction h with
  | init => exact inv_init lookups
  | step i _ hs ih => exact inv_step ih hs

/-- the candidate lists of the threads never change -/
theorem step_qs {P : Protocol} {s s' : State} {i : Nat} (h : step P K val s i = some s') :
    s'.threads.map (·.qs) = s.threads.map (·.qs) := by
  simp only [step] at h
  split at h
  · cases h
  · rename_i th hth
    split at h
    · cases h
    · rename_i sh' th' hst
      simp only [Option.some.injEq] at h
      subst h
      have hq : th'.qs = th.qs := by
        obtain ⟨qs, pc⟩ := th
        simp only [stepThread] at hst
        repeat' split at hst
        all_goals (cases hst; try rfl)
      simp only [List.map_set, hq]
      apply List.ext_getElem?
      intro j
      by_cases hj : i = j
      · subst hj
        have hlt : i < s.threads.length := (List.getElem?_eq_some_iff.mp hth).1
        have he : s.threads[i] = th := (List.getElem?_eq_some_iff.mp hth).2
        simp [hlt, he]
      · simp [hj]

theorem reach_qs {P : Protocol} {lookups : List (List Nat)} {s : State}
    (h : Reach P K val lookups s) : s.threads.map (·.qs) = lookups := by
  induction h with
  | init => simp [init, Function.comp_def]
  | step i _ hs ih => rw [step_qs hs, ih]

theorem reach_run {P : Protocol} {lookups : List (List Nat)} {s : State}
    (h : Reach P K val lookups s) (sched : List Nat) : Reach P K val lookups (run P K val s sched) := by
  induction sched generalizing s with
  | nil => exact h
  | cons i rest ih =>
    simp only [run]
    split
    · rename_i s' hs; exact ih (Reach.step i h hs)
    · exact ih h

end DS.Sched
